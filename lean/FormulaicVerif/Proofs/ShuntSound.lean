import FormulaicVerif.Model.Shunt
import FormulaicVerif.Gen.OperatorTable
/-! Soundness side of the index-based shunting-yard (`Model/Shunt.lean`): an accepted token list is
never re-ordered, dropped from, or duplicated. The in-order reading (`yield`) of the returned tree is
a *reading* of the input token list (`Reads`): every non-bracket, non-operator token appears as
itself, in order; the four bracket tokens vanish; every operator token contributes, in order, exactly
one (enabled) operator from each candidate group the resolver produced for it.

Invariant of the run (`flat`): interleave the in-order readings of the output queue with the stacked
operators at their recorded indices. Every `operate` only groups adjacent elements around the
operator's position, provided the region it splices does not reach below the index of the entry
underneath (`Chain`). That holds for every operator table without an *infix operator of arity 0*
(`TableOk`; such a candidate is pushed without the "exactly one operand to the left" check and then
reaches below a prefix operator underneath: counterexample `cex_*` at the end of the file). -/
namespace FormulaicVerif.Proofs.ShuntSound
open FormulaicVerif FormulaicVerif.Model

/-! ### readings -/

/-- a symbol of the in-order reading: a leaf token or an operator -/
inductive Sym
  | tok (t : Tok)
  | op (o : OpSpec)
deriving DecidableEq, Repr

mutual
/-- in-order reading of a tree: an infix operator is read after its first argument, a prefix
operator before its arguments, a postfix operator after them -/
def yield : Ast → List Sym
  | .leaf t => [.tok t]
  | .node o args =>
    match o.fixity with
    | .infix => yieldsIn o args
    | .prefix => .op o :: yields args
    | .postfix => yields args ++ [.op o]
/-- concatenated readings of a list of trees -/
def yields : List Ast → List Sym
  | [] => []
  | a :: as => yield a ++ yields as
/-- reading of the arguments of an infix node, the operator after the first one -/
def yieldsIn (o : OpSpec) : List Ast → List Sym
  | [] => [.op o]
  | a :: as => yield a ++ .op o :: yields as
end

theorem yield_infix (o : OpSpec) (h : o.fixity = .infix) (a b : Ast) :
    yield (.node o [a, b]) = yield a ++ [.op o] ++ yield b := by
  simp [yield, h, yieldsIn, yields]

theorem yield_prefix1 (o : OpSpec) (h : o.fixity = .prefix) (a : Ast) :
    yield (.node o [a]) = [.op o] ++ yield a := by
  simp [yield, h, yields]

theorem yields_append (a b : List Ast) : yields (a ++ b) = yields a ++ yields b := by
  induction a with
  | nil => simp [yields]
  | cons x xs ih => simp [yields, ih]

/-- the four bracket tokens -/
def IsBracket (t : Tok) : Prop :=
  t.kind = some .context ∧ (t.text = ['('] ∨ t.text = ['['] ∨ t.text = [')'] ∨ t.text = [']'])

/-- `chosen` picks exactly one enabled operator from each candidate group, in order -/
inductive Picks : List (List OpSpec) → List OpSpec → Prop
  | nil : Picks [] []
  | cons {g : List OpSpec} {gs : List (List OpSpec)} {o : OpSpec} {os : List OpSpec} :
      o ∈ g → o.disabled = false → Picks gs os → Picks (g :: gs) (o :: os)

/-- what one token contributes to a reading -/
inductive TokReads (tab : OpTable) : Tok → List Sym → Prop
  | bracket {t : Tok} : IsBracket t → TokReads tab t []
  | oper {t : Tok} {groups : List (List OpSpec)} {chosen : List OpSpec} :
      t.kind = some .operator → resolveToken tab t.text = .ok groups → Picks groups chosen →
      TokReads tab t (chosen.map Sym.op)
  | leaf {t : Tok} : t.kind ≠ some .context → t.kind ≠ some .operator → TokReads tab t [.tok t]

/-- `syms` is a reading of the token list `ts` -/
inductive Reads (tab : OpTable) : List Tok → List Sym → Prop
  | nil : Reads tab [] []
  | cons {t : Tok} {ts : List Tok} {d syms : List Sym} :
      TokReads tab t d → Reads tab ts syms → Reads tab (t :: ts) (d ++ syms)

/-! ### the tables covered -/

/-- no infix operator of arity 0 -/
def OpOk (o : OpSpec) : Prop := o.fixity = .infix → o.arity ≠ 0

def TableOk (tab : OpTable) : Prop := ∀ p ∈ tab, ∀ o ∈ p.2, OpOk o

instance (tab : OpTable) : Decidable (TableOk tab) := by
  unfold TableOk OpOk; infer_instance

/-! ### the invariant -/

def sym : SEntry → List Sym
  | .ctx _ _ => []
  | .op o _ => [.op o]

/-- lowest queue index the entry's `operate` will touch -/
def lo : SEntry → Nat
  | .ctx _ i => i
  | .op o i =>
    match o.fixity with
    | .infix => i - 1
    | .prefix => i
    | .postfix => i - o.arity

def baseIdx : List SEntry → Nat
  | [] => 0
  | e :: _ => e.idx

/-- the symbols read so far: queue readings interleaved with the stacked operators at their indices -/
def flat : List Ast → List SEntry → List Sym
  | out, [] => yields out
  | out, e :: stk => flat (out.take e.idx) stk ++ (sym e ++ yields (out.drop e.idx))

/-- no entry's splice region reaches below the index of the entry underneath -/
def Chain : List SEntry → Prop
  | [] => True
  | e :: stk => baseIdx stk ≤ lo e ∧ Chain stk

def Bounded (n : Nat) (stk : List SEntry) : Prop := ∀ e ∈ stk, e.idx ≤ n

theorem lo_le_idx (e : SEntry) : lo e ≤ e.idx := by
  cases e with
  | ctx c i => exact Nat.le_refl _
  | op o i =>
    simp only [lo, SEntry.idx]
    cases o.fixity <;> simp only <;> omega

theorem chain_bounded : ∀ (stk : List SEntry) (n : Nat), Chain stk → baseIdx stk ≤ n → Bounded n stk := by
  intro stk
  induction stk with
  | nil => intro n _ _ e he; cases he
  | cons e stk ih =>
    intro n hc hb x hx
    rcases List.mem_cons.mp hx with rfl | hx
    · exact hb
    · have h1 := lo_le_idx e
      simp only [baseIdx] at hb
      exact ih n hc.2 (by have := hc.1; omega) x hx

theorem flat_append (A B : List Ast) (stk : List SEntry) (h : Bounded A.length stk) :
    flat (A ++ B) stk = flat A stk ++ yields B := by
  cases stk with
  | nil => simp [flat, yields_append]
  | cons e stk =>
    have he : e.idx ≤ A.length := h e (by simp)
    simp only [flat, List.take_append_of_le_length he, List.drop_append_of_le_length he,
      yields_append, List.append_assoc]

/-! ### `operate` groups adjacent elements around the operator's position -/

theorem split3 (out : List Ast) (l m : Nat) (h : l + m ≤ out.length) :
    ∃ A M C, out = A ++ (M ++ C) ∧ A.length = l ∧ M.length = m ∧ out.take l = A ∧
      (out.drop l).take m = M ∧ out.drop (l + m) = C := by
  refine ⟨out.take l, (out.drop l).take m, out.drop (l + m), ?_, ?_, ?_, rfl, rfl, rfl⟩
  · rw [← List.drop_drop, List.take_append_drop, List.take_append_drop]
  · simp; omega
  · simp; omega

theorem operate_inv (o : OpSpec) (i : Nat) (out out' : List Ast) (h : operate o i out = .ok out') :
    ∃ A M1 M2 C, out = A ++ (M1 ++ (M2 ++ C)) ∧ A.length = lo (.op o i) ∧ A.length + M1.length = i ∧
      out' = A ++ (Ast.node o (M1 ++ M2) :: C) ∧
      yield (.node o (M1 ++ M2)) = yields M1 ++ Sym.op o :: yields M2 := by
  unfold operate at h
  cases hf : o.fixity with
  | «infix» =>
    simp only [hf] at h
    split at h
    · cases h
    · rename_i hc
      injection h with h
      simp only [Bool.or_eq_true, decide_eq_true_eq, not_or, Nat.not_lt] at hc
      obtain ⟨h1, h2⟩ := hc
      have hm : i + 1 - (i - 1) = 2 := by omega
      obtain ⟨A, M, C, e1, e2, e3, e4, e5, e6⟩ := split3 out (i - 1) 2 (by omega)
      have e6' : out.drop (i + 1) = C := by rw [← e6]; congr 1; omega
      rw [hm, e4, e5, e6'] at h
      match M, e3, e1 with
      | [a, b], _, e1 =>
        refine ⟨A, [a], [b], C, by simpa using e1, by simp [lo, hf, e2], by simp [e2]; omega, ?_, ?_⟩
        · rw [← h]; simp
        · simp [yield, hf, yieldsIn, yields]
  | «prefix» =>
    simp only [hf] at h
    split at h
    · cases h
    · rename_i hc
      injection h with h
      simp only [Bool.false_or, decide_eq_true_eq, Nat.not_lt] at hc
      have hm : i + o.arity - i = o.arity := by omega
      obtain ⟨A, M, C, e1, e2, e3, e4, e5, e6⟩ := split3 out i o.arity hc
      rw [hm, e4, e5, e6] at h
      refine ⟨A, [], M, C, by simpa using e1, by simp [lo, hf, e2], by simp [e2], ?_, ?_⟩
      · rw [← h]; simp
      · simp [yield, hf, yields]
  | «postfix» =>
    simp only [hf] at h
    split at h
    · cases h
    · rename_i hc
      injection h with h
      simp only [Bool.or_eq_true, decide_eq_true_eq, not_or, Nat.not_lt] at hc
      obtain ⟨h1, h2⟩ := hc
      have hm : i - (i - o.arity) = o.arity := by omega
      obtain ⟨A, M, C, e1, e2, e3, e4, e5, e6⟩ := split3 out (i - o.arity) o.arity (by omega)
      have e6' : out.drop i = C := by rw [← e6]; congr 1; omega
      rw [hm, e4, e5, e6'] at h
      refine ⟨A, M, [], C, by simpa using e1, by simp [lo, hf, e2], by simp [e2, e3]; omega, ?_, ?_⟩
      · rw [← h]; simp
      · simp [yield, hf, yields]

/-- one reduction keeps the reading and the invariant -/
theorem operate_step (o : OpSpec) (i : Nat) (out out' : List Ast) (stk : List SEntry)
    (h : operate o i out = .ok out') (hc : Chain (.op o i :: stk)) :
    Chain stk ∧ baseIdx stk ≤ out'.length ∧ flat out' stk = flat out (.op o i :: stk) := by
  obtain ⟨A, M1, M2, C, e1, e2, e3, e4, e5⟩ := operate_inv o i out out' h
  obtain ⟨hb, hc'⟩ := hc
  rw [← e2] at hb
  have hbd : Bounded A.length stk := chain_bounded stk _ hc' hb
  refine ⟨hc', by rw [e4]; simp; omega, ?_⟩
  subst e1 e4
  have hbd2 : Bounded (A ++ M1).length stk := by
    intro e he; have := hbd e he; simp; omega
  have ht : (A ++ (M1 ++ (M2 ++ C))).take i = A ++ M1 := by
    rw [← List.append_assoc]; exact List.take_left' (by simp [e3])
  have hd : (A ++ (M1 ++ (M2 ++ C))).drop i = M2 ++ C := by
    rw [← List.append_assoc]; exact List.drop_left' (by simp [e3])
  simp only [flat, SEntry.idx, ht, hd, sym]
  rw [flat_append _ _ _ hbd, flat_append _ _ _ hbd]
  simp only [yields, e5, yields_append, List.append_assoc, List.cons_append, List.nil_append]

/-! ### the loops -/

structure Inv (s : ShState) : Prop where
  chain : Chain s.stack
  base : baseIdx s.stack ≤ s.out.length

theorem popWhile_inv (c : OpSpec) : ∀ (stk : List SEntry) (out : List Ast) (s' : ShState),
    Chain stk → baseIdx stk ≤ out.length → popWhile c out stk = .ok s' →
      Inv s' ∧ flat s'.out s'.stack = flat out stk := by
  intro stk
  induction stk with
  | nil => intro out s' h1 h2 h; simp [popWhile] at h; subst h; exact ⟨⟨h1, h2⟩, rfl⟩
  | cons en stk ih =>
    intro out s' h1 h2 h
    cases en with
    | ctx ch i => simp [popWhile] at h; subst h; exact ⟨⟨h1, h2⟩, rfl⟩
    | op o i =>
      unfold popWhile at h
      split at h
      · cases ho : operate o i out with
        | error e => rw [ho] at h; cases h
        | ok out' =>
          rw [ho] at h
          obtain ⟨k1, k2, k3⟩ := operate_step o i out out' stk ho h1
          obtain ⟨r1, r2⟩ := ih out' s' k1 k2 h
          exact ⟨r1, r2.trans k3⟩
      · injection h with h; subst h; exact ⟨⟨h1, h2⟩, rfl⟩

theorem push_flat (out : List Ast) (e : SEntry) (stk : List SEntry) (h : e.idx = out.length) :
    flat out (e :: stk) = flat out stk ++ sym e := by
  simp [flat, h, yields]

/-- the pushed entry's region starts at or above the index of the entry underneath -/
theorem push_chain (c : OpSpec) (hok : OpOk c) (out : List Ast) (stk : List SEntry)
    (hb : baseIdx stk ≤ out.length) (hv : validHere c (out.length - baseIdx stk) = true) :
    baseIdx stk ≤ lo (.op c out.length) := by
  unfold validHere at hv
  simp only [lo]
  cases hf : c.fixity with
  | «infix» =>
    have ha := hok hf
    simp [hf, ha] at hv
    simp only; omega
  | «prefix» => simpa using hb
  | «postfix» =>
    simp only [hf] at hv
    simp at hv
    simp only
    rcases hv with hv | hv <;> omega

theorem tryCands_inv (cs : List OpSpec) (hcs : ∀ c ∈ cs, OpOk c) : ∀ (s s' : ShState),
    Inv s → tryCands cs s = .ok s' →
      Inv s' ∧ ∃ o ∈ cs, o.disabled = false ∧ flat s'.out s'.stack = flat s.out s.stack ++ [.op o] := by
  induction cs with
  | nil => intro s s' _ h; simp [tryCands] at h
  | cons c cs ih =>
    have ih' := ih (fun x hx => hcs x (by simp [hx]))
    have lift : ∀ {s s' : ShState} {base : List Sym},
        (Inv s' ∧ ∃ o ∈ cs, o.disabled = false ∧ flat s'.out s'.stack = base ++ [.op o]) →
        (Inv s' ∧ ∃ o ∈ c :: cs, o.disabled = false ∧ flat s'.out s'.stack = base ++ [.op o]) := by
      intro s s' base ⟨a, o, ho, b⟩; exact ⟨a, o, by simp [ho], b⟩
    intro s s' hi h
    unfold tryCands at h
    split at h
    · exact lift (s := s) (ih' s s' hi h)
    · by_cases hd : c.disabled = true
      · simp only [hd, if_true] at h; exact lift (s := s) (ih' s s' hi h)
      · have hd' : c.disabled = false := by simpa using hd
        simp only [hd', Bool.false_eq_true, if_false] at h
        cases hp : popWhile c s.out s.stack with
        | error e => rw [hp] at h; cases h
        | ok s1 =>
          rw [hp] at h
          obtain ⟨k1, k2⟩ := popWhile_inv c s.stack s.out s1 hi.chain hi.base hp
          simp only at h
          have hv' : ∀ {mp : Nat},
              mp = s1.out.length - baseIdx s1.stack →
              (if validHere c mp = true then
                  Except.ok { out := s1.out, stack := SEntry.op c s1.out.length :: s1.stack }
                else tryCands cs s1) = .ok s' →
              Inv s' ∧ ∃ o ∈ c :: cs, o.disabled = false ∧
                flat s'.out s'.stack = flat s.out s.stack ++ [.op o] := by
            intro mp hmp h
            subst hmp
            split at h
            · rename_i hv
              injection h with h; subst h
              refine ⟨⟨⟨push_chain c (hcs c (by simp)) _ _ k1.base hv, k1.chain⟩, Nat.le_refl _⟩,
                c, by simp, hd', ?_⟩
              simp only
              rw [push_flat _ _ _ rfl, k2]; rfl
            · obtain ⟨r1, o, ho, hdis, r2⟩ := ih' s1 s' k1 h
              exact ⟨r1, o, by simp [ho], hdis, by rw [r2, k2]⟩
          obtain ⟨out1, stk1⟩ := s1
          cases stk1 with
          | nil => exact hv' (by simp [baseIdx]) h
          | cons e r => exact hv' (by simp [baseIdx]) h

theorem closeCtx_inv (op : Char) : ∀ (stk : List SEntry) (out : List Ast) (s' : ShState),
    Chain stk → baseIdx stk ≤ out.length → closeCtx op out stk = .ok s' →
      Inv s' ∧ flat s'.out s'.stack = flat out stk := by
  intro stk
  induction stk with
  | nil => intro out s' _ _ h; simp [closeCtx] at h
  | cons en stk ih =>
    intro out s' h1 h2 h
    cases en with
    | ctx ch i =>
      unfold closeCtx at h
      split at h
      · injection h with h; subst h
        simp only [baseIdx, SEntry.idx] at h2
        have hb : baseIdx stk ≤ i := h1.1
        have hbd : Bounded (out.take i).length stk :=
          chain_bounded stk _ h1.2 (by rw [List.length_take]; omega)
        refine ⟨⟨h1.2, by simp only; omega⟩, ?_⟩
        have := flat_append (out.take i) (out.drop i) stk hbd
        rw [List.take_append_drop] at this
        simp only [flat, SEntry.idx, sym, List.nil_append]
        exact this
      · cases h
    | op o i =>
      unfold closeCtx at h
      cases ho : operate o i out with
      | error e => rw [ho] at h; cases h
      | ok out' =>
        rw [ho] at h
        obtain ⟨k1, k2, k3⟩ := operate_step o i out out' stk ho h1
        obtain ⟨r1, r2⟩ := ih out' s' k1 k2 h
        exact ⟨r1, r2.trans k3⟩

theorem runCands_inv (gs : List (List OpSpec)) (hgs : ∀ g ∈ gs, ∀ c ∈ g, OpOk c) : ∀ (s s' : ShState),
    Inv s → runCands gs s = .ok s' →
      Inv s' ∧ ∃ chosen, Picks gs chosen ∧
        flat s'.out s'.stack = flat s.out s.stack ++ chosen.map Sym.op := by
  induction gs with
  | nil => intro s s' hi h; simp [runCands] at h; subst h; exact ⟨hi, [], .nil, by simp⟩
  | cons g gs ih =>
    intro s s' hi h
    unfold runCands at h
    cases ht : tryCands g s with
    | error e => rw [ht] at h; cases h
    | ok s1 =>
      rw [ht] at h
      obtain ⟨k1, o, ho, hd, k2⟩ := tryCands_inv g (hgs g (by simp)) s s1 hi ht
      obtain ⟨r1, chosen, hp, r2⟩ := ih (fun g' hg' => hgs g' (by simp [hg'])) s1 s' k1 h
      exact ⟨r1, o :: chosen, .cons ho hd hp, by rw [r2, k2]; simp⟩

/-! ### candidate groups come from the table -/

theorem lookup_mem (tab : OpTable) (s : String) (cands : List OpSpec)
    (h : tab.lookup s = some cands) : ∃ p ∈ tab, p.2 = cands := by
  unfold OpTable.lookup at h
  split at h
  · rename_i p hp
    injection h with h
    exact ⟨p, List.mem_of_find?_eq_some hp, h⟩
  · cases h

theorem resolve_mem (tab : OpTable) (text : List Char) (groups : List (List OpSpec))
    (h : resolveToken tab text = .ok groups) : ∀ g ∈ groups, ∃ p ∈ tab, p.2 = g := by
  unfold resolveToken at h
  split at h
  · rename_i cands hl
    injection h with h; subst h
    intro g hg; simp at hg; subst hg; exact lookup_mem tab _ _ hl
  · simp only at h
    split at h
    · rename_i cands hl
      injection h with h; subst h
      intro g hg; simp at hg; subst hg; exact lookup_mem tab _ _ hl
    · generalize collapseSigns text = sym at h
      induction sym generalizing groups with
      | nil =>
        simp [List.mapM_nil, pure, Except.pure] at h
        subst h; intro g hg; cases hg
      | cons c cs ih =>
        simp only [List.mapM_cons, bind, Except.bind] at h
        split at h
        · cases h
        · rename_i v hv
          split at h
          · cases h
          · rename_i vs hvs
            simp only [pure, Except.pure] at h
            injection h with h; subst h
            intro g hg
            rcases List.mem_cons.mp hg with rfl | hg
            · split at hv
              · rename_i cands hl
                injection hv with hv; subst hv
                exact lookup_mem tab _ _ hl
              · cases hv
            · exact ih vs hvs g hg

/-! ### one token, all tokens -/

theorem shuntStep_inv (tab : OpTable) (htab : TableOk tab) (s s' : ShState) (t : Tok)
    (hi : Inv s) (h : shuntStep tab s t = .ok s') :
    Inv s' ∧ ∃ d, TokReads tab t d ∧ flat s'.out s'.stack = flat s.out s.stack ++ d := by
  unfold shuntStep at h
  split at h
  · rename_i hk
    split at h
    · rename_i ht
      injection h with h; subst h
      refine ⟨⟨⟨hi.base, hi.chain⟩, Nat.le_refl _⟩, [], .bracket ⟨hk, .inl (eq_of_beq ht)⟩, ?_⟩
      simp only [List.append_nil]
      rw [push_flat _ _ _ rfl]; simp [sym]
    · split at h
      · rename_i ht
        injection h with h; subst h
        refine ⟨⟨⟨hi.base, hi.chain⟩, Nat.le_refl _⟩, [], .bracket ⟨hk, .inr (.inl (eq_of_beq ht))⟩, ?_⟩
        simp only [List.append_nil]
        rw [push_flat _ _ _ rfl]; simp [sym]
      · split at h
        · rename_i ht
          obtain ⟨r1, r2⟩ := closeCtx_inv _ _ _ _ hi.chain hi.base h
          exact ⟨r1, [], .bracket ⟨hk, .inr (.inr (.inl (eq_of_beq ht)))⟩, by simpa using r2⟩
        · split at h
          · rename_i ht
            obtain ⟨r1, r2⟩ := closeCtx_inv _ _ _ _ hi.chain hi.base h
            exact ⟨r1, [], .bracket ⟨hk, .inr (.inr (.inr (eq_of_beq ht)))⟩, by simpa using r2⟩
          · cases h
  · rename_i hk
    cases hr : resolveToken tab t.text with
    | error e => rw [hr] at h; cases h
    | ok gs =>
      rw [hr] at h
      have hgs : ∀ g ∈ gs, ∀ c ∈ g, OpOk c := by
        intro g hg c hc
        obtain ⟨p, hp, rfl⟩ := resolve_mem tab _ _ hr g hg
        exact htab p hp c hc
      obtain ⟨r1, chosen, hp, r2⟩ := runCands_inv gs hgs s s' hi h
      exact ⟨r1, _, .oper hk hr hp, r2⟩
  · rename_i hk1 hk2
    injection h with h; subst h
    have hbd : Bounded s.out.length s.stack := chain_bounded _ _ hi.chain hi.base
    refine ⟨⟨hi.chain, by have := hi.base; simp; omega⟩, [.tok t], .leaf (by simpa using hk1) (by simpa using hk2), ?_⟩
    simp only
    rw [flat_append _ _ _ hbd]; simp [yields, yield]

theorem shuntRun_inv (tab : OpTable) (htab : TableOk tab) (ts : List Tok) : ∀ (s s' : ShState),
    Inv s → shuntRun tab ts s = .ok s' →
      Inv s' ∧ ∃ syms, Reads tab ts syms ∧ flat s'.out s'.stack = flat s.out s.stack ++ syms := by
  induction ts with
  | nil => intro s s' hi h; simp [shuntRun] at h; subst h; exact ⟨hi, [], .nil, by simp⟩
  | cons t ts ih =>
    intro s s' hi h
    unfold shuntRun at h
    cases hs : shuntStep tab s t with
    | error e => rw [hs] at h; cases h
    | ok s1 =>
      rw [hs] at h
      obtain ⟨k1, d, hd, k2⟩ := shuntStep_inv tab htab s s1 t hi hs
      obtain ⟨r1, syms, hr, r2⟩ := ih s1 s' k1 h
      exact ⟨r1, d ++ syms, .cons hd hr, by rw [r2, k2, List.append_assoc]⟩

theorem finish_inv : ∀ (stk : List SEntry) (out out' : List Ast),
    Chain stk → finish out stk = .ok out' → yields out' = flat out stk := by
  intro stk
  induction stk with
  | nil => intro out out' _ h; simp [finish] at h; subst h; rfl
  | cons en stk ih =>
    intro out out' h1 h
    cases en with
    | ctx ch i => simp [finish] at h
    | op o i =>
      unfold finish at h
      cases ho : operate o i out with
      | error e => rw [ho] at h; cases h
      | ok o1 =>
        rw [ho] at h
        obtain ⟨k1, _, k3⟩ := operate_step o i out o1 stk ho h1
        exact (ih o1 out' k1 h).trans k3

/-- **soundness of the shunting-yard**: for every operator table without an infix operator of arity 0
and every token list, the in-order reading of an accepted tree is a reading of the token list -/
theorem shunt_preserves_tokens (tab : OpTable) (htab : TableOk tab) (ts : List Tok) (a : Ast)
    (h : tokensToAst tab ts = .ok (some a)) : Reads tab ts (yield a) := by
  unfold tokensToAst at h
  cases hr : shuntRun tab ts {} with
  | error e => rw [hr] at h; cases h
  | ok s =>
    rw [hr] at h
    simp only at h
    obtain ⟨k1, syms, hreads, k2⟩ := shuntRun_inv tab htab ts {} s ⟨trivial, Nat.le_refl _⟩ hr
    cases hf : finish s.out s.stack with
    | error e => rw [hf] at h; cases h
    | ok l =>
      rw [hf] at h
      have hl := finish_inv s.stack s.out l k1.chain hf
      match l, h, hl with
      | [b], h, hl =>
        simp only at h
        injection h with h; injection h with h; subst h
        have : yield b = syms := by
          simpa [yields, flat, k2] using hl
        rw [this]; exact hreads
      | [], h, _ => cases h
      | _ :: _ :: _, h, _ => cases h

/-! ### what a reading determines -/

theorem reads_cons_inv {tab : OpTable} {t : Tok} {ts : List Tok} {L : List Sym}
    (h : Reads tab (t :: ts) L) : ∃ d syms, TokReads tab t d ∧ Reads tab ts syms ∧ L = d ++ syms := by
  cases h with
  | cons h1 h2 => exact ⟨_, _, h1, h2, rfl⟩

theorem reads_nil_inv {tab : OpTable} {L : List Sym} (h : Reads tab [] L) : L = [] := by
  cases h; rfl

theorem picks_single {o c : OpSpec} {chosen : List OpSpec} (h : Picks [[o]] chosen) (hc : c = o) :
    chosen = [c] := by
  subst hc
  cases h with
  | cons hm _ hr =>
    cases hr
    simp at hm; subst hm; rfl

/-- an operator token whose only candidate group is the single operator `o` reads as `o` -/
theorem tokReads_op_inv {tab : OpTable} {t : Tok} {d : List Sym} {o : OpSpec}
    (hk : t.kind = some .operator) (hr : resolveToken tab t.text = .ok [[o]])
    (h : TokReads tab t d) : d = [.op o] := by
  cases h with
  | bracket hb => rw [hb.1] at hk; cases hk
  | oper _ hr' hp =>
    rw [hr] at hr'; injection hr' with hr'; subst hr'
    rw [picks_single hp rfl]; rfl
  | leaf _ h2 => exact absurd hk h2

/-- a token that is neither a bracket nor an operator reads as itself -/
theorem tokReads_leaf_inv {tab : OpTable} {t : Tok} {d : List Sym}
    (h1 : t.kind ≠ some .context) (h2 : t.kind ≠ some .operator) (h : TokReads tab t d) :
    d = [.tok t] := by
  cases h with
  | bracket hb => exact absurd hb.1 h1
  | oper hk _ _ => exact absurd hk h2
  | leaf _ _ => rfl

def isAtomTok (t : Tok) : Bool := t.kind != some .context && t.kind != some .operator

def leavesOf : List Sym → List Tok
  | [] => []
  | .tok t :: r => t :: leavesOf r
  | .op _ :: r => leavesOf r

def opsOf : List Sym → List OpSpec
  | [] => []
  | .tok _ :: r => opsOf r
  | .op o :: r => o :: opsOf r

theorem leavesOf_append (a b : List Sym) : leavesOf (a ++ b) = leavesOf a ++ leavesOf b := by
  induction a with
  | nil => rfl
  | cons x xs ih => cases x <;> simp [leavesOf, ih]

theorem leavesOf_ops (l : List OpSpec) : leavesOf (l.map Sym.op) = [] := by
  induction l with
  | nil => rfl
  | cons x xs ih => simpa [leavesOf] using ih

/-- every reading keeps exactly the non-bracket, non-operator tokens, in their order -/
theorem reads_leaves {tab : OpTable} {ts : List Tok} {syms : List Sym} (h : Reads tab ts syms) :
    leavesOf syms = ts.filter isAtomTok := by
  induction h with
  | nil => rfl
  | @cons t ts d syms h1 _ ih =>
    rw [leavesOf_append, ih]
    cases h1 with
    | bracket hb => simp [leavesOf, isAtomTok, hb.1]
    | oper hk _ _ => simp [leavesOf_ops, isAtomTok, hk]
    | leaf h1 h2 =>
      have hat : isAtomTok t = true := by simp [isAtomTok, h1, h2]
      simp [leavesOf, hat]

/-- the leaves of an accepted tree, left to right, are exactly the non-bracket, non-operator tokens
of the input, in their order (nothing dropped, duplicated or moved) -/
theorem shunt_preserves_leaves (tab : OpTable) (htab : TableOk tab) (ts : List Tok) (a : Ast)
    (h : tokensToAst tab ts = .ok (some a)) : leavesOf (yield a) = ts.filter isAtomTok :=
  reads_leaves (shunt_preserves_tokens tab htab ts a h)

/-! ### the real tables are covered -/

theorem defaultTable_ok (twosided multipart multistage : Bool) :
    TableOk (Gen.defaultTable twosided multipart multistage) := by
  cases twosided <;> cases multipart <;> cases multistage <;> decide

theorem constraintTable_ok : TableOk Gen.constraintTable := by decide

example : TableOk (Gen.defaultTable false false false) := by decide
example : TableOk (Gen.defaultTable false false true) := by decide
example : TableOk (Gen.defaultTable false true false) := by decide
example : TableOk (Gen.defaultTable false true true) := by decide
example : TableOk (Gen.defaultTable true false false) := by decide
example : TableOk (Gen.defaultTable true false true) := by decide
example : TableOk (Gen.defaultTable true true false) := by decide
example : TableOk (Gen.defaultTable true true true) := by decide
example : TableOk Gen.constraintTable := by decide

/-! ### the restriction is needed: an infix operator of arity 0 breaks the order

`validHere` lets a candidate of arity 0 through without the "exactly one operand on the left" check.
With a prefix operator `Q` of arity 2, a prefix operator `P` of arity 0 and an *infix* operator `Z`
of arity 0, the token list `Q a P Z b` is accepted as `Q(Z(a, b), P())`, whose in-order reading is
`Q a Z b P`: the infix `Z`, pushed at the same queue index as `P` underneath it, takes the element
to the left of `P`. -/

private def mkOp (s : String) (ar : Nat) (p : Int) (f : Fixity) : OpSpec :=
  { symbol := s, arity := ar, prec := p, assoc := .none, fixity := f, structural := false,
    disabled := false, ctx := .always }
private def cexQ : OpSpec := mkOp "Q" 2 1 .prefix
private def cexP : OpSpec := mkOp "P" 0 2 .prefix
private def cexZ : OpSpec := mkOp "Z" 0 3 .infix
private def cexTab : OpTable := [("Q", [cexQ]), ("P", [cexP]), ("Z", [cexZ])]
private def cexA : Tok := { text := ['a'], kind := some .name }
private def cexB : Tok := { text := ['b'], kind := some .name }
private def opTok (s : String) : Tok := { text := s.toList, kind := some .operator }
private def cexToks : List Tok := [opTok "Q", cexA, opTok "P", opTok "Z", cexB]
private def cexTree : Ast := .node cexQ [.node cexZ [.leaf cexA, .leaf cexB], .node cexP []]

theorem cex_not_ok : ¬ TableOk cexTab := by decide

theorem cex_accepted : tokensToAst cexTab cexToks = .ok (some cexTree) := by rfl

theorem cex_yield :
    yield cexTree = [.op cexQ, .tok cexA, .op cexZ, .tok cexB, .op cexP] := by rfl

/-- the accepted tree's reading is NOT a reading of the token list: `shunt_preserves_tokens` is false
without `TableOk` -/
theorem cex_not_reads : ¬ Reads cexTab cexToks (yield cexTree) := by
  intro h
  obtain ⟨d1, s1, t1, h, e1⟩ := reads_cons_inv h
  obtain ⟨d2, s2, t2, h, e2⟩ := reads_cons_inv h
  obtain ⟨d3, s3, t3, h, e3⟩ := reads_cons_inv h
  obtain ⟨d4, s4, t4, h, e4⟩ := reads_cons_inv h
  obtain ⟨d5, s5, t5, h, e5⟩ := reads_cons_inv h
  have e6 := reads_nil_inv h
  have q1 := tokReads_op_inv (o := cexQ) rfl rfl t1
  have q2 := tokReads_leaf_inv (by decide) (by decide) t2
  have q3 := tokReads_op_inv (o := cexP) rfl rfl t3
  have q4 := tokReads_op_inv (o := cexZ) rfl rfl t4
  have q5 := tokReads_leaf_inv (by decide) (by decide) t5
  subst e6 e5 e4 e3 e2 q1 q2 q3 q4 q5
  rw [cex_yield] at e1
  exact absurd e1 (by decide)

end FormulaicVerif.Proofs.ShuntSound
