import FormulaicVerif.Proofs.C13Aux
import Mathlib.LinearAlgebra.Span.Basic
/-! More helper lemmas for `poly`: the raw branch in closed form, a missing value inserted at any
position of the vector, and the span of the normalised columns. -/
namespace FormulaicVerif.Proofs.C13
open FormulaicVerif.Model

section basic
variable {α : Type}

theorem reduceOption_insertIdx_none (xs : List (Option α)) (i : ℕ) :
    (xs.insertIdx i none).reduceOption = xs.reduceOption := by
  induction xs generalizing i with
  | nil => cases i <;> simp [List.reduceOption_cons_of_none]
  | cons o r ih =>
    cases i with
    | zero => simp [List.reduceOption_cons_of_none]
    | succ i =>
      rw [List.insertIdx_succ_cons]
      cases o with
      | none => simp only [List.reduceOption_cons_of_none, ih]
      | some v => simp only [List.reduceOption_cons_of_some, ih]

/-- writing a column back into a vector that has one more missing entry at position `i` gives the
same column with a missing entry inserted at `i` -/
theorem reinsert_insertIdx (xs : List (Option α)) (i : ℕ) (hi : i ≤ xs.length) (col : List α) :
    Poly.reinsert (xs.insertIdx i none) col = (Poly.reinsert xs col).map (fun r => r.insertIdx i none) := by
  induction xs generalizing i col with
  | nil =>
    have : i = 0 := by simpa using hi
    subst this
    cases col with
    | nil => rfl
    | cons v c => rfl
  | cons o r ih =>
    cases i with
    | zero =>
      simp only [List.insertIdx_zero]
      rw [Poly.reinsert]
      cases h : Poly.reinsert (o :: r) col <;> simp [Except.map]
    | succ i =>
      have hi' : i ≤ r.length := by simpa using hi
      rw [List.insertIdx_succ_cons]
      cases o with
      | none =>
        rw [Poly.reinsert, ih i hi' col, Poly.reinsert]
        cases Poly.reinsert r col <;> simp [Except.map]
      | some x =>
        cases col with
        | nil => rfl
        | cons v c =>
          rw [Poly.reinsert, ih i hi' c, Poly.reinsert]
          cases Poly.reinsert r c <;> simp [Except.map]

theorem reinsertAll_insertIdx (xs : List (Option α)) (i : ℕ) (hi : i ≤ xs.length) (cols : List (List α)) :
    Poly.reinsertAll (xs.insertIdx i none) cols =
      (Poly.reinsertAll xs cols).map (fun out => out.map (fun r => r.insertIdx i none)) := by
  induction cols with
  | nil => rfl
  | cons c cs ih =>
    rw [Poly.reinsertAll, reinsert_insertIdx xs i hi c, ih, Poly.reinsertAll]
    cases Poly.reinsert xs c <;> cases Poly.reinsertAll xs cs <;> simp [Except.map]

theorem map_insertIdx_none {β : Type} (f : α → β) (xs : List (Option α)) (i : ℕ) :
    (xs.insertIdx i none).map (Option.map f) = (xs.map (Option.map f)).insertIdx i none := by
  induction xs generalizing i with
  | nil => cases i <;> simp
  | cons o r ih =>
    cases i with
    | zero => simp
    | succ i => simp [List.insertIdx_succ_cons, ih]

end basic

variable {α : Type} [Field α] [DecidableEq α]

omit [DecidableEq α] in
theorem pow_eq (t : α) : ∀ k, Poly.pow t k = t ^ k
  | 0 => by simp [Poly.pow]
  | k + 1 => by rw [Poly.pow, pow_eq t k, pow_succ]

/-- a missing value inserted at ANY position (first, last, in the middle) changes nothing but that
row: the same state, the same error if there is one, and every output column is the former column
with a missing entry inserted at that position -/
theorem run_insert_none (sqrt : α → α) (xs : List (Option α)) (i : ℕ) (hi : i ≤ xs.length) (d : ℕ)
    (raw : Bool) (st : Poly.State α) :
    Poly.run sqrt (xs.insertIdx i none) d raw st =
      (Poly.run sqrt xs d raw st).map (fun r => (r.1.map (fun col => col.insertIdx i none), r.2)) := by
  unfold Poly.run
  cases raw with
  | true =>
    simp only [if_true]
    split
    · rfl
    · simp only [Except.map, List.map_map]
      congr 2
      apply List.map_congr_left
      intro k _
      exact map_insertIdx_none _ xs i
  | false =>
    simp only [Bool.false_eq_true, if_false, reduceOption_insertIdx_none]
    cases Poly.fit sqrt xs.reduceOption d st with
    | error e => rfl
    | ok qs =>
      obtain ⟨q, s1⟩ := qs
      simp only [reinsertAll_insertIdx xs i hi q]
      cases Poly.reinsertAll xs q <;> rfl

/-! ### span of the normalised columns -/

omit [DecidableEq α] in
/-- rescaling the generators of index `≥ 1` by non-zero scalars does not change the span -/
theorem span_rescale {ι : Type} (v : ℕ → ι → α) (c : ℕ → α) (m : ℕ) (hc : ∀ k, 1 ≤ k → k < m → c k ≠ 0) :
    Submodule.span α ((fun k => if k = 0 then v 0 else fun i => v k i / c k) '' {k | k < m}) =
      Submodule.span α (v '' {k | k < m}) := by
  apply le_antisymm
  · rw [Submodule.span_le]
    rintro _ ⟨k, hk, rfl⟩
    by_cases h0 : k = 0
    · subst h0
      simp only [if_true]
      exact Submodule.subset_span (Set.mem_image_of_mem v hk)
    · simp only [h0, if_false]
      have : (fun i => v k i / c k) = (c k)⁻¹ • v k := by
        funext i; simp [div_eq_inv_mul]
      rw [this]
      exact Submodule.smul_mem _ _ (Submodule.subset_span ⟨k, hk, rfl⟩)
  · rw [Submodule.span_le]
    rintro _ ⟨k, hk, rfl⟩
    by_cases h0 : k = 0
    · subst h0
      exact Submodule.subset_span ⟨0, hk, by simp⟩
    · have hck := hc k (Nat.one_le_iff_ne_zero.mpr h0) hk
      have : v k = c k • (fun i => v k i / c k) := by
        funext i; simp [mul_div_cancel₀ _ hck]
      rw [SetLike.mem_coe, this]
      exact Submodule.smul_mem _ _ (Submodule.subset_span ⟨k, hk, by simp [h0]⟩)

end FormulaicVerif.Proofs.C13
