import FormulaicVerif.Proofs.C01Lex
import FormulaicVerif.Proofs.C01MergedR
/-! # C01 — parse = denotation from the STRING: sign runs, `0`, `.`, quoted names, Python fragments

The tokenizer theorem of `Proofs/C01Lex.lean` (words, operator tokens — hence sign runs —, `%in%`,
parentheses, back-quoted names, brace fragments, calls; each followed by one space) joined with
`parse_eq_denoteR`. The sanitiser (`sanitize_tokens`: Python fragments are replaced by their normal form
`env.norm`, a parameter) is applied to the written tokens; the formula's leaves are the SANITISED tokens. -/
namespace FormulaicVerif.Proofs.C01StringR
open FormulaicVerif FormulaicVerif.Model FormulaicVerif.Proofs.C01Lex FormulaicVerif.Proofs.C01Denote
open FormulaicVerif.Proofs.C01DenoteR FormulaicVerif.Proofs.C01DenoteRSpec FormulaicVerif.Spec.DenoteR
open FormulaicVerif.Proofs.C01MergedR
open FormulaicVerif.Proofs.C01Spans (erL)
open FormulaicVerif.Proofs.C15Ws (erase)

/-- the sanitiser does not look at source spans -/
theorem sanitize_erase (norm : List Char → Except PyErr (List Char)) : ∀ ts : List Tok,
    sanitizeTokens norm (erL ts) = (match sanitizeTokens norm ts with | .ok r => .ok (erL r) | .error e => .error e)
  | [] => rfl
  | t :: ts => by
    have ih := sanitize_erase norm ts
    have et : (erase t).text = t.text := rfl
    have ek : (erase t).kind = t.kind := rfl
    simp only [erL, List.map_cons] at ih ⊢
    rw [sanitizeTokens, sanitizeTokens, ih, et, ek]
    by_cases hd : (t.text == ['.'] && t.kind != some .name) = true
    · simp only [hd, if_true]
      have hk : (some TKind.operator == some TKind.python) = false := by decide
      simp only [hk, Bool.false_eq_true, if_false]
      cases sanitizeTokens norm ts <;> rfl
    · simp only [hd, Bool.false_eq_true, if_false, ek, et]
      by_cases hp : (t.kind == some .python) = true
      · simp only [hp, if_true]
        cases norm t.text with
        | error e => rfl
        | ok x => simp only [Except.map]; cases sanitizeTokens norm ts <;> rfl
      · simp only [hp, Bool.false_eq_true, if_false]
        cases sanitizeTokens norm ts <;> rfl

/-- **parse = denotation from the string, with sign runs, zeros and `.`** — given that the string tokenises, its
Python fragments normalise, and the result is (up to source spans) the token sequence of `f`, as written (`toks`) or as the lexer
delivers it (`toksL`: a separator and the signs after it are one token) -/
theorem parse_eq_denote_stringR (cfg : ParseCfg) (env : PyEnv) (cs : List CharInfo) (ts0 ts : List Tok)
    (f : FormulaR) (h1 : tokenizeStream cs = (ts0, none)) (h2 : sanitizeTokens env.norm ts0 = .ok ts)
    (h3 : erL ts = f.toks ∨ erL ts = f.toksL) (hen : FormulaR.Enabled cfg f) :
    parseTerms cfg env cs = denoteFormulaR cfg (dotOf env f) f := by
  rw [parseTerms_of_tokens cfg env cs ts0 ts h1 h2, ← parseToks_erase]
  rcases h3 with h3 | h3
  · rw [h3]; exact parse_eq_denoteR cfg env f hen
  · rw [h3]; exact parse_eq_denoteL cfg env f hen

/-- **parse = denotation from the STRING** for a formula written token by token, one space after each.
`lts` are the written tokens (names, numbers, the wildcard `.` — a word —, operator tokens including sign runs,
`%in%`, parentheses, back-quoted names, brace fragments, calls); the leaves of `f` are what the sanitiser makes of them (Python
fragments in normal form). No hypothesis about the tokenizer. -/
theorem parse_renderR (C : Classes) (hsp : SpaceChar (C.cl ' ')) (cfg : ParseCfg) (env : PyEnv) (f : FormulaR)
    (lts : List LT) (hok : ∀ lt ∈ lts, lt.Ok C) (hadj : NoAdjOps lts)
    (hsan : sanitizeTokens env.norm (lts.map (fun lt => lt.tok C)) = .ok f.toks
      ∨ sanitizeTokens env.norm (lts.map (fun lt => lt.tok C)) = .ok f.toksL)
    (hen : FormulaR.Enabled cfg f) :
    parseTerms cfg env (render C lts) = denoteFormulaR cfg (dotOf env f) f := by
  obtain ⟨ts0, h1, h2⟩ := tokenize_render C hsp lts hok hadj
  have hs := sanitize_erase env.norm ts0
  have h2' : erL ts0 = lts.map (fun lt => lt.tok C) := h2
  rw [h2'] at hs
  rcases hsan with hsan | hsan
  · rw [hsan] at hs
    cases hts : sanitizeTokens env.norm ts0 with
    | error e => rw [hts] at hs; cases hs
    | ok ts =>
      rw [hts] at hs
      have h3 : erL ts = f.toks := by injection hs with hs; exact hs.symm
      exact parse_eq_denote_stringR cfg env _ ts0 ts f h1 hts (Or.inl h3) hen
  · rw [hsan] at hs
    cases hts : sanitizeTokens env.norm ts0 with
    | error e => rw [hts] at hs; cases hs
    | ok ts =>
      rw [hts] at hs
      have h3 : erL ts = f.toksL := by injection hs with hs; exact hs.symm
      exact parse_eq_denote_stringR cfg env _ ts0 ts f h1 hts (Or.inr h3) hen

instance : (lts : List LT) → Decidable (NoAdjOps lts)
  | [] => isTrue trivial
  | [_] => isTrue trivial
  | a :: b :: r =>
    have : Decidable (NoAdjOps (b :: r)) := instDecidableNoAdjOps (b :: r)
    by unfold NoAdjOps; infer_instance

end FormulaicVerif.Proofs.C01StringR
