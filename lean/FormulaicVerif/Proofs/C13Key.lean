import FormulaicVerif.Model.TransformKey
import FormulaicVerif.Proofs.C15Alias
import FormulaicVerif.Proofs.C15Loop
/-! Lemmas for C13 about the key of the transform state (`Model/TransformKey.lean`): word-wise
replacement over a concatenation, and the shape of the alias table for an expression with one
back-quoted name. (`Proofs.C15Alias` / `C15Loop` are C15's facts about `sanitize_variable_name`; they are
imported unchanged.) -/
namespace FormulaicVerif.Proofs.C13Key
open FormulaicVerif.Model FormulaicVerif.Model.PyAlias FormulaicVerif.Model.TransformKey
open FormulaicVerif.Proofs.C15Alias

theorem subRun_nil {alias repl : List Char} (h : alias ≠ []) : subRun alias repl [] = [] := by
  unfold subRun
  have : ([] == alias) = false := by cases alias <;> simp_all
  simp [this]

theorem subRun_self (alias repl : List Char) : subRun alias repl alias = repl := by
  unfold subRun; simp

theorem subRun_ne {alias repl w : List Char} (h : w ≠ alias) : subRun alias repl w = w := by
  unfold subRun
  have : (w == alias) = false := by simpa using h
  simp [this]

/-- a run of word characters is read into the accumulator -/
theorem replaceAux_run (word : Char → Bool) (alias repl : List Char) : ∀ (w t cur : List Char),
    (∀ c ∈ w, word c = true) → replaceAux word alias repl (w ++ t) cur = replaceAux word alias repl t (w.reverse ++ cur) := by
  intro w
  induction w with
  | nil => intro t cur _; simp
  | cons d w ih =>
    intro t cur h
    have hd : word d = true := h d (by simp)
    simp only [List.cons_append, replaceAux, hd, if_true]
    rw [ih t (d :: cur) (fun c hc => h c (by simp [hc]))]
    simp

/-- the replacement works on each side of a non-word character separately -/
theorem replaceAux_split (word : Char → Bool) (alias repl : List Char) (ha : alias ≠ []) (c : Char)
    (hc : word c = false) : ∀ (s t cur : List Char),
    replaceAux word alias repl (s ++ c :: t) cur =
      replaceAux word alias repl (s ++ [c]) cur ++ replaceAux word alias repl t [] := by
  intro s
  induction s with
  | nil =>
    intro t cur
    simp [replaceAux, hc, subRun_nil ha]
  | cons d s ih =>
    intro t cur
    by_cases hd : word d = true
    · simp only [List.cons_append, replaceAux, hd, if_true]
      exact ih t (d :: cur)
    · have hd' : word d = false := by simpa using hd
      simp only [List.cons_append, replaceAux, hd', Bool.false_eq_true, if_false]
      rw [ih t []]
      simp

/-- a text none of whose word runs is the alias is copied -/
theorem replaceAux_id (word : Char → Bool) (alias repl : List Char) (ha : alias ≠ []) : ∀ (s cur : List Char),
    alias ∉ runsAux word s cur → replaceAux word alias repl s cur = cur.reverse ++ s := by
  intro s
  induction s with
  | nil =>
    intro cur h
    unfold runsAux at h
    unfold replaceAux
    by_cases hcur : cur = []
    · subst hcur; simp [subRun_nil ha]
    · have : cur.isEmpty = false := by cases cur <;> simp_all
      simp only [this, Bool.false_eq_true, if_false, List.mem_singleton] at h
      rw [subRun_ne (fun e => h e.symm)]
      simp
  | cons c s ih =>
    intro cur h
    unfold runsAux at h
    unfold replaceAux
    by_cases hc : word c = true
    · simp only [hc, if_true] at h ⊢
      rw [ih (c :: cur) h]
      simp
    · have hc' : word c = false := by simpa using hc
      simp only [hc', Bool.false_eq_true, if_false] at h ⊢
      by_cases hcur : cur = []
      · subst hcur
        simp only [List.isEmpty_nil, if_true] at h
        rw [ih [] h]
        simp [subRun_nil ha]
      · have : cur.isEmpty = false := by cases cur <;> simp_all
        simp only [this, Bool.false_eq_true, if_false, List.mem_cons, not_or] at h
        rw [ih [] h.2, subRun_ne (fun e => h.1 e.symm)]
        simp

/-- the text ends with a character that is not a word character (or is empty) -/
def EndsNonword (word : Char → Bool) (s : List Char) : Prop := s = [] ∨ ∃ p c, s = p ++ [c] ∧ word c = false

/-- the text starts with a character that is not a word character (or is empty) -/
def StartsNonword (word : Char → Bool) (s : List Char) : Prop := s = [] ∨ ∃ c t, s = c :: t ∧ word c = false

/-- **one occurrence as a whole word**: in `pre ++ alias ++ post`, where the alias stands between non-word
characters and is not a word of `pre` or `post`, exactly that occurrence is replaced -/
theorem replaceWord_middle (word : Char → Bool) (alias repl pre post : List Char) (ha : alias ≠ [])
    (hw : ∀ c ∈ alias, word c = true) (hpre : EndsNonword word pre) (hpost : StartsNonword word post)
    (hnpre : alias ∉ runs word pre) (hnpost : alias ∉ runs word post) :
    replaceWord word alias repl (pre ++ alias ++ post) = pre ++ repl ++ post := by
  have hmid : replaceAux word alias repl (alias ++ post) [] = repl ++ post := by
    rw [replaceAux_run word alias repl alias post [] hw]
    rcases hpost with h | ⟨c, t, h, hc⟩
    · subst h; simp [replaceAux, subRun_self]
    · subst h
      have hid := replaceAux_id word alias repl ha (c :: t) [] hnpost
      simp only [replaceAux, hc, Bool.false_eq_true, if_false, List.reverse_nil, subRun_nil ha, List.nil_append,
        List.cons.injEq, true_and] at hid
      simp [replaceAux, hc, subRun_self, hid]
  unfold replaceWord
  rcases hpre with h | ⟨p, c, h, hc⟩
  · subst h; simpa using hmid
  · subst h
    have : p ++ [c] ++ alias ++ post = p ++ c :: (alias ++ post) := by simp
    rw [this, replaceAux_split word alias repl ha c hc p (alias ++ post) [], hmid]
    have hid := replaceAux_id word alias repl ha (p ++ [c]) [] hnpre
    rw [hid]
    simp

/-! ### the alias table of an expression with one back-quoted name -/

theorem lookup_single (a n : List Char) : lookup [(a, n)] a = some n := by
  simp [lookup, List.find?]

theorem restoreKey_single_same (word : Char → Bool) (a s : List Char) : restoreKey word [(a, a)] s = s := by
  simp [restoreKey, sortedByLenDesc, insertByLen, restoreLoop, lookup_single]

theorem restoreKey_single (word : Char → Bool) (a n s : List Char) (h : n ≠ a) :
    restoreKey word [(a, n)] s = replaceWord word a ('`' :: n ++ ['`']) s := by
  have : (n == a) = false := by simpa using h
  simp [restoreKey, sortedByLenDesc, insertByLen, restoreLoop, lookup_single, this]

theorem standIn_single (a n : List Char) : standIn [(a, n)] n = some a := by
  simp [standIn, List.find?]

/-- `sanitize_variable_names` on `text ++ back-quoted name ++ text`: one alias, chosen by
`sanitize_variable_name` with the words of the two texts reserved -/
theorem sanitizeNames_one (cfg : Cfg) (isSpace : Char → Bool) (env : List (List Char)) (expr t1 name t2 : List Char)
    (hsplit : split expr = [.text t1, .name name, .text t2]) :
    ∃ a copy,
      sanitizeName cfg { al := [], env := env, reserved := PyAlias.words t1 ++ PyAlias.words t2 } name = some (a, copy) ∧
      ∃ s1 added, sanitizeNames cfg isSpace env expr = some (s1, [(a, name)], added) := by
  obtain ⟨⟨a, copy⟩, hs⟩ := FormulaicVerif.Proofs.C15Loop.sanitizeName_total cfg
    { al := [], env := env, reserved := PyAlias.words t1 ++ PyAlias.words t2 } name
  have hres : reservedWords [Part.text t1, Part.name name, Part.text t2] = PyAlias.words t1 ++ PyAlias.words t2 := by
    simp [reservedWords, Part.words]
  refine ⟨a, copy, hs, ?_⟩
  unfold sanitizeNames
  simp only [hsplit, hres, run, step, hs, assign, List.any_nil, Bool.false_eq_true, if_false, List.nil_append]
  exact ⟨_, _, rfl⟩

/-- the ASCII instance of CPython's parameters used by the examples (`class` is an identifier for
`str.isidentifier`) -/
def asciiPy : Py :=
  { ident := fun s => match s with
      | [] => false
      | c :: _ => !c.isDigit && s.all asciiWord
    isSpace := Char.isWhitespace, word := asciiWord }

end FormulaicVerif.Proofs.C13Key
