import FormulaicVerif.Proofs.ShuntComplete
import FormulaicVerif.Spec.Wilkinson
/-! # C01 — the documented grammar of the arithmetic fragment, by precedence levels

`Proofs/ShuntComplete.lean` proves that the shunting-yard returns `strip e` for every expression
tree `e` satisfying the technical spine conditions `WF tab e` and `Guard none e`. This file makes
that readable: it defines the DOCUMENTED grammar (docsite `guides/grammar.md`, operator table
`Spec.Wilkinson.documentedTable`) level by level,

    Sum   := [sign] Prod | Sum (+|-) Prod          -- 100, left-assoc; optional unary sign on the first summand
    Prod  := Inter | Prod (*|/|%in%) Inter          -- 200, left-assoc ("in" is the table symbol of %in%)
    Inter := Pow | Inter : Pow                      -- 300, left-assoc
    Pow   := Atom | Atom (**|^) Pow                 -- 500, right-assoc
    Atom  := token | ( Sum )                        -- any token that is neither a bracket nor an operator

and proves that EVERY expression of this grammar satisfies the spine conditions for the documented
table under all 8 feature-flag subsets (`grammar_wf`), hence is parsed to exactly the tree that the
documented precedences and associativities dictate (`grammar_parses`): unbounded nesting, unbounded
chains at every level, the leading unary sign and the right-associative `**`/`^` chains included.

How the level discipline becomes the spine conditions:
* right spine of a level-`k` expression: all operators have precedence ≥ `prec k`
  (`Pow.rspine … Sum.rspine`), so a left-associative parent of precedence ≤ `prec k` pops them all
  (`pops_of_rspine` ⇒ the `rspineAll` clause of `WF`);
* left spine of a (sign-free) level-`k` expression: binary operators only, precedence ≥ `prec k`
  (`Pow.lspine … Prod.lspine`), so none of them pops a parent of precedence < `prec k`
  (`guard_of_lspine` ⇒ the `Guard (some o)` clause of `WF`); at the `Pow` level they are moreover
  right-associative, so they do not pop a `**`/`^` parent of EQUAL precedence (`Pow.guard`);
* the unary sign has the precedence of binary `+`/`-`: it is popped by the next binary `+`/`-`
  (`-a + b` is `(-a) + b`) and by nothing tighter (`-a*b` is `-(a*b)`); its candidate list is
  `[binary, unary]` and the binary candidate is skipped in operand position (`Sum.guard_none`).

RESTRICTIONS. None with respect to the grammar above. Outside the grammar (and not covered here): a
unary sign anywhere but in front of the first summand of a `Sum` (`a * -b`, `a ** -b`; note that
`a + -b` never reaches the parser in this form, the sign run is collapsed first — `Props.C01`,
C01.2), the structural operators `~` `|`, the `.` wildcard, and `[`…`]` contexts. -/
namespace FormulaicVerif.Proofs.C01Grammar
open FormulaicVerif.Model FormulaicVerif.Proofs.ShuntC
open FormulaicVerif.Spec.Wilkinson (documentedTable)

/-! ### operator tokens of each level, with their specs and candidate lists as in `documentedTable` -/

/-- `+` `-` (binary at level `Sum`, and the unary sign) -/
inductive AddOp | plus | minus
deriving DecidableEq, Repr
/-- `*` `/` `%in%` -/
inductive MulOp | times | div | isin
deriving DecidableEq, Repr
/-- `**` `^` -/
inductive PowOp | starstar | caret
deriving DecidableEq, Repr

def AddOp.sym : AddOp → List Char
  | .plus => ['+'] | .minus => ['-']
def AddOp.spec : AddOp → OpSpec
  | .plus => Spec.Wilkinson.bin "+" 100 .left | .minus => Spec.Wilkinson.bin "-" 100 .left
def AddOp.unary : AddOp → OpSpec
  | .plus => Spec.Wilkinson.pre "+" 100 | .minus => Spec.Wilkinson.pre "-" 100
def AddOp.cands (op : AddOp) : List OpSpec := [op.spec, op.unary]

def MulOp.sym : MulOp → List Char
  | .times => ['*'] | .div => ['/'] | .isin => ['i', 'n']
def MulOp.spec : MulOp → OpSpec
  | .times => Spec.Wilkinson.bin "*" 200 .left
  | .div => Spec.Wilkinson.bin "/" 200 .left
  | .isin => Spec.Wilkinson.bin "in" 200 .left
def MulOp.cands (op : MulOp) : List OpSpec := [op.spec]

def colonSym : List Char := [':']
def colonSpec : OpSpec := Spec.Wilkinson.bin ":" 300 .left
def colonCands : List OpSpec := [colonSpec]

def PowOp.sym : PowOp → List Char
  | .starstar => ['*', '*'] | .caret => ['^']
def PowOp.spec : PowOp → OpSpec
  | .starstar => Spec.Wilkinson.bin "**" 500 .right | .caret => Spec.Wilkinson.bin "^" 500 .right
def PowOp.cands (op : PowOp) : List OpSpec := [op.spec]

/-! ### the grammar -/

mutual
inductive Atom
  | tok (t : Tok) (h : t.kind ≠ some .context ∧ t.kind ≠ some .operator)
  | paren (s : Sum)
inductive Pow
  | atom (a : Atom)
  | pow (op : PowOp) (a : Atom) (p : Pow)
inductive Inter
  | pow (p : Pow)
  | inter (i : Inter) (p : Pow)
inductive Prod
  | inter (i : Inter)
  | mul (op : MulOp) (p : Prod) (i : Inter)
inductive Sum
  | first (sign : Option AddOp) (p : Prod)
  | add (op : AddOp) (s : Sum) (p : Prod)
end

/-! ### the tree dictated by the documented precedences and associativities -/

mutual
def Atom.toE : Atom → E
  | .tok t _ => .atom t
  | .paren s => .paren s.toE
def Pow.toE : Pow → E
  | .atom a => a.toE
  | .pow op a p => .bin op.spec op.sym op.cands a.toE p.toE
def Inter.toE : Inter → E
  | .pow p => p.toE
  | .inter i p => .bin colonSpec colonSym colonCands i.toE p.toE
def Prod.toE : Prod → E
  | .inter i => i.toE
  | .mul op p i => .bin op.spec op.sym op.cands p.toE i.toE
def Sum.toE : Sum → E
  | .first none p => p.toE
  | .first (some sg) p => .pre sg.unary sg.sym sg.cands p.toE
  | .add op s p => .bin op.spec op.sym op.cands s.toE p.toE
end


/-! ### every operator token resolves to its candidate list, for all 8 flag subsets -/

theorem resolve_add (a b c : Bool) (op : AddOp) :
    resolveToken (documentedTable a b c) op.sym = .ok [op.cands] := by
  cases a <;> cases b <;> cases c <;> cases op <;> rfl

theorem resolve_mul (a b c : Bool) (op : MulOp) :
    resolveToken (documentedTable a b c) op.sym = .ok [op.cands] := by
  cases a <;> cases b <;> cases c <;> cases op <;> rfl

theorem resolve_colon (a b c : Bool) :
    resolveToken (documentedTable a b c) colonSym = .ok [colonCands] := by
  cases a <;> cases b <;> cases c <;> rfl

theorem resolve_pow (a b c : Bool) (op : PowOp) :
    resolveToken (documentedTable a b c) op.sym = .ok [op.cands] := by
  cases a <;> cases b <;> cases c <;> cases op <;> rfl


/-! ### precedence / fixity facts of the operator specs -/

theorem AddOp.spec_prec (op : AddOp) : op.spec.prec = 100 := by cases op <;> rfl
theorem AddOp.spec_assoc (op : AddOp) : op.spec.assoc = .left := by cases op <;> rfl
theorem AddOp.spec_fixity (op : AddOp) : op.spec.fixity = .infix := by cases op <;> rfl
theorem AddOp.spec_arity (op : AddOp) : op.spec.arity ≠ 0 := by cases op <;> decide
theorem AddOp.spec_plain (op : AddOp) : Plain op.spec := by cases op <;> exact ⟨rfl, rfl⟩
theorem AddOp.unary_prec (op : AddOp) : op.unary.prec = 100 := by cases op <;> rfl
theorem AddOp.unary_fixity (op : AddOp) : op.unary.fixity = .prefix := by cases op <;> rfl
theorem AddOp.unary_arity (op : AddOp) : op.unary.arity = 1 := by cases op <;> rfl
theorem AddOp.unary_plain (op : AddOp) : Plain op.unary := by cases op <;> exact ⟨rfl, rfl⟩
theorem MulOp.spec_prec (op : MulOp) : op.spec.prec = 200 := by cases op <;> rfl
theorem MulOp.spec_assoc (op : MulOp) : op.spec.assoc = .left := by cases op <;> rfl
theorem MulOp.spec_fixity (op : MulOp) : op.spec.fixity = .infix := by cases op <;> rfl
theorem MulOp.spec_plain (op : MulOp) : Plain op.spec := by cases op <;> exact ⟨rfl, rfl⟩
theorem PowOp.spec_prec (op : PowOp) : op.spec.prec = 500 := by cases op <;> rfl
theorem PowOp.spec_assoc (op : PowOp) : op.spec.assoc = .right := by cases op <;> rfl
theorem PowOp.spec_fixity (op : PowOp) : op.spec.fixity = .infix := by cases op <;> rfl
theorem PowOp.spec_plain (op : PowOp) : Plain op.spec := by cases op <;> exact ⟨rfl, rfl⟩

/-! ### `popCond` from precedences -/

theorem popCond_of_le_left {x o : OpSpec} (hl : o.assoc = .left) (h : o.prec ≤ x.prec) :
    popCond x o = true := by
  simp only [popCond, hl]
  rcases Int.lt_or_eq_of_le h with h | h
  · simp [h]
  · simp [h]

theorem popCond_of_lt {t c : OpSpec} (h : t.prec < c.prec) : popCond t c = false := by
  have h1 : ¬ t.prec > c.prec := by omega
  have h2 : t.prec ≠ c.prec := by omega
  simp [popCond, h1, h2]

theorem popCond_of_le_right {t c : OpSpec} (h : t.prec ≤ c.prec) (hr : c.assoc = .right) :
    popCond t c = false := by
  have h1 : ¬ t.prec > c.prec := by omega
  simp [popCond, h1, hr]

/-! ### spines -/

/-- the left spine consists of binary operators only, each satisfying `P` -/
def lspineBin (P : OpSpec → Prop) : E → Prop
  | .atom _ => True
  | .paren _ => True
  | .bin o _ _ l _ => P o ∧ lspineBin P l
  | .pre _ _ _ _ => False

theorem rspineAll_mono {P Q : OpSpec → Prop} (h : ∀ o, P o → Q o) :
    ∀ e : E, rspineAll P e → rspineAll Q e
  | .atom _, _ => trivial
  | .paren _, _ => trivial
  | .bin _ _ _ _ r, hp => ⟨h _ hp.1, rspineAll_mono h r hp.2⟩
  | .pre _ _ _ x, hp => ⟨h _ hp.1, rspineAll_mono h x hp.2⟩

theorem lspineBin_mono {P Q : OpSpec → Prop} (h : ∀ o, P o → Q o) :
    ∀ e : E, lspineBin P e → lspineBin Q e
  | .atom _, _ => trivial
  | .paren _, _ => trivial
  | .bin _ _ _ l _, hp => ⟨h _ hp.1, lspineBin_mono h l hp.2⟩
  | .pre _ _ _ _, hp => hp.elim

theorem guard_of_lspineBin (t : Option OpSpec) :
    ∀ e : E, lspineBin (fun c => NoPop t c) e → Guard t e
  | .atom _, _ => trivial
  | .paren _, _ => trivial
  | .bin _ _ _ l _, hp => ⟨guard_of_lspineBin t l hp.2, hp.1⟩
  | .pre _ _ _ _, hp => hp.elim

theorem noPop_none (c : OpSpec) : NoPop none c := by intro o ho; cases ho

theorem noPop_some {t c : OpSpec} (h : popCond t c = false) : NoPop (some t) c := by
  intro o ho; cases ho; exact h

/-! right spines: every operator has precedence ≥ the level's precedence -/

theorem Atom.rspine (P : OpSpec → Prop) : ∀ a : Atom, rspineAll P a.toE
  | .tok _ _ => trivial
  | .paren _ => trivial

theorem Pow.rspine : ∀ p : Pow, rspineAll (fun x => 500 ≤ x.prec) p.toE
  | .atom a => Atom.rspine _ a
  | .pow op _ p => ⟨by show (500 : Int) ≤ op.spec.prec; rw [op.spec_prec]; decide, Pow.rspine p⟩


theorem Inter.rspine : ∀ i : Inter, rspineAll (fun x => 300 ≤ x.prec) i.toE
  | .pow p => rspineAll_mono (fun _ h => by omega) _ (Pow.rspine p)
  | .inter _ p => ⟨by decide, rspineAll_mono (fun _ h => by omega) _ (Pow.rspine p)⟩

theorem Prod.rspine : ∀ p : Prod, rspineAll (fun x => 200 ≤ x.prec) p.toE
  | .inter i => rspineAll_mono (fun _ h => by omega) _ (Inter.rspine i)
  | .mul op _ i => ⟨by show (200 : Int) ≤ op.spec.prec; rw [op.spec_prec]; decide,
      rspineAll_mono (fun _ h => by omega) _ (Inter.rspine i)⟩

theorem Sum.rspine : ∀ s : Sum, rspineAll (fun x => 100 ≤ x.prec) s.toE
  | .first none p => rspineAll_mono (fun _ h => by omega) _ (Prod.rspine p)
  | .first (some sg) p => ⟨by show (100 : Int) ≤ sg.unary.prec; rw [sg.unary_prec]; decide,
      rspineAll_mono (fun _ h => by omega) _ (Prod.rspine p)⟩
  | .add op _ p => ⟨by show (100 : Int) ≤ op.spec.prec; rw [op.spec_prec]; decide,
      rspineAll_mono (fun _ h => by omega) _ (Prod.rspine p)⟩

/-! left spines (of the sign-free levels): binary operators only, precedence ≥ the level's;
at the `Pow` level they are moreover right-associative -/

theorem Atom.lspine (P : OpSpec → Prop) : ∀ a : Atom, lspineBin P a.toE
  | .tok _ _ => trivial
  | .paren _ => trivial

theorem Pow.lspine : ∀ p : Pow, lspineBin (fun x => 500 ≤ x.prec ∧ x.assoc = .right) p.toE
  | .atom a => Atom.lspine _ a
  | .pow op a _ => ⟨⟨by rw [op.spec_prec]; decide, op.spec_assoc⟩, Atom.lspine _ a⟩

theorem Inter.lspine : ∀ i : Inter, lspineBin (fun x => 300 ≤ x.prec) i.toE
  | .pow p => lspineBin_mono (fun _ h => by have := h.1; omega) _ (Pow.lspine p)
  | .inter i _ => ⟨by decide, Inter.lspine i⟩

theorem Prod.lspine : ∀ p : Prod, lspineBin (fun x => 200 ≤ x.prec) p.toE
  | .inter i => lspineBin_mono (fun _ h => by omega) _ (Inter.lspine i)
  | .mul op p _ => ⟨by show (200 : Int) ≤ op.spec.prec; rw [op.spec_prec]; decide, Prod.lspine p⟩

/-! ### from spines to the hypotheses of the completeness theorem -/

/-- left operand: everything pending on its right spine is popped by a left-associative parent of
precedence ≤ the operand's level -/
theorem pops_of_rspine {o : OpSpec} {lvl : Int} (hl : o.assoc = .left) (ho : o.prec ≤ lvl) (e : E)
    (h : rspineAll (fun x => lvl ≤ x.prec) e) : rspineAll (fun x => popCond x o = true) e :=
  rspineAll_mono (fun _ hx => popCond_of_le_left hl (Int.le_trans ho hx)) e h

/-- right operand: nothing on its left spine pops a parent of precedence < the operand's level -/
theorem guard_of_lspine {t : OpSpec} {lvl : Int} (ht : t.prec < lvl) (e : E)
    (h : lspineBin (fun x => lvl ≤ x.prec) e) : Guard (some t) e :=
  guard_of_lspineBin _ e (lspineBin_mono (fun _ hx => noPop_some (popCond_of_lt (by omega))) e h)

theorem Pow.guard {t : OpSpec} (ht : t.prec ≤ 500) (p : Pow) : Guard (some t) p.toE :=
  guard_of_lspineBin _ _ (lspineBin_mono
    (fun _ hx => noPop_some (popCond_of_le_right (Int.le_trans ht hx.1) hx.2)) _ (Pow.lspine p))

theorem Prod.guard_none (p : Prod) : Guard none p.toE :=
  guard_of_lspineBin _ _ (lspineBin_mono (fun c _ => noPop_none c) _ (Prod.lspine p))

theorem Sum.guard_none : ∀ s : Sum, Guard none s.toE
  | .first none p => Prod.guard_none p
  | .first (some sg) _ => ⟨[sg.spec], [], rfl,
      fun c hc => by
        rw [List.mem_singleton] at hc; subst hc
        exact ⟨sg.spec_fixity, sg.spec_arity, sg.spec_plain⟩,
      fun c _ => noPop_none c, noPop_none _⟩
  | .add op s _ => ⟨Sum.guard_none s, noPop_none _⟩

/-! ### well-formedness, by mutual structural recursion over the grammar -/

section
variable (a b c : Bool)

mutual
theorem Atom.wf : ∀ x : Atom, WF (documentedTable a b c) x.toE
  | .tok _ h => h
  | .paren s => ⟨Sum.wf s, Sum.guard_none s⟩
theorem Pow.wf : ∀ x : Pow, WF (documentedTable a b c) x.toE
  | .atom x => Atom.wf x
  | .pow op x p => ⟨resolve_pow a b c op, ⟨_, rfl⟩, op.spec_fixity, op.spec_plain, Atom.wf x, Pow.wf p,
      Atom.rspine _ x, Pow.guard (by rw [op.spec_prec]; decide) p⟩
theorem Inter.wf : ∀ x : Inter, WF (documentedTable a b c) x.toE
  | .pow p => Pow.wf p
  | .inter i p => ⟨resolve_colon a b c, ⟨_, rfl⟩, rfl, ⟨rfl, rfl⟩, Inter.wf i, Pow.wf p,
      pops_of_rspine (lvl := 300) rfl (by decide) _ (Inter.rspine i),
      Pow.guard (by decide) p⟩
theorem Prod.wf : ∀ x : Prod, WF (documentedTable a b c) x.toE
  | .inter i => Inter.wf i
  | .mul op p i => ⟨resolve_mul a b c op, ⟨_, rfl⟩, op.spec_fixity, op.spec_plain, Prod.wf p, Inter.wf i,
      pops_of_rspine (lvl := 200) op.spec_assoc (by rw [op.spec_prec]; decide) _ (Prod.rspine p),
      guard_of_lspine (lvl := 300) (by rw [op.spec_prec]; decide) _ (Inter.lspine i)⟩
theorem Sum.wf : ∀ x : Sum, WF (documentedTable a b c) x.toE
  | .first none p => Prod.wf p
  | .first (some sg) p => ⟨resolve_add a b c sg, sg.unary_fixity, sg.unary_arity, sg.unary_plain, Prod.wf p,
      guard_of_lspine (lvl := 200) (by rw [sg.unary_prec]; decide) _ (Prod.lspine p)⟩
  | .add op s p => ⟨resolve_add a b c op, ⟨_, rfl⟩, op.spec_fixity, op.spec_plain, Sum.wf s, Prod.wf p,
      pops_of_rspine (lvl := 100) op.spec_assoc (by rw [op.spec_prec]; decide) _ (Sum.rspine s),
      guard_of_lspine (lvl := 200) (by rw [op.spec_prec]; decide) _ (Prod.lspine p)⟩
end

end

/-! ### the theorems -/

abbrev toE : Sum → E := Sum.toE

/-- every expression of the documented grammar satisfies the hypotheses of the completeness
theorem `ShuntC.parse_lin`, for the documented table under every feature-flag subset -/
theorem grammar_wf (a b c : Bool) :
    ∀ s : Sum, WF (documentedTable a b c) (toE s) ∧ Guard none (toE s) :=
  fun s => ⟨Sum.wf a b c s, Sum.guard_none s⟩

/-- … hence its token sequence is parsed to exactly the tree of the documented grammar -/
theorem grammar_parses (a b c : Bool) (s : Sum) :
    tokensToAst (documentedTable a b c) (lin (toE s)) = .ok (some (strip (toE s))) :=
  parse_lin _ _ (grammar_wf a b c s).1 (grammar_wf a b c s).2


section Examples

instance : Coe Atom Pow := ⟨.atom⟩
instance : Coe Pow Inter := ⟨.pow⟩
instance : Coe Inter Prod := ⟨.inter⟩
instance : Coe Prod Sum := ⟨.first none⟩

private def nm (s : String) : Tok := { text := s.toList, kind := some .name }
private def val (s : String) : Tok := { text := s.toList, kind := some .value }
private def v (s : String) : Atom := .tok (nm s) ⟨by simp [nm], by simp [nm]⟩
private def k (s : String) : Atom := .tok (val s) ⟨by simp [val], by simp [val]⟩
private def op (s : String) : Tok := opTok s.toList

open Spec.Wilkinson (bin pre) in
/-- `-a + b*c:d**2 - (e + f)/g` is `((-a) + (b * (c : (d ** 2)))) - ((e + f) / g)` -/
example (x y z : Bool) :
    tokensToAst (documentedTable x y z)
      [op "-", nm "a", op "+", nm "b", op "*", nm "c", op ":", nm "d", op "**", val "2", op "-",
        lparTok, nm "e", op "+", nm "f", rparTok, op "/", nm "g"]
    = .ok (some (.node (bin "-" 100 .left)
        [.node (bin "+" 100 .left)
          [.node (pre "-" 100) [.leaf (nm "a")],
           .node (bin "*" 200 .left)
            [.leaf (nm "b"),
             .node (bin ":" 300 .left)
              [.leaf (nm "c"), .node (bin "**" 500 .right) [.leaf (nm "d"), .leaf (val "2")]]]],
         .node (bin "/" 200 .left)
          [.node (bin "+" 100 .left) [.leaf (nm "e"), .leaf (nm "f")], .leaf (nm "g")]])) :=
  grammar_parses x y z
    (.add .minus
      (.add .plus (.first (some .minus) (v "a"))
        (.mul .times (v "b") (.inter (v "c") (.pow .starstar (v "d") (k "2")))))
      (.mul .div (Atom.paren (.add .plus (v "e") (v "f"))) (v "g")))

open Spec.Wilkinson (bin) in
/-- chains: `a - b - c` is `(a - b) - c`, `a:b:c` is `(a:b):c`, but `a ** b ^ c` is `a ** (b ^ c)` -/
example (x y z : Bool) :
    tokensToAst (documentedTable x y z)
      [nm "a", op "-", nm "b", op "-", nm "c", op ":", nm "d", op ":", nm "e", op "**", nm "f", op "^", nm "g"]
    = .ok (some (.node (bin "-" 100 .left)
        [.node (bin "-" 100 .left) [.leaf (nm "a"), .leaf (nm "b")],
         .node (bin ":" 300 .left)
          [.node (bin ":" 300 .left) [.leaf (nm "c"), .leaf (nm "d")],
           .node (bin "**" 500 .right)
            [.leaf (nm "e"), .node (bin "^" 500 .right) [.leaf (nm "f"), .leaf (nm "g")]]]])) :=
  grammar_parses x y z
    (.add .minus (.add .minus (v "a") (v "b"))
      (Inter.inter (.inter (v "c") (v "d")) (.pow .starstar (v "e") (.pow .caret (v "f") (v "g")))))

open Spec.Wilkinson (bin pre) in
/-- `+(-a - b) * c in d / (e)` is `+(((((-a) - b) * c) %in% d) / e)`: the sign scopes over the whole
first summand, also inside parentheses -/
example (x y z : Bool) :
    tokensToAst (documentedTable x y z)
      [op "+", lparTok, op "-", nm "a", op "-", nm "b", rparTok, op "*", nm "c", op "in", nm "d", op "/",
        lparTok, nm "e", rparTok]
    = .ok (some (.node (pre "+" 100)
        [.node (bin "/" 200 .left)
          [.node (bin "in" 200 .left)
            [.node (bin "*" 200 .left)
              [.node (bin "-" 100 .left) [.node (pre "-" 100) [.leaf (nm "a")], .leaf (nm "b")],
               .leaf (nm "c")],
             .leaf (nm "d")],
           .leaf (nm "e")]])) :=
  grammar_parses x y z
    (.first (some .plus)
      (.mul .div
        (.mul .isin
          (.mul .times (Atom.paren (.add .minus (.first (some .minus) (v "a")) (v "b"))) (v "c"))
          (v "d"))
        (Atom.paren (v "e"))))


end Examples

end FormulaicVerif.Proofs.C01Grammar
