import FormulaicVerif.Proofs.C12Spec
import FormulaicVerif.Model.BSpline
import Mathlib.Algebra.Order.Field.Rat
import Mathlib.Tactic.Ring
import Mathlib.Tactic.Linarith
/-! Helper lemmas for C12 (not obligations): the model's buffered sweep (`Model.BSpline.rowAll`)
computes the reference recursion (`Spec.BSpline.B`) on the knot list read as a sequence, and the
knot vectors produced by `padKnots` are padded and non-decreasing. -/

namespace FormulaicVerif.Proofs.C12
open FormulaicVerif.Spec.BSpline FormulaicVerif.Model.BSpline

/-- a knot list read as a sequence (0 beyond the end; those values are never used) -/
def knotFn (knots : List Rat) : ℕ → ℚ := fun i => knots.getD i 0

theorem list_eq_map_knotFn (l : List Rat) : l = (List.range' 0 l.length).map (knotFn l) := by
  apply List.ext_getElem?
  intro k
  by_cases hk : k < l.length
  · simp [knotFn, hk]
  · simp [hk]

theorem drop_eq_map_knotFn (l : List Rat) (d : ℕ) :
    l.drop d = (List.range' 0 (l.length - d)).map (fun j => knotFn l (j + d)) := by
  apply List.ext_getElem?
  intro k
  by_cases hk : k < l.length - d
  · have : d + k < l.length := by omega
    simp [knotFn, hk, this, Nat.add_comm]
  · have : l.length ≤ d + k := by omega
    simp [hk]

theorem ind0_eq (ext : Bool) (d n i : ℕ) (t : ℕ → ℚ) (x : ℚ) (h : i + 1 < n) :
    ind0 ext d n i (t i) (t (i + 1)) x = b0 t n d (n - d - 1) ext x i := by
  have e : (i + 1 + d + 1 = n) ↔ (i + 1 = n - d - 1) := by omega
  unfold ind0 b0 ind indExt
  simp only [h, if_true, e]

theorem level0Aux_eq (ext : Bool) (d n : ℕ) (x : ℚ) (t : ℕ → ℚ) :
    ∀ m i, level0Aux ext d n x i ((List.range' i m).map t)
      = (List.range' i (m - 1)).map (fun j => ind0 ext d n j (t j) (t (j + 1)) x)
  | 0, i => by simp [level0Aux]
  | 1, i => by simp [List.range'_succ, level0Aux]
  | m + 2, i => by
    have ih := level0Aux_eq ext d n x t (m + 1) (i + 1)
    have e : m + 2 - 1 = m + 1 := rfl
    rw [e]
    simp only [List.range'_succ, List.map_cons, level0Aux, Nat.add_sub_cancel] at ih ⊢
    rw [ih]

theorem level0_eq (ext : Bool) (d : ℕ) (knots : List Rat) (x : ℚ) :
    level0 ext d knots x
      = (List.range' 0 (knots.length - 1)).map (b0 (knotFn knots) knots.length d (knots.length - d - 1) ext x) := by
  unfold level0
  conv => lhs; rw [list_eq_map_knotFn knots]
  rw [List.length_map, List.length_range', level0Aux_eq]
  apply List.map_congr_left
  intro j hj
  rw [List.mem_range'_1] at hj
  exact ind0_eq ext d _ j _ x (by omega)


theorem stepAux_nil3 (x : ℚ) (a b : List Rat) : stepAux x a b [] = [] := by
  unfold stepAux; split <;> simp_all

theorem stepAux_single3 (x : ℚ) (a b : List Rat) (p : Rat) : stepAux x a b [p] = [] := by
  unfold stepAux; split <;> simp_all

theorem stepAux_eq (x : ℚ) (t f : ℕ → ℚ) (d e : ℕ) :
    ∀ m i, stepAux x ((List.range' i (m + e)).map t) ((List.range' i m).map (fun j => t (j + d)))
        ((List.range' i m).map f)
      = (List.range' i (m - 1)).map (fun j =>
          alpha x (t j) (t (j + d)) * f j + (1 - alpha x (t (j + 1)) (t (j + 1 + d))) * f (j + 1))
  | 0, i => by simp [stepAux_nil3]
  | 1, i => by simp [List.range'_succ, stepAux_single3]
  | m + 2, i => by
    have ih := stepAux_eq x t f d e (m + 1) (i + 1)
    have e1 : m + 2 - 1 = m + 1 := rfl
    have e2 : m + 2 + e = (m + e) + 2 := by omega
    have e3 : m + 1 + e = (m + e) + 1 := by omega
    rw [e1, e2]
    rw [e3] at ih
    simp only [List.range'_succ, List.map_cons, stepAux, Nat.add_sub_cancel] at ih ⊢
    rw [ih]

theorem step_eq (knots : List Rat) (d : ℕ) (x : ℚ) (f : ℕ → ℚ) :
    step knots d x ((List.range' 0 (knots.length - d)).map f)
      = (List.range' 0 (knots.length - d - 1)).map (fun j =>
          alpha x (knotFn knots j) (knotFn knots (j + d)) * f j
            + (1 - alpha x (knotFn knots (j + 1)) (knotFn knots (j + 1 + d))) * f (j + 1)) := by
  unfold step
  rw [drop_eq_map_knotFn]
  conv => lhs; arg 2; rw [list_eq_map_knotFn knots]
  have e : knots.length = (knots.length - d) + (knots.length - (knots.length - d)) := by omega
  conv => lhs; arg 2; arg 2; arg 2; rw [e]
  exact stepAux_eq x (knotFn knots) f d _ (knots.length - d) 0

theorem alpha_eq_omega (t : ℕ → ℚ) (i k : ℕ) (x : ℚ) : alpha x (t i) (t (i + k)) = omega t i k x := rfl

/-- level `k` of the recursion as a list: all `n - k - 1` functions at `x` -/
def specRow (knots : List Rat) (d : ℕ) (ext : Bool) (x : ℚ) (k : ℕ) : List ℚ :=
  (List.range' 0 (knots.length - k - 1)).map
    (B (knotFn knots) (b0 (knotFn knots) knots.length d (knots.length - d - 1) ext x) x k)

theorem step_specRow (knots : List Rat) (d : ℕ) (ext : Bool) (x : ℚ) (k : ℕ) :
    step knots (k + 1) x (specRow knots d ext x k) = specRow knots d ext x (k + 1) := by
  unfold specRow
  have e : knots.length - k - 1 = knots.length - (k + 1) := by omega
  rw [e, step_eq]
  apply List.map_congr_left
  intro j _
  simp only [B, ← alpha_eq_omega]

theorem Cache.get_set (c : Cache) (p : ℕ) (v : List Rat) : (c.set p v).get p = v := by
  unfold Cache.set Cache.get
  split <;> simp_all

theorem sweepFrom_eq (knots : List Rat) (dg : ℕ) (ext : Bool) (x : ℚ) :
    ∀ k d c, c.get d = specRow knots dg ext x d →
      (sweepFrom knots x c (d + 1) k).get (d + k) = specRow knots dg ext x (d + k)
  | 0, d, c, h => h
  | k + 1, d, c, h => by
    unfold sweepFrom
    have := sweepFrom_eq knots dg ext x k (d + 1)
      (c.set (d + 1) (step knots (d + 1) x (c.get (d + 1 - 1))))
      (by rw [Cache.get_set, Nat.add_sub_cancel, h, step_specRow])
    rw [show d + (k + 1) = d + 1 + k by omega]
    exact this

theorem rowAll_eq_specRow (knots : List Rat) (d : ℕ) (ext : Bool) (x : ℚ) :
    rowAll knots d ext x = specRow knots d ext x d := by
  unfold rowAll
  have := sweepFrom_eq knots d ext x d 0 ⟨level0 ext d knots x, []⟩
    (by simp [Cache.get, level0_eq, specRow, B])
  simpa using this


theorem padKnots_eq (lower upper : Rat) (interior : List Rat) (d : ℕ) :
    padKnots lower interior upper d
      = List.replicate (d + 1) lower ++ interior ++ List.replicate (d + 1) upper := by
  unfold padKnots
  rw [List.replicate_succ' (n := d) (a := lower), List.replicate_succ (n := d) (a := upper)]
  simp [List.append_assoc]

theorem padKnots_length (lower upper : Rat) (interior : List Rat) (d : ℕ) :
    (padKnots lower interior upper d).length = interior.length + 2 * d + 2 := by
  rw [padKnots_eq]; simp; omega

/-- hypotheses on the interior knots: non-decreasing and inside the bounds -/
structure KnotsOk (lower upper : Rat) (interior : List Rat) : Prop where
  le : lower ≤ upper
  sorted : interior.Pairwise (· ≤ ·)
  inb : ∀ k ∈ interior, lower ≤ k ∧ k ≤ upper

theorem padKnots_sorted {lower upper : Rat} {interior : List Rat} (h : KnotsOk lower upper interior)
    (d : ℕ) : (padKnots lower interior upper d).Pairwise (· ≤ ·) := by
  rw [padKnots_eq]
  simp only [List.pairwise_append, List.pairwise_replicate, List.mem_append, List.mem_replicate]
  refine ⟨⟨Or.inr (le_refl _), h.sorted, ?_⟩, Or.inr (le_refl _), ?_⟩
  · rintro a ⟨_, rfl⟩ b hb; exact (h.inb b hb).1
  · rintro a (⟨_, rfl⟩ | ha) b ⟨_, rfl⟩
    · exact h.le
    · exact (h.inb a ha).2

theorem knotFn_left (lower upper : Rat) (interior : List Rat) (d i : ℕ) (hi : i ≤ d) :
    knotFn (padKnots lower interior upper d) i = lower := by
  unfold knotFn
  rw [padKnots_eq, List.append_assoc, List.getD_eq_getElem?_getD, List.getElem?_append_left (by simp; omega)]
  have : i < d + 1 := by omega
  simp [this]

theorem knotFn_right (lower upper : Rat) (interior : List Rat) (d i : ℕ)
    (h1 : interior.length + d + 1 ≤ i) (h2 : i < interior.length + 2 * d + 2) :
    knotFn (padKnots lower interior upper d) i = upper := by
  unfold knotFn
  rw [padKnots_eq, List.getD_eq_getElem?_getD, List.getElem?_append_right (by simp; omega)]
  have : i - (d + 1 + interior.length) < d + 1 := by omega
  simp [this]

theorem padded_padKnots {lower upper : Rat} {interior : List Rat} (h : KnotsOk lower upper interior)
    (d : ℕ) :
    Padded (knotFn (padKnots lower interior upper d)) (padKnots lower interior upper d).length d
      ((padKnots lower interior upper d).length - d - 1) := by
  have hl := padKnots_length lower upper interior d
  have hs := padKnots_sorted h d
  rw [List.pairwise_iff_getElem] at hs
  refine ⟨by omega, by omega, ?_, ?_, ?_⟩
  · intro i j hij hj
    rcases Nat.eq_or_lt_of_le hij with rfl | hlt
    · exact le_refl _
    · have := hs i j (by omega) hj hlt
      have hi : i < (padKnots lower interior upper d).length := by omega
      simpa [knotFn, List.getD_eq_getElem?_getD, List.getElem?_eq_getElem hj, List.getElem?_eq_getElem hi] using this
  · intro i hi
    rw [knotFn_left _ _ _ _ _ hi, knotFn_left _ _ _ _ _ (le_refl _)]
  · intro i h1 h2
    rw [knotFn_right _ _ _ _ _ (by omega) (by omega), knotFn_right _ _ _ _ _ (by omega) (by omega)]


theorem sum_map_range (f : ℕ → ℚ) (n : ℕ) :
    ((List.range' 0 n).map f).sum = ∑ i ∈ Finset.range n, f i := by
  rw [← List.range_eq_range']
  induction n with
  | zero => simp
  | succ n ih => rw [List.range_succ, List.map_append, List.sum_append, ih, Finset.sum_range_succ]; simp

theorem specRow_congr (knots : List Rat) (d : ℕ) (ext : Bool) (x : ℚ) (k : ℕ) (c : ℕ → ℚ)
    (h : ∀ i, b0 (knotFn knots) knots.length d (knots.length - d - 1) ext x i = c i) :
    specRow knots d ext x k = (List.range' 0 (knots.length - k - 1)).map (B (knotFn knots) c x k) := by
  unfold specRow
  rw [show b0 (knotFn knots) knots.length d (knots.length - d - 1) ext x = c from funext h]

/-- the facts about one in-range point of a padded knot vector, packaged for the property theorems -/
theorem inside_unit {lower upper : Rat} {interior : List Rat} (h : KnotsOk lower upper interior)
    (d : ℕ) (x : ℚ) (h1 : lower ≤ x) (h2 : x ≤ upper) :
    let K := padKnots lower interior upper d
    ∃ j, d ≤ j ∧ j < K.length - d - 1 ∧
      rowAll K d false x = (List.range' 0 (K.length - d - 1)).map (B (knotFn K) (unit j) x d) ∧
      (∀ i, i ≤ j → knotFn K i ≤ x) ∧ (∀ i, j < i → i < K.length → x ≤ knotFn K i) := by
  intro K
  have P := padded_padKnots h d
  have hl : K.length = interior.length + 2 * d + 2 := padKnots_length lower upper interior d
  have e1 : knotFn K d = lower := knotFn_left _ _ _ _ _ (le_refl _)
  have e2 : knotFn K (K.length - d - 1) = upper := knotFn_right _ _ _ _ _ (by omega) (by omega)
  obtain ⟨j, ja, jb, ju, jlo, jhi, _, _⟩ := b0_unit_inside P x (by rw [e1]; exact h1) (by rw [e2]; exact h2)
  exact ⟨j, ja, jb, by rw [rowAll_eq_specRow, specRow_congr _ _ _ _ _ _ ju], jlo, jhi⟩


theorem selectCols_length {β : Type} (b : Bool) (l : List β) :
    (selectCols b l).length = if b then l.length else l.length - 1 := by
  unfold selectCols
  rw [List.length_map]
  cases b with
  | true => simp
  | false =>
    cases l with
    | nil => simp
    | cons a t =>
      rw [List.zipIdx_cons]
      have : (t.zipIdx 1).filter (fun p => decide (0 < p.2)) = t.zipIdx 1 := by
        rw [List.filter_eq_self]
        intro p hp
        have := List.le_snd_of_mem_zipIdx hp
        simp; omega
      simp [this]

theorem rowAll_length (knots : List Rat) (d : ℕ) (ext : Bool) (x : ℚ) :
    (rowAll knots d ext x).length = knots.length - d - 1 := by
  rw [rowAll_eq_specRow, specRow]; simp

theorem interiorKnots_length {a : Args} {lower upper : Rat} {xs : List (Option Rat)}
    {quant : List Rat → ℕ → List Rat} {l : List Rat} {df : ℕ}
    (hq : ∀ s m, (quant s m).length = m) (hdf : a.df = some (df : Int))
    (h : interiorKnots a lower upper xs quant = .ok l) :
    l.length + a.degree + (if a.intercept then 1 else 0) = df := by
  unfold interiorKnots at h
  simp only [hdf] at h
  by_cases hn : (df : Int) - (a.degree : Int) - (if a.intercept then 1 else 0) < 0
  · simp only [hn, if_true] at h; cases h
  · simp only [hn, if_false] at h
    by_cases h2 : (knotsSample a.mode lower upper xs).2 = 0
    · simp only [h2, if_true] at h; cases h
    · simp only [h2, if_false] at h
      by_cases h3 : (knotsSample a.mode lower upper xs).1.isEmpty = true
      · simp only [h3, if_true] at h; cases h
      · simp only [h3] at h
        injection h with h
        subst h
        rw [hq]
        cases hi : a.intercept <;> simp [hi] at hn ⊢ <;> omega

theorem prepare_shape {a : Args} {xs : List (Option Rat)} {quant : List Rat → ℕ → List Rat}
    {st : State} (h : prepare a xs quant = .ok st) :
    ∃ interior, interiorKnots a st.lower st.upper xs quant = .ok interior ∧
      st.knots = padKnots st.lower interior st.upper a.degree := by
  unfold prepare at h
  dsimp only at h
  split at h
  · cases h
  · split at h
    · cases h
    · split at h
      · cases h
      · split at h
        · cases h
        · split at h
          · cases h
          · injection h with h
            subst h
            rename_i hi
            exact ⟨_, hi, rfl⟩


end FormulaicVerif.Proofs.C12
