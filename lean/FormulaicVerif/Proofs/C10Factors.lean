import FormulaicVerif.Proofs.C10Vars
import FormulaicVerif.Proofs.C10Sort
/-! Helper lemmas for C10: sets of strings (`addStr`), `Term.__init__` (`mkTerm`), the factor side
(`term_factors`, `factors`, `factor_terms`), `Variable.union` and `factor_variables`. -/
namespace FormulaicVerif.Proofs.C10
open FormulaicVerif.Model.SpecMeta

/-! ### `set.add` on strings -/

theorem mem_addStr (s : List Str) (x y : Str) : y ∈ addStr s x ↔ y ∈ s ∨ y = x := by
  unfold addStr
  by_cases h : x ∈ s
  · have hc : s.contains x = true := by simpa using h
    rw [if_pos hc]
    constructor
    · exact Or.inl
    · rintro (h' | rfl)
      · exact h'
      · exact h
  · have hc : ¬ s.contains x = true := by simpa using h
    rw [if_neg hc]
    simp

theorem nodup_addStr (s : List Str) (x : Str) (h : s.Nodup) : (addStr s x).Nodup := by
  unfold addStr
  by_cases hx : x ∈ s
  · have hc : s.contains x = true := by simpa using hx
    rw [if_pos hc]; exact h
  · have hc : ¬ s.contains x = true := by simpa using hx
    rw [if_neg hc]
    exact List.nodup_append.mpr ⟨h, by simp, by
      intro a ha b hb; simp at hb; subst hb; exact fun e => hx (e ▸ ha)⟩

theorem mem_foldl_addStr (l s : List Str) (y : Str) : y ∈ l.foldl addStr s ↔ y ∈ s ∨ y ∈ l := by
  induction l generalizing s with
  | nil => simp
  | cons x l ih =>
    simp only [List.foldl_cons, ih, mem_addStr, List.mem_cons]
    constructor
    · rintro ((h | h) | h)
      · exact Or.inl h
      · exact Or.inr (Or.inl h)
      · exact Or.inr (Or.inr h)
    · rintro (h | h | h)
      · exact Or.inl (Or.inl h)
      · exact Or.inl (Or.inr h)
      · exact Or.inr h

theorem nodup_foldl_addStr (l s : List Str) (h : s.Nodup) : (l.foldl addStr s).Nodup := by
  induction l generalizing s with
  | nil => exact h
  | cons x l ih => exact ih _ (nodup_addStr s x h)

theorem foldl_addStr_of_nodup (l s : List Str) (h : (s ++ l).Nodup) : l.foldl addStr s = s ++ l := by
  induction l generalizing s with
  | nil => simp
  | cons x l ih =>
    have hx : x ∉ s := by
      intro hmem
      exact (List.nodup_append.mp h).2.2 x hmem x (by simp) rfl
    have : s.contains x = false := by simpa using hx
    simp only [List.foldl_cons, addStr, this, Bool.false_eq_true, if_false]
    rw [ih]
    · simp
    · simpa using h

/-! ### `Term.__init__` -/

theorem mkTerm_nodup (exprs : List Str) : (mkTerm exprs).Nodup :=
  nodup_foldl_addStr exprs [] List.nodup_nil

theorem mem_mkTerm (exprs : List Str) (e : Str) : e ∈ mkTerm exprs ↔ e ∈ exprs := by
  unfold mkTerm; rw [mem_foldl_addStr]; simp

theorem mkTerm_of_nodup (exprs : List Str) (h : exprs.Nodup) : mkTerm exprs = exprs := by
  unfold mkTerm; rw [foldl_addStr_of_nodup _ _ (by simpa using h)]; simp

/-- a `Term` built from any list of expressions with the same members as a duplicate-free term
compares equal to it -/
theorem sortStrs_mkTerm {u t : List Str} (ht : t.Nodup) (h : ∀ e, e ∈ u ↔ e ∈ t) :
    sortStrs (mkTerm u) = sortStrs t := by
  apply sortStrs_perm
  rw [List.perm_ext_iff_of_nodup (mkTerm_nodup u) ht]
  intro e
  rw [mem_mkTerm, h]

/-! ### `sorted` keeps the members -/

theorem mem_insertStr (x y : Str) (l : List Str) : y ∈ insertStr x l ↔ y = x ∨ y ∈ l := by
  induction l with
  | nil => simp [insertStr]
  | cons z l ih =>
    unfold insertStr
    split
    · simp
    · simp only [List.mem_cons, ih]
      constructor
      · rintro (h | h | h)
        · exact Or.inr (Or.inl h)
        · exact Or.inl h
        · exact Or.inr (Or.inr h)
      · rintro (h | h | h)
        · exact Or.inr (Or.inl h)
        · exact Or.inl h
        · exact Or.inr (Or.inr h)

theorem mem_sortStrs (y : Str) (l : List Str) : y ∈ sortStrs l ↔ y ∈ l := by
  induction l with
  | nil => simp [sortStrs]
  | cons x l ih =>
    have : sortStrs (x :: l) = insertStr x (sortStrs l) := rfl
    rw [this, mem_insertStr, ih]; simp

/-- equal `Term`s have the same factors -/
theorem mem_of_sortStrs_eq {u t : List Str} (h : sortStrs u = sortStrs t) (e : Str) : e ∈ u ↔ e ∈ t := by
  rw [← mem_sortStrs e u, h, mem_sortStrs]

/-! ### `term_factors` -/

/-- no two terms of the formula are equal -/
def DistinctF (F : List Term) : Prop := F.Pairwise (fun a b => sortStrs a ≠ sortStrs b)

instance (F : List Term) : Decidable (DistinctF F) := by unfold DistinctF; infer_instance

theorem addTermFactor_fresh (d : TDict (List Str)) (t : Term) (f : Str)
    (h : ∀ e ∈ d, sortStrs e.1 ≠ sortStrs t) : addTermFactor d t f = d ++ [(t, [f])] := by
  induction d with
  | nil => rfl
  | cons e d ih =>
    obtain ⟨k, w⟩ := e
    have hk : sortStrs k ≠ sortStrs t := h (k, w) (by simp)
    simp only [addTermFactor, keyMatches_term, beq_iff_eq, hk, if_false, List.cons_append]
    rw [ih (fun e he => h e (List.mem_cons_of_mem _ he))]

theorem addTermFactor_last (d : TDict (List Str)) (t : Term) (fs : List Str) (f : Str)
    (h : ∀ e ∈ d, sortStrs e.1 ≠ sortStrs t) :
    addTermFactor (d ++ [(t, fs)]) t f = d ++ [(t, addStr fs f)] := by
  induction d with
  | nil => simp [addTermFactor, keyMatches_term]
  | cons e d ih =>
    obtain ⟨k, w⟩ := e
    have hk : sortStrs k ≠ sortStrs t := h (k, w) (by simp)
    simp only [List.cons_append, addTermFactor, keyMatches_term, beq_iff_eq, hk, if_false]
    rw [ih (fun e he => h e (List.mem_cons_of_mem _ he))]

theorem termFactors_inner_last (d : TDict (List Str)) (t : Term) (fs rest : List Str)
    (h : ∀ e ∈ d, sortStrs e.1 ≠ sortStrs t) :
    rest.foldl (fun d f => addTermFactor d t f) (d ++ [(t, fs)]) = d ++ [(t, rest.foldl addStr fs)] := by
  induction rest generalizing fs with
  | nil => rfl
  | cons g rest ih => simp only [List.foldl_cons, addTermFactor_last d t fs g h, ih]

theorem termFactors_inner (d : TDict (List Str)) (t : Term) (ht : t.Nodup)
    (h : ∀ e ∈ d, sortStrs e.1 ≠ sortStrs t) :
    t.foldl (fun d f => addTermFactor d t f) d = if t = [] then d else d ++ [(t, t)] := by
  cases ht' : t with
  | nil => simp
  | cons f rest =>
    simp only [List.foldl_cons, reduceCtorEq, if_false]
    rw [← ht']
    rw [addTermFactor_fresh d t f h, termFactors_inner_last d t [f] rest h]
    have : rest.foldl addStr [f] = f :: rest := by
      rw [foldl_addStr_of_nodup]
      · rfl
      · rw [ht'] at ht; simpa using ht
    rw [this, ht']

theorem termFactors_foldl (F : List Term) (d : TDict (List Str)) (hF : DistinctF F)
    (hn : ∀ t ∈ F, t.Nodup) (hd : ∀ e ∈ d, ∀ t ∈ F, sortStrs e.1 ≠ sortStrs t) :
    F.foldl (fun d t => t.foldl (fun d f => addTermFactor d t f) d) d
      = d ++ (F.filter (fun t => !t.isEmpty)).map (fun t => (t, t)) := by
  induction F generalizing d with
  | nil => simp
  | cons t F ih =>
    have hp := List.pairwise_cons.mp hF
    simp only [List.foldl_cons]
    rw [termFactors_inner d t (hn t (by simp)) (fun e he => hd e he t (by simp))]
    by_cases ht : t = []
    · subst ht
      simp only [if_true]
      rw [ih d hp.2 (fun u hu => hn u (List.mem_cons_of_mem _ hu))
        (fun e he u hu => hd e he u (List.mem_cons_of_mem _ hu))]
      simp
    · simp only [ht, if_false]
      rw [ih _ hp.2 (fun u hu => hn u (List.mem_cons_of_mem _ hu))]
      · have : t.isEmpty = false := by cases t <;> simp_all
        simp [this]
      · intro e he u hu
        rcases List.mem_append.mp he with he | he
        · exact hd e he u (List.mem_cons_of_mem _ hu)
        · simp only [List.mem_singleton] at he
          subst he
          exact hp.1 u hu

/-- when no term is repeated, `term_factors` maps every (non-empty) term to its own factors -/
theorem termFactors_eq (F : List Term) (hF : DistinctF F) (hn : ∀ t ∈ F, t.Nodup) :
    termFactors F = (F.filter (fun t => !t.isEmpty)).map (fun t => (t, t)) := by
  unfold termFactors
  rw [termFactors_foldl F [] hF hn (by simp)]
  simp

theorem termFactors_lookup' (F : List Term) (hF : DistinctF F) (hn : ∀ t ∈ F, t.Nodup) (t : Term)
    (ht : t ∈ F) (hne : t ≠ []) (u : Term) (hu : sortStrs u = sortStrs t) :
    (termFactors F).lookup (.term u) = some t := by
  rw [termFactors_eq F hF hn]
  unfold TDict.lookup
  rw [find?_unique _ _ (t, t)]
  · rfl
  · apply List.mem_map_of_mem (f := fun t => (t, t))
    apply List.mem_filter.mpr
    exact ⟨ht, by cases t <;> simp_all⟩
  · simp [keyMatches_term, hu]
  · intro y hy py
    obtain ⟨t', ht', rfl⟩ := List.mem_map.mp hy
    simp only [keyMatches_term, beq_iff_eq] at py
    have ht'' := (List.mem_filter.mp ht').1
    have : t' = t := by
      have hp : sortStrs t' = sortStrs t := py.trans hu
      clear hy ht' py
      induction F with
      | nil => cases ht
      | cons a F ih =>
        have hpw := List.pairwise_cons.mp hF
        rcases List.mem_cons.mp ht with h1 | h1 <;> rcases List.mem_cons.mp ht'' with h2 | h2
        · rw [h1, h2]
        · subst h1; exact absurd hp.symm (hpw.1 _ h2)
        · subst h2; exact absurd hp (hpw.1 _ h1)
        · exact ih hpw.2 (fun t ht => hn t (List.mem_cons_of_mem _ ht)) h1 h2
    rw [this]

/-! ### `factors` -/

theorem mem_factors_foldl (F : List Term) (s : List Str) (f : Str) :
    f ∈ F.foldl (fun s t => t.foldl addStr s) s ↔ f ∈ s ∨ ∃ t ∈ F, f ∈ t := by
  induction F generalizing s with
  | nil => simp
  | cons t F ih =>
    simp only [List.foldl_cons, ih, mem_foldl_addStr, List.mem_cons]
    constructor
    · rintro ((h | h) | ⟨u, hu, h⟩)
      · exact Or.inl h
      · exact Or.inr ⟨t, Or.inl rfl, h⟩
      · exact Or.inr ⟨u, Or.inr hu, h⟩
    · rintro (h | ⟨u, rfl | hu, h⟩)
      · exact Or.inl (Or.inl h)
      · exact Or.inl (Or.inr h)
      · exact Or.inr ⟨u, hu, h⟩

theorem mem_factors (F : List Term) (f : Str) : f ∈ factors F ↔ ∃ t ∈ F, f ∈ t := by
  unfold factors; rw [mem_factors_foldl]; simp

theorem nodup_factors (F : List Term) : (factors F).Nodup := by
  unfold factors
  have gen : ∀ (F : List Term) (s : List Str), s.Nodup → (F.foldl (fun s t => t.foldl addStr s) s).Nodup := by
    intro F
    induction F with
    | nil => intro s h; exact h
    | cons t F ih => intro s h; exact ih _ (nodup_foldl_addStr t s h)
  exact gen F [] List.nodup_nil

/-! ### reverse maps built with `addVarTerm` (generic form of `outer_lookup`) -/

theorem rev_lookup (es : List (Term × List Str)) (d : SDict (List Term)) (v' : Str)
    (h : es.Pairwise (fun a b => sortStrs a.1 ≠ sortStrs b.1))
    (hd : ∀ t ∈ (SDict.lookup d v').getD [], ∀ e ∈ es, sortStrs t ≠ sortStrs e.1) :
    SDict.lookup (es.foldl vtStep d) v' =
      if (es.filter (fun e => e.2.contains v')).map (·.1) = [] then SDict.lookup d v'
      else some ((SDict.lookup d v').getD [] ++ (es.filter (fun e => e.2.contains v')).map (·.1)) := by
  induction es generalizing d with
  | nil => simp
  | cons e es ih =>
    have hp := List.pairwise_cons.mp h
    simp only [List.foldl_cons]
    have hstep : SDict.lookup (vtStep d e) v' =
        if v' ∈ e.2 then some ((SDict.lookup d v').getD [] ++ [e.1]) else SDict.lookup d v' := by
      unfold vtStep
      rw [inner_lookup]
      by_cases hm : v' ∈ e.2
      · simp only [hm, if_true]
        rw [addTerm_fresh _ _ (fun u hu => hd u hu e (by simp))]
      · simp [hm]
    by_cases hm : v' ∈ e.2
    · have hc : e.2.contains v' = true := by simpa using hm
      have hf : (e :: es).filter (fun e => e.2.contains v') = e :: es.filter (fun e => e.2.contains v') :=
        List.filter_cons_of_pos hc
      rw [ih _ hp.2]
      · rw [hstep, hf, if_pos hm]
        simp only [Option.getD_some, List.map_cons, reduceCtorEq, if_false]
        by_cases he : (es.filter (fun e => e.2.contains v')).map (·.1) = []
        · rw [if_pos he, he]
        · rw [if_neg he]; simp
      · rw [hstep, if_pos hm]
        simp only [Option.getD_some]
        intro t ht s hs
        rcases List.mem_append.mp ht with ht | ht
        · exact hd t ht s (List.mem_cons_of_mem _ hs)
        · simp only [List.mem_singleton] at ht
          subst ht
          exact hp.1 s hs
    · have hc : ¬ e.2.contains v' = true := by simpa using hm
      have hf : (e :: es).filter (fun e => e.2.contains v') = es.filter (fun e => e.2.contains v') :=
        List.filter_cons_of_neg hc
      rw [ih _ hp.2]
      · rw [hstep, hf, if_neg hm]
      · rw [hstep, if_neg hm]
        exact fun t ht s hs => hd t ht s (List.mem_cons_of_mem _ hs)

/-- `factor_terms[f]` = the terms of the formula that contain `f`, in formula order -/
theorem factorTerms_lookup (F : List Term) (hF : DistinctF F) (hn : ∀ t ∈ F, t.Nodup) (f : Str) :
    SDict.lookup (factorTerms F) f =
      if F.filter (fun t => t.contains f) = [] then none else some (F.filter (fun t => t.contains f)) := by
  have hft : factorTerms F = (termFactors F).foldl vtStep [] := rfl
  rw [hft, termFactors_eq F hF hn]
  have hpw : ((F.filter (fun t => !t.isEmpty)).map (fun t => (t, t))).Pairwise
      (fun a b => sortStrs a.1 ≠ sortStrs b.1) := by
    rw [List.pairwise_map]
    exact List.Pairwise.sublist List.filter_sublist hF
  rw [rev_lookup _ [] f hpw (by simp [SDict.lookup])]
  have hflt : ((F.filter (fun t => !t.isEmpty)).map (fun t => (t, t))).filter (fun e => e.2.contains f)
      = (F.filter (fun t => t.contains f)).map (fun t => (t, t)) := by
    rw [List.filter_map, List.filter_filter]
    congr 1
    apply List.filter_congr
    intro t _
    cases t <;> simp
  have hmap : ((F.filter (fun t => t.contains f)).map (fun t => (t, t))).map (·.1)
      = F.filter (fun t => t.contains f) := by
    rw [List.map_map]
    exact List.map_id' _
  rw [hflt, hmap]
  rfl

/-! ### `Variable.union`: the names -/

theorem addStr_cons_ne (w x : Str) (l : List Str) (h : w ≠ x) : addStr (w :: l) x = w :: addStr l x := by
  unfold addStr
  by_cases hx : x ∈ l
  · have h1 : l.contains x = true := by simpa using hx
    have h2 : (w :: l).contains x = true := by simp [hx]
    rw [if_pos h1, if_pos h2]
  · have h1 : ¬ l.contains x = true := by simpa using hx
    have h2 : ¬ (w :: l).contains x = true := by
      simp only [List.contains_cons, Bool.or_eq_true, beq_iff_eq, not_or]
      exact ⟨fun e => h e.symm, by simpa using hx⟩
    rw [if_neg h1, if_neg h2]
    rfl

theorem addStr_cons_eq (w : Str) (l : List Str) : addStr (w :: l) w = w :: l := by
  unfold addStr
  have : (w :: l).contains w = true := by simp
  rw [if_pos this]

theorem names_addVar (l : List Var) (v : Var) :
    (addVar l v).map (·.name) = addStr (l.map (·.name)) v.name := by
  induction l with
  | nil => rfl
  | cons w l ih =>
    unfold addVar
    by_cases h : w.name = v.name
    · simp only [h, beq_self_eq_true, if_true, List.map_cons]
      rw [addStr_cons_eq]
    · simp only [beq_iff_eq, h, if_false, List.map_cons, ih]
      rw [addStr_cons_ne _ _ _ h]

theorem names_foldl_addVar (s acc : List Var) :
    (s.foldl addVar acc).map (·.name) = (s.map (·.name)).foldl addStr (acc.map (·.name)) := by
  induction s generalizing acc with
  | nil => rfl
  | cons v s ih => simp only [List.foldl_cons, List.map_cons, ih, names_addVar]

/-- the names of `Variable.union(*sets)` are the union of the names, in first-occurrence order -/
theorem names_unionVars (sets : List (List Var)) :
    (unionVars sets).map (·.name) = unionStrs (sets.map (·.map (·.name))) := by
  unfold unionVars unionStrs
  have gen : ∀ (sets : List (List Var)) (acc : List Var),
      (sets.foldl (fun acc s => s.foldl addVar acc) acc).map (·.name)
        = (sets.map (·.map (·.name))).foldl (fun acc s => s.foldl addStr acc) (acc.map (·.name)) := by
    intro sets
    induction sets with
    | nil => intro acc; rfl
    | cons s sets ih => intro acc; simp only [List.foldl_cons, List.map_cons, ih, names_foldl_addVar]
  exact gen sets []

theorem mem_unionStrs (sets : List (List Str)) (y : Str) : y ∈ unionStrs sets ↔ ∃ s ∈ sets, y ∈ s := by
  unfold unionStrs
  have := mem_factors_foldl sets [] y
  simpa using this

theorem nodup_unionStrs (sets : List (List Str)) : (unionStrs sets).Nodup := nodup_factors sets

theorem mem_names_unionVars (sets : List (List Var)) (y : Str) :
    y ∈ (unionVars sets).map (·.name) ↔ ∃ s ∈ sets, ∃ w ∈ s, w.name = y := by
  rw [names_unionVars, mem_unionStrs]
  constructor
  · rintro ⟨s, hs, hy⟩
    obtain ⟨s', hs', rfl⟩ := List.mem_map.mp hs
    obtain ⟨w, hw, rfl⟩ := List.mem_map.mp hy
    exact ⟨s', hs', w, hw, rfl⟩
  · rintro ⟨s, hs, w, hw, rfl⟩
    exact ⟨s.map (·.name), List.mem_map_of_mem hs, List.mem_map_of_mem hw⟩

theorem nodup_names_unionVars (sets : List (List Var)) : ((unionVars sets).map (·.name)).Nodup := by
  rw [names_unionVars]; exact nodup_unionStrs _

/-! ### the variables of a row, of a spec -/

/-- every recorded scoped factor of a structure, in the order `factor_variables` visits them -/
def allSF (st : Structure) : List SFactor := st.flatMap (fun r => r.sterms.flatten)

/-- the recorded scoped factors of one row -/
def rowSF (r : Row) : List SFactor := r.sterms.flatten

/-- `v` is one of the recorded variables of the scoped factor -/
def sfUses (sf : SFactor) (v : Str) : Prop := ∃ ws, sf.vars = some ws ∧ ∃ w ∈ ws, w.name = v

theorem mem_rowVars (r : Row) (v : Str) : v ∈ rowVars r ↔ ∃ sf ∈ rowSF r, sfUses sf v := by
  unfold rowVars rowVarsFull
  rw [mem_names_unionVars]
  constructor
  · rintro ⟨s, hs, w, hw, rfl⟩
    obtain ⟨sc, hsc, rfl⟩ := List.mem_map.mp hs
    have hw' : w.name ∈ (scopedVarsFull sc).map (·.name) := List.mem_map_of_mem hw
    unfold scopedVarsFull at hw'
    rw [mem_names_unionVars] at hw'
    obtain ⟨ws, hws, w', hw', he⟩ := hw'
    obtain ⟨sf, hsf, hv⟩ := List.mem_filterMap.mp hws
    exact ⟨sf, List.mem_flatten.mpr ⟨sc, hsc, hsf⟩, ws, hv, w', hw', he⟩
  · rintro ⟨sf, hsf, ws, hv, w, hw, rfl⟩
    obtain ⟨sc, hsc, hsf'⟩ := List.mem_flatten.mp hsf
    have : w.name ∈ (scopedVarsFull sc).map (·.name) := by
      unfold scopedVarsFull
      rw [mem_names_unionVars]
      exact ⟨ws, List.mem_filterMap.mpr ⟨sf, hsf', hv⟩, w, hw, rfl⟩
    obtain ⟨w', hw', he⟩ := List.mem_map.mp this
    exact ⟨scopedVarsFull sc, List.mem_map_of_mem hsc, w', hw', he⟩

theorem rowSF_sub {st : Structure} {r : Row} (hr : r ∈ st) {sf : SFactor} (h : sf ∈ rowSF r) : sf ∈ allSF st :=
  List.mem_flatMap.mpr ⟨r, hr, h⟩

/-! ### `factor_variables` -/

def stepSF (d : SDict (List Var)) (sf : SFactor) : Except PyErr (SDict (List Var)) :=
  match sf.vars with
  | some vs => .ok (extendAt d sf.expr vs)
  | none => .error .typeError

theorem foldlM_flatten {α β} (f : β → α → Except PyErr β) (ls : List (List α)) (b : β) :
    ls.flatten.foldlM f b = ls.foldlM (fun b l => l.foldlM f b) b := by
  induction ls generalizing b with
  | nil => rfl
  | cons l ls ih =>
    simp only [List.flatten_cons, List.foldlM_append, List.foldlM_cons]
    cases l.foldlM f b with
    | error e => rfl
    | ok b' => exact ih b'

theorem factorVarLists_eq (st : Structure) : factorVarLists st = (allSF st).foldlM stepSF [] := by
  unfold factorVarLists allSF
  have gen : ∀ (st : Structure) (d : SDict (List Var)),
      st.foldlM (fun d r => r.sterms.foldlM (fun d sc => sc.foldlM stepSF d) d) d
        = (st.flatMap (fun r => r.sterms.flatten)).foldlM stepSF d := by
    intro st
    induction st with
    | nil => intro d; rfl
    | cons r st ih =>
      intro d
      simp only [List.foldlM_cons, List.flatMap_cons, List.foldlM_append]
      rw [foldlM_flatten]
      cases r.sterms.foldlM (fun b l => l.foldlM stepSF b) d with
      | error e => rfl
      | ok d' => exact ih d'
  exact gen st []

def varsOf (sf : SFactor) : List Var := match sf.vars with | some vs => vs | none => []

theorem foldlM_stepSF_ok (l : List SFactor) (d : SDict (List Var)) (h : ∀ sf ∈ l, sf.vars ≠ none) :
    l.foldlM stepSF d = .ok (l.foldl (fun d sf => extendAt d sf.expr (varsOf sf)) d) := by
  induction l generalizing d with
  | nil => rfl
  | cons sf l ih =>
    simp only [List.foldlM_cons, List.foldl_cons]
    cases hv : sf.vars with
    | none => exact absurd hv (h sf (by simp))
    | some vs =>
      have : stepSF d sf = .ok (extendAt d sf.expr vs) := by simp [stepSF, hv]
      have hvo : varsOf sf = vs := by simp [varsOf, hv]
      rw [this, hvo]
      exact ih _ (fun s hs => h s (List.mem_cons_of_mem _ hs))

theorem foldlM_stepSF_err (l : List SFactor) (d : SDict (List Var)) (h : ∃ sf ∈ l, sf.vars = none) :
    l.foldlM stepSF d = .error .typeError := by
  induction l generalizing d with
  | nil => obtain ⟨_, h, _⟩ := h; cases h
  | cons sf l ih =>
    simp only [List.foldlM_cons]
    cases hv : sf.vars with
    | none =>
      have : stepSF d sf = .error .typeError := by simp [stepSF, hv]
      rw [this]; rfl
    | some vs =>
      have : stepSF d sf = .ok (extendAt d sf.expr vs) := by simp [stepSF, hv]
      rw [this]
      apply ih
      obtain ⟨s, hs, hn⟩ := h
      rcases List.mem_cons.mp hs with rfl | hs
      · rw [hv] at hn; cases hn
      · exact ⟨s, hs, hn⟩

theorem extendAt_lookup (d : SDict (List Var)) (f f' : Str) (vs : List Var) :
    SDict.lookup (extendAt d f vs) f' =
      if f = f' then some ((SDict.lookup d f').getD [] ++ vs) else SDict.lookup d f' := by
  induction d with
  | nil =>
    by_cases h : f = f'
    · subst h; simp [extendAt, SDict.lookup]
    · simp [extendAt, SDict.lookup, h]
  | cons e d ih =>
    obtain ⟨a, w⟩ := e
    by_cases ha : a = f
    · subst ha
      simp only [extendAt, beq_self_eq_true, if_true, SDict.lookup_cons]
      by_cases h : a = f' <;> simp [h]
    · simp only [extendAt, beq_iff_eq, ha, if_false, SDict.lookup_cons, ih]
      by_cases h' : a = f'
      · subst h'
        have : f ≠ a := fun e => ha e.symm
        simp [this]
      · simp [h']

theorem foldl_extendAt_lookup (l : List SFactor) (d : SDict (List Var)) (f : Str) :
    SDict.lookup (l.foldl (fun d sf => extendAt d sf.expr (varsOf sf)) d) f =
      if l.filter (fun sf => sf.expr == f) = [] then SDict.lookup d f
      else some ((SDict.lookup d f).getD [] ++ (l.filter (fun sf => sf.expr == f)).flatMap varsOf) := by
  induction l generalizing d with
  | nil => simp
  | cons sf l ih =>
    simp only [List.foldl_cons, ih, extendAt_lookup, List.filter_cons]
    by_cases h : sf.expr = f
    · simp only [h, beq_self_eq_true, if_true, Option.getD_some, reduceCtorEq, if_false,
        List.flatMap_cons, List.append_assoc]
      by_cases he : l.filter (fun sf => sf.expr == f) = [] <;> simp [he]
    · simp [h]

/-- the scoped factors recorded for the expression `f` -/
def occurrences (st : Structure) (f : Str) : List SFactor := (allSF st).filter (fun sf => sf.expr == f)

theorem SDict.lookup_map_key {α} (ks : List Str) (g : Str → α) (k : Str) (hk : k ∈ ks) :
    SDict.lookup (ks.map (fun f => (f, g f))) k = some (g k) := by
  induction ks with
  | nil => cases hk
  | cons a ks ih =>
    simp only [List.map_cons, SDict.lookup_cons]
    by_cases h : a = k
    · simp [h]
    · simp only [h, if_false]
      rcases List.mem_cons.mp hk with e | hk
      · exact absurd e.symm h
      · exact ih hk

end FormulaicVerif.Proofs.C10
