import FormulaicVerif.Spec.CubicSpline
import Mathlib.Algebra.Polynomial.Derivative
import Mathlib.Analysis.Calculus.Deriv.Polynomial
import Mathlib.Tactic.Ring
import Mathlib.Tactic.FieldSimp
import Mathlib.Tactic.Linarith
import Mathlib.Tactic.ComputeDegree
import Mathlib.Tactic.LinearCombination

/-! Helper lemmas for C12 (not obligations): algebra of one cubic piece (`Spec.CubicSpline.Piece`)
over any field of characteristic zero — end values, one-sided derivatives at the ends, "C¹ at a
shared knot ⟺ tridiagonal equation" — and the proof that `d1`/`d2` are the derivatives of `val`:
formally (`Polynomial.derivative`) and analytically (`HasDerivAt` over a normed field). -/

namespace FormulaicVerif.Proofs.C12
open FormulaicVerif.Spec.CubicSpline
variable {α : Type} [Field α] [CharZero α]

namespace Piece
open FormulaicVerif.Spec.CubicSpline.Piece

theorem val_left (p : Piece α) (hh : p.h ≠ 0) : p.val p.kl = p.yl := by
  have e : p.kr - p.kl = p.h := rfl
  unfold val
  rw [e]
  field_simp
  ring

theorem val_right (p : Piece α) (hh : p.h ≠ 0) : p.val p.kr = p.yr := by
  have e : p.kr - p.kl = p.h := rfl
  unfold val
  rw [e]
  field_simp
  ring

omit [CharZero α] in
theorem d2_left (p : Piece α) (hh : p.h ≠ 0) : p.d2 p.kl = p.ml := by
  have e : p.kr - p.kl = p.h := rfl
  unfold d2
  rw [e]
  field_simp
  ring

omit [CharZero α] in
theorem d2_right (p : Piece α) (hh : p.h ≠ 0) : p.d2 p.kr = p.mr := by
  have e : p.kr - p.kl = p.h := rfl
  unfold d2
  rw [e]
  field_simp
  ring

/-- one-sided first derivatives at the two ends -/
theorem d1_left (p : Piece α) (hh : p.h ≠ 0) :
    p.d1 p.kl = (p.yr - p.yl) / p.h - p.h / 3 * p.ml - p.h / 6 * p.mr := by
  have e : p.kr - p.kl = p.h := rfl
  unfold d1
  rw [e]
  field_simp
  ring

theorem d1_right (p : Piece α) (hh : p.h ≠ 0) :
    p.d1 p.kr = (p.yr - p.yl) / p.h + p.h / 6 * p.ml + p.h / 3 * p.mr := by
  have e : p.kr - p.kl = p.h := rfl
  unfold d1
  rw [e]
  field_simp
  ring

/-- **C¹ at a shared knot ⟺ the tridiagonal equation there.**  `p` is the piece to the left of
the knot, `q` the piece to the right; they share the knot's value and second derivative. -/
theorem c1_iff_triEq (p q : Piece α) (hp : p.h ≠ 0) (hq : q.h ≠ 0)
    (hy : p.yr = q.yl) (hm : p.mr = q.ml) :
    p.d1 p.kr = q.d1 q.kl ↔ TriEq p.h q.h p.yl p.yr q.yr p.ml p.mr q.mr := by
  rw [d1_right p hp, d1_left q hq, TriEq, ← hy, ← hm]
  constructor <;> intro h <;> linear_combination h


open Polynomial in
/-- the piece as an element of `α[X]` -/
noncomputable def poly (p : Piece α) : Polynomial α :=
  C (p.yl / p.h) * (C p.kr - X) + C (p.yr / p.h) * (X - C p.kl)
    + C p.ml * (C (1 / (6 * p.h)) * (C p.kr - X) ^ 3 - C (p.h / 6) * (C p.kr - X))
    + C p.mr * (C (1 / (6 * p.h)) * (X - C p.kl) ^ 3 - C (p.h / 6) * (X - C p.kl))

open Polynomial in
theorem poly_eval (p : Piece α) (x : α) : (poly p).eval x = p.val x := by
  simp only [poly, val, eval_add, eval_mul, eval_sub, eval_pow, eval_C, eval_X]
  ring

open Polynomial in
theorem poly_derivative_eval (p : Piece α) (x : α) : (derivative (poly p)).eval x = p.d1 x := by
  simp only [poly, d1, derivative_add, derivative_mul, derivative_sub, derivative_pow, derivative_C,
    derivative_X, eval_add, eval_mul, eval_sub, eval_pow, eval_C, eval_X, eval_zero, eval_one,
    Nat.cast_ofNat]
  ring

open Polynomial in
theorem poly_derivative2_eval (p : Piece α) (hh : p.h ≠ 0) (x : α) :
    (derivative (derivative (poly p))).eval x = p.d2 x := by
  simp only [poly, d2, derivative_add, derivative_mul, derivative_sub, derivative_pow, derivative_C,
    derivative_X, eval_add, eval_mul, eval_sub, eval_pow, eval_C, eval_X, eval_zero, eval_one,
    Nat.cast_ofNat, derivative_zero, derivative_one]
  field_simp
  ring

omit [CharZero α] in
open Polynomial in
theorem poly_natDegree (p : Piece α) : (poly p).natDegree ≤ 3 := by
  unfold poly
  compute_degree

end Piece

/-- over a normed field (e.g. `ℝ`, or `ℚ` itself) `d1` is the derivative of `val` in the sense
of analysis, and `d2` that of `d1` -/
theorem Piece.hasDerivAt_val {𝕜 : Type} [NontriviallyNormedField 𝕜] [CharZero 𝕜] (p : Piece 𝕜) (x : 𝕜) :
    HasDerivAt p.val (p.d1 x) x := by
  have := (Piece.poly p).hasDerivAt x
  simp only [Piece.poly_eval, Piece.poly_derivative_eval] at this
  exact this

theorem Piece.hasDerivAt_d1 {𝕜 : Type} [NontriviallyNormedField 𝕜] [CharZero 𝕜] (p : Piece 𝕜)
    (hh : p.h ≠ 0) (x : 𝕜) : HasDerivAt p.d1 (p.d2 x) x := by
  have := (Polynomial.derivative (Piece.poly p)).hasDerivAt x
  simp only [Piece.poly_derivative_eval, Piece.poly_derivative2_eval p hh] at this
  exact this

end FormulaicVerif.Proofs.C12
