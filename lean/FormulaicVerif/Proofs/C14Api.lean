import FormulaicVerif.Model.ParseApi
import FormulaicVerif.Proofs.C14Multistage
/-! C14 for every entry point of the parser: all targets of `parse`, the base class `FormulaParser`. -/
namespace FormulaicVerif.Proofs.C14Api
open FormulaicVerif FormulaicVerif.Model FormulaicVerif.Model.ParseApi
open FormulaicVerif.Proofs.C14General FormulaicVerif.Proofs.C14Multistage

/-- `get_terms` is the composition of the three stages of `parse` -/
theorem parseTerms_stages (cfg : ParseCfg) (env : PyEnv) (cs : List CharInfo) :
    parseTerms cfg env cs =
      (match getTokens cfg env cs with
       | .error e => .error e
       | .ok (ts, lhs) =>
         match tokensToAst cfg.table ts with
         | .error e => .error e
         | .ok oa => defaultTermsOfAst { available := env.available, usedLhs := lhsVariables env lhs } oa) := by
  unfold parseTerms
  cases getTokens cfg env cs with
  | error e => rfl
  | ok p =>
    obtain ⟨ts, lhs⟩ := p
    simp only
    cases tokensToAst cfg.table ts with
    | error e => rfl
    | ok oa =>
      cases oa with
      | none => simp [defaultTermsOfAst, baseTermsOfAst, mkStruct, checkVal, checkVal.checkFields, checkTerms, checkTermsAux]
      | some a =>
        simp only [defaultTermsOfAst, baseTermsOfAst]
        cases evalAst { available := env.available, usedLhs := lhsVariables env lhs } a with
        | error e => rfl
        | ok v => rfl

/-- the levels of the live `Target` enum -/
theorem levels_live : levels = some ⟨1, 2, 3⟩ := by decide

/-- at the TERMS target (and above) `parse` is `get_terms` -/
theorem defaultParseTo_terms (lv : Levels) (hlv : levels = some lv) (lvl : Nat) (h : lv.terms ≤ lvl)
    (cfg : ParseCfg) (env : PyEnv) (cs : List CharInfo) :
    defaultParseTo lv lvl cfg env cs = (parseTerms cfg env cs).map Out.terms := by
  rw [levels_live] at hlv
  injection hlv with hlv
  subst hlv
  simp only at h
  unfold defaultParseTo
  rw [parseTerms_stages]
  have h1 : ¬ lvl < 1 := by omega
  have h2 : ¬ lvl < 2 := by omega
  have h3 : ¬ lvl < 3 := by omega
  simp only [h1, h2, h3, if_false]
  cases getTokens cfg env cs with
  | error e => rfl
  | ok p =>
    obtain ⟨ts, lhs⟩ := p
    simp only
    cases tokensToAst cfg.table ts with
    | error e => rfl
    | ok oa =>
      simp only
      cases defaultTermsOfAst { available := env.available, usedLhs := lhsVariables env lhs } oa <;> rfl

/-- whatever the target: an internal exception of `parse` is an internal exception of `get_terms` -/
theorem defaultParseTo_internal (lv : Levels) (lvl : Nat) (cfg : ParseCfg) (env : PyEnv)
    (hnorm : ∀ t x, env.norm t = .error x → x = .syntaxError) (cs : List CharInfo) (k : String)
    (h : defaultParseTo lv lvl cfg env cs = .error (.internal k)) :
    parseTerms cfg env cs = .error (.internal k) := by
  unfold defaultParseTo at h
  rw [parseTerms_stages]
  split at h
  · cases h
  · cases hg : getTokens cfg env cs with
    | error e =>
      rw [hg] at h
      simp only at h
      injection h with h; subst h
      rcases Proofs.C14.pySyntax_only_from_fragment cfg env cs _ hnorm hg with ⟨w, hw⟩ | ⟨hw, _⟩
      · cases hw
      · cases hw
    | ok p =>
      obtain ⟨ts, lhs⟩ := p
      rw [hg] at h
      simp only at h ⊢
      split at h
      · cases h
      · cases ht : tokensToAst cfg.table ts with
        | error e =>
          rw [ht] at h
          simp only at h
          injection h with h; subst h
          obtain ⟨w, hw⟩ := Proofs.C14.shunt_errors_are_syntax _ _ _ ht
          cases hw
        | ok oa =>
          rw [ht] at h
          simp only at h ⊢
          split at h
          · cases h
          · cases hd : defaultTermsOfAst { available := env.available, usedLhs := lhsVariables env lhs } oa with
            | error e => rw [hd] at h; simpa using h
            | ok v => rw [hd] at h; cases h

/-! ### the base class: the lazy token stream -/

theorem sanitizeTokens_cons (norm : List Char → Except PyErr (List Char)) (t : Tok) (ts : List Tok) :
    sanitizeTokens norm (t :: ts) =
      (match sanitizeOne norm t with
       | .error e => .error e
       | .ok t2 =>
         match sanitizeTokens norm ts with
         | .error e => .error e
         | .ok r => .ok (t2 :: r)) := by
  rw [sanitizeTokens]
  rfl

theorem tokensToAst_finish (tab : OpTable) (ts : List Tok) :
    tokensToAst tab ts = (match shuntRun tab ts {} with | .error e => .error e | .ok s => finishAst s) := by
  unfold tokensToAst finishAst
  cases shuntRun tab ts {} with
  | error e => rfl
  | ok s => rfl

/-- a successful pull-and-shunt run is a run of the list-based shunting-yard on the sanitised tokens -/
theorem baseShunt_ok (tab : OpTable) (norm : List Char → Except PyErr (List Char)) :
    ∀ (ts : List Tok) (s s' : ShState), baseShunt tab norm ts s = .ok s' →
      ∃ ts', sanitizeTokens norm ts = .ok ts' ∧ shuntRun tab ts' s = .ok s' := by
  intro ts
  induction ts with
  | nil => intro s s' h; simp only [baseShunt] at h; exact ⟨[], rfl, h⟩
  | cons t ts ih =>
    intro s s' h
    rw [baseShunt] at h
    cases h1 : sanitizeOne norm t with
    | error e => rw [h1] at h; cases h
    | ok t' =>
      rw [h1] at h
      simp only at h
      cases h2 : shuntStep tab s t' with
      | error e => rw [h2] at h; cases h
      | ok s1 =>
        rw [h2] at h
        simp only at h
        obtain ⟨ts', hs, hr⟩ := ih s1 s' h
        refine ⟨t' :: ts', ?_, ?_⟩
        · rw [sanitizeTokens_cons, h1, hs]
        · rw [shuntRun, h2]; exact hr


theorem sanitizeOne_err (norm : List Char → Except PyErr (List Char)) (t : Tok) (x : PyErr)
    (h : sanitizeOne norm t = .error x) : ∃ u, norm u = .error x := by
  unfold sanitizeOne at h
  dsimp only at h
  generalize (if (t.text == ['.'] && t.kind != some TKind.name) = true then
    ({ t with kind := some TKind.operator } : Tok) else t) = t1 at h
  split at h
  · cases hn : norm t1.text with
    | error y => rw [hn] at h; simp only [Except.map] at h; injection h with h; subst h; exact ⟨_, hn⟩
    | ok r => rw [hn] at h; simp only [Except.map] at h; cases h
  · cases h

/-- its failures are the parsing error, or the SyntaxError of a fragment -/
theorem baseShunt_err (tab : OpTable) (norm : List Char → Except PyErr (List Char))
    (hnorm : ∀ t x, norm t = .error x → x = .syntaxError) :
    ∀ (ts : List Tok) (s : ShState) (e : ParseErr), baseShunt tab norm ts s = .error e →
      (∃ w, e = .syntax w) ∨ e = .pySyntax := by
  intro ts
  induction ts with
  | nil => intro s e h; simp only [baseShunt] at h; cases h
  | cons t ts ih =>
    intro s e h
    rw [baseShunt] at h
    cases h1 : sanitizeOne norm t with
    | error x =>
      rw [h1] at h
      injection h with h
      subst h
      right
      obtain ⟨u, hu⟩ := sanitizeOne_err norm t x h1
      rw [hnorm _ _ hu]; rfl
    | ok t' =>
      rw [h1] at h
      simp only at h
      cases h2 : shuntStep tab s t' with
      | error e' =>
        rw [h2] at h
        injection h with h
        subst h
        left
        exact Proofs.C14.shuntStep_err tab s t' _ h2
      | ok s1 =>
        rw [h2] at h
        exact ih s1 e h

theorem finishAst_err (s : ShState) (e : ParseErr) (h : finishAst s = .error e) : ∃ w, e = .syntax w := by
  unfold finishAst at h
  cases hf : finish s.out s.stack with
  | error e' =>
    rw [hf] at h; injection h with h; subst h
    exact Proofs.C14.finish_err _ _ _ hf
  | ok l =>
    rw [hf] at h
    match l, h with
    | [], h => cases h
    | [a], h => cases h
    | _ :: _ :: _, h => injection h with h; exact ⟨_, h.symm⟩

/-- the tree of the base class is a tree of the list-based shunting-yard; its failures are the parsing
error or a fragment's SyntaxError -/
theorem baseAst_spec (tab : OpTable) (env : PyEnv) (hnorm : ∀ t x, env.norm t = .error x → x = .syntaxError)
    (cs : List CharInfo) :
    (∀ oa, baseAst tab env cs = .ok oa → ∃ ts, tokensToAst tab ts = .ok oa) ∧
    (∀ e, baseAst tab env cs = .error e → (∃ w, e = .syntax w) ∨ e = .pySyntax) := by
  unfold baseAst
  cases hb : baseShunt tab env.norm (tokenizeStream cs).1 {} with
  | error e =>
    refine ⟨fun oa h => (by cases h), fun e' h => ?_⟩
    injection h with h; subst h
    exact baseShunt_err tab env.norm hnorm _ _ _ hb
  | ok s =>
    simp only
    cases (tokenizeStream cs).2 with
    | some le =>
      refine ⟨fun oa h => (by cases h), fun e' h => ?_⟩
      injection h with h; subst h
      left
      cases le <;> exact ⟨_, rfl⟩
    | none =>
      simp only
      obtain ⟨ts', _, hr⟩ := baseShunt_ok tab env.norm _ _ _ hb
      refine ⟨fun oa h => ⟨ts', ?_⟩, fun e' h => Or.inl (finishAst_err s e' h)⟩
      rw [tokensToAst_finish, hr]; exact h

theorem baseTokens_err (env : PyEnv) (hnorm : ∀ t x, env.norm t = .error x → x = .syntaxError)
    (cs : List CharInfo) (e : ParseErr) (h : baseTokens env cs = .error e) : (∃ w, e = .syntax w) ∨ e = .pySyntax := by
  unfold baseTokens at h
  cases hs : sanitizeTokens env.norm (tokenizeStream cs).1 with
  | error x =>
    rw [hs] at h
    injection h with h; subst h
    right
    obtain ⟨t, _, _, hn⟩ := Proofs.C14.sanitize_err env.norm _ x hs
    rw [hnorm _ _ hn]; rfl
  | ok ts =>
    rw [hs] at h
    simp only at h
    cases hl : (tokenizeStream cs).2 with
    | some le =>
      rw [hl] at h
      injection h with h; subst h
      left
      cases le <;> exact ⟨_, rfl⟩
    | none => rw [hl] at h; cases h

/-- **the base class, every target, every flag subset**: the only internal exception is the
`NotImplementedError` of a nested multistage `~`, and only with the MULTISTAGE flag -/
theorem baseParseTo_internal (lv : Levels) (lvl : Nat) (twosided multipart multistage : Bool) (env : PyEnv)
    (hnorm : ∀ t x, env.norm t = .error x → x = .syntaxError) (cs : List CharInfo) (k : String)
    (h : baseParseTo lv lvl (Gen.defaultTable twosided multipart multistage) env cs = .error (.internal k)) :
    k = "NotImplementedError" ∧ multistage = true := by
  unfold baseParseTo at h
  split at h
  · cases h
  · split at h
    · cases ht : baseTokens env cs with
      | error e =>
        rw [ht] at h
        injection h with h; subst h
        rcases baseTokens_err env hnorm cs _ ht with ⟨w, hw⟩ | hw <;> cases hw
      | ok ts => rw [ht] at h; cases h
    · cases ha : baseAst (Gen.defaultTable twosided multipart multistage) env cs with
      | error e =>
        rw [ha] at h
        injection h with h; subst h
        rcases (baseAst_spec _ env hnorm cs).2 _ ha with ⟨w, hw⟩ | hw <;> cases hw
      | ok oa =>
        rw [ha] at h
        simp only at h
        split at h
        · cases h
        · obtain ⟨ts, hts⟩ := (baseAst_spec _ env hnorm cs).1 oa ha
          cases oa with
          | none => simp [baseTermsOfAst] at h
          | some a =>
            simp only [baseTermsOfAst] at h
            cases he : evalAst (baseDot env) a with
            | ok v => rw [he] at h; cases h
            | error e =>
              rw [he] at h
              simp only at h
              injection h with h; subst h
              obtain ⟨h1, _⟩ := shapeM_internal (baseDot env) a (live_shapeM twosided multipart multistage ts a hts) k he
              refine ⟨h1, ?_⟩
              cases multistage with
              | true => rfl
              | false => exact absurd he (eval_no_internal_live twosided multipart (baseDot env) ts a hts k)

end FormulaicVerif.Proofs.C14Api
