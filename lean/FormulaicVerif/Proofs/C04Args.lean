import FormulaicVerif.Model.CallArgs
/-! Python's argument binding as modelled by `CallArgs.bind`: one value per parameter, in signature
order; keywords are honoured; what is not given is the default. -/
namespace FormulaicVerif.Proofs.C04
open FormulaicVerif.Model FormulaicVerif.Model.Replay FormulaicVerif.Model.CallArgs

theorem fillDefaults_names (bound : List (String × PyLit)) (ps : List Param) (b : List (String × PyLit))
    (h : fillDefaults bound ps = .ok b) : b.map (·.1) = ps.map (·.1) := by
  induction ps generalizing b with
  | nil => simp only [fillDefaults, Except.ok.injEq] at h; subst h; rfl
  | cons p ps ih =>
    obtain ⟨n, k, d⟩ := p
    simp only [fillDefaults] at h
    split at h
    · cases h
    · rename_i v _
      cases hr : fillDefaults bound ps with
      | error e => simp [hr] at h
      | ok r =>
        simp only [hr, Except.ok.injEq] at h
        subst h
        simp only [List.map_cons, ih r hr]

/-- a bound value wins over the default; an unbound parameter takes its default -/
theorem fillDefaults_lookup (bound : List (String × PyLit)) (ps : List Param) (b : List (String × PyLit))
    (h : fillDefaults bound ps = .ok b) (n : String) (v : PyLit) (hv : (n, v) ∈ b) :
    bound.lookup n = some v ∨
      (bound.lookup n = none ∧ ∃ p ∈ ps, p.1 = n ∧ ∃ r, p.2.2 = some r ∧ PyLit.ofRepr r = some v) := by
  induction ps generalizing b with
  | nil => simp only [fillDefaults, Except.ok.injEq] at h; subst h; cases hv
  | cons p ps ih =>
    obtain ⟨m, k, d⟩ := p
    simp only [fillDefaults] at h
    split at h
    · cases h
    · rename_i w hw
      cases hr : fillDefaults bound ps with
      | error e => simp [hr] at h
      | ok r =>
        simp only [hr, Except.ok.injEq] at h
        subst h
        rcases List.mem_cons.1 hv with hv | hv
        · cases hv
          -- the head: `w` came from the bound values or from the default
          cases hl : bound.lookup n with
          | some x =>
            simp only [hl, Except.ok.injEq] at hw
            subst hw
            exact .inl rfl
          | none =>
            simp only [hl] at hw
            cases d with
            | none => simp at hw
            | some rp =>
              simp only at hw
              cases ho : PyLit.ofRepr rp with
              | none => simp [ho] at hw
              | some x =>
                simp only [ho, Except.ok.injEq] at hw
                subst hw
                exact .inr ⟨rfl, (n, k, some rp), by simp, rfl, rp, rfl, ho⟩
        · rcases ih r hr hv with h1 | ⟨h1, p, hp, h2⟩
          · exact .inl h1
          · exact .inr ⟨h1, p, by simp [hp], h2⟩

theorem bind_names (ps : List Param) (pos : List PyLit) (kw : List (String × PyLit)) (b : List (String × PyLit))
    (h : CallArgs.bind ps pos kw = .ok b) : b.map (·.1) = ps.map (·.1) := by
  unfold CallArgs.bind at h
  cases h1 : bindPos (ps.filter (fun p => !p.2.1)) pos with
  | error e => simp [h1] at h
  | ok b1 =>
    simp only [h1] at h
    cases h2 : bindKw ps b1 kw with
    | error e => simp [h2] at h
    | ok b2 =>
      simp only [h2] at h
      exact fillDefaults_names b2 ps b h

/-- without explicit arguments every parameter takes its default -/
theorem bind_defaults (ps : List Param) (b : List (String × PyLit)) (h : CallArgs.bind ps [] [] = .ok b)
    (n : String) (v : PyLit) (hv : (n, v) ∈ b) :
    ∃ p ∈ ps, p.1 = n ∧ ∃ r, p.2.2 = some r ∧ PyLit.ofRepr r = some v := by
  have h' : fillDefaults [] ps = .ok b := by
    unfold CallArgs.bind at h
    cases hp : ps.filter (fun p => !p.2.1) with
    | nil => simpa [hp, bindPos, bindKw] using h
    | cons a r => simpa [hp, bindPos, bindKw] using h
  rcases fillDefaults_lookup [] ps b h' n v hv with h1 | ⟨_, h2⟩
  · simp [List.lookup] at h1
  · exact h2

theorem lookup_append_of_some {β : Type} (l x : List (String × β)) (k : String) (v : β)
    (h : l.lookup k = some v) : (l ++ x).lookup k = some v := by
  induction l with
  | nil => simp [List.lookup] at h
  | cons a r ih =>
    obtain ⟨ak, av⟩ := a
    by_cases hk : (k == ak) = true
    · simp only [List.cons_append, List.lookup, hk] at h ⊢; exact h
    · simp only [Bool.not_eq_true] at hk
      simp only [List.cons_append, List.lookup, hk] at h ⊢
      exact ih h

theorem lookup_append_of_none {β : Type} (l x : List (String × β)) (k : String)
    (h : l.lookup k = none) : (l ++ x).lookup k = x.lookup k := by
  induction l with
  | nil => rfl
  | cons a r ih =>
    obtain ⟨ak, av⟩ := a
    by_cases hk : (k == ak) = true
    · simp [List.lookup, hk] at h
    · simp only [Bool.not_eq_true] at hk
      simp only [List.cons_append, List.lookup, hk] at h ⊢
      exact ih h

theorem lookup_none_of_any_false {β : Type} (l : List (String × β)) (k : String)
    (h : l.any (fun b => b.1 == k) = false) : l.lookup k = none := by
  induction l with
  | nil => rfl
  | cons a r ih =>
    obtain ⟨ak, av⟩ := a
    simp only [List.any_cons, Bool.or_eq_false_iff] at h
    have hne : (k == ak) = false := by
      have := h.1
      simp only [beq_eq_false_iff_ne, ne_eq] at this ⊢
      exact fun e => this e.symm
    simp only [List.lookup, hne]
    exact ih h.2

theorem bindKw_lookup (ps : List Param) (bound : List (String × PyLit)) (kw : List (String × PyLit))
    (b : List (String × PyLit)) (h : bindKw ps bound kw = .ok b) :
    (∀ k v, bound.lookup k = some v → b.lookup k = some v) ∧
    (∀ k v, kw = [(k, v)] → b.lookup k = some v) := by
  induction kw generalizing bound b with
  | nil =>
    simp only [bindKw, Except.ok.injEq] at h
    subst h
    exact ⟨fun _ _ h => h, fun _ _ h => by cases h⟩
  | cons a rest ih =>
    obtain ⟨k0, v0⟩ := a
    simp only [bindKw] at h
    split at h
    · cases h
    · split at h
      · cases h
      · rename_i hnot
        simp only [Bool.not_eq_true] at hnot
        obtain ⟨i1, _⟩ := ih (bound ++ [(k0, v0)]) b h
        have hk0 : bound.lookup k0 = none := lookup_none_of_any_false bound k0 hnot
        have hnew : (bound ++ [(k0, v0)]).lookup k0 = some v0 := by
          rw [lookup_append_of_none _ _ _ hk0]
          simp [List.lookup]
        refine ⟨fun k v hv => i1 k v (lookup_append_of_some _ _ k v hv), ?_⟩
        intro k v hkv
        simp only [List.cons.injEq, Prod.mk.injEq] at hkv
        obtain ⟨⟨rfl, rfl⟩, _⟩ := hkv
        exact i1 _ _ hnew

/-- a keyword argument is the value of its parameter -/
theorem bind_keyword (ps : List Param) (k : String) (v : PyLit) (b : List (String × PyLit))
    (h : CallArgs.bind ps [] [(k, v)] = .ok b) : (k, v) ∈ b := by
  unfold CallArgs.bind at h
  have h1 : bindPos (ps.filter (fun p => !p.2.1)) [] = .ok [] := by
    cases ps.filter (fun p => !p.2.1) <;> rfl
  simp only [h1] at h
  cases h2 : bindKw ps [] [(k, v)] with
  | error e => simp [h2] at h
  | ok b2 =>
    simp only [h2] at h
    have hl : b2.lookup k = some v := (bindKw_lookup ps [] [(k, v)] b2 h2).2 k v rfl
    -- `k` is a parameter, so it occurs in `b`, and its value there can only be the bound one
    have hk : k ∈ ps.map (·.1) := by
      simp only [bindKw] at h2
      split at h2
      · cases h2
      · rename_i hin
        have hany : ps.any (fun p => p.1 == k) = true := by
          cases hb : ps.any (fun p => p.1 == k) with
          | true => rfl
          | false => simp [hb] at hin
        obtain ⟨p, hp, hpk⟩ := List.any_eq_true.1 hany
        exact List.mem_map.2 ⟨p, hp, by simpa using hpk⟩
    rw [← fillDefaults_names b2 ps b h] at hk
    obtain ⟨q, hq, hqk⟩ := List.mem_map.1 hk
    obtain ⟨qk, qv⟩ := q
    simp only at hqk
    subst hqk
    rcases fillDefaults_lookup b2 ps b h qk qv hq with h3 | ⟨h3, _⟩
    · rw [hl] at h3
      cases h3
      exact hq
    · rw [hl] at h3
      cases h3

end FormulaicVerif.Proofs.C04
