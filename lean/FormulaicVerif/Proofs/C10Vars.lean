import FormulaicVerif.Proofs.C10Dict
import FormulaicVerif.Proofs.C10Cols
/-! Helper lemmas for C10: `term_variables`, `variable_terms`, `variable_indices`, `subset`. -/
namespace FormulaicVerif.Proofs.C10
open FormulaicVerif.Model.SpecMeta

/-! ### generic -/

theorem mapM_ok_of_forall {α β ε} (f : α → Except ε β) (g : α → β) (l : List α)
    (h : ∀ x ∈ l, f x = .ok (g x)) : l.mapM f = .ok (l.map g) := by
  induction l with
  | nil => rfl
  | cons a l ih =>
    rw [List.mapM_cons, h a (by simp), ih (fun x hx => h x (List.mem_cons_of_mem _ hx))]
    rfl

theorem SDict.lookup_map {α β} (d : SDict α) (f : α → β) (k : Str) :
    SDict.lookup (d.map (fun e => (e.1, f e.2))) k = (SDict.lookup d k).map f := by
  induction d with
  | nil => rfl
  | cons e d ih =>
    obtain ⟨a, w⟩ := e
    simp only [List.map_cons, SDict.lookup_cons, ih]
    split <;> rfl

theorem foldl_addNat_of_nodup (xs acc : List Nat) (h : (acc ++ xs).Nodup) :
    xs.foldl addNat acc = acc ++ xs := by
  induction xs generalizing acc with
  | nil => simp
  | cons x xs ih =>
    have hx : x ∉ acc := by
      intro hmem
      exact (List.nodup_append.mp h).2.2 x hmem x (by simp) rfl
    have : acc.contains x = false := by simpa using hx
    simp only [List.foldl_cons, addNat, this, Bool.false_eq_true, if_false]
    rw [ih]
    · simp
    · simpa using h

theorem sortNats_of_increasing (xs : List Nat) (h : xs.Pairwise (· < ·)) : sortNats xs = xs := by
  induction xs with
  | nil => rfl
  | cons x xs ih =>
    have hp := List.pairwise_cons.mp h
    have : sortNats (x :: xs) = insertNat x (sortNats xs) := rfl
    rw [this, ih hp.2]
    cases xs with
    | nil => rfl
    | cons y ys => simp [insertNat, hp.1 y (by simp)]

/-! ### `term_variables` -/

theorem insertRows_foldl {α} (g : Row → α) (rs : Structure) (d : TDict α)
    (hd : ∀ e ∈ d, ∀ r ∈ rs, sortStrs e.1 ≠ sortStrs r.term) (h : DistinctTerms rs) :
    rs.foldl (fun d r => d.insert r.term (g r)) d = d ++ rs.map (fun r => (r.term, g r)) := by
  induction rs generalizing d with
  | nil => simp
  | cons r rs ih =>
    have hp := List.pairwise_cons.mp h
    simp only [List.foldl_cons]
    rw [TDict.insert_fresh d r.term _ (fun e he => hd e he r (by simp)), ih]
    · simp
    · intro e he s hs
      rcases List.mem_append.mp he with he | he
      · exact hd e he s (List.mem_cons_of_mem _ hs)
      · simp only [List.mem_singleton] at he
        subst he
        exact hp.1 s hs
    · exact hp.2

theorem termVariablesFull_eq (st : Structure) (h : DistinctTerms st) :
    termVariablesFull st = st.map (fun r => (r.term, rowVarsFull r)) := by
  unfold termVariablesFull
  rw [insertRows_foldl rowVarsFull st [] (by simp) h]
  simp

theorem termVariables_eq (st : Structure) (h : DistinctTerms st) :
    termVariables st = st.map (fun r => (r.term, rowVars r)) := by
  unfold termVariables
  rw [termVariablesFull_eq st h, List.map_map]
  rfl

/-! ### `variable_terms` -/

theorem addTerm_fresh (s : List Term) (t : Term) (h : ∀ u ∈ s, sortStrs u ≠ sortStrs t) :
    addTerm s t = s ++ [t] := by
  unfold addTerm
  have : s.any (fun u => keyMatches u (.term t)) = false := by
    rw [List.any_eq_false]
    intro u hu
    simp [keyMatches_term, h u hu]
  simp [this]

theorem addTerm_idem (s : List Term) (t : Term) : addTerm (addTerm s t) t = addTerm s t := by
  unfold addTerm
  by_cases h : s.any (fun u => keyMatches u (.term t)) = true
  · simp [h]
  · simp only [h, Bool.false_eq_true, if_false]
    have : (s ++ [t]).any (fun u => keyMatches u (.term t)) = true := by
      simp [keyMatches_term]
    simp [this]

theorem addVarTerm_lookup (d : SDict (List Term)) (v v' : Str) (t : Term) :
    SDict.lookup (addVarTerm d v t) v' =
      if v = v' then some (addTerm ((SDict.lookup d v').getD []) t) else SDict.lookup d v' := by
  induction d with
  | nil =>
    by_cases h : v = v'
    · subst h; simp [addVarTerm, SDict.lookup, addTerm]
    · simp [addVarTerm, SDict.lookup, h]
  | cons e d ih =>
    obtain ⟨a, w⟩ := e
    by_cases ha : a = v
    · subst ha
      simp only [addVarTerm, beq_self_eq_true, if_true, SDict.lookup_cons]
      by_cases h : a = v' <;> simp [h]
    · simp only [addVarTerm, beq_iff_eq, ha, if_false, SDict.lookup_cons, ih]
      by_cases h' : a = v'
      · subst h'
        have : v ≠ a := fun e => ha e.symm
        simp [this]
      · simp [h']

theorem inner_lookup (vars : List Str) (t : Term) (d : SDict (List Term)) (v' : Str) :
    SDict.lookup (vars.foldl (fun d v => addVarTerm d v t) d) v' =
      if v' ∈ vars then some (addTerm ((SDict.lookup d v').getD []) t) else SDict.lookup d v' := by
  induction vars generalizing d with
  | nil => simp
  | cons v vs ih =>
    simp only [List.foldl_cons, ih, addVarTerm_lookup]
    by_cases hv : v = v'
    · subst hv
      by_cases hm : v ∈ vs <;> simp [hm, addTerm_idem]
    · have hv' : v' ≠ v := fun e => hv e.symm
      by_cases hm : v' ∈ vs <;> simp [hm, hv, hv']

/-- the terms (in row order) of the rows whose variables include `v` -/
def usesTerms (v : Str) (rs : Structure) : List Term :=
  (rs.filter (fun r => (rowVars r).contains v)).map (·.term)

def vtStep (d : SDict (List Term)) (e : Term × List Str) : SDict (List Term) :=
  e.2.foldl (fun d v => addVarTerm d v e.1) d

theorem outer_lookup (rs : Structure) (d : SDict (List Term)) (v' : Str) (h : DistinctTerms rs)
    (hd : ∀ t ∈ (SDict.lookup d v').getD [], ∀ r ∈ rs, sortStrs t ≠ sortStrs r.term) :
    SDict.lookup ((rs.map (fun r => (r.term, rowVars r))).foldl vtStep d) v' =
      if usesTerms v' rs = [] then SDict.lookup d v'
      else some ((SDict.lookup d v').getD [] ++ usesTerms v' rs) := by
  induction rs generalizing d with
  | nil => simp [usesTerms]
  | cons r rs ih =>
    have hp := List.pairwise_cons.mp h
    simp only [List.map_cons, List.foldl_cons]
    have hstep : SDict.lookup (vtStep d (r.term, rowVars r)) v' =
        if v' ∈ rowVars r then some ((SDict.lookup d v').getD [] ++ [r.term]) else SDict.lookup d v' := by
      unfold vtStep
      rw [inner_lookup]
      by_cases hm : v' ∈ rowVars r
      · simp only [hm, if_true]
        rw [addTerm_fresh _ _ (fun u hu => hd u hu r (by simp))]
      · simp [hm]
    by_cases hm : v' ∈ rowVars r
    · have hc : (rowVars r).contains v' = true := by simpa using hm
      have hu : usesTerms v' (r :: rs) = r.term :: usesTerms v' rs := by
        simp [usesTerms, hm]
      rw [ih _ hp.2]
      · rw [hstep, hu]
        simp only [hm, if_true, Option.getD_some]
        by_cases he : usesTerms v' rs = [] <;> simp [he]
      · rw [hstep]
        simp only [hm, if_true, Option.getD_some]
        intro t ht s hs
        rcases List.mem_append.mp ht with ht | ht
        · exact hd t ht s (List.mem_cons_of_mem _ hs)
        · simp only [List.mem_singleton] at ht
          subst ht
          exact hp.1 s hs
    · have hc : (rowVars r).contains v' = false := by simpa using hm
      have hu : usesTerms v' (r :: rs) = usesTerms v' rs := by
        simp [usesTerms, hm]
      rw [ih _ hp.2]
      · rw [hstep, hu]; simp [hm]
      · rw [hstep]; simp only [hm, if_false]
        exact fun t ht s hs => hd t ht s (List.mem_cons_of_mem _ hs)

theorem variableTerms_lookup (st : Structure) (h : DistinctTerms st) (v : Str) :
    SDict.lookup (variableTerms st) v = if usesTerms v st = [] then none else some (usesTerms v st) := by
  have : variableTerms st = (st.map (fun r => (r.term, rowVars r))).foldl vtStep [] := by
    unfold variableTerms; rw [termVariables_eq st h]; rfl
  rw [this, outer_lookup st [] v h (by simp [SDict.lookup])]
  simp [SDict.lookup]

/-- every term stored in `variable_terms` is the term of a row -/
theorem addVarTerm_mem (d : SDict (List Term)) (v : Str) (t : Term) (P : Term → Prop) (ht : P t)
    (hd : ∀ e ∈ d, ∀ u ∈ e.2, P u) : ∀ e ∈ addVarTerm d v t, ∀ u ∈ e.2, P u := by
  induction d with
  | nil =>
    intro e he u hu
    simp only [addVarTerm, List.mem_singleton] at he
    subst he
    simp only [List.mem_singleton] at hu
    exact hu ▸ ht
  | cons e0 d ih =>
    obtain ⟨a, w⟩ := e0
    intro e he u hu
    by_cases ha : a = v
    · simp only [addVarTerm, ha, beq_self_eq_true, if_true, List.mem_cons] at he
      rcases he with rfl | he
      · simp only at hu
        unfold addTerm at hu
        split at hu
        · exact hd (a, w) (by simp) u hu
        · rcases List.mem_append.mp hu with hu | hu
          · exact hd (a, w) (by simp) u hu
          · simp only [List.mem_singleton] at hu; exact hu ▸ ht
      · exact hd e (List.mem_cons_of_mem _ he) u hu
    · simp only [addVarTerm, beq_iff_eq, ha, if_false, List.mem_cons] at he
      rcases he with rfl | he
      · exact hd (a, w) (by simp) u hu
      · exact ih (fun e he => hd e (List.mem_cons_of_mem _ he)) e he u hu

theorem variableTerms_mem (st : Structure) (h : DistinctTerms st) :
    ∀ e ∈ variableTerms st, ∀ u ∈ e.2, ∃ r ∈ st, u = r.term := by
  have hvt : variableTerms st = (st.map (fun r => (r.term, rowVars r))).foldl vtStep [] := by
    unfold variableTerms; rw [termVariables_eq st h]; rfl
  rw [hvt]
  have gen : ∀ (rs : Structure) (d : SDict (List Term)), (∀ r ∈ rs, r ∈ st) →
      (∀ e ∈ d, ∀ u ∈ e.2, ∃ r ∈ st, u = r.term) →
      ∀ e ∈ (rs.map (fun r => (r.term, rowVars r))).foldl vtStep d, ∀ u ∈ e.2, ∃ r ∈ st, u = r.term := by
    intro rs
    induction rs with
    | nil => intro d _ hd; simpa using hd
    | cons r rs ih =>
      intro d hsub hd
      simp only [List.map_cons, List.foldl_cons]
      apply ih _ (fun s hs => hsub s (List.mem_cons_of_mem _ hs))
      unfold vtStep
      have inner : ∀ (vars : List Str) (d : SDict (List Term)),
          (∀ e ∈ d, ∀ u ∈ e.2, ∃ r ∈ st, u = r.term) →
          ∀ e ∈ vars.foldl (fun d v => addVarTerm d v r.term) d, ∀ u ∈ e.2, ∃ r ∈ st, u = r.term := by
        intro vars
        induction vars with
        | nil => intro d hd; simpa using hd
        | cons v vs ihv =>
          intro d hd
          simp only [List.foldl_cons]
          exact ihv _ (addVarTerm_mem d v r.term _ ⟨r, hsub r (by simp), rfl⟩ hd)
      exact inner _ d hd
  exact gen st [] (fun r hr => hr) (by simp)

/-! ### `variable_indices` -/

theorem filter_blocks_terms (p : Row → Bool) (k : Nat) (st : Structure) :
    ((blocks k st).filter (fun b => p b.1)).map (·.1.term) = (st.filter p).map (·.term) := by
  induction st generalizing k with
  | nil => rfl
  | cons r rs ih =>
    simp only [blocks, List.filter_cons]
    by_cases hp : p r = true <;> simp [hp, ih]

/-- the concatenated blocks of the rows selected by `p` are strictly increasing and start at `k` -/
theorem filter_blocks_increasing (p : Row × Nat → Bool) (k : Nat) (st : Structure) :
    (((blocks k st).filter p).flatMap (fun b => List.range' b.2 b.1.columns.length)).Pairwise (· < ·) ∧
    ∀ x ∈ ((blocks k st).filter p).flatMap (fun b => List.range' b.2 b.1.columns.length), k ≤ x := by
  induction st generalizing k with
  | nil => simp [blocks]
  | cons r rs ih =>
    obtain ⟨ih1, ih2⟩ := ih (k + r.columns.length)
    simp only [blocks, List.filter_cons]
    by_cases hp : p (r, k) = true
    · simp only [hp, if_true, List.flatMap_cons]
      constructor
      · rw [List.pairwise_append]
        refine ⟨List.pairwise_lt_range' 1, ih1, ?_⟩
        intro a ha b hb
        have := ih2 b hb
        have ha' := List.mem_range'_1.mp ha
        omega
      · intro x hx
        rcases List.mem_append.mp hx with hx | hx
        · exact (List.mem_range'_1.mp hx).1
        · have := ih2 x hx; omega
    · simp only [hp, Bool.false_eq_true, if_false]
      exact ⟨ih1, fun x hx => by have := ih2 x hx; omega⟩

/-- the block of the row holding term `t` (empty when there is none) -/
def rngD (st : Structure) (t : Term) : List Nat := ((termIndices st).lookup (.term t)).getD []

/-- what `variable_indices` computes from a term set -/
def viOf (st : Structure) (ts : List Term) : List Nat :=
  sortNats (((ts.map (rngD st)).flatten).foldl addNat [])

theorem get_row_term (st : Structure) (h : DistinctTerms st) {b : Row × Nat} (hb : b ∈ blocks 0 st) :
    (termIndices st).get (.term b.1.term) = .ok (List.range' b.2 b.1.columns.length) ∧
    rngD st b.1.term = List.range' b.2 b.1.columns.length := by
  have hi : termIndices st = rowDict (fun b => List.range' b.2 b.1.columns.length) 0 st :=
    termIndices_eq st h
  have hl := rowDict_lookup_term (fun b => List.range' b.2 b.1.columns.length) h hb b.1.term rfl
  constructor
  · rw [hi]; unfold TDict.get; rw [hl]
  · unfold rngD; rw [hi, hl]; rfl

theorem mem_blocks_of_row {st : Structure} {r : Row} (k : Nat) (hr : r ∈ st) : ∃ b ∈ blocks k st, b.1 = r := by
  have : r ∈ (blocks k st).map (·.1) := by rw [blocks_map_fst]; exact hr
  obtain ⟨b, hb, e⟩ := List.mem_map.mp this
  exact ⟨b, hb, e⟩

theorem variableIndices_eq (st : Structure) (h : DistinctTerms st) :
    variableIndices st = .ok ((variableTerms st).map (fun e => (e.1, viOf st e.2))) := by
  unfold variableIndices
  apply mapM_ok_of_forall
  intro e he
  have hin : e.2.mapM (fun t => (termIndices st).get (.term t)) = .ok (e.2.map (rngD st)) := by
    apply mapM_ok_of_forall
    intro t ht
    obtain ⟨r, hr, rfl⟩ := variableTerms_mem st h e he t ht
    obtain ⟨b, hb, rfl⟩ := mem_blocks_of_row 0 hr
    obtain ⟨g1, g2⟩ := get_row_term st h hb
    rw [g1, g2]
  simp only [hin]
  rfl

theorem viOf_usesTerms (st : Structure) (h : DistinctTerms st) (v : Str) :
    viOf st (usesTerms v st) =
      ((blocks 0 st).filter (fun b => (rowVars b.1).contains v)).flatMap
        (fun b => List.range' b.2 b.1.columns.length) := by
  have hmap : (usesTerms v st).map (rngD st) =
      ((blocks 0 st).filter (fun b => (rowVars b.1).contains v)).map
        (fun b => List.range' b.2 b.1.columns.length) := by
    unfold usesTerms
    rw [← filter_blocks_terms (fun r => (rowVars r).contains v) 0 st, List.map_map]
    apply List.map_congr_left
    intro b hb
    exact (get_row_term st h (List.mem_filter.mp hb).1).2
  have hinc := (filter_blocks_increasing (fun b => (rowVars b.1).contains v) 0 st).1
  unfold viOf
  rw [hmap, ← List.flatMap_def]
  have hnd : (((blocks 0 st).filter (fun b => (rowVars b.1).contains v)).flatMap
      (fun b => List.range' b.2 b.1.columns.length)).Nodup :=
    hinc.imp (fun hlt => Nat.ne_of_lt hlt)
  rw [foldl_addNat_of_nodup _ [] (by simpa using hnd)]
  simp only [List.nil_append]
  exact sortNats_of_increasing _ hinc

end FormulaicVerif.Proofs.C10
