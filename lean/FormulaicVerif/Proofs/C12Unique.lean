import FormulaicVerif.Proofs.C12Contract
import Mathlib.Data.Finset.Max
import Mathlib.Order.Interval.Finset.Nat
/-! Helper lemmas for C12 (not obligations): UNIQUENESS of the natural / periodic interpolating
cubic spline.

* `dominant_center_zero`, `tri_homogeneous_zero`, `cyc_homogeneous_zero`: the tridiagonal matrices
  of `_get_natural_f` / `_get_cyclic_f` are strictly diagonally dominant (`(hl + hr)/3 > hl/6 + hr/6`
  for positive spacings), so the homogeneous system has only the zero solution (maximum principle:
  look at an entry of largest absolute value).
* `tri_unique`, `cyc_unique`: two solutions of the tridiagonal equations for the same values agree.
* `cubic_repr`, `cubic_as_piece`: every polynomial of degree ≤ 3 is the `Piece` with its own end
  values and end second derivatives (so the "values and second derivatives" parametrisation loses
  no cubic), and its `Polynomial.derivative` is `Piece.d1`. -/

namespace FormulaicVerif.Proofs.C12
open FormulaicVerif.Model.CubicSpline FormulaicVerif.Model.BSpline FormulaicVerif.Spec.CubicSpline

/-- one row of a strictly diagonally dominant tridiagonal system: if the middle unknown has the
largest absolute value and the row's right-hand side is zero, the middle unknown is zero -/
theorem dominant_center_zero (hj hj1 a b c : ℚ) (p1 : 0 < hj) (p2 : 0 < hj1) (ha : |a| ≤ |b|)
    (hc : |c| ≤ |b|) (heq : hj / 6 * a + (hj + hj1) / 3 * b + hj1 / 6 * c = 0) : b = 0 := by
  by_contra hb
  rcases lt_or_gt_of_ne hb with hneg | hpos
  · have hab : |b| = -b := abs_of_neg hneg
    rw [hab] at ha hc
    have a1 := (abs_le.1 ha).2
    have c1 := (abs_le.1 hc).2
    have t1 : 0 ≤ hj / 6 * (-b - a) := mul_nonneg (by positivity) (by linarith)
    have t2 : 0 ≤ hj1 / 6 * (-b - c) := mul_nonneg (by positivity) (by linarith)
    have t3 : 0 < (hj + hj1) / 6 * (-b) := mul_pos (by positivity) (by linarith)
    nlinarith
  · have hab : |b| = b := abs_of_pos hpos
    rw [hab] at ha hc
    have a1 := (abs_le.1 ha).1
    have c1 := (abs_le.1 hc).1
    have t1 : 0 ≤ hj / 6 * (a + b) := mul_nonneg (by positivity) (by linarith)
    have t2 : 0 ≤ hj1 / 6 * (c + b) := mul_nonneg (by positivity) (by linarith)
    have t3 : 0 < (hj + hj1) / 6 * b := mul_pos (by positivity) (by linarith)
    nlinarith

/-- the homogeneous natural system (`B·e = 0` on the interior, `e_0 = e_{n-1} = 0`) has only the
zero solution, for any positive spacings -/
theorem tri_homogeneous_zero (n : ℕ) (h e : ℕ → ℚ) (hpos : ∀ i, i + 1 < n → 0 < h i)
    (h0 : e 0 = 0) (hl : e (n - 1) = 0)
    (heq : ∀ i, i + 2 < n →
      h i / 6 * e i + (h i + h (i + 1)) / 3 * e (i + 1) + h (i + 1) / 6 * e (i + 2) = 0) :
    ∀ i, i < n → e i = 0 := by
  intro i hi
  have hne : (Finset.range n).Nonempty := ⟨i, Finset.mem_range.2 hi⟩
  obtain ⟨k, hk, hmax⟩ := Finset.exists_max_image (Finset.range n) (fun j => |e j|) hne
  have hk' := Finset.mem_range.1 hk
  have hzero : e k = 0 := by
    rcases Nat.eq_zero_or_pos k with rfl | hkpos
    · exact h0
    · by_cases hlast : k = n - 1
      · rw [hlast]; exact hl
      · obtain ⟨j, rfl⟩ : ∃ j, k = j + 1 := ⟨k - 1, by omega⟩
        have hj : j + 2 < n := by omega
        exact dominant_center_zero (h j) (h (j + 1)) (e j) (e (j + 1)) (e (j + 2))
          (hpos j (by omega)) (hpos (j + 1) (by omega))
          (by simpa using hmax j (Finset.mem_range.2 (by omega)))
          (by simpa using hmax (j + 2) (Finset.mem_range.2 (by omega))) (heq j hj)
  have := hmax i (Finset.mem_range.2 hi)
  simp only [hzero, abs_zero] at this
  exact abs_eq_zero.1 (le_antisymm this (abs_nonneg _))

/-- the homogeneous periodic system has only the zero solution -/
theorem cyc_homogeneous_zero (m : ℕ) (h e : ℕ → ℚ) (hpos : ∀ i, i < m → 0 < h i)
    (heq : ∀ r, r < m →
      h (cpred m r) / 6 * e (cpred m r) + (h (cpred m r) + h r) / 3 * e r
        + h r / 6 * e (csucc m r) = 0) :
    ∀ i, i < m → e i = 0 := by
  intro i hi
  have hne : (Finset.range m).Nonempty := ⟨i, Finset.mem_range.2 hi⟩
  obtain ⟨k, hk, hmax⟩ := Finset.exists_max_image (Finset.range m) (fun j => |e j|) hne
  have hk' := Finset.mem_range.1 hk
  have hzero : e k = 0 :=
    dominant_center_zero (h (cpred m k)) (h k) (e (cpred m k)) (e k) (e (csucc m k))
      (hpos _ (cpred_lt m k hk')) (hpos k hk')
      (by simpa using hmax _ (Finset.mem_range.2 (cpred_lt m k hk')))
      (by simpa using hmax _ (Finset.mem_range.2 (csucc_lt m k hk'))) (heq k hk')
  have := hmax i (Finset.mem_range.2 hi)
  simp only [hzero, abs_zero] at this
  exact abs_eq_zero.1 (le_antisymm this (abs_nonneg _))

/-- two solutions of the natural tridiagonal equations for the same values coincide -/
theorem tri_unique (n : ℕ) (h y m m' : ℕ → ℚ) (hpos : ∀ i, i + 1 < n → 0 < h i)
    (a0 : m 0 = 0) (b0 : m' 0 = 0) (a1 : m (n - 1) = 0) (b1 : m' (n - 1) = 0)
    (ht : ∀ i, i + 2 < n →
      TriEq (h i) (h (i + 1)) (y i) (y (i + 1)) (y (i + 2)) (m i) (m (i + 1)) (m (i + 2)))
    (ht' : ∀ i, i + 2 < n →
      TriEq (h i) (h (i + 1)) (y i) (y (i + 1)) (y (i + 2)) (m' i) (m' (i + 1)) (m' (i + 2))) :
    ∀ i, i < n → m i = m' i := by
  intro i hi
  have := tri_homogeneous_zero n h (fun k => m k - m' k) hpos (by simp [a0, b0]) (by simp [a1, b1])
    (by
      intro k hk
      have e1 := ht k hk
      have e2 := ht' k hk
      unfold TriEq at e1 e2
      linear_combination e1 - e2) i hi
  linarith

/-- two solutions of the periodic tridiagonal equations for the same values coincide -/
theorem cyc_unique (k : ℕ) (h y m m' : ℕ → ℚ) (hpos : ∀ i, i < k → 0 < h i)
    (ht : ∀ r, r < k → TriEq (h (cpred k r)) (h r) (y (cpred k r)) (y r) (y (csucc k r))
      (m (cpred k r)) (m r) (m (csucc k r)))
    (ht' : ∀ r, r < k → TriEq (h (cpred k r)) (h r) (y (cpred k r)) (y r) (y (csucc k r))
      (m' (cpred k r)) (m' r) (m' (csucc k r))) :
    ∀ i, i < k → m i = m' i := by
  intro i hi
  have := cyc_homogeneous_zero k h (fun j => m j - m' j) hpos
    (by
      intro r hr
      have e1 := ht r hr
      have e2 := ht' r hr
      unfold TriEq at e1 e2
      linear_combination e1 - e2) i hi
  linarith

/-- index arithmetic on the circle -/
theorem cpred_csucc (m j : ℕ) (_hj : j < m) : cpred m (csucc m j) = j := by
  unfold cpred csucc
  by_cases h : j + 1 = m
  · simp [h]; omega
  · simp [h]

/-- positive spacings of strictly increasing knots -/
theorem hsp_pos (knots : List Rat) (hs : knots.Pairwise (· < ·)) (i : ℕ) (hi : i + 1 < knots.length) :
    0 < hsp knots i := by
  unfold hsp
  rw [knotFn_eq knots (i + 1) hi, knotFn_eq knots i (by omega)]
  have := List.pairwise_iff_getElem.1 hs i (i + 1) (by omega) hi (by omega)
  linarith

open Polynomial in
/-- the coefficients of a polynomial of degree ≤ 3 and of its first two derivatives -/
theorem cubic_repr {α : Type} [Field α] (P : Polynomial α) (hdeg : P.natDegree ≤ 3) :
    ∃ a b c d : α, (∀ x, P.eval x = a + b * x + c * x ^ 2 + d * x ^ 3) ∧
      (∀ x, (derivative P).eval x = b + 2 * c * x + 3 * d * x ^ 2) ∧
      (∀ x, (derivative (derivative P)).eval x = 2 * c + 6 * d * x) := by
  refine ⟨P.coeff 0, P.coeff 1, P.coeff 2, P.coeff 3, ?_, ?_, ?_⟩
  all_goals
    intro x
    conv_lhs => rw [Polynomial.as_sum_range_C_mul_X_pow' (p := P) (n := 4) (by omega)]
    simp [Finset.sum_range_succ, derivative_mul, derivative_pow]
    try ring

open Polynomial in
/-- **every cubic is a `Piece`**: a polynomial of degree ≤ 3 equals, on the whole line, the piece
built from its own values and second derivatives at two distinct points, and its derivative is
the piece's `d1` -/
theorem cubic_as_piece {α : Type} [Field α] [CharZero α] (P : Polynomial α) (hdeg : P.natDegree ≤ 3)
    (kl kr : α) (hne : kr - kl ≠ 0) :
    let p : Piece α := { kl := kl, kr := kr, yl := P.eval kl, yr := P.eval kr,
                         ml := (derivative (derivative P)).eval kl,
                         mr := (derivative (derivative P)).eval kr }
    (∀ x, P.eval x = p.val x) ∧ (∀ x, (derivative P).eval x = p.d1 x) := by
  obtain ⟨a, b, c, d, h0, h1, h2⟩ := cubic_repr P hdeg
  intro p
  have e6 : (6 : α) ≠ 0 := by norm_num
  constructor
  · intro x
    simp only [p, Piece.val, Piece.h, h0, h2]
    field_simp
    ring
  · intro x
    simp only [p, Piece.d1, Piece.h, h0, h1, h2]
    field_simp
    ring

/-- two matrices of the same shape with the same entries are equal -/
theorem matrix_ext (F F' : List (List Rat)) (r c : ℕ) (hF : F.length = r) (hF' : F'.length = r)
    (hFr : ∀ row ∈ F, row.length = c) (hFr' : ∀ row ∈ F', row.length = c)
    (h : ∀ i j, i < r → j < c → Ffn F i j = Ffn F' i j) : F = F' := by
  apply List.ext_getElem (by rw [hF, hF'])
  intro i h1 h2
  have l1 := hFr _ (List.getElem_mem h1)
  have l2 := hFr' _ (List.getElem_mem h2)
  apply List.ext_getElem (by rw [l1, l2])
  intro j g1 g2
  have := h i j (by omega) (by omega)
  unfold Ffn at this
  simp only [List.getD_eq_getElem?_getD, List.getElem?_eq_getElem h1, List.getElem?_eq_getElem h2,
    Option.getD_some, List.getElem?_eq_getElem g1, List.getElem?_eq_getElem g2] at this
  exact this

end FormulaicVerif.Proofs.C12
