import FormulaicVerif.Proofs.C04Eval
namespace FormulaicVerif.Proofs.C04
open FormulaicVerif.Model FormulaicVerif.Model.Replay FormulaicVerif.Spec.Replay

/-! ## row selection on encoded factors and caches -/

def selVal (is : List Nat) : EncVal → EncVal
  | .single c => .single (select is c)
  | .dict cols => .dict (selCols is cols)

def selEncoded (is : List Nat) (e : Encoded) : Encoded := { e with val := selVal is e.val }

def selFactor (is : List Nat) (f : EvaledFactor) : EvaledFactor :=
  { f with encFull := selEncoded is f.encFull, encReduced := selEncoded is f.encReduced }

def selCache (is : List Nat) (c : Cache) : Cache := c.map (selFactor is)

def valLen (n : Nat) : EncVal → Prop
  | .single c => c.length = n
  | .dict cols => ∀ p ∈ cols, p.2.length = n

def factorLen (n : Nat) (f : EvaledFactor) : Prop := valLen n f.encFull.val ∧ valLen n f.encReduced.val

def cacheLen (n : Nat) (c : Cache) : Prop := ∀ f ∈ c, factorLen n f

theorem numEncoded_select (is : List Nat) (v : Value) : numEncoded (v.select is) = selEncoded is (numEncoded v) := by
  cases v <;> rfl

theorem numSpans_select (is : List Nat) (v : Value) : numSpans (v.select is) = numSpans v := by
  cases v <;> rfl

theorem numEncoded_len {n : Nat} {v : Value} (h : v.Len n) : valLen n (numEncoded v).val := by
  cases v <;> exact h

theorem catEncoded_select {e : Contrasts.Encoded} {enc : Encoded} (h : catEncoded e = .ok enc) (is : List Nat) :
    catEncoded (selEnc is e) = .ok (selEncoded is enc) := by
  simp only [catEncoded] at h ⊢
  cases hk : keyedCols (e.columnNames.map labelField) e.values with
  | error x => simp [hk] at h
  | ok kc =>
    simp only [hk, Except.ok.injEq] at h
    subst h
    simp only [selEnc, keyedCols_select hk is]
    rfl

theorem catEncoded_len {e : Contrasts.Encoded} {enc : Encoded} (h : catEncoded e = .ok enc) :
    valLen e.values.length enc.val := by
  simp only [catEncoded] at h
  cases hk : keyedCols (e.columnNames.map labelField) e.values with
  | error x => simp [hk] at h
  | ok kc =>
    simp only [hk, Except.ok.injEq] at h
    subst h
    exact keyedCols_length hk

theorem select_length_rows (f : Frame) (is : List Nat) : (f.select is).rows.length = (select is f.rows).length := rfl

/-- **Replay of one factor.** -/
theorem factor_replay (env : Env) (o : String) (f : Frame) (x : String) (ts : TStates) (es : EStates)
    (hr : FactorReady env ts es x) (ef : EvaledFactor) (ts' : TStates) (es' : EStates)
    (h : evalFactor env o f x ts es = .ok (ef, ts', es')) :
    ts' = ts ∧ es' = es ∧ factorLen f.rows.length ef ∧
      ∀ is, evalFactor env o (f.select is) x ts es = .ok (selFactor is ef, ts, es) := by
  unfold evalFactor at h
  unfold FactorReady at hr
  cases hs : env.sem x with
  | none => simp [hs] at h
  | some sem =>
    simp only [hs] at h hr
    cases sem with
    | lit v =>
      simp only [Except.ok.injEq, Prod.mk.injEq] at h
      obtain ⟨rfl, rfl, rfl⟩ := h
      refine ⟨rfl, rfl, ⟨by simp [valLen, litEncoded], by simp [valLen, litEncoded]⟩, fun is => ?_⟩
      unfold evalFactor
      simp only [hs, selFactor, selEncoded, litEncoded, selVal,
        select_replicate is f.rows.length v f.rows rfl]
      rfl
    | num e =>
      cases he : evalExpr env f e ts with
      | error x => simp [he] at h
      | ok r =>
        obtain ⟨v, ts1⟩ := r
        simp only [he, Except.ok.injEq, Prod.mk.injEq] at h
        obtain ⟨rfl, rfl, rfl⟩ := h
        obtain ⟨h1, h2, h3, _⟩ := eval_replay env f e ts hr v ts1 he
        subst h1
        refine ⟨rfl, rfl, ⟨numEncoded_len h2, numEncoded_len h2⟩, fun is => ?_⟩
        unfold evalFactor
        simp only [hs, h3 is, numEncoded_select, numSpans_select, selFactor]
    | cat var c viaC =>
      obtain ⟨cats, hcats⟩ := hr
      cases hd : f.labColumn var with
      | error x => simp [hd] at h
      | ok data =>
        have hlen := (labColumn_select hd []).2
        have hlv : ∀ decl, recordedLevels es decl x var = some cats := by
          intro decl; simp only [recordedLevels, hcats]
        simp only [hd, hlv] at h
        cases viaC with
        | true =>
          simp only [if_true] at h
          cases h1 : catCall c false o (some cats) data with
          | error x => simp [h1, liftT] at h
          | ok r1 =>
            obtain ⟨encF, cats1⟩ := r1
            obtain ⟨rfl, l1⟩ := catCall_some_spec h1
            simp only [h1, liftT] at h
            cases h2 : catCall c true o (some cats1) data with
            | error x => simp [h2] at h
            | ok r2 =>
              obtain ⟨encR, cats2⟩ := r2
              obtain ⟨rfl, l2⟩ := catCall_some_spec h2
              simp only [h2] at h
              cases g1 : catEncoded encF with
              | error x => simp [g1] at h
              | ok eF =>
                cases g2 : catEncoded encR with
                | error x => simp [g1, g2] at h
                | ok eR =>
                  simp only [g1, g2, Except.ok.injEq, Prod.mk.injEq] at h
                  obtain ⟨rfl, rfl, rfl⟩ := h
                  refine ⟨rfl, setKey_of_getKey _ _ _ hcats, ⟨?_, ?_⟩, fun is => ?_⟩
                  · have := catEncoded_len g1; rw [l1, hlen] at this; exact this
                  · have := catEncoded_len g2; rw [l2, hlen] at this; exact this
                  · unfold evalFactor
                    simp only [hs, (labColumn_select hd is).1, hlv, if_true, catCall_select, h1, h2,
                      Except.map, liftT, catEncoded_select g1 is, catEncoded_select g2 is,
                      setKey_of_getKey _ _ _ hcats, selFactor]
        | false =>
          simp only [Bool.false_eq_true, if_false] at h
          cases h1 : catCall (.treatment none) false o (some cats) data with
          | error x => simp [h1, liftT] at h
          | ok r1 =>
            obtain ⟨enc, cats1⟩ := r1
            obtain ⟨rfl, l1⟩ := catCall_some_spec h1
            simp only [h1, liftT] at h
            cases g1 : catEncoded enc with
            | error x => simp [g1] at h
            | ok e =>
              simp only [g1, Except.ok.injEq, Prod.mk.injEq] at h
              obtain ⟨rfl, rfl, rfl⟩ := h
              have hl := catEncoded_len g1
              rw [l1, hlen] at hl
              refine ⟨rfl, setKey_of_getKey _ _ _ hcats, ⟨hl, hl⟩, fun is => ?_⟩
              unfold evalFactor
              simp only [hs, (labColumn_select hd is).1, hlv, Bool.false_eq_true, if_false,
                catCall_select, h1, Except.map, liftT, catEncoded_select g1 is,
                setKey_of_getKey _ _ _ hcats, selFactor]

theorem factorReady_mono (env : Env) {ts ts' : TStates} {es es' : EStates} (h1 : TExtends ts ts')
    (h2 : Extends es es') (x : String) (h : FactorReady env ts es x) : FactorReady env ts' es' x := by
  unfold FactorReady at h ⊢
  cases hs : env.sem x with
  | none => trivial
  | some sem =>
    simp only [hs] at h ⊢
    cases sem with
    | lit v => trivial
    | num e => exact exprReady_mono env h1 e h
    | cat var c viaC =>
      obtain ⟨cats, hc⟩ := h
      exact ⟨cats, h2 _ _ hc⟩

/-- **Fit then replay of one factor.** -/
theorem factor_stable (env : Env) (o : String) (f : Frame) (x : String) (ts : TStates) (es : EStates)
    (hsc : StatesComplete env ts) (ef : EvaledFactor) (ts1 : TStates) (es1 : EStates)
    (h : evalFactor env o f x ts es = .ok (ef, ts1, es1)) :
    StatesComplete env ts1 ∧ TExtends ts ts1 ∧ Extends es es1 ∧ FactorReady env ts1 es1 x ∧
      ∀ tsX esX, TExtends ts1 tsX → Extends es1 esX →
        evalFactor env o f x tsX esX = .ok (ef, tsX, esX) := by
  unfold evalFactor at h
  cases hs : env.sem x with
  | none => simp [hs] at h
  | some sem =>
    simp only [hs] at h
    cases sem with
    | lit v =>
      simp only [Except.ok.injEq, Prod.mk.injEq] at h
      obtain ⟨rfl, rfl, rfl⟩ := h
      refine ⟨hsc, texends_refl _, extends_refl _, by simp [FactorReady, hs], fun tsX esX _ _ => ?_⟩
      unfold evalFactor
      simp only [hs]
    | num e =>
      cases he : evalExpr env f e ts with
      | error x => simp [he] at h
      | ok r =>
        obtain ⟨v, ts2⟩ := r
        simp only [he, Except.ok.injEq, Prod.mk.injEq] at h
        obtain ⟨rfl, rfl, rfl⟩ := h
        obtain ⟨h1, h2, h3, h4⟩ := eval_stable env f e ts hsc v ts2 he
        refine ⟨h1, h2, extends_refl _, by simpa [FactorReady, hs] using h3, fun tsX esX hx _ => ?_⟩
        unfold evalFactor
        simp only [hs, h4 tsX hx]
    | cat var c viaC =>
      cases hd : f.labColumn var with
      | error x => simp [hd] at h
      | ok data =>
        simp only [hd] at h
        -- the levels the first encoding is called with, and the categories it records
        have key : ∀ (c' : Contrasts.Contrast) (r : Bool) (enc : Contrasts.Encoded) (cats : List Contrasts.Label),
            catCall c' r o (recordedLevels es (explicitDecl env x var ++ f.declared) x var) data
              = .ok (enc, cats) →
            catCall c' r o (some cats) data = .ok (enc, cats) ∧
              (getKey es x = none ∨ getKey es x = some cats) := by
          intro c' r enc cats hc
          unfold recordedLevels at hc
          cases hg : getKey es x with
          | some l =>
            simp only [hg] at hc
            obtain ⟨rfl, _⟩ := catCall_some_spec hc
            exact ⟨hc, .inr rfl⟩
          | none =>
            simp only [hg] at hc
            cases hdcl : getKey (explicitDecl env x var ++ f.declared) var with
            | none => rw [hdcl] at hc; exact ⟨catCall_none hc, .inl rfl⟩
            | some dl =>
              rw [hdcl] at hc
              obtain ⟨rfl, _⟩ := catCall_some_spec hc
              exact ⟨hc, .inl rfl⟩
        have hext : ∀ cats, (getKey es x = none ∨ getKey es x = some cats) → Extends es (setKey es x cats) := by
          intro cats hh
          rcases hh with hh | hh
          · exact extends_setKey _ _ _ hh
          · rw [setKey_of_getKey _ _ _ hh]; exact extends_refl _
        cases viaC with
        | true =>
          simp only [if_true] at h
          cases h1 : catCall c false o (recordedLevels es (explicitDecl env x var ++ f.declared) x var) data with
          | error x => simp [h1, liftT] at h
          | ok r1 =>
            obtain ⟨encF, cats1⟩ := r1
            obtain ⟨k1, k2⟩ := key c false encF cats1 h1
            simp only [h1, liftT] at h
            cases h2 : catCall c true o (some cats1) data with
            | error x => simp [h2] at h
            | ok r2 =>
              obtain ⟨encR, cats2⟩ := r2
              obtain ⟨rfl, _⟩ := catCall_some_spec h2
              simp only [h2] at h
              cases g1 : catEncoded encF with
              | error x => simp [g1] at h
              | ok eF =>
                cases g2 : catEncoded encR with
                | error x => simp [g1, g2] at h
                | ok eR =>
                  simp only [g1, g2, Except.ok.injEq, Prod.mk.injEq] at h
                  obtain ⟨rfl, rfl, rfl⟩ := h
                  refine ⟨hsc, texends_refl _, hext _ k2, ?_, fun tsX esX _ hx => ?_⟩
                  · simp only [FactorReady, hs]
                    exact ⟨_, getKey_setKey_same _ _ _⟩
                  · have hgx : getKey esX x = some cats2 := hx _ _ (getKey_setKey_same _ _ _)
                    have hlv : recordedLevels esX (explicitDecl env x var ++ f.declared) x var = some cats2 := by
                      simp only [recordedLevels, hgx]
                    unfold evalFactor
                    simp only [hs, hd, hlv, if_true, k1, h2, liftT, g1, g2, setKey_of_getKey _ _ _ hgx]
        | false =>
          simp only [Bool.false_eq_true, if_false] at h
          cases h1 : catCall (.treatment none) false o (recordedLevels es (explicitDecl env x var ++ f.declared) x var) data with
          | error x => simp [h1, liftT] at h
          | ok r1 =>
            obtain ⟨enc, cats1⟩ := r1
            obtain ⟨k1, k2⟩ := key _ false enc cats1 h1
            simp only [h1, liftT] at h
            cases g1 : catEncoded enc with
            | error x => simp [g1] at h
            | ok e =>
              simp only [g1, Except.ok.injEq, Prod.mk.injEq] at h
              obtain ⟨rfl, rfl, rfl⟩ := h
              refine ⟨hsc, texends_refl _, hext _ k2, ?_, fun tsX esX _ hx => ?_⟩
              · simp only [FactorReady, hs]
                exact ⟨_, getKey_setKey_same _ _ _⟩
              · have hgx : getKey esX x = some cats1 := hx _ _ (getKey_setKey_same _ _ _)
                have hlv : recordedLevels esX (explicitDecl env x var ++ f.declared) x var = some cats1 := by
                  simp only [recordedLevels, hgx]
                unfold evalFactor
                simp only [hs, hd, hlv, Bool.false_eq_true, if_false, k1, liftT, g1, setKey_of_getKey _ _ _ hgx]

/-- **Replay of all factors**: states unchanged, every cached column has one entry per row, and the
cache of a selection of rows is the selection of the cache. -/
theorem factors_replay (env : Env) (o : String) (f : Frame) (xs : List String) (ts : TStates) (es : EStates)
    (hr : ∀ x ∈ xs, FactorReady env ts es x) (c : Cache) (ts' : TStates) (es' : EStates)
    (h : evalFactors env o f xs ts es = .ok (c, ts', es')) :
    ts' = ts ∧ es' = es ∧ cacheLen f.rows.length c ∧
      ∀ is, evalFactors env o (f.select is) xs ts es = .ok (selCache is c, ts, es) := by
  induction xs generalizing c ts' es' with
  | nil =>
    simp only [evalFactors, Except.ok.injEq, Prod.mk.injEq] at h
    obtain ⟨rfl, rfl, rfl⟩ := h
    exact ⟨rfl, rfl, fun _ hf => (by cases hf), fun is => rfl⟩
  | cons x xs ih =>
    simp only [evalFactors] at h
    cases h1 : evalFactor env o f x ts es with
    | error e => simp [h1] at h
    | ok r =>
      obtain ⟨ef, ts1, es1⟩ := r
      obtain ⟨rfl, rfl, k3, k4⟩ := factor_replay env o f x ts es (hr x (by simp)) ef ts1 es1 h1
      simp only [h1] at h
      cases h2 : evalFactors env o f xs ts1 es1 with
      | error e => simp [h2] at h
      | ok r2 =>
        obtain ⟨c2, ts2, es2⟩ := r2
        simp only [h2, Except.ok.injEq, Prod.mk.injEq] at h
        obtain ⟨rfl, rfl, rfl⟩ := h
        obtain ⟨rfl, rfl, j3, j4⟩ := ih (fun y hy => hr y (by simp [hy])) c2 ts2 es2 h2
        refine ⟨rfl, rfl, ?_, fun is => ?_⟩
        · intro g hg
          rcases List.mem_cons.1 hg with rfl | hg
          · exact k3
          · exact j3 g hg
        · simp only [evalFactors, k4 is, j4 is, selCache, List.map_cons]

/-- **Fit then replay of all factors.** -/
theorem factors_stable (env : Env) (o : String) (f : Frame) (xs : List String) (ts : TStates) (es : EStates)
    (hsc : StatesComplete env ts) (c : Cache) (ts1 : TStates) (es1 : EStates)
    (h : evalFactors env o f xs ts es = .ok (c, ts1, es1)) :
    StatesComplete env ts1 ∧ TExtends ts ts1 ∧ Extends es es1 ∧ (∀ x ∈ xs, FactorReady env ts1 es1 x) ∧
      ∀ tsX esX, TExtends ts1 tsX → Extends es1 esX →
        evalFactors env o f xs tsX esX = .ok (c, tsX, esX) := by
  induction xs generalizing c ts es ts1 es1 with
  | nil =>
    simp only [evalFactors, Except.ok.injEq, Prod.mk.injEq] at h
    obtain ⟨rfl, rfl, rfl⟩ := h
    exact ⟨hsc, texends_refl _, extends_refl _, fun _ hx => (by cases hx), fun _ _ _ _ => rfl⟩
  | cons x xs ih =>
    simp only [evalFactors] at h
    cases h1 : evalFactor env o f x ts es with
    | error e => simp [h1] at h
    | ok r =>
      obtain ⟨ef, tsa, esa⟩ := r
      obtain ⟨k1, k2, k3, k4, k5⟩ := factor_stable env o f x ts es hsc ef tsa esa h1
      simp only [h1] at h
      cases h2 : evalFactors env o f xs tsa esa with
      | error e => simp [h2] at h
      | ok r2 =>
        obtain ⟨c2, tsb, esb⟩ := r2
        simp only [h2, Except.ok.injEq, Prod.mk.injEq] at h
        obtain ⟨rfl, rfl, rfl⟩ := h
        obtain ⟨j1, j2, j3, j4, j5⟩ := ih tsa esa k1 c2 tsb esb h2
        refine ⟨j1, texends_trans k2 j2, extends_trans k3 j3, ?_, fun tsX esX hx1 hx2 => ?_⟩
        · intro y hy
          rcases List.mem_cons.1 hy with rfl | hy
          · exact factorReady_mono env j2 j3 _ k4
          · exact j4 y hy
        · simp only [evalFactors, k5 tsX esX (texends_trans j2 hx1) (extends_trans j3 hx2), j5 tsX esX hx1 hx2]

end FormulaicVerif.Proofs.C04
