import FormulaicVerif.Spec.Replay
/-! Row selection commutes with everything that is computed row by row (helper lemmas for C04). -/
namespace FormulaicVerif.Proofs.C04
open FormulaicVerif.Model FormulaicVerif.Model.Replay FormulaicVerif.Spec.Replay

variable {α β γ ε : Type}

theorem select_nil_idx (xs : List α) : select [] xs = [] := rfl

theorem select_cons_idx (i : Nat) (is : List Nat) (xs : List α) :
    select (i :: is) xs = (match xs[i]? with | some x => x :: select is xs | none => select is xs) := by
  unfold select
  simp only [List.filterMap_cons]
  cases xs[i]? <;> rfl

theorem select_map (f : α → β) (is : List Nat) (xs : List α) :
    select is (xs.map f) = (select is xs).map f := by
  induction is with
  | nil => rfl
  | cons i is ih =>
    rw [select_cons_idx, select_cons_idx, ih, List.getElem?_map]
    cases xs[i]? <;> rfl

theorem mem_select {is : List Nat} {xs : List α} {y : α} (h : y ∈ select is xs) : y ∈ xs := by
  unfold select at h
  rw [List.mem_filterMap] at h
  obtain ⟨i, _, hi⟩ := h
  exact List.mem_of_getElem? hi

theorem length_select_congr (is : List Nat) (xs : List α) (ys : List β) (h : xs.length = ys.length) :
    (select is xs).length = (select is ys).length := by
  induction is with
  | nil => rfl
  | cons i is ih =>
    rw [select_cons_idx, select_cons_idx]
    by_cases hi : i < xs.length
    · have hj : i < ys.length := h ▸ hi
      rw [List.getElem?_eq_getElem hi, List.getElem?_eq_getElem hj]
      simp [ih]
    · have hj : ¬ i < ys.length := h ▸ hi
      rw [List.getElem?_eq_none (by omega), List.getElem?_eq_none (by omega)]
      exact ih

theorem select_zipWith (f : α → β → γ) (is : List Nat) (xs : List α) (ys : List β)
    (h : xs.length = ys.length) :
    select is (List.zipWith f xs ys) = List.zipWith f (select is xs) (select is ys) := by
  induction is with
  | nil => rfl
  | cons i is ih =>
    rw [select_cons_idx, select_cons_idx, select_cons_idx, ih, List.getElem?_zipWith]
    by_cases hi : i < xs.length
    · have hj : i < ys.length := h ▸ hi
      rw [List.getElem?_eq_getElem hi, List.getElem?_eq_getElem hj]
      rfl
    · have hj : ¬ i < ys.length := h ▸ hi
      rw [List.getElem?_eq_none (by omega), List.getElem?_eq_none (by omega)]

theorem select_replicate (is : List Nat) (n : Nat) (a : α) (xs : List β) (h : xs.length = n) :
    select is (List.replicate n a) = List.replicate (select is xs).length a := by
  induction is with
  | nil => rfl
  | cons i is ih =>
    rw [select_cons_idx, select_cons_idx, ih]
    by_cases hi : i < n
    · rw [List.getElem?_replicate, if_pos hi, List.getElem?_eq_getElem (h ▸ hi)]
      rfl
    · rw [List.getElem?_replicate, if_neg hi, List.getElem?_eq_none (by omega)]

/-- `mapE` is a `map` when it succeeds -/
theorem mapE_ok_iff (f : α → Except ε β) (xs : List α) (ys : List β) :
    mapE f xs = .ok ys ↔ xs.map f = ys.map Except.ok := by
  induction xs generalizing ys with
  | nil =>
    constructor
    · intro h; cases h; rfl
    · intro h
      cases ys with
      | nil => rfl
      | cons y r => cases h
  | cons x xs ih =>
    constructor
    · intro h
      simp only [mapE] at h
      cases hx : f x with
      | error e => simp [hx] at h
      | ok y =>
        cases hr : mapE f xs with
        | error e => simp [hx, hr] at h
        | ok r =>
          simp only [hx, hr, Except.ok.injEq] at h
          subst h
          simp only [List.map_cons, hx, (ih r).1 hr]
    · intro h
      cases ys with
      | nil => cases h
      | cons y r =>
        simp only [List.map_cons, List.cons.injEq] at h
        simp only [mapE, h.1, (ih r).2 h.2]

theorem mapE_length {f : α → Except ε β} {xs : List α} {ys : List β} (h : mapE f xs = .ok ys) :
    ys.length = xs.length := by
  have := congrArg List.length ((mapE_ok_iff f xs ys).1 h)
  simpa using this.symm

theorem mapE_select {f : α → Except ε β} {xs : List α} {ys : List β} (h : mapE f xs = .ok ys)
    (is : List Nat) : mapE f (select is xs) = .ok (select is ys) := by
  rw [mapE_ok_iff] at h ⊢
  rw [← select_map, h, select_map]

theorem mapE_sub {f : α → Except ε β} {xs zs : List α} {ys : List β} (h : mapE f xs = .ok ys)
    (hsub : ∀ z ∈ zs, z ∈ xs) : ∃ ws, mapE f zs = .ok ws := by
  induction zs with
  | nil => exact ⟨[], rfl⟩
  | cons z zs ih =>
    obtain ⟨ws, hws⟩ := ih (fun z' hz' => hsub z' (by simp [hz']))
    have hz : z ∈ xs := hsub z (by simp)
    rw [mapE_ok_iff] at h
    have : f z ∈ xs.map f := List.mem_map_of_mem hz
    rw [h, List.mem_map] at this
    obtain ⟨y, _, hy⟩ := this
    exact ⟨y :: ws, by simp only [mapE, ← hy, hws]⟩

end FormulaicVerif.Proofs.C04
