import FormulaicVerif.Proofs.C03Matrix
import FormulaicVerif.Proofs.C03Codings
import FormulaicVerif.Model.Crossed
/-! A concrete fully crossed design, computed by `Model.Crossed` from the design description alone, on which every
hypothesis of the C03 matrix theorems is CHECKED (kernel `decide`): `A` (2 levels, bare column, treatment coded) ×
`C(B, contr.sum)` (3 levels, an undeclared object column) × numeric `x ∈ {2, 3}`, 12 rows, formula
`0 + A + 2:A:C(B, contr.sum) + A:x`. Used by the non-vacuity examples of `Props/C03.lean`. -/
namespace FormulaicVerif.Proofs.C03Example
open FormulaicVerif.Model FormulaicVerif.Spec FormulaicVerif.Spec.C03 FormulaicVerif.Proofs.C03Matrix
open FormulaicVerif.Proofs.TensorRank FormulaicVerif.Proofs.C03Codings
open FormulaicVerif.Model.Contrasts (Label Contrast)

def exDesign : Crossed.Design :=
  { columns := [.cat [.str "a", .str "b"] true, .cat [.str "u", .str "v", .str "w"] false, .num [2, 3]],
    factors := [.column "A" 0, .wrapped "C(B, contr.sum)" 1 .sum, .column "x" 2, .literal "2" 2],
    sparse := false }

def exTerms : List MTerm := [["A"], ["2", "A", "C(B, contr.sum)"], ["A", "x"]]

def exCache : Cache :=
  match Crossed.evalFactors exDesign exDesign.factors with
  | .ok evs => evs.map (·.ef)
  | .error _ => []

def exCfg (efr : Bool) : Config :=
  { cache := exCache, terms := exTerms, ensureFullRank := efr, clusterByNumerical := false, variant := .fast, nrows := 12 }

/-- `exCfg` is the configuration the crossed-design model computes for this design -/
theorem exCfg_is_model : (Crossed.config exDesign exTerms true false).toOption.map (fun c => (c.cache, c.nrows)) =
    some (exCache, 12) := by decide +kernel

def exK : Fin 3 → ℕ | 0 => 2 | 1 => 3 | 2 => 2
def exExpr : Fin 3 → String | 0 => "A" | 1 => "C(B, contr.sum)" | 2 => "x"
def exTab (i : Fin 3) (b : Bool) : List Item :=
  match exCache.get (exExpr i) with
  | .ok f => match encodeEvaledFactor f b with | .ok t => t | .error _ => []
  | .error _ => []
/-- level of axis `i` in row `r` (`itertools.product`: the last column varies fastest) -/
def exRow (r : Fin 12) : (i : Fin 3) → Fin (exK i)
  | 0 => ⟨r.val / 6, by have := r.isLt; show r.val / 6 < 2; omega⟩
  | 1 => ⟨(r.val / 2) % 3, by show (r.val / 2) % 3 < 3; omega⟩
  | 2 => ⟨r.val % 2, by show r.val % 2 < 2; omega⟩
/-- a row in which axis `i` is at level `l` -/
def exRep : (i : Fin 3) → Fin (exK i) → ℕ
  | 0, l => 6 * l.val | 1, l => 2 * l.val | 2, l => l.val
def exB (i : Fin 3) (b : Bool) (j : Fin (exTab i b).length) (l : Fin (exK i)) : ℚ :=
  ((exTab i b)[j]).col.getD (exRep i l) 0

theorem exDesign_crossed : CrossedDesign exCache 12 exK exExpr exTab exB exRow where
  expr_inj := by decide
  row_surj := by decide +kernel
  enc := by
    intro i b
    have h : ∀ i b, (match exCache.get (exExpr i) with
        | .ok f => decide (encodeEvaledFactor f b = .ok (exTab i b))
        | .error _ => false) = true := by decide +kernel
    have := h i b
    cases hg : exCache.get (exExpr i) with
    | error e => simp [hg] at this
    | ok f => simp only [hg, decide_eq_true_eq] at this; exact ⟨f, rfl, this⟩
  col := by decide +kernel

/-- rows of the inverses of `[1 | reduced coding]`, per axis -/
def dualR : Fin 3 → List (List ℚ)
  | 0 => [[1, 0], [-1, 1]]
  | 1 => [[1/3, 1/3, 1/3], [2/3, -1/3, -1/3], [-1/3, 2/3, -1/3]]
  | 2 => [[3, -2], [-1, 1]]
/-- dual rows of the full codings -/
def dualF : Fin 3 → List (List ℚ)
  | 0 => [[1, 0], [0, 1]]
  | 1 => [[1, 0, 0], [0, 1, 0], [0, 0, 1]]
  | 2 => [[1/2, 0]]

def exCR (i : Fin 3) (o : Option (Fin (exTab i true).length)) (l : Fin (exK i)) : ℚ :=
  (((dualR i)[match o with | none => 0 | some j => j.val + 1]?).getD []).getD l.val 0
def exCF (i : Fin 3) (o : Fin (exTab i false).length) (l : Fin (exK i)) : ℚ :=
  (((dualF i)[o.val]?).getD []).getD l.val 0

theorem exDesign_hyp : Hyp (Rd exK exTab exB) (Fd exK exTab exB) (fun i => spansOf exCache (exExpr i)) := by
  apply hyp_of_duals _ _ _ exCR exCF
  · decide +kernel
  · decide +kernel
  · decide +kernel
  · decide +kernel

end FormulaicVerif.Proofs.C03Example
