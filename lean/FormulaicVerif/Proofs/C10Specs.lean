import FormulaicVerif.Model.SpecsMeta
import FormulaicVerif.Proofs.C19St
/-! Helper lemmas for C10: `Structured._map` with a function that may raise (`mapE`) against the
pure `_map` of `Model/Structured.lean` (`mapV`) and the leaves in evaluation order (`flattenP`). -/
namespace FormulaicVerif.Proofs.C10
open FormulaicVerif.Model FormulaicVerif.Model.SpecMeta FormulaicVerif.Model.St FormulaicVerif.Model.SpecsMeta

variable {β γ : Type}

mutual
/-- when `f` succeeds on every leaf, the raising `_map` is the pure one -/
theorem mapE_of_leaves (f : β → Path → Except PyErr γ) (g : β → Path → γ) :
    ∀ (v : Val β) (ctx : Path), (∀ p ∈ flattenP ctx v, f p.1 p.2 = .ok (g p.1 p.2)) →
      mapE f ctx v = .ok (mapV g ctx v)
  | .leaf a, ctx, h => by
    have := h (a, ctx) (by simp [flattenP])
    simp only at this
    simp [mapE, mapV, this, Except.map]
  | .tup vs, ctx, h => by
    simp only [flattenP] at h
    simp [mapE, mapV, mapET_of_leaves f g vs ctx 0 h, Except.map]
  | .node kvs, ctx, h => by
    simp only [flattenP] at h
    simp [mapE, mapV, mapEI_of_leaves f g kvs ctx h, Except.map]
theorem mapET_of_leaves (f : β → Path → Except PyErr γ) (g : β → Path → γ) :
    ∀ (vs : List (Val β)) (ctx : Path) (i : Nat), (∀ p ∈ flattenPT ctx i vs, f p.1 p.2 = .ok (g p.1 p.2)) →
      mapET f ctx i vs = .ok (mapT g ctx i vs)
  | [], ctx, i, _ => by simp [mapET, mapT]
  | v :: vs, ctx, i, h => by
    simp only [flattenPT, List.mem_append] at h
    simp [mapET, mapT, mapE_of_leaves f g v _ (fun p hp => h p (Or.inl hp)),
      mapET_of_leaves f g vs ctx (i + 1) (fun p hp => h p (Or.inr hp))]
theorem mapEI_of_leaves (f : β → Path → Except PyErr γ) (g : β → Path → γ) :
    ∀ (kvs : Items β) (ctx : Path), (∀ p ∈ flattenPI ctx kvs, f p.1 p.2 = .ok (g p.1 p.2)) →
      mapEI f ctx kvs = .ok (mapI g ctx kvs)
  | [], ctx, _ => by simp [mapEI, mapI]
  | (k, v) :: r, ctx, h => by
    simp only [flattenPI, List.mem_append] at h
    simp [mapEI, mapI, mapE_of_leaves f g v _ (fun p hp => h p (Or.inl hp)),
      mapEI_of_leaves f g r ctx (fun p hp => h p (Or.inr hp))]
end

mutual
/-- a successful raising `_map` succeeded on every leaf -/
theorem mapE_ok_leaves (f : β → Path → Except PyErr γ) :
    ∀ (v : Val β) (ctx : Path) (out : Val γ), mapE f ctx v = .ok out →
      ∀ p ∈ flattenP ctx v, ∃ b, f p.1 p.2 = .ok b
  | .leaf a, ctx, out, h => by
    intro p hp
    simp only [flattenP, List.mem_singleton] at hp
    subst hp
    simp only [mapE] at h
    cases hf : f a ctx with
    | ok b => exact ⟨b, rfl⟩
    | error e => rw [hf] at h; cases h
  | .tup vs, ctx, out, h => by
    simp only [mapE] at h
    cases hm : mapET f ctx 0 vs with
    | error e => rw [hm] at h; cases h
    | ok ws => simpa [flattenP] using mapET_ok_leaves f vs ctx 0 ws hm
  | .node kvs, ctx, out, h => by
    simp only [mapE] at h
    cases hm : mapEI f ctx kvs with
    | error e => rw [hm] at h; cases h
    | ok ws => simpa [flattenP] using mapEI_ok_leaves f kvs ctx ws hm
theorem mapET_ok_leaves (f : β → Path → Except PyErr γ) :
    ∀ (vs : List (Val β)) (ctx : Path) (i : Nat) (out : List (Val γ)), mapET f ctx i vs = .ok out →
      ∀ p ∈ flattenPT ctx i vs, ∃ b, f p.1 p.2 = .ok b
  | [], ctx, i, out, _ => by simp [flattenPT]
  | v :: vs, ctx, i, out, h => by
    simp only [mapET] at h
    cases hv : mapE f (ctx ++ [.idx i]) v with
    | error e => rw [hv] at h; cases h
    | ok w =>
      rw [hv] at h
      cases hr : mapET f ctx (i + 1) vs with
      | error e => rw [hr] at h; cases h
      | ok ws =>
        intro p hp
        simp only [flattenPT, List.mem_append] at hp
        rcases hp with hp | hp
        · exact mapE_ok_leaves f v _ w hv p hp
        · exact mapET_ok_leaves f vs ctx (i + 1) ws hr p hp
theorem mapEI_ok_leaves (f : β → Path → Except PyErr γ) :
    ∀ (kvs : Items β) (ctx : Path) (out : Items γ), mapEI f ctx kvs = .ok out →
      ∀ p ∈ flattenPI ctx kvs, ∃ b, f p.1 p.2 = .ok b
  | [], ctx, out, _ => by simp [flattenPI]
  | (k, v) :: r, ctx, out, h => by
    simp only [mapEI] at h
    cases hv : mapE f (ctx ++ [.key k]) v with
    | error e => rw [hv] at h; cases h
    | ok w =>
      rw [hv] at h
      cases hr : mapEI f ctx r with
      | error e => rw [hr] at h; cases h
      | ok ws =>
        intro p hp
        simp only [flattenPI, List.mem_append] at hp
        rcases hp with hp | hp
        · exact mapE_ok_leaves f v _ w hv p hp
        · exact mapEI_ok_leaves f r ctx ws hr p hp
end

mutual
/-- an exception of the raising `_map` is the exception of one of its leaves -/
theorem mapE_err_leaf (f : β → Path → Except PyErr γ) :
    ∀ (v : Val β) (ctx : Path) (e : PyErr), mapE f ctx v = .error e →
      ∃ p ∈ flattenP ctx v, f p.1 p.2 = .error e
  | .leaf a, ctx, e, h => by
    simp only [mapE] at h
    cases hf : f a ctx with
    | ok b => rw [hf] at h; cases h
    | error e' =>
      rw [hf] at h
      cases h
      exact ⟨(a, ctx), by simp [flattenP], hf⟩
  | .tup vs, ctx, e, h => by
    simp only [mapE] at h
    cases hm : mapET f ctx 0 vs with
    | ok ws => rw [hm] at h; cases h
    | error e' =>
      rw [hm] at h
      cases h
      simpa [flattenP] using mapET_err_leaf f vs ctx 0 e hm
  | .node kvs, ctx, e, h => by
    simp only [mapE] at h
    cases hm : mapEI f ctx kvs with
    | ok ws => rw [hm] at h; cases h
    | error e' =>
      rw [hm] at h
      cases h
      simpa [flattenP] using mapEI_err_leaf f kvs ctx e hm
theorem mapET_err_leaf (f : β → Path → Except PyErr γ) :
    ∀ (vs : List (Val β)) (ctx : Path) (i : Nat) (e : PyErr), mapET f ctx i vs = .error e →
      ∃ p ∈ flattenPT ctx i vs, f p.1 p.2 = .error e
  | [], ctx, i, e, h => by simp [mapET] at h
  | v :: vs, ctx, i, e, h => by
    simp only [mapET] at h
    cases hv : mapE f (ctx ++ [.idx i]) v with
    | error e' =>
      rw [hv] at h
      cases h
      obtain ⟨p, hp, hf⟩ := mapE_err_leaf f v _ e hv
      exact ⟨p, by simp [flattenPT, hp], hf⟩
    | ok w =>
      rw [hv] at h
      cases hr : mapET f ctx (i + 1) vs with
      | ok ws => rw [hr] at h; cases h
      | error e' =>
        rw [hr] at h
        cases h
        obtain ⟨p, hp, hf⟩ := mapET_err_leaf f vs ctx (i + 1) e hr
        exact ⟨p, by simp [flattenPT, hp], hf⟩
theorem mapEI_err_leaf (f : β → Path → Except PyErr γ) :
    ∀ (kvs : Items β) (ctx : Path) (e : PyErr), mapEI f ctx kvs = .error e →
      ∃ p ∈ flattenPI ctx kvs, f p.1 p.2 = .error e
  | [], ctx, e, h => by simp [mapEI] at h
  | (k, v) :: r, ctx, e, h => by
    simp only [mapEI] at h
    cases hv : mapE f (ctx ++ [.key k]) v with
    | error e' =>
      rw [hv] at h
      cases h
      obtain ⟨p, hp, hf⟩ := mapE_err_leaf f v _ e hv
      exact ⟨p, by simp [flattenPI, hp], hf⟩
    | ok w =>
      rw [hv] at h
      cases hr : mapEI f ctx r with
      | ok ws => rw [hr] at h; cases h
      | error e' =>
        rw [hr] at h
        cases h
        obtain ⟨p, hp, hf⟩ := mapEI_err_leaf f r ctx e hr
        exact ⟨p, by simp [flattenPI, hp], hf⟩
end

/-- a successful raising `_map` is the pure `_map` of a function that agrees with `f` on every leaf -/
theorem mapE_ok_eq [Inhabited γ] (f : β → Path → Except PyErr γ) (v : Val β) (ctx : Path) (out : Val γ)
    (h : mapE f ctx v = .ok out) :
    ∃ g : β → Path → γ, out = mapV g ctx v ∧ ∀ p ∈ flattenP ctx v, f p.1 p.2 = .ok (g p.1 p.2) := by
  let g : β → Path → γ := fun a p => match f a p with
    | .ok b => b
    | .error _ => default
  have hall : ∀ p ∈ flattenP ctx v, f p.1 p.2 = .ok (g p.1 p.2) := by
    intro p hp
    obtain ⟨b, hb⟩ := mapE_ok_leaves f v ctx out h p hp
    simp only [g, hb]
  refine ⟨g, ?_, hall⟩
  have := mapE_of_leaves f g v ctx hall
  rw [h] at this
  cases this
  rfl

theorem keyToValue_ok {δ : Type} (r : Except PyErr δ) (b : δ) : keyToValue r = .ok b ↔ r = .ok b := by
  cases r with
  | ok x => simp [keyToValue]
  | error e => cases e <;> simp [keyToValue]

end FormulaicVerif.Proofs.C10
