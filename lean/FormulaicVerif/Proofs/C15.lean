import FormulaicVerif.Model.Parser
/-! Helper lemmas for C15: the tokenizer inside a backtick quote and on unquoted whitespace. -/
namespace FormulaicVerif.Proofs.C15
open FormulaicVerif FormulaicVerif.Model

/-- characters that are neither a backtick nor a backslash -/
def QuoteSafe (ci : CharInfo) : Prop := ci.c ≠ '`' ∧ ci.c ≠ '\\'

theorem lexStep_in_backtick (s : LexState) (i : Nat) (ci : CharInfo) (rest : List Char)
    (hq : s.qc = '`' :: rest) (ht : s.take = 0) (hc : QuoteSafe ci) :
    lexStep s i ci = .ok { s with tok := s.tok.update ci.c i } := by
  obtain ⟨h1, h2⟩ := hc
  unfold lexStep lexQuoted lexTop lexPlain
  simp only [ht, Nat.lt_irrefl, if_false, hq]
  have e1 : (ci.c == '\\') = false := by simpa using h2
  have e2 : (ci.c == '`') = false := by simpa using h1
  simp [e1, e2]

def updAll (t : Tok) : List CharInfo → Nat → Tok
  | [], _ => t
  | ci :: cs, i => updAll (t.update ci.c i) cs (i + 1)

theorem lexLoop_in_backtick (body : List CharInfo) : ∀ (tail : List CharInfo) (i : Nat) (s : LexState) (rest : List Char),
    s.qc = '`' :: rest → s.take = 0 → (∀ ci ∈ body, QuoteSafe ci) →
    lexLoop (body ++ tail) i s = lexLoop tail (i + body.length) { s with tok := updAll s.tok body i } := by
  induction body with
  | nil => intro tail i s rest _ _ _; simp [updAll]
  | cons ci body ih =>
    intro tail i s rest hq ht hb
    simp only [List.cons_append, lexLoop]
    rw [lexStep_in_backtick s i ci rest hq ht (hb ci (by simp))]
    simp only
    rw [ih tail (i + 1) ⟨s.qc, s.take, s.tok.update ci.c i, s.out⟩ rest hq ht (fun c hc => hb c (by simp [hc]))]
    simp only [updAll, List.length_cons]
    congr 1
    omega

theorem updAll_text (body : List CharInfo) : ∀ (t : Tok) (i : Nat),
    (updAll t body i).text = t.text ++ body.map (·.c) ∧ (updAll t body i).kind = t.kind := by
  induction body with
  | nil => intro t i; simp [updAll]
  | cons ci body ih =>
    intro t i
    obtain ⟨h1, h2⟩ := ih (t.update ci.c i) (i + 1)
    refine ⟨?_, ?_⟩
    · simp only [updAll, h1]; simp [Tok.update]
    · simp only [updAll, h2]; simp [Tok.update]

theorem updAll_span (body : List CharInfo) : ∀ (t : Tok) (i : Nat) (a : Nat), t.start = some a →
    body ≠ [] → (updAll t body i).start = some a ∧ (updAll t body i).stop = some (i + body.length - 1) := by
  induction body with
  | nil => intro t i a _ h; exact absurd rfl h
  | cons ci body ih =>
    intro t i a ha _
    by_cases hb : body = []
    · subst hb
      simp [updAll, Tok.update, ha]
    · have := ih (t.update ci.c i) (i + 1) a (by simp [Tok.update, ha]) hb
      simp only [updAll, List.length_cons]
      refine ⟨this.1, ?_⟩
      rw [this.2]
      congr 1
      omega

/-- a backtick-quoted name is taken verbatim: whatever operator characters, quotes, brackets or
spaces the body contains (anything but a backtick or a backslash, whatever its character class),
`` `body` `` lexes to exactly one `name` token whose text is the body and whose span runs from
the opening backtick to the last character of the body -/
theorem backtick_verbatim (body : List CharInfo) (bq eq : CharInfo) (hb : ∀ ci ∈ body, QuoteSafe ci)
    (hne : body ≠ []) (h1 : bq.c = '`') (h2 : eq.c = '`') :
    tokenize (bq :: body ++ [eq]) =
      .ok [{ text := body.map (·.c), kind := some .name, start := some 0, stop := some body.length }] := by
  unfold tokenize tokenizeStream
  have hopen : lexStep {} 0 bq = .ok { qc := ['`'], take := 0, tok := Tok.opened .name 0, out := [] } := by
    unfold lexStep lexQuoted lexTop lexPlain
    simp [h1, Tok.nonempty]
  simp only [List.cons_append, lexLoop, hopen]
  rw [lexLoop_in_backtick body [eq] 1 _ [] rfl rfl hb]
  obtain ⟨ht, hk⟩ := updAll_text body (Tok.opened .name 0) 1
  obtain ⟨hs, he⟩ := updAll_span body (Tok.opened .name 0) 1 0 rfl hne
  have hnon : (updAll (Tok.opened .name 0) body 1).nonempty = true := by
    unfold Tok.nonempty
    rw [ht]
    cases body with
    | nil => exact absurd rfl hne
    | cons c cs => simp
  have hclose : lexStep { qc := ['`'], take := 0, tok := updAll (Tok.opened .name 0) body 1, out := [] }
      (1 + body.length) eq
      = .ok { qc := [], take := 0, tok := Tok.fresh, out := [updAll (Tok.opened .name 0) body 1] } := by
    unfold lexStep lexQuoted lexTop lexPlain
    simp [h2, hnon]
  simp only [lexLoop, hclose]
  simp only [List.isEmpty_nil, Bool.not_true, Bool.false_eq_true, if_false, Tok.fresh, Tok.nonempty,
    List.reverse_cons, List.reverse_nil, List.nil_append]
  congr 2
  have hlen : 1 + body.length - 1 = body.length := by omega
  cases hu : updAll (Tok.opened .name 0) body 1 with
  | mk text kind start stop =>
    rw [hu] at ht hk hs he
    simp only [Tok.opened, List.nil_append] at ht hk hs he
    simp [ht, hk, hs, he, hlen]

/-- unquoted whitespace after an operator (or where no token is pending) changes nothing -/
theorem whitespace_noop (s : LexState) (i : Nat) (ci : CharInfo)
    (hq : s.qc = []) (ht : s.take = 0) (hsp : ci.space = true)
    (hc : ci.c ∉ ['%', '{', '`', '(', '[', ')', ']'])
    (hp : s.tok.nonempty = false ∨ s.tok.kind = some .operator) :
    lexStep s i ci = .ok s := by
  simp only [List.mem_cons, List.mem_nil_iff, or_false, not_or] at hc
  obtain ⟨c1, c2, c3, c4, c5, c6, c7⟩ := hc
  unfold lexStep lexQuoted lexTop lexPlain
  simp only [ht, Nat.lt_irrefl, if_false, hq]
  have f1 : (ci.c == '%') = false := by simpa using c1
  have f2 : (ci.c == '{') = false := by simpa using c2
  have f3 : (ci.c == '`') = false := by simpa using c3
  have f4 : (ci.c == '(') = false := by simpa using c4
  have f5 : (ci.c == '[') = false := by simpa using c5
  have f6 : (ci.c == ')') = false := by simpa using c6
  have f7 : (ci.c == ']') = false := by simpa using c7
  simp only [f1, f2, f3, f4, f5, f6, f7, Bool.false_eq_true, if_false, Bool.or_self, hsp, if_true]
  rcases hp with hp | hp
  · simp [hp]
  · simp [hp]

/-- unquoted whitespace after a name, value or Python token ends that token (and nothing else) -/
theorem whitespace_flushes (s : LexState) (i : Nat) (ci : CharInfo)
    (hq : s.qc = []) (ht : s.take = 0) (hsp : ci.space = true)
    (hc : ci.c ∉ ['%', '{', '`', '(', '[', ')', ']'])
    (hp : s.tok.nonempty = true ∧ s.tok.kind ≠ some .operator) :
    lexStep s i ci = .ok { s with out := s.tok :: s.out, tok := Tok.fresh } := by
  simp only [List.mem_cons, List.mem_nil_iff, or_false, not_or] at hc
  obtain ⟨c1, c2, c3, c4, c5, c6, c7⟩ := hc
  unfold lexStep lexQuoted lexTop lexPlain
  simp only [ht, Nat.lt_irrefl, if_false, hq]
  have f1 : (ci.c == '%') = false := by simpa using c1
  have f2 : (ci.c == '{') = false := by simpa using c2
  have f3 : (ci.c == '`') = false := by simpa using c3
  have f4 : (ci.c == '(') = false := by simpa using c4
  have f5 : (ci.c == '[') = false := by simpa using c5
  have f6 : (ci.c == ')') = false := by simpa using c6
  have f7 : (ci.c == ']') = false := by simpa using c7
  simp only [f1, f2, f3, f4, f5, f6, f7, Bool.false_eq_true, if_false, Bool.or_self, hsp, if_true]
  have hk : (s.tok.kind != some TKind.operator) = true := by simpa using hp.2
  simp [LexState.flush, hp.1, hk, hq, ht]

end FormulaicVerif.Proofs.C15
