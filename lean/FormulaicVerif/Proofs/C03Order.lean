import FormulaicVerif.Proofs.C03
/-! C03: the set of structural components that `_get_scoped_terms` emits does not depend on the order of the
terms, nor on whether `_cluster_terms` regroups them. Core Lean only. -/
namespace FormulaicVerif.Proofs.C03Order
open FormulaicVerif.Model FormulaicVerif.Spec FormulaicVerif.Proofs.C03 FormulaicVerif.Proofs.C02

theorem clusterAdd_perm (cl : List (List String × List MTerm)) (k : List String) (t : MTerm) :
    ((clusterAdd cl k t).flatMap (·.2)).Perm (cl.flatMap (·.2) ++ [t]) := by
  induction cl with
  | nil => simp [clusterAdd]
  | cons g r ih =>
    obtain ⟨k', ts⟩ := g
    simp only [clusterAdd]
    split
    · simp only [List.flatMap_cons, List.append_assoc]
      exact List.Perm.append_left ts List.perm_append_comm
    · simp only [List.flatMap_cons, List.append_assoc]
      exact List.Perm.append_left ts ih

theorem clusterLoop_perm {c : Cache} {cl out : List (List String × List MTerm)} {ts : List MTerm}
    (h : clusterLoop c cl ts = .ok out) : (out.flatMap (·.2)).Perm (cl.flatMap (·.2) ++ ts) := by
  induction ts generalizing cl with
  | nil => simp [clusterLoop] at h; subst h; simp
  | cons t r ih =>
    simp only [clusterLoop] at h
    cases hk : numericalKey c t with
    | error e => simp [hk] at h
    | ok k =>
      simp only [hk] at h
      refine (ih h).trans ?_
      have := (clusterAdd_perm cl k t).append_right r
      simpa [List.append_assoc] using this

/-- `_cluster_terms` only reorders the terms -/
theorem clusterTerms_perm {c : Cache} {b : Bool} {ts out : List MTerm} (h : clusterTerms c b ts = .ok out) :
    out.Perm ts := by
  unfold clusterTerms at h
  cases b with
  | false => simp at h; subst h; exact List.Perm.refl _
  | true =>
    simp only [Bool.not_true, Bool.false_eq_true, if_false] at h
    cases hl : clusterLoop c [] ts with
    | error e => simp [hl] at h
    | ok cl =>
      simp only [hl, Except.ok.injEq] at h
      subst h
      simpa using clusterLoop_perm hl

/-- the components emitted for a term list, up to order, are a function of the SET of terms -/
theorem newKeys_perm {c : Cache} {ts ts' : List MTerm} (hp : ts.Perm ts') (hwf : ∀ t ∈ ts, t.Nodup) :
    (newKeys c [] ts).Perm (newKeys c [] ts') := by
  have hwf' : ∀ t ∈ ts', t.Nodup := fun t ht => hwf t (hp.mem_iff.mpr ht)
  obtain ⟨n1, m1⟩ := newKeys_spec c ts [] hwf
  obtain ⟨n2, m2⟩ := newKeys_spec c ts' [] hwf'
  rw [List.perm_ext_iff_of_nodup n1 n2]
  intro k
  rw [m1, m2]
  simp only [List.mem_flatMap, List.not_mem_nil, not_false_eq_true, and_true]
  constructor
  · rintro ⟨t, ht, hk⟩; exact ⟨t, hp.mem_iff.mp ht, hk⟩
  · rintro ⟨t, ht, hk⟩; exact ⟨t, hp.mem_iff.mpr ht, hk⟩

/-- the components of the structure emitted with rank reduction on, up to order -/
theorem structure_comps {cfg : Config} (hefr : cfg.ensureFullRank = true) (hwf : ∀ t ∈ cfg.terms, t.Nodup)
    (hsc : ∀ t ∈ cfg.terms, ∀ efs, evaledFactors cfg.cache t = .ok efs → literalScale efs ≠ 0)
    {rs : List TermResult} (h : buildStructure cfg = .ok rs) :
    (compsAll (spansOf cfg.cache) (rs.flatMap (·.sts))).Perm (newKeys cfg.cache [] cfg.terms) := by
  obtain ⟨terms, scp, hc, hg, hb⟩ := buildStructure_spec h
  have hperm := clusterTerms_perm hc
  have hmem : ∀ t ∈ terms, t ∈ cfg.terms := fun t ht => hperm.mem_iff.mp ht
  rw [hefr] at hg
  have hp := getScopedTerms_true hg (by simp) (fun t ht => hwf t (hmem t ht))
    (fun t ht efs he => by rw [scaleOf_eq_literalScale]; exact hsc t (hmem t ht) efs he)
  have hst : rs.flatMap (·.sts) = scp.flatMap (·.2) := by
    rw [← (buildTerms_spec hb).1, List.flatMap_map]
  rw [hst]
  exact hp.trans (newKeys_perm hperm (fun t ht => hwf t (hmem t ht)))

end FormulaicVerif.Proofs.C03Order
