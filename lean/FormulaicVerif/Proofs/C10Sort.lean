import FormulaicVerif.Model.SpecMeta
/-! Python `sorted` on strings (`sortStrs`) does not depend on the order of its input:
`strLt` is a strict total order, so insertions commute. Used to read `Term` equality
(`sorted exprs` equal) as "same factors in any order". -/
namespace FormulaicVerif.Proofs.C10
open FormulaicVerif.Model.SpecMeta

theorem char_eq_of_not_lt {a b : Char} (h1 : ¬ a.val < b.val) (h2 : ¬ b.val < a.val) : a = b := by
  apply Char.ext
  apply UInt32.le_antisymm
  · exact UInt32.not_lt.mp h2
  · exact UInt32.not_lt.mp h1

theorem strLt_asymm : ∀ (a b : Str), strLt a b = true → strLt b a = false
  | [], [], h => by simp [strLt] at h
  | [], _ :: _, _ => by simp [strLt]
  | _ :: _, [], h => by simp [strLt] at h
  | a :: as, b :: bs, h => by
    simp only [strLt] at h ⊢
    by_cases h1 : a.val < b.val
    · have h2 : ¬ b.val < a.val := fun h2 => absurd (UInt32.lt_trans h1 h2) (UInt32.lt_irrefl _)
      simp [h2, h1]
    · by_cases h2 : b.val < a.val
      · simp [h1, h2] at h
      · simp only [h1, h2, if_false] at h ⊢
        exact strLt_asymm as bs h

theorem strLt_trans : ∀ (a b c : Str), strLt a b = true → strLt b c = true → strLt a c = true
  | [], [], _, h, _ => by simp [strLt] at h
  | [], _ :: _, [], _, h => by simp [strLt] at h
  | [], _ :: _, _ :: _, _, _ => by simp [strLt]
  | _ :: _, [], _, h, _ => by simp [strLt] at h
  | _ :: _, _ :: _, [], _, h => by simp [strLt] at h
  | a :: as, b :: bs, c :: cs, h1, h2 => by
    simp only [strLt] at h1 h2 ⊢
    by_cases hab : a.val < b.val
    · by_cases hbc : b.val < c.val
      · simp [UInt32.lt_trans hab hbc]
      · by_cases hcb : c.val < b.val
        · simp [hbc, hcb] at h2
        · have : b = c := char_eq_of_not_lt hbc hcb
          subst this; simp [hab]
    · by_cases hba : b.val < a.val
      · simp [hab, hba] at h1
      · have : a = b := char_eq_of_not_lt hab hba
        subst this
        simp only [hab, if_false] at h1
        by_cases hbc : a.val < c.val
        · simp [hbc]
        · by_cases hcb : c.val < a.val
          · simp [hbc, hcb] at h2
          · simp only [hbc, hcb, if_false] at h2 ⊢
            exact strLt_trans as bs cs h1 h2

theorem strLt_total : ∀ (a b : Str), strLt a b = false → strLt b a = false → a = b
  | [], [], _, _ => rfl
  | [], _ :: _, h, _ => by simp [strLt] at h
  | _ :: _, [], _, h => by simp [strLt] at h
  | a :: as, b :: bs, h1, h2 => by
    simp only [strLt] at h1 h2
    by_cases hab : a.val < b.val
    · simp [hab] at h1
    · by_cases hba : b.val < a.val
      · simp [hba] at h2
      · have : a = b := char_eq_of_not_lt hab hba
        subst this
        simp only [hab, if_false] at h1 h2
        rw [strLt_total as bs h1 h2]

theorem insertStr_comm (x z : Str) (l : List Str) :
    insertStr x (insertStr z l) = insertStr z (insertStr x l) := by
  induction l with
  | nil =>
    simp only [insertStr]
    by_cases hxz : strLt x z = true
    · simp [hxz, strLt_asymm x z hxz]
    · by_cases hzx : strLt z x = true
      · simp [hxz, hzx]
      · have := strLt_total x z (by simpa using hxz) (by simpa using hzx)
        subst this; rfl
  | cons y l ih =>
    by_cases hzy : strLt z y = true <;> by_cases hxy : strLt x y = true
    · simp only [insertStr, hzy, hxy, if_true]
      by_cases hxz : strLt x z = true
      · simp [hxz, strLt_asymm x z hxz]
      · by_cases hzx : strLt z x = true
        · simp [hxz, hzx]
        · have := strLt_total x z (by simpa using hxz) (by simpa using hzx)
          subst this; rfl
    · have hxz : strLt x z = false := by
        cases h : strLt x z with
        | false => rfl
        | true => exact absurd (strLt_trans x z y h hzy) hxy
      simp [insertStr, hzy, hxy, hxz]
    · have hzx : strLt z x = false := by
        cases h : strLt z x with
        | false => rfl
        | true => exact absurd (strLt_trans z x y h hxy) hzy
      simp [insertStr, hzy, hxy, hzx]
    · simp [insertStr, hzy, hxy, ih]

/-- `sorted` does not depend on the order of its input: equal factor sets give equal `Term`s -/
theorem sortStrs_perm {u v : List Str} (h : u.Perm v) : sortStrs u = sortStrs v := by
  induction h with
  | nil => rfl
  | cons x _ ih => simp only [sortStrs, List.foldr_cons] at ih ⊢; rw [ih]
  | swap x y l => simp only [sortStrs, List.foldr_cons]; exact insertStr_comm y x _
  | trans _ _ ih1 ih2 => exact ih1.trans ih2

end FormulaicVerif.Proofs.C10
