import FormulaicVerif.Model.Materialize
import FormulaicVerif.Model.Term
/-! Insertion sort with a total preorder: permutation, sortedness, canonical form. Core Lean only. -/
namespace FormulaicVerif.Proofs.Sort
open FormulaicVerif.Model

/-- generic stable insertion: before the first element that is not strictly smaller -/
def ins {α} (le : α → α → Bool) (x : α) : List α → List α
  | [] => [x]
  | y :: ys => if le x y then x :: y :: ys else y :: ins le x ys

def isort {α} (le : α → α → Bool) (xs : List α) : List α := xs.foldr (ins le) []

structure TotalOrder {α} (le : α → α → Bool) : Prop where
  total : ∀ a b, le a b = true ∨ le b a = true
  trans : ∀ a b c, le a b = true → le b c = true → le a c = true
  antisymm : ∀ a b, le a b = true → le b a = true → a = b

variable {α : Type} {le : α → α → Bool}

theorem ins_perm (x : α) (l : List α) : (ins le x l).Perm (x :: l) := by
  induction l with
  | nil => exact List.Perm.refl _
  | cons y r ih =>
    simp only [ins]
    split
    · exact List.Perm.refl _
    · exact (ih.cons y).trans (List.Perm.swap x y r)

theorem isort_perm (l : List α) : (isort le l).Perm l := by
  induction l with
  | nil => exact List.Perm.refl _
  | cons x r ih => exact (ins_perm x _).trans (ih.cons x)

theorem ins_sorted (h : TotalOrder le) (x : α) (l : List α) (hs : l.Pairwise (fun a b => le a b = true)) :
    (ins le x l).Pairwise (fun a b => le a b = true) := by
  induction l with
  | nil => simp [ins]
  | cons y r ih =>
    rw [List.pairwise_cons] at hs
    simp only [ins]
    split
    · rename_i hxy
      rw [List.pairwise_cons]
      refine ⟨?_, List.pairwise_cons.mpr hs⟩
      intro z hz
      simp only [List.mem_cons] at hz
      rcases hz with rfl | hz
      · exact hxy
      · exact h.trans _ _ _ hxy (hs.1 z hz)
    · rename_i hxy
      have hyx : le y x = true := by
        rcases h.total x y with h' | h'
        · exact absurd h' hxy
        · exact h'
      rw [List.pairwise_cons]
      refine ⟨?_, ih hs.2⟩
      intro z hz
      have := (ins_perm (le := le) x r).mem_iff.mp hz
      simp only [List.mem_cons] at this
      rcases this with rfl | hz'
      · exact hyx
      · exact hs.1 z hz'

theorem isort_sorted (h : TotalOrder le) (l : List α) : (isort le l).Pairwise (fun a b => le a b = true) := by
  induction l with
  | nil => simp [isort]
  | cons x r ih => exact ins_sorted h x _ ih

/-- sorting is canonical: permutations sort to the same list -/
theorem isort_eq_of_perm (h : TotalOrder le) {l₁ l₂ : List α} (p : l₁.Perm l₂) : isort le l₁ = isort le l₂ := by
  apply List.Perm.eq_of_pairwise (le := fun a b => le a b = true)
  · intro a b _ _ hab hba; exact h.antisymm a b hab hba
  · exact isort_sorted h l₁
  · exact isort_sorted h l₂
  · exact ((isort_perm l₁).trans p).trans (isort_perm l₂).symm

theorem isort_eq_iff_perm (h : TotalOrder le) {l₁ l₂ : List α} : isort le l₁ = isort le l₂ ↔ l₁.Perm l₂ := by
  constructor
  · intro e
    have h1 := isort_perm (le := le) l₁
    have h2 := isort_perm (le := le) l₂
    rw [e] at h1
    exact h1.symm.trans h2
  · exact isort_eq_of_perm h

/-! ### strings -/

def sle (a b : String) : Bool := decide (a ≤ b)

theorem sle_total : TotalOrder sle where
  total a b := by
    simp only [sle, decide_eq_true_eq]
    exact String.le_total a b
  trans a b c := by
    simp only [sle, decide_eq_true_eq]
    exact String.le_trans
  antisymm a b := by
    simp only [sle, decide_eq_true_eq]
    exact String.le_antisymm

theorem insertSorted_eq (x : String) (l : List String) : insertSorted x l = ins sle x l := by
  induction l with
  | nil => rfl
  | cons y r ih =>
    simp only [insertSorted, ins, sle, decide_eq_true_eq, ih]

theorem sortStrings_eq (l : List String) : sortStrings l = isort sle l := by
  unfold sortStrings isort
  induction l with
  | nil => rfl
  | cons x r ih => simp only [List.foldr_cons, ih, insertSorted_eq]

theorem sortStrings_perm (l : List String) : (sortStrings l).Perm l := by
  rw [sortStrings_eq]; exact isort_perm l

theorem sortStrings_eq_iff_perm {l₁ l₂ : List String} : sortStrings l₁ = sortStrings l₂ ↔ l₁.Perm l₂ := by
  rw [sortStrings_eq, sortStrings_eq]; exact isort_eq_iff_perm sle_total

/-! ### scoped factors -/

def sfle (a b : SF) : Bool := !SF.lt b a

theorem SF.insert_eq (x : SF) (l : List SF) : SF.insert x l = ins sfle x l := by
  induction l with
  | nil => rfl
  | cons y r ih =>
    simp only [SF.insert, ins, sfle, ih]
    by_cases hlt : SF.lt y x = true
    · simp [hlt]
    · simp [hlt]

theorem SF.sort_eq (l : List SF) : SF.sort l = isort sfle l := by
  unfold SF.sort isort
  induction l with
  | nil => rfl
  | cons x r ih => simp only [List.foldr_cons, ih, SF.insert_eq]

theorem sfle_iff (a b : SF) : sfle a b = true ↔
    (a.expr = b.expr ∧ (b.reduced = true → a.reduced = true)) ∨ (a.expr ≠ b.expr ∧ a.expr ≤ b.expr) := by
  unfold sfle SF.lt
  by_cases h : b.expr = a.expr
  · have h' : a.expr = b.expr := h.symm
    simp only [h, if_true, ne_eq, not_true_eq_false, false_and, or_false, true_and]
    cases a.reduced <;> cases b.reduced <;> simp
  · have h' : ¬ a.expr = b.expr := fun e => h e.symm
    simp only [h, if_false, h', false_and, false_or, ne_eq, not_false_eq_true, true_and,
      Bool.not_eq_true', decide_eq_false_iff_not, String.not_lt]

theorem sfle_total : TotalOrder sfle where
  total a b := by
    simp only [sfle_iff]
    by_cases h : a.expr = b.expr
    · cases ha : a.reduced <;> cases hb : b.reduced <;> simp [h]
    · have h' : ¬ b.expr = a.expr := fun e => h e.symm
      rcases String.le_total a.expr b.expr with h1 | h1
      · exact .inl (.inr ⟨h, h1⟩)
      · exact .inr (.inr ⟨h', h1⟩)
  trans a b c := by
    simp only [sfle_iff]
    rintro (⟨e1, r1⟩ | ⟨n1, l1⟩) (⟨e2, r2⟩ | ⟨n2, l2⟩)
    · exact .inl ⟨e1.trans e2, fun h => r1 (r2 h)⟩
    · exact .inr ⟨by rw [e1]; exact n2, by rw [e1]; exact l2⟩
    · exact .inr ⟨by rw [← e2]; exact n1, by rw [← e2]; exact l1⟩
    · by_cases hac : a.expr = c.expr
      · exfalso
        rw [← hac] at l2
        exact n1 (String.le_antisymm l1 l2)
      · exact .inr ⟨hac, String.le_trans l1 l2⟩
  antisymm a b := by
    simp only [sfle_iff]
    rintro (⟨e1, r1⟩ | ⟨n1, l1⟩) (⟨e2, r2⟩ | ⟨n2, l2⟩)
    · cases a with | mk ae ar => cases b with | mk be br =>
      simp only at e1 r1 r2
      subst e1
      congr 1
      cases ar <;> cases br <;> simp_all
    · exact absurd e1.symm n2
    · exact absurd e2.symm n1
    · exact absurd (String.le_antisymm l1 l2) n1

theorem ST.eq_iff_perm (a b : ST) : ST.eq a b = true ↔ a.factors.Perm b.factors := by
  simp only [ST.eq, beq_iff_eq, SF.sort_eq]
  exact isort_eq_iff_perm sfle_total

end FormulaicVerif.Proofs.Sort
