import FormulaicVerif.Spec.BSpline
import Mathlib.Algebra.BigOperators.Group.Finset.Basic
import Mathlib.Algebra.BigOperators.Ring.Finset
import Mathlib.Tactic.Ring
import Mathlib.Tactic.Linarith
/-! Helper lemmas for C12 about the reference Cox–de Boor recursion over an arbitrary linearly
ordered field (not obligations): local support, partition of unity and non-negativity of the
recursion started from a unit row, and the fact that on a padded non-decreasing knot vector the
degree-0 row IS a unit row. -/

namespace FormulaicVerif.Proofs.C12
open FormulaicVerif.Spec.BSpline
variable {α : Type} [Field α] [LinearOrder α]


theorem B_support (t : ℕ → α) (j : ℕ) (x : α) :
    ∀ k i, B t (unit j) x k i ≠ 0 → i ≤ j ∧ j ≤ i + k
  | 0, i, h => by
    simp only [B, unit] at h
    split at h
    · omega
    · exact absurd rfl h
  | k + 1, i, h => by
    by_contra hc
    have h1 : B t (unit j) x k i = 0 := by
      by_contra hn; have := B_support t j x k i hn; omega
    have h2 : B t (unit j) x k (i + 1) = 0 := by
      by_contra hn; have := B_support t j x k (i + 1) hn; omega
    apply h; simp only [B, h1, h2]; ring

theorem B_zero_of_zero (t : ℕ → α) (x : α) (b0 : ℕ → α) (h0 : ∀ i, b0 i = 0) :
    ∀ k i, B t b0 x k i = 0
  | 0, i => h0 i
  | k + 1, i => by simp only [B, B_zero_of_zero t x b0 h0 k]; ring

open Finset in
theorem B_sum_unit (t : ℕ → α) (j : ℕ) (x : α) (N : ℕ) (hN : j < N) :
    ∀ k, k ≤ j → ∑ i ∈ range N, B t (unit j) x k i = 1
  | 0, _ => by
    simp only [B, unit]
    rw [Finset.sum_ite_eq' (range N) j (fun _ => (1 : α))]
    simp [hN]
  | k + 1, hk => by
    have ih := B_sum_unit t j x N hN k (by omega)
    have hz0 : B t (unit j) x k 0 = 0 := by
      by_contra hn; have := B_support t j x k 0 hn; omega
    have hzN : B t (unit j) x k N = 0 := by
      by_contra hn; have := B_support t j x k N hn; omega
    simp only [B]
    rw [Finset.sum_add_distrib]
    have e2 : ∑ i ∈ range N, (1 - omega t (i + 1) (k + 1) x) * B t (unit j) x k (i + 1)
        = ∑ i ∈ range N, (1 - omega t i (k + 1) x) * B t (unit j) x k i := by
      have a := Finset.sum_range_succ' (fun i => (1 - omega t i (k + 1) x) * B t (unit j) x k i) N
      have b := Finset.sum_range_succ (fun i => (1 - omega t i (k + 1) x) * B t (unit j) x k i) N
      simp only [hz0, hzN, mul_zero, add_zero] at a b
      rw [← a, b]
    rw [e2, ← Finset.sum_add_distrib]
    refine Eq.trans (Finset.sum_congr rfl ?_) ih
    intro i _; ring


theorem omega_nonneg [IsStrictOrderedRing α] (t : ℕ → α) (i k : ℕ) (x : α)
    (h1 : t i ≤ x) (h2 : x ≤ t (i + k)) : 0 ≤ omega t i k x := by
  unfold omega
  split
  · exact div_nonneg (sub_nonneg.2 h1) (sub_nonneg.2 (le_trans h1 h2))
  · exact le_refl _

theorem omega_le_one [IsStrictOrderedRing α] (t : ℕ → α) (i k : ℕ) (x : α)
    (h1 : t i ≤ x) (h2 : x ≤ t (i + k)) : omega t i k x ≤ 1 := by
  unfold omega
  split
  · rename_i hne
    have hlt : t i < t (i + k) := lt_of_le_of_ne (le_trans h1 h2) (Ne.symm hne)
    rw [div_le_one (sub_pos.2 hlt)]
    linarith
  · exact zero_le_one

theorem B_nonneg [IsStrictOrderedRing α] (t : ℕ → α) (n j : ℕ) (x : α)
    (hlo : ∀ i, i ≤ j → t i ≤ x) (hhi : ∀ i, j < i → i < n → x ≤ t i) :
    ∀ k i, i + k + 1 < n → 0 ≤ B t (unit j) x k i
  | 0, i, _ => by
    simp only [B, unit]; split <;> simp
  | k + 1, i, hi => by
    simp only [B]
    have ih1 := B_nonneg t n j x hlo hhi k i (by omega)
    have ih2 := B_nonneg t n j x hlo hhi k (i + 1) (by omega)
    apply add_nonneg
    · by_cases hz : B t (unit j) x k i = 0
      · rw [hz, mul_zero]
      · have hs := B_support t j x k i hz
        exact mul_nonneg (omega_nonneg t i (k + 1) x (hlo i hs.1) (hhi _ (by omega) (by omega))) ih1
    · by_cases hz : B t (unit j) x k (i + 1) = 0
      · rw [hz, mul_zero]
      · have hs := B_support t j x k (i + 1) hz
        have := omega_le_one t (i + 1) (k + 1) x (hlo _ hs.1) (hhi _ (by omega) (by omega))
        exact mul_nonneg (by linarith) ih2




/-- a padded, non-decreasing knot vector of length `n` for degree `d`; `[t_d, t_r]` is the basic interval -/
structure Padded (t : ℕ → α) (n d r : ℕ) : Prop where
  hr : r + d + 1 = n
  hd : d < r
  mono : ∀ i j, i ≤ j → j < n → t i ≤ t j
  left : ∀ i, i ≤ d → t i = t d
  right : ∀ i, r ≤ i → i < n → t i = t r

omit [Field α] in
/-- discrete intermediate value: between `a` and `b` some consecutive pair brackets `x` -/
theorem bracket (t : ℕ → α) (x : α) (a : ℕ) :
    ∀ b, a < b → t a ≤ x → x < t b → ∃ j, a ≤ j ∧ j < b ∧ t j ≤ x ∧ x < t (j + 1)
  | 0, h, _, _ => absurd h (Nat.not_lt_zero _)
  | b + 1, h, ha, hb => by
    by_cases hx : x < t b
    · by_cases hab : a < b
      · obtain ⟨j, h1, h2, h3, h4⟩ := bracket t x a b hab ha hx
        exact ⟨j, h1, by omega, h3, h4⟩
      · have : a = b := by omega
        subst this
        exact absurd ha (not_le.2 hx)
    · exact ⟨b, by omega, by omega, not_lt.1 hx, hb⟩

/-- Inside the closed basic interval the degree-0 row (closed right boundary) is a unit row `e_j`
with `d ≤ j < r`, every knot up to `j` is `≤ x` and every later knot is `≥ x`. -/
theorem b0_unit_inside {t : ℕ → α} {n d r : ℕ} (P : Padded t n d r) (x : α)
    (h1 : t d ≤ x) (h2 : x ≤ t r) :
    ∃ j, d ≤ j ∧ j < r ∧ (∀ i, b0 t n d r false x i = unit j i) ∧
      (∀ i, i ≤ j → t i ≤ x) ∧ (∀ i, j < i → i < n → x ≤ t i) ∧ t j ≤ x ∧ x ≤ t (j + 1) := by
  have hr := P.hr
  have hd := P.hd
  by_cases hx : x < t r
  · obtain ⟨j, ja, jb, jc, jd⟩ := bracket t x d r hd h1 hx
    refine ⟨j, ja, jb, ?_, fun i hi => le_trans (P.mono i j hi (by omega)) jc,
      fun i hi hin => le_trans (le_of_lt jd) (P.mono (j + 1) i hi hin), jc, le_of_lt jd⟩
    intro i
    unfold b0 ind unit
    by_cases hin : i + 1 < n
    · simp only [hin, if_true, Bool.false_eq_true, if_false]
      by_cases hij : i = j
      · subst hij
        simp only [if_true]
        rw [if_pos]
        refine ⟨jc, ?_⟩
        split
        · exact le_of_lt jd
        · exact jd
      · simp only [hij, if_false]
        rw [if_neg]
        rintro ⟨c1, c2⟩
        by_cases hlt : i < j
        · have hle : t (i + 1) ≤ x := le_trans (P.mono (i + 1) j (by omega) (by omega)) jc
          split at c2
          · omega
          · exact absurd c2 (not_lt.2 hle)
        · have : x < t i := lt_of_lt_of_le jd (P.mono (j + 1) i (by omega) (by omega))
          exact absurd c1 (not_le.2 this)
    · have : i ≠ j := by omega
      simp [hin, this]
  · have hxr : x = t r := le_antisymm h2 (not_lt.1 hx)
    refine ⟨r - 1, by omega, by omega, ?_, fun i hi => hxr ▸ P.mono i r (by omega) (by omega),
      fun i hi hin => by rw [hxr, P.right i (by omega) hin],
      hxr ▸ P.mono (r - 1) r (by omega) (by omega), by rw [show r - 1 + 1 = r by omega]; exact h2⟩
    intro i
    unfold b0 ind unit
    by_cases hin : i + 1 < n
    · simp only [hin, if_true, Bool.false_eq_true, if_false]
      by_cases hij : i = r - 1
      · have e : i + 1 = r := by omega
        simp only [hij, if_true]
        rw [if_pos]
        rw [show r - 1 + 1 = r by omega]
        simp only [if_true]
        exact ⟨hxr ▸ P.mono (r - 1) r (by omega) (by omega), h2⟩
      · simp only [hij, if_false]
        rw [if_neg]
        rintro ⟨c1, c2⟩
        have hne : i + 1 ≠ r := by omega
        simp only [hne, if_false] at c2
        by_cases hlt : i + 1 < r
        · exact absurd c2 (not_lt.2 (hxr ▸ P.mono (i + 1) r (by omega) (by omega)))
        · rw [P.right (i + 1) (by omega) hin, hxr] at c2
          exact lt_irrefl _ c2
    · have : i ≠ r - 1 := by omega
      simp [hin, this]


/-- With the extension the degree-0 row is a unit row for EVERY `x`: `e_d` below the basic
interval, `e_{r-1}` at and above its right end, and the bracketing interval in between. -/
theorem b0_unit_ext {t : ℕ → α} {n d r : ℕ} (P : Padded t n d r) (x : α) :
    ∃ j, d ≤ j ∧ j < r ∧ (∀ i, b0 t n d r true x i = unit j i) ∧
      (x < t d → j = d) ∧ (t r ≤ x → j = r - 1) ∧
      (t d ≤ x → x < t r → t j ≤ x ∧ x < t (j + 1)) := by
  have hr := P.hr
  have hd := P.hd
  by_cases hlo : x < t d
  · refine ⟨d, le_refl _, hd, ?_, fun _ => rfl,
      fun h => absurd (lt_of_lt_of_le hlo (le_trans (P.mono d r (by omega) (by omega)) h)) (lt_irrefl _),
      fun h => absurd hlo (not_lt.2 h)⟩
    intro i
    unfold b0 indExt unit
    by_cases hin : i + 1 < n
    · simp only [hin, if_true]
      by_cases hij : i = d
      · subst hij
        simp only [true_or, true_and, if_true]
        rw [if_pos]
        exact Or.inr (lt_of_lt_of_le hlo (P.mono i (i + 1) (by omega) (by omega)))
      · simp only [hij, false_or, if_false]
        rw [if_neg]
        rintro ⟨c1, _⟩
        by_cases hlt : i < d
        · rw [P.left i (by omega)] at c1
          exact absurd c1 (not_le.2 hlo)
        · exact absurd (le_trans (P.mono d i (by omega) (by omega)) c1) (not_le.2 hlo)
    · have : i ≠ d := by omega
      simp [hin, this]
  · have hlo' : t d ≤ x := not_lt.1 hlo
    by_cases hx : x < t r
    · obtain ⟨j, ja, jb, jc, jd⟩ := bracket t x d r hd hlo' hx
      refine ⟨j, ja, jb, ?_, fun h => absurd h hlo, fun h => absurd hx (not_lt.2 h),
        fun _ _ => ⟨jc, jd⟩⟩
      intro i
      unfold b0 indExt unit
      by_cases hin : i + 1 < n
      · simp only [hin, if_true]
        by_cases hij : i = j
        · subst hij
          simp only [if_true]
          rw [if_pos]
          exact ⟨Or.inr jc, Or.inr jd⟩
        · simp only [hij, if_false]
          rw [if_neg]
          rintro ⟨c1, c2⟩
          by_cases hlt : i < j
          · rcases c2 with c2 | c2
            · omega
            · exact absurd c2 (not_lt.2 (le_trans (P.mono (i + 1) j (by omega) (by omega)) jc))
          · rcases c1 with c1 | c1
            · omega
            · exact absurd c1 (not_le.2 (lt_of_lt_of_le jd (P.mono (j + 1) i (by omega) (by omega))))
      · have : i ≠ j := by omega
        simp [hin, this]
    · have hxr : t r ≤ x := not_lt.1 hx
      refine ⟨r - 1, by omega, by omega, ?_, fun h => absurd h hlo, fun _ => rfl,
        fun _ h => absurd h hx⟩
      intro i
      unfold b0 indExt unit
      by_cases hin : i + 1 < n
      · simp only [hin, if_true]
        by_cases hij : i = r - 1
        · have e : i + 1 = r := by omega
          simp only [hij, if_true]
          rw [if_pos]
          refine ⟨Or.inr (le_trans (P.mono (r - 1) r (by omega) (by omega)) hxr), Or.inl (by omega)⟩
        · simp only [hij, if_false]
          rw [if_neg]
          rintro ⟨_, c2⟩
          rcases c2 with c2 | c2
          · omega
          · by_cases hlt : i + 1 < r
            · exact absurd c2 (not_lt.2 (le_trans (P.mono (i + 1) r (by omega) (by omega)) hxr))
            · rw [P.right (i + 1) (by omega) hin] at c2
              exact absurd c2 (not_lt.2 hxr)
      · have : i ≠ r - 1 := by omega
        simp [hin, this]

/-- Outside the basic interval the degree-0 row without extension is identically zero. -/
theorem b0_zero_outside {t : ℕ → α} {n d r : ℕ} (P : Padded t n d r) (x : α)
    (h : x < t d ∨ t r < x) : ∀ i, b0 t n d r false x i = 0 := by
  have hr := P.hr
  have hd := P.hd
  intro i
  unfold b0 ind
  by_cases hin : i + 1 < n
  · simp only [hin, if_true, Bool.false_eq_true, if_false]
    rw [if_neg]
    rintro ⟨c1, c2⟩
    rcases h with h | h
    · by_cases hlt : i < d
      · rw [P.left i (by omega)] at c1
        exact absurd c1 (not_le.2 h)
      · exact absurd (le_trans (P.mono d i (by omega) (by omega)) c1) (not_le.2 h)
    · have hle : t (i + 1) ≤ t r := by
        by_cases hlt : i + 1 ≤ r
        · exact P.mono (i + 1) r hlt (by omega)
        · exact le_of_eq (P.right (i + 1) (by omega) hin)
      split at c2
      · exact absurd (le_trans c2 hle) (not_le.2 h)
      · exact absurd (lt_of_lt_of_le c2 hle) (not_lt.2 (le_of_lt h))
  · simp [hin]


/-- inside the closed basic interval the extension changes nothing in the degree-0 row -/
theorem b0_ext_eq_inside (t : ℕ → α) (n d r : ℕ) (x : α)
    (h1 : t d ≤ x) (h2 : x ≤ t r) (i : ℕ) : b0 t n d r true x i = b0 t n d r false x i := by
  unfold b0 indExt ind
  by_cases hin : i + 1 < n
  · simp only [hin, if_true, Bool.false_eq_true, if_false]
    have e1 : (i = d ∨ t i ≤ x) ↔ t i ≤ x := by
      constructor
      · rintro (rfl | h)
        · exact h1
        · exact h
      · exact Or.inr
    have e2 : (i + 1 = r ∨ x < t (i + 1)) ↔ (if i + 1 = r then x ≤ t (i + 1) else x < t (i + 1)) := by
      by_cases hr : i + 1 = r
      · simp only [hr, true_or, if_true, true_iff]; exact h2
      · simp [hr]
    simp only [e1, e2]
  · simp [hin]


end FormulaicVerif.Proofs.C12
