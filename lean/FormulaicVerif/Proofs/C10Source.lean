import FormulaicVerif.Proofs.C10Factors
/-! Helper lemmas for C10: `variables_by_source`, `required_variables`; rows are determined by their
terms. -/
namespace FormulaicVerif.Proofs.C10
open FormulaicVerif.Model.SpecMeta

abbrev BySrc := List (Option Str × List Str)

def lookupSrc (d : BySrc) (src : Option Str) : Option (List Str) := (d.find? (fun e => e.1 == src)).map (·.2)

theorem lookupSrc_cons (k : Option Str) (vs : List Str) (d : BySrc) (src : Option Str) :
    lookupSrc ((k, vs) :: d) src = if k = src then some vs else lookupSrc d src := by
  unfold lookupSrc
  by_cases h : k = src
  · rw [List.find?_cons_of_pos (by simpa using h)]; simp [h]
  · rw [List.find?_cons_of_neg (by simpa using h)]; simp [h]

theorem addBySource_lookup (d : BySrc) (src src' : Option Str) (v : Str) :
    lookupSrc (addBySource d src v) src' =
      if src = src' then some (addStr ((lookupSrc d src').getD []) v) else lookupSrc d src' := by
  induction d with
  | nil =>
    by_cases h : src = src'
    · subst h; simp [addBySource, lookupSrc, addStr]
    · simp [addBySource, lookupSrc, h]
  | cons e d ih =>
    obtain ⟨k, vs⟩ := e
    by_cases hk : k = src
    · subst hk
      simp only [addBySource, beq_self_eq_true, if_true, lookupSrc_cons]
      by_cases h : k = src' <;> simp [h]
    · simp only [addBySource, beq_iff_eq, hk, if_false, lookupSrc_cons, ih]
      by_cases h' : k = src'
      · subst h'
        have : src ≠ k := fun e => hk e.symm
        simp [this]
      · simp [h']

theorem addBySource_keys (d : BySrc) (src : Option Str) (v : Str) :
    (addBySource d src v).map (·.1) = if src ∈ d.map (·.1) then d.map (·.1) else d.map (·.1) ++ [src] := by
  induction d with
  | nil => simp [addBySource]
  | cons e d ih =>
    obtain ⟨k, vs⟩ := e
    by_cases hk : k = src
    · subst hk; simp [addBySource]
    · have hsk : src ≠ k := fun e => hk e.symm
      simp only [addBySource, beq_iff_eq, hk, if_false, List.map_cons, ih, List.mem_cons, hsk, false_or]
      split <;> simp

theorem bySource_keys_nodup (vs : List Var) (d : BySrc) (h : (d.map (·.1)).Nodup) :
    ((vs.foldl (fun d v => addBySource d v.source v.name) d).map (·.1)).Nodup := by
  induction vs generalizing d with
  | nil => exact h
  | cons v vs ih =>
    apply ih
    rw [addBySource_keys]
    split
    · exact h
    · rename_i hn
      exact List.nodup_append.mpr ⟨h, by simp, by
        intro a ha b hb; simp at hb; subst hb; exact fun e => hn (e ▸ ha)⟩

/-- closed form of one class of `variables_by_source` -/
theorem bySource_lookup (vs : List Var) (d : BySrc) (src : Option Str)
    (hnd : (vs.map (·.name)).Nodup)
    (hd : ∀ w ∈ vs, w.name ∉ (lookupSrc d src).getD []) :
    lookupSrc (vs.foldl (fun d v => addBySource d v.source v.name) d) src =
      if vs.filter (fun w => w.source == src) = [] then lookupSrc d src
      else some ((lookupSrc d src).getD [] ++ (vs.filter (fun w => w.source == src)).map (·.name)) := by
  induction vs generalizing d with
  | nil => simp
  | cons v vs ih =>
    have hnd' : v.name ∉ vs.map (·.name) ∧ (vs.map (·.name)).Nodup := List.nodup_cons.mp hnd
    simp only [List.foldl_cons]
    by_cases hs : v.source = src
    · have hc : (v.source == src) = true := by simpa using hs
      have hf : (v :: vs).filter (fun w => w.source == src) = v :: vs.filter (fun w => w.source == src) :=
        List.filter_cons_of_pos hc
      have hfresh : addStr ((lookupSrc d src).getD []) v.name = (lookupSrc d src).getD [] ++ [v.name] := by
        have hv := hd v (by simp)
        unfold addStr
        have : ¬ ((lookupSrc d src).getD []).contains v.name = true := by simpa using hv
        rw [if_neg this]
      rw [ih]
      · rw [addBySource_lookup, if_pos hs, hfresh, hf]
        simp only [Option.getD_some, List.map_cons, reduceCtorEq, if_false]
        by_cases he : vs.filter (fun w => w.source == src) = []
        · rw [if_pos he, he]; simp
        · rw [if_neg he]; simp
      · exact hnd'.2
      · intro w hw
        rw [addBySource_lookup, if_pos hs, hfresh]
        simp only [Option.getD_some, List.mem_append, List.mem_singleton, not_or]
        refine ⟨hd w (List.mem_cons_of_mem _ hw), ?_⟩
        intro e
        exact hnd'.1 (e ▸ List.mem_map_of_mem hw)
    · have hc : ¬ (v.source == src) = true := by simpa using hs
      have hf : (v :: vs).filter (fun w => w.source == src) = vs.filter (fun w => w.source == src) :=
        List.filter_cons_of_neg hc
      rw [ih]
      · rw [addBySource_lookup, if_neg hs, hf]
      · exact hnd'.2
      · intro w hw
        rw [addBySource_lookup, if_neg hs]
        exact hd w (List.mem_cons_of_mem _ hw)

theorem lookupSrc_of_mem (d : BySrc) (h : (d.map (·.1)).Nodup) (e : Option Str × List Str) (he : e ∈ d) :
    lookupSrc d e.1 = some e.2 := by
  induction d with
  | nil => cases he
  | cons a d ih =>
    obtain ⟨k, vs⟩ := a
    have hn : k ∉ d.map (·.1) ∧ (d.map (·.1)).Nodup := List.nodup_cons.mp h
    rw [lookupSrc_cons]
    rcases List.mem_cons.mp he with rfl | he
    · simp
    · have hk : k ≠ e.1 := fun e' => hn.1 (e' ▸ List.mem_map_of_mem he)
      rw [if_neg hk]
      exact ih hn.2 he

theorem mem_of_lookupSrc (d : BySrc) (src : Option Str) (vs : List Str) (h : lookupSrc d src = some vs) :
    (src, vs) ∈ d := by
  unfold lookupSrc at h
  obtain ⟨e, he, rfl⟩ := Option.map_eq_some_iff.mp h
  have hm := List.mem_of_find?_eq_some he
  have hp := List.find?_some he
  simp only [beq_iff_eq] at hp
  rw [← hp]
  exact hm

/-! ### rows are determined by their terms -/

theorem row_unique {st : Structure} (h : DistinctTerms st) {r r' : Row} (hr : r ∈ st) (hr' : r' ∈ st)
    (e : sortStrs r.term = sortStrs r'.term) : r = r' := by
  induction st with
  | nil => cases hr
  | cons a st ih =>
    have hp := List.pairwise_cons.mp h
    rcases List.mem_cons.mp hr with h1 | h1 <;> rcases List.mem_cons.mp hr' with h2 | h2
    · rw [h1, h2]
    · subst h1; exact absurd e (hp.1 _ h2)
    · subst h2; exact absurd e.symm (hp.1 _ h1)
    · exact ih hp.2 h1 h2

/-- the dict `{row.term: g(row)}` finds a row's entry by (any `Term` equal to) the row's term -/
theorem rowMap_lookup {α} (g : Row → α) {st : Structure} (h : DistinctTerms st) {r : Row} (hr : r ∈ st)
    (u : Term) (hu : sortStrs u = sortStrs r.term) :
    TDict.lookup (st.map (fun r => (r.term, g r))) (.term u) = some (g r) := by
  unfold TDict.lookup
  rw [find?_unique _ _ (r.term, g r)]
  · rfl
  · exact List.mem_map_of_mem (f := fun r => (r.term, g r)) hr
  · simp [keyMatches_term, hu]
  · intro y hy py
    obtain ⟨r', hr', rfl⟩ := List.mem_map.mp hy
    simp only [keyMatches_term, beq_iff_eq] at py
    have : r' = r := row_unique h hr' hr (py.trans hu)
    rw [this]

end FormulaicVerif.Proofs.C10
