import FormulaicVerif.Model.SpecMeta
/-! `Term.FACTOR_MATCHER` splits the printed form of a term back into its factor expressions
(for expressions without backticks and newlines). -/
namespace FormulaicVerif.Proofs.C10
open FormulaicVerif.Model.SpecMeta

/-- a factor expression `FACTOR_MATCHER` can recover: non-empty, no backtick, no newline -/
def GoodExpr (e : Str) : Prop := e ≠ [] ∧ '`' ∉ e ∧ '\n' ∉ e

instance (e : Str) : Decidable (GoodExpr e) := by unfold GoodExpr; infer_instance

/-- a possible continuation after a factor inside a printed term: the end, or `:` and more -/
def TailOK (tail : Str) : Prop := tail = [] ∨ ∃ more, tail = ':' :: more

/-- `lookOK` is the look-ahead `(?=:|$)`: a colon next, or Python's `$` (`atDollar`) -/
theorem lookOK_eq (r : Str) : lookOK r = (r.head? == some ':' || atDollar r) := by
  cases r with
  | nil => rfl
  | cons c r =>
    cases r with
    | nil => simp [lookOK, atDollar]
    | cons d r => simp [lookOK, atDollar]

theorem lookOK_tail {tail : Str} (h : TailOK tail) : lookOK tail = true := by
  rcases h with rfl | ⟨more, rfl⟩ <;> simp [lookOK]

theorem lazyPlain_cons (acc : Str) (c : Char) (rest : Str) :
    lazyPlain acc (c :: rest) = if c == '`' then none
      else if lookOK rest then some ((c :: acc).reverse, acc.length + 1)
      else lazyPlain (c :: acc) rest := rfl

theorem lazyQuoted_cons2 (acc : Str) (c d : Char) (rest : Str) :
    lazyQuoted acc (c :: d :: rest) = if c == '`' then none
      else if d == '`' then (if lookOK rest then some ((c :: acc).reverse, acc.length + 3) else none)
      else lazyQuoted (c :: acc) (d :: rest) := rfl

theorem lazyPlain_good (e : Str) (acc tail : Str) (hne : e ≠ []) (hb : '`' ∉ e) (hn : '\n' ∉ e)
    (hc : ':' ∉ e) (ht : TailOK tail) :
    lazyPlain acc (e ++ tail) = some (acc.reverse ++ e, acc.length + e.length) := by
  induction e generalizing acc with
  | nil => exact absurd rfl hne
  | cons c e ih =>
    have hcb : c ≠ '`' := fun h => hb (by simp [h])
    cases e with
    | nil =>
      simp only [List.cons_append, List.nil_append, lazyPlain, beq_iff_eq, hcb, if_false,
        lookOK_tail ht, if_true, List.reverse_cons, List.length_cons, List.length_nil]
    | cons c' e' =>
      have hc' : c' ≠ ':' := fun h => hc (by simp [h])
      have hn' : c' ≠ '\n' := fun h => hn (by simp [h])
      have hlook : lookOK (c' :: (e' ++ tail)) = false := by simp [lookOK, hc', hn']
      have := ih (c :: acc) (by simp) (fun h => hb (List.mem_cons_of_mem _ h))
        (fun h => hn (List.mem_cons_of_mem _ h)) (fun h => hc (List.mem_cons_of_mem _ h))
      simp only [List.cons_append] at this ⊢
      rw [lazyPlain_cons]
      simp only [beq_iff_eq, hcb, if_false, hlook, Bool.false_eq_true]
      rw [this]
      simp [Nat.add_comm, Nat.add_left_comm]

theorem lazyQuoted_good (e : Str) (acc tail : Str) (hne : e ≠ []) (hb : '`' ∉ e) (ht : TailOK tail) :
    lazyQuoted acc (e ++ '`' :: tail) = some (acc.reverse ++ e, acc.length + e.length + 2) := by
  induction e generalizing acc with
  | nil => exact absurd rfl hne
  | cons c e ih =>
    have hcb : c ≠ '`' := fun h => hb (by simp [h])
    cases e with
    | nil =>
      simp [lazyQuoted, hcb, lookOK_tail ht]
    | cons c' e' =>
      have hc' : c' ≠ '`' := fun h => hb (by simp [h])
      have := ih (c :: acc) (by simp) (fun h => hb (List.mem_cons_of_mem _ h))
      simp only [List.cons_append] at this ⊢
      rw [lazyQuoted_cons2]
      simp only [beq_iff_eq, hcb, if_false, hc']
      rw [this]
      simp [Nat.add_comm, Nat.add_left_comm]

theorem matchAt_good (e tail : Str) (h : GoodExpr e) (ht : TailOK tail) :
    matchAt (factorRepr e ++ tail) = some (e, (factorRepr e).length) := by
  obtain ⟨hne, hb, hn⟩ := h
  unfold factorRepr
  by_cases hc : e.contains ':' = true
  · simp only [hc, if_true, List.cons_append, matchAt, beq_self_eq_true, List.append_assoc,
      List.length_cons, List.length_append, List.length_nil]
    have := lazyQuoted_good e [] tail hne hb ht
    simp only [List.nil_append]
    rw [this]
    simp
  · simp only [hc, Bool.false_eq_true, if_false]
    have hc' : ':' ∉ e := by simpa using hc
    cases e with
    | nil => exact absurd rfl hne
    | cons c e' =>
      have hcb : c ≠ '`' := fun h => hb (by simp [h])
      simp only [List.cons_append, matchAt, beq_iff_eq, hcb, if_false]
      have := lazyPlain_good (c :: e') [] tail hne hb hn hc' ht
      simpa using this

/-- whether the position after stepping over `xs` follows a colon -/
def lastColon : Bool → Str → Bool
  | cand, [] => cand
  | _, c :: xs => lastColon (c == ':') xs

theorem scanAux_skip (xs : Str) (cand : Bool) (ys : Str) :
    scanAux xs.length cand (xs ++ ys) = scanAux 0 (lastColon cand xs) ys := by
  induction xs generalizing cand with
  | nil => simp [lastColon]
  | cons c xs ih => simp [scanAux, lastColon, ih]

theorem lastColon_no_colon (xs : Str) (h : ':' ∉ xs) : lastColon false xs = false := by
  induction xs with
  | nil => rfl
  | cons c xs ih =>
    have hc : c ≠ ':' := fun e => h (by simp [e])
    simp only [lastColon]
    have : (c == ':') = false := by simp [hc]
    rw [this]
    exact ih (fun h' => h (List.mem_cons_of_mem _ h'))

theorem lastColon_snoc (cand : Bool) (xs : Str) (c : Char) : lastColon cand (xs ++ [c]) = (c == ':') := by
  induction xs generalizing cand with
  | nil => rfl
  | cons d xs ih => simp [lastColon, ih]

theorem lastColon_factorRepr (e : Str) (hne : e ≠ []) :
    ∀ c tl, factorRepr e = c :: tl → lastColon (c == ':') tl = false := by
  intro c tl h
  unfold factorRepr at h
  by_cases hc : e.contains ':' = true
  · simp only [hc, if_true, List.cons.injEq] at h
    obtain ⟨rfl, rfl⟩ := h
    rw [lastColon_snoc]; rfl
  · simp only [hc, Bool.false_eq_true, if_false] at h
    have hc' : ':' ∉ e := by simpa using hc
    subst h
    have h1 : c ≠ ':' := fun e => hc' (by simp [e])
    have : (c == ':') = false := by simp [h1]
    rw [this]
    exact lastColon_no_colon tl (fun h' => hc' (List.mem_cons_of_mem _ h'))

theorem factorRepr_ne_nil (e : Str) (hne : e ≠ []) : factorRepr e ≠ [] := by
  unfold factorRepr; split <;> simp [hne]

/-- one factor of a printed term is recovered and scanning resumes after the separating colon -/
theorem scan_step (e tail : Str) (h : GoodExpr e) (ht : TailOK tail) :
    scanAux 0 true (factorRepr e ++ tail) = e :: scanAux 0 false tail := by
  have hm := matchAt_good e tail h ht
  cases hf : factorRepr e with
  | nil => exact absurd hf (factorRepr_ne_nil e h.1)
  | cons c tl =>
    rw [hf] at hm
    simp only [List.cons_append] at hm ⊢
    simp only [scanAux, if_true, hm, List.length_cons, Nat.add_sub_cancel]
    rw [scanAux_skip, lastColon_factorRepr e h.1 c tl hf]

theorem scan_joined (es : List Str) (h : ∀ e ∈ es, GoodExpr e) :
    scanAux 0 true (joinColon (es.map factorRepr)) = es := by
  induction es with
  | nil => rfl
  | cons e es ih =>
    cases es with
    | nil =>
      have := scan_step e [] (h e (by simp)) (Or.inl rfl)
      simpa [joinColon, scanAux] using this
    | cons e' es' =>
      have ih' := ih (fun x hx => h x (List.mem_cons_of_mem _ hx))
      have := scan_step e (':' :: joinColon ((e' :: es').map factorRepr)) (h e (by simp)) (Or.inr ⟨_, rfl⟩)
      simp only [List.map_cons, joinColon] at this ih' ⊢
      rw [this]
      simp only [scanAux, Bool.false_eq_true, if_false, beq_self_eq_true]
      rw [ih']

/-- `FACTOR_MATCHER` recovers the factor expressions from the printed form -/
theorem matchFactors_termRepr (t : Term) (h : ∀ e ∈ t, GoodExpr e) :
    matchFactors (termRepr t) = t := scan_joined t h

end FormulaicVerif.Proofs.C10
