import FormulaicVerif.Model.SimpleFormula
import FormulaicVerif.Spec.Containers
/-! Helper lemmas for C19, part 6: `SimpleFormula` as a sorted mutable sequence. Not obligations. -/
namespace FormulaicVerif.Proofs.C19
open FormulaicVerif.Model FormulaicVerif.Model.SFm FormulaicVerif.Spec.Containers


theorem insertByDegree_perm (x : Term) (l : List Term) : (insertByDegree x l).Perm (x :: l) := by
  induction l with
  | nil => simp [insertByDegree]
  | cons y ys ih =>
    simp only [insertByDegree]
    split
    · exact (List.Perm.cons y ih).trans (List.Perm.swap x y ys)
    · exact List.Perm.refl _

theorem sortByDegree_perm (l : List Term) : (sortByDegree l).Perm l := by
  induction l with
  | nil => simp [sortByDegree]
  | cons x r ih =>
    have : sortByDegree (x :: r) = insertByDegree x (sortByDegree r) := rfl
    rw [this]
    exact (insertByDegree_perm x _).trans (List.Perm.cons x ih)

theorem insertByDegree_sorted (x : Term) (l : List Term) (h : SortedDeg l) :
    SortedDeg (insertByDegree x l) := by
  induction l with
  | nil => simp [insertByDegree, SortedDeg]
  | cons y ys ih =>
    unfold SortedDeg at h ⊢
    rw [List.pairwise_cons] at h
    simp only [insertByDegree]
    split
    · rename_i hlt
      rw [List.pairwise_cons]
      refine ⟨?_, ih h.2⟩
      intro z hz
      have := (insertByDegree_perm x ys).mem_iff.1 hz
      rcases List.mem_cons.1 this with hzx | hzy
      · subst hzx; omega
      · exact h.1 z hzy
    · rename_i hge
      rw [List.pairwise_cons]
      refine ⟨?_, List.pairwise_cons.2 h⟩
      intro z hz
      rcases List.mem_cons.1 hz with hzy | hzy
      · subst hzy; omega
      · have := h.1 z hzy; omega

theorem sortByDegree_sorted (l : List Term) : SortedDeg (sortByDegree l) := by
  induction l with
  | nil => simp [sortByDegree, SortedDeg]
  | cons x r ih => exact insertByDegree_sorted x _ ih

theorem insertByDegree_filter (x : Term) (l : List Term) (d : Nat) :
    (insertByDegree x l).filter (fun t => Term.degree t == d) = (x :: l).filter (fun t => Term.degree t == d) := by
  induction l with
  | nil => simp [insertByDegree]
  | cons y ys ih =>
    simp only [insertByDegree]
    split
    · rename_i hlt
      simp only [List.filter_cons, ih]
      by_cases hy : Term.degree y = d
      · have hx : ¬ Term.degree x = d := by omega
        simp [hy, hx]
      · simp [hy]
    · rfl

theorem sortByDegree_filter (l : List Term) (d : Nat) :
    (sortByDegree l).filter (fun t => Term.degree t == d) = l.filter (fun t => Term.degree t == d) := by
  induction l with
  | nil => simp [sortByDegree]
  | cons x r ih =>
    have : sortByDegree (x :: r) = insertByDegree x (sortByDegree r) := rfl
    rw [this, insertByDegree_filter]
    simp only [List.filter_cons, ih]

theorem sortByDegree_of_sorted (l : List Term) (h : SortedDeg l) : sortByDegree l = l := by
  induction l with
  | nil => rfl
  | cons x r ih =>
    unfold SortedDeg at h
    rw [List.pairwise_cons] at h
    have : sortByDegree (x :: r) = insertByDegree x (sortByDegree r) := rfl
    rw [this, ih h.2]
    cases r with
    | nil => rfl
    | cons y ys =>
      have := h.1 y (by simp)
      simp only [insertByDegree]
      have hn : ¬ Term.degree y < Term.degree x := by omega
      simp [hn]

theorem SortedDeg.sublist {l l' : List Term} (h : SortedDeg l) (hs : l'.Sublist l) : SortedDeg l' :=
  List.Pairwise.sublist hs h

theorem take_append_drop_sublist {α : Type} (l : List α) (a b : Nat) (hab : a ≤ b) :
    (l.take a ++ l.drop b).Sublist l := by
  have h1 : l.drop b = (l.drop a).drop (b - a) := by
    rw [List.drop_drop]; congr 1; omega
  have : (l.take a ++ l.drop b).Sublist (l.take a ++ l.drop a) := by
    rw [h1]
    exact List.Sublist.append (List.Sublist.refl _) (List.drop_sublist _ _)
  simpa [List.take_append_drop] using this

/-! ### ordering `SORT` -/
theorem insertFactor_perm (x : Factor) (l : List Factor) : (insertFactor x l).Perm (x :: l) := by
  induction l with
  | nil => simp [insertFactor]
  | cons y ys ih =>
    simp only [insertFactor]
    split
    · exact (List.Perm.cons y ih).trans (List.Perm.swap x y ys)
    · exact List.Perm.refl _

theorem insertFactor_sorted (x : Factor) (l : List Factor) (h : FactorsSorted l) :
    FactorsSorted (insertFactor x l) := by
  induction l with
  | nil => simp [insertFactor, FactorsSorted]
  | cons y ys ih =>
    unfold FactorsSorted at h ⊢
    rw [List.pairwise_cons] at h
    simp only [insertFactor]
    split
    · rename_i hlt
      rw [List.pairwise_cons]
      refine ⟨?_, ih h.2⟩
      intro z hz
      have := (insertFactor_perm x ys).mem_iff.1 hz
      rcases List.mem_cons.1 this with hzx | hzy
      · subst hzx; exact String.not_lt.1 (String.lt_asymm hlt)
      · exact h.1 z hzy
    · rename_i hge
      have hxy : x.expr ≤ y.expr := String.not_lt.1 hge
      rw [List.pairwise_cons]
      refine ⟨?_, List.pairwise_cons.2 h⟩
      intro z hz
      rcases List.mem_cons.1 hz with hzy | hzy
      · subst hzy; exact hxy
      · exact String.le_trans hxy (h.1 z hzy)

theorem sortFactors_sorted (t : List Factor) : FactorsSorted (sortFactors t) := by
  induction t with
  | nil => simp [sortFactors, FactorsSorted]
  | cons x r ih => exact insertFactor_sorted x _ ih

theorem dedupAux_sublist {α κ : Type} [BEq κ] (key : α → κ) (seen : List κ) (xs : List α) :
    (dedupAux key seen xs).Sublist xs := by
  induction xs generalizing seen with
  | nil => simp [dedupAux]
  | cons x r ih =>
    simp only [dedupAux]
    split
    · exact (ih seen).cons x
    · exact (ih _).cons_cons x

theorem normTerm_sorted (t : Term) : FactorsSorted (normTerm t) :=
  List.Pairwise.sublist (dedupAux_sublist _ _ _) (sortFactors_sorted t)

/-- the comparison key of `Term.__lt__` -/
def tkey (a : Term) : List String := (sortFactors a).map (·.expr)

theorem termLt_iff (a b : Term) :
    termLt a b = true ↔
      Term.degree a < Term.degree b ∨ (Term.degree a = Term.degree b ∧ tkey a < tkey b) := by
  unfold termLt tkey
  by_cases h : Term.degree a = Term.degree b
  · simp [h]
  · have hb : (Term.degree a == Term.degree b) = false := by simpa using h
    simp [hb, h]

theorem termLt_false_iff (a b : Term) :
    termLt a b = false ↔
      Term.degree b ≤ Term.degree a ∧ (Term.degree a = Term.degree b → tkey b ≤ tkey a) := by
  rw [← Bool.not_eq_true, termLt_iff]
  constructor
  · intro h
    refine ⟨by omega, fun he => ?_⟩
    exact List.not_lt.1 (fun hl => h (Or.inr ⟨he, hl⟩))
  · rintro ⟨h1, h2⟩ (h | ⟨he, hl⟩)
    · omega
    · exact List.not_lt.2 (h2 he) hl

theorem termLt_asymm {a b : Term} (h : termLt a b = true) : termLt b a = false := by
  rw [termLt_iff] at h
  rw [termLt_false_iff]
  rcases h with h | ⟨he, hl⟩
  · exact ⟨by omega, fun he => by omega⟩
  · exact ⟨by omega, fun _ => List.not_lt.1 (List.lt_asymm hl)⟩

theorem termLe_trans {a b c : Term} (h1 : termLt b a = false) (h2 : termLt c b = false) :
    termLt c a = false := by
  rw [termLt_false_iff] at h1 h2 ⊢
  refine ⟨by omega, fun he => ?_⟩
  have e1 : Term.degree b = Term.degree a := by omega
  have e2 : Term.degree c = Term.degree b := by omega
  exact List.le_trans (h1.2 e1) (h2.2 e2)

theorem insertTerm_perm (x : Term) (l : List Term) : (insertTerm x l).Perm (x :: l) := by
  induction l with
  | nil => simp [insertTerm]
  | cons y ys ih =>
    simp only [insertTerm]
    split
    · exact (List.Perm.cons y ih).trans (List.Perm.swap x y ys)
    · exact List.Perm.refl _

theorem sortTerms_perm (l : List Term) : (sortTerms l).Perm l := by
  induction l with
  | nil => simp [sortTerms]
  | cons x r ih =>
    have : sortTerms (x :: r) = insertTerm x (sortTerms r) := rfl
    rw [this]
    exact (insertTerm_perm x _).trans (List.Perm.cons x ih)

theorem insertTerm_sorted (x : Term) (l : List Term) (h : SortedLt l) : SortedLt (insertTerm x l) := by
  induction l with
  | nil => simp [insertTerm, SortedLt]
  | cons y ys ih =>
    unfold SortedLt at h ⊢
    rw [List.pairwise_cons] at h
    simp only [insertTerm]
    split
    · rename_i hlt
      rw [List.pairwise_cons]
      refine ⟨?_, ih h.2⟩
      intro z hz
      have := (insertTerm_perm x ys).mem_iff.1 hz
      rcases List.mem_cons.1 this with hzx | hzy
      · subst hzx; exact termLt_asymm hlt
      · exact h.1 z hzy
    · rename_i hge
      have hxy : termLt y x = false := by simpa using hge
      rw [List.pairwise_cons]
      refine ⟨?_, List.pairwise_cons.2 h⟩
      intro z hz
      rcases List.mem_cons.1 hz with hzy | hzy
      · subst hzy; exact hxy
      · exact termLe_trans hxy (h.1 z hzy)

theorem sortTerms_sorted (l : List Term) : SortedLt (sortTerms l) := by
  induction l with
  | nil => simp [sortTerms, SortedLt]
  | cons x r ih => exact insertTerm_sorted x _ ih

/-! ### the invariant of every ordering survives every operation -/
theorem inv_reorder (o : SFm.Ordering) (l : List Term) : OrderingInv o (reorder o l) := by
  cases o with
  | none => trivial
  | degree => exact sortByDegree_sorted l
  | sort =>
    refine ⟨sortTerms_sorted _, ?_⟩
    intro t ht
    have := (sortTerms_perm (l.map normTerm)).mem_iff.1 ht
    obtain ⟨t', _, rfl⟩ := List.mem_map.1 this
    exact normTerm_sorted t'

theorem inv_sublist (o : SFm.Ordering) {l l' : List Term} (h : OrderingInv o l) (hs : l'.Sublist l) :
    OrderingInv o l' := by
  cases o with
  | none => trivial
  | degree => exact List.Pairwise.sublist hs h
  | sort => exact ⟨List.Pairwise.sublist hs h.1, fun t ht => h.2 t (hs.subset ht)⟩

theorem insert_inv (o : SFm.Ordering) (l l' : List Term) (i : Int) (t : Option Term)
    (h : SFm.insert o l i t = .ok l') : OrderingInv o l' := by
  cases t with
  | none => simp [SFm.insert] at h
  | some t =>
    simp only [SFm.insert, Except.ok.injEq] at h
    subst h; exact inv_reorder o _

theorem setItem_inv (o : SFm.Ordering) (l l' : List Term) (i : Int) (t : Option Term)
    (h : setItem o l i t = .ok l') : OrderingInv o l' := by
  cases t with
  | none => simp [setItem] at h
  | some t =>
    simp only [setItem] at h
    cases hn : normIdx i l.length with
    | none => simp [hn] at h
    | some n =>
      simp only [hn, Except.ok.injEq] at h
      subst h; exact inv_reorder o _

theorem delItem_inv (o : SFm.Ordering) (l l' : List Term) (i : Int) (hs : OrderingInv o l)
    (h : delItem l i = .ok l') : OrderingInv o l' := by
  simp only [delItem] at h
  cases hn : normIdx i l.length with
  | none => simp [hn] at h
  | some n =>
    simp only [hn, Except.ok.injEq] at h
    subst h; exact inv_sublist o hs (List.eraseIdx_sublist _ _)

theorem delSlice_inv (o : SFm.Ordering) (l : List Term) (a b : Int) (hs : OrderingInv o l) :
    OrderingInv o (delSlice l a b) := by
  unfold delSlice
  exact inv_sublist o hs (take_append_drop_sublist l _ _ (Nat.le_max_left _ _))

theorem ofExcept_inv (o : SFm.Ordering) (l : List Term) (r : Except Err (List Term)) (hs : OrderingInv o l)
    (h : ∀ l', r = .ok l' → OrderingInv o l') : OrderingInv o (ofExcept l r).1 := by
  cases r with
  | ok l' => exact h l' rfl
  | error e => exact hs

theorem extend_inv (o : SFm.Ordering) (ts : List (Option Term)) (l : List Term) (hs : OrderingInv o l) :
    OrderingInv o (extend o l ts).1 := by
  induction ts generalizing l with
  | nil => exact hs
  | cons t r ih =>
    simp only [extend]
    cases hi : SFm.insert o l l.length t with
    | ok l' => simp only []; exact ih l' (insert_inv o l l' _ t hi)
    | error e => exact hs

theorem swapStep_inv (o : SFm.Ordering) (n : Nat) (l : List Term) (i : Nat) (hs : OrderingInv o l) :
    OrderingInv o (swapStep o n l i).1 := by
  unfold swapStep
  cases h1 : getItem l ((n - i - 1 : Nat) : Int) with
  | error e => exact hs
  | ok x =>
    cases h2 : getItem l (i : Int) with
    | error e => exact hs
    | ok y =>
      simp only []
      cases h3 : setItem o l i (some x) with
      | error e => exact hs
      | ok l1 =>
        simp only []
        have hs1 := setItem_inv o l l1 _ _ h3
        cases h4 : setItem o l1 ((n - i - 1 : Nat) : Int) (some y) with
        | error e => exact hs1
        | ok l2 => exact setItem_inv o l1 l2 _ _ h4

theorem reverseLoop_inv (o : SFm.Ordering) (n : Nat) (is : List Nat) (l : List Term) (hs : OrderingInv o l) :
    OrderingInv o (reverseLoop o n is l).1 := by
  induction is generalizing l with
  | nil => exact hs
  | cons i r ih =>
    simp only [reverseLoop]
    have := swapStep_inv o n l i hs
    cases hsw : swapStep o n l i with
    | mk l' e =>
      rw [hsw] at this
      cases e with
      | none => exact ih l' this
      | some e => exact this

theorem removeIdxs_sublist {α : Type} (l : List α) (idxs : List Nat) : (removeIdxs l idxs).Sublist l := by
  unfold removeIdxs
  have h : ((l.zipIdx.filter (fun xi => !idxs.contains xi.2)).map (·.1)).Sublist (l.zipIdx.map (·.1)) :=
    (List.filter_sublist).map _
  have hz : l.zipIdx.map (·.1) = l := by simp
  rw [hz] at h
  exact h

theorem delSliceX_inv (o : SFm.Ordering) (l l' : List Term) (a b : Option Int) (c : Int) (hs : OrderingInv o l)
    (h : delSliceX l a b c = .ok l') : OrderingInv o l' := by
  unfold delSliceX at h
  split at h
  · cases h
  · simp only [Except.ok.injEq] at h
    subst h
    exact inv_sublist o hs (removeIdxs_sublist _ _)

theorem remove_inv (o : SFm.Ordering) (l l' : List Term) (t : Option Term) (hs : OrderingInv o l)
    (h : SFm.remove l t = .ok l') : OrderingInv o l' := by
  unfold SFm.remove at h
  split at h
  · simp only [Except.ok.injEq] at h
    subst h
    exact inv_sublist o hs (List.eraseIdx_sublist _ _)
  · cases h

theorem normIdx_neg_one (n : Nat) : normIdx (-1) (n + 1) = some n := by
  simp [normIdx]

theorem sf_clearLoop_spec : ∀ (fuel : Nat) (l : List Term), l.length < fuel → clearLoop fuel l = some []
  | 0, l, h => by omega
  | fuel + 1, l, h => by
    cases hl : l.length with
    | zero =>
      have : l = [] := List.length_eq_zero_iff.1 hl
      subst this
      simp [clearLoop, getItem, normIdx]
    | succ n =>
      have hg : ∃ t, getItem l (-1) = .ok t := by
        have hn : n < l.length := by omega
        refine ⟨l[n], ?_⟩
        simp only [getItem, hl, normIdx_neg_one]
        rw [List.getElem?_eq_getElem hn]
      obtain ⟨t, hg⟩ := hg
      have hd : delItem l (-1) = .ok (l.eraseIdx n) := by
        simp only [delItem, hl, normIdx_neg_one]
      simp only [clearLoop, hg, hd]
      apply sf_clearLoop_spec fuel
      rw [List.length_eraseIdx]
      split <;> omega

theorem filterMap_getElem?_sublist {α : Type} (l : List α) (is : List Nat) (h : is.Pairwise (· < ·)) :
    (is.filterMap (fun i => l[i]?)).Sublist l := by
  suffices ∀ j, (∀ i ∈ is, j ≤ i) → (is.filterMap (fun i => l[i]?)).Sublist (l.drop j) by
    simpa using this 0 (by simp)
  intro j his
  induction is generalizing j with
  | nil => simp
  | cons hd tl ih =>
    have h2 := List.pairwise_cons.1 h
    have ih' := ih h2.2 (hd + 1) (fun i hi => h2.1 i hi)
    have hj : j ≤ hd := his hd (by simp)
    by_cases hlt : hd < l.length
    · have : l[hd]? = some l[hd] := List.getElem?_eq_getElem hlt
      simp only [List.filterMap_cons, this]
      have hd' : l.drop hd = l[hd] :: l.drop (hd + 1) := List.drop_eq_getElem_cons hlt
      exact ((hd' ▸ ih'.cons_cons l[hd]) : _).trans (List.drop_sublist_drop_left l hj)
    · have : l[hd]? = none := List.getElem?_eq_none (by omega)
      simp only [List.filterMap_cons, this]
      exact ih'.trans (List.drop_sublist_drop_left l (by omega))

theorem sliceIndices_increasing (a b : Option Int) (c : Int) (n : Nat) (hc : 0 < c) :
    (sliceIndices a b c n).Pairwise (· < ·) := by
  unfold sliceIndices
  simp only [hc, if_true]
  exact List.pairwise_lt_range' (step := c.toNat) (pos := by omega)

theorem eqTerms_iff : ∀ (l l' : List Term), eqTerms l l' = true ↔
    l.length = l'.length ∧ ∀ i (h : i < l.length) (h' : i < l'.length), termEq l[i] l'[i] = true
  | [], [] => by simp [eqTerms]
  | [], y :: ys => by simp [eqTerms]
  | x :: xs, [] => by simp [eqTerms]
  | x :: xs, y :: ys => by
    simp only [eqTerms, Bool.and_eq_true, eqTerms_iff xs ys, List.length_cons, Nat.add_right_cancel_iff]
    constructor
    · rintro ⟨h0, hl, hr⟩
      refine ⟨hl, fun i h h' => ?_⟩
      cases i with
      | zero => simpa using h0
      | succ j => simpa using hr j (by omega) (by omega)
    · rintro ⟨hl, hr⟩
      refine ⟨by simpa using hr 0 (by omega) (by omega), hl, fun i h h' => ?_⟩
      have := hr (i + 1) (by omega) (by omega)
      simpa only [List.getElem_cons_succ] using this

theorem zipIdx_filter_range' {α : Type} (s m : Nat) : ∀ (l : List α) (k : Nat),
    ((l.zipIdx k).filter (fun xi => !(List.range' s m).contains xi.2)).map (·.1)
      = l.take (s - k) ++ l.drop (s + m - k)
  | [], k => by simp
  | x :: r, k => by
    have ih := zipIdx_filter_range' s m r (k + 1)
    simp only [List.zipIdx_cons, List.filter_cons]
    by_cases hk : s ≤ k ∧ k < s + m
    · have hc : (List.range' s m).contains k = true := by
        simp only [List.contains_iff_mem]; exact List.mem_range'_1.2 hk
      simp only [hc, Bool.not_true, Bool.false_eq_true, if_false, ih]
      have h1 : s - k = 0 := by omega
      have h2 : s - (k + 1) = 0 := by omega
      obtain ⟨n, hn⟩ : ∃ n, s + m - k = n + 1 := ⟨s + m - k - 1, by omega⟩
      have h3 : s + m - (k + 1) = n := by omega
      simp [h1, h2, hn, h3]
    · have hc : (List.range' s m).contains k = false := by
        rw [← Bool.not_eq_true]
        simp only [List.contains_iff_mem]
        intro hm; exact hk (List.mem_range'_1.1 hm)
      simp only [hc, Bool.not_false, if_true, List.map_cons, ih]
      by_cases hlt : k < s
      · obtain ⟨n, hn⟩ : ∃ n, s - k = n + 1 := ⟨s - k - 1, by omega⟩
        obtain ⟨n2, hn2⟩ : ∃ n, s + m - k = n + 1 := ⟨s + m - k - 1, by omega⟩
        have h2 : s - (k + 1) = n := by omega
        have h3 : s + m - (k + 1) = n2 := by omega
        simp [hn, hn2, h2, h3]
      · have h1 : s - k = 0 := by omega
        have h2 : s - (k + 1) = 0 := by omega
        have h3 : s + m - k = 0 := by omega
        have h4 : s + m - (k + 1) = 0 := by omega
        simp [h1, h2, h3, h4]

theorem delSliceX_step_one (l : List Term) (a b : Int) :
    delSliceX l (some a) (some b) 1 = .ok (delSlice l a b) := by
  have h01 : ((1 : Int) == 0) = false := by decide
  simp only [delSliceX, h01, Bool.false_eq_true, if_false, Except.ok.injEq]
  unfold removeIdxs sliceIndices delSlice
  simp only [show (0 : Int) < 1 by decide, if_true]
  have h1 : (1 : Int).toNat = 1 := by decide
  rw [h1]
  simp only [Nat.add_sub_cancel, Nat.div_one]
  rw [zipIdx_filter_range' (clampIdx a l.length) (clampIdx b l.length - clampIdx a l.length) l 0]
  simp only [Nat.sub_zero]
  congr 2
  omega

theorem step_inv (o : SFm.Ordering) (l : List Term) (op : Op) (hs : OrderingInv o l) :
    OrderingInv o (step o l op).1 := by
  cases op with
  | insert i t => exact ofExcept_inv o l _ hs (fun l' h => insert_inv o l l' i t h)
  | set i t => exact ofExcept_inv o l _ hs (fun l' h => setItem_inv o l l' i t h)
  | del i => exact ofExcept_inv o l _ hs (fun l' h => delItem_inv o l l' i hs h)
  | delSlice a b => exact delSlice_inv o l a b hs
  | append t => exact ofExcept_inv o l _ hs (fun l' h => insert_inv o l l' _ t h)
  | extend ts => exact extend_inv o ts l hs
  | pop i =>
    simp only [step]
    cases getItem l i with
    | ok _ => exact ofExcept_inv o l _ hs (fun l' h => delItem_inv o l l' i hs h)
    | error e => exact hs
  | reverse => exact reverseLoop_inv o _ _ l hs
  | iadd ts => exact extend_inv o ts l hs
  | setSlice a b c v =>
    refine ofExcept_inv o l _ hs (fun l' h => ?_)
    cases v <;> simp [setSlice] at h
  | delSliceX a b c => exact ofExcept_inv o l _ hs (fun l' h => delSliceX_inv o l l' a b c hs h)
  | clear =>
    simp only [step, sf_clearLoop_spec (l.length + 1) l (Nat.lt_succ_self _)]
    cases o with
    | none => trivial
    | degree => exact List.Pairwise.nil
    | sort => exact ⟨List.Pairwise.nil, by simp⟩
  | remove t => exact ofExcept_inv o l _ hs (fun l' h => remove_inv o l l' t hs h)
  | getSlice a b c => exact hs
  | index t => exact hs
  | count t => exact hs
  | contains t => exact hs
  | reversed => exact hs
  | eq other => exact hs
  | eqForeign => exact hs

theorem run_inv (o : SFm.Ordering) (ops : List Op) (l : List Term) (hs : OrderingInv o l) :
    OrderingInv o (run o l ops) := by
  induction ops generalizing l with
  | nil => exact hs
  | cons op r ih => exact ih _ (step_inv o l op hs)

theorem trace_inv (o : SFm.Ordering) (ops : List Op) (l : List Term) (hs : OrderingInv o l) :
    ∀ st ∈ trace o l ops, OrderingInv o st.1 := by
  induction ops generalizing l with
  | nil => simp [trace]
  | cons op r ih =>
    intro st hst
    simp only [trace, List.mem_cons] at hst
    rcases hst with h | h
    · subst h; exact step_inv o l op hs
    · exact ih _ (step_inv o l op hs) st h

end FormulaicVerif.Proofs.C19
