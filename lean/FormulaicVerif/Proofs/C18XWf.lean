import FormulaicVerif.Proofs.C18XPure
/-! Helper lemmas for C18: the reference bookkeeping of the extended model is consistent — every spec
value carries the CURRENT content of the formula object it holds, and every spec handed out holds
one (the write-through on edits is what aliasing does in the code). -/
namespace FormulaicVerif.Proofs.C18X
open FormulaicVerif.Model.Heap FormulaicVerif.Model.HeapX FormulaicVerif.Spec.Purity
open FormulaicVerif.Spec.PurityX FormulaicVerif.Proofs.C18

variable {F E : Type} (P : Params F E)

/-! ### the specs attached to the matrices of a call carry the formulas of the specs it was called with -/

theorem pBuildOne_error (d : Data) (kept : List Nat) (cache : Dict (List (String × F)))
    (c : Caches E) (e : Err) (p : PSpec F E) :
    pBuildOne P d kept cache (c, .error e) p = (c, .error e) := rfl

theorem foldl_pBuildOne_error (d : Data) (kept : List Nat) (cache : Dict (List (String × F)))
    (ps : List (PSpec F E)) (c : Caches E) (e : Err) :
    (ps.foldl (pBuildOne P d kept cache) (c, .error e)) = (c, .error e) := by
  induction ps with
  | nil => rfl
  | cons p ps ih => simp only [List.foldl_cons, pBuildOne_error]; exact ih

theorem pBuildOne_ok (d : Data) (kept : List Nat) (cache : Dict (List (String × F)))
    (c : Caches E) (acc : List (Part F E × PSpec F E)) (p : PSpec F E) :
    (∃ c' e, pBuildOne P d kept cache (c, .ok acc) p = (c', .error e))
    ∨ (∃ c' x, pBuildOne P d kept cache (c, .ok acc) p = (c', .ok (acc ++ [x])) ∧ x.2.formula = p.formula) := by
  unfold pBuildOne
  simp only
  generalize (p.termsToBuild d).foldl (pEncodeTerm P d kept cache) (p.e, c, .ok []) = r
  obtain ⟨r1, r2, r3⟩ := r
  cases r3 with
  | error e => exact .inl ⟨_, _, rfl⟩
  | ok cols =>
    simp only
    cases p.recorded with
    | some s =>
      simp only
      split
      · exact .inl ⟨_, _, rfl⟩
      · exact .inr ⟨_, _, rfl, rfl⟩
    | none => exact .inr ⟨_, _, rfl, rfl⟩

theorem foldl_pBuildOne_formulas (d : Data) (kept : List Nat) (cache : Dict (List (String × F))) :
    ∀ (ps : List (PSpec F E)) (c : Caches E) (acc l : List (Part F E × PSpec F E)),
    (ps.foldl (pBuildOne P d kept cache) (c, .ok acc)).2 = .ok l →
    ∃ new, l = acc ++ new ∧ new.map (·.2.formula) = ps.map (·.formula) := by
  intro ps
  induction ps with
  | nil =>
    intro c acc l h
    simp only [List.foldl_nil, Except.ok.injEq] at h
    exact ⟨[], by simp [h], rfl⟩
  | cons p ps ih =>
    intro c acc l h
    simp only [List.foldl_cons] at h
    rcases pBuildOne_ok P d kept cache c acc p with ⟨c', e, he⟩ | ⟨c', x, hx, hfx⟩
    · rw [he, foldl_pBuildOne_error] at h
      simp at h
    · rw [hx] at h
      obtain ⟨new, hn, hm⟩ := ih c' (acc ++ [x]) l h
      exact ⟨x :: new, by simp [hn], by simp [hm, hfx]⟩

theorem pureCall_formulas (ss : List (PSpec F E)) (d : Data) (order : List Factor)
    (l : List (Part F E × PSpec F E)) (h : pureCall P ss d order = .ok l) :
    l.map (·.2.formula) = ss.map (·.formula) := by
  unfold pureCall at h
  cases ss with
  | nil => simp at h
  | cons p0 ps =>
    simp only at h
    split at h
    · generalize evaluateAll P d p0.cfg.na _ order = ev at h
      cases ev with
      | error e => simp at h
      | ok ev =>
        simp only at h
        obtain ⟨new, hn, hm⟩ := foldl_pBuildOne_formulas P d _ ev.cache _ Caches.empty [] l h
        simp only [List.nil_append] at hn
        subst hn
        rw [hm, List.map_map]
        rfl
    · simp at h

/-! ### the invariant -/

/-- every spec handed out holds a formula object, and carries its current content -/
structure WF (env : XEnv F E) : Prop where
  len : env.fref.length = env.specs.length
  cur : ∀ (i : Nat) (s : PSpec F E) (r : Nat), env.specs[i]? = some s → env.fref[i]? = some r → env.forms[r]? = some s.formula

theorem wf_init : WF (XEnv.init : XEnv F E) := ⟨rfl, by intro i s r h; simp [XEnv.init] at h⟩

theorem getElem?_append_forms {forms nf : List Formula} {r : Nat} {f : Formula}
    (h : forms[r]? = some f) : (forms ++ nf)[r]? = some f := by
  have hlt : r < forms.length := by
    rcases Nat.lt_or_ge r forms.length with hlt | hge
    · exact hlt
    · rw [List.getElem?_eq_none_iff.mpr hge] at h; cases h
  rw [List.getElem?_append_left hlt]; exact h

/-- appending specs together with the objects they hold keeps the invariant -/
theorem wf_extend (env : XEnv F E) (h : WF env) (nf : List Formula) (ns : List (PSpec F E)) (nr : List Nat)
    (hl : nr.length = ns.length)
    (hc : ∀ (j : Nat) (s : PSpec F E) (r : Nat), ns[j]? = some s → nr[j]? = some r → (env.forms ++ nf)[r]? = some s.formula) :
    WF ⟨env.forms ++ nf, env.specs ++ ns, env.fref ++ nr⟩ := by
  refine ⟨by simp [h.len, hl], ?_⟩
  intro i s r hs hr
  simp only at hs hr ⊢
  rcases Nat.lt_or_ge i env.specs.length with hlt | hge
  · rw [List.getElem?_append_left hlt] at hs
    rw [List.getElem?_append_left (by rw [h.len]; exact hlt)] at hr
    exact getElem?_append_forms (h.cur i s r hs hr)
  · rw [List.getElem?_append_right hge] at hs
    rw [List.getElem?_append_right (by rw [h.len]; exact hge)] at hr
    rw [h.len] at hr
    exact hc _ s r hs hr

theorem derefAll_spec {forms : List Formula} : ∀ (is : List Nat) (fs : List Formula),
    derefAll forms is = some fs →
    fs.length = is.length ∧ ∀ (j r : Nat) (f : Formula), is[j]? = some r → fs[j]? = some f → forms[r]? = some f := by
  intro is
  induction is with
  | nil => intro fs h; simp [derefAll] at h; subst h; simp
  | cons i is ih =>
    intro fs h
    simp only [derefAll] at h
    cases hi : forms[i]? with
    | none => simp [hi] at h
    | some f0 =>
      cases hr : derefAll forms is with
      | none => simp [hi, hr] at h
      | some fs0 =>
        simp only [hi, hr, Option.some.injEq] at h
        subst h
        obtain ⟨l0, c0⟩ := ih fs0 hr
        refine ⟨by simp [l0], ?_⟩
        intro j r f hj hf
        cases j with
        | zero => simp at hj hf; subst hj; subst hf; exact hi
        | succ j => simp at hj hf; exact c0 j r f hj hf

theorem lookupAll_spec {α : Type} {l : List α} : ∀ (hs : List Nat) (as : List α),
    lookupAll l hs = some as →
    as.length = hs.length ∧ ∀ (j h : Nat) (a : α), hs[j]? = some h → as[j]? = some a → l[h]? = some a := by
  intro hs
  induction hs with
  | nil => intro as h; simp [lookupAll] at h; subst h; simp
  | cons i is ih =>
    intro as h
    simp only [lookupAll] at h
    cases hi : l[i]? with
    | none => simp [hi] at h
    | some a0 =>
      cases hr : lookupAll l is with
      | none => simp [hi, hr] at h
      | some as0 =>
        simp only [hi, hr, Option.some.injEq] at h
        subst h
        obtain ⟨l0, c0⟩ := ih as0 hr
        refine ⟨by simp [l0], ?_⟩
        intro j h' a hj ha
        cases j with
        | zero => simp at hj ha; subst hj; subst ha; exact hi
        | succ j => simp at hj ha; exact c0 j h' a hj ha

theorem wf_extend' (env env' : XEnv F E) (h : WF env) (nf : List Formula) (ns : List (PSpec F E)) (nr : List Nat)
    (e1 : env'.forms = env.forms ++ nf) (e2 : env'.specs = env.specs ++ ns) (e3 : env'.fref = env.fref ++ nr)
    (hl : nr.length = ns.length)
    (hc : ∀ (j : Nat) (s : PSpec F E) (r : Nat), ns[j]? = some s → nr[j]? = some r →
      (env.forms ++ nf)[r]? = some s.formula) : WF env' := by
  obtain ⟨a, b, c⟩ := env'
  simp only at e1 e2 e3
  subst e1 e2 e3
  exact wf_extend env h nf ns nr hl hc

theorem wf_same (env env' : XEnv F E) (h : WF env) (e1 : env'.forms = env.forms) (e2 : env'.specs = env.specs)
    (e3 : env'.fref = env.fref) : WF env' := by
  obtain ⟨a, b, c⟩ := env'
  simp only at e1 e2 e3
  subst e1 e2 e3
  exact h

theorem pSubset_formula (s s' : PSpec F E) (terms : List Term) (h : pSubset s terms = .ok s') :
    s'.formula = terms := by
  unfold pSubset at h
  split at h
  · cases hs : s.struct with
    | none => simp [hs] at h
    | some st =>
      simp only [hs] at h
      cases hm : terms.mapM (fun t => st.find? fun e => e.term == t) with
      | none => simp [hm] at h
      | some es => simp [hm] at h; subst h; rfl
  · simp at h

/-- the one new spec of `update` (with or without reset) and the object it holds -/
theorem upd_formula_ok (env : XEnv F E) (h : WF env) (u : XUpd) (fs : List Formula) (i r : Nat) (s : PSpec F E)
    (hd : derefAll env.forms u.formula.toList = some fs) (hs : env.specs[i]? = some s) (hr : env.fref[i]? = some r) :
    env.forms[refAfter (some u) r]? = some (pApplyUpd (baseUpd u fs.head?) s).formula := by
  cases hu : u.formula with
  | none =>
    simp only [hu, Option.toList, derefAll, Option.some.injEq] at hd
    subst hd
    simp only [refAfter, pApplyUpd, baseUpd, hu, List.head?_nil]
    exact h.cur i s r hs hr
  | some fid =>
    simp only [hu, Option.toList, derefAll] at hd
    cases hf : env.forms[fid]? with
    | none => simp [hf] at hd
    | some f =>
      simp only [hf, Option.some.injEq] at hd
      subst hd
      simp only [refAfter, pApplyUpd, baseUpd, hu, List.head?_cons]
      exact hf

theorem getElem?_map_formula {l : List (Part F E × PSpec F E)} {fs : List Formula}
    (h : l.map (·.2.formula) = fs) {j : Nat} {s : PSpec F E} (hs : (l.map (·.2))[j]? = some s) :
    fs[j]? = some s.formula := by
  rw [← h]
  simp only [List.getElem?_map] at hs ⊢
  cases hl : l[j]? with
  | none => simp [hl] at hs
  | some x => simp [hl] at hs ⊢; rw [← hs]

theorem peditForm_wf (env : XEnv F E) (fid : Nat) (e : Edit) (h : WF env) : WF (peditForm env fid e).1 := by
  unfold peditForm
  cases hf : env.forms[fid]? with
  | none => exact h
  | some f =>
    simp only
    cases applyEdit f e with
    | error x => exact h
    | ok f' =>
      have hlt : fid < env.forms.length := by
        rcases Nat.lt_or_ge fid env.forms.length with a | a
        · exact a
        · rw [List.getElem?_eq_none_iff.mpr a] at hf; cases hf
      refine ⟨?_, ?_⟩
      · simp [prewriteAll, prewrite, h.len]
      · intro i s' r hs' hr
        simp only at hs' hr ⊢
        rw [prewriteAll_getElem] at hs'
        cases hs : env.specs[i]? with
        | none => simp [hs] at hs'
        | some s =>
          simp only [hs, hr, Option.some.injEq] at hs'
          have hcur := h.cur i s r hs hr
          by_cases hrf : r = fid
          · subst hrf
            simp only [if_true] at hs'
            subst hs'
            simp [List.getElem?_set_self hlt]
          · simp only [hrf, if_false] at hs'
            subst hs'
            rw [List.getElem?_set_ne (Ne.symm hrf)]
            exact hcur

/-- a joint call on spec values `ss'` that hold the formula objects `rs'` -/
theorem wf_call (env : XEnv F E) (h : WF env) (ss' : List (PSpec F E)) (rs' : List Nat) (d : Data)
    (hlen : rs'.length = ss'.length)
    (hcur : ∀ (j : Nat) (s : PSpec F E) (r : Nat), ss'[j]? = some s → rs'[j]? = some r →
      env.forms[r]? = some s.formula) :
    WF (pgrow env (pPublish env.specs (pureCall P ss' d (pFactorsOf ss'))) rs' env.forms).1 := by
  cases hc : pureCall P ss' d (pFactorsOf ss') with
  | error e => exact wf_same env _ h (by simp [pgrow]) (by simp [pgrow, pPublish]) (by simp [pgrow, pPublish])
  | ok l =>
    have hfm := pureCall_formulas P _ d _ l hc
    have hlen2 : l.length = ss'.length := by
      have := congrArg List.length hfm; simpa using this
    refine wf_extend' env _ h [] (l.map (·.2)) rs' (by simp [pgrow]) (by simp [pgrow, pPublish])
      (by simp [pgrow, pPublish, hlen2]; exact List.take_of_length_le (by omega)) (by simp [hlen2, hlen]) ?_
    intro j s r hsj hrj
    simp only [List.append_nil]
    have hf1 := getElem?_map_formula hfm hsj
    simp only [List.getElem?_map] at hf1
    cases hsj' : ss'[j]? with
    | none => simp [hsj'] at hf1
    | some s0 =>
      simp only [hsj', Option.map_some, Option.some.injEq] at hf1
      rw [← hf1]
      exact hcur j s0 r hsj' hrj

/-- every operation keeps the bookkeeping consistent -/
theorem xpstep_wf (env : XEnv F E) (op : XOp) (h : WF env) : WF (xpstep P env op).1 := by
  cases op with
  | formula f =>
    exact wf_extend' env _ h [f] [] [] rfl (by simp [xpstep]) (by simp [xpstep]) rfl (by intro j s r hs; simp at hs)
  | newSpec fid cfg =>
    simp only [xpstep]
    cases hf : env.forms[fid]? with
    | none => exact h
    | some f =>
      refine wf_extend' env _ h [] [⟨f, cfg, none, Dict.empty, Dict.empty⟩] [fid] (by simp [pgrow])
        (by simp [pgrow, pstep]) (by simp [pgrow, pstep]) rfl ?_
      intro j s r hs hr
      cases j with
      | zero => simp at hs hr; subst hs; subst hr; simpa using hf
      | succ j => simp at hs
  | update i u =>
    simp only [xpstep]
    cases hd : derefAll env.forms u.formula.toList with
    | none => exact h
    | some fs =>
      cases hr : env.fref[i]? with
      | none => exact h
      | some r =>
        simp only
        cases hs : env.specs[i]? with
        | none =>
          by_cases hreset : u.resetState = true
          · simp only [hreset, if_true]; exact h
          · have hreset' : u.resetState = false := by simpa using hreset
            simp only [hreset', Bool.false_eq_true, if_false]
            exact wf_same env _ h rfl (by simp [pgrow, pstep, hs]) (by simp [pgrow, pstep, hs])
        | some s =>
          have key := upd_formula_ok env h u fs i r s hd hs hr
          by_cases hreset : u.resetState = true
          · simp only [hreset, if_true]
            refine wf_extend' env _ h [] [_] [refAfter (some u) r] (by simp) rfl rfl rfl ?_
            intro j s' r' hs' hr'
            cases j with
            | zero => simp at hs' hr'; subst hs'; subst hr'; simpa using key
            | succ j => simp at hs'
          · have hreset' : u.resetState = false := by simpa using hreset
            simp only [hreset', Bool.false_eq_true, if_false]
            refine wf_extend' env _ h [] [pApplyUpd (baseUpd u fs.head?) s] [refAfter (some u) r] (by simp [pgrow])
              (by simp [pgrow, pstep, hs]) (by simp [pgrow, pstep, hs]) rfl ?_
            intro j s' r' hs' hr'
            cases j with
            | zero => simp at hs' hr'; subst hs'; subst hr'; simpa using key
            | succ j => simp at hs'
  | subset i picks =>
    simp only [xpstep]
    cases hs : env.specs[i]? with
    | none => exact wf_same env _ h (by simp [pgrow, pstep, hs]) (by simp [pgrow, pstep, hs]) (by simp [pgrow, pstep, hs])
    | some s =>
      cases hp : pSubset s (reorder picks) with
      | error e =>
        exact wf_same env _ h (by simp [pgrow, pstep, hs, hp]) (by simp [pgrow, pstep, hs, hp])
          (by simp [pgrow, pstep, hs, hp])
      | ok s' =>
        have hform := pSubset_formula s s' _ hp
        refine wf_extend' env _ h [reorder picks] [s'] [env.forms.length] (by simp [pgrow, pstep, hs, hp])
          (by simp [pgrow, pstep, hs, hp]) (by simp [pgrow, pstep, hs, hp]) rfl ?_
        intro j s2 r2 hs2 hr2
        cases j with
        | zero => simp at hs2 hr2; subst hs2; subst hr2; simp [hform]
        | succ j => simp at hs2
  | build fids cfg d =>
    simp only [xpstep]
    cases hd : derefAll env.forms fids with
    | none => exact h
    | some fs =>
      obtain ⟨dl, dc⟩ := derefAll_spec fids fs hd
      simp only [pstep]
      cases hc : pureCall P (fs.map fun f => (⟨f, cfg, none, Dict.empty, Dict.empty⟩ : PSpec F E)) d
          (pFactorsOf (fs.map fun f => (⟨f, cfg, none, Dict.empty, Dict.empty⟩ : PSpec F E))) with
      | error e => exact wf_same env _ h (by simp [pgrow, pPublish]) (by simp [pgrow, pPublish]) (by simp [pgrow, pPublish])
      | ok l =>
        have hfm := pureCall_formulas P _ d _ l hc
        rw [List.map_map] at hfm
        have hfm' : l.map (·.2.formula) = fs := by rw [hfm]; simp [Function.comp_def]
        have hlen : l.length = fids.length := by
          have := congrArg List.length hfm'; simp at this; omega
        refine wf_extend' env _ h [] (l.map (·.2)) fids (by simp [pgrow]) (by simp [pgrow, pPublish])
          (by simp [pgrow, pPublish, hlen]) (by simp [hlen]) ?_
        intro j s r hs hr
        simp only [List.append_nil]
        exact dc j r s.formula hr (getElem?_map_formula hfm' hs)
  | call hs u d =>
    simp only [xpstep]
    cases hd : derefAll env.forms (updForms u) with
    | none => exact h
    | some fs =>
      cases hr : lookupAll env.fref hs with
      | none => exact h
      | some rs =>
        cases hl : lookupAll env.specs hs with
        | none => exact wf_same env _ h (by simp [pgrow]) (by simp [pgrow, pstep, hl]) (by simp [pgrow, pstep, hl])
        | some ss =>
          obtain ⟨sl, sc⟩ := lookupAll_spec hs ss hl
          obtain ⟨rl, rc⟩ := lookupAll_spec hs rs hr
          simp only [pstep, hl]
          apply wf_call P env h
          · cases u <;> simp [sl, rl]
          · intro j s r hsj hrj
            simp only [List.getElem?_map] at hrj
            cases hrs : rs[j]? with
            | none => simp [hrs] at hrj
            | some r0 =>
              simp only [hrs, Option.map_some, Option.some.injEq] at hrj
              have hjlt : j < hs.length := by
                rcases Nat.lt_or_ge j hs.length with a | a
                · exact a
                · rw [List.getElem?_eq_none_iff.mpr (by omega)] at hrs; cases hrs
              obtain ⟨hh, hhj⟩ : ∃ hh, hs[j]? = some hh := ⟨hs[j], List.getElem?_eq_getElem hjlt⟩
              have hr0 := rc j hh r0 hhj hrs
              cases hs0 : ss[j]? with
              | none =>
                rw [List.getElem?_eq_none_iff] at hs0
                rw [sl] at hs0; omega
              | some s0 =>
                have hsp := sc j hh s0 hhj hs0
                cases u with
                | none =>
                  simp only [Option.map_none] at hsj
                  rw [hs0] at hsj
                  simp only [Option.some.injEq] at hsj
                  subst hsj
                  simp only [refAfter] at hrj
                  subst hrj
                  exact h.cur hh s0 r0 hsp hr0
                | some u0 =>
                  simp only [Option.map_some, List.getElem?_map, hs0, Option.some.injEq] at hsj
                  subst hsj
                  subst hrj
                  exact upd_formula_ok env h u0 fs hh r0 s0 hd hsp hr0
  | edit fid e => exact peditForm_wf env fid e h
  | editOf i e =>
    simp only [xpstep]
    cases env.fref[i]? with
    | none => exact h
    | some fid => exact peditForm_wf env fid e h

theorem xpfinal_wf : ∀ (h : List XOp) (env : XEnv F E), WF env → WF (xpfinal P env h) := by
  intro h
  induction h with
  | nil => intro env hw; exact hw
  | cons op ops ih => intro env hw; exact ih _ (xpstep_wf P env op hw)

/-- the invariant, for the store model: in every world reachable from the empty one -/
theorem xfinal_wf (h : List XOp) : WF (xabs (xfinal P (XWorld.init : XWorld F E) h)) := by
  rw [(xrun_sim P h XWorld.init xinv_init).2.1]
  exact xpfinal_wf P h _ wf_init

/-! ### growth of the store under operations other than edits -/

theorem xstep_append (xw : XWorld F E) (hi : Inv xw.base) (op : XOp) (hne : op.isEdit = false) :
    (∃ nf, (xstep P xw op).1.forms = xw.forms ++ nf)
    ∧ (∃ ns, absW (xstep P xw op).1.base = absW xw.base ++ ns)
    ∧ (∃ nr, (xstep P xw op).1.fref = xw.fref ++ nr) := by
  have ss := xstep_sim P xw op hi
  obtain ⟨⟨nf, hnf⟩, ⟨ns, hns⟩, ⟨nr, hnr⟩⟩ := xpstep_append P (xabs xw) op hne
  refine ⟨⟨nf, ?_⟩, ⟨ns, ?_⟩, ⟨nr, ?_⟩⟩
  · have : (xabs (xstep P xw op).1).forms = (xabs xw).forms ++ nf := by rw [ss.env, hnf]
    exact this
  · have : (xabs (xstep P xw op).1).specs = (xabs xw).specs ++ ns := by rw [ss.env, hns]
    exact this
  · have : (xabs (xstep P xw op).1).fref = (xabs xw).fref ++ nr := by rw [ss.env, hnr]
    exact this

theorem xfinal_append : ∀ (h1 h2 : List XOp) (xw : XWorld F E),
    xfinal P xw (h1 ++ h2) = xfinal P (xfinal P xw h1) h2 := by
  intro h1
  induction h1 with
  | nil => intro h2 xw; rfl
  | cons op ops ih => intro h2 xw; exact ih h2 _

/-- the formula objects an operation reads are the same when the references only grew -/
theorem xformsOf_append (fref nr : List Nat) (c : XOp) (hc : ∀ i ∈ xhandlesOf c, i < fref.length) :
    xformsOf (fref ++ nr) c = xformsOf fref c := by
  cases c with
  | editOf h e =>
    simp only [xformsOf]
    rw [List.getElem?_append_left (hc h (by simp [xhandlesOf]))]
  | _ => rfl

end FormulaicVerif.Proofs.C18X
