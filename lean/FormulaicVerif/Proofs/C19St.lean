import FormulaicVerif.Model.Structured
import FormulaicVerif.Spec.Containers
/-! Helper lemmas for C19, part 1: `Structured` (`_map`, `_flatten`, shape). Not obligations. -/
namespace FormulaicVerif.Proofs.C19
open FormulaicVerif.Model.St FormulaicVerif.Spec.Containers

variable {α β γ δ : Type}

@[simp] theorem isTup_leaf (a : α) : (Val.leaf a).isTup = false := rfl
@[simp] theorem isTup_tup (vs : List (Val α)) : (Val.tup vs).isTup = true := rfl
@[simp] theorem isTup_node (kvs : Items α) : (Val.node kvs).isTup = false := rfl
@[simp] theorem isNode_leaf (a : α) : (Val.leaf a).isNode = false := rfl
@[simp] theorem isNode_tup (vs : List (Val α)) : (Val.tup vs).isNode = false := rfl
@[simp] theorem isNode_node (kvs : Items α) : (Val.node kvs).isNode = true := rfl

/-! ### map / flatten / log -/

mutual
theorem mapLog_fst (f : α → Path → β) : ∀ (v : Val α) (ctx : Path), (mapLog f ctx v).1 = mapV f ctx v
  | .leaf a, ctx => by simp [mapLog, mapV]
  | .tup vs, ctx => by simp [mapLog, mapV, mapLogT_fst f vs ctx 0]
  | .node kvs, ctx => by simp [mapLog, mapV, mapLogI_fst f kvs ctx]
theorem mapLogT_fst (f : α → Path → β) : ∀ (vs : List (Val α)) (ctx : Path) (i : Nat),
    (mapLogT f ctx i vs).1 = mapT f ctx i vs
  | [], ctx, i => by simp [mapLogT, mapT]
  | v :: vs, ctx, i => by simp [mapLogT, mapT, mapLog_fst f v, mapLogT_fst f vs]
theorem mapLogI_fst (f : α → Path → β) : ∀ (kvs : Items α) (ctx : Path),
    (mapLogI f ctx kvs).1 = mapI f ctx kvs
  | [], ctx => by simp [mapLogI, mapI]
  | (k, v) :: r, ctx => by simp [mapLogI, mapI, mapLog_fst f v, mapLogI_fst f r]
end

mutual
theorem mapLog_snd (f : α → Path → β) : ∀ (v : Val α) (ctx : Path), (mapLog f ctx v).2 = flattenP ctx v
  | .leaf a, ctx => by simp [mapLog, flattenP]
  | .tup vs, ctx => by simp [mapLog, flattenP, mapLogT_snd f vs ctx 0]
  | .node kvs, ctx => by simp [mapLog, flattenP, mapLogI_snd f kvs ctx]
theorem mapLogT_snd (f : α → Path → β) : ∀ (vs : List (Val α)) (ctx : Path) (i : Nat),
    (mapLogT f ctx i vs).2 = flattenPT ctx i vs
  | [], ctx, i => by simp [mapLogT, flattenPT]
  | v :: vs, ctx, i => by simp [mapLogT, flattenPT, mapLog_snd f v, mapLogT_snd f vs]
theorem mapLogI_snd (f : α → Path → β) : ∀ (kvs : Items α) (ctx : Path),
    (mapLogI f ctx kvs).2 = flattenPI ctx kvs
  | [], ctx => by simp [mapLogI, flattenPI]
  | (k, v) :: r, ctx => by simp [mapLogI, flattenPI, mapLog_snd f v, mapLogI_snd f r]
end

mutual
theorem flattenP_fst : ∀ (v : Val α) (ctx : Path), (flattenP ctx v).map (·.1) = flatten v
  | .leaf a, ctx => by simp [flattenP, flatten]
  | .tup vs, ctx => by simp [flattenP, flatten, flattenPT_fst vs ctx 0]
  | .node kvs, ctx => by simp [flattenP, flatten, flattenPI_fst kvs ctx]
theorem flattenPT_fst : ∀ (vs : List (Val α)) (ctx : Path) (i : Nat),
    (flattenPT ctx i vs).map (·.1) = flattenT vs
  | [], ctx, i => by simp [flattenPT, flattenT]
  | v :: vs, ctx, i => by simp [flattenPT, flattenT, flattenP_fst v, flattenPT_fst vs]
theorem flattenPI_fst : ∀ (kvs : Items α) (ctx : Path), (flattenPI ctx kvs).map (·.1) = flattenI kvs
  | [], ctx => by simp [flattenPI, flattenI]
  | (k, v) :: r, ctx => by simp [flattenPI, flattenI, flattenP_fst v, flattenPI_fst r]
end


/-! ### list forms -/
theorem mapI_eq (f : α → Path → β) (ctx : Path) (kvs : Items α) :
    mapI f ctx kvs = kvs.map (fun kv => (kv.1, mapV f (ctx ++ [.key kv.1]) kv.2)) := by
  induction kvs with
  | nil => rfl
  | cons kv r ih => obtain ⟨k, v⟩ := kv; simp [mapI, ih]

theorem shapeI_eq (kvs : Items α) : shapeI kvs = kvs.map (fun kv => (kv.1, shape kv.2)) := by
  induction kvs with
  | nil => rfl
  | cons kv r ih => obtain ⟨k, v⟩ := kv; simp [shapeI, ih]

theorem normI_eq (kvs : Items α) : normI kvs = kvs.map (fun kv => (kv.1, norm kv.2)) := by
  induction kvs with
  | nil => rfl
  | cons kv r ih => obtain ⟨k, v⟩ := kv; simp [normI, ih]

theorem simpI_eq (kvs : Items α) : simpI kvs = kvs.map (fun kv => (kv.1, simpObj kv.2)) := by
  induction kvs with
  | nil => rfl
  | cons kv r ih => obtain ⟨k, v⟩ := kv; simp [simpI, ih]

/-! ### rootLast -/
theorem rootLast_map (g : String → γ → δ) (xs : List (String × γ)) :
    rootLast (xs.map (fun kv => (kv.1, g kv.1 kv.2))) = (rootLast xs).map (fun kv => (kv.1, g kv.1 kv.2)) := by
  simp [rootLast, List.filter_map, Function.comp_def]

theorem rootLast_map_val (g : γ → δ) (xs : List (String × γ)) :
    rootLast (xs.map (fun kv => (kv.1, g kv.2))) = (rootLast xs).map (fun kv => (kv.1, g kv.2)) :=
  rootLast_map (fun _ v => g v) xs

theorem lookup_append' (a b : List (String × γ)) (k : String) :
    (a ++ b).lookup k = match a.lookup k with | some v => some v | none => b.lookup k := by
  induction a with
  | nil => simp
  | cons kv r ih =>
    obtain ⟨k', v⟩ := kv
    by_cases h : k = k'
    · subst h; simp [List.lookup]
    · have : (k == k') = false := by simpa using h
      simp [List.lookup, this, ih]

theorem lookup_filter_key (p : String → Bool) (xs : List (String × γ)) (k : String) :
    (xs.filter (fun kv => p kv.1)).lookup k = if p k then xs.lookup k else none := by
  induction xs with
  | nil => simp
  | cons kv r ih =>
    obtain ⟨k', v⟩ := kv
    by_cases h : k = k'
    · subst h
      by_cases hp : p k <;> simp [List.lookup, hp, ih]
    · have hb : (k == k') = false := by simpa using h
      by_cases hp : p k' <;> simp [List.lookup, hp, hb, ih]

theorem lookup_rootLast (xs : List (String × γ)) (k : String) : (rootLast xs).lookup k = xs.lookup k := by
  unfold rootLast
  rw [lookup_append', lookup_filter_key (fun k => !isRootKey k), lookup_filter_key isRootKey]
  by_cases h : isRootKey k <;> simp [h]
  cases xs.lookup k <;> rfl

theorem rootLast_perm (xs : List (String × γ)) : (rootLast xs).Perm xs := by
  unfold rootLast
  refine (List.perm_append_comm).trans ?_
  exact List.filter_append_perm _ _

/-! ### shape -/
mutual
theorem shape_mapV (f : α → Path → β) : ∀ (v : Val α) (ctx : Path), shape (mapV f ctx v) = shape (norm v)
  | .leaf a, ctx => by simp [mapV, norm, shape]
  | .tup vs, ctx => by simp [mapV, norm, shape, shapeT_mapT f vs ctx 0]
  | .node kvs, ctx => by
    have h := shapeI_mapI f kvs ctx
    simp only [mapV, norm, shape, shapeI_eq] at h ⊢
    rw [← rootLast_map_val shape, ← rootLast_map_val shape, h]
theorem shapeT_mapT (f : α → Path → β) : ∀ (vs : List (Val α)) (ctx : Path) (i : Nat),
    shapeT (mapT f ctx i vs) = shapeT (normT vs)
  | [], ctx, i => by simp [mapT, normT, shapeT]
  | v :: vs, ctx, i => by simp [mapT, normT, shapeT, shape_mapV f v, shapeT_mapT f vs]
theorem shapeI_mapI (f : α → Path → β) : ∀ (kvs : Items α) (ctx : Path),
    shapeI (mapI f ctx kvs) = shapeI (normI kvs)
  | [], ctx => by simp [mapI, normI, shapeI]
  | (k, v) :: r, ctx => by simp [mapI, normI, shapeI, shape_mapV f v, shapeI_mapI f r]
end

mutual
theorem norm_of_rootLast : ∀ (v : Val α), RootLast v → norm v = v
  | .leaf a, _ => by simp [norm]
  | .tup vs, h => by simp [norm, normT_of_rootLast vs (by simpa [RootLast] using h)]
  | .node kvs, h => by
    simp only [RootLast] at h
    simp [norm, normI_of_rootLast kvs h.2, h.1]
theorem normT_of_rootLast : ∀ (vs : List (Val α)), RootLastT vs → normT vs = vs
  | [], _ => by simp [normT]
  | v :: vs, h => by
    simp only [RootLastT] at h
    simp [normT, norm_of_rootLast v h.1, normT_of_rootLast vs h.2]
theorem normI_of_rootLast : ∀ (kvs : Items α), RootLastI kvs → normI kvs = kvs
  | [], _ => by simp [normI]
  | (k, v) :: r, h => by
    simp only [RootLastI] at h
    simp [normI, norm_of_rootLast v h.1, normI_of_rootLast r h.2]
end


/-! ### `_map` as a dictionary map -/
theorem lookup_mapI (f : α → Path → β) (ctx : Path) (kvs : Items α) (k : String) :
    (mapI f ctx kvs).lookup k = (kvs.lookup k).map (mapV f (ctx ++ [.key k])) := by
  induction kvs with
  | nil => simp [mapI]
  | cons kv r ih =>
    obtain ⟨k', v⟩ := kv
    by_cases h : k = k'
    · subst h; simp [mapI, List.lookup]
    · have hb : (k == k') = false := by simpa using h
      simp [mapI, List.lookup, hb, ih]

theorem keys_mapI (f : α → Path → β) (ctx : Path) (kvs : Items α) :
    (mapI f ctx kvs).map (·.1) = kvs.map (·.1) := by
  simp [mapI_eq]

/-! ### flatten of a mapped structure -/
theorem flattenI_append (a b : Items α) : flattenI (a ++ b) = flattenI a ++ flattenI b := by
  induction a with
  | nil => simp [flattenI]
  | cons kv r ih => obtain ⟨k, v⟩ := kv; simp [flattenI, ih]

theorem flattenPI_append (ctx : Path) (a b : Items α) :
    flattenPI ctx (a ++ b) = flattenPI ctx a ++ flattenPI ctx b := by
  induction a with
  | nil => simp [flattenPI]
  | cons kv r ih => obtain ⟨k, v⟩ := kv; simp [flattenPI, ih]

mutual
theorem flatten_mapV (f : α → Path → β) : ∀ (v : Val α) (ctx : Path),
    flatten (mapV f ctx v) = (flattenP ctx (norm v)).map (fun e => f e.1 e.2)
  | .leaf a, ctx => by simp [mapV, norm, flatten, flattenP]
  | .tup vs, ctx => by simp [mapV, norm, flatten, flattenP, flattenT_mapT f vs ctx 0]
  | .node kvs, ctx => by
    simp only [mapV, norm, flatten, flattenP, rootLast, flattenI_append, flattenPI_append,
      List.map_append]
    rw [flattenI_mapI f kvs ctx (fun k => !isRootKey k), flattenI_mapI f kvs ctx isRootKey]
theorem flattenT_mapT (f : α → Path → β) : ∀ (vs : List (Val α)) (ctx : Path) (i : Nat),
    flattenT (mapT f ctx i vs) = (flattenPT ctx i (normT vs)).map (fun e => f e.1 e.2)
  | [], ctx, i => by simp [mapT, normT, flattenT, flattenPT]
  | v :: vs, ctx, i => by
    simp [mapT, normT, flattenT, flattenPT, flatten_mapV f v, flattenT_mapT f vs]
theorem flattenI_mapI (f : α → Path → β) : ∀ (kvs : Items α) (ctx : Path) (p : String → Bool),
    flattenI ((mapI f ctx kvs).filter (fun kv => p kv.1))
      = (flattenPI ctx ((normI kvs).filter (fun kv => p kv.1))).map (fun e => f e.1 e.2)
  | [], ctx, p => by simp [mapI, normI, flattenI, flattenPI]
  | (k, v) :: r, ctx, p => by
    by_cases hp : p k
    · simp [mapI, normI, hp, flattenI, flattenPI, flatten_mapV f v,
        flattenI_mapI f r ctx p]
    · simp [mapI, normI, hp, flattenI_mapI f r ctx p]
end

theorem flattenPI_perm (ctx : Path) {xs ys : Items α} (h : xs.Perm ys) :
    (flattenPI ctx xs).Perm (flattenPI ctx ys) := by
  induction h with
  | nil => exact List.Perm.refl _
  | cons x _ ih => obtain ⟨k, v⟩ := x; simp only [flattenPI]; exact List.Perm.append_left _ ih
  | swap x y l =>
    obtain ⟨k, v⟩ := x; obtain ⟨k', v'⟩ := y
    simp only [flattenPI, ← List.append_assoc]
    exact List.Perm.append_right _ List.perm_append_comm
  | trans _ _ ih1 ih2 => exact ih1.trans ih2

mutual
theorem flattenP_norm_perm : ∀ (v : Val α) (ctx : Path), (flattenP ctx (norm v)).Perm (flattenP ctx v)
  | .leaf a, ctx => by simp [norm]
  | .tup vs, ctx => by simpa [norm, flattenP] using flattenPT_norm_perm vs ctx 0
  | .node kvs, ctx => by
    simp only [norm, flattenP]
    exact (flattenPI_perm ctx (rootLast_perm _)).trans (flattenPI_norm_perm kvs ctx)
theorem flattenPT_norm_perm : ∀ (vs : List (Val α)) (ctx : Path) (i : Nat),
    (flattenPT ctx i (normT vs)).Perm (flattenPT ctx i vs)
  | [], ctx, i => by simp [normT]
  | v :: vs, ctx, i => by
    simp only [normT, flattenPT]
    exact List.Perm.append (flattenP_norm_perm v _) (flattenPT_norm_perm vs ctx (i + 1))
theorem flattenPI_norm_perm : ∀ (kvs : Items α) (ctx : Path),
    (flattenPI ctx (normI kvs)).Perm (flattenPI ctx kvs)
  | [], ctx => by simp [normI]
  | (k, v) :: r, ctx => by
    simp only [normI, flattenPI]
    exact List.Perm.append (flattenP_norm_perm v _) (flattenPI_norm_perm r ctx)
end

end FormulaicVerif.Proofs.C19
