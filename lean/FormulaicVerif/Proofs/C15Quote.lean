import FormulaicVerif.Proofs.C15
/-! Helper lemmas for C15: inside a quote context every character is appended to the pending token;
what the characters do to the quote stack is a function of the stack alone (`qStep`/`qRun`). Hence
`{body}`, `` `body` `` and `%body%` are ONE token with the body verbatim whenever the body leaves the
quote stack where it found it (`quoted_verbatim`), in particular when it contains no character that
touches the stack (`brace_verbatim`). -/
namespace FormulaicVerif.Proofs.C15Quote
open FormulaicVerif FormulaicVerif.Model FormulaicVerif.Proofs.C15

/-- what one character does to the quote stack and the escape counter, inside a quote context -/
def qStep (qc : List Char) (take : Nat) (c : Char) : List Char × Nat :=
  if take > 0 then (qc, take - 1)
  else match qc with
  | [] => ([], take)
  | top :: rest =>
    if c == '\\' then (qc, 1)
    else if c == top then (rest, take)
    else ((if (c == '`' || c == '(' || c == '[' || c == '{' || c == '"' || c == '\'')
                && (top == '}' || top == ')' || top == ']') then closerOf c :: qc else qc), take)

/-- run `qStep` over a string; `none` as soon as the stack becomes empty (the quote closed) -/
def qRun : List Char → Nat → List Char → Option (List Char × Nat)
  | qc, take, [] => some (qc, take)
  | qc, take, c :: cs =>
    if (qStep qc take c).1 = [] then none else qRun (qStep qc take c).1 (qStep qc take c).2 cs

theorem lexStep_in_quote (s : LexState) (i : Nat) (ci : CharInfo) (hq : s.qc ≠ [])
    (hne : s.tok.nonempty = true ∨ s.qc.length ≤ 1) (hr : (qStep s.qc s.take ci.c).1 ≠ []) :
    lexStep s i ci = .ok { s with tok := s.tok.update ci.c i, qc := (qStep s.qc s.take ci.c).1,
                                  take := (qStep s.qc s.take ci.c).2 } := by
  unfold lexStep
  by_cases ht : s.take > 0
  · simp only [ht, if_true, qStep]
  · have ht0 : s.take = 0 := by omega
    simp only [ht, if_false]
    cases hqc : s.qc with
    | nil => exact absurd hqc hq
    | cons top rest =>
      rw [hqc] at hr hne
      simp only [qStep, ht, if_false] at hr ⊢
      unfold lexQuoted
      by_cases h1 : (ci.c == '\\') = true
      · simp only [h1, if_true, hqc, ht0]
      · have h1' : (ci.c == '\\') = false := by simpa only [Bool.not_eq_true] using h1
        simp only [h1', Bool.false_eq_true, if_false] at hr ⊢
        by_cases h2 : (ci.c == top) = true
        · simp only [h2, if_true, Bool.and_true] at hr ⊢
          have hrest : rest ≠ [] := hr
          have hre : (!rest.isEmpty) = true := by
            cases rest with
            | nil => exact absurd rfl hrest
            | cons _ _ => rfl
          have hn : s.tok.nonempty = true := by
            rcases hne with hn | hl
            · exact hn
            · cases rest with
              | nil => exact absurd rfl hrest
              | cons _ _ => simp at hl
          by_cases h3 : (top == '}' || top == '`' || top == '%') = true
          · simp only [h3, if_true, hn, hre]
          · have h3' : (top == '}' || top == '`' || top == '%') = false := by simpa only [Bool.not_eq_true] using h3
            simp only [h3', Bool.false_eq_true, if_false]
        · have h2' : (ci.c == top) = false := by simpa only [Bool.not_eq_true] using h2
          simp only [h2', Bool.and_false, Bool.false_eq_true, if_false, hqc]

theorem update_nonempty (t : Tok) (c : Char) (i : Nat) : (t.update c i).nonempty = true := by
  simp [Tok.nonempty, Tok.update]

theorem lexLoop_in_quote (body : List CharInfo) : ∀ (tail : List CharInfo) (i : Nat) (s : LexState) (q : List Char) (t : Nat),
    s.qc ≠ [] → (s.tok.nonempty = true ∨ s.qc.length ≤ 1) →
    qRun s.qc s.take (body.map (·.c)) = some (q, t) →
    lexLoop (body ++ tail) i s = lexLoop tail (i + body.length) { s with tok := updAll s.tok body i, qc := q, take := t } := by
  induction body with
  | nil =>
    intro tail i s q t _ _ hrun
    simp only [List.map_nil, qRun, Option.some.injEq, Prod.mk.injEq] at hrun
    obtain ⟨rfl, rfl⟩ := hrun
    simp [updAll]
  | cons ci body ih =>
    intro tail i s q t hq hne hrun
    simp only [List.map_cons, qRun] at hrun
    by_cases hr : (qStep s.qc s.take ci.c).1 = []
    · simp [hr] at hrun
    · rw [if_neg hr] at hrun
      simp only [List.cons_append, lexLoop]
      rw [lexStep_in_quote s i ci hq hne hr]
      simp only
      rw [ih tail (i + 1) ⟨(qStep s.qc s.take ci.c).1, (qStep s.qc s.take ci.c).2, s.tok.update ci.c i, s.out⟩ q t
        hr (Or.inl (update_nonempty _ _ _)) hrun]
      simp only [updAll, List.length_cons]
      congr 1
      omega

/-- the three quote characters that open a token at top level, with their closer and token kind -/
def Opener (o cl : Char) (k : TKind) : Prop :=
  (o = '%' ∧ cl = '%' ∧ k = .operator) ∨ (o = '{' ∧ cl = '}' ∧ k = .python) ∨ (o = '`' ∧ cl = '`' ∧ k = .name)

/-- **Quoted tokens are verbatim.** If the body of `{body}` / `` `body` `` / `%body%` is non-empty
and leaves the quote stack as it found it (nested brackets and string quotes balanced, escapes
complete, and the outer closer not met before), the whole string is ONE token of the quote's kind
whose text is the body, character for character, with the span from the opening quote character to
the last body character. -/
theorem quoted_verbatim (body : List CharInfo) (op cl : CharInfo) (c : Char) (k : TKind)
    (ho : Opener op.c c k) (hcl : cl.c = c) (hne : body ≠ [])
    (hrun : qRun [c] 0 (body.map (·.c)) = some ([c], 0)) :
    tokenize (op :: body ++ [cl]) =
      .ok [{ text := body.map (·.c), kind := some k, start := some 0, stop := some body.length }] := by
  unfold tokenize tokenizeStream
  have hopen : lexStep {} 0 op = .ok { qc := [c], take := 0, tok := Tok.opened k 0, out := [] } := by
    unfold lexStep lexQuoted lexTop lexPlain
    rcases ho with ⟨h1, rfl, rfl⟩ | ⟨h1, rfl, rfl⟩ | ⟨h1, rfl, rfl⟩ <;> simp [h1, Tok.nonempty]
  simp only [List.cons_append, lexLoop, hopen]
  rw [lexLoop_in_quote body [cl] 1 _ [c] 0 (by simp) (Or.inr (by simp)) hrun]
  obtain ⟨ht, hk⟩ := updAll_text body (Tok.opened k 0) 1
  obtain ⟨hs, he⟩ := updAll_span body (Tok.opened k 0) 1 0 rfl hne
  have hnon : (updAll (Tok.opened k 0) body 1).nonempty = true := by
    unfold Tok.nonempty
    rw [ht]
    cases body with
    | nil => exact absurd rfl hne
    | cons c cs => simp
  have hclose : lexStep { qc := [c], take := 0, tok := updAll (Tok.opened k 0) body 1, out := [] }
      (1 + body.length) cl
      = .ok { qc := [], take := 0, tok := Tok.fresh, out := [updAll (Tok.opened k 0) body 1] } := by
    unfold lexStep lexQuoted lexTop lexPlain
    rcases ho with ⟨_, rfl, _⟩ | ⟨_, rfl, _⟩ | ⟨_, rfl, _⟩ <;> simp [hcl, hnon]
  simp only [lexLoop, hclose]
  simp only [List.isEmpty_nil, Bool.not_true, Bool.false_eq_true, if_false, Tok.fresh, Tok.nonempty,
    List.reverse_cons, List.reverse_nil, List.nil_append]
  congr 2
  have hlen : 1 + body.length - 1 = body.length := by omega
  cases hu : updAll (Tok.opened k 0) body 1 with
  | mk text kind start stop =>
    rw [hu] at ht hk hs he
    simp only [Tok.opened, List.nil_append] at ht hk hs he
    simp [ht, hk, hs, he, hlen]

/-- characters that do not touch the quote stack inside `{…}`: no backslash, no braces, no backtick,
no string quote and no opening bracket -/
def BraceSafe (ci : CharInfo) : Prop :=
  ci.c ≠ '\\' ∧ ci.c ≠ '}' ∧ ci.c ≠ '{' ∧ ci.c ≠ '`' ∧ ci.c ≠ '(' ∧ ci.c ≠ '[' ∧ ci.c ≠ '"' ∧ ci.c ≠ '\''

theorem qStep_braceSafe (ci : CharInfo) (h : BraceSafe ci) : qStep ['}'] 0 ci.c = (['}'], 0) := by
  obtain ⟨h1, h2, h3, h4, h5, h6, h7, h8⟩ := h
  simp [qStep, h1, h2, h3, h4, h5, h6, h7, h8]

theorem qRun_braceSafe (body : List CharInfo) (h : ∀ ci ∈ body, BraceSafe ci) :
    qRun ['}'] 0 (body.map (·.c)) = some (['}'], 0) := by
  induction body with
  | nil => rfl
  | cons ci body ih =>
    simp only [List.map_cons, qRun, qStep_braceSafe ci (h ci (by simp))]
    simpa using ih (fun c hc => h c (by simp [hc]))

/-- a brace-quoted Python fragment without backslash, braces, backtick, string quotes or opening
brackets is ONE python token whose text is the fragment verbatim -/
theorem brace_verbatim (body : List CharInfo) (ob cb : CharInfo) (hb : ∀ ci ∈ body, BraceSafe ci)
    (hne : body ≠ []) (h1 : ob.c = '{') (h2 : cb.c = '}') :
    tokenize (ob :: body ++ [cb]) =
      .ok [{ text := body.map (·.c), kind := some .python, start := some 0, stop := some body.length }] :=
  quoted_verbatim body ob cb '}' .python (Or.inr (Or.inl ⟨h1, rfl, rfl⟩)) h2 hne (qRun_braceSafe body hb)

end FormulaicVerif.Proofs.C15Quote
