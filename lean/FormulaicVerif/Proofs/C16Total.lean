import FormulaicVerif.Model.ConstraintParse
import FormulaicVerif.Proofs.C15Kinds
/-! C16: totality of the reading `nodeOfAst` of the constraint parser's trees.

Generic part (any operator table, any token list): every tree the base-resolver shunting-yard returns
is `Shaped`: each operator in it is a candidate of the table and has exactly as many arguments as
`operate` gives it (2 for an infix operator, `arity` otherwise), and each leaf is a token of the input
that is neither a bracket nor an operator. Specific part: a `decide`-checked fact about
`Gen.constraintTable`, and `tokens_have_kinds`. -/
namespace FormulaicVerif.Proofs.C16Total
open FormulaicVerif FormulaicVerif.Model FormulaicVerif.Model.ConstraintParse

/-- the number of arguments `operate` puts under an operator -/
def nargs (o : OpSpec) : Nat :=
  match o.fixity with
  | .infix => 2
  | _ => o.arity

/-- every operator satisfies `P` and has `nargs` arguments; every leaf token satisfies `Q` -/
def Shaped (P : OpSpec → Prop) (Q : Tok → Prop) : Ast → Prop
  | .leaf t => Q t
  | .node o args => P o ∧ args.length = nargs o ∧ allShaped P Q args
where
  allShaped (P : OpSpec → Prop) (Q : Tok → Prop) : List Ast → Prop
    | [] => True
    | a :: as => Shaped P Q a ∧ allShaped P Q as

theorem allShaped_iff (P : OpSpec → Prop) (Q : Tok → Prop) (l : List Ast) :
    Shaped.allShaped P Q l ↔ ∀ a ∈ l, Shaped P Q a := by
  induction l with
  | nil => simp [Shaped.allShaped]
  | cons a as ih => simp [Shaped.allShaped, ih]

section Generic
variable (P : OpSpec → Prop) (Q : Tok → Prop)

def OutOk (out : List Ast) : Prop := ∀ a ∈ out, Shaped P Q a
def StackOk (stk : List SEntry) : Prop := ∀ e ∈ stk, ∀ o i, e = .op o i → P o

theorem stackOk_tail {P : OpSpec → Prop} {e : SEntry} {stk : List SEntry} (h : StackOk P (e :: stk)) :
    StackOk P stk := fun e' he => h e' (by simp [he])

theorem operate_ok (o : OpSpec) (i : Nat) (out out' : List Ast) (ho : P o) (h : OutOk P Q out)
    (hr : operate o i out = .ok out') : OutOk P Q out' := by
  unfold operate at hr
  split at hr
  split at hr
  · cases hr
  · rename_i lo hi neg heq hcond
    injection hr with hr
    subst hr
    intro a ha
    simp only [List.mem_append, List.mem_cons, List.mem_nil_iff, or_false] at ha
    rcases ha with (ha | ha) | ha
    · exact h a (List.mem_of_mem_take ha)
    · subst ha
      refine ⟨ho, ?_, ?_⟩
      · simp only [Bool.or_eq_true, decide_eq_true_eq, not_or, Bool.not_eq_true, Nat.not_lt] at hcond
        obtain ⟨hneg, hhi⟩ := hcond
        simp only [List.length_take, List.length_drop]
        cases hf : o.fixity <;> rw [hf] at heq <;> simp only [Prod.mk.injEq] at heq <;>
          obtain ⟨h1, h2, h3⟩ := heq <;> subst h1 <;> subst h2 <;> subst h3 <;>
          simp only [nargs, hf] <;>
          (try simp only [decide_eq_false_iff_not, Nat.not_lt] at hneg) <;> omega
      · rw [allShaped_iff]
        intro b hb
        exact h b (List.mem_of_mem_drop (List.mem_of_mem_take hb))
    · exact h a (List.mem_of_mem_drop ha)

theorem popWhile_ok (c : OpSpec) : ∀ (stk : List SEntry) (out : List Ast) (s' : ShState),
    OutOk P Q out → StackOk P stk → popWhile c out stk = .ok s' →
      OutOk P Q s'.out ∧ StackOk P s'.stack := by
  intro stk
  induction stk with
  | nil => intro out s' h1 h2 h; simp [popWhile] at h; subst h; exact ⟨h1, h2⟩
  | cons en stk ih =>
    intro out s' h1 h2 h
    cases en with
    | ctx ch i => simp [popWhile] at h; subst h; exact ⟨h1, h2⟩
    | op o i =>
      unfold popWhile at h
      split at h
      · cases ho : operate o i out with
        | error e => rw [ho] at h; cases h
        | ok out' =>
          rw [ho] at h
          have hod := h2 (.op o i) (by simp) o i rfl
          exact ih out' s' (operate_ok P Q o i out out' hod h1 ho) (stackOk_tail h2) h
      · injection h with h; subst h; exact ⟨h1, h2⟩

theorem tryCands_ok (cs : List OpSpec) (hcs : ∀ c ∈ cs, P c) : ∀ (s s' : ShState),
    OutOk P Q s.out → StackOk P s.stack → tryCands cs s = .ok s' →
      OutOk P Q s'.out ∧ StackOk P s'.stack := by
  induction cs with
  | nil => intro s s' _ _ h; simp [tryCands] at h
  | cons c cs ih =>
    have ih := ih (fun d hd => hcs d (by simp [hd]))
    have hc : P c := hcs c (by simp)
    intro s s' h1 h2 h
    unfold tryCands at h
    split at h
    · exact ih s s' h1 h2 h
    · split at h
      · exact ih s s' h1 h2 h
      · cases hp : popWhile c s.out s.stack with
        | error e => rw [hp] at h; cases h
        | ok s1 =>
          rw [hp] at h
          obtain ⟨k1, k2⟩ := popWhile_ok P Q c s.stack s.out s1 h1 h2 hp
          simp only at h
          have hpush : StackOk P (SEntry.op c s1.out.length :: s1.stack) := by
            intro e he o i heq
            rcases List.mem_cons.mp he with rfl | he
            · injection heq with h1' _; subst h1'; exact hc
            · exact k2 e he o i heq
          split at h <;> (try split at h) <;>
            first
            | (injection h with h; subst h; exact ⟨k1, hpush⟩)
            | exact ih s1 s' k1 k2 h

theorem closeCtx_ok (op : Char) : ∀ (stk : List SEntry) (out : List Ast) (s' : ShState),
    OutOk P Q out → StackOk P stk → closeCtx op out stk = .ok s' →
      OutOk P Q s'.out ∧ StackOk P s'.stack := by
  intro stk
  induction stk with
  | nil => intro out s' _ _ h; simp [closeCtx] at h
  | cons en stk ih =>
    intro out s' h1 h2 h
    cases en with
    | ctx ch i =>
      unfold closeCtx at h
      split at h
      · injection h with h; subst h; exact ⟨h1, stackOk_tail h2⟩
      · cases h
    | op o i =>
      unfold closeCtx at h
      cases ho : operate o i out with
      | error e => rw [ho] at h; cases h
      | ok out' =>
        rw [ho] at h
        have hod := h2 (.op o i) (by simp) o i rfl
        exact ih out' s' (operate_ok P Q o i out out' hod h1 ho) (stackOk_tail h2) h

theorem runCands_ok (gs : List (List OpSpec)) (hgs : ∀ g ∈ gs, ∀ c ∈ g, P c) : ∀ (s s' : ShState),
    OutOk P Q s.out → StackOk P s.stack → runCands gs s = .ok s' →
      OutOk P Q s'.out ∧ StackOk P s'.stack := by
  induction gs with
  | nil => intro s s' h1 h2 h; simp [runCands] at h; subst h; exact ⟨h1, h2⟩
  | cons g gs ih =>
    intro s s' h1 h2 h
    unfold runCands at h
    cases ht : tryCands g s with
    | error e => rw [ht] at h; cases h
    | ok s1 =>
      rw [ht] at h
      obtain ⟨k1, k2⟩ := tryCands_ok P Q g (hgs g (by simp)) s s1 h1 h2 ht
      exact ih (fun g' hg' => hgs g' (by simp [hg'])) s1 s' k1 k2 h

theorem finish_ok : ∀ (stk : List SEntry) (out out' : List Ast),
    OutOk P Q out → StackOk P stk → finish out stk = .ok out' → OutOk P Q out' := by
  intro stk
  induction stk with
  | nil => intro out out' h1 _ h; simp [finish] at h; subst h; exact h1
  | cons en stk ih =>
    intro out out' h1 h2 h
    cases en with
    | ctx ch i => simp [finish] at h
    | op o i =>
      unfold finish at h
      cases ho : operate o i out with
      | error e => rw [ho] at h; cases h
      | ok o1 =>
        rw [ho] at h
        have hod := h2 (.op o i) (by simp) o i rfl
        exact ih o1 out' (operate_ok P Q o i out o1 hod h1 ho) (stackOk_tail h2) h

end Generic

/-- `o` is one of the candidates registered in the table -/
def InTable (tab : OpTable) (o : OpSpec) : Prop := ∃ p ∈ tab, o ∈ p.2

/-- a leaf of the tree: an input token satisfying `Q` that is neither a bracket nor an operator -/
def LeafTok (Q : Tok → Prop) (t : Tok) : Prop :=
  Q t ∧ t.kind ≠ some .context ∧ t.kind ≠ some .operator

theorem lookup_inTable (tab : OpTable) (sym : String) (cands : List OpSpec)
    (h : tab.lookup sym = some cands) : ∀ c ∈ cands, InTable tab c := by
  unfold OpTable.lookup at h
  cases hf : tab.find? (fun p => p.1 == sym) with
  | none => rw [hf] at h; cases h
  | some p =>
    rw [hf] at h
    injection h with h
    subst h
    intro c hc
    exact ⟨p, List.mem_of_find?_eq_some hf, hc⟩

theorem shuntStepBase_ok (tab : OpTable) (Q : Tok → Prop) (s s' : ShState) (t : Tok) (ht : Q t)
    (h1 : OutOk (InTable tab) (LeafTok Q) s.out) (h2 : StackOk (InTable tab) s.stack)
    (h : shuntStepBase tab s t = .ok s') :
    OutOk (InTable tab) (LeafTok Q) s'.out ∧ StackOk (InTable tab) s'.stack := by
  have hctx : ∀ c n, StackOk (InTable tab) (SEntry.ctx c n :: s.stack) := by
    intro c n e he o i heq
    rcases List.mem_cons.mp he with rfl | he
    · cases heq
    · exact h2 e he o i heq
  unfold shuntStepBase at h
  split at h
  · split at h
    · injection h with h; subst h; exact ⟨h1, hctx _ _⟩
    · split at h
      · injection h with h; subst h; exact ⟨h1, hctx _ _⟩
      · split at h
        · exact closeCtx_ok _ _ _ _ _ _ h1 h2 h
        · split at h
          · exact closeCtx_ok _ _ _ _ _ _ h1 h2 h
          · cases h
  · cases hr : resolveBase tab t.text with
    | error e => rw [hr] at h; cases h
    | ok gs =>
      rw [hr] at h
      refine runCands_ok _ _ gs ?_ s s' h1 h2 h
      unfold resolveBase at hr
      cases hl : tab.lookup (String.ofList t.text) with
      | none => rw [hl] at hr; cases hr
      | some cands =>
        rw [hl] at hr
        injection hr with hr
        subst hr
        intro g hg c hc
        simp only [List.mem_singleton] at hg
        subst hg
        exact lookup_inTable tab _ _ hl c hc
  · rename_i hnc hno
    injection h with h; subst h
    refine ⟨?_, h2⟩
    intro a ha
    simp only [List.mem_append, List.mem_cons, List.mem_nil_iff, or_false] at ha
    rcases ha with ha | ha
    · exact h1 a ha
    · subst ha
      exact ⟨ht, fun hk => hnc hk, fun hk => hno hk⟩

theorem shuntRunBase_ok (tab : OpTable) (Q : Tok → Prop) (ts : List Tok) (hts : ∀ t ∈ ts, Q t) :
    ∀ (s s' : ShState), OutOk (InTable tab) (LeafTok Q) s.out → StackOk (InTable tab) s.stack →
      shuntRunBase tab ts s = .ok s' →
      OutOk (InTable tab) (LeafTok Q) s'.out ∧ StackOk (InTable tab) s'.stack := by
  induction ts with
  | nil => intro s s' h1 h2 h; simp [shuntRunBase] at h; subst h; exact ⟨h1, h2⟩
  | cons t ts ih =>
    intro s s' h1 h2 h
    unfold shuntRunBase at h
    cases hs : shuntStepBase tab s t with
    | error e => rw [hs] at h; cases h
    | ok s1 =>
      rw [hs] at h
      obtain ⟨k1, k2⟩ := shuntStepBase_ok tab Q s s1 t (hts t (by simp)) h1 h2 hs
      exact ih (fun u hu => hts u (by simp [hu])) s1 s' k1 k2 h

/-- **Generic shape lemma** (any table, any token list): in a tree returned by the base-resolver
shunting-yard every operator is a candidate of the table with `nargs` arguments and every leaf is a
non-bracket, non-operator token with the property `Q` all input tokens have. -/
theorem tokensToAstBase_shaped (tab : OpTable) (Q : Tok → Prop) (ts : List Tok) (hts : ∀ t ∈ ts, Q t)
    (a : Ast) (h : tokensToAstBase tab ts = .ok (some a)) : Shaped (InTable tab) (LeafTok Q) a := by
  unfold tokensToAstBase at h
  cases hr : shuntRunBase tab ts {} with
  | error e => rw [hr] at h; cases h
  | ok s =>
    rw [hr] at h
    simp only at h
    obtain ⟨k1, k2⟩ := shuntRunBase_ok tab Q ts hts {} s (by intro a ha; cases ha)
      (by intro e he; cases he) hr
    cases hf : finish s.out s.stack with
    | error e => rw [hf] at h; cases h
    | ok l =>
      rw [hf] at h
      have hl := finish_ok _ _ s.stack s.out l k1 k2 hf
      match l, h, hl with
      | [b], h, hl =>
        simp only at h
        injection h with h; injection h with h; subst h
        exact hl _ (by simp)
      | [], h, _ => cases h
      | _ :: _ :: _, h, _ => cases h

/-! ### the constraint table -/

/-- an operator the constraint evaluator's `Node` type can hold, with the argument count to match -/
def goodOp (o : OpSpec) : Bool :=
  match o.fixity with
  | .infix => (op2Of o.symbol).isSome
  | .prefix => o.arity == 1 && (op1Of o.symbol).isSome
  | .postfix => false

/-- checked on the table regenerated from the live `ConstraintOperatorResolver` -/
theorem constraintTable_good : ∀ p ∈ Gen.constraintTable, ∀ o ∈ p.2, goodOp o = true := by decide

theorem kindOf_some (k : Option TKind) (h0 : k ≠ none) (h1 : k ≠ some .context) (h2 : k ≠ some .operator) :
    (kindOf k).isSome = true := by
  cases k with
  | none => exact absurd rfl h0
  | some k => cases k <;> first | rfl | exact absurd rfl h1 | exact absurd rfl h2

/-- a shaped tree over good operators and kinded leaves is read successfully -/
theorem nodeOfAst_isSome (P : OpSpec → Prop) (hP : ∀ o, P o → goodOp o = true) :
    ∀ a : Ast, Shaped P (LeafTok (fun t => t.kind ≠ none)) a → (nodeOfAst a).isSome = true
  | .leaf t, h => by
    obtain ⟨h0, h1, h2⟩ := h
    have := kindOf_some t.kind h0 h1 h2
    cases hk : kindOf t.kind with
    | none => rw [hk] at this; cases this
    | some k => simp [nodeOfAst, hk]
  | .node o [], h => by
    obtain ⟨ho, hlen, _⟩ := h
    have hg := hP o ho
    unfold goodOp at hg
    unfold nargs at hlen
    cases hf : o.fixity <;> rw [hf] at hg hlen <;> simp at hg hlen
    omega
  | .node o [x], h => by
    obtain ⟨ho, hlen, hall⟩ := h
    have hx : Shaped P _ x := hall.1
    have ihx := nodeOfAst_isSome P hP x hx
    have hg := hP o ho
    unfold goodOp at hg
    unfold nargs at hlen
    cases hf : o.fixity <;> rw [hf] at hg hlen <;> simp at hg hlen
    cases h1 : op1Of o.symbol with
    | none => rw [h1] at hg; simp at hg
    | some u =>
      cases hnx : nodeOfAst x with
      | none => rw [hnx] at ihx; cases ihx
      | some nx => simp [nodeOfAst, h1, hnx]
  | .node o [x, y], h => by
    obtain ⟨ho, hlen, hall⟩ := h
    have hx : Shaped P _ x := hall.1
    have hy : Shaped P _ y := hall.2.1
    have ihx := nodeOfAst_isSome P hP x hx
    have ihy := nodeOfAst_isSome P hP y hy
    have hg := hP o ho
    unfold goodOp at hg
    unfold nargs at hlen
    cases hf : o.fixity <;> rw [hf] at hg hlen <;> simp at hg hlen
    · cases h2 : op2Of o.symbol with
      | none => rw [h2] at hg; cases hg
      | some u =>
        cases hnx : nodeOfAst x with
        | none => rw [hnx] at ihx; cases ihx
        | some nx =>
          cases hny : nodeOfAst y with
          | none => rw [hny] at ihy; cases ihy
          | some ny => simp [nodeOfAst, h2, hnx, hny]
    · omega
  | .node o (x :: y :: z :: r), h => by
    obtain ⟨ho, hlen, _⟩ := h
    have hg := hP o ho
    unfold goodOp at hg
    unfold nargs at hlen
    cases hf : o.fixity <;> rw [hf] at hg hlen <;> simp at hg hlen
    omega

/-- every tree `get_ast` returns is read successfully as a `Node` -/
theorem getAst_readable (cs : List CharInfo) (a : Ast) (h : getAst cs = .ok (some a)) :
    (nodeOfAst a).isSome = true := by
  unfold getAst at h
  cases ht : tokenize cs with
  | error e => rw [ht] at h; cases h
  | ok ts =>
    rw [ht] at h
    simp only at h
    have hk : ∀ t ∈ ts, t.kind ≠ none := fun t hm => (C15Kinds.tokens_have_kinds cs ts ht t hm).1
    have hs := tokensToAstBase_shaped Gen.constraintTable (fun t => t.kind ≠ none) ts hk a h
    refine nodeOfAst_isSome (InTable Gen.constraintTable) ?_ a hs
    intro o ⟨p, hp, hop⟩
    exact constraintTable_good p hp o hop

/-- **Totality** of the modelled constraint parser: for every string it returns a verdict (a tree,
"empty", or an error) — the reading of the shunting-yard's tree as a `Node` never fails -/
theorem parse_total (cs : List CharInfo) : (parse cs).isSome = true := by
  unfold parse
  cases hg : getAst cs with
  | error e => cases e <;> rfl
  | ok r =>
    cases r with
    | none => rfl
    | some a =>
      have := getAst_readable cs a hg
      cases hn : nodeOfAst a with
      | none => rw [hn] at this; cases this
      | some n => simp [hn]

end FormulaicVerif.Proofs.C16Total
