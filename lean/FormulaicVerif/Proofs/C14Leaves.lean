import FormulaicVerif.Model.ParseApi
import FormulaicVerif.Proofs.C15Kinds
import FormulaicVerif.Props.C01
/-! C14: every leaf of a returned tree is a token `Token.to_factor` accepts (the `KeyError` / `RuntimeError` branches of `to_factor` are unreachable from any string). -/
namespace FormulaicVerif.Proofs.C14Leaves
open FormulaicVerif FormulaicVerif.Model FormulaicVerif.Model.ParseApi

def HasKind (t : Tok) : Prop := t.kind ≠ none
def AllKind (ts : List Tok) : Prop := ∀ t ∈ ts, HasKind t

theorem allKind_nil : AllKind [] := fun t h => by cases h
theorem allKind_cons {t : Tok} {ts : List Tok} (h1 : HasKind t) (h2 : AllKind ts) : AllKind (t :: ts) := by
  intro x hx
  rcases List.mem_cons.mp hx with rfl | hx
  · exact h1
  · exact h2 x hx
theorem allKind_append {a b : List Tok} (h1 : AllKind a) (h2 : AllKind b) : AllKind (a ++ b) := by
  intro x hx
  rcases List.mem_append.mp hx with hx | hx
  · exact h1 x hx
  · exact h2 x hx
theorem allKind_tail {t : Tok} {ts : List Tok} (h : AllKind (t :: ts)) : AllKind ts :=
  fun x hx => h x (List.mem_cons_of_mem _ hx)

theorem sanitize_kinds (norm : List Char → Except PyErr (List Char)) : ∀ (ts r : List Tok),
    sanitizeTokens norm ts = .ok r → AllKind ts → AllKind r := by
  intro ts
  induction ts with
  | nil => intro r h _; simp only [sanitizeTokens] at h; injection h with h; subst h; exact allKind_nil
  | cons t ts ih =>
    intro r h hk
    rw [sanitizeTokens] at h
    generalize ht1 : (if (t.text == ['.'] && t.kind != some TKind.name) = true then
      ({ t with kind := some TKind.operator } : Tok) else t) = t1 at h
    have hk1 : HasKind t1 := by
      rw [← ht1]
      split
      · intro hc; cases hc
      · exact hk t (by simp)
    split at h
    · cases h
    · rename_i t2 ht2
      split at h
      · cases h
      · rename_i r' hr'
        injection h with h
        subst h
        refine allKind_cons ?_ (ih r' hr' (allKind_tail hk))
        split at ht2
        · cases hn : norm t1.text with
          | error e => rw [hn] at ht2; simp only [Except.map] at ht2; cases ht2
          | ok x =>
            rw [hn] at ht2
            simp only [Except.map] at ht2
            injection ht2 with ht2
            subst ht2
            exact hk1
        · injection ht2 with ht2; subst ht2; exact hk1

theorem synth_kind (s : String) (k : TKind) : HasKind (Tok.synth s k) := by
  intro h; cases h

theorem replaceZero_kinds : ∀ (ts : List Tok), AllKind ts → AllKind (replaceZero ts) := by
  intro ts
  induction ts with
  | nil => intro _; exact allKind_nil
  | cons t ts ih =>
    intro hk
    rw [replaceZero]
    split
    · exact allKind_cons (synth_kind _ _) (allKind_cons (synth_kind _ _) (ih (allKind_tail hk)))
    · exact allKind_cons (hk t (by simp)) (ih (allKind_tail hk))

theorem emitPieces_kinds (add : Bool) (c : Char) (t : Tok) (ht : HasKind t) : ∀ (ps : List (List Char)) (after : Option Tok),
    AllKind (emitPieces add c t ps after) := by
  intro ps
  induction ps with
  | nil => intro _; exact allKind_nil
  | cons p ps ih =>
    intro after
    simp only [emitPieces]
    generalize (add && p.getLast? == some c) = b0
    generalize needsJoin _ = b1
    have hp : HasKind ({ t with text := p } : Tok) := ht
    cases b0
    · exact allKind_cons hp (ih after)
    · refine allKind_cons hp (allKind_cons (synth_kind _ _) (allKind_append ?_ (ih after)))
      cases b1
      · exact allKind_nil
      · exact allKind_cons (synth_kind _ _) allKind_nil

theorem insertOneAfter_kinds (add : Bool) (c : Char) : ∀ (ts : List Tok), AllKind ts → AllKind (insertOneAfter add c ts) := by
  intro ts
  induction ts with
  | nil => intro _; exact allKind_nil
  | cons t ts ih =>
    intro hk
    rw [insertOneAfter]
    split
    · exact allKind_cons (hk t (by simp)) (ih (allKind_tail hk))
    · exact allKind_append (emitPieces_kinds add c t (hk t (by simp)) _ _) (ih (allKind_tail hk))

theorem mergeSignsAux_kinds : ∀ (ts : List Tok) (pooled : Option Tok), AllKind ts →
    (∀ p, pooled = some p → HasKind p) → AllKind (mergeSignsAux ts pooled) := by
  intro ts
  induction ts with
  | nil =>
    intro pooled _ hp
    cases pooled with
    | none => exact allKind_nil
    | some p => exact allKind_cons (hp p rfl) allKind_nil
  | cons t ts ih =>
    intro pooled hk hp
    have ht := hk t (by simp)
    have hts := allKind_tail hk
    have hnone : ∀ p, (none : Option Tok) = some p → HasKind p := fun p h => by cases h
    simp only [mergeSignsAux]
    generalize (t.kind != some TKind.operator || !match t.text.head? with | some c => isSign c | none => false) = b0
    cases b0
    · cases pooled with
      | none => exact ih (some t) hts (fun p h => by injection h with h; subst h; exact ht)
      | some p =>
        simp only [Bool.false_eq_true, if_false]
        generalize (!match (p.text ++ t.text).getLast? with | some c => isSign c | none => false) = b1
        have hm : HasKind ({ t with text := p.text ++ t.text } : Tok) := ht
        cases b1
        · exact ih _ hts (fun q h => by injection h with h; subst h; exact hm)
        · exact allKind_cons hm (ih none hts hnone)
    · cases pooled with
      | none => exact allKind_cons ht (ih none hts hnone)
      | some p => exact allKind_cons (hp p rfl) (allKind_cons ht (ih none hts hnone))

theorem take_kinds {ts : List Tok} (n : Nat) (h : AllKind ts) : AllKind (ts.take n) :=
  fun t ht => h t (List.mem_of_mem_take ht)
theorem drop_kinds {ts : List Tok} (n : Nat) (h : AllKind ts) : AllKind (ts.drop n) :=
  fun t ht => h t (List.mem_of_mem_drop ht)

theorem allKind_ite {c : Prop} [Decidable c] {a b : List Tok} (ha : AllKind a) (hb : AllKind b) :
    AllKind (if c then a else b) := by
  split <;> assumption

theorem interceptTokens_kinds (b : Bool) (ts : List Tok) (h : AllKind ts) : AllKind (interceptTokens b ts).1 := by
  unfold interceptTokens
  dsimp only
  have h1 := insertOneAfter_kinds b '~' _ (replaceZero_kinds ts h)
  apply mergeSignsAux_kinds _ none _ (fun p hp => by cases hp)
  apply allKind_append
  · exact allKind_ite (insertOneAfter_kinds false '|' _ (take_kinds _ h1))
      (allKind_ite (allKind_cons (synth_kind _ _) allKind_nil)
        (allKind_cons (synth_kind _ _) (allKind_cons (synth_kind _ _) allKind_nil)))
  · exact insertOneAfter_kinds b '|' _ (drop_kinds _ h1)

/-- every token that `get_tokens_from_formula` hands to the shunting-yard has a kind -/
theorem getTokens_kinds (cfg : ParseCfg) (env : PyEnv) (cs : List CharInfo) (ts lhs : List Tok)
    (h : getTokens cfg env cs = .ok (ts, lhs)) : AllKind ts := by
  unfold getTokens at h
  generalize hst : tokenizeStream cs = st at h
  obtain ⟨emitted, lexErr⟩ := st
  simp only at h
  cases hs : sanitizeTokens env.norm emitted with
  | error e => rw [hs] at h; cases h
  | ok r =>
    rw [hs] at h
    simp only at h
    cases lexErr with
    | some e => cases h
    | none =>
      simp only at h
      injection h with h
      have htok : tokenize cs = .ok emitted := by unfold tokenize; rw [hst]
      have hk0 : AllKind emitted := fun t ht => (Proofs.C15Kinds.tokens_have_kinds cs emitted htok t ht).1
      have := interceptTokens_kinds cfg.includeIntercept r (sanitize_kinds env.norm emitted r hs hk0)
      rw [h] at this
      exact this

open FormulaicVerif.Proofs.ShuntSound (leavesOf yield isAtomTok)

/-- the kinds `Token.to_factor` accepts -/
def LeafKind (t : Tok) : Prop := t.kind = some .value ∨ t.kind = some .name ∨ t.kind = some .python

/-- every leaf of every tree that any of the eight parsers returns for any string is a value, name or
python token -/
theorem leaves_have_kinds (cfg : ParseCfg) (env : PyEnv) (cs : List CharInfo) (ts lhs : List Tok) (a : Ast)
    (hg : getTokens cfg env cs = .ok (ts, lhs)) (ha : tokensToAst cfg.table ts = .ok (some a)) :
    ∀ t ∈ leavesOf (yield a), LeafKind t := by
  intro t ht
  rw [Props.C01.shunt_preserves_leaves cfg.table
    (Proofs.ShuntSound.defaultTable_ok cfg.twosided cfg.multipart cfg.multistage) ts a ha] at ht
  obtain ⟨hmem, hatom⟩ := List.mem_filter.mp ht
  have hk := getTokens_kinds cfg env cs ts lhs hg t hmem
  unfold isAtomTok at hatom
  unfold HasKind at hk
  unfold LeafKind
  cases hkind : t.kind with
  | none => exact absurd hkind hk
  | some k =>
    rw [hkind] at hatom
    cases k with
    | context => simp at hatom
    | operator => simp at hatom
    | value => exact Or.inl rfl
    | name => exact Or.inr (Or.inl rfl)
    | python => exact Or.inr (Or.inr rfl)

/-- on such a token `Token.to_factor` (with its `KeyError` / `RuntimeError` branches, read from the
live package) succeeds, and returns the factor the model's `evalAst` uses for the leaf -/
theorem toFactorE_leaf (t : Tok) (h : LeafKind t) : ∃ f, toFactorE t = .ok f ∧ termOfTok t = [f] := by
  rcases h with h | h | h
  · exact ⟨⟨String.ofList t.text, .literal⟩, by simp [toFactorE, kindName, h, Gen.ParseApi.tokenKindEval], by simp [termOfTok, h]⟩
  · exact ⟨⟨String.ofList t.text, .lookup⟩, by simp [toFactorE, kindName, h, Gen.ParseApi.tokenKindEval], by simp [termOfTok, h]⟩
  · exact ⟨⟨String.ofList t.text, .python⟩, by simp [toFactorE, kindName, h, Gen.ParseApi.tokenKindEval], by simp [termOfTok, h]⟩

/-- non-vacuity of the failure branches: an operator token has no factor -/
example : toFactorE { text := ['+'], kind := some .operator } = .error (.internal "KeyError") := by
  simp [toFactorE, kindName, Gen.ParseApi.tokenKindEval]

end FormulaicVerif.Proofs.C14Leaves
