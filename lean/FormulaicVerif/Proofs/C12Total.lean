import FormulaicVerif.Proofs.C12Entry
import FormulaicVerif.Proofs.C12Extend
import FormulaicVerif.Model.SplineSolve
/-! Helper lemmas for C12 (not obligations): inversion of `finishCs` / `constraintsOf` /
`transform`, the column count of an accepted `df` call, and totality of the numerical part
(`freeRow`, `freeRows`, `transform`) on admissible states. -/

namespace FormulaicVerif.Proofs.C12

section inversion
open FormulaicVerif.Model FormulaicVerif.Model.SplineEntry

theorem sortedKnots_df_length {s : List Rat} {lo hi : Rat} {m : Int} {q : List Rat → ℕ → List Rat}
    {k : List Rat} (h : sortedKnots s lo hi (some m) none q = .ok k) : (k.length : Int) = m + 2 := by
  unfold sortedKnots at h
  by_cases hle : hi < lo
  · rw [if_pos hle] at h; cases h
  rw [if_neg hle] at h
  cases h1 : innerKnots s lo hi (some m) none q with
  | error e => rw [h1] at h; cases h
  | ok v =>
    obtain ⟨ik, m'⟩ := v
    rw [h1] at h
    simp only at h
    have hm : m' = m := by
      unfold innerKnots at h1
      simp only at h1
      by_cases c1 : m < 0
      · rw [if_pos c1] at h1; cases h1
      rw [if_neg c1] at h1
      by_cases c2 : (!s.isEmpty) = true
      · rw [if_pos c2] at h1; injection h1 with h1; injection h1 with _ h1; exact h1.symm
      rw [if_neg c2] at h1
      by_cases c3 : m = 0
      · rw [if_pos c3] at h1; injection h1 with h1; injection h1 with _ h1; exact h1.symm
      · rw [if_neg c3] at h1; cases h1
    subst hm
    by_cases hlen : ((CubicSpline.unique ([lo, hi] ++ ik)).length : Int) ≠ m' + 2
    · rw [if_pos hlen] at h; cases h
    rw [if_neg hlen] at h
    injection h with h
    subst h
    exact not_not.1 hlen

/-- inversion of a successful `finishCs` -/
theorem finishCs_inv {r : RawCs} {p : PrepCs} {getF : List Rat → List (List Rat)}
    {getQ2 : List (List Rat) → List (List Rat)} {st : CubicSpline.State} {out : CubicSpline.Output}
    (h : finishCs r p getF getQ2 = .ok (st, out)) :
    st.lower = p.lower ∧ st.upper = p.upper ∧ st.knots = p.knots ∧ st.cyclic = r.cyclic ∧
    CubicSpline.constraintsOf (r.args p.cons p.mode) p.lower p.upper p.knots (getF p.knots) p.xs
      = .ok st.constraints ∧
    CubicSpline.transform st p.mode p.xs (getF p.knots)
      (match st.constraints with | none => [] | some c => getQ2 c) = .ok out := by
  unfold finishCs at h
  dsimp only at h
  cases h1 : CubicSpline.constraintsOf (r.args p.cons p.mode) p.lower p.upper p.knots (getF p.knots) p.xs with
  | error e => rw [h1] at h; cases h
  | ok cs =>
    rw [h1] at h
    simp only at h
    split at h
    · cases h
    · rename_i o ho
      injection h with h
      injection h with h2 h3
      subst h2 h3
      exact ⟨rfl, rfl, rfl, rfl, rfl, ho⟩

theorem except_ite_ok {α ε : Type} {c : Prop} [Decidable c] {e : ε} {v w : α}
    (h : (if c then (Except.error e : Except ε α) else Except.ok v) = Except.ok w) : ¬ c ∧ v = w := by
  by_cases hc : c
  · rw [if_pos hc] at h; cases h
  · rw [if_neg hc] at h; injection h with h; exact ⟨hc, h⟩

theorem except_ite_ok' {α ε : Type} {c : Prop} [Decidable c] {e : ε} {X : Except ε α} {w : α}
    (h : (if c then (Except.error e : Except ε α) else X) = Except.ok w) : ¬ c ∧ X = .ok w := by
  by_cases hc : c
  · rw [if_pos hc] at h; cases h
  · rw [if_neg hc] at h; exact ⟨hc, h⟩

theorem constraintsOf_rows {a : CubicSpline.Args} {lo hi : Rat} {k : List Rat} {F : List (List Rat)}
    {xs : List (Option Rat)} {cs : Option (List (List Rat))}
    (h : CubicSpline.constraintsOf a lo hi k F xs = .ok cs) :
    (cs = none ↔ a.constraints = .none) ∧
    (∀ c, cs = some c → c.length = CubicSpline.nConstraints a.constraints ∧ a.constraints ≠ .none) := by
  unfold CubicSpline.constraintsOf at h
  cases hc : a.constraints with
  | none =>
    rw [hc] at h
    simp only at h
    injection h with h
    subst h
    exact ⟨⟨fun _ => rfl, fun _ => rfl⟩, fun c hc' => by cases hc'⟩
  | matrix m =>
    rw [hc] at h
    simp only at h
    have := (except_ite_ok h).2
    subst this
    refine ⟨⟨fun h' => (by cases h'), fun h' => (by cases h')⟩, ?_⟩
    intro c hc'
    injection hc' with hc'
    subst hc'
    exact ⟨rfl, by simp⟩
  | center =>
    rw [hc] at h
    simp only at h
    cases hfr : CubicSpline.freeRows k a.cyclic F a.mode lo hi xs with
    | error e => rw [hfr] at h; cases h
    | ok rows =>
      rw [hfr] at h
      simp only at h
      have := (except_ite_ok h).2
      subst this
      refine ⟨⟨fun h' => (by cases h'), fun h' => (by cases h')⟩, ?_⟩
      intro c hc'
      injection hc' with hc'
      subst hc'
      exact ⟨rfl, by simp⟩

theorem transform_ncols {st : CubicSpline.State} {mode : BSpline.Mode} {xs : List (Option Rat)}
    {F Q2 : List (List Rat)} {out : CubicSpline.Output}
    (h : CubicSpline.transform st mode xs F Q2 = .ok out) :
    (st.constraints = none → out.ncols = if st.cyclic then st.knots.length - 1 else st.knots.length) ∧
    (st.constraints ≠ none → out.ncols = Q2.length) := by
  unfold CubicSpline.transform at h
  have h := (except_ite_ok' h).2
  simp only at h
  cases hfr : CubicSpline.freeRows st.knots st.cyclic F mode st.lower st.upper xs with
  | error e => rw [hfr] at h; cases h
  | ok rows =>
    rw [hfr] at h
    simp only at h
    cases hc : st.constraints with
    | none =>
      rw [hc] at h
      simp only at h
      injection h with h
      subst h
      exact ⟨fun _ => rfl, fun h' => absurd rfl h'⟩
    | some c =>
      rw [hc] at h
      simp only at h
      have := (except_ite_ok h).2
      subst this
      exact ⟨fun h' => (by cases h'), fun _ => rfl⟩

theorem cubicSpline_inv {r : RawCs} {quant : List Rat → ℕ → List Rat} {getF : List Rat → List (List Rat)}
    {getQ2 : List (List Rat) → List (List Rat)} {st : CubicSpline.State} {out : CubicSpline.Output}
    (h : cubicSpline r quant getF getQ2 = .ok (st, out)) :
    ∃ p, prepareCs r quant = .ok p ∧ finishCs r p getF getQ2 = .ok (st, out) := by
  unfold cubicSpline at h
  cases hp : prepareCs r quant with
  | error e => rw [hp] at h; cases h
  | ok p => rw [hp] at h; exact ⟨p, rfl, h⟩

/-- column count of an accepted `df` call -/
theorem cubicSpline_ncols {r : RawCs} {quant : List Rat → ℕ → List Rat} {getF : List Rat → List (List Rat)}
    {getQ2 : List (List Rat) → List (List Rat)} {st : CubicSpline.State} {out : CubicSpline.Output}
    (h : cubicSpline r quant getF getQ2 = .ok (st, out)) (d : Int) (hd : r.df = some d) :
    (st.constraints = none → (out.ncols : Int) = d) ∧
    (∀ c, st.constraints = some c →
      (((if st.cyclic then st.knots.length - 1 else st.knots.length : ℕ) : ℕ) : Int) = d + c.length ∧
      out.ncols = (getQ2 c).length) := by
  obtain ⟨p, hp, hf⟩ := cubicSpline_inv h
  obtain ⟨hb, _, _, _, _, _, _, _, nInner, h3, h4⟩ := prepareCs_inv hp
  obtain ⟨_, _, hk, hcy, hcons, htr⟩ := finishCs_inv hf
  obtain ⟨hnone, hsome⟩ := constraintsOf_rows hcons
  obtain ⟨t1, t2⟩ := transform_ncols htr
  have hkn : r.knots = none := by
    cases hk' : r.knots with
    | none => rfl
    | some ks => simp [hd, hk'] at hb
  have hcons' : (r.args p.cons p.mode).constraints = p.cons := rfl
  rw [hcons'] at hnone hsome
  -- the number of knots
  unfold nInnerOf at h3
  rw [hd] at h3
  simp only at h3
  have h3' := (except_ite_ok h3).2
  subst h3'
  rw [hkn] at h4
  have hlen := sortedKnots_df_length h4
  have hn2 := (prepareCs_ok hp).2.1
  rw [← hk] at hlen hn2
  constructor
  · intro hc
    have hpc : p.cons = .none := hnone.1 hc
    rw [t1 hc, hcy]
    rw [hpc] at hlen
    simp only [CubicSpline.nConstraints, Nat.cast_zero, add_zero] at hlen
    cases hcyc : r.cyclic <;> simp [hcyc] at hlen ⊢ <;> omega
  · intro c hc
    obtain ⟨hl, _⟩ := hsome c hc
    refine ⟨?_, ?_⟩
    · rw [hcy, hl]
      cases hcyc : r.cyclic <;> simp [hcyc] at hlen ⊢ <;> omega
    · have : st.constraints ≠ none := by rw [hc]; simp
      rw [t2 this, hc]

end inversion

section totality
open FormulaicVerif.Model FormulaicVerif.Model.SplineEntry FormulaicVerif.Model.CubicSpline
open FormulaicVerif.Model.BSpline (Mode nonNull minOf maxOf outside inside adjust)

theorem lowerBound_lt (knots : List Rat) (hn : 2 ≤ knots.length) (x : Rat) :
    lowerBound knots x + 1 < knots.length := by
  unfold lowerBound
  have hss : searchsorted knots x ≤ knots.length := by
    unfold searchsorted; exact List.length_filter_le _ _
  simp only
  split
  · omega
  · split
    · omega
    · omega

/-- the free design-matrix row exists for every `x`, on ANY knot list with at least two knots (no
`IndexError`), provided `F` has the right shape -/
theorem freeRowCore_total (knots : List Rat) (hn : 2 ≤ knots.length) (n : ℕ) (wrap : Bool)
    (hnw : n = if wrap then knots.length - 1 else knots.length)
    (F : List (List Rat)) (hF : F.length = n) (hFr : ∀ r ∈ F, r.length = n) (x : Rat) :
    ∃ row, freeRowCore knots n wrap F x = .ok row ∧ row.length = n := by
  have hj := lowerBound_lt knots hn x
  have hne : knots ≠ [] := by intro h; simp [h] at hn
  obtain ⟨mn, hmn⟩ := minOf_isSome hne
  obtain ⟨mx, hmx⟩ := maxOf_isSome hne
  unfold freeRowCore baseFunctions
  simp only [List.getElem?_eq_getElem (show lowerBound knots x < knots.length by omega),
    List.getElem?_eq_getElem hj, hmn, hmx]
  set j := lowerBound knots x with hjdef
  have hjn : j < n := by cases wrap <;> simp at hnw <;> omega
  have hj1n : (if (wrap && j + 1 == n) = true then 0 else j + 1) < n := by
    cases wrap <;> simp at hnw ⊢
    · omega
    · split <;> omega
  rw [List.getElem?_eq_getElem (by omega : j < F.length),
    List.getElem?_eq_getElem (by omega : (if (wrap && j + 1 == n) = true then 0 else j + 1) < F.length)]
  simp only
  have l1 := hFr _ (List.getElem_mem (by omega : j < F.length))
  have l2 := hFr _ (List.getElem_mem
    (by omega : (if (wrap && j + 1 == n) = true then 0 else j + 1) < F.length))
  rw [if_pos ⟨l1, l2⟩]
  refine ⟨_, rfl, ?_⟩
  simp [combine, l1]
  exact le_of_eq (hFr _ (List.getElem_mem _)).symm

theorem freeRow_total (knots : List Rat) (hs : knots.Pairwise (· < ·)) (hn : 2 ≤ knots.length)
    (cyclic : Bool) (F : List (List Rat))
    (hF : F.length = if cyclic then knots.length - 1 else knots.length)
    (hFr : ∀ r ∈ F, r.length = if cyclic then knots.length - 1 else knots.length) (x : Rat) :
    ∃ row, freeRow knots cyclic F x = .ok row ∧
      row.length = if cyclic then knots.length - 1 else knots.length := by
  unfold freeRow
  cases cyclic with
  | false =>
    simp only [Bool.false_eq_true, if_false] at hF hFr ⊢
    exact freeRowCore_total knots hn knots.length false (by simp) F hF hFr x
  | true =>
    simp only [if_true] at hF hFr ⊢
    rw [minOf_sorted knots hs (by omega), maxOf_sorted knots hs (by omega)]
    simp only
    have hlt : knots[0] < knots[knots.length - 1] :=
      List.pairwise_iff_getElem.1 hs 0 (knots.length - 1) (by omega) (by omega) (by omega)
    unfold mapCyclic
    rw [if_neg (not_le.2 hlt)]
    simp only
    exact freeRowCore_total knots hn (knots.length - 1) true (by simp) F hF hFr _

theorem freeRows_total (knots : List Rat) (hs : knots.Pairwise (· < ·)) (hn : 2 ≤ knots.length)
    (cyclic : Bool) (F : List (List Rat))
    (hF : F.length = if cyclic then knots.length - 1 else knots.length)
    (hFr : ∀ r ∈ F, r.length = if cyclic then knots.length - 1 else knots.length)
    (mode : Mode) (lo hi : Rat) (xs : List (Option Rat)) :
    ∃ rows, freeRows knots cyclic F mode lo hi xs = .ok rows ∧ rows.length = xs.length := by
  unfold freeRows
  induction xs with
  | nil => exact ⟨[], rfl, rfl⟩
  | cons x t ih =>
    obtain ⟨rows, hr, hl⟩ := ih
    rw [List.mapM_cons]
    cases ha : adjust mode lo hi x with
    | none =>
      refine ⟨none :: rows, ?_, by simp [hl]⟩
      simp only [hr, bind, Except.bind, pure, Except.pure]
    | some v =>
      obtain ⟨row, hrow, _⟩ := freeRow_total knots hs hn cyclic F hF hFr v
      refine ⟨some row :: rows, ?_, by simp [hl]⟩
      simp only [hrow, hr, bind, Except.bind, pure, Except.pure]

/-- **the numerical part never fails on an admissible state**: strictly increasing knots (≥ 2), an
`F` and a `Q₂` of the right shapes, and no `raise`-mode value outside the bounds -/
theorem transform_total (st : CubicSpline.State) (hs : st.knots.Pairwise (· < ·))
    (hn : 2 ≤ st.knots.length) (mode : Mode) (xs : List (Option Rat)) (F Q2 : List (List Rat))
    (hF : F.length = if st.cyclic then st.knots.length - 1 else st.knots.length)
    (hFr : ∀ r ∈ F, r.length = if st.cyclic then st.knots.length - 1 else st.knots.length)
    (hQ : st.constraints ≠ none →
      ∀ q ∈ Q2, q.length = if st.cyclic then st.knots.length - 1 else st.knots.length)
    (hr : (mode = .raise && (nonNull xs).any (outside st.lower st.upper)) = false) :
    ∃ out, CubicSpline.transform st mode xs F Q2 = .ok out ∧ out.rows.length = xs.length := by
  obtain ⟨rows, hrows, hl⟩ := freeRows_total st.knots hs hn st.cyclic F hF hFr mode st.lower st.upper xs
  unfold CubicSpline.transform
  simp only [hr, Bool.false_eq_true, if_false, hrows]
  cases hc : st.constraints with
  | none =>
    simp only
    refine ⟨_, rfl, ?_⟩
    simp only
    split
    · simp [zeroOutside, hl]
    · exact hl
  | some c =>
    simp only
    have hq := hQ (by rw [hc]; simp)
    have : (Q2.any fun q => q.length != if st.cyclic = true then st.knots.length - 1 else st.knots.length) = false := by
      rw [List.any_eq_false]
      intro q hq'
      simp [hq q hq']
    rw [this]
    simp only [Bool.false_eq_true, if_false]
    refine ⟨_, rfl, ?_⟩
    simp only
    split
    · simp [zeroOutside, hl]
    · simp [hl]

theorem SplineSolve_allZero_spec {M : List (List Rat)} (h : SplineSolve.allZero M = true) : AllZero M := by
  unfold SplineSolve.allZero at h
  intro r hr v hv
  have := (List.all_eq_true.1 h) r hr
  have := (List.all_eq_true.1 this) v hv
  simpa using this

end totality

end FormulaicVerif.Proofs.C12
