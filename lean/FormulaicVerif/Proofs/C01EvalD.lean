import FormulaicVerif.Spec.WilkinsonDenoteR
/-! # C01 — evaluation = denotation for trees with `.` nodes

For every expression `x` of the grammar with sign runs, zeros and `.` (`Proofs/C01GrammarR.lean`): the tree
the shunting-yard returns — the documented tree of the normal form with every placeholder leaf replaced by
the `.` node, `rho (strip x.norm.toE)` — evaluates, in a context in which `.` expands to `dv`, to the
documented denotation `denSumR dv x` (`evalD_sum`), and the tree of `1 + x` to `x` read from `{1}`
(`evalD_withOne`). -/
namespace FormulaicVerif.Proofs.C01EvalD
open FormulaicVerif FormulaicVerif.Model FormulaicVerif.Proofs.ShuntC FormulaicVerif.Proofs.C01Grammar
open FormulaicVerif.Proofs.C01GrammarR FormulaicVerif.Proofs.C01Runs FormulaicVerif.Proofs.C01ShuntDot
open FormulaicVerif.Proofs.C01Denote FormulaicVerif.Proofs.C01DenoteR FormulaicVerif.Proofs.C01Eval
open FormulaicVerif.Proofs.C14 (evalAst_node evalArgs_cons merge_sets1 merge_sets2)
open FormulaicVerif.Proofs.C01TopLevel (evalArgs_nil partsAst partsVal partsTree partsTree_eq partExpansion_set bar)
open FormulaicVerif.Spec.Denote FormulaicVerif.Spec.DenoteR

theorem runOp_sign_minus (sg : Option Run) : runOp (signCs sg ++ ['-']) = flip (signOf sg) := by
  rw [runOp_append_minus]
  cases sg with
  | none => rfl
  | some r => simp only [signCs, signOf]; cases runOp r.cs <;> rfl

theorem runOp_run_minus (r : Run) : runOp (r.cs ++ ['-']) = flip (runOp r.cs) := by
  rw [runOp_append_minus]; cases runOp r.cs <;> rfl

section
variable (ctx : DotCtx) (dv : Except ParseErr (List Term)) (hdv : applyPlain dotSpec ctx [] = dv)

/-- a binary non-structural node over two subtrees that evaluate to term sets (or are rejected) -/
theorem eval_bin (o : OpSpec) (ho : o.structural = false) (l r : Ast) (x y : Except ParseErr (List Term))
    (hl : evalAst ctx l = x.map Val.set) (hr : evalAst ctx r = y.map Val.set) :
    evalAst ctx (.node o [l, r]) =
      (match x with
       | .error e => Except.error e
       | .ok a => match y with
         | .error e => Except.error e
         | .ok b => applyPlain o ctx [a, b]).map Val.set := by
  rw [evalAst_node, evalArgs_cons, hl, evalArgs_cons, hr, evalArgs_nil]
  cases x with
  | error e => rfl
  | ok a =>
    cases y with
    | error e => rfl
    | ok b =>
      simp only [Except.map, ho, Bool.false_eq_true, if_false, List.isEmpty_cons, List.length_cons, List.length_nil]
      rw [merge_sets2]
      rfl

theorem eval_pre (o : OpSpec) (ho : o.structural = false) (l : Ast) (x : Except ParseErr (List Term))
    (hl : evalAst ctx l = x.map Val.set) :
    evalAst ctx (.node o [l]) =
      (match x with
       | .error e => Except.error e
       | .ok a => applyPlain o ctx [a]).map Val.set := by
  rw [evalAst_node, evalArgs_cons, hl, evalArgs_nil]
  cases x with
  | error e => rfl
  | ok a =>
    simp only [Except.map, ho, Bool.false_eq_true, if_false, List.isEmpty_cons, List.length_cons, List.length_nil]
    rw [merge_sets1]
    rfl

include hdv in
theorem eval_dotNode : evalAst ctx dotNode = dv.map Val.set := by
  unfold dotNode
  rw [evalAst_node, evalArgs_nil]
  simp only [show dotSpec.structural = false from rfl, Bool.false_eq_true, if_false, List.isEmpty_nil, if_true, hdv]

theorem rho_node2 (o : OpSpec) (l r : Ast) : rho (.node o [l, r]) = .node o [rho l, rho r] := by
  rw [rho_structural]; rfl
theorem rho_node1 (o : OpSpec) (l : Ast) : rho (.node o [l]) = .node o [rho l] := by
  rw [rho_structural]; rfl

theorem addOp_ns (op : AddOp) : op.spec.structural = false := by cases op <;> rfl
theorem addOp_uns (op : AddOp) : op.unary.structural = false := by cases op <;> rfl
theorem mulOp_ns (op : MulOp) : op.spec.structural = false := by cases op <;> rfl
theorem powOp_ns (op : PowOp) : op.spec.structural = false := by cases op <;> rfl

theorem eval_one : evalAst ctx (rho (strip oneProd.toE)) = (Except.ok [intercept] : Except ParseErr (List Term)).map Val.set := by
  rfl

include hdv in
mutual
theorem evalD_atom : ∀ x : AtomR, evalAst ctx (rho (strip x.norm.toE)) = (denAtomR dv x).map Val.set
  | .tok t h => by
    simp only [AtomR.norm, Atom.toE, strip, rho_leaf t h.2.2.2, denAtomR]
    rfl
  | .dot => by
    simp only [AtomR.norm, Atom.toE, strip, rho_x0, denAtomR]
    exact eval_dotNode ctx dv hdv
  | .paren s => by
    simp only [AtomR.norm, Atom.toE, strip, denAtomR]
    exact evalD_sum s
theorem evalD_pow : ∀ x : PowR, evalAst ctx (rho (strip x.norm.toE)) = (denPowR dv x).map Val.set
  | .atom x => by simp only [PowR.norm, Pow.toE, denPowR]; exact evalD_atom x
  | .pow op x p => by
    simp only [PowR.norm, Pow.toE, strip, rho_node2, denPowR]
    rw [eval_bin ctx _ (powOp_ns op) _ _ _ _ (evalD_atom x) (evalD_pow p)]
    simp only [apply_pow]
    cases denAtomR dv x with
    | error e => rfl
    | ok a => cases denPowR dv p <;> rfl
theorem evalD_inter : ∀ x : InterR, evalAst ctx (rho (strip x.norm.toE)) = (denInterR dv x).map Val.set
  | .pow p => by simp only [InterR.norm, Inter.toE, denInterR]; exact evalD_pow p
  | .inter i p => by
    simp only [InterR.norm, Inter.toE, strip, rho_node2, denInterR]
    rw [eval_bin ctx _ rfl _ _ _ _ (evalD_inter i) (evalD_pow p)]
    simp only [apply_colon]
    cases denInterR dv i with
    | error e => rfl
    | ok a => cases denPowR dv p <;> rfl
theorem evalD_prod : ∀ x : ProdR, evalAst ctx (rho (strip x.norm.toE)) = (denProdR dv x).map Val.set
  | .inter i => by simp only [ProdR.norm, Prod.toE, denProdR]; exact evalD_inter i
  | .mul op p i => by
    simp only [ProdR.norm, Prod.toE, strip, rho_node2, denProdR]
    rw [eval_bin ctx _ (mulOp_ns op) _ _ _ _ (evalD_prod p) (evalD_inter i)]
    simp only [apply_mul]
    cases denProdR dv p with
    | error e => rfl
    | ok a => cases denInterR dv i <;> rfl
theorem evalD_sum : ∀ x : SumR, evalAst ctx (rho (strip x.norm.toE)) = (denSumR dv x).map Val.set
  | .first none p => by simp only [SumR.norm, Sum.toE, denSumR]; exact evalD_prod p
  | .first (some r) p => by
    simp only [SumR.norm, Sum.toE, strip, rho_node1, denSumR]
    rw [eval_pre ctx _ (addOp_uns _) _ _ (evalD_prod p)]
    cases runOp r.cs
    · simp only [apply_unary_plus]
      cases denProdR dv p <;> rfl
    · simp only [apply_unary_minus]
      cases denProdR dv p <;> rfl
  | .firstZero sg => by
    simp only [SumR.norm, Sum.toE, strip, rho_node1, denSumR, runOp_sign_minus]
    rw [eval_pre ctx _ (addOp_uns _) _ _ (eval_one ctx)]
    cases flip (signOf sg) <;> rfl
  | .add r s p => by
    simp only [SumR.norm, Sum.toE, strip, rho_node2, denSumR]
    rw [eval_bin ctx _ (addOp_ns _) _ _ _ _ (evalD_sum s) (evalD_prod p)]
    simp only [apply_add]
    cases denSumR dv s with
    | error e => rfl
    | ok a => cases denProdR dv p <;> rfl
  | .addZero r s => by
    simp only [SumR.norm, Sum.toE, strip, rho_node2, denSumR, runOp_run_minus]
    rw [eval_bin ctx _ (addOp_ns _) _ _ _ _ (evalD_sum s) (eval_one ctx)]
    simp only [apply_add]
    cases denSumR dv s <;> rfl
end

include hdv in
/-- the tree of `1 + s` evaluates to `s` read from `{1}` -/
theorem evalD_withOne : ∀ s : SumR,
    evalAst ctx (rho (strip (withOne s.norm).toE)) = (foldSumR dv [intercept] s).map Val.set
  | .first none p => by
    simp only [SumR.norm, withOne, Sum.toE, strip, rho_node2, foldSumR, signOf]
    rw [eval_bin ctx _ (addOp_ns _) _ _ _ _ (eval_one ctx) (evalD_prod ctx dv hdv p)]
    simp only [apply_add]
    cases denProdR dv p <;> rfl
  | .first (some r) p => by
    simp only [SumR.norm, withOne, Sum.toE, strip, rho_node2, foldSumR, signOf]
    rw [eval_bin ctx _ (addOp_ns _) _ _ _ _ (eval_one ctx) (evalD_prod ctx dv hdv p)]
    simp only [apply_add]
    cases denProdR dv p <;> rfl
  | .firstZero sg => by
    simp only [SumR.norm, withOne, Sum.toE, strip, rho_node2, foldSumR, runOp_sign_minus]
    rw [eval_bin ctx _ (addOp_ns _) _ _ _ _ (eval_one ctx) (eval_one ctx)]
    simp only [apply_add]
  | .add r s p => by
    simp only [SumR.norm, withOne, Sum.toE, strip, rho_node2, foldSumR]
    rw [eval_bin ctx _ (addOp_ns _) _ _ _ _ (evalD_withOne s) (evalD_prod ctx dv hdv p)]
    simp only [apply_add]
    cases foldSumR dv [intercept] s with
    | error e => rfl
    | ok a => cases denProdR dv p <;> rfl
  | .addZero r s => by
    simp only [SumR.norm, withOne, Sum.toE, strip, rho_node2, foldSumR, runOp_run_minus]
    rw [eval_bin ctx _ (addOp_ns _) _ _ _ _ (evalD_withOne s) (eval_one ctx)]
    simp only [apply_add]
    cases foldSumR dv [intercept] s <;> rfl

include hdv in
/-- a right-hand part as the parser reads it -/
theorem evalD_part (add : Bool) (q : SumR) :
    evalAst ctx (rho (strip (wo add q.norm).toE)) = (denRhsR dv add q).map Val.set := by
  cases add
  · exact evalD_sum ctx dv hdv q
  · exact evalD_withOne ctx dv hdv q

end

end FormulaicVerif.Proofs.C01EvalD
