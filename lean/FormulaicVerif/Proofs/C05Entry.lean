import FormulaicVerif.Model.EntryPoints
/-! Helper lemmas for C05 (entry-point plumbing). Core Lean only. -/
namespace FormulaicVerif.Proofs.C05E
open FormulaicVerif.Model.EntryPoints

/-- the enum values a default `ModelSpec` uses exist -/
def EnvOK (env : Env) : Prop :=
  "drop" ∈ env.naActions ∧ "none" ∈ env.clusterBys

/-- a `ModelSpec` that passed `__post_init__` -/
def ValidMS (env : Env) (ms : MSpec) : Prop :=
  ms.na ∈ env.naActions ∧ ms.cluster ∈ env.clusterBys

/-- the `ModelSpec`s inside a call were constructed by the library -/
def ValidSpec (env : Env) : SpecArg → Prop
  | .mspec ms => ValidMS env ms
  | .mspecs parts => ∀ p ∈ parts, ValidMS env p.2
  | _ => True

def eraseDrop (r : Request) : Request := { r with dropRows := none }

theorem postInit_ok {env : Env} {ms ms' : MSpec} (h : postInit env ms = .ok ms') : ms' = ms ∧ ValidMS env ms := by
  by_cases h1 : ms.na ∈ env.naActions
  · by_cases h2 : ms.cluster ∈ env.clusterBys
    · simp [postInit, h1, h2] at h
      exact ⟨h.symm, h1, h2⟩
    · simp [postInit, h1, h2] at h
  · simp [postInit, h1] at h

theorem postInit_valid {env : Env} {ms : MSpec} (h : ValidMS env ms) : postInit env ms = .ok ms := by
  simp [postInit, h.1, h.2]

theorem update_nil {env : Env} {ms : MSpec} (h : ValidMS env ms) : update env ms [] = .ok ms := by
  simp [update, setAttrs, setAttrsFrom, postInit_valid h]

theorem update_valid {env : Env} {ms ms' : MSpec} {a : List Attr} (h : update env ms a = .ok ms') : ValidMS env ms' := by
  unfold update at h
  cases hs : setAttrs ms a with
  | error e => simp [hs] at h
  | ok m =>
    simp only [hs] at h
    have := postInit_ok h
    rw [this.1]; exact this.2

theorem default_valid {env : Env} (henv : EnvOK env) (f : Nat) : ValidMS env { formula := f } := henv

/-! ### `mapParts` -/

theorem mapParts_id {α : Type} (f : α → Except Err α) : ∀ (parts : List (String × α)),
    (∀ p ∈ parts, f p.2 = .ok p.2) → mapParts f parts = .ok parts
  | [], _ => rfl
  | (k, a) :: r, h => by
    have h1 : f a = .ok a := h (k, a) (by simp)
    simp [mapParts, h1, mapParts_id f r (fun p hp => h p (List.mem_cons_of_mem _ hp))]

theorem mapParts_ok_mem {α β : Type} (f : α → Except Err β) : ∀ (parts : List (String × α)) (out : List (String × β)),
    mapParts f parts = .ok out → ∀ q ∈ out, ∃ p ∈ parts, f p.2 = .ok q.2
  | [], out, h, q, hq => by
    simp only [mapParts, Except.ok.injEq] at h
    subst h; cases hq
  | (k, a) :: r, out, h, q, hq => by
    simp only [mapParts] at h
    cases h1 : f a with
    | error e => simp [h1] at h
    | ok b =>
      simp only [h1] at h
      cases h2 : mapParts f r with
      | error e => simp [h2] at h
      | ok r' =>
        simp only [h2, Except.ok.injEq] at h
        subst h
        rcases List.mem_cons.mp hq with rfl | hq
        · exact ⟨(k, a), by simp, h1⟩
        · obtain ⟨p, hp, hpq⟩ := mapParts_ok_mem f r r' h2 q hq
          exact ⟨p, List.mem_cons_of_mem _ hp, hpq⟩

/-- mapping `g` after `f` when `f` is the identity on the first component's results -/
theorem mapParts_comp {α β γ : Type} (f : α → Except Err β) (g : β → Except Err γ) (fg : α → Except Err γ)
    (hfg : ∀ a b, f a = .ok b → g b = fg a) :
    ∀ (parts : List (String × α)) (mid : List (String × β)), mapParts f parts = .ok mid →
      mapParts g mid = mapParts fg parts
  | [], mid, h => by
    simp only [mapParts, Except.ok.injEq] at h
    subst h; rfl
  | (k, a) :: r, mid, h => by
    simp only [mapParts] at h
    cases h1 : f a with
    | error e => simp [h1] at h
    | ok b =>
      simp only [h1] at h
      cases h2 : mapParts f r with
      | error e => simp [h2] at h
      | ok r' =>
        simp only [h2, Except.ok.injEq] at h
        subst h
        simp only [mapParts, hfg a b h1, mapParts_comp f g fg hfg r r' h2]

theorem mapParts_map_snd_length {α β : Type} (f : α → Except Err β) : ∀ (parts : List (String × α)) (out : List (String × β)),
    mapParts f parts = .ok out → out.length = parts.length
  | [], out, h => by
    simp only [mapParts, Except.ok.injEq] at h
    subst h; rfl
  | (k, a) :: r, out, h => by
    simp only [mapParts] at h
    cases h1 : f a with
    | error e => simp [h1] at h
    | ok b =>
      simp only [h1] at h
      cases h2 : mapParts f r with
      | error e => simp [h2] at h
      | ok r' =>
        simp only [h2, Except.ok.injEq] at h
        subst h
        simp [mapParts_map_snd_length f r r' h2]

/-! ### formulas are default ModelSpecs -/

def normSpec : SpecArg → SpecArg
  | .formula f => .mspec { formula := f }
  | .sformula parts => .mspecs (parts.map (fun p => (p.1, ({ formula := p.2 } : MSpec))))
  | s => s

theorem mapParts_map {α β γ : Type} (g : α → β) (f : β → Except Err γ) : ∀ (parts : List (String × α)),
    mapParts f (parts.map (fun p => (p.1, g p.2))) = mapParts (fun a => f (g a)) parts
  | [] => rfl
  | (k, a) :: r => by simp [mapParts, mapParts_map g f r]

theorem fromSpec_norm (env : Env) (spec : SpecArg) (ov : List Attr) :
    fromSpec env (normSpec spec) ov = fromSpec env spec ov := by
  cases spec with
  | formula f => rfl
  | sformula parts =>
    simp only [normSpec, fromSpec]
    rw [mapParts_map (fun f => ({ formula := f } : MSpec)) (fun ms => update env ms ov) parts]
  | mspec ms => rfl
  | mspecs parts => rfl

theorem validSpec_norm {env : Env} (henv : EnvOK env) (spec : SpecArg) (h : ValidSpec env spec) :
    ValidSpec env (normSpec spec) := by
  cases spec with
  | formula f => exact default_valid henv f
  | sformula parts =>
    intro p hp
    simp only [List.mem_map] at hp
    obtain ⟨q, _, rfl⟩ := hp
    exact default_valid henv q.2
  | mspec ms => exact h
  | mspecs parts => exact h

/-! ### `FormulaMaterializer.get_model_matrix` in closed form -/

def leavesOf : Prepared → List (String × MSpec)
  | .one ms => [("", ms)]
  | .many parts => parts

def simplifyOf : Prepared → Bool
  | .one _ => true
  | .many _ => false

def mkReq (inst : Inst) (p : Prepared) (d : Option Nat) : Except Err Request :=
  match mapParts (prepareLeaf inst) (leavesOf p) with
  | .error e => .error e
  | .ok specs =>
    if !consistent specs then .error .runtime
    else .ok ⟨inst.name, inst.data, inst.context, ["data", "context", "transforms"], inst.params, specs, simplifyOf p, d⟩

theorem materializerGMM_eq {env : Env} {spec : SpecArg} {ov : List Attr} {p : Prepared} (inst : Inst) (d : Option Nat)
    (h : fromSpec env spec ov = .ok p) : materializerGMM env inst spec d ov = mkReq inst p d := by
  simp only [materializerGMM, h, mkReq]
  cases p <;> rfl

theorem materializerGMM_err {env : Env} {spec : SpecArg} {ov : List Attr} {e : Err} (inst : Inst) (d : Option Nat)
    (h : fromSpec env spec ov = .error e) : materializerGMM env inst spec d ov = .error e := by
  simp only [materializerGMM, h]

theorem fromSpec_mspec_nil {env : Env} {ms : MSpec} (h : ValidMS env ms) : fromSpec env (.mspec ms) [] = .ok (.one ms) := by
  simp [fromSpec, update_nil h, Except.map]

theorem fromSpec_mspecs_nil {env : Env} {parts : List (String × MSpec)} (h : ∀ p ∈ parts, ValidMS env p.2) :
    fromSpec env (.mspecs parts) [] = .ok (.many parts) := by
  have := mapParts_id (fun ms => update env ms []) parts (fun p hp => update_nil (h p hp))
  simp [fromSpec, this, Except.map]

/-- erasing `drop_rows` from the result makes the argument irrelevant -/
theorem mkReq_erase (inst : Inst) (p : Prepared) (d d' : Option Nat) :
    (mkReq inst p d).map eraseDrop = (mkReq inst p d').map eraseDrop := by
  simp only [mkReq]
  cases mapParts (prepareLeaf inst) (leavesOf p) with
  | error e => rfl
  | ok specs => by_cases hc : consistent specs = true <;> simp [hc, Except.map, eraseDrop]

/-- a successful `mkReq`: the prepared leaves are consistent, and the request is assembled from them -/
theorem mkReq_ok {inst : Inst} {p : Prepared} {d : Option Nat} {q : Request} (h : mkReq inst p d = .ok q) :
    ∃ specs, mapParts (prepareLeaf inst) (leavesOf p) = .ok specs ∧ consistent specs = true ∧
      q = ⟨inst.name, inst.data, inst.context, ["data", "context", "transforms"], inst.params, specs, simplifyOf p, d⟩ := by
  simp only [mkReq] at h
  cases hm : mapParts (prepareLeaf inst) (leavesOf p) with
  | error e => simp [hm] at h
  | ok specs =>
    simp only [hm] at h
    by_cases hc : consistent specs = true
    · simp only [hc, Bool.not_true, Bool.false_eq_true, if_false, Except.ok.injEq] at h
      exact ⟨specs, rfl, hc, h.symm⟩
    · simp [hc] at h

/-- the request(s) for a prepared spec, closed form -/
def oneReq (env : Env) (c : Call) (ms : MSpec) (d : Option Nat) : Except Err Request :=
  match resolve env c ms.materializer with
  | .error e => .error e
  | .ok r => mkReq (instOf c r ms.params) (.one ms) d

theorem modelSpecGMM_nil {env : Env} {c : Call} {ms : MSpec} (h : ValidMS env ms) (d : Option Nat) :
    modelSpecGMM env c ms d [] = oneReq env c ms d := by
  simp only [modelSpecGMM, List.isEmpty_nil, Bool.not_true, Bool.false_eq_true, if_false, getMaterializer, oneReq]
  cases resolve env c ms.materializer with
  | error e => rfl
  | ok r => exact materializerGMM_eq _ d (fromSpec_mspec_nil h)

theorem modelSpecGMM_ov {env : Env} {c : Call} {ms : MSpec} (d : Option Nat) (ov : List Attr) (hov : ov ≠ []) :
    modelSpecGMM env c ms d ov = (match update env ms ov with
      | .error e => .error e
      | .ok ms' => oneReq env c ms' (if env.fwdOverride then d else none)) := by
  have : ov.isEmpty = false := by cases ov <;> simp_all
  simp only [modelSpecGMM, this, Bool.not_false, if_true]
  cases hu : update env ms ov with
  | error e => rfl
  | ok ms' =>
    have hv := update_valid hu
    simp only [getMaterializer, oneReq]
    cases resolve env c ms'.materializer with
    | error e => rfl
    | ok r => exact materializerGMM_eq _ _ (fromSpec_mspec_nil hv)

/-- `ModelSpecs.get_model_matrix` without overrides, closed form -/
def manyReq (env : Env) (c : Call) (parts : List (String × MSpec)) (d : Option Nat) : Except Err (List Request) :=
  match jointLoop none none (parts.map (·.2)) with
  | some (m, prm) =>
    match resolve env c m with
    | .error e => .error e
    | .ok r => (mkReq (instOf c r prm) (.many parts) (if env.fwdJoint then d else none)).map (fun q => [q])
  | none => (mapParts (fun ms => oneReq env c ms (perSpecDrop c d)) parts).map (fun rs => twice c.dropGrows (rs.map (·.2)))

theorem mapParts_congr {α β : Type} (f g : α → Except Err β) : ∀ (parts : List (String × α)),
    (∀ p ∈ parts, f p.2 = g p.2) → mapParts f parts = mapParts g parts
  | [], _ => rfl
  | (k, a) :: r, h => by
    simp only [mapParts, h (k, a) (by simp), mapParts_congr f g r (fun p hp => h p (List.mem_cons_of_mem _ hp))]

theorem modelSpecsGMM0_eq {env : Env} {c : Call} {parts : List (String × MSpec)} (h : ∀ p ∈ parts, ValidMS env p.2)
    (d : Option Nat) : modelSpecsGMM0 env c parts d = manyReq env c parts d := by
  simp only [modelSpecsGMM0, manyReq]
  cases jointLoop none none (parts.map (·.2)) with
  | none =>
    simp only
    rw [mapParts_congr _ (fun ms => oneReq env c ms (perSpecDrop c d)) parts (fun p hp => modelSpecGMM_nil (h p hp) _)]
  | some mp =>
    obtain ⟨m, prm⟩ := mp
    simp only
    cases resolve env c m with
    | error e => rfl
    | ok r => simp only [materializerGMM_eq _ _ (fromSpec_mspecs_nil h)]

/-! ### closed forms of the entry points -/

def afterPrepared (env : Env) (c : Call) (p : Prepared) (d : Option Nat) : Except Err (List Request) :=
  match p with
  | .one ms => (oneReq env c ms d).map (fun r => [r])
  | .many parts => manyReq env c parts d

def ValidP (env : Env) : Prepared → Prop
  | .one ms => ValidMS env ms
  | .many parts => ∀ p ∈ parts, ValidMS env p.2

theorem fromSpec_valid {env : Env} {spec : SpecArg} {ov : List Attr} {p : Prepared}
    (h : fromSpec env spec ov = .ok p) : ValidP env p := by
  cases spec with
  | formula f =>
    simp only [fromSpec] at h
    cases hu : update env { formula := f } ov with
    | error e => simp [hu, Except.map] at h
    | ok ms => simp only [hu, Except.map, Except.ok.injEq] at h; subst h; exact update_valid hu
  | mspec ms0 =>
    simp only [fromSpec] at h
    cases hu : update env ms0 ov with
    | error e => simp [hu, Except.map] at h
    | ok ms => simp only [hu, Except.map, Except.ok.injEq] at h; subst h; exact update_valid hu
  | sformula parts =>
    simp only [fromSpec] at h
    cases hu : mapParts (fun f => update env { formula := f } ov) parts with
    | error e => simp [hu, Except.map] at h
    | ok out =>
      simp only [hu, Except.map, Except.ok.injEq] at h; subst h
      intro q hq
      obtain ⟨p, _, hp⟩ := mapParts_ok_mem _ parts out hu q hq
      exact update_valid hp
  | mspecs parts =>
    simp only [fromSpec] at h
    cases hu : mapParts (fun ms => update env ms ov) parts with
    | error e => simp [hu, Except.map] at h
    | ok out =>
      simp only [hu, Except.map, Except.ok.injEq] at h; subst h
      intro q hq
      obtain ⟨p, _, hp⟩ := mapParts_ok_mem _ parts out hu q hq
      exact update_valid hp

theorem preparedGMM_nil {env : Env} {c : Call} {p : Prepared} (h : ValidP env p) (d : Option Nat) :
    preparedGMM env c p d [] = afterPrepared env c p d := by
  cases p with
  | one ms => simp only [preparedGMM, afterPrepared, modelSpecGMM_nil h]
  | many parts =>
    simp only [preparedGMM, afterPrepared, modelSpecsGMM, List.isEmpty_nil, Bool.not_true, Bool.false_eq_true, if_false]
    exact modelSpecsGMM0_eq h d

/-- closed form of the model-spec method without overrides (and of the formula method) -/
theorem specMethod_eq (env : Env) (c : Call) :
    specMethod env c = (match fromSpec env c.spec c.overrides with
      | .error e => .error e
      | .ok p => afterPrepared env c p c.dropRows) := by
  simp only [specMethod]
  cases h : fromSpec env c.spec c.overrides with
  | error e => rfl
  | ok p => exact preparedGMM_nil (fromSpec_valid h) _

def eraseAll (rs : List Request) : List Request := rs.map eraseDrop

theorem oneReq_erase (env : Env) (c : Call) (ms : MSpec) (d d' : Option Nat) :
    (oneReq env c ms d).map eraseDrop = (oneReq env c ms d').map eraseDrop := by
  simp only [oneReq]
  cases resolve env c ms.materializer with
  | error e => rfl
  | ok r => exact mkReq_erase _ _ d d'

theorem map_map_single (x : Except Err Request) :
    ((x.map (fun r => [r])).map eraseAll) = (x.map eraseDrop).map (fun r => [r]) := by
  cases x <;> rfl

theorem mem_twice {α : Type} {b : Bool} {l : List α} {x : α} : x ∈ twice b l ↔ x ∈ l := by
  cases b <;> simp [twice]

theorem eraseAll_twice (b : Bool) (l : List Request) : eraseAll (twice b l) = twice b (eraseAll l) := by
  cases b <;> simp [twice, eraseAll]

theorem mapParts_erase1 (env : Env) (c : Call) (d d' : Option Nat) : ∀ (parts : List (String × MSpec)),
    ((mapParts (fun ms => oneReq env c ms d) parts).map (fun rs => rs.map (·.2))).map eraseAll
      = ((mapParts (fun ms => oneReq env c ms d') parts).map (fun rs => rs.map (·.2))).map eraseAll
  | [] => rfl
  | (k, ms) :: r => by
    have h1 := oneReq_erase env c ms d d'
    have h2 := mapParts_erase1 env c d d' r
    simp only [mapParts]
    cases e1 : oneReq env c ms d with
    | error e =>
      cases e2 : oneReq env c ms d' with
      | error e' => simp only [e1, e2, Except.map, Except.error.injEq] at h1; subst h1; rfl
      | ok q' => simp [e1, e2, Except.map] at h1
    | ok q =>
      cases e2 : oneReq env c ms d' with
      | error e' => simp [e1, e2, Except.map] at h1
      | ok q' =>
        simp only [e1, e2, Except.map, Except.ok.injEq] at h1
        cases f1 : mapParts (fun ms => oneReq env c ms d) r with
        | error e =>
          cases f2 : mapParts (fun ms => oneReq env c ms d') r with
          | error e' => simp only [f1, f2, Except.map, Except.error.injEq] at h2; subst h2; rfl
          | ok t' => simp [f1, f2, Except.map] at h2
        | ok t =>
          cases f2 : mapParts (fun ms => oneReq env c ms d') r with
          | error e' => simp [f1, f2, Except.map] at h2
          | ok t' =>
            simp only [f1, f2, Except.map, Except.ok.injEq, eraseAll] at h2
            simp only [Except.map, eraseAll, List.map_cons, h1, h2]

/-- one pass or two: erasing `drop_rows` makes the set object irrelevant -/
theorem mapParts_erase (env : Env) (c : Call) (b : Bool) (d d' : Option Nat) (parts : List (String × MSpec)) :
    ((mapParts (fun ms => oneReq env c ms d) parts).map (fun rs => twice b (rs.map (·.2)))).map eraseAll
      = ((mapParts (fun ms => oneReq env c ms d') parts).map (fun rs => twice b (rs.map (·.2)))).map eraseAll := by
  have h := mapParts_erase1 env c d d' parts
  cases e1 : mapParts (fun ms => oneReq env c ms d) parts with
  | error e =>
    cases e2 : mapParts (fun ms => oneReq env c ms d') parts with
    | error e' => simp only [e1, e2, Except.map, Except.error.injEq] at h ⊢; exact h
    | ok t' => simp [e1, e2, Except.map] at h
  | ok t =>
    cases e2 : mapParts (fun ms => oneReq env c ms d') parts with
    | error e' => simp [e1, e2, Except.map] at h
    | ok t' =>
      simp only [e1, e2, Except.map, Except.ok.injEq] at h ⊢
      rw [eraseAll_twice, eraseAll_twice, h]

theorem manyReq_erase (env : Env) (c : Call) (parts : List (String × MSpec)) (d d' : Option Nat) :
    (manyReq env c parts d).map eraseAll = (manyReq env c parts d').map eraseAll := by
  simp only [manyReq]
  cases jointLoop none none (parts.map (·.2)) with
  | none => exact mapParts_erase env c c.dropGrows _ _ parts
  | some mp =>
    obtain ⟨m, prm⟩ := mp
    simp only
    cases resolve env c m with
    | error e => rfl
    | ok r => simp only [map_map_single, mkReq_erase _ _ (if env.fwdJoint then d else none) (if env.fwdJoint then d' else none)]

theorem afterPrepared_erase (env : Env) (c : Call) (p : Prepared) (d d' : Option Nat) :
    (afterPrepared env c p d).map eraseAll = (afterPrepared env c p d').map eraseAll := by
  cases p with
  | one ms =>
    simp only [afterPrepared, map_map_single, oneReq_erase env c ms d d']
  | many parts => exact manyReq_erase env c parts d d'

/-- the model-spec method WITH overrides, closed form: as without, except that a plain ModelSpec
loses the `drop_rows` argument -/
theorem specMethodOv_eq (env : Env) (c : Call) (henv : EnvOK env) (hv : ValidSpec env c.spec) :
    specMethodOv env c = (match fromSpec env c.spec c.overrides with
      | .error e => .error e
      | .ok p => afterPrepared env c p
          (match p with
            | .one _ => if c.overrides.isEmpty || env.fwdOverride then c.dropRows else none
            | .many _ => c.dropRows)) := by
  simp only [specMethodOv]
  rw [← fromSpec_norm env c.spec [], ← fromSpec_norm env c.spec c.overrides]
  have hv' := validSpec_norm henv c.spec hv
  generalize hs : normSpec c.spec = s at hv' ⊢
  cases s with
  | formula f => cases hc : c.spec <;> simp [hc, normSpec] at hs
  | sformula parts => cases hc : c.spec <;> simp [hc, normSpec] at hs
  | mspec ms =>
    rw [fromSpec_mspec_nil hv']
    simp only [preparedGMM]
    by_cases hov : c.overrides = []
    · rw [hov, modelSpecGMM_nil hv', fromSpec_mspec_nil hv']
      rfl
    · have he : c.overrides.isEmpty = false := by cases hc : c.overrides <;> simp_all
      rw [modelSpecGMM_ov _ _ hov]
      simp only [fromSpec, he]
      cases update env ms c.overrides with
      | error e => rfl
      | ok ms' => rfl
  | mspecs parts =>
    rw [fromSpec_mspecs_nil hv']
    simp only [preparedGMM, modelSpecsGMM]
    by_cases hov : c.overrides = []
    · rw [hov, fromSpec_mspecs_nil hv']
      simp only [List.isEmpty_nil, Bool.not_true, Bool.false_eq_true, if_false]
      exact modelSpecsGMM0_eq hv' _
    · have he : c.overrides.isEmpty = false := by cases hc : c.overrides <;> simp_all
      simp only [he, Bool.not_false, if_true]
      cases hf : fromSpec env (.mspecs parts) c.overrides with
      | error e => rfl
      | ok p =>
        have hvp := fromSpec_valid hf
        cases p with
        | one ms =>
          exfalso
          simp only [fromSpec] at hf
          cases hm : mapParts (fun ms => update env ms c.overrides) parts with
          | error e => simp [hm, Except.map] at hf
          | ok v => simp [hm, Except.map] at hf
        | many parts' =>
          simp only [afterPrepared]
          exact modelSpecsGMM0_eq hvp _

theorem materializerMethod_eq (env : Env) (c : Call) :
    materializerMethod env c = (match fromSpec env c.spec c.overrides with
      | .error e => .error e
      | .ok p =>
        match wanted p with
        | none => .error .notFound
        | some (m, prm) =>
          match resolve env c m with
          | .error e => .error e
          | .ok r => (mkReq (instOf c r prm) p c.dropRows).map (fun q => [q])) := by
  simp only [materializerMethod]
  cases hf : fromSpec env c.spec c.overrides with
  | error e => rfl
  | ok p =>
    simp only
    cases wanted p with
    | none => rfl
    | some mp =>
      obtain ⟨m, prm⟩ := mp
      simp only
      cases resolve env c m with
      | error e => rfl
      | ok r => simp only [materializerGMM_eq _ _ hf]

/-- the materializer method against the model-spec method, when there is a single class to instantiate -/
theorem materializer_vs_spec (env : Env) (c : Call)
    (hj : ∀ p, fromSpec env c.spec c.overrides = .ok p → wanted p ≠ none) :
    (materializerMethod env c).map eraseAll = (specMethod env c).map eraseAll := by
  rw [materializerMethod_eq, specMethod_eq]
  cases hf : fromSpec env c.spec c.overrides with
  | error e => rfl
  | ok p =>
    have hw := hj p hf
    cases p with
    | one ms =>
      simp only [wanted, afterPrepared, oneReq]
      cases resolve env c ms.materializer <;> rfl
    | many parts =>
      simp only [wanted] at hw ⊢
      simp only [afterPrepared, manyReq]
      cases hjl : jointLoop none none (parts.map (·.2)) with
      | none => exact absurd hjl hw
      | some mp =>
        obtain ⟨m, prm⟩ := mp
        simp only
        cases resolve env c m with
        | error e => rfl
        | ok r =>
          simp only [map_map_single, mkReq_erase _ _ c.dropRows (if env.fwdJoint then c.dropRows else none)]

theorem sugar_eq (env : Env) (c : Call) :
    sugar env c = (match update env { formula := 0 } c.overrides with
      | .error e => .error e
      | .ok ms0 =>
        match getMaterializer env c ms0 with
        | .error e => .error e
        | .ok _ => specMethod env c) := rfl

/-- the model-spec method with overrides against the one without -/
theorem specOv_vs_spec (env : Env) (c : Call) (henv : EnvOK env) (hv : ValidSpec env c.spec) :
    (specMethodOv env c).map eraseAll = (specMethod env c).map eraseAll := by
  rw [specMethodOv_eq env c henv hv, specMethod_eq]
  cases fromSpec env c.spec c.overrides with
  | error e => rfl
  | ok p => exact afterPrepared_erase env c p _ _

/-! ### what every request carries -/

/-- the plumbing facts every request carries -/
def Plumbed (c : Call) (d : Option Nat) (q : Request) : Prop :=
  q.data = c.data ∧ q.context = c.context ∧ q.layers = ["data", "context", "transforms"] ∧ q.dropRows = d

theorem mkReq_plumbed {c : Call} {r : String × List String} {prm : Option Nat} {p : Prepared} {d : Option Nat} {q : Request}
    (h : mkReq (instOf c r prm) p d = .ok q) : Plumbed c d q ∧ q.matName = r.1 ∧ q.params = prm := by
  obtain ⟨specs, _, _, rfl⟩ := mkReq_ok h
  exact ⟨⟨rfl, rfl, rfl, rfl⟩, rfl, rfl⟩

theorem oneReq_plumbed {env : Env} {c : Call} {ms : MSpec} {d : Option Nat} {q : Request}
    (h : oneReq env c ms d = .ok q) : Plumbed c d q := by
  simp only [oneReq] at h
  cases hr : resolve env c ms.materializer with
  | error e => simp [hr] at h
  | ok r => simp only [hr] at h; exact (mkReq_plumbed h).1

/-- which `drop_rows` the requests of a prepared spec carry when `d` was handed to its `get_model_matrix` -/
def dropAfter (env : Env) (c : Call) (p : Prepared) (d : Option Nat) : Option Nat :=
  match p with
  | .one _ => d
  | .many parts =>
    match jointLoop none none (parts.map (·.2)) with
    | some _ => if env.fwdJoint then d else none      -- joint: one request with the caller's object (or `None`)
    | none => perSpecDrop c d                         -- per spec: the caller's set, or ONE fresh set for all parts

theorem afterPrepared_plumbed {env : Env} {c : Call} {p : Prepared} {d : Option Nat} {rs : List Request}
    (h : afterPrepared env c p d = .ok rs) : ∀ q ∈ rs, Plumbed c (dropAfter env c p d) q := by
  cases p with
  | one ms =>
    simp only [afterPrepared] at h
    cases ho : oneReq env c ms d with
    | error e => simp [ho, Except.map] at h
    | ok q0 =>
      simp only [ho, Except.map, Except.ok.injEq] at h
      subst h
      intro q hq
      simp only [List.mem_singleton] at hq
      subst hq
      exact oneReq_plumbed ho
  | many parts =>
    simp only [afterPrepared, manyReq] at h
    simp only [dropAfter]
    cases hj : jointLoop none none (parts.map (·.2)) with
    | some mp =>
      obtain ⟨m, prm⟩ := mp
      simp only [hj] at h
      cases hr : resolve env c m with
      | error e => simp [hr] at h
      | ok r =>
        simp only [hr] at h
        cases hm : mkReq (instOf c r prm) (.many parts) (if env.fwdJoint then d else none) with
        | error e => simp [hm, Except.map] at h
        | ok q0 =>
          simp only [hm, Except.map, Except.ok.injEq] at h
          subst h
          intro q hq
          simp only [List.mem_singleton] at hq
          subst hq
          have := (mkReq_plumbed hm).1
          cases hfj : env.fwdJoint <;> simpa [hfj] using this
    | none =>
      simp only [hj] at h
      cases hm : mapParts (fun ms => oneReq env c ms (perSpecDrop c d)) parts with
      | error e => simp [hm, Except.map] at h
      | ok out =>
        simp only [hm, Except.map, Except.ok.injEq] at h
        subst h
        intro q hq
        obtain ⟨kq, hkq, rfl⟩ := List.mem_map.mp (mem_twice.mp hq)
        obtain ⟨p0, _, hp0⟩ := mapParts_ok_mem _ parts out hm kq hkq
        simpa using oneReq_plumbed hp0

/-! ### equal up to `drop_rows` + the same `drop_rows` = equal -/

theorem eq_of_eraseDrop {q₁ q₂ : Request} (h : eraseDrop q₁ = eraseDrop q₂) (hd : q₁.dropRows = q₂.dropRows) : q₁ = q₂ := by
  cases q₁; cases q₂
  simp only [eraseDrop, Request.mk.injEq] at h
  simp only at hd
  simp only [Request.mk.injEq]
  exact ⟨h.1, h.2.1, h.2.2.1, h.2.2.2.1, h.2.2.2.2.1, h.2.2.2.2.2.1, h.2.2.2.2.2.2.1, hd⟩

theorem eq_of_eraseAll : ∀ {r₁ r₂ : List Request} (d : Option Nat), eraseAll r₁ = eraseAll r₂ →
    (∀ q ∈ r₁, q.dropRows = d) → (∀ q ∈ r₂, q.dropRows = d) → r₁ = r₂
  | [], [], _, _, _, _ => rfl
  | [], _ :: _, _, h, _, _ => by simp [eraseAll] at h
  | _ :: _, [], _, h, _, _ => by simp [eraseAll] at h
  | a :: r₁, b :: r₂, d, h, h₁, h₂ => by
    simp only [eraseAll, List.map_cons, List.cons.injEq] at h
    have hab : a = b := eq_of_eraseDrop h.1 ((h₁ a (by simp)).trans (h₂ b (by simp)).symm)
    have := eq_of_eraseAll d (r₁ := r₁) (r₂ := r₂) h.2 (fun q hq => h₁ q (List.mem_cons_of_mem _ hq))
      (fun q hq => h₂ q (List.mem_cons_of_mem _ hq))
    rw [hab, this]

end FormulaicVerif.Proofs.C05E
