import FormulaicVerif.Proofs.C18Pure
import FormulaicVerif.Spec.PurityX
/-! Helper lemmas for C18: the extended store model (`Model/HeapX.lean`: formula objects, edits through
the sequence protocol, state-resetting updates) computes the extended value semantics
(`Spec/PurityX.lean`). -/
namespace FormulaicVerif.Proofs.C18X
open FormulaicVerif.Model.Heap FormulaicVerif.Model.HeapX FormulaicVerif.Spec.Purity
open FormulaicVerif.Spec.PurityX FormulaicVerif.Proofs.C18

variable {F E : Type}

/-- the values behind an extended world -/
def xabs (xw : XWorld F E) : XEnv F E := ⟨xw.forms, absW xw.base, xw.fref⟩

theorem absW_length (w : World F E) : (absW w).length = w.specs.length := by simp [absW]

@[simp] theorem xabs_forms (xw : XWorld F E) : (xabs xw).forms = xw.forms := rfl
@[simp] theorem xabs_specs (xw : XWorld F E) : (xabs xw).specs = absW xw.base := rfl
@[simp] theorem xabs_fref (xw : XWorld F E) : (xabs xw).fref = xw.fref := rfl

variable (P : Params F E)

/-- what one extended operation guarantees -/
structure XSim (xw : XWorld F E) (op : XOp) : Prop where
  out : (xstep P xw op).2 = (xpstep P (xabs xw) op).2
  env : xabs (xstep P xw op).1 = (xpstep P (xabs xw) op).1
  inv : Inv (xstep P xw op).1.base

/-- a delegated base operation followed by the reference bookkeeping -/
theorem grow_sim (xw : XWorld F E) (op : Op) (refs : List Nat) (forms : List Formula) (hi : Inv xw.base) :
    (grow xw (step P .copy xw.base op) refs forms).2
        = (pgrow (xabs xw) (pstep P (absW xw.base) op) refs forms).2
    ∧ xabs (grow xw (step P .copy xw.base op) refs forms).1
        = (pgrow (xabs xw) (pstep P (absW xw.base) op) refs forms).1
    ∧ Inv (grow xw (step P .copy xw.base op) refs forms).1.base := by
  have ss := step_sim P xw.base op hi
  refine ⟨?_, ?_, ss.inv⟩
  · simp only [grow, pgrow, ss.out]
  · have hl : (step P .copy xw.base op).1.specs.length = (pstep P (absW xw.base) op).1.length := by
      rw [← ss.env, absW_length]
    simp only [grow, pgrow, xabs, ss.env, hl, absW_length]

theorem step_length_eq (xw : XWorld F E) (op : Op) (hi : Inv xw.base) :
    (step P .copy xw.base op).1.specs.length = (pstep P (absW xw.base) op).1.length := by
  rw [← (step_sim P xw.base op hi).env, absW_length]

theorem absS_formula (w : World F E) (s : Spec E) (f : Formula) :
    absS w { s with formula := f } = { absS w s with formula := f } := rfl

theorem rewrite_abs (w : World F E) (specs : List (Spec E)) (fref : List Nat) (fid : Nat) (f : Formula) :
    (rewriteAll specs fref fid f).map (absS w) = prewriteAll (specs.map (absS w)) fref fid f := by
  unfold rewriteAll prewriteAll rewrite prewrite
  rw [List.map_append, List.map_drop, List.map_map, List.zip_map_left, List.map_map]
  congr 1
  apply List.map_congr_left
  intro p _
  simp only [Function.comp_apply, Prod.map_fst, Prod.map_snd, id_eq]
  split <;> rfl

theorem mem_rewriteAll {specs : List (Spec E)} {fref : List Nat} {fid : Nat} {f : Formula} {s : Spec E}
    (h : s ∈ rewriteAll specs fref fid f) : ∃ s0 ∈ specs, s.t = s0.t ∧ s.e = s0.e := by
  unfold rewriteAll rewrite at h
  rcases List.mem_append.mp h with h | h
  · obtain ⟨p, hp, rfl⟩ := List.mem_map.mp h
    refine ⟨p.1, (List.of_mem_zip hp).1, ?_⟩
    split <;> exact ⟨rfl, rfl⟩
  · exact ⟨s, List.mem_of_mem_drop h, rfl, rfl⟩

theorem editForm_sim (xw : XWorld F E) (fid : Nat) (e : Edit) (hi : Inv xw.base) :
    (editForm xw fid e).2 = (peditForm (xabs xw) fid e).2
    ∧ xabs (editForm xw fid e).1 = (peditForm (xabs xw) fid e).1
    ∧ Inv (editForm xw fid e).1.base := by
  unfold editForm peditForm
  simp only [xabs]
  cases xw.forms[fid]? with
  | none => exact ⟨rfl, rfl, hi⟩
  | some f =>
    simp only
    cases applyEdit f e with
    | error x => exact ⟨rfl, rfl, hi⟩
    | ok f' =>
      refine ⟨rfl, ?_, ?_⟩
      · simp only [xabs, absW]
        congr 1
        exact rewrite_abs _ _ _ _ _
      · intro s hs
        obtain ⟨s0, h0, ht, he⟩ := mem_rewriteAll hs
        have := hi s0 h0
        simp only [ht, he]
        exact this

theorem xstep_sim (xw : XWorld F E) (op : XOp) (hi : Inv xw.base) : XSim P xw op := by
  cases op with
  | formula f => exact ⟨rfl, rfl, hi⟩
  | newSpec fid cfg =>
    cases hf : xw.forms[fid]? with
    | none => exact ⟨by simp [xstep, xpstep, hf], by simp [xstep, xpstep, hf], by simp [xstep, hf]; exact hi⟩
    | some f =>
      obtain ⟨a, b, c⟩ := grow_sim P xw (.newSpec f cfg) [fid] xw.forms hi
      exact ⟨by simp only [xstep, xpstep, xabs_forms, xabs_specs, xabs_fref, hf]; exact a, by simp only [xstep, xpstep, xabs_forms, xabs_specs, xabs_fref, hf]; exact b,
        by simp only [xstep, hf]; exact c⟩
  | update h u =>
    cases hd : derefAll xw.forms u.formula.toList with
    | none => exact ⟨by simp [xstep, xpstep, hd], by simp [xstep, xpstep, hd], by simp [xstep, hd]; exact hi⟩
    | some fs =>
      cases hr : xw.fref[h]? with
      | none => exact ⟨by simp [xstep, xpstep, hd, hr], by simp [xstep, xpstep, hd, hr],
          by simp [xstep, hd, hr]; exact hi⟩
      | some r =>
        by_cases hreset : u.resetState = true
        · cases hs : xw.base.specs[h]? with
          | none =>
            have hp : (absW xw.base)[h]? = none := by simp [absW, hs]
            exact ⟨by simp [xstep, xpstep, hd, hr, hreset, hs, hp], by simp [xstep, xpstep, hd, hr, hreset, hs, hp],
              by simp [xstep, hd, hr, hreset, hs]; exact hi⟩
          | some s =>
            have hp : (absW xw.base)[h]? = some (absS xw.base s) := by simp [absW, hs]
            have hm := List.mem_of_getElem? hs
            refine ⟨by simp [xstep, xpstep, hd, hr, hreset, hs, hp], ?_, ?_⟩
            · simp only [xstep, xpstep, xabs_forms, xabs_specs, xabs_fref, hd, hr, hreset, hs, hp, if_true]
              unfold xabs
              simp only
              congr 1
              unfold absW
              simp only [List.map_append, List.map_cons, List.map_nil]
              congr 1
              · exact absW_frame xw.base _ hi
                  (fun r hr => ⟨alloc_tcells_lt xw.base Dict.empty Dict.empty hr,
                    alloc_ecells_lt xw.base Dict.empty Dict.empty hr⟩)
              · simp only [absS, World.alloc, pApplyUpd, applyUpd, if_true]; rfl
            · simp only [xstep, hd, hr, hreset, hs, if_true]
              intro s' hs'
              simp only [List.mem_append, List.mem_singleton] at hs'
              rcases hs' with h' | h'
              · have := hi s' h'; simp only [alloc_next]; omega
              · subst h'; simp [World.alloc]
        · have hreset' : u.resetState = false := by simpa using hreset
          obtain ⟨a, b, c⟩ := grow_sim P xw (.update h (baseUpd u fs.head?)) [refAfter (some u) r] xw.forms hi
          exact ⟨by simp only [xstep, xpstep, xabs_forms, xabs_specs, xabs_fref, hd, hr, hreset']; exact a,
            by simp only [xstep, xpstep, xabs_forms, xabs_specs, xabs_fref, hd, hr, hreset']; exact b, by simp only [xstep, hd, hr, hreset']; exact c⟩
  | subset h picks =>
    have hl := step_length_eq P xw (.subset h (reorder picks)) hi
    obtain ⟨a, b, c⟩ := grow_sim P xw (.subset h (reorder picks)) [xw.forms.length]
      (if xw.base.specs.length < (step P .copy xw.base (.subset h (reorder picks))).1.specs.length
        then xw.forms ++ [reorder picks] else xw.forms) hi
    refine ⟨by simp only [xstep, xpstep, xabs]; exact a, ?_, by simp only [xstep]; exact c⟩
    simp only [xstep, xpstep]
    rw [b]
    simp only [xabs, hl, absW_length]
  | build fids cfg d =>
    cases hd : derefAll xw.forms fids with
    | none => exact ⟨by simp [xstep, xpstep, hd], by simp [xstep, xpstep, hd], by simp [xstep, hd]; exact hi⟩
    | some fs =>
      obtain ⟨a, b, c⟩ := grow_sim P xw (.build fs cfg d) fids xw.forms hi
      exact ⟨by simp only [xstep, xpstep, xabs_forms, xabs_specs, xabs_fref, hd]; exact a, by simp only [xstep, xpstep, xabs_forms, xabs_specs, xabs_fref, hd]; exact b,
        by simp only [xstep, hd]; exact c⟩
  | call hs u d =>
    cases hd : derefAll xw.forms (updForms u) with
    | none => exact ⟨by simp [xstep, xpstep, hd], by simp [xstep, xpstep, hd], by simp [xstep, hd]; exact hi⟩
    | some fs =>
      cases hr : lookupAll xw.fref hs with
      | none => exact ⟨by simp [xstep, xpstep, hd, hr], by simp [xstep, xpstep, hd, hr],
          by simp [xstep, hd, hr]; exact hi⟩
      | some rs =>
        obtain ⟨a, b, c⟩ := grow_sim P xw (.call hs (u.map fun u => baseUpd u fs.head?) d) (rs.map (refAfter u)) xw.forms hi
        exact ⟨by simp only [xstep, xpstep, xabs_forms, xabs_specs, xabs_fref, hd, hr]; exact a, by simp only [xstep, xpstep, xabs_forms, xabs_specs, xabs_fref, hd, hr]; exact b,
          by simp only [xstep, hd, hr]; exact c⟩
  | edit fid e =>
    obtain ⟨a, b, c⟩ := editForm_sim xw fid e hi
    exact ⟨a, b, c⟩
  | editOf h e =>
    cases hr : xw.fref[h]? with
    | none => exact ⟨by simp [xstep, xpstep, hr], by simp [xstep, xpstep, hr], by simp [xstep, hr]; exact hi⟩
    | some fid =>
      obtain ⟨a, b, c⟩ := editForm_sim xw fid e hi
      exact ⟨by simp only [xstep, xpstep, xabs_forms, xabs_specs, xabs_fref, hr]; exact a, by simp only [xstep, xpstep, xabs_forms, xabs_specs, xabs_fref, hr]; exact b,
        by simp only [xstep, hr]; exact c⟩

theorem xinv_init : Inv (XWorld.init : XWorld F E).base := inv_init

/-- a whole extended history computes the value-level history -/
theorem xrun_sim : ∀ (h : List XOp) (xw : XWorld F E), Inv xw.base →
    xrun P xw h = xprun P (xabs xw) h
    ∧ xabs (xfinal P xw h) = xpfinal P (xabs xw) h
    ∧ Inv (xfinal P xw h).base := by
  intro h
  induction h with
  | nil => intro xw hi; exact ⟨rfl, rfl, hi⟩
  | cons op ops ih =>
    intro xw hi
    have ss := xstep_sim P xw op hi
    obtain ⟨i1, i2, i3⟩ := ih (xstep P xw op).1 ss.inv
    refine ⟨?_, ?_, i3⟩
    · show (xstep P xw op).2 :: xrun P (xstep P xw op).1 ops = _
      rw [i1, ss.out, ss.env]; rfl
    · show xabs (xfinal P (xstep P xw op).1 ops) = _
      rw [i2, ss.env]; rfl

end FormulaicVerif.Proofs.C18X
