import FormulaicVerif.Proofs.C01Denote
/-! # C01 — runs of signs, and token lists that the shunting-yard cannot tell apart

* `resolve_run`: an operator token whose text is a RUN of signs (`+-`, `--+`, …, any length ≥ 1) resolves,
  under every feature-flag subset, to the candidates of the ONE sign given by the parity of its `-`
  (the character-level fact is `collapse_run`, C01.2c; here it is carried through the table lookup).
* `PW`: two token lists of the same length whose tokens are pairwise indistinguishable to `shuntStep`
  give the same tree (`tokensToAst_pw`) — so a list with sign-run operator tokens parses as the list
  with the collapsed signs does.
* `MergesTo`: how `merge_operator_tokens` acts on a concatenation: piece by piece, as long as each piece
  ends in a token that is not pooled; a block of adjacent sign-run tokens becomes ONE token whose text
  is the concatenation. -/
namespace FormulaicVerif.Proofs.C01Runs
open FormulaicVerif FormulaicVerif.Model FormulaicVerif.Proofs.ShuntC FormulaicVerif.Proofs.C01Grammar
open FormulaicVerif.Proofs.C01Tokens FormulaicVerif.Proofs.C01Denote
open FormulaicVerif.Spec.Wilkinson (documentedTable)

/-! ### runs of signs -/

/-- a non-empty list of `+` / `-` characters -/
def IsRun (r : List Char) : Prop := r ≠ [] ∧ ∀ c ∈ r, c = '+' ∨ c = '-'

instance (r : List Char) : Decidable (IsRun r) := by unfold IsRun; infer_instance

/-- the run contains an odd number of `-` -/
def runNeg (r : List Char) : Bool := (r.filter (· == '-')).length % 2 == 1

/-- the one sign a run stands for -/
def runOp (r : List Char) : AddOp := if runNeg r then .minus else .plus

theorem isRun_append {r s : List Char} (hr : IsRun r) (hs : IsRun s) : IsRun (r ++ s) :=
  ⟨by simp [hr.1], fun c hc => by
    rcases List.mem_append.1 hc with h | h
    · exact hr.2 c h
    · exact hs.2 c h⟩

theorem isRun_plus : IsRun ['+'] := by decide
theorem isRun_minus : IsRun ['-'] := by decide

theorem runNeg_append (r s : List Char) : runNeg (r ++ s) = (runNeg r != runNeg s) := by
  unfold runNeg
  rw [List.filter_append, List.length_append]
  generalize (r.filter (· == '-')).length = a
  generalize (s.filter (· == '-')).length = b
  have ha := Nat.mod_two_eq_zero_or_one a
  have hb := Nat.mod_two_eq_zero_or_one b
  have : (a + b) % 2 = (a % 2 + b % 2) % 2 := Nat.add_mod a b 2
  rcases ha with ha | ha <;> rcases hb with hb | hb <;> simp [this, ha, hb]

theorem runOp_plus_append (r : List Char) : runOp ('+' :: r) = runOp r := by
  have := runNeg_append ['+'] r
  simp only [List.singleton_append] at this
  unfold runOp
  rw [this]
  simp [runNeg]

theorem runOp_append_minus (r : List Char) :
    runOp (r ++ ['-']) = (match runOp r with | .plus => .minus | .minus => .plus) := by
  unfold runOp
  rw [runNeg_append]
  have : runNeg ['-'] = true := by decide
  rw [this]
  cases runNeg r <;> rfl

theorem runOp_single (sg : AddOp) : runOp sg.sym = sg := by cases sg <;> rfl

theorem lookup_run_none (a b c : Bool) (x y : Char) (rest : List Char) (hx : x = '+' ∨ x = '-') :
    (documentedTable a b c).lookup (String.ofList (x :: y :: rest)) = none := by
  have hne : ∀ k : String, k.toList.length ≤ 1 ∨ k = "**" ∨ k = "in" →
      (k == String.ofList (x :: y :: rest)) = false := by
    intro k hk
    rw [beq_eq_false_iff_ne]
    intro he
    have := congrArg String.toList he
    rw [String.toList_ofList] at this
    rcases hk with hk | rfl | rfl
    · rw [this] at hk; simp at hk
    · simp at this; rcases hx with rfl | rfl <;> simp at this
    · simp at this; rcases hx with rfl | rfl <;> simp at this
  generalize String.ofList (x :: y :: rest) = w at hne
  have k1 := hne "~" (Or.inl (by decide))
  have k2 := hne "|" (Or.inl (by decide))
  have k3 := hne "+" (Or.inl (by decide))
  have k4 := hne "-" (Or.inl (by decide))
  have k5 := hne "*" (Or.inl (by decide))
  have k6 := hne "/" (Or.inl (by decide))
  have k7 := hne "in" (Or.inr (Or.inr rfl))
  have k8 := hne ":" (Or.inl (by decide))
  have k9 := hne "**" (Or.inr (Or.inl rfl))
  have k10 := hne "^" (Or.inl (by decide))
  have k11 := hne "." (Or.inl (by decide))
  unfold OpTable.lookup documentedTable
  simp only [List.find?, k1, k2, k3, k4, k5, k6, k7, k8, k9, k10, k11]

/-- **a run of signs resolves to its parity sign**, for every feature-flag subset -/
theorem resolve_run (a b c : Bool) (r : List Char) (hr : IsRun r) :
    resolveToken (documentedTable a b c) r = .ok [(runOp r).cands] := by
  obtain ⟨hne, hs⟩ := hr
  match r, hne, hs with
  | [x], _, hs =>
    rcases hs x (by simp) with rfl | rfl <;> cases a <;> cases b <;> cases c <;> rfl
  | x :: y :: rest, _, hs =>
    have hx := hs x (by simp)
    have hall : ∀ ch ∈ x :: y :: rest, (ch == '+' || ch == '-') = true := by
      intro ch hch
      rcases hs ch hch with rfl | rfl <;> rfl
    have hc := Proofs.C01.collapse_run (x :: y :: rest) hall (by simp)
    unfold resolveToken
    rw [lookup_run_none a b c x y rest hx]
    simp only [hc]
    unfold runOp runNeg
    by_cases hp : ((x :: y :: rest).filter (· == '-')).length % 2 = 1
    · simp only [hp, if_true, beq_self_eq_true]
      cases a <;> cases b <;> cases c <;> rfl
    · have hp' : (((x :: y :: rest).filter (· == '-')).length % 2 == 1) = false := by simpa using hp
      simp only [hp, if_false, hp']
      cases a <;> cases b <;> cases c <;> rfl

/-! ### token lists the shunting-yard cannot tell apart -/

/-- the two tokens have the same effect on every shunting-yard state -/
def TokEq (tab : OpTable) (t t' : Tok) : Prop := ∀ s, shuntStep tab s t = shuntStep tab s t'

/-- pairwise `TokEq`, same length -/
inductive PW (tab : OpTable) : List Tok → List Tok → Prop
  | nil : PW tab [] []
  | cons {t t' : Tok} {ts ts' : List Tok} : TokEq tab t t' → PW tab ts ts' → PW tab (t :: ts) (t' :: ts')

theorem PW.refl (tab : OpTable) : ∀ ts, PW tab ts ts
  | [] => .nil
  | _ :: ts => .cons (fun _ => rfl) (PW.refl tab ts)

theorem PW.append {tab : OpTable} : ∀ {a a' b b' : List Tok}, PW tab a a' → PW tab b b' → PW tab (a ++ b) (a' ++ b')
  | _, _, _, _, .nil, hb => hb
  | _, _, _, _, .cons h ha, hb => .cons h (PW.append ha hb)

theorem PW.cons_same {tab : OpTable} (t : Tok) {a a' : List Tok} (h : PW tab a a') : PW tab (t :: a) (t :: a') :=
  .cons (fun _ => rfl) h

theorem tokEq_run (a b c : Bool) (r r' : List Char) (hr : IsRun r) (hr' : IsRun r') (h : runOp r = runOp r') :
    TokEq (documentedTable a b c) (opTok r) (opTok r') := fun s =>
  shuntStep_op_congr _ s _ _ (by rw [resolve_run a b c r hr, resolve_run a b c r' hr', h])

theorem shuntRun_pw (tab : OpTable) : ∀ {ts ts' : List Tok}, PW tab ts ts' → ∀ s, shuntRun tab ts s = shuntRun tab ts' s
  | _, _, .nil, _ => rfl
  | _, _, .cons h hr, s => by
    simp only [shuntRun, h s]
    cases shuntStep tab s _ with
    | error e => rfl
    | ok s' => exact shuntRun_pw tab hr s'

/-- pairwise indistinguishable token lists give the same tree -/
theorem tokensToAst_pw (tab : OpTable) {ts ts' : List Tok} (h : PW tab ts ts') :
    tokensToAst tab ts = tokensToAst tab ts' := by
  unfold tokensToAst
  rw [shuntRun_pw tab h]

/-! ### `merge_operator_tokens`, piece by piece -/

/-- the pending pooled token: none, or an operator token with the given text -/
def pend (pfx : List Char) : Option Tok := if pfx = [] then none else some (opTok pfx)

/-- what a pending token becomes when it is emitted -/
def emit (pfx : List Char) : List Tok := if pfx = [] then [] else [opTok pfx]

/-- with the pending token `pfx`, the piece `A` is merged to `B`, leaving nothing pending -/
def MergesTo (pfx : List Char) (A B : List Tok) : Prop :=
  ∀ Y, mergeSignsAux (A ++ Y) (pend pfx) = B ++ mergeSignsAux Y none

theorem mergesTo_append {pfx : List Char} {A B A' B' : List Tok} (h : MergesTo pfx A B) (h' : MergesTo [] A' B') :
    MergesTo pfx (A ++ A') (B ++ B') := by
  intro Y
  have e : pend [] = none := rfl
  have h2 := h' Y
  rw [e] at h2
  rw [List.append_assoc, h, h2, List.append_assoc]

theorem mergesTo_nil : MergesTo [] [] [] := fun _ => rfl

/-- a token that is not an operator flushes the pending token and is emitted -/
theorem mergesTo_nonop (pfx : List Char) (u : Tok) (hu : ¬ IsOp u) : MergesTo pfx [u] (emit pfx ++ [u]) := by
  intro Y
  rw [List.singleton_append, mergeAux_nonop u Y hu]
  unfold pend emit
  by_cases h : pfx = [] <;> simp [h]

/-- an operator token that is not pooled (`~`, `|`, `*`, …) likewise -/
theorem mergesTo_nonpool (u : Tok) (hu : NonPool u) : MergesTo [] [u] [u] := by
  intro Y
  exact mergeAux_nonpool u Y hu

theorem pools_run (r : List Char) (hr : IsRun r) :
    ((opTok r).kind != some .operator || !(match (opTok r).text.head? with | some c => isSign c | none => false)) = false := by
  obtain ⟨hne, hs⟩ := hr
  cases r with
  | nil => exact absurd rfl hne
  | cons c r => rcases hs c (by simp) with rfl | rfl <;> rfl

theorem last_run (r : List Char) (hr : IsRun r) (pfx : List Char) :
    (!(match (pfx ++ r).getLast? with | some c => isSign c | none => false)) = false := by
  obtain ⟨hne, hs⟩ := hr
  have hl : (pfx ++ r).getLast? = r.getLast? := by
    rw [List.getLast?_append]
    cases h : r.getLast? with
    | none => exact absurd (List.getLast?_eq_none_iff.1 h) hne
    | some c => rfl
  rw [hl]
  cases h : r.getLast? with
  | none => exact absurd (List.getLast?_eq_none_iff.1 h) hne
  | some c =>
    rcases hs c (List.mem_of_getLast? h) with rfl | rfl <;> rfl

/-- a sign-run token joins the pending token -/
theorem merge_run_step (pfx r : List Char) (hr : IsRun r) (Y : List Tok) :
    mergeSignsAux (opTok r :: Y) (pend pfx) = mergeSignsAux Y (pend (pfx ++ r)) := by
  have hpr : pfx ++ r ≠ [] := by simp [hr.1]
  have e2 : pend (pfx ++ r) = some (opTok (pfx ++ r)) := by unfold pend; rw [if_neg hpr]
  rw [e2]
  by_cases hp0 : pfx = []
  · subst hp0
    have e1 : pend [] = none := rfl
    rw [e1, mergeSignsAux, if_neg (fun h => by have := pools_run r hr; exact Bool.noConfusion (h.symm.trans this))]
    rfl
  · have e1 : pend pfx = some (opTok pfx) := by unfold pend; rw [if_neg hp0]
    rw [e1, mergeSignsAux, if_neg (fun h => by have := pools_run r hr; exact Bool.noConfusion (h.symm.trans this))]
    show (if (!(match ((opTok pfx).text ++ (opTok r).text).getLast? with | some c => isSign c | none => false)) = true
        then _ else _) = _
    rw [if_neg (fun h => by have := last_run r hr pfx; exact Bool.noConfusion (h.symm.trans this))]
    rfl

/-- a sign-run token in front of a piece: it joins the pending token, the rest is merged as a piece with
the longer pending token -/
theorem mergesTo_run_cons {pfx r : List Char} {A B : List Tok} (hr : IsRun r)
    (h : MergesTo (pfx ++ r) A B) : MergesTo pfx (opTok r :: A) B := by
  intro Y
  rw [List.cons_append, merge_run_step pfx r hr]
  exact h Y

end FormulaicVerif.Proofs.C01Runs
