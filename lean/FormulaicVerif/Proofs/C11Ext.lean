import FormulaicVerif.Proofs.C11Lists
import FormulaicVerif.Model.ContrastsExt
import Mathlib.LinearAlgebra.Matrix.NonsingularInverse
import Mathlib.Data.Matrix.Mul

/-! # C11 helper lemmas, part 5: the extended surface (`Model/ContrastsExt.lean`)

* `invert_inverse_sound` / `invert_singular_sound`: the exact inverse the model computes for a custom coding is
  certified — an answer `inverse K` is a two-sided inverse, an answer `singular w` excludes invertibility;
* `apply_values`: `Contrasts.apply` is `dummies @ coding` for any rectangular `dummies` (not only indicator matrices);
* lemmas on `CustomContrasts` construction, names, and the output inference of `Contrasts.apply`. -/

open Finset BigOperators Matrix
set_option linter.unusedSimpArgs false
set_option linter.unusedVariables false
set_option linter.unnecessarySeqFocus false
namespace FormulaicVerif.Proofs.C11
open FormulaicVerif.Model.Contrasts FormulaicVerif.Model.ContrastsExt FormulaicVerif.Spec.Contrasts

/-- entry `(i, j)` of a list-of-rows matrix (0 outside) -/
def entry (a : List (List ℚ)) (i j : ℕ) : ℚ :=
  match a[i]? with
  | some row => listFn row j
  | none => 0

/-- a list-of-rows matrix as an `n × n` Mathlib matrix -/
def toM (a : List (List ℚ)) (n : ℕ) : Matrix (Fin n) (Fin n) ℚ := Matrix.of fun i j => entry a i.val j.val

theorem isRect_spec {a : List (List ℚ)} {r c : ℕ} (h : isRect a r c = true) :
    a.length = r ∧ ∀ row ∈ a, row.length = c := by
  unfold isRect at h
  simp only [Bool.and_eq_true, beq_iff_eq, List.all_eq_true] at h
  exact h

theorem rect_eq_toRows {a : List (List ℚ)} {r c : ℕ} (h : isRect a r c = true) : a = toRows (entry a) r c := by
  obtain ⟨hl, hrow⟩ := isRect_spec h
  apply List.ext_getElem
  · simp [toRows, hl]
  · intro i h1 h2
    have hi : i < r := by omega
    simp only [toRows, List.getElem_map, List.getElem_range]
    have hrl : (a[i]).length = c := hrow _ (List.getElem_mem h1)
    have : a[i] = tab c (listFn a[i]) := by rw [← hrl]; exact list_eq_tab _
    rw [this]
    unfold tab
    apply List.map_congr_left
    intro j _
    simp [entry, h1]

theorem matMul_entry_eq {k a : List (List ℚ)} {n : ℕ} (hk : isRect k n n = true) (ha : isRect a n n = true)
    (h : matMul k a n = identity n) (i j : ℕ) (hi : i < n) (hj : j < n) :
    ∑ l ∈ range n, entry k i l * entry a l j = if i = j then 1 else 0 := by
  obtain ⟨hkl, hkrow⟩ := isRect_spec hk
  rw [rect_eq_toRows ha, matMul_toRows k _ n n hkrow] at h
  have h1 : i < k.length := by omega
  have := congrArg (fun m => (m[i]?).bind (·[j]?)) h
  simp only [identity, toRows, List.getElem?_map, List.getElem?_range hi, List.getElem?_range hj, h1,
    List.getElem?_eq_getElem, Option.map_some, Option.bind_some, Option.some.injEq, eye] at this
  rw [sumTo_eq] at this
  rw [← this]
  apply Finset.sum_congr rfl
  intro l _
  simp [entry, h1]


theorem toM_mul_eq_one {k a : List (List ℚ)} {n : ℕ} (hk : isRect k n n = true) (ha : isRect a n n = true)
    (h : matMul k a n = identity n) : toM k n * toM a n = 1 := by
  ext i j
  simp only [Matrix.mul_apply, toM, Matrix.of_apply]
  rw [Fin.sum_univ_eq_sum_range (fun l => entry k i.val l * entry a l j.val) n,
    matMul_entry_eq hk ha h i.val j.val i.isLt j.isLt]
  simp [Matrix.one_apply, Fin.ext_iff]

/-- what `invert` certifies before it answers `inverse k` -/
theorem invert_inverse_spec {a k : List (List ℚ)} {n : ℕ} (h : invert a n = .inverse k) :
    isRect a n n = true ∧ isRect k n n = true ∧ matMul k a n = identity n := by
  unfold invert at h
  by_cases ha : isRect a n n = true
  · simp only [ha, Bool.not_true, Bool.false_eq_true, if_false] at h
    split at h
    · split at h
      · rename_i hc
        simp only [Bool.and_eq_true, beq_iff_eq] at hc
        cases h
        exact ⟨ha, hc.1, hc.2⟩
      · cases h
    · split at h
      · cases h
      · split at h <;> cases h
  · simp [ha] at h

/-- **certified inverse**: whatever `invert` returns as an inverse IS the two-sided inverse -/
theorem invert_inverse_sound {a k : List (List ℚ)} {n : ℕ} (h : invert a n = .inverse k) :
    toM k n * toM a n = 1 ∧ toM a n * toM k n = 1 := by
  obtain ⟨ha, hk, hm⟩ := invert_inverse_spec h
  have h1 := toM_mul_eq_one hk ha hm
  exact ⟨h1, mul_eq_one_comm.mp h1⟩

theorem invert_singular_spec {a : List (List ℚ)} {w : List ℚ} {n : ℕ} (h : invert a n = .singular w) :
    isRect a n n = true ∧ w.length = n ∧ (∃ x ∈ w, x ≠ 0) ∧ vecMat w a n = List.replicate n 0 := by
  unfold invert at h
  by_cases ha : isRect a n n = true
  · simp only [ha, Bool.not_true, Bool.false_eq_true, if_false] at h
    split at h
    · split at h <;> cases h
    · split at h
      · cases h
      · split at h
        · rename_i hc
          simp only [Bool.and_eq_true, beq_iff_eq, List.any_eq_true, decide_eq_true_eq] at hc
          cases h
          exact ⟨ha, hc.1.1, hc.1.2, hc.2⟩
        · cases h
  · simp [ha] at h

/-- **certified singularity**: a matrix for which `invert` returns a kernel vector has no inverse -/
theorem invert_singular_sound {a : List (List ℚ)} {w : List ℚ} {n : ℕ} (h : invert a n = .singular w) :
    ¬ IsUnit (toM a n).det := by
  obtain ⟨ha, hw, ⟨x, hx, hx0⟩, hv⟩ := invert_singular_spec h
  intro hu
  -- the row vector `v` with `v ᵥ* A = 0`
  let v : Fin n → ℚ := fun i => listFn w i.val
  have hvA : v ᵥ* toM a n = 0 := by
    ext j
    simp only [Matrix.vecMul, dotProduct, toM, Matrix.of_apply, Pi.zero_apply, v]
    rw [Fin.sum_univ_eq_sum_range (fun l => listFn w l * entry a l j.val) n]
    have hj := j.isLt
    have := congrArg (fun l => l[j.val]?) hv
    rw [rect_eq_toRows ha] at this
    simp only [vecMat, List.getElem?_map, List.getElem?_range hj, Option.map_some, List.getElem?_replicate, hj, if_true,
      Option.some.injEq] at this
    rw [column_toRows _ n n j.val hj, dot_tab w n _ hw, sumTo_eq] at this
    rw [← this]
  have hv0 : v = 0 := by
    have hinv := (Matrix.isUnit_iff_isUnit_det _).mpr hu
    obtain ⟨u, hu'⟩ := hinv
    have : v = (v ᵥ* toM a n) ᵥ* (↑u⁻¹ : Matrix (Fin n) (Fin n) ℚ) := by
      rw [Matrix.vecMul_vecMul, ← hu', Units.mul_inv, Matrix.vecMul_one]
    rw [this, hvA, Matrix.zero_vecMul]
  obtain ⟨i, hi, rfl⟩ := List.getElem_of_mem hx
  have : v ⟨i, by omega⟩ = w[i] := by simp [v, listFn, hi]
  rw [hv0] at this
  exact hx0 this.symm

/-- `Contrasts.apply` on ANY rectangular `dummies` (one column per level) is `dummies @ coding` -/
theorem apply_values (c : Contrast) (dummies : List (List ℚ)) (cs : List Label) (reduced sparse : Bool)
    (e : Encoded) (m : List (List ℚ)) (hne : cs ≠ []) (hrect : ∀ row ∈ dummies, row.length = cs.length)
    (ha : Model.Contrasts.apply c dummies cs reduced sparse = .ok e)
    (hm : getCodingMatrix c cs reduced sparse = .ok m) :
    e.values = matMul dummies m (if reduced then cs.length - 1 else cs.length) := by
  unfold Model.Contrasts.apply at ha
  by_cases hsc : (cs.isEmpty || (cs.length == 1 && reduced)) = true
  · simp only [hsc, if_true, Except.ok.injEq] at ha
    subst ha
    have hemp : cs.isEmpty = false := by
      cases cs with
      | nil => exact absurd rfl hne
      | cons a t => rfl
    simp only [hemp, Bool.false_or, Bool.and_eq_true, beq_iff_eq] at hsc
    obtain ⟨h1, h2⟩ := hsc
    subst h2
    simp [h1, matMul]
  · simp only [hsc, Bool.false_eq_true, if_false, bind, Except.bind] at ha
    cases hv : applyInner c dummies cs reduced sparse with
    | error e' => simp [hv] at ha
    | ok vals =>
      simp only [hv] at ha
      cases hn : codingColumnNames c cs reduced with
      | error e' => simp [hn] at ha
      | ok names =>
        simp only [hn] at ha
        cases hdf : dropField c cs reduced with
        | error e' => simp [hdf] at ha
        | ok df =>
          simp only [hdf, pure, Except.pure, Except.ok.injEq] at ha
          subst ha
          exact applyInner_is_product c _ cs reduced _ vals m hne hrect hv hm

/-- the metadata `Contrasts.apply` attaches (outside the empty short-circuit) -/
theorem apply_meta (c : Contrast) (dummies : List (List ℚ)) (cs : List Label) (reduced sparse : Bool)
    (e : Encoded) (hsc : (cs.isEmpty || (cs.length == 1 && reduced)) = false)
    (ha : Model.Contrasts.apply c dummies cs reduced sparse = .ok e) :
    codingColumnNames c cs reduced = .ok e.columnNames ∧ dropField c cs reduced = .ok e.dropField ∧
      e.spansIntercept = spansIntercept cs reduced ∧ e.format = factorFormat c reduced ∧
      e.formatReduced = factorFormat c true := by
  unfold Model.Contrasts.apply at ha
  simp only [hsc, Bool.false_eq_true, if_false, bind, Except.bind] at ha
  cases hv : applyInner c dummies cs reduced sparse with
  | error e' => simp [hv] at ha
  | ok vals =>
    simp only [hv] at ha
    cases hn : codingColumnNames c cs reduced with
    | error e' => simp [hn] at ha
    | ok names =>
      simp only [hn] at ha
      cases hdf : dropField c cs reduced with
      | error e' => simp [hdf] at ha
      | ok df =>
        simp only [hdf, pure, Except.pure, Except.ok.injEq] at ha
        subst ha
        exact ⟨rfl, rfl, rfl, rfl, rfl⟩


/-! ### `CustomContrasts` -/

theorem npArray_ok {rs : List (List ℚ)} {sh : Shape} {rows : List (List ℚ)} (h : npArray rs = .ok (sh, rows)) :
    (rs = [] ∧ sh = .d1 0 ∧ rows = [[]]) ∨
      (∃ c, rs ≠ [] ∧ sh = .d2 rs.length c ∧ rows = rs ∧ ∀ row ∈ rs, row.length = c) := by
  unfold npArray at h
  cases rs with
  | nil => simp only [Except.ok.injEq, Prod.mk.injEq] at h; exact Or.inl ⟨rfl, h.1.symm, h.2.symm⟩
  | cons r rest =>
    simp only at h
    split_ifs at h with hall
    simp only [Except.ok.injEq, Prod.mk.injEq] at h
    refine Or.inr ⟨r.length, by simp, ?_, h.2.symm, ?_⟩
    · rw [← h.1]; simp
    · intro row hrow
      simp only [List.all_eq_true, beq_iff_eq] at hall
      rcases List.mem_cons.mp hrow with rfl | hm
      · rfl
      · exact hall row hm

theorem transposeRows_rect (rs : List (List ℚ)) (c : ℕ) : isRect (transposeRows rs c) c rs.length = true := by
  simp [isRect, transposeRows]

theorem transposeRows_entry (rs : List (List ℚ)) (c i j : ℕ) (hi : i < c) (hj : j < rs.length) :
    entry (transposeRows rs c) i j = listFn rs[j] i := by
  simp [entry, transposeRows, hi, listFn, hj]

theorem customArray_rect {inp : CustomInput} {names ns : Option (List Label)} {sh : Shape} {rows : List (List ℚ)}
    (h : customArray inp names = .ok (ns, sh, rows)) : isRect rows sh.dims.1 sh.dims.2 = true := by
  unfold customArray at h
  cases inp with
  | dict items =>
    simp only at h
    cases hn : npArray (items.map (·.2)) with
    | error e => simp [hn] at h
    | ok p =>
      obtain ⟨sh', rows'⟩ := p
      rcases npArray_ok hn with ⟨_, rfl, rfl⟩ | ⟨c, _, rfl, rfl, hrow⟩
      · simp only [hn, Except.ok.injEq, Prod.mk.injEq] at h
        obtain ⟨_, rfl, rfl⟩ := h
        simp [Shape.dims, isRect]
      · simp only [hn, Except.ok.injEq, Prod.mk.injEq] at h
        obtain ⟨_, rfl, rfl⟩ := h
        have := transposeRows_rect (items.map (·.2)) c
        simpa [Shape.dims] using this
  | rows rs =>
    simp only at h
    cases hn : npArray rs with
    | error e => simp [hn] at h
    | ok p =>
      obtain ⟨sh', rows'⟩ := p
      simp only [hn, Except.ok.injEq, Prod.mk.injEq] at h
      obtain ⟨_, rfl, rfl⟩ := h
      rcases npArray_ok hn with ⟨_, rfl, rfl⟩ | ⟨c, _, rfl, rfl, hrow⟩
      · simp [Shape.dims, isRect]
      · simp only [Shape.dims, isRect, beq_self_eq_true, Bool.true_and, List.all_eq_true, beq_iff_eq]
        exact hrow
  | flat vs =>
    simp only [Except.ok.injEq, Prod.mk.injEq] at h
    obtain ⟨_, rfl, rfl⟩ := h
    simp [Shape.dims, isRect]

theorem checkNames_ok {names : Option (List Label)} {sh : Shape} {rows : List (List ℚ)} {k : Custom}
    (h : checkNames names sh rows = .ok k) :
    k.shape = sh ∧ k.rows = rows ∧ k.names = names ∧ ∀ ns, names = some ns → ∃ r, sh = .d2 r ns.length := by
  unfold checkNames at h
  cases names with
  | none => simp only [Except.ok.injEq] at h; subst h; exact ⟨rfl, rfl, rfl, fun _ h => by cases h⟩
  | some ns =>
    cases sh with
    | d1 m => simp at h
    | d2 r c =>
      simp only at h
      split_ifs at h with hc
      simp only [Except.ok.injEq] at h
      subst h
      exact ⟨rfl, rfl, rfl, fun ns' h' => by cases h'; exact ⟨r, by rw [hc]⟩⟩

theorem dims_eq (k : Custom) : k.dims = k.shape.dims := rfl

/-- what a successful `CustomContrasts(...)` stores is a rectangular array of the recorded shape, and names, when
there are any, are as many as its columns -/
theorem mkCustom_spec {inp : CustomInput} {names : Option (List Label)} {k : Custom}
    (h : mkCustom inp names = .ok k) :
    isRect k.rows k.dims.1 k.dims.2 = true ∧ (∀ ns, k.names = some ns → ∃ r, k.shape = .d2 r ns.length) := by
  unfold mkCustom at h
  cases ha : customArray inp names with
  | error e => simp [ha] at h
  | ok p =>
    obtain ⟨ns, sh, rows⟩ := p
    simp only [ha] at h
    obtain ⟨h1, h2, h3, h4⟩ := checkNames_ok h
    have := customArray_rect ha
    rw [dims_eq, h1, h2]
    refine ⟨this, ?_⟩
    intro ns' hn
    rw [h3] at hn
    exact h4 ns' hn


theorem customCodingMatrix_rows {k : Custom} {levels : List Label} {sparse : Bool} {m : List (List ℚ)}
    (h : customCodingMatrix k levels sparse = .ok m) : m = k.rows := by
  unfold customCodingMatrix at h
  split_ifs at h
  · cases h; rfl
  · simp only [bind, Except.bind] at h
    cases hn : customColumnNames k with
    | error e => simp [hn] at h
    | ok ns =>
      simp only [hn] at h
      split at h
      · cases h
      · split_ifs at h; cases h; rfl

/-- `_apply` + names for a custom coding, outside the short-circuit -/
theorem xApply_custom {k : Custom} {dummies : List (List ℚ)} {levels : List Label} {reduced sparse : Bool}
    {e : Encoded} (hsc : (levels.isEmpty || (levels.length == 1 && reduced)) = false)
    (h : xApply (.custom k) dummies levels reduced sparse = .ok e) :
    levels.length = k.dims.1 ∧ e.values = matMul dummies k.rows k.dims.2 ∧
      customColumnNames k = .ok e.columnNames ∧ e.spansIntercept = false ∧ e.dropField = none ∧
      e.format = plainFormat ∧ e.formatReduced = plainFormat := by
  unfold xApply at h
  simp only [hsc, Bool.false_eq_true, if_false, bind, Except.bind] at h
  cases hv : customApplyInner k dummies levels sparse with
  | error x => simp [hv] at h
  | ok vals =>
    simp only [hv] at h
    cases hn : customColumnNames k with
    | error x => simp [hn] at h
    | ok names =>
      simp only [hn, pure, Except.pure, Except.ok.injEq] at h
      subst h
      unfold customApplyInner at hv
      simp only [bind, Except.bind] at hv
      cases hm : customCodingMatrix k levels sparse with
      | error x => simp [hm] at hv
      | ok m =>
        simp only [hm] at hv
        have := customCodingMatrix_rows hm
        subst this
        split_ifs at hv with hc
        simp only [pure, Except.pure, Except.ok.injEq] at hv
        exact ⟨hc.1, hv.symm, rfl, rfl, rfl, rfl, rfl⟩

/-- the level handling and `apply` of `encode_contrasts` for a custom coding -/
theorem xEncodeWith_custom {data : List (Option Label)} {k : Custom}
    {levels : Option (List Label)} {reduced : Bool} {output : String} {enc : Encoded} {cats : List Label}
    (h : xEncodeWith (.custom k) data levels reduced output = .ok (enc, cats)) :
    xApply (.custom k) (indicator cats data) cats reduced (output == "sparse") = .ok enc ∧
      (∀ ls, levels = some ls → cats = ls ∧ hasDup ls = false) ∧ (levels = none → cats = inferLevels data) ∧
      outputNames.contains output = true := by
  unfold xEncodeWith at h
  simp only [bind, Except.bind] at h
  cases levels with
  | none =>
    simp only [pure, Except.pure] at h
    split_ifs at h with ho
    cases ha : xApply (.custom k) (indicator (inferLevels data) data) (inferLevels data) reduced (output == "sparse") with
    | error e => simp [ha] at h
    | ok e =>
      simp only [ha, Except.ok.injEq, Prod.mk.injEq] at h
      obtain ⟨rfl, rfl⟩ := h
      exact ⟨ha, fun ls h => (by cases h), fun _ => rfl, by simpa using ho⟩
  | some ls =>
    by_cases hd : hasDup ls = true
    · simp [hd] at h
    · simp only [hd, Bool.false_eq_true, if_false, pure, Except.pure] at h
      split_ifs at h with ho
      cases ha : xApply (.custom k) (indicator ls data) ls reduced (output == "sparse") with
      | error e => simp [ha] at h
      | ok e =>
        simp only [ha, Except.ok.injEq, Prod.mk.injEq] at h
        obtain ⟨rfl, rfl⟩ := h
        exact ⟨ha, fun ls' h' => (by cases h'; exact ⟨rfl, by simpa using hd⟩), fun h' => (by cases h'), by simpa using ho⟩

/-- `encode_contrasts` with a custom coding: construction, the level list, then `apply` -/
theorem xEncode_custom {data : List (Option Label)} {inp : CustomInput} {names : Option (List Label)}
    {levels : Option (List Label)} {reduced : Bool} {output : String} {enc : Encoded} {cats : List Label}
    (h : xEncodeContrasts data (.custom inp names) levels reduced output = .ok (enc, cats)) :
    ∃ k, mkCustom inp names = .ok k ∧
      xApply (.custom k) (indicator cats data) cats reduced (output == "sparse") = .ok enc ∧
      (∀ ls, levels = some ls → cats = ls) ∧ (levels = none → cats = inferLevels data) := by
  unfold xEncodeContrasts at h
  simp only [resolveArg, Except.map] at h
  cases hk : mkCustom inp names with
  | error e => simp [hk] at h
  | ok k =>
    simp only [hk] at h
    obtain ⟨h1, h2, h3, _⟩ := xEncodeWith_custom h
    exact ⟨k, rfl, h1, fun ls hl => (h2 ls hl).1, h3⟩

/-! ### exact inverse inside `get_coefficient_matrix` of a custom coding -/

theorem linalgInv_ok {a K : List (List ℚ)} {r c : ℕ} {s : Bool} (h : linalgInv a r c s = .ok K) :
    r = c ∧ invert a r = .inverse K := by
  unfold linalgInv at h
  by_cases hrc : r ≠ c
  · rw [if_pos hrc] at h; cases h
  · rw [if_neg hrc] at h
    cases hi : invert a r with
    | inverse k => simp only [hi, Except.ok.injEq] at h; subst h; exact ⟨by omega, rfl⟩
    | singular w => simp only [hi] at h; split_ifs at h
    | uncertified => simp [hi] at h

theorem linalgInv_singular {a : List (List ℚ)} {r c : ℕ} {s : Bool} {e : XErr}
    (h : linalgInv a r c s = .error e) (he : (∃ s', e = .singular s') ∨ e = .nanResult) :
    r = c ∧ ∃ w, invert a r = .singular w := by
  unfold linalgInv at h
  by_cases hrc : r ≠ c
  · rw [if_pos hrc] at h
    simp only [Except.error.injEq] at h
    subst h
    rcases he with ⟨s', h'⟩ | h' <;> cases h'
  · rw [if_neg hrc] at h
    cases hi : invert a r with
    | inverse k => simp [hi] at h
    | singular w => exact ⟨by omega, w, rfl⟩
    | uncertified =>
      simp only [hi, Except.error.injEq] at h
      subst h
      rcases he with ⟨s', h'⟩ | h' <;> cases h'

theorem hstackOnes_entry_zero (m : List (List ℚ)) (i : ℕ) (hi : i < m.length) : entry (hstackOnes m) i 0 = 1 := by
  simp [entry, hstackOnes, hi, listFn]

theorem hstackOnes_entry_succ (m : List (List ℚ)) (i j : ℕ) : entry (hstackOnes m) i (j + 1) = entry m i j := by
  unfold entry hstackOnes
  simp only [List.getElem?_map]
  cases m[i]? <;> simp [listFn]

/-- the matrix that `get_coefficient_matrix` inverts: `[1 | coding]` in reduced rank, the coding itself otherwise -/
def coefInput (k : Custom) (reduced : Bool) : List (List ℚ) := if reduced then hstackOnes k.rows else k.rows

theorem customCoef_inverse {k : Custom} {levels : List Label} {reduced sparse : Bool} {K : List (List ℚ)}
    (h : customCoefMatrix k levels reduced sparse = .ok K) :
    ∃ n, invert (coefInput k reduced) n = .inverse K ∧ (reduced = true → n = levels.length) ∧
      (reduced = false → n = k.dims.1) := by
  unfold customCoefMatrix at h
  simp only [bind, Except.bind] at h
  cases hm : customCodingMatrix k levels sparse with
  | error e => simp [hm] at h
  | ok m =>
    simp only [hm] at h
    have := customCodingMatrix_rows hm
    subst this
    cases sparse with
    | true =>
      simp only [if_true] at h
      cases reduced with
      | true =>
        simp only [if_true] at h
        split_ifs at h with hr
        obtain ⟨_, hi⟩ := linalgInv_ok h
        exact ⟨levels.length, by simpa [coefInput] using hi, fun _ => rfl, fun h => (by cases h)⟩
      | false =>
        simp only [Bool.false_eq_true, if_false] at h
        obtain ⟨_, hi⟩ := linalgInv_ok h
        exact ⟨k.dims.1, by simpa [coefInput] using hi, fun h => (by cases h), fun _ => rfl⟩
    | false =>
      simp only [Bool.false_eq_true, if_false] at h
      cases reduced with
      | true =>
        simp only [if_true] at h
        cases hl : linalgInv (hstackOnes k.rows) levels.length (k.dims.2 + 1) false with
        | error e => simp [hl] at h
        | ok inv =>
          simp only [hl] at h
          split_ifs at h
          simp only [pure, Except.pure, Except.ok.injEq] at h
          subst h
          obtain ⟨_, hi⟩ := linalgInv_ok hl
          exact ⟨levels.length, by simpa [coefInput] using hi, fun _ => rfl, fun h => (by cases h)⟩
      | false =>
        simp only [Bool.false_eq_true, if_false] at h
        cases hl : linalgInv k.rows k.dims.1 k.dims.2 false with
        | error e => simp [hl] at h
        | ok inv =>
          simp only [hl] at h
          split_ifs at h
          simp only [pure, Except.pure, Except.ok.injEq] at h
          subst h
          obtain ⟨_, hi⟩ := linalgInv_ok hl
          exact ⟨k.dims.1, by simpa [coefInput] using hi, fun h => (by cases h), fun _ => rfl⟩


theorem customColumnNames_err {k : Custom} {y : XErr} (h : customColumnNames k = .error y) : y = .shape1d := by
  unfold customColumnNames at h
  split at h
  · cases h
  · simp only [bind, Except.bind, Custom.ncols] at h
    cases hs : k.shape with
    | d1 m => simp only [hs, Except.error.injEq] at h; exact h.symm
    | d2 r c => simp [hs, pure, Except.pure] at h

theorem customCodingMatrix_err {k : Custom} {levels : List Label} {sparse : Bool} {x : XErr}
    (h : customCodingMatrix k levels sparse = .error x) : x = .shape1d ∨ x = .frameShape := by
  unfold customCodingMatrix at h
  split_ifs at h
  simp only [bind, Except.bind] at h
  cases hn : customColumnNames k with
  | error y =>
    simp only [hn, Except.error.injEq] at h
    subst h
    exact Or.inl (customColumnNames_err hn)
  | ok ns =>
    simp only [hn] at h
    split at h
    · simp only [Except.error.injEq] at h; exact Or.inl h.symm
    · split_ifs at h
      simp only [Except.error.injEq] at h; exact Or.inr h.symm

theorem customCoef_singular {k : Custom} {levels : List Label} {reduced sparse : Bool} {e : XErr}
    (h : customCoefMatrix k levels reduced sparse = .error e) (he : (∃ s', e = .singular s') ∨ e = .nanResult) :
    ∃ n w, invert (coefInput k reduced) n = .singular w := by
  unfold customCoefMatrix at h
  simp only [bind, Except.bind] at h
  cases hm : customCodingMatrix k levels sparse with
  | error x =>
    -- the coding matrix itself failed: not a singular-matrix error
    simp only [hm, Except.error.injEq] at h
    subst h
    exfalso
    rcases customCodingMatrix_err hm with h' | h' <;> subst h' <;> rcases he with ⟨s', h''⟩ | h'' <;> cases h''
  | ok m =>
    simp only [hm] at h
    have := customCodingMatrix_rows hm
    subst this
    cases sparse with
    | true =>
      simp only [if_true] at h
      cases reduced with
      | true =>
        simp only [if_true] at h
        split_ifs at h with hr
        · simp only [Except.error.injEq] at h; subst h; rcases he with ⟨s', h'⟩ | h' <;> cases h'
        · obtain ⟨_, w, hi⟩ := linalgInv_singular h he
          exact ⟨levels.length, w, by simpa [coefInput] using hi⟩
      | false =>
        simp only [Bool.false_eq_true, if_false] at h
        obtain ⟨_, w, hi⟩ := linalgInv_singular h he
        exact ⟨k.dims.1, w, by simpa [coefInput] using hi⟩
    | false =>
      simp only [Bool.false_eq_true, if_false] at h
      cases reduced with
      | true =>
        simp only [if_true] at h
        cases hl : linalgInv (hstackOnes k.rows) levels.length (k.dims.2 + 1) false with
        | error x =>
          simp only [hl, Except.error.injEq] at h
          subst h
          obtain ⟨_, w, hi⟩ := linalgInv_singular hl he
          exact ⟨levels.length, w, by simpa [coefInput] using hi⟩
        | ok inv =>
          simp only [hl] at h
          split_ifs at h
          · simp [pure, Except.pure] at h
          · simp only [Except.error.injEq] at h; subst h; rcases he with ⟨s', h'⟩ | h' <;> cases h'
      | false =>
        simp only [Bool.false_eq_true, if_false] at h
        cases hl : linalgInv k.rows k.dims.1 k.dims.2 false with
        | error x =>
          simp only [hl, Except.error.injEq] at h
          subst h
          obtain ⟨_, w, hi⟩ := linalgInv_singular hl he
          exact ⟨k.dims.1, w, by simpa [coefInput] using hi⟩
        | ok inv =>
          simp only [hl] at h
          split_ifs at h
          · simp [pure, Except.pure] at h
          · simp only [Except.error.injEq] at h; subst h; rcases he with ⟨s', h'⟩ | h' <;> cases h'


/-! ### names of the built-in codings -/

theorem findBaseIndex_get {sas : Bool} {b : Label} {levels : List Label} {d : ℕ}
    (h : findBaseIndex sas (some b) levels = .ok d) : levels[d]? = some b := by
  unfold findBaseIndex at h
  simp only at h
  cases hi : indexOf? b levels with
  | none => simp [hi] at h
  | some i =>
    simp only [hi, Except.ok.injEq] at h
    subst h
    exact indexOf?_get b levels i hi

theorem treatmentNames_length (sas : Bool) (b : Option Label) (levels : List Label) (reduced : Bool) (d : ℕ)
    (h : findBaseIndex sas b levels = .ok d) :
    (if reduced then levels.eraseIdx d else levels).length = if reduced then levels.length - 1 else levels.length := by
  cases reduced with
  | false => rfl
  | true =>
    simp only [if_true]
    by_cases hne : levels = []
    · subst hne; simp
    · have := findBaseIndex_lt sas b levels d hne h
      rw [List.length_eraseIdx]; simp [this]

/-- the coding column names are as many as the coding matrix has columns -/
theorem codingColumnNames_length (c : Contrast) (levels : List Label) (reduced : Bool) (names : List Label)
    (h : codingColumnNames c levels reduced = .ok names) :
    names.length = if reduced then levels.length - 1 else levels.length := by
  cases c with
  | treatment b =>
    simp only [codingColumnNames, bind, Except.bind] at h
    cases hd : findBaseIndex false b levels with
    | error e => simp [hd] at h
    | ok d =>
      simp only [hd, pure, Except.pure, Except.ok.injEq] at h
      subst h
      exact treatmentNames_length false b levels reduced d hd
  | sas b =>
    simp only [codingColumnNames, bind, Except.bind] at h
    cases hd : findBaseIndex true b levels with
    | error e => simp [hd] at h
    | ok d =>
      simp only [hd, pure, Except.pure, Except.ok.injEq] at h
      subst h
      exact treatmentNames_length true b levels reduced d hd
  | sum =>
    simp only [codingColumnNames, Except.ok.injEq] at h
    subst h; cases reduced <;> simp
  | helmert r s =>
    simp only [codingColumnNames, Except.ok.injEq] at h
    subst h; cases reduced <;> cases r <;> simp
  | diff b =>
    simp only [codingColumnNames, Except.ok.injEq] at h
    subst h; cases reduced <;> cases b <;> simp
  | poly sc =>
    simp only [codingColumnNames, Except.ok.injEq] at h
    subst h; cases reduced <;> simp

/-- for every coding but the polynomial one the reduced column names are levels, in their order -/
theorem codingColumnNames_sublist (c : Contrast) (levels : List Label) (reduced : Bool) (names : List Label)
    (hp : ∀ sc, c ≠ .poly sc) (h : codingColumnNames c levels reduced = .ok names) : names.Sublist levels := by
  cases c with
  | treatment b =>
    simp only [codingColumnNames, bind, Except.bind] at h
    cases hd : findBaseIndex false b levels with
    | error e => simp [hd] at h
    | ok d =>
      simp only [hd, pure, Except.pure, Except.ok.injEq] at h
      subst h
      cases reduced
      · exact List.Sublist.refl _
      · exact List.eraseIdx_sublist _ _
  | sas b =>
    simp only [codingColumnNames, bind, Except.bind] at h
    cases hd : findBaseIndex true b levels with
    | error e => simp [hd] at h
    | ok d =>
      simp only [hd, pure, Except.pure, Except.ok.injEq] at h
      subst h
      cases reduced
      · exact List.Sublist.refl _
      · exact List.eraseIdx_sublist _ _
  | sum =>
    simp only [codingColumnNames, Except.ok.injEq] at h
    subst h; cases reduced
    · exact List.Sublist.refl _
    · exact List.dropLast_sublist _
  | helmert r s =>
    simp only [codingColumnNames, Except.ok.injEq] at h
    subst h; cases reduced
    · exact List.Sublist.refl _
    · cases r
      · exact List.dropLast_sublist _
      · exact List.drop_sublist _ _
  | diff b =>
    simp only [codingColumnNames, Except.ok.injEq] at h
    subst h; cases reduced
    · exact List.Sublist.refl _
    · cases b
      · exact List.dropLast_sublist _
      · exact List.drop_sublist _ _
  | poly sc => exact absurd rfl (hp sc)

theorem filter_bne_length {levels : List Label} {base : Label} (hnd : levels.Nodup) (hm : base ∈ levels) :
    (levels.filter (fun l => l != base)).length + 1 = levels.length := by
  have h1 : levels.filter (fun l => l != base) = levels.erase base := by
    rw [List.Nodup.erase_eq_filter hnd]
  rw [h1, List.length_erase_of_mem hm]
  have : 0 < levels.length := List.length_pos_of_mem hm
  omega

/-- the coefficient row names are as many as the coefficient matrix has rows -/
theorem coefRowNames_length (c : Contrast) (levels : List Label) (reduced : Bool) (rows : List Label)
    (hne : levels ≠ []) (hnd : levels.Nodup) (h : coefRowNames c levels reduced = .ok rows) :
    rows.length = levels.length := by
  have hpos : 0 < levels.length := List.length_pos_of_ne_nil hne
  have treat : ∀ sas b, treatmentRowNames sas b levels reduced = .ok rows → rows.length = levels.length := by
    intro sas b h
    simp only [treatmentRowNames, bind, Except.bind] at h
    cases hd : findBaseIndex sas b levels with
    | error e => simp [hd] at h
    | ok d =>
      simp only [hd] at h
      cases hb : levels[d]? with
      | none => simp [hb] at h
      | some base =>
        simp only [hb, pure, Except.pure, Except.ok.injEq] at h
        subst h
        cases reduced with
        | false => rfl
        | true =>
          have hm : base ∈ levels := List.mem_of_getElem? hb
          simp only [if_true, List.length_cons, List.length_map]
          exact filter_bne_length hnd hm
  cases c with
  | treatment b => exact treat false b h
  | sas b => exact treat true b h
  | sum =>
    simp only [coefRowNames, Except.ok.injEq] at h
    subst h; cases reduced <;> simp <;> omega
  | helmert r s =>
    simp only [coefRowNames, Except.ok.injEq] at h
    subst h; cases reduced <;> cases r <;> simp <;> omega
  | diff b =>
    simp only [coefRowNames, Except.ok.injEq] at h
    subst h; cases reduced <;> cases b <;> simp <;> omega
  | poly sc =>
    simp only [coefRowNames, codingColumnNames, bind, Except.bind, pure, Except.pure, Except.ok.injEq] at h
    subst h; cases reduced <;> simp <;> omega

/-- in full rank the `drop_field` is one of the column names (the materializer's `del encoded[drop_field]` finds it) -/
theorem dropField_mem_names (c : Contrast) (levels : List Label) (l : Label) (names : List Label)
    (hd : dropField c levels false = .ok (some l)) (hn : codingColumnNames c levels false = .ok names) : l ∈ names := by
  have generic : (∀ sas b, isTreatment c ≠ some (sas, b)) → l ∈ names := by
    intro ht
    cases c with
    | treatment b => exact absurd rfl (ht false b)
    | sas b => exact absurd rfl (ht true b)
    | sum =>
      simp only [dropField, Bool.false_eq_true, if_false, hn, bind, Except.bind] at hd
      cases hh : names.head? with
      | none => simp [hh] at hd
      | some x => simp only [hh, pure, Except.pure, Except.ok.injEq, Option.some.injEq] at hd; subst hd; exact List.mem_of_mem_head? hh
    | helmert r s =>
      simp only [dropField, Bool.false_eq_true, if_false, hn, bind, Except.bind] at hd
      cases hh : names.head? with
      | none => simp [hh] at hd
      | some x => simp only [hh, pure, Except.pure, Except.ok.injEq, Option.some.injEq] at hd; subst hd; exact List.mem_of_mem_head? hh
    | diff b =>
      simp only [dropField, Bool.false_eq_true, if_false, hn, bind, Except.bind] at hd
      cases hh : names.head? with
      | none => simp [hh] at hd
      | some x => simp only [hh, pure, Except.pure, Except.ok.injEq, Option.some.injEq] at hd; subst hd; exact List.mem_of_mem_head? hh
    | poly sc =>
      simp only [dropField, Bool.false_eq_true, if_false, hn, bind, Except.bind] at hd
      cases hh : names.head? with
      | none => simp [hh] at hd
      | some x => simp only [hh, pure, Except.pure, Except.ok.injEq, Option.some.injEq] at hd; subst hd; exact List.mem_of_mem_head? hh
  have treat : ∀ (sas : Bool) (b : Option Label), c = (if sas then Contrast.sas b else Contrast.treatment b) → l ∈ names := by
    intro sas b hc
    have hnames : ∃ d, findBaseIndex sas b levels = .ok d ∧ names = levels := by
      cases sas <;> subst hc <;>
      · simp only [codingColumnNames, bind, Except.bind, Bool.false_eq_true, if_false, if_true] at hn
        cases hd' : findBaseIndex _ b levels with
        | error e => simp [hd'] at hn
        | ok d => simp only [hd', pure, Except.pure, Except.ok.injEq] at hn; exact ⟨d, rfl, hn.symm⟩
    obtain ⟨d, hfd, rfl⟩ := hnames
    cases b with
    | some bl =>
      have : l = bl := by
        cases sas <;> subst hc <;> simp [dropField] at hd <;> exact hd.symm
      subst this
      exact List.mem_of_getElem? (findBaseIndex_get hfd)
    | none =>
      cases sas <;> subst hc
      · simp only [Bool.false_eq_true, if_false, dropField] at hd
        cases hh : names.head? with
        | none => simp [hh] at hd
        | some x => simp only [hh, Except.ok.injEq, Option.some.injEq] at hd; subst hd; exact List.mem_of_mem_head? hh
      · simp only [if_true, dropField, Bool.false_eq_true, if_false] at hd
        cases hh : names.getLast? with
        | none => simp [hh] at hd
        | some x => simp only [hh, Except.ok.injEq, Option.some.injEq] at hd; subst hd; exact List.mem_of_getLast? hh
  cases c with
  | treatment b => exact treat false b rfl
  | sas b => exact treat true b rfl
  | sum => exact generic (by intro s b h; cases h)
  | helmert r s => exact generic (by intro s b h; cases h)
  | diff b => exact generic (by intro s b h; cases h)
  | poly sc => exact generic (by intro s b h; cases h)


/-! ### `Contrasts.apply` called directly -/

/-- the output type that goes with the type of `dummies` -/
def outputOfType : DummiesType → Option String
  | .frame => some "pandas"
  | .ndarray => some "numpy"
  | .spmatrix => some "sparse"
  | .other => none

theorem resolveOutput_none (t : DummiesType) :
    resolveOutput none t = match outputOfType t with
      | some o => .ok o
      | none => .error .cannotImpute := by
  cases t <;> rfl

theorem applyDirect_ok {x : XContrast} {t : DummiesType} {dummies : List (List ℚ)} {levels : List Label}
    {reduced : Bool} {output : Option String} {e : Encoded} {o : String}
    (h : applyDirect x t dummies levels reduced output = .ok (e, o)) :
    resolveOutput output t = .ok o ∧ xApply x dummies levels reduced (o == "sparse") = .ok e := by
  unfold applyDirect at h
  simp only [bind, Except.bind] at h
  cases hr : resolveOutput output t with
  | error err => simp [hr] at h
  | ok o' =>
    simp only [hr] at h
    cases ha : xApply x dummies levels reduced (o' == "sparse") with
    | error err => simp [ha] at h
    | ok e' =>
      simp only [ha, pure, Except.pure, Except.ok.injEq, Prod.mk.injEq] at h
      obtain ⟨rfl, rfl⟩ := h
      exact ⟨rfl, ha⟩

theorem xApply_builtin {c : Contrast} {dummies : List (List ℚ)} {levels : List Label} {reduced sparse : Bool}
    {e : Encoded} (h : xApply (.builtin c) dummies levels reduced sparse = .ok e) :
    Model.Contrasts.apply c dummies levels reduced sparse = .ok e := by
  unfold xApply liftB at h
  cases ha : Model.Contrasts.apply c dummies levels reduced sparse with
  | error err => simp [ha] at h
  | ok e' => simp only [ha, Except.ok.injEq] at h; rw [h]

/-! ### every encoded row is the coding row of its level -/

theorem indexOf?_of_getElem {levels : List Label} (hnd : levels.Nodup) (i : ℕ) (hi : i < levels.length) :
    indexOf? levels[i] levels = some i := by
  induction levels generalizing i with
  | nil => simp at hi
  | cons l ls ih =>
    rw [List.nodup_cons] at hnd
    cases i with
    | zero => simp [indexOf?]
    | succ i =>
      have hi' : i < ls.length := by simpa using hi
      have hne : ¬ (l = ls[i]) := fun e => hnd.1 (e ▸ List.getElem_mem hi')
      simp [indexOf?, hne, ih hnd.2 i hi']

theorem indexOf?_none {levels : List Label} {l : Label} (h : indexOf? l levels = none) : l ∉ levels := by
  induction levels with
  | nil => simp
  | cons a t ih =>
    simp only [indexOf?] at h
    split_ifs at h with ha
    cases hi : indexOf? l t with
    | none =>
      intro hm
      rcases List.mem_cons.mp hm with rfl | hm'
      · exact ha rfl
      · exact ih hi hm'
    | some k => simp [hi] at h

theorem matMul_indicator_row (cats : List Label) (hnd : cats.Nodup) (m : List (List ℚ)) (w : ℕ)
    (hm : isRect m cats.length w = true) (d : Option Label) :
    (List.range w).map (fun j => dot (indicatorRow cats d) (column m j)) = selectedRow cats m w d := by
  have hmr := rect_eq_toRows hm
  have hlen : (indicatorRow cats d).length = cats.length := by simp [indicatorRow]
  have key : ∀ j, j < w → dot (indicatorRow cats d) (column m j)
      = ∑ l ∈ range cats.length, (if d = some (cats[l]?.getD (.int 0)) ∧ l < cats.length then entry m l j else 0) := by
    intro j hj
    rw [hmr, column_toRows _ _ _ j hj, dot_tab _ _ _ hlen, sumTo_eq]
    apply Finset.sum_congr rfl
    intro l hl
    have hl' : l < cats.length := Finset.mem_range.mp hl
    have hie : listFn (indicatorRow cats d) l = if d = some cats[l] then 1 else 0 := by
      simp [listFn, indicatorRow, hl']
    rw [hie]
    simp only [hl', List.getElem?_eq_getElem, Option.getD_some, and_true]
    rw [← hmr]
    split_ifs <;> simp
  obtain ⟨hml, hmrow⟩ := isRect_spec hm
  cases d with
  | none =>
    simp only [selectedRow]
    apply List.ext_getElem (by simp)
    intro j h1 h2
    have hj : j < w := by simpa using h1
    simp only [List.getElem_map, List.getElem_range, List.getElem_replicate]
    rw [key j hj]
    simp
  | some l =>
    cases hi : indexOf? l cats with
    | none =>
      simp only [selectedRow, hi]
      apply List.ext_getElem (by simp)
      intro j h1 h2
      have hj : j < w := by simpa using h1
      simp only [List.getElem_map, List.getElem_range, List.getElem_replicate]
      rw [key j hj]
      have hnot := indexOf?_none hi
      apply Finset.sum_eq_zero
      intro x hx
      have hx' : x < cats.length := Finset.mem_range.mp hx
      have : ¬ (some l = some (cats[x]?.getD (.int 0)) ∧ x < cats.length) := by
        rintro ⟨h, _⟩
        simp only [hx', List.getElem?_eq_getElem, Option.getD_some, Option.some.injEq] at h
        exact hnot (h ▸ List.getElem_mem hx')
      rw [if_neg this]
    | some i =>
      have hil := indexOf?_lt l cats i hi
      have hget := indexOf?_get l cats i hi
      have him : i < m.length := by omega
      simp only [selectedRow, hi, List.getElem?_eq_getElem him, Option.getD_some]
      apply List.ext_getElem (by simp [hmrow _ (List.getElem_mem him)])
      intro j h1 h2
      have hj : j < w := by simpa using h1
      simp only [List.getElem_map, List.getElem_range]
      rw [key j hj]
      have : ∀ x ∈ range cats.length, (if some l = some (cats[x]?.getD (.int 0)) ∧ x < cats.length then entry m x j else 0)
          = if x = i then entry m x j else 0 := by
        intro x hx
        have hx' : x < cats.length := Finset.mem_range.mp hx
        simp only [hx', List.getElem?_eq_getElem, Option.getD_some, Option.some.injEq, and_true]
        by_cases hxi : x = i
        · subst hxi
          have : l = cats[x] := by
            rw [List.getElem?_eq_getElem hx'] at hget; exact (Option.some.inj hget).symm
          simp [this]
        · have : ¬ l = cats[x] := by
            intro e
            have h1 := indexOf?_of_getElem hnd x hx'
            rw [← e, hi] at h1
            exact hxi (Option.some.inj h1).symm
          simp [this, hxi]
      rw [Finset.sum_congr rfl this, sum_range_point, if_pos hil]
      simp [entry, him, listFn, hmrow _ (List.getElem_mem him), hj]


theorem dropRowsFrom_map {α β : Type} (f : α → β) (rows : List ℕ) (i : ℕ) (l : List α) :
    dropRowsFrom rows i (l.map f) = (dropRowsFrom rows i l).map f := by
  induction l generalizing i with
  | nil => rfl
  | cons x xs ih =>
    simp only [List.map_cons, dropRowsFrom]
    split_ifs
    · exact ih (i + 1)
    · simp [ih (i + 1)]


end FormulaicVerif.Proofs.C11
