import FormulaicVerif.Proofs.C15Call
/-! # C01 — the tokenizer on a formula written with single spaces between its tokens

`render lts` writes every token followed by one space. For token lists made of words (names, numbers),
operator tokens (never two in a row — the tokenizer would merge them), `%in%` and parentheses, the
tokenizer returns exactly those tokens (up to source spans), for all lengths: `tokenize_render`.
Character classes are a function `cl : Char → CharInfo` (Python's `re` classes as data); the theorem
assumes only that word characters are word characters, operator characters are neither word
characters nor whitespace, the space is whitespace, and none of them is one of the nine characters
the loop treats specially. -/
namespace FormulaicVerif.Proofs.C01Lex
open FormulaicVerif FormulaicVerif.Model FormulaicVerif.Proofs.C15Call
open FormulaicVerif.Proofs.C15Ws (erase)

def specials : List Char := ['%', '{', '`', '(', '[', ')', ']', '"', '\'']

/-- an operator character: not a word character, not whitespace, not special -/
def OpChar (ci : CharInfo) : Prop := ci.word = false ∧ ci.space = false ∧ ci.c ∉ specials
/-- a whitespace character that is not special -/
def SpaceChar (ci : CharInfo) : Prop := ci.space = true ∧ ci.c ∉ specials

instance (ci : CharInfo) : Decidable (OpChar ci) := by unfold OpChar; infer_instance
instance (ci : CharInfo) : Decidable (SpaceChar ci) := by unfold SpaceChar; infer_instance

structure Facts (ci : CharInfo) : Prop where
  f1 : (ci.c == '%') = false
  f2 : (ci.c == '{') = false
  f3 : (ci.c == '`') = false
  f4 : (ci.c == '(') = false
  f5 : (ci.c == '[') = false
  f6 : (ci.c == ')') = false
  f7 : (ci.c == ']') = false
  f8 : (ci.c == '"') = false
  f9 : (ci.c == '\'') = false

theorem facts_of {ci : CharInfo} (hc : ci.c ∉ specials) : Facts ci := by
  simp only [specials, List.mem_cons, List.mem_nil_iff, or_false, not_or] at hc
  obtain ⟨c1, c2, c3, c4, c5, c6, c7, c8, c9⟩ := hc
  exact ⟨by simpa using c1, by simpa using c2, by simpa using c3, by simpa using c4,
    by simpa using c5, by simpa using c6, by simpa using c7, by simpa using c8, by simpa using c9⟩

/-- between tokens: no quote open, and the pending token is empty or an operator token -/
def Ready (s : LexState) : Prop :=
  s.qc = [] ∧ s.take = 0 ∧ (s.tok = Tok.fresh ∨ (s.tok.nonempty = true ∧ s.tok.kind = some .operator))

/-- all tokens seen so far, in order: the emitted ones and the pending one -/
def allToks (s : LexState) : List Tok := s.out.reverse ++ (if s.tok.nonempty then [s.tok] else [])

/-- whitespace between tokens changes nothing (it does not even end a pending operator token) -/
theorem step_space (s : LexState) (i : Nat) (ci : CharInfo) (hs : Ready s) (hc : SpaceChar ci) :
    lexStep s i ci = .ok s := by
  obtain ⟨hq, ht, hk⟩ := hs
  obtain ⟨hsp, hx⟩ := hc
  obtain ⟨f1, f2, f3, f4, f5, f6, f7, f8, f9⟩ := facts_of hx
  unfold lexStep lexTop lexPlain
  simp only [ht, Nat.lt_irrefl, if_false, hq, f1, f2, f3, f4, f5, f6, f7, Bool.false_eq_true, Bool.or_self,
    hsp, if_true]
  rcases hk with hk | ⟨hn, hk⟩
  · simp [hk, Tok.fresh, Tok.nonempty]
  · simp [hn, hk]

/-- an operator character extends the pending (empty or operator) token -/
theorem step_op (s : LexState) (i : Nat) (ci : CharInfo) (hs : Ready s) (hc : OpChar ci) :
    lexStep s i ci = .ok { s with tok := s.tok.update ci.c i (some .operator) } := by
  obtain ⟨hq, ht, hk⟩ := hs
  obtain ⟨hw, hsp, hx⟩ := hc
  obtain ⟨f1, f2, f3, f4, f5, f6, f7, f8, f9⟩ := facts_of hx
  unfold lexStep lexTop lexPlain
  simp only [ht, Nat.lt_irrefl, if_false, hq, f1, f2, f3, f4, f5, f6, f7, f8, f9, Bool.false_eq_true,
    Bool.or_self, hsp, hw]
  rcases hk with hk | ⟨hn, hk⟩
  · simp [hk, Tok.fresh, Tok.nonempty, hq, ht]
  · simp [hn, hk, hq, ht]

theorem ready_after_op (s : LexState) (i : Nat) (c : Char) (hs : Ready s) :
    Ready { s with tok := s.tok.update c i (some .operator) } :=
  ⟨hs.1, hs.2.1, Or.inr ⟨by simp [Tok.update, Tok.nonempty], by simp [Tok.update]⟩⟩

/-- the pending token after a run of operator characters -/
def opAll (t : Tok) : List CharInfo → Nat → Tok
  | [], _ => t
  | ci :: cs, i => opAll (t.update ci.c i (some .operator)) cs (i + 1)

theorem loop_op (cs : List CharInfo) : ∀ (tail : List CharInfo) (i : Nat) (s : LexState), Ready s →
    (∀ ci ∈ cs, OpChar ci) →
    lexLoop (cs ++ tail) i s = lexLoop tail (i + cs.length) { s with tok := opAll s.tok cs i } := by
  induction cs with
  | nil => intro tail i s _ _; simp [opAll]
  | cons ci cs ih =>
    intro tail i s hs hc
    simp only [List.cons_append, lexLoop]
    rw [step_op s i ci hs (hc ci (by simp))]
    simp only
    rw [ih tail (i + 1) _ (ready_after_op s i ci.c hs) (fun c h => hc c (by simp [h]))]
    simp only [opAll, List.length_cons]
    congr 1
    omega

theorem opAll_text (cs : List CharInfo) : ∀ (t : Tok) (i : Nat),
    (opAll t cs i).text = t.text ++ cs.map (·.c) ∧ (cs ≠ [] → (opAll t cs i).kind = some .operator) := by
  induction cs with
  | nil => intro t i; simp [opAll]
  | cons ci cs ih =>
    intro t i
    obtain ⟨h1, h2⟩ := ih (t.update ci.c i (some .operator)) (i + 1)
    refine ⟨by rw [opAll, h1]; simp [Tok.update], fun _ => ?_⟩
    simp only [opAll]
    by_cases hcs : cs = []
    · subst hcs; simp [opAll, Tok.update]
    · exact h2 hcs

/-! ### words, parentheses, `%in%` -/

/-- the first character of a word: a pending operator token is emitted, a new token begun -/
theorem step_word_first (s : LexState) (i : Nat) (ci : CharInfo) (hs : Ready s) (hc : NameChar ci) :
    lexStep s i ci = .ok { s with out := (if s.tok.nonempty then s.tok :: s.out else s.out),
                                  tok := Tok.fresh.update ci.c i (some (wordKind none ci.c)) } := by
  obtain ⟨hq, ht, hk⟩ := hs
  rcases hk with hk | ⟨hn, hk⟩
  · rw [lexStep_word s i ci hq ht hc (Or.inl (by rw [hk]; rfl))]
    simp [hk, Tok.fresh, Tok.nonempty]
  · rw [lexStep_word_flush s i ci hq ht hc hn (Or.inl hk)]
    simp [hn]

/-- whitespace after a name or a number ends the token -/
theorem step_space_flush (s : LexState) (i : Nat) (ci : CharInfo) (hq : s.qc = []) (ht : s.take = 0)
    (hn : s.tok.nonempty = true) (hk : s.tok.kind = some .name ∨ s.tok.kind = some .value ∨ s.tok.kind = some .python)
    (hc : SpaceChar ci) :
    lexStep s i ci = .ok { s with out := s.tok :: s.out, tok := Tok.fresh } := by
  obtain ⟨hsp, hx⟩ := hc
  obtain ⟨f1, f2, f3, f4, f5, f6, f7, f8, f9⟩ := facts_of hx
  unfold lexStep lexTop lexPlain
  simp only [ht, Nat.lt_irrefl, if_false, hq, f1, f2, f3, f4, f5, f6, f7, Bool.false_eq_true, Bool.or_self,
    hsp, if_true]
  rcases hk with hk | hk | hk <;> simp [hn, hk, LexState.flush, hq, ht]

theorem wordAll_nonempty (cs : List CharInfo) (t : Tok) (i : Nat) (h : cs ≠ []) :
    (wordAll t cs i).nonempty = true := by
  have := (wordAll_text cs t i).1
  cases cs with
  | nil => exact absurd rfl h
  | cons c cs => simp [Tok.nonempty, this]

theorem kindAll_cases (cs : List CharInfo) (h : cs ≠ []) (k : Option TKind) :
    kindAll k cs = some .name ∨ kindAll k cs = some .value := by
  induction cs generalizing k with
  | nil => exact absurd rfl h
  | cons c cs ih =>
    simp only [kindAll]
    by_cases hcs : cs = []
    · subst hcs
      simp only [kindAll]
      rcases wordKind_cases k c.c with h | h <;> simp [h]
    · exact ih hcs _

/-- a word followed by whitespace, from a `Ready` state: the word is emitted (after the pending
operator token, if any) -/
theorem loop_word (cs : List CharInfo) (sp : CharInfo) (tail : List CharInfo) (i : Nat) (s : LexState)
    (hs : Ready s) (hne : cs ≠ []) (hc : ∀ ci ∈ cs, NameChar ci) (hsp : SpaceChar sp) :
    lexLoop (cs ++ sp :: tail) i s = lexLoop tail (i + cs.length + 1)
      { qc := [], take := 0, tok := Tok.fresh,
        out := wordAll Tok.fresh cs i :: (if s.tok.nonempty then s.tok :: s.out else s.out) } := by
  cases cs with
  | nil => exact absurd rfl hne
  | cons c0 cs =>
    simp only [List.cons_append, lexLoop]
    rw [step_word_first s i c0 hs (hc c0 (by simp))]
    simp only
    have hk0 : (Tok.fresh.update c0.c i (some (wordKind none c0.c))).kind = none ∨
        (Tok.fresh.update c0.c i (some (wordKind none c0.c))).kind = some .value ∨
        (Tok.fresh.update c0.c i (some (wordKind none c0.c))).kind = some .name := by
      rcases wordKind_cases none c0.c with h | h <;> simp [Tok.update, h]
    rw [lexLoop_name cs (sp :: tail) (i + 1)
      { s with out := (if s.tok.nonempty then s.tok :: s.out else s.out),
               tok := Tok.fresh.update c0.c i (some (wordKind none c0.c)) }
      hs.1 hs.2.1 hk0 (fun c h => hc c (by simp [h]))]
    simp only [lexLoop]
    have hW : wordAll Tok.fresh (c0 :: cs) i = wordAll (Tok.fresh.update c0.c i (some (wordKind none c0.c))) cs (i + 1) := rfl
    have hn : (wordAll (Tok.fresh.update c0.c i (some (wordKind none c0.c))) cs (i + 1)).nonempty = true := by
      rw [← hW]; exact wordAll_nonempty _ _ _ (by simp)
    have hk : (wordAll (Tok.fresh.update c0.c i (some (wordKind none c0.c))) cs (i + 1)).kind = some .name ∨
        (wordAll (Tok.fresh.update c0.c i (some (wordKind none c0.c))) cs (i + 1)).kind = some .value := by
      rw [← hW, (wordAll_text (c0 :: cs) Tok.fresh i).2]
      exact kindAll_cases _ (by simp) _
    rw [step_space_flush
      { s with out := (if s.tok.nonempty then s.tok :: s.out else s.out),
               tok := wordAll (Tok.fresh.update c0.c i (some (wordKind none c0.c))) cs (i + 1) }
      _ sp hs.1 hs.2.1 hn (hk.elim Or.inl (fun h => Or.inr (Or.inl h))) hsp]
    simp only [hW, hs.1, hs.2.1, List.length_cons]
    congr 1
    omega

/-- a parenthesis: the pending operator token (if any) is emitted, then the bracket token -/
theorem step_paren (s : LexState) (i : Nat) (ci : CharInfo) (hs : Ready s) (hc : ci.c = '(' ∨ ci.c = ')') :
    lexStep s i ci = .ok { s with out := Tok.fresh.update ci.c i (some .context) ::
                                    (if s.tok.nonempty then s.tok :: s.out else s.out),
                                  tok := Tok.fresh } := by
  obtain ⟨hq, ht, hk⟩ := hs
  unfold lexStep lexTop
  rcases hc with hc | hc
  · simp only [ht, Nat.lt_irrefl, if_false, hq, hc]
    rcases hk with hk | ⟨hn, hk⟩
    · simp [hk, Tok.fresh, Tok.nonempty, LexState.flush, hq, ht]
    · simp [hn, hk, LexState.flush, hq, ht]
  · simp only [ht, Nat.lt_irrefl, if_false, hq, hc]
    rcases hk with hk | ⟨hn, hk⟩
    · simp [hk, Tok.fresh, Tok.nonempty, LexState.flush, hq, ht]
    · simp [hn, hk, LexState.flush, hq, ht]

/-- the operator token that `%in%` becomes -/
def inTok (i : Nat) : Tok :=
  ((Tok.opened .operator i).update 'i' (i + 1)).update 'n' (i + 2)

/-- a character inside the `%…%` quote that is neither a backslash nor `%` is appended -/
theorem step_in_quote (qc0 : List Char) (st : LexState) (j : Nat) (c : CharInfo) (hq : st.qc = ['%'])
    (ht : st.take = 0) (hb : c.c ≠ '\\') (hp : c.c ≠ '%') :
    lexStep st j c = .ok { st with tok := st.tok.update c.c j } := by
  have g1 : (c.c == '\\') = false := by simpa using hb
  have g2 : (c.c == '%') = false := by simpa using hp
  unfold lexStep lexQuoted
  simp [ht, hq, g1, g2]

/-- `%in%` from a `Ready` state: the pending operator token (if any) is emitted, then the token `in` -/
theorem loop_in (p1 ci cn p2 : CharInfo) (tail : List CharInfo) (i : Nat) (s : LexState) (hs : Ready s)
    (h1 : p1.c = '%') (h2 : ci.c = 'i') (h3 : cn.c = 'n') (h4 : p2.c = '%') :
    lexLoop (p1 :: ci :: cn :: p2 :: tail) i s = lexLoop tail (i + 4)
      { qc := [], take := 0, tok := Tok.fresh,
        out := inTok i :: (if s.tok.nonempty then s.tok :: s.out else s.out) } := by
  obtain ⟨hq, ht, _⟩ := hs
  obtain ⟨qc, take, tok, out⟩ := s
  simp only at hq ht
  subst hq ht
  let o1 : List Tok := if tok.nonempty then tok :: out else out
  have e1 : lexStep ⟨[], 0, tok, out⟩ i p1 = .ok ⟨['%'], 0, Tok.opened .operator i, o1⟩ := by
    unfold lexStep lexTop
    by_cases hn : tok.nonempty = true <;> simp [h1, hn, o1]
  have e2 : lexStep ⟨['%'], 0, Tok.opened .operator i, o1⟩ (i + 1) ci
      = .ok ⟨['%'], 0, (Tok.opened .operator i).update 'i' (i + 1), o1⟩ := by
    rw [step_in_quote [] _ _ ci rfl rfl (by rw [h2]; decide) (by rw [h2]; decide), h2]
  have e3 : lexStep ⟨['%'], 0, (Tok.opened .operator i).update 'i' (i + 1), o1⟩ (i + 1 + 1) cn
      = .ok ⟨['%'], 0, inTok i, o1⟩ := by
    rw [step_in_quote [] _ _ cn rfl rfl (by rw [h3]; decide) (by rw [h3]; decide), h3]
    rfl
  have e4 : lexStep ⟨['%'], 0, inTok i, o1⟩ (i + 1 + 1 + 1) p2 = .ok ⟨[], 0, Tok.fresh, inTok i :: o1⟩ := by
    unfold lexStep lexQuoted
    simp [h4, inTok, Tok.update, Tok.nonempty]
  simp only [lexLoop, e1, e2, e3, e4]
  rfl

/-! ### quoted tokens and calls (the loop lemmas of C15, from a between-tokens state) -/

open FormulaicVerif.Proofs.C15 (updAll updAll_text updAll_span)
open FormulaicVerif.Proofs.C15Quote (qRun Opener lexLoop_in_quote)

theorem ready_start {s : LexState} (h : Ready s) : Start s :=
  ⟨h.1, h.2.1, h.2.2.elim Or.inl (fun h => Or.inr ⟨h.1, Or.inl h.2⟩)⟩

theorem flush_out_ready {s : LexState} (h : Ready s) :
    s.flush.out = (if s.tok.nonempty then s.tok :: s.out else s.out) := by
  unfold LexState.flush
  by_cases hn : s.tok.nonempty = true <;> simp [hn]

/-- `` `body` `` / `{body}` from a between-tokens state: the pending operator token (if any) is emitted,
then ONE token of the quote's kind whose text is the body -/
theorem loop_quoted (body : List CharInfo) (op cl : CharInfo) (c : Char) (k : TKind) (tail : List CharInfo)
    (i : Nat) (s : LexState) (hs : Ready s) (ho : Opener op.c c k) (hcl : cl.c = c) (hne : body ≠ [])
    (hrun : qRun [c] 0 (body.map (·.c)) = some ([c], 0)) :
    lexLoop (op :: body ++ cl :: tail) i s = lexLoop tail (i + body.length + 2)
      { qc := [], take := 0, tok := Tok.fresh,
        out := updAll (Tok.opened k i) body (i + 1) :: (if s.tok.nonempty then s.tok :: s.out else s.out) } := by
  obtain ⟨hq, ht, _⟩ := hs
  obtain ⟨qc, take, tok, out⟩ := s
  simp only at hq ht
  subst hq ht
  let o1 : List Tok := if tok.nonempty then tok :: out else out
  have hopen : lexStep ⟨[], 0, tok, out⟩ i op = .ok ⟨[c], 0, Tok.opened k i, o1⟩ := by
    unfold lexStep lexTop
    rcases ho with ⟨h1, rfl, rfl⟩ | ⟨h1, rfl, rfl⟩ | ⟨h1, rfl, rfl⟩ <;>
      by_cases hn : tok.nonempty = true <;> simp [h1, hn, o1]
  simp only [List.cons_append, lexLoop, hopen]
  rw [lexLoop_in_quote body (cl :: tail) (i + 1) _ [c] 0 (by simp) (Or.inr (by simp)) hrun]
  have hnon : (updAll (Tok.opened k i) body (i + 1)).nonempty = true := by
    unfold Tok.nonempty
    rw [(updAll_text body (Tok.opened k i) (i + 1)).1]
    cases body with
    | nil => exact absurd rfl hne
    | cons c cs => simp [Tok.opened]
  have hclose : lexStep { qc := [c], take := 0, tok := updAll (Tok.opened k i) body (i + 1), out := o1 }
      (i + 1 + body.length) cl
      = .ok { qc := [], take := 0, tok := Tok.fresh, out := updAll (Tok.opened k i) body (i + 1) :: o1 } := by
    unfold lexStep lexQuoted
    rcases ho with ⟨_, rfl, _⟩ | ⟨_, rfl, _⟩ | ⟨_, rfl, _⟩ <;> simp [hcl, hnon]
  simp only [lexLoop, hclose]
  congr 1
  omega

/-- a call `name(…)[…]…` followed by whitespace, from a between-tokens state: ONE python token -/
theorem loop_call (name : List CharInfo) (gs : List Group) (sp : CharInfo) (tail : List CharInfo) (i : Nat)
    (s : LexState) (hs : Ready s) (hname : IsName name) (hgs : gs ≠ []) (hbal : ∀ g ∈ gs, g.Balanced)
    (hsp : SpaceChar sp) :
    lexLoop (name ++ chain gs ++ sp :: tail) i s = lexLoop tail (i + (name ++ chain gs).length + 1)
      { qc := [], take := 0, tok := Tok.fresh,
        out := callTok (name ++ chain gs) i :: (if s.tok.nonempty then s.tok :: s.out else s.out) } := by
  rw [lexLoop_call name gs (sp :: tail) i s (ready_start hs) hname hgs hbal]
  simp only [lexLoop]
  have hne : name ≠ [] := by
    obtain ⟨_, ci, hci, _⟩ := hname
    intro h; rw [h] at hci; simp at hci
  have hn : (callTok (name ++ chain gs) i).nonempty = true := by
    cases name with
    | nil => exact absurd rfl hne
    | cons c cs => simp [callTok, Tok.nonempty]
  rw [step_space_flush _ _ sp rfl rfl hn (Or.inr (Or.inr rfl)) hsp, flush_out_ready hs]


/-! ### token lists and their rendering -/

/-- a token as it is written -/
inductive LT
  | word (cs : List Char)     -- a name or a number
  | op (cs : List Char)       -- an operator token
  | isin                      -- `%in%`
  | lpar
  | rpar
  | bq (body : List Char)     -- a back-quoted name `` `body` ``
  | braces (body : List Char) -- a brace-quoted Python fragment `{body}`
  | call (name : List Char) (groups : List (Char × List Char × Char))   -- `name(…)[…]…`: a Python fragment

/-- Python's `re` classes as data: every character with its `[\.\_\w]` / `\s` flags -/
structure Classes where
  cl : Char → CharInfo
  c_eq : ∀ c, (cl c).c = c

variable (C : Classes)

/-- the characters of the bracket groups of a call -/
def groupText (gs : List (Char × List Char × Char)) : List Char := gs.flatMap (fun g => g.1 :: g.2.1 ++ [g.2.2])

def LT.text : LT → List Char
  | .word cs => cs
  | .op cs => cs
  | .isin => ['%', 'i', 'n', '%']
  | .lpar => ['(']
  | .rpar => [')']
  | .bq body => '`' :: body ++ ['`']
  | .braces body => '{' :: body ++ ['}']
  | .call name gs => name ++ groupText gs

/-- the token (without source span) the tokenizer makes of it -/
def LT.tok : LT → Tok
  | .word cs => { text := cs, kind := kindAll none (cs.map C.cl) }
  | .op cs => { text := cs, kind := some .operator }
  | .isin => { text := ['i', 'n'], kind := some .operator }
  | .lpar => { text := ['('], kind := some .context }
  | .rpar => { text := [')'], kind := some .context }
  | .bq body => { text := body, kind := some .name }
  | .braces body => { text := body, kind := some .python }
  | .call name gs => { text := name ++ groupText gs, kind := some .python }

/-- the bracket groups of a call as `C15Call.Group`s -/
def groupsOf (gs : List (Char × List Char × Char)) : List Group :=
  gs.map (fun g => { op := C.cl g.1, body := g.2.1.map C.cl, cl := C.cl g.2.2 })

def LT.Ok : LT → Prop
  | .word cs => cs ≠ [] ∧ ∀ c ∈ cs, NameChar (C.cl c)
  | .op cs => cs ≠ [] ∧ ∀ c ∈ cs, OpChar (C.cl c)
  | .bq body => body ≠ [] ∧ qRun ['`'] 0 body = some (['`'], 0)
  | .braces body => body ≠ [] ∧ qRun ['}'] 0 body = some (['}'], 0)
  | .call name gs => IsName (name.map C.cl) ∧ gs ≠ [] ∧
      ∀ g ∈ gs, Bracket g.1 g.2.2 ∧ qRun [g.2.2] 0 g.2.1 = some ([g.2.2], 0)
  | _ => True

instance (o c : Char) : Decidable (Bracket o c) := by unfold Bracket; infer_instance

instance (lt : LT) : Decidable (lt.Ok C) := by
  cases lt <;> unfold LT.Ok <;> infer_instance

def LT.isOp : LT → Bool
  | .op _ => true
  | _ => false

/-- no two operator tokens in a row (the tokenizer would make ONE token of them) -/
def NoAdjOps : List LT → Prop
  | [] => True
  | [_] => True
  | a :: b :: r => (a.isOp = true → b.isOp = false) ∧ NoAdjOps (b :: r)

/-- every token followed by one space -/
def render (lts : List LT) : List CharInfo := lts.flatMap (fun lt => lt.text.map C.cl ++ [C.cl ' '])

theorem render_cons (lt : LT) (r : List LT) :
    render C (lt :: r) = lt.text.map C.cl ++ C.cl ' ' :: render C r := by
  simp [render]

theorem map_c (cs : List Char) : (cs.map C.cl).map (·.c) = cs := by
  induction cs with
  | nil => rfl
  | cons c cs ih => simp [C.c_eq, ih]

theorem allToks_fresh (out : List Tok) (x : Tok) (s : LexState) (h : s.out = out) :
    allToks { qc := [], take := 0, tok := Tok.fresh, out := x :: (if s.tok.nonempty then s.tok :: out else out) }
      = allToks s ++ [x] := by
  have hf : Tok.fresh.nonempty = false := rfl
  unfold allToks
  by_cases hn : s.tok.nonempty = true
  · simp only [hn, if_true, h, hf, Bool.false_eq_true, if_false, List.reverse_cons, List.append_nil,
      List.append_assoc]
  · have hn' : s.tok.nonempty = false := by simpa using hn
    simp only [hn', Bool.false_eq_true, if_false, h, hf, List.reverse_cons, List.append_nil]

theorem ready_fresh (out : List Tok) : Ready { qc := [], take := 0, tok := Tok.fresh, out := out } :=
  ⟨rfl, rfl, Or.inl rfl⟩

/-- **the tokenizer on a rendered token list**: from any between-tokens state, the loop consumes the
rendering without error and sees exactly the tokens written, in order (up to source spans) -/
theorem lex_render (hsp : SpaceChar (C.cl ' ')) : ∀ (lts : List LT) (s : LexState) (i : Nat), Ready s →
    (s.tok ≠ Tok.fresh → ∀ lt r, lts = lt :: r → lt.isOp = false) →
    (∀ lt ∈ lts, lt.Ok C) → NoAdjOps lts →
    ∃ s', lexLoop (render C lts) i s = (s', none) ∧ Ready s' ∧
      (allToks s').map erase = (allToks s).map erase ++ lts.map (fun lt => lt.tok C)
  | [], s, i, hs, _, _, _ => ⟨s, rfl, hs, by simp⟩
  | lt :: r, s, i, hs, hpend, hok, hadj => by
    have hokr : ∀ x ∈ r, x.Ok C := fun x hx => hok x (by simp [hx])
    have hadjr : NoAdjOps r := by
      cases r with
      | nil => trivial
      | cons b r' => exact hadj.2
    rw [render_cons]
    cases lt with
    | word cs =>
      obtain ⟨hne, hcs⟩ := hok (.word cs) (by simp)
      have hne' : cs.map C.cl ≠ [] := by simpa using hne
      have hcs' : ∀ ci ∈ cs.map C.cl, NameChar ci := by
        intro ci hci
        obtain ⟨c, hc, rfl⟩ := List.mem_map.1 hci
        exact hcs c hc
      simp only [LT.text]
      rw [loop_word (cs.map C.cl) (C.cl ' ') (render C r) i s hs hne' hcs' hsp]
      obtain ⟨s', h1, h2, h3⟩ := lex_render hsp r _ (i + (cs.map C.cl).length + 1) (ready_fresh _)
        (fun h => absurd rfl h) hokr hadjr
      refine ⟨s', h1, h2, ?_⟩
      rw [h3, allToks_fresh s.out _ s rfl]
      simp only [List.map_append, List.map_cons, List.map_nil, List.append_assoc, List.cons_append,
        List.nil_append]
      congr 2
      have ht := wordAll_text (cs.map C.cl) Tok.fresh i
      have he : LT.tok C (.word cs) = erase (LT.tok C (.word cs)) := rfl
      rw [he]
      exact C15Ws.erase_eq (by rw [ht.1, map_c]; rfl) (by rw [ht.2]; rfl)
    | op cs =>
      obtain ⟨hne, hcs⟩ := hok (.op cs) (by simp)
      have hfresh : s.tok = Tok.fresh := by
        by_cases h : s.tok = Tok.fresh
        · exact h
        · have := hpend h (.op cs) r rfl
          simp [LT.isOp] at this
      have hcs' : ∀ ci ∈ cs.map C.cl, OpChar ci := by
        intro ci hci
        obtain ⟨c, hc, rfl⟩ := List.mem_map.1 hci
        exact hcs c hc
      simp only [LT.text]
      rw [loop_op (cs.map C.cl) (C.cl ' ' :: render C r) i s hs hcs']
      have hne' : cs.map C.cl ≠ [] := by simpa using hne
      have hot := opAll_text (cs.map C.cl) s.tok i
      have hr1 : Ready { s with tok := opAll s.tok (cs.map C.cl) i } := by
        refine ⟨hs.1, hs.2.1, Or.inr ⟨?_, hot.2 hne'⟩⟩
        simp only [Tok.nonempty, hot.1]
        cases hc : cs with
        | nil => exact absurd hc hne
        | cons c cs' => simp
      simp only [lexLoop]
      rw [step_space _ _ _ hr1 hsp]
      simp only
      have hpend' : ({ s with tok := opAll s.tok (cs.map C.cl) i } : LexState).tok ≠ Tok.fresh →
          ∀ lt r', r = lt :: r' → lt.isOp = false := by
        intro _ lt r' hr
        subst hr
        have := hadj.1 rfl
        exact this
      obtain ⟨s', h1, h2, h3⟩ := lex_render hsp r _ (i + (cs.map C.cl).length + 1) hr1 hpend' hokr hadjr
      refine ⟨s', h1, h2, ?_⟩
      rw [h3]
      have hn1 : (opAll s.tok (cs.map C.cl) i).nonempty = true := by
        rcases hr1.2.2 with h | h
        · have hk : (opAll s.tok (cs.map C.cl) i).kind = some .operator := hot.2 hne'
          have h' : opAll s.tok (cs.map C.cl) i = Tok.fresh := h
          rw [h'] at hk; cases hk
        · exact h.1
      have hsn : s.tok.nonempty = false := by rw [hfresh]; rfl
      have hv : allToks ({ s with tok := opAll s.tok (cs.map C.cl) i } : LexState)
          = allToks s ++ [opAll s.tok (cs.map C.cl) i] := by
        unfold allToks
        simp only [hn1, if_true, hsn, Bool.false_eq_true, if_false, List.append_nil]
      rw [hv]
      simp only [List.map_append, List.map_cons, List.map_nil, List.append_assoc, List.cons_append,
        List.nil_append]
      congr 2
      have he : LT.tok C (.op cs) = erase (LT.tok C (.op cs)) := rfl
      rw [he]
      exact C15Ws.erase_eq (by rw [hot.1, hfresh, map_c]; rfl) (by rw [hot.2 hne']; rfl)
    | isin =>
      simp only [LT.text, List.map_cons, List.map_nil, List.cons_append, List.nil_append]
      rw [loop_in _ _ _ _ _ i s hs (C.c_eq _) (C.c_eq _) (C.c_eq _) (C.c_eq _)]
      simp only [lexLoop]
      rw [step_space _ _ _ (ready_fresh _) hsp]
      simp only
      obtain ⟨s', h1, h2, h3⟩ := lex_render hsp r _ (i + 4 + 1) (ready_fresh _) (fun h => absurd rfl h) hokr hadjr
      refine ⟨s', h1, h2, ?_⟩
      rw [h3, allToks_fresh s.out _ s rfl]
      simp only [List.map_append, List.map_cons, List.map_nil, List.append_assoc, List.cons_append,
        List.nil_append]
      rfl
    | bq body =>
      obtain ⟨hne, hrun⟩ := hok (.bq body) (by simp)
      have hne' : body.map C.cl ≠ [] := by simpa using hne
      simp only [LT.text, List.map_cons, List.map_append, List.map_nil, List.cons_append, List.append_assoc,
        List.nil_append]
      have hq := loop_quoted (body.map C.cl) (C.cl '`') (C.cl '`') '`' .name (C.cl ' ' :: render C r) i s hs
        (Or.inr (Or.inr ⟨C.c_eq _, rfl, rfl⟩)) (C.c_eq _) hne' (by rw [map_c]; exact hrun)
      rw [List.cons_append] at hq
      rw [hq]
      simp only [lexLoop]
      rw [step_space _ _ _ (ready_fresh _) hsp]
      simp only
      obtain ⟨s', h1, h2, h3⟩ := lex_render hsp r _ (i + (body.map C.cl).length + 2 + 1) (ready_fresh _)
        (fun h => absurd rfl h) hokr hadjr
      refine ⟨s', h1, h2, ?_⟩
      rw [h3, allToks_fresh s.out _ s rfl]
      simp only [List.map_append, List.map_cons, List.map_nil, List.append_assoc, List.cons_append,
        List.nil_append]
      congr 2
      have ht := updAll_text (body.map C.cl) (Tok.opened .name i) (i + 1)
      have he : LT.tok C (.bq body) = erase (LT.tok C (.bq body)) := rfl
      rw [he]
      exact C15Ws.erase_eq (by rw [ht.1, map_c]; rfl) (by rw [ht.2]; rfl)
    | braces body =>
      obtain ⟨hne, hrun⟩ := hok (.braces body) (by simp)
      have hne' : body.map C.cl ≠ [] := by simpa using hne
      simp only [LT.text, List.map_cons, List.map_append, List.map_nil, List.cons_append, List.append_assoc,
        List.nil_append]
      have hq := loop_quoted (body.map C.cl) (C.cl '{') (C.cl '}') '}' .python (C.cl ' ' :: render C r) i s hs
        (Or.inr (Or.inl ⟨C.c_eq _, rfl, rfl⟩)) (C.c_eq _) hne' (by rw [map_c]; exact hrun)
      rw [List.cons_append] at hq
      rw [hq]
      simp only [lexLoop]
      rw [step_space _ _ _ (ready_fresh _) hsp]
      simp only
      obtain ⟨s', h1, h2, h3⟩ := lex_render hsp r _ (i + (body.map C.cl).length + 2 + 1) (ready_fresh _)
        (fun h => absurd rfl h) hokr hadjr
      refine ⟨s', h1, h2, ?_⟩
      rw [h3, allToks_fresh s.out _ s rfl]
      simp only [List.map_append, List.map_cons, List.map_nil, List.append_assoc, List.cons_append,
        List.nil_append]
      congr 2
      have ht := updAll_text (body.map C.cl) (Tok.opened .python i) (i + 1)
      have he : LT.tok C (.braces body) = erase (LT.tok C (.braces body)) := rfl
      rw [he]
      exact C15Ws.erase_eq (by rw [ht.1, map_c]; rfl) (by rw [ht.2]; rfl)
    | call name gs =>
      obtain ⟨hname, hgs, hbal⟩ := hok (.call name gs) (by simp)
      have hchain : ∀ gs : List (Char × List Char × Char), (groupText gs).map C.cl = chain (groupsOf C gs) := by
        intro gs
        induction gs with
        | nil => rfl
        | cons g gs ih =>
          simp only [groupText, chain, groupsOf, List.flatMap_cons, List.map_append, List.map_cons, List.map_nil,
            Group.chars] at ih ⊢
          rw [ih]
      have hgs' : groupsOf C gs ≠ [] := by
        cases gs with
        | nil => exact absurd rfl hgs
        | cons g gs => simp [groupsOf]
      have hbal' : ∀ g ∈ groupsOf C gs, g.Balanced := by
        intro g hg
        obtain ⟨g0, hg0, rfl⟩ := List.mem_map.1 hg
        obtain ⟨hb, hr⟩ := hbal g0 hg0
        exact ⟨g0.2.2, by rw [C.c_eq]; exact hb, by rw [C.c_eq], by rw [map_c]; exact hr⟩
      simp only [LT.text, List.map_append, hchain]
      rw [loop_call (name.map C.cl) (groupsOf C gs) (C.cl ' ') (render C r) i s hs hname hgs' hbal' hsp]
      obtain ⟨s', h1, h2, h3⟩ := lex_render hsp r _ (i + (name.map C.cl ++ chain (groupsOf C gs)).length + 1)
        (ready_fresh _) (fun h => absurd rfl h) hokr hadjr
      refine ⟨s', h1, h2, ?_⟩
      rw [h3, allToks_fresh s.out _ s rfl]
      simp only [List.map_append, List.map_cons, List.map_nil, List.append_assoc, List.cons_append,
        List.nil_append]
      congr 2
      have he : LT.tok C (.call name gs) = erase (LT.tok C (.call name gs)) := rfl
      rw [he]
      exact C15Ws.erase_eq (by simp only [callTok, LT.tok, List.map_append, ← hchain, map_c]) rfl
    | lpar =>
      simp only [LT.text, List.map_cons, List.map_nil, List.cons_append, List.nil_append, lexLoop]
      rw [step_paren s i _ hs (Or.inl (C.c_eq _))]
      simp only
      have hr1 := ready_fresh (Tok.fresh.update (C.cl '(').c i (some .context) ::
        (if s.tok.nonempty then s.tok :: s.out else s.out))
      have e : ({ s with out := Tok.fresh.update (C.cl '(').c i (some .context) ::
            (if s.tok.nonempty then s.tok :: s.out else s.out), tok := Tok.fresh } : LexState)
          = { qc := [], take := 0, tok := Tok.fresh, out := Tok.fresh.update (C.cl '(').c i (some .context) ::
            (if s.tok.nonempty then s.tok :: s.out else s.out) } := by
        rw [← hs.1, ← hs.2.1]
      rw [e, step_space _ _ _ hr1 hsp]
      simp only
      obtain ⟨s', h1, h2, h3⟩ := lex_render hsp r _ (i + 1 + 1) hr1 (fun h => absurd rfl h) hokr hadjr
      refine ⟨s', h1, h2, ?_⟩
      rw [h3, allToks_fresh s.out _ s rfl]
      simp only [List.map_append, List.map_cons, List.map_nil, List.append_assoc, List.cons_append,
        List.nil_append, C.c_eq]
      rfl
    | rpar =>
      simp only [LT.text, List.map_cons, List.map_nil, List.cons_append, List.nil_append, lexLoop]
      rw [step_paren s i _ hs (Or.inr (C.c_eq _))]
      simp only
      have hr1 := ready_fresh (Tok.fresh.update (C.cl ')').c i (some .context) ::
        (if s.tok.nonempty then s.tok :: s.out else s.out))
      have e : ({ s with out := Tok.fresh.update (C.cl ')').c i (some .context) ::
            (if s.tok.nonempty then s.tok :: s.out else s.out), tok := Tok.fresh } : LexState)
          = { qc := [], take := 0, tok := Tok.fresh, out := Tok.fresh.update (C.cl ')').c i (some .context) ::
            (if s.tok.nonempty then s.tok :: s.out else s.out) } := by
        rw [← hs.1, ← hs.2.1]
      rw [e, step_space _ _ _ hr1 hsp]
      simp only
      obtain ⟨s', h1, h2, h3⟩ := lex_render hsp r _ (i + 1 + 1) hr1 (fun h => absurd rfl h) hokr hadjr
      refine ⟨s', h1, h2, ?_⟩
      rw [h3, allToks_fresh s.out _ s rfl]
      simp only [List.map_append, List.map_cons, List.map_nil, List.append_assoc, List.cons_append,
        List.nil_append, C.c_eq]
      rfl

/-- **`tokenize(render tokens) = tokens`** (up to source spans), with no error -/
theorem tokenize_render (hsp : SpaceChar (C.cl ' ')) (lts : List LT) (hok : ∀ lt ∈ lts, lt.Ok C)
    (hadj : NoAdjOps lts) :
    ∃ ts, tokenizeStream (render C lts) = (ts, none) ∧ ts.map erase = lts.map (fun lt => lt.tok C) := by
  obtain ⟨s', h1, h2, h3⟩ := lex_render C hsp lts {} 0 ⟨rfl, rfl, Or.inl rfl⟩ (fun h => absurd rfl h) hok hadj
  refine ⟨allToks s', ?_, ?_⟩
  · unfold tokenizeStream
    rw [h1]
    simp only [h2.1, List.isEmpty_nil, Bool.not_true, Bool.false_eq_true, if_false]
    unfold allToks
    by_cases hn : s'.tok.nonempty = true <;> simp [hn]
  · rw [h3]
    simp [allToks, Tok.nonempty]

end FormulaicVerif.Proofs.C01Lex
