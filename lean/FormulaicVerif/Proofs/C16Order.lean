import FormulaicVerif.Proofs.C16Render
/-! Helper lemmas for C16, part 12: the same specification against a re-ordered column list (not obligations). -/
namespace FormulaicVerif.Proofs.C16
open FormulaicVerif.Model.Constraints FormulaicVerif.Spec.Affine

theorem colIndexFrom_get : ∀ (names : List String) (i : Nat) (e : String) (j : Nat), colIndexFrom names i e = some j →
    ∃ k, j = i + k ∧ ∃ hk : k < names.length, names[k] = e := by
  intro names
  induction names with
  | nil => intro i e j h; cases h
  | cons v vs ih =>
    intro i e j h
    unfold colIndexFrom at h
    cases hr : colIndexFrom vs (i + 1) e with
    | some j' =>
      rw [hr] at h; simp only [Option.some.injEq] at h; subst h
      obtain ⟨k, hk, hlt, hget⟩ := ih _ _ _ hr
      exact ⟨k + 1, by omega, by simpa using hlt, by simpa using hget⟩
    | none =>
      rw [hr] at h
      simp only at h
      split at h
      · rename_i hv
        simp only [Option.some.injEq] at h; subst h
        exact ⟨0, rfl, by simp, by simpa using hv⟩
      · cases h

theorem colIndex_get {names : List String} {e : String} {j : Nat} (h : colIndex names e = some j) :
    ∃ hj : j < names.length, names[j] = e := by
  obtain ⟨k, hk, hlt, hget⟩ := colIndexFrom_get names 0 e j h
  have : j = k := by omega
  subst this
  exact ⟨hlt, hget⟩

theorem colIndex_none_iff {names : List String} {e : String} : colIndex names e = none ↔ e ∉ names := by
  constructor
  · intro h hm
    have := colIndexFrom_mem names 0 e hm
    unfold colIndex at h
    rw [h] at this; cases this
  · exact colIndexFrom_notin names 0 e

theorem colIndex_isSome_iff {names : List String} {e : String} : (colIndex names e).isSome = true ↔ e ∈ names := by
  constructor
  · intro h
    by_contra hm
    rw [colIndex_none_iff.mpr hm] at h; cases h
  · exact colIndexFrom_mem names 0 e

theorem colIndex_nodup {names : List String} (hnd : names.Nodup) (j : Nat) (hj : j < names.length) :
    colIndex names names[j] = some j := by
  have := colIndexFrom_nodup names 0 j hj hnd
  simpa [colIndex] using this

/-- the vector over the columns `names'` that assigns every column the value it has in `x` over `names` -/
def transport (names names' : List String) (x : Nat → Rat) : Nat → Rat :=
  fun j' => match names'[j']? with
    | some v => colValue names x v
    | none => 0

theorem colValue_transport {names names' : List String} (hset : ∀ v, v ∈ names ↔ v ∈ names') (x : Nat → Rat) :
    colValue names' (transport names names' x) = colValue names x := by
  funext v
  unfold colValue
  cases h' : colIndex names' v with
  | some j' =>
    obtain ⟨hj', hget⟩ := colIndex_get h'
    simp only [transport, List.getElem?_eq_getElem hj', hget, colValue]
  | none =>
    have : v ∉ names := fun hm => colIndex_none_iff.mp h' ((hset v).mp hm)
    simp only [colIndex_none_iff.mpr this]

theorem transport_zero (names names' : List String) : transport names names' (fun _ => 0) = fun _ => 0 := by
  funext j'
  unfold transport colValue
  cases names'[j']? with
  | none => rfl
  | some v => cases hc : colIndex names v <;> simp [hc]

theorem transport_unit {names names' : List String} (hnd : names.Nodup) (hnd' : names'.Nodup)
    (hset : ∀ v, v ∈ names ↔ v ∈ names') {j j' : Nat} (hj : j < names.length) (hj' : j' < names'.length)
    (he : names[j] = names'[j']) : transport names names' (unitVec j) = unitVec j' := by
  funext k'
  unfold transport
  cases hk : names'[k']? with
  | none =>
    have : names'.length ≤ k' := by
      by_contra hlt
      rw [List.getElem?_eq_getElem (by omega)] at hk; cases hk
    simp only [unitVec]
    rw [if_neg (by omega)]
  | some v =>
    obtain ⟨hk', hv⟩ := List.getElem?_eq_some_iff.mp hk
    have hmem : v ∈ names := (hset v).mpr (hv ▸ List.getElem_mem hk')
    obtain ⟨k, hkk⟩ := Option.isSome_iff_exists.mp (colIndex_isSome_iff.mpr hmem)
    obtain ⟨hklt, hkget⟩ := colIndex_get hkk
    simp only [colValue, hkk, unitVec]
    by_cases e1 : k = j
    · subst e1
      have : names'[k'] = names'[j'] := by rw [hv, ← hkget, he]
      have : k' = j' := (List.Nodup.getElem_inj_iff hnd').mp this
      simp [this]
    · have : k' ≠ j' := by
        intro e2; subst e2
        apply e1
        have : names[k] = names[j] := by rw [hkget, ← hv, he]
        exact (List.Nodup.getElem_inj_iff hnd).mp this
      simp [e1, this]

/-- **the same constraint over a re-ordered column list**: the constant is the same and the coefficients move with their columns -/
theorem row_equivariant {names names' : List String} (hnd : names.Nodup) (hnd' : names'.Nodup)
    (hset : ∀ v, v ∈ names ↔ v ∈ names') {e : Expr} {r r' : List Rat} {c c' : Rat}
    (h : RowOK names r c e) (h' : RowOK names' r' c' e) :
    c' = c ∧ ∀ (j j' : Nat) (hj : j < names.length) (hj' : j' < names'.length), names[j] = names'[j'] →
      r'[j']'(h'.1 ▸ hj') = r[j]'(h.1 ▸ hj) := by
  have key : ∀ x, dot r x - c = dot r' (transport names names' x) - c' := by
    intro x
    have a := h.2 x
    have b := h'.2 (transport names names' x)
    rw [colValue_transport hset x, a] at b
    simpa using b
  have hc : c' = c := by
    have := key (fun _ => 0)
    rw [transport_zero, dot_zero, dot_zero] at this
    linarith
  refine ⟨hc, fun j j' hj hj' he => ?_⟩
  have := key (unitVec j)
  rw [transport_unit hnd hnd' hset hj hj' he, dot_unitVec _ _ (h.1 ▸ hj), dot_unitVec _ _ (h'.1 ▸ hj')] at this
  linarith


theorem acceptable_same_columns {names names' : List String} (hset : ∀ v, v ∈ names ↔ v ∈ names') (n : Node) :
    acceptable names n ↔ acceptable names' n := by
  unfold acceptable
  constructor
  · rintro ⟨es, a, b, c, d⟩
    exact ⟨es, a, b, c, fun x hx => colIndex_isSome_iff.mpr ((hset x).mp (colIndex_isSome_iff.mp (d x hx)))⟩
  · rintro ⟨es, a, b, c, d⟩
    exact ⟨es, a, b, c, fun x hx => colIndex_isSome_iff.mpr ((hset x).mpr (colIndex_isSome_iff.mp (d x hx)))⟩

theorem rows_equivariant {names names' : List String} (hnd : names.Nodup) (hnd' : names'.Nodup)
    (hset : ∀ v, v ∈ names ↔ v ∈ names') {es : List Expr} {A A' : List (List Rat)} {b b' : List Rat}
    (h : Rows (RowOK names) A b es) (h' : Rows (RowOK names') A' b' es) :
    b' = b ∧ A'.length = A.length ∧
      ∀ (i : Nat) (hi : i < A.length) (hi' : i < A'.length) (j j' : Nat) (hj : j < names.length) (hj' : j' < names'.length),
        names[j] = names'[j'] → (A'[i])[j']? = (A[i])[j]? := by
  have la := h.lengths; have la' := h'.lengths
  refine ⟨?_, by rw [la.1, la'.1], ?_⟩
  · apply List.ext_getElem (by rw [la.2, la'.2])
    intro i hb' hb
    have r := h.get i (by rw [la.1, ← la.2]; exact hb) hb (by rw [← la.2]; exact hb)
    have r' := h'.get i (by rw [la'.1, ← la'.2]; exact hb') hb' (by rw [← la'.2]; exact hb')
    exact (row_equivariant hnd hnd' hset r r').1
  · intro i hi hi' j j' hj hj' he
    have r := h.get i hi (by rw [la.2, ← la.1]; exact hi) (by rw [← la.1]; exact hi)
    have r' := h'.get i hi' (by rw [la'.2, ← la'.1]; exact hi') (by rw [← la'.1]; exact hi')
    have := (row_equivariant hnd hnd' hset r r').2 j j' hj hj' he
    rw [List.getElem?_eq_getElem (r'.1 ▸ hj'), List.getElem?_eq_getElem (r.1 ▸ hj), this]

/-! ### every entry is determined by the tree and the NAME of its column -/

theorem colValue_zero (names : List String) : colValue names (fun _ => 0) = env0 := by
  funext w
  unfold colValue env0
  cases colIndex names w <;> rfl

theorem colValue_unitVec {names : List String} (hnd : names.Nodup) (j : Nat) (hj : j < names.length) :
    colValue names (unitVec j) = indicator names[j] := by
  funext w
  unfold colValue indicator
  cases hk : colIndex names w with
  | none =>
    have : w ∉ names := colIndex_none_iff.mp hk
    have : w ≠ names[j] := fun e => this (e ▸ List.getElem_mem hj)
    simp [this]
  | some k =>
    obtain ⟨hklt, hkget⟩ := colIndex_get hk
    simp only [unitVec]
    by_cases e : k = j
    · subst e; simp [hkget]
    · have : w ≠ names[j] := by
        intro e2; apply e
        exact (List.Nodup.getElem_inj_iff hnd).mp (hkget.trans e2)
      simp [e, this]

theorem row_by_name {names : List String} (hnd : names.Nodup) {e : Expr} {r : List Rat} {c : Rat} (h : RowOK names r c e) :
    eval env0 e = some (-c) ∧ ∀ (j : Nat) (hj : j < names.length), eval (indicator names[j]) e = some (r[j]'(h.1 ▸ hj) - c) := by
  constructor
  · have := h.2 (fun _ => 0)
    rw [colValue_zero, dot_zero] at this
    simpa using this
  · intro j hj
    have := h.2 (unitVec j)
    rw [colValue_unitVec hnd j hj, dot_unitVec _ _ (h.1 ▸ hj)] at this
    exact this

end FormulaicVerif.Proofs.C16
