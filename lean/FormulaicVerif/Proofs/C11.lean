import FormulaicVerif.Spec.Contrasts
import Mathlib.LinearAlgebra.Matrix.NonsingularInverse
import Mathlib.Algebra.BigOperators.Fin
import Mathlib.Algebra.BigOperators.Intervals
import Mathlib.Tactic.FieldSimp
import Mathlib.Tactic.Ring
import Mathlib.Tactic.Linarith

/-! # Helper lemmas for C11 (contrast codings)

Everything is stated on the model's / spec's entry functions with `Nat` indices and sums over
`Finset.range n`; `Props/C11.lean` wraps the results into `Matrix` statements. -/

open Finset BigOperators
set_option linter.unusedSimpArgs false
set_option linter.unusedVariables false
namespace FormulaicVerif.Proofs.C11
open FormulaicVerif.Model.Contrasts FormulaicVerif.Spec.Contrasts

theorem coding_eq_spec (k : Kind) (n i j : ℕ) (hi : i < n) (hj : j < n - 1) :
    Model.Contrasts.coding k n i j = Spec.Contrasts.coding k n i j := by
  cases k with
  | treatment d => simp [Model.Contrasts.coding, Spec.Contrasts.coding, takeCols, eye]
  | sum => simp [Model.Contrasts.coding, Spec.Contrasts.coding, setRow, eye]
  | helmert r s =>
    cases r <;> cases s <;>
    simp only [Model.Contrasts.coding, Spec.Contrasts.coding, setWhere, divCols, triu, trilStrict, zeros,
      helmertR, helmertF, Bool.and_eq_true, decide_eq_true_eq, if_true, Bool.false_eq_true, if_false] <;>
    (split_ifs <;> first | rfl | (exfalso; omega) | ring1)
  | diff b =>
    have hn : (n : ℚ) ≠ 0 := by
      have : 0 < n := by omega
      exact_mod_cast this.ne'
    cases b <;>
    simp only [Model.Contrasts.coding, Spec.Contrasts.coding, subWhere, scaleAll, triu, sdif,
      Bool.and_eq_true, decide_eq_true_eq, if_true, Bool.false_eq_true, if_false] <;>
    (split_ifs <;> first | (exfalso; omega) | (field_simp; ring1) | (field_simp))
  | poly x => rfl

theorem sum_range_point (n t : ℕ) (f : ℕ → ℚ) :
    ∑ i ∈ range n, (if i = t then f i else 0) = if t < n then f t else 0 := by
  rw [Finset.sum_ite_eq']; simp

theorem sum_range_lt (n t : ℕ) (ht : t ≤ n) (f g : ℕ → ℚ) :
    ∑ i ∈ range n, (if i < t then f i else g i) = ∑ i ∈ range t, f i + ∑ i ∈ Ico t n, g i := by
  simp only [Finset.range_eq_Ico]
  rw [← Finset.sum_Ico_consecutive _ (Nat.zero_le t) ht]
  congr 1
  · apply Finset.sum_congr rfl
    intro i hi
    simp only [Finset.mem_Ico] at hi
    simp [hi.2]
  · apply Finset.sum_congr rfl
    intro i hi
    simp only [Finset.mem_Ico] at hi
    have : ¬ i < t := by omega
    simp [this]

theorem skip_ne (d j : ℕ) : skip d j ≠ d := by unfold skip; split_ifs <;> omega
theorem skip_lt (d j n : ℕ) (hj : j < n - 1) : skip d j < n := by unfold skip; split_ifs <;> omega
theorem skip_inj (d j k : ℕ) : skip d j = skip d k ↔ j = k := by unfold skip; split_ifs <;> omega

theorem treatment_inv (d n r c : ℕ) (hd : d < n) (hr : r < n) (hc : c < n) :
    ∑ i ∈ range n, Spec.Contrasts.coef (.treatment d) n r i * aug (.treatment d) n i c = if r = c then 1 else 0 := by
  rcases r with _ | r <;> rcases c with _ | c <;>
  simp only [Spec.Contrasts.coef, aug, Model.Contrasts.coding, takeCols, eye, if_true, Nat.succ_ne_zero, if_false,
    Nat.add_sub_cancel, mul_one, sub_mul, ite_mul, one_mul, zero_mul, mul_ite, mul_zero, Finset.sum_sub_distrib,
    sum_range_point, hd, add_eq_zero, one_ne_zero, and_false]
  · simp [skip_ne d c, Ne.symm (skip_ne d c)]
  · simp [skip_lt d r n (by omega)]
  · have h1 := skip_lt d c n (by omega)
    have h2 := skip_ne d c
    simp only [h1, if_true, h2, if_false, sub_zero, skip_inj]
    simp [eq_comm]

theorem natcast_ne_zero {n : ℕ} (h : 0 < n) : (n : ℚ) ≠ 0 := by exact_mod_cast h.ne'

/-- the sum coding is `[i = k] - [i = n-1]` -/
theorem sum_coding_lin (n i k : ℕ) (hk : k < n - 1) :
    Model.Contrasts.coding .sum n i k = (if i = k then 1 else 0) - (if i = n - 1 then 1 else 0) := by
  simp only [Model.Contrasts.coding, setRow, eye]
  split_ifs <;> first | (exfalso; omega) | norm_num

theorem sum_inv (n r c : ℕ) (hr : r < n) (hc : c < n) :
    ∑ i ∈ range n, Spec.Contrasts.coef .sum n r i * aug .sum n i c = if r = c then 1 else 0 := by
  have hn : (n : ℚ) ≠ 0 := natcast_ne_zero (by omega)
  have hn1 : n - 1 < n := by omega
  rcases r with _ | r <;> rcases c with _ | c
  · simp [Spec.Contrasts.coef, aug, hn]
  · have hc' : c < n - 1 := by omega
    simp only [Spec.Contrasts.coef, aug, if_true, Nat.succ_ne_zero, if_false, Nat.add_sub_cancel,
      sum_coding_lin n _ c hc', mul_sub, Finset.sum_sub_distrib, mul_ite, mul_one, mul_zero, sum_range_point]
    have : c < n := by omega
    simp [this, hn1]
  · simp only [Spec.Contrasts.coef, aug, if_true, Nat.succ_ne_zero, if_false, Nat.add_sub_cancel, mul_one,
      Finset.sum_sub_distrib, sum_range_point, Finset.sum_const, Finset.card_range]
    have : r < n := by omega
    simp [this, hn]
  · have hc' : c < n - 1 := by omega
    have hr' : r < n := by omega
    have hc'' : c < n := by omega
    simp only [Spec.Contrasts.coef, aug, Nat.succ_ne_zero, if_false, Nat.add_sub_cancel,
      sum_coding_lin n _ c hc', mul_sub, sub_mul, Finset.sum_sub_distrib, mul_ite, ite_mul, one_mul, zero_mul, mul_one,
      mul_zero, sum_range_point, hr', hc'', hn1, if_true]
    have h1 : ¬ (n - 1 = r) := by omega
    simp only [h1, if_false, add_left_inj]
    by_cases h : r = c
    · subst h; simp
    · have : ¬ c = r := fun e => h e.symm
      simp [h, this]

def sgn (b : Bool) : ℚ := if b then 1 else -1
theorem sgn_mul_self (b : Bool) : sgn b * sgn b = 1 := by cases b <;> norm_num [sgn]

theorem diff_coding_lin (bw : Bool) (n i k : ℕ) (hi : i < n) (hk : k < n - 1) :
    Model.Contrasts.coding (.diff bw) n i k = sgn bw * (((k : ℚ) + 1) / n - (if i < k + 1 then 1 else 0)) := by
  cases bw <;>
  simp only [Model.Contrasts.coding, subWhere, scaleAll, triu, sgn, Bool.and_eq_true, decide_eq_true_eq, if_true,
    Bool.false_eq_true, if_false] <;>
  (split_ifs <;> first | (exfalso; omega) | ring1)

theorem sum_range_ind_lt (n t : ℕ) (ht : t ≤ n) : ∑ i ∈ range n, (if i < t then (1 : ℚ) else 0) = t := by
  rw [sum_range_lt n t ht]; simp

theorem diff_inv (bw : Bool) (n r c : ℕ) (hr : r < n) (hc : c < n) :
    ∑ i ∈ range n, Spec.Contrasts.coef (.diff bw) n r i * aug (.diff bw) n i c = if r = c then 1 else 0 := by
  have hn : (n : ℚ) ≠ 0 := natcast_ne_zero (by omega)
  rcases r with _ | r <;> rcases c with _ | c
  · simp [Spec.Contrasts.coef, aug, hn]
  · have hc' : c < n - 1 := by omega
    have : ∀ i ∈ range n, Spec.Contrasts.coef (.diff bw) n 0 i * aug (.diff bw) n i (c + 1)
        = (1 / (n : ℚ)) * sgn bw * (((c : ℚ) + 1) / n) - (1 / (n : ℚ)) * sgn bw * (if i < c + 1 then 1 else 0) := by
      intro i hi
      simp only [Spec.Contrasts.coef, aug, if_true, Nat.succ_ne_zero, if_false, Nat.add_sub_cancel,
        diff_coding_lin bw n i c (Finset.mem_range.mp hi) hc']
      ring
    rw [Finset.sum_congr rfl this, Finset.sum_sub_distrib]
    simp only [← Finset.mul_sum]
    rw [sum_range_ind_lt n (c + 1) (by omega)]
    simp only [Finset.sum_const, Finset.card_range, nsmul_eq_mul, Nat.succ_ne_zero, if_false]
    push_cast
    field_simp
    ring
  · have h1 : r + 1 < n := hr
    have h2 : r < n := by omega
    simp only [Spec.Contrasts.coef, aug, if_true, Nat.succ_ne_zero, if_false, Nat.add_sub_cancel, mul_one,
      ← Finset.mul_sum, Finset.sum_sub_distrib, sum_range_point, h1, h2]
    simp
  · have hc' : c < n - 1 := by omega
    have : ∀ i ∈ range n, Spec.Contrasts.coef (.diff bw) n (r + 1) i * aug (.diff bw) n i (c + 1)
        = (if i = r + 1 then (((c : ℚ) + 1) / n - (if i < c + 1 then 1 else 0)) else 0)
          - (if i = r then (((c : ℚ) + 1) / n - (if i < c + 1 then 1 else 0)) else 0) := by
      intro i hi
      simp only [Spec.Contrasts.coef, aug, Nat.succ_ne_zero, if_false, Nat.add_sub_cancel,
        diff_coding_lin bw n i c (Finset.mem_range.mp hi) hc']
      have := sgn_mul_self bw
      change (sgn bw * _) * _ = _
      split_ifs <;> first | (exfalso; omega) | (ring_nf; try (rw [pow_two, this]; ring))
    rw [Finset.sum_congr rfl this, Finset.sum_sub_distrib, sum_range_point, sum_range_point]
    have h1 : r + 1 < n := hr
    have h2 : r < n := by omega
    simp only [h1, h2, if_true]
    split_ifs <;> first | (exfalso; omega) | ring1

/-! ### Helmert -/

theorem sumR (n j : ℕ) (hj : j + 1 < n) (g : ℕ → ℚ) :
    ∑ i ∈ range n, helmertR i j * g i = ((j : ℚ) + 1) * g (j + 1) - ∑ i ∈ range (j + 1), g i := by
  have : ∀ i ∈ range n, helmertR i j * g i
      = if i < j + 1 then -(g i) else (if i = j + 1 then ((j : ℚ) + 1) * g i else 0) := by
    intro i _
    simp only [helmertR]
    split_ifs <;> first | (exfalso; omega) | ring1
  rw [Finset.sum_congr rfl this, sum_range_lt n (j + 1) (by omega), Finset.sum_ite_eq']
  have : j + 1 ∈ Ico (j + 1) n := by simp; omega
  simp only [this, if_true, Finset.sum_neg_distrib]
  ring

theorem sumF (n j : ℕ) (hj : j + 1 < n) (g : ℕ → ℚ) :
    ∑ i ∈ range n, helmertF n i j * g i = ((n : ℚ) - 1 - j) * g j - ∑ i ∈ Ico (j + 1) n, g i := by
  have : ∀ i ∈ range n, helmertF n i j * g i
      = if i < j + 1 then (if i = j then ((n : ℚ) - 1 - j) * g i else 0) else -(g i) := by
    intro i _
    simp only [helmertF]
    split_ifs <;> first | (exfalso; omega) | ring1
  rw [Finset.sum_congr rfl this, sum_range_lt n (j + 1) (by omega), sum_range_point]
  simp only [Nat.lt_succ_self, if_true, Finset.sum_neg_distrib]
  ring

theorem colsumR (n j : ℕ) (hj : j + 1 < n) : ∑ i ∈ range n, helmertR i j = 0 := by
  have := sumR n j hj (fun _ => 1)
  simp only [mul_one, Finset.sum_const, Finset.card_range, nsmul_eq_mul] at this
  rw [this]; push_cast; ring

theorem colsumF (n j : ℕ) (hj : j + 1 < n) : ∑ i ∈ range n, helmertF n i j = 0 := by
  have := sumF n j hj (fun _ => 1)
  simp only [mul_one, Finset.sum_const, Nat.card_Ico, nsmul_eq_mul] at this
  rw [this, Nat.cast_sub (by omega)]; push_cast; ring

theorem gramR (n j k : ℕ) (hj : j + 1 < n) (hk : k + 1 < n) (hjk : j ≤ k) :
    ∑ i ∈ range n, helmertR i j * helmertR i k = if j = k then ((j : ℚ) + 1) * ((j : ℚ) + 2) else 0 := by
  rw [sumR n j hj]
  have h1 : ∀ i ∈ range (j + 1), helmertR i k = -1 := by
    intro i hi
    have : i ≤ k := by have := Finset.mem_range.mp hi; omega
    simp [helmertR, this]
  rw [Finset.sum_congr rfl h1]
  simp only [Finset.sum_const, Finset.card_range, nsmul_eq_mul]
  by_cases h : j = k
  · subst h
    simp [helmertR]; ring
  · have : j + 1 ≤ k := by omega
    simp [helmertR, this, h]

theorem gramF (n j k : ℕ) (hj : j + 1 < n) (hk : k + 1 < n) (hjk : j ≤ k) :
    ∑ i ∈ range n, helmertF n i j * helmertF n i k
      = if j = k then ((n : ℚ) - 1 - j) * ((n : ℚ) - j) else 0 := by
  rw [sumF n j hj, Finset.sum_Ico_eq_sub _ (by omega : j + 1 ≤ n), colsumF n k hk]
  by_cases h : j = k
  · subst h
    have h1 : ∀ i ∈ range (j + 1), helmertF n i j = if i = j then (n : ℚ) - 1 - j else 0 := by
      intro i hi
      have := Finset.mem_range.mp hi
      simp only [helmertF]
      split_ifs <;> first | (exfalso; omega) | rfl
    rw [Finset.sum_congr rfl h1, sum_range_point]
    simp [helmertF]; ring
  · have h1 : ∀ i ∈ range (j + 1), helmertF n i k = 0 := by
      intro i hi
      have : i < k := by have := Finset.mem_range.mp hi; omega
      simp [helmertF, this]
    have h2 : j < k := by omega
    rw [Finset.sum_congr rfl h1]
    simp [helmertF, h2, h]

def hbase (rev : Bool) (n i j : ℕ) : ℚ := if rev then helmertR i j else helmertF n i j
def hscale (rev sc : Bool) (n j : ℕ) : ℚ := if sc then (if rev then (j : ℚ) + 2 else (n : ℚ) - j) else 1
def hnorm (rev : Bool) (n j : ℕ) : ℚ :=
  if rev then ((j : ℚ) + 1) * ((j : ℚ) + 2) else ((n : ℚ) - 1 - j) * ((n : ℚ) - j)

theorem helmert_spec (rev sc : Bool) (n i j : ℕ) :
    Spec.Contrasts.coding (.helmert rev sc) n i j = hbase rev n i j / hscale rev sc n j := by
  cases rev <;> cases sc <;> simp [Spec.Contrasts.coding, hbase, hscale]

theorem cast_gap {n j : ℕ} (hj : j + 1 < n) : (0 : ℚ) < (n : ℚ) - 1 - j := by
  have : ((j + 1 : ℕ) : ℚ) < (n : ℚ) := by exact_mod_cast hj
  push_cast at this; linarith

theorem hscale_pos (rev sc : Bool) (n j : ℕ) (hj : j + 1 < n) : 0 < hscale rev sc n j := by
  have := cast_gap hj
  have hj0 : (0 : ℚ) ≤ j := Nat.cast_nonneg j
  cases rev <;> cases sc <;> simp only [hscale, if_true, if_false, Bool.false_eq_true] <;> linarith

theorem hnorm_pos (rev : Bool) (n j : ℕ) (hj : j + 1 < n) : 0 < hnorm rev n j := by
  have := cast_gap hj
  have hj0 : (0 : ℚ) ≤ j := Nat.cast_nonneg j
  cases rev <;> simp only [hnorm, if_true, if_false, Bool.false_eq_true] <;> apply mul_pos <;> linarith

theorem colNorm2_helmert (rev sc : Bool) (n j : ℕ) (hj : j + 1 < n) :
    colNorm2 (.helmert rev sc) n (j + 1) = hnorm rev n j / (hscale rev sc n j * hscale rev sc n j) := by
  have := cast_gap hj
  have hj0 : (0 : ℚ) ≤ j := Nat.cast_nonneg j
  have h2 : (j : ℚ) + 2 ≠ 0 := by linarith
  have h3 : (n : ℚ) - j ≠ 0 := by linarith
  cases rev <;> cases sc <;>
    simp only [colNorm2, hnorm, hscale, Nat.succ_ne_zero, if_false, if_true, Nat.add_sub_cancel, Bool.false_eq_true,
      mul_one, div_one] <;> field_simp

theorem colsumH (rev : Bool) (n j : ℕ) (hj : j + 1 < n) : ∑ i ∈ range n, hbase rev n i j = 0 := by
  cases rev <;> simp only [hbase, if_true, if_false, Bool.false_eq_true]
  · exact colsumF n j hj
  · exact colsumR n j hj

theorem gramH (rev : Bool) (n j k : ℕ) (hj : j + 1 < n) (hk : k + 1 < n) :
    ∑ i ∈ range n, hbase rev n i j * hbase rev n i k = if j = k then hnorm rev n j else 0 := by
  rcases Nat.le_total j k with h | h
  · cases rev <;> simp only [hbase, hnorm, if_true, if_false, Bool.false_eq_true]
    · exact gramF n j k hj hk h
    · exact gramR n j k hj hk h
  · have : ∑ i ∈ range n, hbase rev n i j * hbase rev n i k = ∑ i ∈ range n, hbase rev n i k * hbase rev n i j :=
      Finset.sum_congr rfl (fun i _ => mul_comm _ _)
    rw [this]
    by_cases e : j = k
    · subst e
      cases rev <;> simp only [hbase, hnorm, if_true, if_false, Bool.false_eq_true]
      · simpa using gramF n j j hj hk (le_refl _)
      · simpa using gramR n j j hj hk (le_refl _)
    · have e' : ¬ k = j := fun x => e x.symm
      simp only [e, if_false]
      cases rev <;> simp only [hbase, if_true, if_false, Bool.false_eq_true]
      · have := gramF n k j hk hj h; simpa [e'] using this
      · have := gramR n k j hk hj h; simpa [e'] using this

theorem aug_helmert_succ (rev sc : Bool) (n i c : ℕ) (hi : i < n) (hc : c + 1 < n) :
    aug (.helmert rev sc) n i (c + 1) = hbase rev n i c / hscale rev sc n c := by
  simp only [aug, Nat.succ_ne_zero, if_false, Nat.add_sub_cancel]
  rw [coding_eq_spec _ n i c hi (by omega), helmert_spec]

theorem helmert_inv (rev sc : Bool) (n r c : ℕ) (hr : r < n) (hc : c < n) :
    ∑ i ∈ range n, Spec.Contrasts.coef (.helmert rev sc) n r i * aug (.helmert rev sc) n i c
      = if r = c then 1 else 0 := by
  have hn : (n : ℚ) ≠ 0 := natcast_ne_zero (by omega)
  rcases r with _ | r <;> rcases c with _ | c
  · simp [Spec.Contrasts.coef, aug, colNorm2, hn]
  · have : ∀ i ∈ range n, Spec.Contrasts.coef (.helmert rev sc) n 0 i * aug (.helmert rev sc) n i (c + 1)
        = (1 / (n : ℚ)) * (1 / hscale rev sc n c) * hbase rev n i c := by
      intro i hi
      rw [aug_helmert_succ rev sc n i c (Finset.mem_range.mp hi) hc]
      simp only [Spec.Contrasts.coef, aug, colNorm2, if_true]
      ring
    rw [Finset.sum_congr rfl this, ← Finset.mul_sum, colsumH rev n c hc]
    simp
  · have : ∀ i ∈ range n, Spec.Contrasts.coef (.helmert rev sc) n (r + 1) i * aug (.helmert rev sc) n i 0
        = (1 / colNorm2 (.helmert rev sc) n (r + 1)) * (1 / hscale rev sc n r) * hbase rev n i r := by
      intro i hi
      simp only [Spec.Contrasts.coef]
      rw [aug_helmert_succ rev sc n i r (Finset.mem_range.mp hi) hr]
      simp only [aug, if_true]
      ring
    rw [Finset.sum_congr rfl this, ← Finset.mul_sum, colsumH rev n r hr]
    simp
  · have hs := (hscale_pos rev sc n r hr).ne'
    have hs' := (hscale_pos rev sc n c hc).ne'
    have hN := (hnorm_pos rev n r hr).ne'
    have : ∀ i ∈ range n, Spec.Contrasts.coef (.helmert rev sc) n (r + 1) i * aug (.helmert rev sc) n i (c + 1)
        = (hscale rev sc n r / (hnorm rev n r * hscale rev sc n c)) * (hbase rev n i r * hbase rev n i c) := by
      intro i hi
      simp only [Spec.Contrasts.coef]
      rw [aug_helmert_succ rev sc n i r (Finset.mem_range.mp hi) hr,
        aug_helmert_succ rev sc n i c (Finset.mem_range.mp hi) hc, colNorm2_helmert rev sc n r hr]
      field_simp
    rw [Finset.sum_congr rfl this, ← Finset.mul_sum, gramH rev n r c hr hc]
    by_cases e : r = c
    · subst e; simp only [if_true]; field_simp
    · have : ¬ (r + 1 = c + 1) := by omega
      simp [e, this]
end FormulaicVerif.Proofs.C11
