import FormulaicVerif.Proofs.C01Lex
import FormulaicVerif.Proofs.C01Denote
/-! # C01 — parse = denotation from the STRING, for formulas written with single spaces

`Proofs/C01Lex.lean` shows that the tokenizer returns the tokens that were written;
`Proofs/C01Denote.lean` that the parser maps the token sequence of a formula to its denotation. Here
they are joined: for every formula `f` of the documented grammar whose atoms are plain names and
numbers, the string "tokens of `f` separated by single spaces" parses to the denotation of `f` — no
hypothesis about the tokenizer left. -/
namespace FormulaicVerif.Proofs.C01String
open FormulaicVerif FormulaicVerif.Model FormulaicVerif.Proofs.ShuntC FormulaicVerif.Proofs.C01Grammar
open FormulaicVerif.Proofs.C15Call FormulaicVerif.Proofs.C01Lex FormulaicVerif.Proofs.C01Tokens
open FormulaicVerif.Proofs.C01Denote FormulaicVerif.Spec.Denote
open FormulaicVerif.Proofs.C15Ws (erase)

variable (C : Classes)

/-- how a (span-free) token of a formula is written -/
def ltOfTok (t : Tok) : LT :=
  match t.kind with
  | some .context => if t.text = ['('] then .lpar else .rpar
  | some .operator => if t.text = ['i', 'n'] then .isin else .op t.text
  | _ => .word t.text

/-- the token can be written and read back: no source span; a parenthesis, or an operator token
(`in`, or operator characters only), or a name / number (word characters only, the kind the tokenizer
gives such a word, not the lone `.`) -/
def TokOk (t : Tok) : Prop :=
  t.start = none ∧ t.stop = none ∧
  match t.kind with
  | some .context => t.text = ['('] ∨ t.text = [')']
  | some .operator => t.text = ['i', 'n'] ∨ (t.text ≠ [] ∧ ∀ c ∈ t.text, OpChar (C.cl c))
  | some .name => t.text ≠ [] ∧ (∀ c ∈ t.text, NameChar (C.cl c)) ∧ kindAll none (t.text.map C.cl) = some .name
  | some .value => t.text ≠ [] ∧ (∀ c ∈ t.text, NameChar (C.cl c)) ∧ kindAll none (t.text.map C.cl) = some .value
      ∧ t.text ≠ ['.']
  | _ => False

instance (t : Tok) : Decidable (TokOk C t) := by
  unfold TokOk
  cases t.kind with
  | none => simp only []; infer_instance
  | some k => cases k <;> simp only [] <;> infer_instance

theorem tok_ltOfTok (t : Tok) (h : TokOk C t) : (ltOfTok t).tok C = t ∧ (ltOfTok t).Ok C := by
  obtain ⟨text, kind, start, stop⟩ := t
  obtain ⟨h1, h2, h3⟩ := h
  simp only at h1 h2 h3
  subst h1 h2
  cases kind with
  | none => exact h3.elim
  | some k =>
    cases k with
    | context =>
      rcases h3 with h3 | h3 <;> subst h3 <;> exact ⟨rfl, trivial⟩
    | operator =>
      rcases h3 with h3 | ⟨h3, h4⟩
      · subst h3; exact ⟨rfl, trivial⟩
      · by_cases hin : text = ['i', 'n']
        · subst hin; exact ⟨rfl, trivial⟩
        · simp only [ltOfTok, hin, if_false]
          exact ⟨rfl, h3, h4⟩
    | name => exact ⟨by simp [ltOfTok, LT.tok, h3.2.2], h3.1, h3.2.1⟩
    | value => exact ⟨by simp [ltOfTok, LT.tok, h3.2.2.1], h3.1, h3.2.1⟩
    | python => exact h3.elim

theorem isOp_ltOfTok (t : Tok) (h : (ltOfTok t).isOp = true) : IsOp t := by
  unfold ltOfTok at h
  unfold IsOp
  cases hk : t.kind with
  | none => rw [hk] at h; simp [LT.isOp] at h
  | some k =>
    cases k <;> rw [hk] at h <;> first | rfl | (simp only [] at h; split at h <;> simp [LT.isOp] at h) | simp [LT.isOp] at h

theorem noAdj_of_opIso : ∀ ts : List Tok, OpIso ts → NoAdjOps (ts.map ltOfTok)
  | [], _ => trivial
  | [_], _ => trivial
  | t :: u :: r, h => by
    refine ⟨fun ht => ?_, noAdj_of_opIso (u :: r) h.2⟩
    obtain ⟨u', r', hr, hu⟩ := h.1 (isOp_ltOfTok t ht)
    injection hr with h1 h2
    subst h1
    cases hb : (ltOfTok u).isOp with
    | false => rfl
    | true => exact absurd (isOp_ltOfTok u hb) hu

/-- tokens that the sanitiser leaves alone: no Python fragment, no unquoted lone `.` -/
theorem sanitize_id (norm : List Char → Except PyErr (List Char)) : ∀ ts : List Tok,
    (∀ t ∈ ts, t.kind ≠ some .python ∧ (t.text = ['.'] → t.kind = some .name ∨ t.kind = some .operator)) →
    sanitizeTokens norm ts = .ok ts
  | [], _ => rfl
  | t :: ts, h => by
    obtain ⟨hp, hd⟩ := h t (by simp)
    have ih := sanitize_id norm ts (fun u hu => h u (by simp [hu]))
    have ht1 : (if t.text == ['.'] && t.kind != some .name then { t with kind := some .operator } else t) = t := by
      by_cases hx : t.text = ['.']
      · rcases hd hx with hk | hk
        · simp [hk]
        · simp only [hx, hk]
          obtain ⟨text, kind, start, stop⟩ := t
          simp only at hk hx
          subst hk hx
          rfl
      · simp [hx]
    simp only [sanitizeTokens, ht1]
    have hp' : (t.kind == some .python) = false := by simpa using hp
    simp only [hp', Bool.false_eq_true, if_false, ih]

/-- **parse = denotation from the string.** Let `f` be a formula of the documented grammar whose tokens
can be written (`TokOk`: atoms are plain names / numbers, operator characters are operator characters
for the given character classes), in which no two operator tokens follow each other (`OpIso`: no part
after `~` / `|` starts with a sign), that the feature flags allow and that has no literal `0`. Then the
STRING that writes the tokens of `f` one after the other, each followed by one space, parses — under
every parser configuration — to the documented denotation of `f`. -/
theorem parse_render (hsp : SpaceChar (C.cl ' ')) (cfg : ParseCfg) (env : PyEnv) (f : Formula)
    (hok : ∀ t ∈ f.toks, TokOk C t) (hiso : OpIso f.toks) (hen : f.Enabled cfg) (hz : NoZero f.toks) :
    parseTerms cfg env (render C (f.toks.map ltOfTok)) = denoteFormula cfg f := by
  have hlt : (f.toks.map ltOfTok).map (fun lt => lt.tok C) = f.toks := by
    rw [List.map_map]
    conv => rhs; rw [← List.map_id f.toks]
    apply List.map_congr_left
    intro t ht
    exact (tok_ltOfTok C t (hok t ht)).1
  obtain ⟨ts0, h1, h2⟩ := tokenize_render C hsp (f.toks.map ltOfTok)
    (fun lt hlt' => by
      obtain ⟨t, ht, rfl⟩ := List.mem_map.1 hlt'
      exact (tok_ltOfTok C t (hok t ht)).2)
    (noAdj_of_opIso _ hiso)
  rw [hlt] at h2
  -- the sanitiser leaves these tokens alone
  have hsan : sanitizeTokens env.norm ts0 = .ok ts0 := by
    apply sanitize_id
    intro t ht
    have hmem : erase t ∈ f.toks := by rw [← h2]; exact List.mem_map_of_mem ht
    have hk := hok (erase t) hmem
    obtain ⟨_, _, h3⟩ := hk
    have ek : (erase t).kind = t.kind := rfl
    have et : (erase t).text = t.text := rfl
    rw [ek, et] at h3
    cases hkind : t.kind with
    | none => rw [hkind] at h3; exact h3.elim
    | some k =>
      rw [hkind] at h3
      cases k with
      | python => exact h3.elim
      | context => exact ⟨by simp, fun hx => by rcases h3 with h | h <;> rw [h] at hx <;> cases hx⟩
      | operator => exact ⟨by simp, fun _ => Or.inr rfl⟩
      | name => exact ⟨by simp, fun _ => Or.inl rfl⟩
      | value => exact ⟨by simp, fun hx => absurd hx h3.2.2.2⟩
  exact parse_eq_denote_string cfg env _ ts0 ts0 f h1 hsan h2 hen hz

/-- … in particular for a one-sided formula with one part — any `Sum` of the documented grammar,
leading sign included: no condition on the shape is left -/
theorem parse_render_sum (hsp : SpaceChar (C.cl ' ')) (cfg : ParseCfg) (env : PyEnv) (s : Sum)
    (hok : ∀ t ∈ lin s.toE, TokOk C t) (hz : NoZero (lin s.toE)) :
    parseTerms cfg env (render C ((lin s.toE).map ltOfTok)) = denoteFormula cfg (.one s []) :=
  parse_render C hsp cfg env (.one s []) hok (opIso_lin _ (Sum.shape s)) (Or.inl rfl) hz

/-- operator tokens are isolated in `l ~ p` (one part each) as soon as `p` has no leading sign -/
theorem opIso_two (l p : Sum) (hp : lead p = none) : OpIso (Formula.two l [] p []).toks := by
  show OpIso (lin l.toE ++ opTok FormulaicVerif.Proofs.C01TopLevel.tildeSym :: lin p.toE)
  obtain ⟨u, r, hl, hu⟩ := head_signFree _ (Sum.shape p) (signFree_of_lead_none p hp)
  refine opIso_append _ _ (opIso_lin _ (Sum.shape l)) ?_
  have := opIso_lin _ (Sum.shape p)
  rw [hl] at this ⊢
  exact opIso_cons_op _ u r hu this

end FormulaicVerif.Proofs.C01String
