import FormulaicVerif.Proofs.C01Forms
import FormulaicVerif.Proofs.C01Denote
/-! # C01 — string form vs keyword form, for the documented grammar

`Formula("l ~ r")` and `Formula(lhs="l", rhs="1 + r")` (strings of the keyword form are parsed by the
nested parser, which adds no intercept: the `1 +` is written out) are the same formula, for all `Sum`s
`l`, `r` of the documented grammar: the hypotheses of `C01Forms.forms_twosided` are discharged by
`parse_eq_denote_tokens`. Formula strings are token sequences here (`σ = List Tok`). -/
namespace FormulaicVerif.Proofs.C01FormsGrammar
open FormulaicVerif FormulaicVerif.Model FormulaicVerif.Model.FromSpec
open FormulaicVerif.Proofs.C01Grammar FormulaicVerif.Proofs.ShuntC FormulaicVerif.Proofs.C01TopLevel
open FormulaicVerif.Proofs.C01Denote FormulaicVerif.Proofs.C01Forms FormulaicVerif.Spec.Denote

/-- the parser on token sequences (`get_terms` after `sanitize_tokens`) -/
def tokEnv (env : PyEnv) : Env (List Tok) := { parse := fun cfg ts => parseToks cfg env ts }

theorem defaultParser_eq : defaultParser = { includeIntercept := true, twosided := true, multipart := true, multistage := false } := rfl
theorem defaultNested_eq : defaultNested = { includeIntercept := false, twosided := true, multipart := true, multistage := false } := rfl

theorem noZero_withOne (p : Sum) (h : NoZero (lin p.toE)) : NoZero (lin (withOne p).toE) := by
  rw [lin_withOne]
  intro t ht
  simp only [List.mem_cons, List.mem_append] at ht
  rcases ht with rfl | ht | ht
  · decide
  · cases hl : lead p with
    | none =>
      rw [hl] at ht
      simp only [List.mem_singleton] at ht
      subst ht; decide
    | some sg => rw [hl] at ht; cases ht
  · exact h t ht

theorem validate_root_of (L R : List Term)
    (h : validate (.ok (.struct [("lhs", .set L), ("rhs", .set R)])) = .ok (.struct [("lhs", .set L), ("rhs", .set R)])) :
    validate (.ok (.struct [("root", .set L)])) = .ok (.struct [("root", .set L)])
    ∧ validate (.ok (.struct [("root", .set R)])) = .ok (.struct [("root", .set R)]) := by
  simp only [validate, checkVal, checkVal.checkFields] at h ⊢
  cases hL : checkTerms L with
  | error e => rw [hL] at h; cases h
  | ok _ =>
    cases hR : checkTerms R with
    | error e => rw [hL, hR] at h; cases h
    | ok _ => exact ⟨rfl, rfl⟩

/-- **string form = keyword form.** For all `Sum`s `l`, `p` without a literal `0`: if the two-sided
formula `l ~ p` is valid (its documented denotation under the default parser is defined), then
`Formula.from_spec("l ~ p")`, `Formula(lhs="l", rhs="1 + p")`, the corresponding `dict` and
`Structured` specifications all give the same `StructuredFormula`, under every ordering. -/
theorem string_eq_keywords (env : PyEnv) (o : FromSpec.Ordering) (l p : Sum)
    (hzl : NoZero (lin l.toE)) (hzp : NoZero (lin p.toE)) (v : Val)
    (hd : denoteFormula defaultParser (.two l [] p []) = .ok v) :
    let s := (Formula.two l [] p []).toks
    let sl := (Formula.one l []).toks
    let sr := (Formula.one (withOne p) []).toks
    fromSpec (tokEnv env) (some o) none none (.str s)
      = formulaCall (tokEnv env) (some o) none none none [("lhs", .str sl), ("rhs", .str sr)]
    ∧ fromSpec (tokEnv env) (some o) none none (.str s)
      = fromSpec (tokEnv env) (some o) none none (.dict [("lhs", .str sl), ("rhs", .str sr)])
    ∧ fromSpec (tokEnv env) (some o) none none (.str s)
      = fromSpec (tokEnv env) (some o) none none (.structured [("lhs", .str sl), ("rhs", .str sr)])
    ∧ ∃ L R, denSum l = .ok L ∧ foldSum [intercept] p = .ok R ∧
        fromSpec (tokEnv env) (some o) none none (.str s)
          = .ok (.struct [("lhs", .set (orderTerms o L)), ("rhs", .set (orderTerms o R))]) := by
  intro s sl sr
  -- the denotation of the two-sided formula: both sides are term sets, and they validate
  have hden : ∃ L R, denSum l = .ok L ∧ foldSum [intercept] p = .ok R ∧
      v = .struct [("lhs", .set L), ("rhs", .set R)] ∧
      validate (.ok (.struct [("lhs", .set L), ("rhs", .set R)])) = .ok (.struct [("lhs", .set L), ("rhs", .set R)]) := by
    simp only [denoteFormula, denStruct, denSide, denParts, defaultParser_eq, denRhs, if_true] at hd
    cases hL : denSum l with
    | error e => rw [hL] at hd; cases hd
    | ok L =>
      cases hR : foldSum [intercept] p with
      | error e => rw [hL, hR] at hd; cases hd
      | ok R =>
        rw [hL, hR] at hd
        simp only [partsVal] at hd
        refine ⟨L, R, rfl, rfl, ?_, ?_⟩
        · simp only [validate] at hd
          cases hc : checkVal (.struct [("lhs", .set L), ("rhs", .set R)]) with
          | error e => rw [hc] at hd; cases hd
          | ok _ => rw [hc] at hd; injection hd with hd; exact hd.symm
        · simp only [validate] at hd ⊢
          cases hc : checkVal (.struct [("lhs", .set L), ("rhs", .set R)]) with
          | error e => rw [hc] at hd; cases hd
          | ok _ => rfl
  obtain ⟨L, R, hL, hR, rfl, hval⟩ := hden
  obtain ⟨hvL, hvR⟩ := validate_root_of L R hval
  have hz2 : NoZero (Formula.two l [] p []).toks := by
    intro t ht
    simp only [Formula.toks, partsToks, List.mem_append, List.mem_cons] at ht
    rcases ht with ht | rfl | ht
    · exact hzl t ht
    · decide
    · exact hzp t ht
  have hs : (tokEnv env).parse (resolveParsers none none).parser s
      = .ok (.struct [("lhs", .set L), ("rhs", .set R)]) := by
    show parseToks defaultParser env _ = _
    rw [parse_eq_denote_tokens defaultParser env (.two l [] p []) ⟨rfl, Or.inl ⟨rfl, rfl⟩⟩ hz2, hd]
  have hl : (tokEnv env).parse (resolveParsers none none).nested sl = .ok (.struct [("root", .set L)]) := by
    show parseToks defaultNested env _ = _
    rw [parse_eq_denote_tokens defaultNested env (.one l []) (Or.inl rfl) hzl]
    simp only [denoteFormula, denStruct, denSide, denParts, defaultNested_eq, denRhs, hL, partsVal, Except.map]
    exact hvL
  have hr : (tokEnv env).parse (resolveParsers none none).nested sr = .ok (.struct [("root", .set R)]) := by
    show parseToks defaultNested env _ = _
    rw [parse_eq_denote_tokens defaultNested env (.one (withOne p) []) (Or.inl rfl) (noZero_withOne p hzp)]
    simp only [denoteFormula, denStruct, denSide, denParts, defaultNested_eq, denRhs, denSum_withOne, hR, partsVal,
      Except.map]
    exact hvR
  have h := forms_twosided (tokEnv env) o none none s sl sr L R hs hl hr
  simp only at h
  obtain ⟨h1, h2, h3, _, _, h6⟩ := h
  exact ⟨h1.trans h3.symm, h1.trans h2.symm, h1.trans h6.symm, L, R, hL, hR, h1⟩

end FormulaicVerif.Proofs.C01FormsGrammar
