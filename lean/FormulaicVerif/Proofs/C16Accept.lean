import FormulaicVerif.Proofs.C16Tree
/-! Helper lemmas for C16, part 8: exactly which trees are accepted (not obligations).

`toTerms` succeeds with a scalar on a tree exactly when the tree is a scalar expression with numeric
literals, is not syntactically non-linear, and divides by no constant zero; `getMatrix` succeeds
exactly when, in addition, every name the tree mentions is a column. -/
namespace FormulaicVerif.Proofs.C16
open FormulaicVerif.Model.Constraints FormulaicVerif.Spec.Affine

theorem mem_keys {s : TermSet} {k} : k ∈ keys s ↔ ∃ t ∈ s, t.factor = k := by
  simp [keys]

theorem mem_namesOf_mentions : ∀ {n : Node} {x : String}, x ∈ namesOf n → mentionsVar n = true := by
  intro n
  induction n with
  | leaf k t => intro x h; cases k <;> simp [namesOf, mentionsVar] at h ⊢
  | un op a ih => intro x h; exact ih h
  | bin op l r ihl ihr =>
    intro x h
    simp only [namesOf, List.mem_append] at h
    simp only [mentionsVar, Bool.or_eq_true]
    exact h.imp ihl ihr

/-! ### the keys of a product / quotient -/

theorem mulTerm_allOk_key {sh : Shuffle} {l r res : TermSet} (h : mulTerms sh l r = .ok res) :
    ∀ a ∈ sh l, ∀ b ∈ sh r, a.factor = none ∨ b.factor = none := by
  unfold mulTerms at h
  have hall := accumulate_allOk _ _ _ _ h
  intro a ha b hb
  obtain ⟨t, ht⟩ := hall (a, b) (mem_pairs.mpr ⟨ha, hb⟩)
  unfold mulTerm at ht
  cases hfa : a.factor with
  | none => exact Or.inl rfl
  | some x =>
    cases hfb : b.factor with
    | none => exact Or.inr rfl
    | some y => simp only [hfa, hfb] at ht; cases ht

theorem mulTerms_keys {sh : Shuffle} (hsh : IsShuffle sh) {l r res : TermSet} (gl : Good l) (gr : Good r)
    (h : mulTerms sh l r = .ok res) (x : String) :
    some x ∈ keys res ↔ some x ∈ keys l ∨ some x ∈ keys r := by
  have key := mulTerm_allOk_key h
  have h' := h
  unfold mulTerms at h'
  have hk := accumulate_keys hsh mulTerm h'
  rw [hk]
  constructor
  · rintro ⟨⟨a, b⟩, hp, hf⟩
    obtain ⟨ha, hb⟩ := mem_pairs.mp hp
    simp only at ha hb
    cases hfa : a.factor with
    | none =>
      right
      have : (getOk mulTerm (a, b)).factor = b.factor := by simp [getOk, mulTerm, hfa]
      rw [this] at hf
      exact (keys_perm (hsh r)).mem_iff.mp (mem_keys.mpr ⟨b, hb, hf⟩)
    | some y =>
      have hbn : b.factor = none := (key a ha b hb).resolve_left (by simp [hfa])
      left
      have : (getOk mulTerm (a, b)).factor = some y := by simp [getOk, mulTerm, hfa, hbn]
      rw [this] at hf
      exact (keys_perm (hsh l)).mem_iff.mp (mem_keys.mpr ⟨a, ha, hfa.trans hf⟩)
  · rintro (hx | hx)
    · obtain ⟨a, ha, hfa⟩ := mem_keys.mp ((keys_perm (hsh l)).mem_iff.mpr hx)
      obtain ⟨b, hb⟩ := List.exists_mem_of_ne_nil _ (ne_nil_of_perm (hsh r) gr.2)
      have hbn : b.factor = none := (key a ha b hb).resolve_left (by simp [hfa])
      exact ⟨(a, b), mem_pairs.mpr ⟨ha, hb⟩, by simp [getOk, mulTerm, hfa, hbn]⟩
    · obtain ⟨b, hb, hfb⟩ := mem_keys.mp ((keys_perm (hsh r)).mem_iff.mpr hx)
      obtain ⟨a, ha⟩ := List.exists_mem_of_ne_nil _ (ne_nil_of_perm (hsh l) gl.2)
      have han : a.factor = none := (key a ha b hb).resolve_right (by simp [hfb])
      exact ⟨(a, b), mem_pairs.mpr ⟨ha, hb⟩, by simp [getOk, mulTerm, han, hfb]⟩

theorem divTerms_keys {sh : Shuffle} (hsh : IsShuffle sh) {l r res : TermSet} (gl : Good l) (gr : Good r)
    (h : divTerms sh l r = .ok res) (x : String) :
    (some x ∈ keys res ↔ some x ∈ keys l) ∧ some x ∉ keys r := by
  have nv := (divTerms_vars hsh gl gr h).1
  have h' := h
  unfold divTerms at h'
  have hall := accumulate_allOk _ _ _ _ h'
  have hk := accumulate_keys hsh divTerm h'
  obtain ⟨b0, hb0⟩ := List.exists_mem_of_ne_nil _ (ne_nil_of_perm (hsh r) gr.2)
  have fac : ∀ a ∈ sh l, ∀ b ∈ sh r, (getOk divTerm (a, b)).factor = a.factor := by
    intro a ha b hb
    obtain ⟨t, ht⟩ := hall (a, b) (mem_pairs.mpr ⟨ha, hb⟩)
    have ht' : divTerm a b = .ok t := ht
    simp only [getOk, ht']
    rw [(divTerm_ok ht').2.2]
  refine ⟨?_, fun hx => nv ((hasVar_iff_keys r).mpr ⟨x, hx⟩)⟩
  rw [hk]
  constructor
  · rintro ⟨⟨a, b⟩, hp, hf⟩
    obtain ⟨ha, hb⟩ := mem_pairs.mp hp
    simp only at ha hb
    rw [fac a ha b hb] at hf
    exact (keys_perm (hsh l)).mem_iff.mp (mem_keys.mpr ⟨a, ha, hf⟩)
  · intro hx
    obtain ⟨a, ha, hfa⟩ := mem_keys.mp ((keys_perm (hsh l)).mem_iff.mpr hx)
    exact ⟨(a, b0), mem_pairs.mpr ⟨ha, hb0⟩, by rw [fac a ha b0 hb0]; exact hfa⟩

/-- the factors of a compiled scalar are exactly the names the tree mentions (zero-scaled ones included) -/
theorem toTerms_keys {sh : Shuffle} (hsh : IsShuffle sh) :
    ∀ (n : Node) (s : TermSet), toTerms sh n = .ok (.one s) → ∀ x, some x ∈ keys s ↔ x ∈ namesOf n := by
  intro n
  induction n with
  | leaf k t =>
    intro s h x
    unfold toTerms leafTerms at h
    cases k with
    | value =>
      simp only at h
      cases hl : literalEval t with
      | error e => rw [hl] at h; cases h
      | ok q =>
        rw [hl] at h
        simp only [Except.ok.injEq, Value.one.injEq] at h
        subst h
        simp [keys, namesOf]
    | name =>
      simp only [Except.ok.injEq, Value.one.injEq] at h
      subst h
      simp [keys, namesOf, eq_comm]
    | python =>
      simp only [Except.ok.injEq, Value.one.injEq] at h
      subst h
      simp [keys, namesOf, eq_comm]
  | un op a ih =>
    intro s h x
    unfold toTerms at h
    cases ha : toTerms sh a with
    | error e => rw [ha] at h; cases h
    | ok v =>
      rw [ha] at h
      simp only [Except.ok.injEq] at h
      obtain ⟨s', rfl, hs⟩ := applyUn_one h
      have := ih s' ha x
      cases op with
      | pos => simp only at hs; subst hs; exact this
      | neg =>
        simp only at hs; subst hs
        rw [keys_negate, (keys_perm (hsh s')).mem_iff]; exact this
  | bin op l r ihl ihr =>
    intro s h x
    unfold toTerms at h
    cases hl : toTerms sh l with
    | error e => rw [hl] at h; cases h
    | ok a =>
      rw [hl] at h
      cases hr : toTerms sh r with
      | error e => rw [hr] at h; cases h
      | ok b =>
        rw [hr] at h
        simp only at h
        obtain ⟨hne, sa, sb, rfl, rfl, hs⟩ := applyBin_one h
        have ga := (toTerms_one hsh l sa hl).1
        have gb := (toTerms_one hsh r sb hr).1
        have ia := ihl sa hl x
        have ib := ihr sb hr x
        simp only [namesOf, List.mem_append]
        cases op with
        | comma => exact absurd rfl hne
        | eq =>
          simp only [applySets, Except.ok.injEq] at hs; subst hs
          rw [keys_addTerms hsh ga.1 (WF_negate hsh gb.1), keys_negate, (keys_perm (hsh sb)).mem_iff, ia, ib]
        | add =>
          simp only [applySets, Except.ok.injEq] at hs; subst hs
          rw [keys_addTerms hsh ga.1 gb.1, ia, ib]
        | sub =>
          simp only [applySets, Except.ok.injEq] at hs; subst hs
          rw [keys_subTerms hsh ga.1 gb.1, ia, ib]
        | mul =>
          simp only [applySets] at hs
          rw [mulTerms_keys hsh ga gb hs, ia, ib]
        | div =>
          simp only [applySets] at hs
          have := divTerms_keys hsh ga gb hs x
          rw [this.1, ia]
          constructor
          · exact Or.inl
          · rintro (h1 | h2)
            · exact h1
            · exact absurd (ib.mpr h2) this.2

/-! ### the scalar evaluator succeeds on every syntactically linear tree -/

theorem const_of_not_mentions {sh : Shuffle} (hsh : IsShuffle sh) {n : Node} {s : TermSet}
    (h : toTerms sh n = .ok (.one s)) (hm : mentionsVar n = false) : ∀ t ∈ s, t.factor = none := by
  intro t ht
  cases hf : t.factor with
  | none => rfl
  | some x =>
    have : x ∈ namesOf n := (toTerms_keys hsh n s h x).mp (mem_keys.mpr ⟨t, ht, hf⟩)
    rw [mem_namesOf_mentions this] at hm
    cases hm

theorem mulTerms_ok_of_const {sh : Shuffle} (hsh : IsShuffle sh) {l r : TermSet}
    (h : (∀ a ∈ l, a.factor = none) ∨ (∀ b ∈ r, b.factor = none)) : ∃ res, mulTerms sh l r = .ok res := by
  have hall : AllOk mulTerm (pairs (sh l) (sh r)) := by
    intro p hp
    obtain ⟨ha, hb⟩ := mem_pairs.mp hp
    unfold mulTerm
    cases hfa : p.1.factor with
    | none => exact ⟨_, rfl⟩
    | some x =>
      cases hfb : p.2.factor with
      | none => exact ⟨_, rfl⟩
      | some y =>
        exfalso
        rcases h with h | h
        · have := h p.1 ((hsh l).mem_iff.mp ha); rw [hfa] at this; cases this
        · have := h p.2 ((hsh r).mem_iff.mp hb); rw [hfb] at this; cases this
  obtain ⟨res, hres, _⟩ := accumulate_ok hsh mulTerm _ [] (by simp [WF, keys]) hall
  exact ⟨res, hres⟩

theorem divTerms_ok_of_const {sh : Shuffle} (hsh : IsShuffle sh) {l r : TermSet}
    (h : ∀ b ∈ r, b.factor = none ∧ b.scale ≠ 0) : ∃ res, divTerms sh l r = .ok res := by
  have hall : AllOk divTerm (pairs (sh l) (sh r)) := by
    intro p hp
    obtain ⟨_, hb⟩ := mem_pairs.mp hp
    obtain ⟨hf, hz⟩ := h p.2 ((hsh r).mem_iff.mp hb)
    unfold divTerm
    rw [hf]
    simp only [hz, if_false]
    exact ⟨_, rfl⟩
  obtain ⟨res, hres, _⟩ := accumulate_ok hsh divTerm _ [] (by simp [WF, keys]) hall
  exact ⟨res, hres⟩

/-- a set of constants only is one constant, and it is the value of the expression it denotes -/
theorem const_value {s : TermSet} {e : Expr} (g : Good s) (hd : Denotes s e) (hc : ∀ t ∈ s, t.factor = none) :
    ∃ b, s = [b] ∧ b.factor = none ∧ ∀ env, eval env e = some b.scale := by
  obtain ⟨b, rfl⟩ := all_const_singleton g.1 g.2 hc
  have hb := hc b (by simp)
  refine ⟨b, rfl, hb, fun env => ?_⟩
  rw [hd env]; simp [evalT, hb, val]

theorem toTerms_scalar_ok {sh : Shuffle} (hsh : IsShuffle sh) :
    ∀ (n : Node) (e : Expr), exprOf n = some e → nonlinear n = false → (eval env0 e).isSome = true →
      ∃ s, toTerms sh n = .ok (.one s) := by
  intro n
  induction n with
  | leaf k t =>
    intro e he _ _
    unfold toTerms leafTerms
    cases k with
    | value =>
      simp only [exprOf] at he
      cases hl : literalEval t with
      | error x => rw [hl] at he; cases he
      | ok q => exact ⟨_, rfl⟩
    | name => exact ⟨_, rfl⟩
    | python => exact ⟨_, rfl⟩
  | un op a ih =>
    intro e he hn hev
    simp only [exprOf] at he
    cases ha : exprOf a with
    | none => rw [ha] at he; cases he
    | some e' =>
      rw [ha] at he
      have hev' : (eval env0 e').isSome = true := by
        cases op <;> simp only [Option.some.injEq] at he <;> subst he
        · simpa [eval] using hev
        · cases h' : eval env0 e' with
          | none => simp [eval, h'] at hev
          | some _ => rfl
      obtain ⟨s, hs⟩ := ih e' ha (by simpa [nonlinear] using hn) hev'
      unfold toTerms
      rw [hs]
      cases op <;> exact ⟨_, rfl⟩
  | bin op l r ihl ihr =>
    intro e he hn hev
    simp only [exprOf] at he
    cases hla : exprOf l with
    | none => rw [hla] at he; cases he
    | some ea =>
      cases hra : exprOf r with
      | none => rw [hla, hra] at he; cases he
      | some eb =>
        rw [hla, hra] at he
        simp only at he
        simp only [nonlinear, Bool.or_eq_false_iff, Bool.and_eq_false_iff] at hn
        obtain ⟨⟨⟨hmul, hdiv⟩, nl⟩, nr⟩ := hn
        -- both operands have a value at 0
        have hboth : (eval env0 ea).isSome = true ∧ (eval env0 eb).isSome = true := by
          cases h1 : eval env0 ea <;> cases h2 : eval env0 eb <;> cases op <;>
            simp only [Option.some.injEq, reduceCtorEq] at he <;> subst he <;> simp [eval, h1, h2] at hev ⊢
        obtain ⟨sa, hsa⟩ := ihl ea hla nl hboth.1
        obtain ⟨sb, hsb⟩ := ihr eb hra nr hboth.2
        obtain ⟨ga, ea', hea', hda⟩ := toTerms_one hsh l sa hsa
        obtain ⟨gb, eb', heb', hdb⟩ := toTerms_one hsh r sb hsb
        rw [hla] at hea'; cases hea'
        rw [hra] at heb'; cases heb'
        unfold toTerms
        rw [hsa, hsb]
        simp only [applyBin]
        cases op with
        | comma => cases he
        | eq => exact ⟨_, rfl⟩
        | add => exact ⟨_, rfl⟩
        | sub => exact ⟨_, rfl⟩
        | mul =>
          have hc : (∀ a ∈ sa, a.factor = none) ∨ (∀ b ∈ sb, b.factor = none) := by
            have : mentionsVar l = false ∨ mentionsVar r = false := by
              cases h1 : mentionsVar l <;> cases h2 : mentionsVar r <;> simp [h1, h2] at hmul ⊢
            exact this.imp (const_of_not_mentions hsh hsa) (const_of_not_mentions hsh hsb)
          obtain ⟨res, hres⟩ := mulTerms_ok_of_const hsh hc
          simp only [applySets, hres]
          exact ⟨_, rfl⟩
        | div =>
          have hm : mentionsVar r = false := by
            cases h2 : mentionsVar r <;> simp [h2] at hdiv ⊢
          obtain ⟨b, rfl, hbf, hbv⟩ := const_value gb hdb (const_of_not_mentions hsh hsb hm)
          have hz : b.scale ≠ 0 := by
            intro hz
            simp only [Option.some.injEq] at he; subst he
            obtain ⟨w, hw⟩ := Option.isSome_iff_exists.mp hboth.1
            simp [eval, hw, hbv env0, hz] at hev
          obtain ⟨res, hres⟩ := divTerms_ok_of_const (l := sa) hsh (r := [b]) (by
            intro b' hb'; simp only [List.mem_singleton] at hb'; subst hb'; exact ⟨hbf, hz⟩)
          simp only [applySets, hres]
          exact ⟨_, rfl⟩

/-- **scalar trees**: the evaluator returns a set of scaled factors exactly on the scalar expressions
that are syntactically linear and divide by no constant zero -/
theorem toTerms_scalar_iff {sh : Shuffle} (hsh : IsShuffle sh) (n : Node) :
    (∃ s, toTerms sh n = .ok (.one s)) ↔
      ∃ e, exprOf n = some e ∧ nonlinear n = false ∧ (eval env0 e).isSome = true := by
  constructor
  · rintro ⟨s, hs⟩
    obtain ⟨_, e, he, hd⟩ := toTerms_one hsh n s hs
    refine ⟨e, he, ?_, by rw [hd env0]; rfl⟩
    cases hn : nonlinear n with
    | false => rfl
    | true =>
      exfalso
      exact toTerms_nonlinear hsh n _ hs hn (fun it hit => by simp [Value.items] at hit; exact ⟨s, hit⟩)
  · rintro ⟨e, he, hn, hev⟩
    exact toTerms_scalar_ok hsh n e he hn hev

/-! ### rows: every name must be a column -/

theorem toTerms_noncomma_one {sh : Shuffle} {n : Node} (hnc : ∀ l r, n ≠ .bin .comma l r) {v : Value}
    (h : toTerms sh n = .ok v) (c : Clean v) : ∃ s, v = .one s := by
  cases n with
  | leaf k t =>
    unfold toTerms at h
    cases hl : leafTerms k t with
    | error e => rw [hl] at h; cases h
    | ok s => rw [hl] at h; simp only [Except.ok.injEq] at h; exact ⟨s, h.symm⟩
  | un op a =>
    unfold toTerms at h
    cases ha : toTerms sh a with
    | error e => rw [ha] at h; cases h
    | ok w =>
      rw [ha] at h; simp only [Except.ok.injEq] at h; subst h
      cases w with
      | one s => cases op <;> exact ⟨_, rfl⟩
      | tup _ => obtain ⟨s, hs⟩ := c .struct (by simp [applyUn, Value.items]); cases hs
      | struct => obtain ⟨s, hs⟩ := c .struct (by simp [applyUn, Value.items]); cases hs
  | bin op l r =>
    have hop : op ≠ .comma := fun e => hnc l r (e ▸ rfl)
    unfold toTerms at h
    cases hl : toTerms sh l with
    | error e => rw [hl] at h; cases h
    | ok a =>
      rw [hl] at h
      cases hr : toTerms sh r with
      | error e => rw [hr] at h; cases h
      | ok b =>
        rw [hr] at h
        exact applyBin_noncomma_clean hop h c

theorem known_iff_names {sh : Shuffle} (hsh : IsShuffle sh) {n : Node} {s : TermSet} (names : List String)
    (h : toTerms sh n = .ok (.one s)) :
    Known names (sh s) ↔ ∀ x ∈ namesOf n, (colIndex names x).isSome = true := by
  rw [known_perm names (hsh s)]
  constructor
  · intro hk x hx
    obtain ⟨t, ht, hf⟩ := mem_keys.mp ((toTerms_keys hsh n s h x).mpr hx)
    obtain ⟨j, hj⟩ := hk t ht x hf
    rw [hj]; rfl
  · intro hn t ht e he
    have := hn e ((toTerms_keys hsh n s h e).mp (mem_keys.mpr ⟨t, ht, he⟩))
    exact Option.isSome_iff_exists.mp this

theorem rowOf_ok_iff {sh : Shuffle} (names : List String) (s : TermSet) :
    (∃ r, rowOf sh names (.set s) = .ok r) ↔ Known names (sh s) := by
  rw [← rowLoop_ok_iff names (sh s) (List.replicate names.length 0) 0]
  simp only [rowOf]
  constructor
  · rintro ⟨r, hr⟩
    cases hl : rowLoop names (sh s) (List.replicate names.length 0) 0 with
    | error e => rw [hl] at hr; cases hr
    | ok res => exact ⟨res, rfl⟩
  · rintro ⟨res, hres⟩
    rw [hres]; exact ⟨_, rfl⟩

theorem rowsOf_append_ok (sh : Shuffle) (names) : ∀ (i₁ i₂ : List Item) A₁ b₁ A₂ b₂,
    rowsOf sh names i₁ = .ok (A₁, b₁) → rowsOf sh names i₂ = .ok (A₂, b₂) →
      rowsOf sh names (i₁ ++ i₂) = .ok (A₁ ++ A₂, b₁ ++ b₂) := by
  intro i₁
  induction i₁ with
  | nil =>
    intro i₂ A₁ b₁ A₂ b₂ h1 h2
    simp only [rowsOf, Except.ok.injEq, Prod.mk.injEq] at h1
    obtain ⟨rfl, rfl⟩ := h1
    simpa using h2
  | cons it its ih =>
    intro i₂ A₁ b₁ A₂ b₂ h1 h2
    unfold rowsOf at h1
    cases hr : rowOf sh names it with
    | error e => rw [hr] at h1; cases h1
    | ok vc =>
      obtain ⟨v, c⟩ := vc
      rw [hr] at h1
      simp only at h1
      cases hrest : rowsOf sh names its with
      | error e => rw [hrest] at h1; cases h1
      | ok res =>
        obtain ⟨A', b'⟩ := res
        rw [hrest] at h1
        simp only [Except.ok.injEq, Prod.mk.injEq] at h1
        obtain ⟨rfl, rfl⟩ := h1
        simp only [List.cons_append, rowsOf, hr, ih i₂ A' b' A₂ b₂ hrest h2]

/-- `l , r` compiles exactly when both sides do, and then the rows are those of `l` followed by those of `r` -/
theorem getMatrix_comma_iff (sh : Shuffle) (names) (l r : Node) (A : List (List Rat)) (b : List Rat) :
    getMatrix sh names (.ast (.bin .comma l r)) = .ok (A, b) ↔
      ∃ A₁ b₁ A₂ b₂, getMatrix sh names (.ast l) = .ok (A₁, b₁) ∧ getMatrix sh names (.ast r) = .ok (A₂, b₂) ∧
        A = A₁ ++ A₂ ∧ b = b₁ ++ b₂ := by
  simp only [getMatrix]
  constructor
  · intro h
    unfold toTerms at h
    cases hl : toTerms sh l with
    | error e => rw [hl] at h; cases h
    | ok va =>
      rw [hl] at h
      cases hr : toTerms sh r with
      | error e => rw [hr] at h; cases h
      | ok vb =>
        rw [hr] at h
        simp only [applyBin, Value.items] at h
        obtain ⟨A₁, b₁, A₂, b₂, h1, h2, rfl, rfl⟩ := rowsOf_append sh names _ _ _ _ h
        exact ⟨A₁, b₁, A₂, b₂, h1, h2, rfl, rfl⟩
  · rintro ⟨A₁, b₁, A₂, b₂, h1, h2, rfl, rfl⟩
    unfold toTerms
    cases hl : toTerms sh l with
    | error e => rw [hl] at h1; cases h1
    | ok va =>
      rw [hl] at h1
      cases hr : toTerms sh r with
      | error e => rw [hr] at h2; cases h2
      | ok vb =>
        rw [hr] at h2
        simp only [applyBin, Value.items]
        exact rowsOf_append_ok sh names _ _ _ _ _ _ h1 h2

theorem acceptable_comma_iff (names) (l r : Node) :
    acceptable names (.bin .comma l r) ↔ acceptable names l ∧ acceptable names r := by
  unfold acceptable
  constructor
  · rintro ⟨es, hes, hn, hev, hnm⟩
    simp only [constraintsOf] at hes
    cases hl : constraintsOf l with
    | none => rw [hl] at hes; cases hes
    | some ea =>
      cases hr : constraintsOf r with
      | none => rw [hl, hr] at hes; cases hes
      | some eb =>
        rw [hl, hr] at hes
        simp only [Option.some.injEq] at hes; subst hes
        simp only [nonlinear, Bool.or_eq_false_iff] at hn
        simp only [namesOf, List.mem_append] at hnm
        exact ⟨⟨ea, rfl, hn.1.2, fun e he => hev e (List.mem_append_left _ he), fun x hx => hnm x (Or.inl hx)⟩,
          ⟨eb, rfl, hn.2, fun e he => hev e (List.mem_append_right _ he), fun x hx => hnm x (Or.inr hx)⟩⟩
  · rintro ⟨⟨ea, hea, hna, heva, hnma⟩, ⟨eb, heb, hnb, hevb, hnmb⟩⟩
    refine ⟨ea ++ eb, by simp [constraintsOf, hea, heb], by simp [nonlinear, hna, hnb], ?_, ?_⟩
    · intro e he
      rcases List.mem_append.mp he with h | h
      · exact heva e h
      · exact hevb e h
    · intro x hx
      simp only [namesOf, List.mem_append] at hx
      rcases hx with h | h
      · exact hnma x h
      · exact hnmb x h

theorem getMatrix_scalar_iff {sh : Shuffle} (hsh : IsShuffle sh) (names) {n : Node}
    (hnc : ∀ l r, n ≠ .bin .comma l r) :
    (∃ A b, getMatrix sh names (.ast n) = .ok (A, b)) ↔ acceptable names n := by
  have hco := constraintsOf_noncomma hnc
  constructor
  · rintro ⟨A, b, h⟩
    simp only [getMatrix] at h
    cases ht : toTerms sh n with
    | error e => rw [ht] at h; cases h
    | ok v =>
      rw [ht] at h
      simp only at h
      obtain ⟨s, rfl⟩ := toTerms_noncomma_one hnc ht (rowsOf_clean names _ _ _ h)
      obtain ⟨e, he, hn, hev⟩ := (toTerms_scalar_iff hsh n).mp ⟨s, ht⟩
      refine ⟨[e], by rw [hco, he]; rfl, hn, by simpa using hev, ?_⟩
      rw [← known_iff_names hsh names ht, ← rowOf_ok_iff]
      simp only [Value.items, rowsOf] at h
      cases hr : rowOf sh names (.set s) with
      | error e => rw [hr] at h; cases h
      | ok r => exact ⟨r, rfl⟩
  · rintro ⟨es, hes, hn, hev, hnm⟩
    rw [hco] at hes
    cases he : exprOf n with
    | none => rw [he] at hes; cases hes
    | some e =>
      rw [he] at hes
      simp only [Option.map_some, Option.some.injEq] at hes
      subst hes
      obtain ⟨s, hs⟩ := toTerms_scalar_ok hsh n e he hn (hev e (by simp))
      obtain ⟨⟨v, c⟩, hr⟩ := (rowOf_ok_iff (sh := sh) names s).mpr ((known_iff_names hsh names hs).mpr hnm)
      refine ⟨[v], [c], ?_⟩
      simp only [getMatrix, hs, Value.items, rowsOf, hr]

/-- **exactly which trees are accepted** -/
theorem getMatrix_ok_iff {sh : Shuffle} (hsh : IsShuffle sh) (names) :
    ∀ n : Node, (∃ A b, getMatrix sh names (.ast n) = .ok (A, b)) ↔ acceptable names n := by
  intro n
  induction n with
  | leaf k t => exact getMatrix_scalar_iff hsh names (by intros; simp)
  | un op a _ => exact getMatrix_scalar_iff hsh names (by intros; simp)
  | bin op l r ihl ihr =>
    by_cases hop : op = .comma
    · subst hop
      rw [acceptable_comma_iff, ← ihl, ← ihr]
      constructor
      · rintro ⟨A, b, h⟩
        obtain ⟨A₁, b₁, A₂, b₂, h1, h2, _, _⟩ := (getMatrix_comma_iff sh names l r A b).mp h
        exact ⟨⟨A₁, b₁, h1⟩, ⟨A₂, b₂, h2⟩⟩
      · rintro ⟨⟨A₁, b₁, h1⟩, ⟨A₂, b₂, h2⟩⟩
        exact ⟨_, _, (getMatrix_comma_iff sh names l r _ _).mpr ⟨A₁, b₁, A₂, b₂, h1, h2, rfl, rfl⟩⟩
    · exact getMatrix_scalar_iff hsh names (by intro l' r' hh; cases hh; exact hop rfl)

theorem getMatrix_parsed_ok_iff {sh : Shuffle} (hsh : IsShuffle sh) (names) (p : Parsed) :
    (∃ A b, getMatrix sh names p = .ok (A, b)) ↔ parsedAcceptable names p := by
  cases p with
  | empty => simp [getMatrix, parsedAcceptable]
  | error c => simp [getMatrix, parsedAcceptable]
  | ast n => exact getMatrix_ok_iff hsh names n

theorem dictRows_ok_iff {sh : Shuffle} (hsh : IsShuffle sh) (names parse) :
    ∀ items : List (String × Rat), (∃ A b, dictRows sh names parse items = .ok (A, b)) ↔
      ∀ kv ∈ items, parsedAcceptable names (parse kv.1) := by
  intro items
  induction items with
  | nil => simp [dictRows]
  | cons kv rest ih =>
    obtain ⟨k, c⟩ := kv
    simp only [List.mem_cons, forall_eq_or_imp]
    rw [← ih, ← getMatrix_parsed_ok_iff hsh names (parse k)]
    have step : dictRows sh names parse ((k, c) :: rest) = (match getMatrix sh names (parse k) with
        | .error e => .error e
        | .ok (A, b) => match dictRows sh names parse rest with
          | .error e => .error e
          | .ok (A', b') => .ok (A ++ A', b.map (· + c) ++ b')) := rfl
    rw [step]
    constructor
    · rintro ⟨A, b, h⟩
      cases h1 : getMatrix sh names (parse k) with
      | error e => rw [h1] at h; cases h
      | ok r1 =>
        obtain ⟨A₁, b₁⟩ := r1
        rw [h1] at h
        simp only at h
        cases h2 : dictRows sh names parse rest with
        | error e => rw [h2] at h; cases h
        | ok r2 => obtain ⟨A₂, b₂⟩ := r2; exact ⟨⟨_, _, rfl⟩, ⟨_, _, rfl⟩⟩
    · rintro ⟨⟨A₁, b₁, h1⟩, ⟨A₂, b₂, h2⟩⟩
      rw [h1]
      simp only
      rw [h2]
      exact ⟨_, _, rfl⟩

/-- **exactly which specifications are accepted**, for the three formula forms -/
theorem fromSpec_ok_iff {sh : Shuffle} (hsh : IsShuffle sh) (names parse) (spec : Spec) :
    (∃ A b, fromSpec sh names parse spec = .ok (A, b)) ↔ specAcceptable names parse spec := by
  cases spec with
  | str s => exact getMatrix_parsed_ok_iff hsh names _
  | list ss => exact getMatrix_parsed_ok_iff hsh names _
  | dict items =>
    simp only [specAcceptable, fromSpec]
    rw [← dictRows_ok_iff hsh names parse items]
    constructor
    · rintro ⟨A, b, h⟩
      cases hd : dictRows sh names parse items with
      | error e => rw [hd] at h; cases h
      | ok r =>
        obtain ⟨A', b'⟩ := r
        rw [hd] at h
        simp only at h
        by_cases he : items = []
        · simp [he] at h
        · exact ⟨he, _, _, rfl⟩
    · rintro ⟨he, A, b, hd⟩
      simp only [hd, he, if_false]
      exact ⟨_, _, rfl⟩
