import FormulaicVerif.Proofs.C16Terms
import FormulaicVerif.Spec.Affine
import Mathlib.Data.List.Forall2
/-! Helper lemmas for C16, part 2: trees, rows, specifications (not obligations). -/
namespace FormulaicVerif.Proofs.C16
open FormulaicVerif.Model.Constraints FormulaicVerif.Spec.Affine

/-! ## Part 2: trees -/

/-- the set `s` is a faithful compilation of the expression `e` -/
def Denotes (s : TermSet) (e : Expr) : Prop := ∀ env, eval env e = some (evalT env s)

theorem applyUn_one {sh op v s} (h : applyUn sh op v = .one s) :
    ∃ s', v = .one s' ∧ s = (match op with | .pos => s' | .neg => negateTerms sh s') := by
  cases v with
  | one s' => cases op <;> (simp only [applyUn, Value.one.injEq] at h; exact ⟨s', rfl, h.symm⟩)
  | tup _ => simp [applyUn] at h
  | struct => simp [applyUn] at h

theorem applyBin_one {sh op a b s} (h : applyBin sh op a b = .ok (.one s)) :
    op ≠ .comma ∧ ∃ sa sb, a = .one sa ∧ b = .one sb ∧ applySets sh op sa sb = .ok s := by
  cases op with
  | comma => simp [applyBin] at h
  | _ =>
    refine ⟨by simp, ?_⟩
    cases a <;> cases b <;> simp only [applyBin] at h <;> try (cases h; done)
    all_goals
      rename_i sa sb
      refine ⟨sa, sb, rfl, rfl, ?_⟩
      split at h
      · rename_i u hu; simp only [Except.ok.injEq, Value.one.injEq] at h; rw [hu, h]
      · cases h

theorem toTerms_one {sh : Shuffle} (hsh : IsShuffle sh) :
    ∀ (n : Node) (s : TermSet), toTerms sh n = .ok (.one s) → Good s ∧ ∃ e, exprOf n = some e ∧ Denotes s e := by
  intro n
  induction n with
  | leaf k t =>
    intro s h
    unfold toTerms leafTerms at h
    cases k with
    | value =>
      simp only at h
      cases hl : literalEval t with
      | error e => rw [hl] at h; cases h
      | ok q =>
        rw [hl] at h
        simp only [Except.ok.injEq, Value.one.injEq] at h
        subst h
        refine ⟨⟨by simp [WF, keys], by simp⟩, .lit q, by simp [exprOf, hl], ?_⟩
        intro env; simp [eval, evalT, val]
    | name =>
      simp only [Except.ok.injEq, Value.one.injEq] at h
      subst h
      refine ⟨⟨by simp [WF, keys], by simp⟩, .var t, by simp [exprOf], ?_⟩
      intro env; simp [eval, evalT, val]
    | python =>
      simp only [Except.ok.injEq, Value.one.injEq] at h
      subst h
      refine ⟨⟨by simp [WF, keys], by simp⟩, .var t, by simp [exprOf], ?_⟩
      intro env; simp [eval, evalT, val]
  | un op a ih =>
    intro s h
    unfold toTerms at h
    cases ha : toTerms sh a with
    | error e => rw [ha] at h; cases h
    | ok v =>
      rw [ha] at h
      simp only [Except.ok.injEq] at h
      obtain ⟨s', rfl, hs⟩ := applyUn_one h
      obtain ⟨g, e, he, hd⟩ := ih s' ha
      cases op with
      | pos =>
        simp only at hs; subst hs
        exact ⟨g, .pos e, by simp [exprOf, he], fun env => by simp [eval, hd env]⟩
      | neg =>
        simp only at hs; subst hs
        refine ⟨⟨WF_negate hsh g.1, negate_ne_nil hsh g.2⟩, .neg e, by simp [exprOf, he], ?_⟩
        intro env; simp [eval, hd env, evalT_negate hsh]
  | bin op l r ihl ihr =>
    intro s h
    unfold toTerms at h
    cases hl : toTerms sh l with
    | error e => rw [hl] at h; cases h
    | ok a =>
      rw [hl] at h
      cases hr : toTerms sh r with
      | error e => rw [hr] at h; cases h
      | ok b =>
        rw [hr] at h
        simp only at h
        obtain ⟨hne, sa, sb, rfl, rfl, hs⟩ := applyBin_one h
        obtain ⟨ga, ea, hea, hda⟩ := ihl sa hl
        obtain ⟨gb, eb, heb, hdb⟩ := ihr sb hr
        cases op with
        | comma => exact absurd rfl hne
        | eq =>
          simp only [applySets, Except.ok.injEq] at hs; subst hs
          have wn := WF_negate hsh gb.1
          refine ⟨⟨WF_addTerms hsh ga.1 wn, addTerms_ne_nil hsh ga.2⟩, .eqn ea eb, by simp [exprOf, hea, heb], ?_⟩
          intro env
          simp only [eval, hda env, hdb env, evalT_addTerms hsh ga.1 wn, evalT_negate hsh]
          congr 1; ring
        | add =>
          simp only [applySets, Except.ok.injEq] at hs; subst hs
          refine ⟨⟨WF_addTerms hsh ga.1 gb.1, addTerms_ne_nil hsh ga.2⟩, .add ea eb, by simp [exprOf, hea, heb], ?_⟩
          intro env
          simp only [eval, hda env, hdb env, evalT_addTerms hsh ga.1 gb.1]
        | sub =>
          simp only [applySets, Except.ok.injEq] at hs; subst hs
          refine ⟨⟨WF_subTerms hsh ga.1 gb.1, subTerms_ne_nil hsh ga.2⟩, .sub ea eb, by simp [exprOf, hea, heb], ?_⟩
          intro env
          simp only [eval, hda env, hdb env, evalT_subTerms hsh ga.1 gb.1]
        | mul =>
          simp only [applySets] at hs
          obtain ⟨g, hev⟩ := mulTerms_sound hsh ga gb hs
          refine ⟨g, .mul ea eb, by simp [exprOf, hea, heb], ?_⟩
          intro env
          simp only [eval, hda env, hdb env, hev env]
        | div =>
          simp only [applySets] at hs
          obtain ⟨g, hev⟩ := divTerms_sound hsh ga gb hs
          refine ⟨g, .div ea eb, by simp [exprOf, hea, heb], ?_⟩
          intro env
          simp only [eval, hda env, hdb env, (hev env).1, if_false, (hev env).2]

/-! ### tuples of constraints -/

def ItemOK (it : Item) (e : Expr) : Prop := ∃ s, it = .set s ∧ Good s ∧ Denotes s e

def Clean (v : Value) : Prop := ∀ it ∈ v.items, ∃ s, it = Item.set s

theorem constraintsOf_noncomma {n : Node} (h : ∀ l r, n ≠ .bin .comma l r) :
    constraintsOf n = (exprOf n).map (fun e => [e]) := by
  cases n with
  | leaf k t => rfl
  | un op a => rfl
  | bin op l r =>
    cases op with
    | comma => exact absurd rfl (h l r)
    | _ => rfl

theorem applyBin_noncomma_clean {sh op a b v} (hop : op ≠ .comma) (h : applyBin sh op a b = .ok v) (c : Clean v) :
    ∃ s, v = .one s := by
  cases op with
  | comma => exact absurd rfl hop
  | _ =>
    cases a <;> cases b <;> simp only [applyBin] at h <;> try (cases h; done)
    all_goals first
      | (split at h
         · simp only [Except.ok.injEq] at h; exact ⟨_, h.symm⟩
         · cases h)
      | (simp only [Except.ok.injEq] at h; subst h
         obtain ⟨s, hs⟩ := c .struct (by simp [Value.items]); cases hs)

theorem toTerms_clean {sh : Shuffle} (hsh : IsShuffle sh) :
    ∀ (n : Node) (v : Value), toTerms sh n = .ok v → Clean v →
      ∃ es, constraintsOf n = some es ∧ List.Forall₂ ItemOK v.items es := by
  intro n
  induction n with
  | leaf k t =>
    intro v h _
    have : ∃ s, v = .one s := by
      unfold toTerms at h
      cases hl : leafTerms k t with
      | error e => rw [hl] at h; cases h
      | ok s => rw [hl] at h; simp only [Except.ok.injEq] at h; exact ⟨s, h.symm⟩
    obtain ⟨s, rfl⟩ := this
    obtain ⟨g, e, he, hd⟩ := toTerms_one hsh _ s h
    refine ⟨[e], by rw [constraintsOf_noncomma (by intros; simp), he]; rfl, ?_⟩
    exact List.Forall₂.cons ⟨s, rfl, g, hd⟩ List.Forall₂.nil
  | un op a _ =>
    intro v h c
    have : ∃ s, v = .one s := by
      unfold toTerms at h
      cases ha : toTerms sh a with
      | error e => rw [ha] at h; cases h
      | ok w =>
        rw [ha] at h; simp only [Except.ok.injEq] at h; subst h
        cases w with
        | one s => cases op <;> exact ⟨_, rfl⟩
        | tup _ => obtain ⟨s, hs⟩ := c .struct (by simp [applyUn, Value.items]); cases hs
        | struct => obtain ⟨s, hs⟩ := c .struct (by simp [applyUn, Value.items]); cases hs
    obtain ⟨s, rfl⟩ := this
    obtain ⟨g, e, he, hd⟩ := toTerms_one hsh _ s h
    refine ⟨[e], by rw [constraintsOf_noncomma (by intros; simp), he]; rfl, ?_⟩
    exact List.Forall₂.cons ⟨s, rfl, g, hd⟩ List.Forall₂.nil
  | bin op l r ihl ihr =>
    intro v h c
    by_cases hop : op = .comma
    · subst hop
      unfold toTerms at h
      cases hl : toTerms sh l with
      | error e => rw [hl] at h; cases h
      | ok a =>
        rw [hl] at h
        cases hr : toTerms sh r with
        | error e => rw [hr] at h; cases h
        | ok b =>
          rw [hr] at h
          simp only [applyBin, Except.ok.injEq] at h
          subst h
          have ca : Clean a := fun it hit => c it (List.mem_append_left _ hit)
          have cb : Clean b := fun it hit => c it (List.mem_append_right _ hit)
          obtain ⟨ea, hea, fa⟩ := ihl a hl ca
          obtain ⟨eb, heb, fb⟩ := ihr b hr cb
          refine ⟨ea ++ eb, by simp [constraintsOf, hea, heb], ?_⟩
          exact List.rel_append fa fb
    · have : ∃ s, v = .one s := by
        unfold toTerms at h
        cases hl : toTerms sh l with
        | error e => rw [hl] at h; cases h
        | ok a =>
          rw [hl] at h
          cases hr : toTerms sh r with
          | error e => rw [hr] at h; cases h
          | ok b =>
            rw [hr] at h
            exact applyBin_noncomma_clean hop h c
      obtain ⟨s, rfl⟩ := this
      obtain ⟨g, e, he, hd⟩ := toTerms_one hsh _ s h
      refine ⟨[e], by rw [constraintsOf_noncomma (by intro l' r' hh; cases hh; exact hop rfl), he]; rfl, ?_⟩
      exact List.Forall₂.cons ⟨s, rfl, g, hd⟩ List.Forall₂.nil

/-! ## Part 3: rows -/

theorem dot_replicate_zero (n : Nat) (x : Nat → Rat) : dot (List.replicate n 0) x = 0 := by
  induction n generalizing x with
  | zero => rfl
  | succ n ih => simp [List.replicate_succ, dot, ih]

theorem dot_addScaled (c : Rat) : ∀ (v u : List Rat) (x : Nat → Rat), v.length = u.length →
    dot (addScaled v c u) x = dot v x + c * dot u x := by
  intro v
  induction v with
  | nil => intro u x h; cases u with
    | nil => simp [addScaled, dot]
    | cons _ _ => cases h
  | cons a v ih =>
    intro u x h
    cases u with
    | nil => cases h
    | cons b u =>
      have := ih u (fun j => x (j + 1)) (by simpa using h)
      simp only [addScaled, List.zipWith_cons_cons, dot] at this ⊢
      rw [this]; ring

theorem length_addScaled (c : Rat) (v u : List Rat) (h : v.length = u.length) : (addScaled v c u).length = v.length := by
  simp [addScaled, h]

theorem length_unitRow (n j : Nat) : (unitRow n j).length = n := by simp [unitRow]

theorem dot_range' (j : Nat) : ∀ (n s : Nat) (x : Nat → Rat),
    dot ((List.range' s n).map (fun i => if i = j then (1 : Rat) else 0)) x
      = if s ≤ j ∧ j < s + n then x (j - s) else 0 := by
  intro n
  induction n with
  | zero => intro s x; simp [dot]
  | succ n ih =>
    intro s x
    rw [List.range'_succ, List.map_cons]
    simp only [dot]
    rw [ih (s + 1) (fun i => x (i + 1))]
    by_cases h : s = j
    · subst h
      simp
    · simp only [h, if_false, zero_mul, zero_add]
      by_cases h2 : s + 1 ≤ j ∧ j < s + 1 + n
      · have h3 : s ≤ j ∧ j < s + (n + 1) := by omega
        rw [if_pos h2, if_pos h3]
        congr 1; omega
      · have h3 : ¬ (s ≤ j ∧ j < s + (n + 1)) := by omega
        rw [if_neg h2, if_neg h3]

theorem dot_unitRow {n j : Nat} (h : j < n) (x : Nat → Rat) : dot (unitRow n j) x = x j := by
  unfold unitRow
  rw [List.range_eq_range', dot_range']
  simp [h]

theorem colIndexFrom_bound : ∀ (names : List String) (i : Nat) (e : String) (j : Nat),
    colIndexFrom names i e = some j → i ≤ j ∧ j < i + names.length := by
  intro names
  induction names with
  | nil => intro i e j h; cases h
  | cons v vs ih =>
    intro i e j h
    unfold colIndexFrom at h
    cases hr : colIndexFrom vs (i + 1) e with
    | some j' =>
      rw [hr] at h; simp only [Option.some.injEq] at h; subst h
      have := ih _ _ _ hr
      simp only [List.length_cons]; omega
    | none =>
      rw [hr] at h
      simp only at h
      split at h
      · simp only [Option.some.injEq] at h; subst h; simp
      · cases h

theorem colIndex_lt {names : List String} {e : String} {j : Nat} (h : colIndex names e = some j) :
    j < names.length := by
  have := colIndexFrom_bound names 0 e j h; omega

theorem rowLoop_sound (names : List String) : ∀ (ts : TermSet) (v : List Rat) (c : Rat) (v' : List Rat) (c' : Rat),
    v.length = names.length → rowLoop names ts v c = .ok (v', c') →
    v'.length = names.length ∧ ∀ x, dot v' x + c' = dot v x + c + evalT (colValue names x) ts := by
  intro ts
  induction ts with
  | nil =>
    intro v c v' c' hv h
    simp only [rowLoop, Except.ok.injEq, Prod.mk.injEq] at h
    obtain ⟨rfl, rfl⟩ := h
    exact ⟨hv, fun x => by simp [evalT]⟩
  | cons t ts ih =>
    intro v c v' c' hv h
    unfold rowLoop at h
    cases hf : t.factor with
    | none =>
      rw [hf] at h
      obtain ⟨hl, hx⟩ := ih _ _ _ _ hv h
      refine ⟨hl, fun x => ?_⟩
      rw [hx x]; simp only [evalT, hf, val]; ring
    | some e =>
      rw [hf] at h
      simp only at h
      cases hc : colIndex names e with
      | none => rw [hc] at h; cases h
      | some j =>
        rw [hc] at h
        simp only at h
        have hj := colIndex_lt hc
        have hlen : v.length = (unitRow names.length j).length := by rw [length_unitRow, hv]
        obtain ⟨hl, hx⟩ := ih _ _ _ _ (by rw [length_addScaled _ _ _ hlen, hv]) h
        refine ⟨hl, fun x => ?_⟩
        rw [hx x, dot_addScaled _ _ _ _ hlen, dot_unitRow hj]
        simp only [evalT, hf, val, colValue, hc]; ring

/-- the row `(v, c)` expresses the expression `e` (read as `e = 0`) -/
def RowOK (names : List String) (v : List Rat) (c : Rat) (e : Expr) : Prop :=
  v.length = names.length ∧ ∀ x, eval (colValue names x) e = some (dot v x - c)

theorem rowOf_sound {sh : Shuffle} (hsh : IsShuffle sh) (names) {it : Item} {e : Expr} (hok : ItemOK it e)
    {v c} (h : rowOf sh names it = .ok (v, c)) : RowOK names v c e := by
  obtain ⟨s, rfl, _, hd⟩ := hok
  simp only [rowOf] at h
  cases hr : rowLoop names (sh s) (List.replicate names.length 0) 0 with
  | error e => rw [hr] at h; cases h
  | ok res =>
    obtain ⟨v0, c0⟩ := res
    rw [hr] at h
    simp only [Except.ok.injEq, Prod.mk.injEq] at h
    obtain ⟨rfl, rfl⟩ := h
    obtain ⟨hl, hx⟩ := rowLoop_sound names _ _ _ _ _ (by simp) hr
    refine ⟨hl, fun x => ?_⟩
    rw [hd]
    have := hx x
    rw [dot_replicate_zero, evalT_perm _ (hsh s)] at this
    congr 1; linarith

/-- rows, constants and written constraints correspond one to one, in order -/
inductive Rows {γ : Type} (R : List Rat → Rat → γ → Prop) : List (List Rat) → List Rat → List γ → Prop
  | nil : Rows R [] [] []
  | cons {v c e A b es} : R v c e → Rows R A b es → Rows R (v :: A) (c :: b) (e :: es)

theorem Rows.append {γ} {R : List Rat → Rat → γ → Prop} {A b es A' b' es'}
    (h : Rows R A b es) (h' : Rows R A' b' es') : Rows R (A ++ A') (b ++ b') (es ++ es') := by
  induction h with
  | nil => exact h'
  | cons r _ ih => exact Rows.cons r ih

theorem Rows.imp {γ δ} {R : List Rat → Rat → γ → Prop} {S : List Rat → Rat → δ → Prop} (f : γ → δ) (g : Rat → Rat)
    (hRS : ∀ v c e, R v c e → S v (g c) (f e)) {A b es} (h : Rows R A b es) : Rows S A (b.map g) (es.map f) := by
  induction h with
  | nil => exact Rows.nil
  | cons r _ ih => exact Rows.cons (hRS _ _ _ r) ih

theorem Rows.lengths {γ} {R : List Rat → Rat → γ → Prop} {A b es} (h : Rows R A b es) :
    A.length = es.length ∧ b.length = es.length := by
  induction h with
  | nil => simp
  | cons _ _ ih => simp [ih.1, ih.2]

theorem Rows.get {γ} {R : List Rat → Rat → γ → Prop} {A b es} (h : Rows R A b es) :
    ∀ (i : Nat) (hA : i < A.length) (hb : i < b.length) (he : i < es.length), R A[i] b[i] es[i] := by
  induction h with
  | nil => intro i hA; cases hA
  | cons r _ ih =>
    intro i hA hb he
    cases i with
    | zero => exact r
    | succ i => exact ih i (by simpa using hA) (by simpa using hb) (by simpa using he)

theorem rowsOf_sound {sh : Shuffle} (hsh : IsShuffle sh) (names) :
    ∀ (items : List Item) (es : List Expr), List.Forall₂ ItemOK items es →
      ∀ A b, rowsOf sh names items = .ok (A, b) → Rows (RowOK names) A b es := by
  intro items es hf
  induction hf with
  | nil => intro A b h; simp only [rowsOf, Except.ok.injEq, Prod.mk.injEq] at h; obtain ⟨rfl, rfl⟩ := h; exact Rows.nil
  | cons hok _ ih =>
    intro A b h
    unfold rowsOf at h
    split at h
    · cases h
    · rename_i v c hrow
      split at h
      · cases h
      · rename_i A' b' hrest
        simp only [Except.ok.injEq, Prod.mk.injEq] at h
        obtain ⟨rfl, rfl⟩ := h
        exact Rows.cons (rowOf_sound hsh names hok hrow) (ih _ _ hrest)

theorem rowsOf_clean {sh : Shuffle} (names) : ∀ (items : List Item) A b, rowsOf sh names items = .ok (A, b) →
    ∀ it ∈ items, ∃ s, it = Item.set s := by
  intro items
  induction items with
  | nil => intro _ _ _ it hit; cases hit
  | cons i items ih =>
    intro A b h it hit
    unfold rowsOf at h
    split at h
    · cases h
    · rename_i v c hrow
      split at h
      · cases h
      · rename_i A' b' hrest
        rcases List.mem_cons.mp hit with e | e
        · subst e
          cases it with
          | set s => exact ⟨s, rfl⟩
          | struct => simp [rowOf] at hrow
        · exact ih _ _ hrest it e

theorem getMatrix_sound {sh : Shuffle} (hsh : IsShuffle sh) (names) (p : Parsed) {A b}
    (h : getMatrix sh names p = .ok (A, b)) : ∃ es, writtenIn p = some es ∧ Rows (RowOK names) A b es := by
  cases p with
  | error c => cases h
  | empty =>
    simp only [getMatrix, Except.ok.injEq, Prod.mk.injEq] at h
    obtain ⟨rfl, rfl⟩ := h
    exact ⟨[], rfl, Rows.nil⟩
  | ast n =>
    simp only [getMatrix] at h
    cases ht : toTerms sh n with
    | error e => rw [ht] at h; cases h
    | ok v =>
      rw [ht] at h
      simp only at h
      obtain ⟨es, hes, hf⟩ := toTerms_clean hsh n v ht (rowsOf_clean names _ _ _ h)
      exact ⟨es, hes, rowsOf_sound hsh names _ _ hf _ _ h⟩

/-! ## Part 4: specifications -/

/-- the row `(v, c)` expresses `e = off` -/
def RowOKoff (names : List String) (v : List Rat) (c : Rat) (eo : Expr × Rat) : Prop :=
  v.length = names.length ∧ ∀ x, ∃ w, eval (colValue names x) eo.1 = some w ∧ dot v x - c = w - eo.2

theorem rowOK_off0 (names) : ∀ v c e, RowOK names v c e → RowOKoff names v (id c) ((fun e => (e, (0 : Rat))) e) := by
  intro v c e ⟨hl, hx⟩
  exact ⟨hl, fun x => ⟨_, hx x, by simp⟩⟩

theorem rowOK_off (names) (k : Rat) : ∀ v c e, RowOK names v c e → RowOKoff names v ((· + k) c) ((fun e => (e, k)) e) := by
  intro v c e ⟨hl, hx⟩
  exact ⟨hl, fun x => ⟨_, hx x, by simp only; ring⟩⟩

theorem dictRows_sound {sh : Shuffle} (hsh : IsShuffle sh) (names parse) :
    ∀ (items : List (String × Rat)) A b, dictRows sh names parse items = .ok (A, b) →
      ∃ cs, writtenDict parse items = some cs ∧ Rows (RowOKoff names) A b cs := by
  intro items
  induction items with
  | nil =>
    intro A b h
    simp only [dictRows, Except.ok.injEq, Prod.mk.injEq] at h
    obtain ⟨rfl, rfl⟩ := h
    exact ⟨[], rfl, Rows.nil⟩
  | cons kv rest ih =>
    intro A b h
    obtain ⟨k, c⟩ := kv
    unfold dictRows at h
    split at h
    · cases h
    · rename_i A1 b1 h1
      split at h
      · cases h
      · rename_i A2 b2 h2
        simp only [Except.ok.injEq, Prod.mk.injEq] at h
        obtain ⟨rfl, rfl⟩ := h
        obtain ⟨es, hes, hr⟩ := getMatrix_sound hsh names _ h1
        obtain ⟨cs, hcs, hr2⟩ := ih _ _ h2
        refine ⟨es.map (fun e => (e, c)) ++ cs, by simp [writtenDict, hes, hcs], ?_⟩
        exact (Rows.imp _ _ (rowOK_off names c) hr).append hr2

theorem fromSpec_sound {sh : Shuffle} (hsh : IsShuffle sh) (names parse) (spec : Spec) {A b}
    (h : fromSpec sh names parse spec = .ok (A, b)) :
    ∃ cs, written parse spec = some cs ∧ Rows (RowOKoff names) A b cs := by
  cases spec with
  | str s =>
    obtain ⟨es, hes, hr⟩ := getMatrix_sound hsh names _ h
    refine ⟨es.map (fun e => (e, 0)), by simp [written, hes], ?_⟩
    have := Rows.imp _ _ (rowOK_off0 names) hr
    simpa using this
  | list ss =>
    obtain ⟨es, hes, hr⟩ := getMatrix_sound hsh names _ h
    refine ⟨es.map (fun e => (e, 0)), by simp [written, hes], ?_⟩
    have := Rows.imp _ _ (rowOK_off0 names) hr
    simpa using this
  | dict items =>
    simp only [fromSpec] at h
    split at h
    · cases h
    · rename_i A' b' hd
      split at h
      · cases h
      · simp only [Except.ok.injEq, Prod.mk.injEq] at h
        obtain ⟨rfl, rfl⟩ := h
        exact dictRows_sound hsh names parse items _ _ hd

theorem eval_lhs_rhs {env} {e : Expr} {w : Rat} (h : eval env e = some w) :
    ∃ vl vr, eval env e.lhs = some vl ∧ eval env e.rhs = some vr ∧ w = vl - vr := by
  cases e with
  | eqn l r =>
    simp only [eval] at h
    cases hl : eval env l with
    | none => rw [hl] at h; cases h
    | some a =>
      cases hr : eval env r with
      | none => rw [hl, hr] at h; cases h
      | some b =>
        rw [hl, hr] at h
        simp only [Option.some.injEq] at h
        exact ⟨a, b, hl, hr, h.symm⟩
  | _ => exact ⟨w, 0, h, rfl, by simp⟩

theorem rowExpresses_of_off (names) {v c eo} (h : RowOKoff names v c eo) : RowExpresses names (v, c) eo := by
  refine ⟨h.1, fun x => ?_⟩
  obtain ⟨w, hw, hd⟩ := h.2 x
  obtain ⟨vl, vr, h1, h2, rfl⟩ := eval_lhs_rhs hw
  exact ⟨vl, vr, h1, h2, hd⟩

/-! ## Part 5: independence of the set iteration order -/

def IRel : Item → Item → Prop
  | .set a, .set b => a.Perm b
  | .struct, .struct => True
  | _, _ => False

def VRel : Value → Value → Prop
  | .one a, .one b => a.Perm b
  | .tup i, .tup j => List.Forall₂ IRel i j
  | .struct, .struct => True
  | _, _ => False

def TRel (x y : Except Err Value) : Prop :=
  (∃ e₁ e₂, x = .error e₁ ∧ y = .error e₂) ∨ (∃ a b, x = .ok a ∧ y = .ok b ∧ VRel a b)

theorem VRel.items {a b : Value} (h : VRel a b) : List.Forall₂ IRel a.items b.items := by
  cases a <;> cases b <;> simp only [VRel] at h <;> try (exact h.elim)
  · exact List.Forall₂.cons h List.Forall₂.nil
  · exact h
  · exact List.Forall₂.cons trivial List.Forall₂.nil

theorem applyUn_rel {sh₁ sh₂ : Shuffle} (h₁ : IsShuffle sh₁) (h₂ : IsShuffle sh₂) (op : Op1) {a b : Value}
    (h : VRel a b) : VRel (applyUn sh₁ op a) (applyUn sh₂ op b) := by
  cases a <;> cases b <;> simp only [VRel] at h <;> try (exact h.elim)
  · cases op
    · exact h
    · exact negateTerms_congr h₁ h₂ h
  · trivial
  · trivial

theorem applySets_rel {sh₁ sh₂ : Shuffle} (h₁ : IsShuffle sh₁) (h₂ : IsShuffle sh₂) (op : Op2)
    {a₁ a₂ b₁ b₂ : TermSet} (wa : WF a₁) (wb : WF b₁) (pa : a₁.Perm a₂) (pb : b₁.Perm b₂) :
    ERel (applySets sh₁ op a₁ b₁) (applySets sh₂ op a₂ b₂) := by
  cases op with
  | comma => exact Or.inr ⟨_, _, rfl, rfl, pa⟩
  | eq =>
    exact Or.inr ⟨_, _, rfl, rfl,
      addTerms_congr h₁ h₂ wa (WF_negate h₁ wb) pa (negateTerms_congr h₁ h₂ pb)⟩
  | add => exact Or.inr ⟨_, _, rfl, rfl, addTerms_congr h₁ h₂ wa wb pa pb⟩
  | sub => exact Or.inr ⟨_, _, rfl, rfl, subTerms_congr h₁ h₂ wa wb pa pb⟩
  | mul => exact mulTerms_congr h₁ h₂ pa pb
  | div => exact divTerms_congr h₁ h₂ pa pb

theorem applyBin_rel {sh₁ sh₂ : Shuffle} (h₁ : IsShuffle sh₁) (h₂ : IsShuffle sh₂) (op : Op2)
    {a₁ a₂ b₁ b₂ : Value} (ha : VRel a₁ a₂) (hb : VRel b₁ b₂)
    (wa : ∀ s, a₁ = .one s → WF s) (wb : ∀ s, b₁ = .one s → WF s) :
    TRel (applyBin sh₁ op a₁ b₁) (applyBin sh₂ op a₂ b₂) := by
  by_cases hop : op = .comma
  · subst hop
    exact Or.inr ⟨_, _, rfl, rfl, List.rel_append ha.items hb.items⟩
  · cases a₁ <;> cases a₂ <;> simp only [VRel] at ha <;> try (exact ha.elim)
    all_goals (cases b₁ <;> cases b₂ <;> simp only [VRel] at hb <;> try (exact hb.elim))
    · -- one, one
      rename_i s₁ s₂ t₁ t₂
      have hrel := applySets_rel h₁ h₂ op (wa _ rfl) (wb _ rfl) ha hb
      cases op with
      | comma => exact absurd rfl hop
      | _ =>
        simp only [applyBin]
        rcases hrel with ⟨e₁, e₂, x, y⟩ | ⟨a, b, x, y, p⟩
        · rw [x, y]; exact Or.inl ⟨_, _, rfl, rfl⟩
        · rw [x, y]; exact Or.inr ⟨_, _, rfl, rfl, p⟩
    all_goals (cases op <;> first
      | exact absurd rfl hop
      | exact Or.inl ⟨_, _, rfl, rfl⟩
      | exact Or.inr ⟨_, _, rfl, rfl, trivial⟩)

theorem toTerms_rel {sh₁ sh₂ : Shuffle} (h₁ : IsShuffle sh₁) (h₂ : IsShuffle sh₂) :
    ∀ n : Node, TRel (toTerms sh₁ n) (toTerms sh₂ n) := by
  intro n
  induction n with
  | leaf k t =>
    unfold toTerms
    cases leafTerms k t with
    | error e => exact Or.inl ⟨e, e, rfl, rfl⟩
    | ok s => exact Or.inr ⟨_, _, rfl, rfl, List.Perm.refl s⟩
  | un op a ih =>
    unfold toTerms
    rcases ih with ⟨e₁, e₂, x, y⟩ | ⟨a₁, a₂, x, y, r⟩
    · rw [x, y]; exact Or.inl ⟨e₁, e₂, rfl, rfl⟩
    · rw [x, y]; exact Or.inr ⟨_, _, rfl, rfl, applyUn_rel h₁ h₂ op r⟩
  | bin op l r ihl ihr =>
    unfold toTerms
    rcases ihl with ⟨e₁, e₂, x, y⟩ | ⟨a₁, a₂, xl, yl, rl⟩
    · rw [x, y]; exact Or.inl ⟨e₁, e₂, rfl, rfl⟩
    · rw [xl, yl]
      rcases ihr with ⟨e₁, e₂, x, y⟩ | ⟨b₁, b₂, xr, yr, rr⟩
      · rw [x, y]; exact Or.inl ⟨e₁, e₂, rfl, rfl⟩
      · rw [xr, yr]
        exact applyBin_rel h₁ h₂ op rl rr
          (fun s e => (toTerms_one h₁ l s (e ▸ xl)).1.1) (fun s e => (toTerms_one h₁ r s (e ▸ xr)).1.1)

/-! ### rows -/

def unitVec (j : Nat) : Nat → Rat := fun i => if i = j then 1 else 0

theorem dot_zero (v : List Rat) : dot v (fun _ => 0) = 0 := by
  induction v with
  | nil => rfl
  | cons a r ih => simp [dot, ih]

theorem dot_unitVec : ∀ (v : List Rat) (j : Nat) (h : j < v.length), dot v (unitVec j) = v[j] := by
  intro v
  induction v with
  | nil => intro j h; cases h
  | cons a r ih =>
    intro j h
    cases j with
    | zero =>
      have : (fun i => unitVec 0 (i + 1)) = fun _ => (0 : Rat) := by funext i; simp [unitVec]
      simp only [dot, this, dot_zero]; simp [unitVec]
    | succ j =>
      have : (fun i => unitVec (j + 1) (i + 1)) = unitVec j := by funext i; simp [unitVec]
      simp only [dot, this, ih j (by simpa using h)]; simp [unitVec]

/-- agreement at `0` and the unit vectors determines an affine map -/
theorem npoint {v₁ v₂ : List Rat} {c₁ c₂ : Rat} (hl : v₁.length = v₂.length)
    (h0 : dot v₁ (fun _ => 0) - c₁ = dot v₂ (fun _ => 0) - c₂)
    (hj : ∀ j, j < v₁.length → dot v₁ (unitVec j) - c₁ = dot v₂ (unitVec j) - c₂) :
    v₁ = v₂ ∧ c₁ = c₂ := by
  rw [dot_zero, dot_zero] at h0
  have hc : c₁ = c₂ := by linarith
  refine ⟨?_, hc⟩
  apply List.ext_getElem hl
  intro j h1 h2
  have := hj j h1
  rw [dot_unitVec _ _ h1, dot_unitVec _ _ h2, hc] at this
  linarith

def Known (names : List String) (ts : TermSet) : Prop :=
  ∀ t ∈ ts, ∀ e, t.factor = some e → ∃ j, colIndex names e = some j

theorem rowLoop_ok_iff (names) : ∀ (ts : TermSet) (v : List Rat) (c : Rat),
    (∃ res, rowLoop names ts v c = .ok res) ↔ Known names ts := by
  intro ts
  induction ts with
  | nil => intro v c; simp [rowLoop, Known]
  | cons t ts ih =>
    intro v c
    unfold rowLoop
    cases hf : t.factor with
    | none =>
      simp only
      rw [ih]
      constructor
      · intro h u hu e he
        rcases List.mem_cons.mp hu with rfl | hu
        · rw [hf] at he; cases he
        · exact h u hu e he
      · intro h u hu e he; exact h u (by simp [hu]) e he
    | some e =>
      simp only
      cases hc : colIndex names e with
      | none =>
        simp only
        constructor
        · rintro ⟨_, h⟩; cases h
        · intro h
          obtain ⟨j, hj⟩ := h t (by simp) e hf
          rw [hc] at hj; cases hj
      | some j =>
        simp only
        rw [ih]
        constructor
        · intro h u hu e' he
          rcases List.mem_cons.mp hu with rfl | hu
          · rw [hf] at he; cases he; exact ⟨j, hc⟩
          · exact h u hu e' he
        · intro h u hu e' he; exact h u (by simp [hu]) e' he

theorem known_perm (names) {a b : TermSet} (p : a.Perm b) : Known names a ↔ Known names b := by
  unfold Known
  constructor
  · intro h t ht; exact h t (p.mem_iff.mpr ht)
  · intro h t ht; exact h t (p.mem_iff.mp ht)

/-- two runs: both fail, or both succeed with the same result -/
def ORel {α : Type} (x y : Except Err α) : Prop :=
  (∃ e₁ e₂, x = .error e₁ ∧ y = .error e₂) ∨ (∃ r, x = .ok r ∧ y = .ok r)

theorem ORel.toOption {α} {x y : Except Err α} (h : ORel x y) : x.toOption = y.toOption := by
  rcases h with ⟨e₁, e₂, rfl, rfl⟩ | ⟨r, rfl, rfl⟩ <;> rfl

theorem rowLoop_rel (names) {t₁ t₂ : TermSet} (p : t₁.Perm t₂) :
    ORel (rowLoop names t₁ (List.replicate names.length 0) 0) (rowLoop names t₂ (List.replicate names.length 0) 0) := by
  cases h1 : rowLoop names t₁ (List.replicate names.length 0) 0 with
  | error e₁ =>
    cases h2 : rowLoop names t₂ (List.replicate names.length 0) 0 with
    | error e₂ => exact Or.inl ⟨e₁, e₂, rfl, rfl⟩
    | ok r =>
      have : ∃ res, rowLoop names t₁ (List.replicate names.length 0) 0 = .ok res :=
        (rowLoop_ok_iff names t₁ _ _).mpr ((known_perm names p).mpr ((rowLoop_ok_iff names t₂ _ _).mp ⟨r, h2⟩))
      obtain ⟨r', hr'⟩ := this
      rw [h1] at hr'; cases hr'
  | ok r₁ =>
    cases h2 : rowLoop names t₂ (List.replicate names.length 0) 0 with
    | error e₂ =>
      have : ∃ res, rowLoop names t₂ (List.replicate names.length 0) 0 = .ok res :=
        (rowLoop_ok_iff names t₂ _ _).mpr ((known_perm names p).mp ((rowLoop_ok_iff names t₁ _ _).mp ⟨r₁, h1⟩))
      obtain ⟨r', hr'⟩ := this
      rw [h2] at hr'; cases hr'
    | ok r₂ =>
      obtain ⟨v₁, c₁⟩ := r₁
      obtain ⟨v₂, c₂⟩ := r₂
      obtain ⟨l1, x1⟩ := rowLoop_sound names _ _ _ _ _ (by simp) h1
      obtain ⟨l2, x2⟩ := rowLoop_sound names _ _ _ _ _ (by simp) h2
      have key : ∀ x, dot v₁ x - (-c₁) = dot v₂ x - (-c₂) := by
        intro x
        have a := x1 x
        have b := x2 x
        rw [evalT_perm _ p] at a
        linarith
      obtain ⟨rfl, hc⟩ := npoint (l1.trans l2.symm) (key _) (fun j _ => key _)
      have : c₁ = c₂ := by linarith
      subst this
      exact Or.inr ⟨_, rfl, rfl⟩

theorem rowOf_rel {sh₁ sh₂ : Shuffle} (h₁ : IsShuffle sh₁) (h₂ : IsShuffle sh₂) (names) {i₁ i₂ : Item}
    (h : IRel i₁ i₂) : ORel (rowOf sh₁ names i₁) (rowOf sh₂ names i₂) := by
  cases i₁ <;> cases i₂ <;> simp only [IRel] at h <;> try (exact h.elim)
  · rename_i s₁ s₂
    have p : (sh₁ s₁).Perm (sh₂ s₂) := ((h₁ s₁).trans h).trans (h₂ s₂).symm
    simp only [rowOf]
    rcases rowLoop_rel names p with ⟨e₁, e₂, x, y⟩ | ⟨r, x, y⟩
    · rw [x, y]; exact Or.inl ⟨e₁, e₂, rfl, rfl⟩
    · rw [x, y]; obtain ⟨v, c⟩ := r; exact Or.inr ⟨_, rfl, rfl⟩
  · exact Or.inl ⟨_, _, rfl, rfl⟩

theorem rowsOf_rel {sh₁ sh₂ : Shuffle} (h₁ : IsShuffle sh₁) (h₂ : IsShuffle sh₂) (names) {i₁ i₂ : List Item}
    (h : List.Forall₂ IRel i₁ i₂) : ORel (rowsOf sh₁ names i₁) (rowsOf sh₂ names i₂) := by
  induction h with
  | nil => exact Or.inr ⟨_, rfl, rfl⟩
  | cons hi _ ih =>
    unfold rowsOf
    rcases rowOf_rel h₁ h₂ names hi with ⟨e₁, e₂, x, y⟩ | ⟨r, x, y⟩
    · rw [x, y]; exact Or.inl ⟨e₁, e₂, rfl, rfl⟩
    · rw [x, y]
      obtain ⟨v, c⟩ := r
      rcases ih with ⟨e₁, e₂, x', y'⟩ | ⟨r', x', y'⟩
      · rw [x', y']; exact Or.inl ⟨e₁, e₂, rfl, rfl⟩
      · rw [x', y']; obtain ⟨A, b⟩ := r'; exact Or.inr ⟨_, rfl, rfl⟩

theorem getMatrix_rel {sh₁ sh₂ : Shuffle} (h₁ : IsShuffle sh₁) (h₂ : IsShuffle sh₂) (names) (p : Parsed) :
    ORel (getMatrix sh₁ names p) (getMatrix sh₂ names p) := by
  cases p with
  | error c => exact Or.inl ⟨_, _, rfl, rfl⟩
  | empty => exact Or.inr ⟨_, rfl, rfl⟩
  | ast n =>
    simp only [getMatrix]
    rcases toTerms_rel h₁ h₂ n with ⟨e₁, e₂, x, y⟩ | ⟨a, b, x, y, r⟩
    · rw [x, y]; exact Or.inl ⟨e₁, e₂, rfl, rfl⟩
    · rw [x, y]; exact rowsOf_rel h₁ h₂ names r.items

theorem dictRows_rel {sh₁ sh₂ : Shuffle} (h₁ : IsShuffle sh₁) (h₂ : IsShuffle sh₂) (names parse) :
    ∀ items, ORel (dictRows sh₁ names parse items) (dictRows sh₂ names parse items) := by
  intro items
  induction items with
  | nil => exact Or.inr ⟨_, rfl, rfl⟩
  | cons kv rest ih =>
    obtain ⟨k, c⟩ := kv
    unfold dictRows
    rcases getMatrix_rel h₁ h₂ names (parse k) with ⟨e₁, e₂, x, y⟩ | ⟨r, x, y⟩
    · rw [x, y]; exact Or.inl ⟨e₁, e₂, rfl, rfl⟩
    · rw [x, y]
      obtain ⟨A, b⟩ := r
      rcases ih with ⟨e₁, e₂, x', y'⟩ | ⟨r', x', y'⟩
      · rw [x', y']; exact Or.inl ⟨e₁, e₂, rfl, rfl⟩
      · rw [x', y']; obtain ⟨A', b'⟩ := r'; exact Or.inr ⟨_, rfl, rfl⟩

theorem fromSpec_rel {sh₁ sh₂ : Shuffle} (h₁ : IsShuffle sh₁) (h₂ : IsShuffle sh₂) (names parse) (spec : Spec) :
    ORel (fromSpec sh₁ names parse spec) (fromSpec sh₂ names parse spec) := by
  cases spec with
  | str s => exact getMatrix_rel h₁ h₂ names _
  | list ss => exact getMatrix_rel h₁ h₂ names _
  | dict items =>
    simp only [fromSpec]
    rcases dictRows_rel h₁ h₂ names parse items with ⟨e₁, e₂, x, y⟩ | ⟨r, x, y⟩
    · rw [x, y]; exact Or.inl ⟨e₁, e₂, rfl, rfl⟩
    · rw [x, y]
      obtain ⟨A, b⟩ := r
      by_cases he : items = []
      · simp only [he, if_true]; exact Or.inl ⟨_, _, rfl, rfl⟩
      · simp only [he, if_false]; exact Or.inr ⟨_, rfl, rfl⟩

/-! ## Part 6: non-linear specifications are rejected -/

theorem toTerms_hasVar {sh : Shuffle} (hsh : IsShuffle sh) :
    ∀ (n : Node) (s : TermSet), toTerms sh n = .ok (.one s) → mentionsVar n = true → HasVar s := by
  intro n
  induction n with
  | leaf k t =>
    intro s h hm
    unfold toTerms leafTerms at h
    cases k with
    | value => simp [mentionsVar] at hm
    | name =>
      simp only [Except.ok.injEq, Value.one.injEq] at h; subst h
      exact ⟨⟨some t, 1⟩, by simp, by simp⟩
    | python =>
      simp only [Except.ok.injEq, Value.one.injEq] at h; subst h
      exact ⟨⟨some t, 1⟩, by simp, by simp⟩
  | un op a ih =>
    intro s h hm
    unfold toTerms at h
    cases ha : toTerms sh a with
    | error e => rw [ha] at h; cases h
    | ok v =>
      rw [ha] at h
      simp only [Except.ok.injEq] at h
      obtain ⟨s', rfl, hs⟩ := applyUn_one h
      have := ih s' ha (by simpa [mentionsVar] using hm)
      cases op with
      | pos => simp only at hs; subst hs; exact this
      | neg => simp only at hs; subst hs; exact (hasVar_negate hsh).mpr this
  | bin op l r ihl ihr =>
    intro s h hm
    unfold toTerms at h
    cases hl : toTerms sh l with
    | error e => rw [hl] at h; cases h
    | ok a =>
      rw [hl] at h
      cases hr : toTerms sh r with
      | error e => rw [hr] at h; cases h
      | ok b =>
        rw [hr] at h
        simp only at h
        obtain ⟨hne, sa, sb, rfl, rfl, hs⟩ := applyBin_one h
        have ga := (toTerms_one hsh l sa hl).1
        have gb := (toTerms_one hsh r sb hr).1
        have hv : HasVar sa ∨ HasVar sb := by
          simp only [mentionsVar, Bool.or_eq_true] at hm
          rcases hm with m | m
          · exact Or.inl (ihl sa hl m)
          · exact Or.inr (ihr sb hr m)
        cases op with
        | comma => exact absurd rfl hne
        | eq =>
          simp only [applySets, Except.ok.injEq] at hs; subst hs
          exact hasVar_addTerms hsh ga.1 (WF_negate hsh gb.1) (hv.imp id (hasVar_negate hsh).mpr)
        | add =>
          simp only [applySets, Except.ok.injEq] at hs; subst hs
          exact hasVar_addTerms hsh ga.1 gb.1 hv
        | sub =>
          simp only [applySets, Except.ok.injEq] at hs; subst hs
          exact hasVar_subTerms hsh ga.1 gb.1 hv
        | mul =>
          simp only [applySets] at hs
          exact (mulTerms_vars hsh ga gb hs).2 hv
        | div =>
          simp only [applySets] at hs
          have := divTerms_vars hsh ga gb hs
          rcases hv with m | m
          · exact this.2 m
          · exact absurd m this.1

theorem not_clean_not_one {v : Value} (h : ¬ Clean v) : ∀ s, v ≠ .one s := by
  intro s e; subst e
  exact h (fun it hit => by simp [Value.items] at hit; exact ⟨s, hit⟩)

theorem not_clean_struct : ¬ Clean .struct := by
  intro c; obtain ⟨s, hs⟩ := c .struct (by simp [Value.items]); cases hs

theorem applyBin_notone {sh op a b v} (hop : op ≠ .comma) (h : applyBin sh op a b = .ok v)
    (hab : (∀ s, a ≠ .one s) ∨ (∀ s, b ≠ .one s)) : v = .struct := by
  cases op with
  | comma => exact absurd rfl hop
  | _ =>
    cases a <;> cases b <;> simp only [applyBin] at h <;> try (cases h; done)
    all_goals first
      | (rcases hab with x | x <;> exact absurd rfl (x _))
      | (simp only [Except.ok.injEq] at h; exact h.symm)

theorem toTerms_nonlinear {sh : Shuffle} (hsh : IsShuffle sh) :
    ∀ (n : Node) (v : Value), toTerms sh n = .ok v → nonlinear n = true → ¬ Clean v := by
  intro n
  induction n with
  | leaf k t => intro v _ hn; simp [nonlinear] at hn
  | un op a ih =>
    intro v h hn
    unfold toTerms at h
    cases ha : toTerms sh a with
    | error e => rw [ha] at h; cases h
    | ok w =>
      rw [ha] at h
      simp only [Except.ok.injEq] at h; subst h
      have := not_clean_not_one (ih w ha (by simpa [nonlinear] using hn))
      cases w with
      | one s => exact absurd rfl (this s)
      | tup _ => exact not_clean_struct
      | struct => exact not_clean_struct
  | bin op l r ihl ihr =>
    intro v h hn
    unfold toTerms at h
    cases hl : toTerms sh l with
    | error e => rw [hl] at h; cases h
    | ok a =>
      rw [hl] at h
      cases hr : toTerms sh r with
      | error e => rw [hr] at h; cases h
      | ok b =>
        rw [hr] at h
        simp only at h
        simp only [nonlinear, Bool.or_eq_true, Bool.and_eq_true, beq_iff_eq] at hn
        -- a child that is not clean poisons the result
        have poison : (¬ Clean a ∨ ¬ Clean b) → ¬ Clean v := by
          intro hab
          by_cases hop : op = .comma
          · subst hop
            simp only [applyBin, Except.ok.injEq] at h; subst h
            intro c
            rcases hab with x | x
            · exact x (fun it hit => c it (List.mem_append_left _ hit))
            · exact x (fun it hit => c it (List.mem_append_right _ hit))
          · rw [applyBin_notone hop h (hab.imp not_clean_not_one not_clean_not_one)]
            exact not_clean_struct
        have one_or_struct : ∀ (hop : op ≠ .comma), (∃ sa sb, a = .one sa ∧ b = .one sb) ∨ v = .struct := by
          intro hop
          by_cases ha : ∃ sa, a = .one sa
          · by_cases hb : ∃ sb, b = .one sb
            · obtain ⟨sa, rfl⟩ := ha; obtain ⟨sb, rfl⟩ := hb; exact Or.inl ⟨sa, sb, rfl, rfl⟩
            · exact Or.inr (applyBin_notone hop h (Or.inr (fun s e => hb ⟨s, e⟩)))
          · exact Or.inr (applyBin_notone hop h (Or.inl (fun s e => ha ⟨s, e⟩)))
        rcases hn with ((⟨⟨rfl, ml⟩, mr⟩ | ⟨rfl, mr⟩) | nl) | nr
        · rcases one_or_struct (by simp) with ⟨sa, sb, rfl, rfl⟩ | rfl
          · exfalso
            simp only [applyBin] at h
            cases hm : applySets sh .mul sa sb with
            | error e => rw [hm] at h; cases h
            | ok u =>
              simp only [applySets] at hm
              exact (mulTerms_vars hsh (toTerms_one hsh l sa hl).1 (toTerms_one hsh r sb hr).1 hm).1
                ⟨toTerms_hasVar hsh l sa hl ml, toTerms_hasVar hsh r sb hr mr⟩
          · exact not_clean_struct
        · rcases one_or_struct (by simp) with ⟨sa, sb, rfl, rfl⟩ | rfl
          · exfalso
            simp only [applyBin] at h
            cases hm : applySets sh .div sa sb with
            | error e => rw [hm] at h; cases h
            | ok u =>
              simp only [applySets] at hm
              exact (divTerms_vars hsh (toTerms_one hsh l sa hl).1 (toTerms_one hsh r sb hr).1 hm).1
                (toTerms_hasVar hsh r sb hr mr)
          · exact not_clean_struct
        · exact poison (Or.inl (ihl a hl nl))
        · exact poison (Or.inr (ihr b hr nr))

theorem getMatrix_nonlinear {sh : Shuffle} (hsh : IsShuffle sh) (names) {n : Node} (hn : nonlinear n = true) :
    ∃ e, getMatrix sh names (.ast n) = .error e := by
  simp only [getMatrix]
  cases ht : toTerms sh n with
  | error e => exact ⟨e, rfl⟩
  | ok v =>
    simp only
    cases hr : rowsOf sh names v.items with
    | error e => exact ⟨e, rfl⟩
    | ok res =>
      obtain ⟨A, b⟩ := res
      exact absurd (rowsOf_clean names _ _ _ hr) (toTerms_nonlinear hsh n v ht hn)

theorem dictRows_error {sh : Shuffle} (names parse) : ∀ (items : List (String × Rat)) (kv : String × Rat),
    kv ∈ items → (∃ e, getMatrix sh names (parse kv.1) = .error e) → ∃ e, dictRows sh names parse items = .error e := by
  intro items
  induction items with
  | nil => intro kv h; cases h
  | cons it rest ih =>
    intro kv hm he
    obtain ⟨k, c⟩ := it
    unfold dictRows
    cases hg : getMatrix sh names (parse k) with
    | error e => exact ⟨e, rfl⟩
    | ok res =>
      obtain ⟨A, b⟩ := res
      simp only
      rcases List.mem_cons.mp hm with rfl | hm'
      · obtain ⟨e, he⟩ := he
        simp only at he
        rw [hg] at he; cases he
      · obtain ⟨e, he'⟩ := ih kv hm' he
        rw [he']; exact ⟨e, rfl⟩

theorem fromSpec_nonlinear {sh : Shuffle} (hsh : IsShuffle sh) (names parse) (spec : Spec)
    (h : specNonlinear parse spec) : ∃ e, fromSpec sh names parse spec = .error e := by
  cases spec with
  | str s =>
    obtain ⟨n, hp, hn⟩ := h
    simp only [fromSpec, hp]; exact getMatrix_nonlinear hsh names hn
  | list ss =>
    obtain ⟨n, hp, hn⟩ := h
    simp only [fromSpec, hp]; exact getMatrix_nonlinear hsh names hn
  | dict items =>
    obtain ⟨kv, hm, n, hp, hn⟩ := h
    obtain ⟨e, he⟩ := dictRows_error (sh := sh) names parse items kv hm (by rw [hp]; exact getMatrix_nonlinear hsh names hn)
    simp only [fromSpec, he]; exact ⟨e, rfl⟩


theorem rowsOf_append (sh : Shuffle) (names) : ∀ (i₁ i₂ : List Item) A b, rowsOf sh names (i₁ ++ i₂) = .ok (A, b) →
    ∃ A₁ b₁ A₂ b₂, rowsOf sh names i₁ = .ok (A₁, b₁) ∧ rowsOf sh names i₂ = .ok (A₂, b₂) ∧
      A = A₁ ++ A₂ ∧ b = b₁ ++ b₂ := by
  intro i₁
  induction i₁ with
  | nil => intro i₂ A b h; exact ⟨[], [], A, b, rfl, h, rfl, rfl⟩
  | cons it its ih =>
    intro i₂ A b h
    simp only [List.cons_append] at h
    unfold rowsOf at h
    cases hr : rowOf sh names it with
    | error e => rw [hr] at h; cases h
    | ok vc =>
      obtain ⟨v, c⟩ := vc
      rw [hr] at h
      simp only at h
      cases hrest : rowsOf sh names (its ++ i₂) with
      | error e => rw [hrest] at h; cases h
      | ok res =>
        obtain ⟨A', b'⟩ := res
        rw [hrest] at h
        simp only [Except.ok.injEq, Prod.mk.injEq] at h
        obtain ⟨rfl, rfl⟩ := h
        obtain ⟨A₁, b₁, A₂, b₂, h1, h2, rfl, rfl⟩ := ih i₂ A' b' hrest
        refine ⟨v :: A₁, c :: b₁, A₂, b₂, ?_, h2, rfl, rfl⟩
        simp only [rowsOf, hr, h1]

/-! ## Part 7: `toTermsAll` covers every error any schedule / set order can raise -/

theorem applyBinAll_ok {op a b v} : applyBinAll op a b = .ok v ↔ applyBin id op a b = .ok v := by
  unfold applyBinAll
  cases h : applyBin id op a b with
  | ok w => simp
  | error e =>
    simp only [reduceCtorEq, iff_false]
    split <;> simp

theorem toTermsAll_ok : ∀ (n : Node) (v : Value), toTermsAll n = .ok v ↔ toTerms id n = .ok v := by
  intro n
  induction n with
  | leaf k t =>
    intro v
    unfold toTermsAll toTerms
    cases leafTerms k t <;> simp
  | un op a ih =>
    intro v
    unfold toTermsAll toTerms
    cases h1 : toTermsAll a with
    | error e =>
      cases h2 : toTerms id a with
      | error e' => simp
      | ok w => exact absurd ((ih w).mpr h2) (by rw [h1]; simp)
    | ok w =>
      simp only [(ih w).mp h1, Except.ok.injEq]
  | bin op l r ihl ihr =>
    intro v
    unfold toTermsAll toTerms
    cases h1 : toTermsAll l with
    | error e =>
      have : ∃ e', toTerms id l = .error e' := by
        cases h2 : toTerms id l with
        | error e' => exact ⟨e', rfl⟩
        | ok w => exact absurd ((ihl w).mpr h2) (by rw [h1]; simp)
      obtain ⟨e', he'⟩ := this
      rw [he']
      cases toTermsAll r <;> simp
    | ok a =>
      rw [(ihl a).mp h1]
      cases h3 : toTermsAll r with
      | error e =>
        have : ∃ e', toTerms id r = .error e' := by
          cases h2 : toTerms id r with
          | error e' => exact ⟨e', rfl⟩
          | ok w => exact absurd ((ihr w).mpr h2) (by rw [h3]; simp)
        obtain ⟨e', he'⟩ := this
        rw [he']; simp
      | ok b =>
        rw [(ihr b).mp h3]
        exact applyBinAll_ok

theorem mulTerm_error {a b e} (h : mulTerm a b = .error e) : e = .runtimeMul := by
  unfold mulTerm at h
  split at h <;> first | (cases h; done) | (cases h; rfl)

theorem divTerm_error_indep {a a' b e} (h : divTerm a b = .error e) : divTerm a' b = .error e := by
  unfold divTerm at h ⊢
  split at h
  · split at h
    · rename_i hz; simp only [hz, if_true]; exact h
    · cases h
  · exact h

theorem mem_divErrs {a b e} {r : TermSet} (hb : b ∈ r) (h : divTerm a b = .error e) : e ∈ divErrs r := by
  unfold divErrs
  rw [List.mem_filterMap]
  exact ⟨b, hb, by rw [divTerm_error_indep (a' := ⟨none, 0⟩) h]⟩

theorem applyBin_error_mem {sh : Shuffle} (hsh : IsShuffle sh) {op : Op2} {a₁ b₁ a₂ b₂ : Value} {e : Err}
    (ha : VRel a₁ a₂) (hb : VRel b₁ b₂) (h : applyBin sh op a₁ b₁ = .error e) :
    ∃ es, applyBinAll op a₂ b₂ = .error es ∧ e ∈ es := by
  cases a₁ <;> cases a₂ <;> simp only [VRel] at ha <;> try (exact ha.elim)
  all_goals (cases b₁ <;> cases b₂ <;> simp only [VRel] at hb <;> try (exact hb.elim))
  · -- one, one
    rename_i s₁ s₂ t₁ t₂
    cases op with
    | comma => simp [applyBin] at h
    | eq => simp [applyBin, applySets] at h
    | add => simp [applyBin, applySets] at h
    | sub => simp [applyBin, applySets] at h
    | mul =>
      cases hs : mulTerms sh s₁ t₁ with
      | ok u => simp [applyBin, applySets, hs] at h
      | error e' =>
        simp only [applyBin, applySets, hs, Except.error.injEq] at h
        subst h
        obtain ⟨p, _, hp⟩ := accumulate_error _ _ _ _ hs
        have he := mulTerm_error hp
        subst he
        rcases mulTerms_congr hsh isShuffle_id ha hb with ⟨e₁, e₂, x, y⟩ | ⟨_, _, x, _, _⟩
        · obtain ⟨q, _, hq⟩ := accumulate_error _ _ _ _ y
          have := mulTerm_error hq
          subst this
          exact ⟨[.runtimeMul], by simp [applyBinAll, applyBin, applySets, y], by simp⟩
        · rw [hs] at x; cases x
    | div =>
      cases hs : divTerms sh s₁ t₁ with
      | ok u => simp [applyBin, applySets, hs] at h
      | error e' =>
        simp only [applyBin, applySets, hs, Except.error.injEq] at h
        subst h
        obtain ⟨p, hm, hp⟩ := accumulate_error _ _ _ _ hs
        have hmem : p.2 ∈ t₂ := hb.mem_iff.mp ((hsh t₁).mem_iff.mp (mem_pairs.mp hm).2)
        rcases divTerms_congr hsh isShuffle_id ha hb with ⟨e₁, e₂, x, y⟩ | ⟨_, _, x, _, _⟩
        · exact ⟨divErrs t₂, by simp [applyBinAll, applyBin, applySets, y], mem_divErrs hmem hp⟩
        · rw [hs] at x; cases x
  all_goals
    cases op <;> simp only [applyBin, Except.error.injEq, reduceCtorEq] at h
    all_goals
      subst h
      exact ⟨[.notAligned], by simp [applyBinAll, applyBin], by simp⟩

theorem toTerms_error_mem {sh : Shuffle} (hsh : IsShuffle sh) :
    ∀ (n : Node) (e : Err), toTerms sh n = .error e → ∃ es, toTermsAll n = .error es ∧ e ∈ es := by
  intro n
  induction n with
  | leaf k t =>
    intro e h
    unfold toTerms at h
    unfold toTermsAll
    cases hl : leafTerms k t with
    | ok s => rw [hl] at h; cases h
    | error e' =>
      rw [hl] at h
      simp only [Except.error.injEq] at h; subst h
      exact ⟨[e'], rfl, by simp⟩
  | un op a ih =>
    intro e h
    unfold toTerms at h
    unfold toTermsAll
    cases ha : toTerms sh a with
    | ok v => rw [ha] at h; cases h
    | error e' =>
      rw [ha] at h
      simp only [Except.error.injEq] at h; subst h
      obtain ⟨es, hes, hm⟩ := ih _ ha
      exact ⟨es, by rw [hes], hm⟩
  | bin op l r ihl ihr =>
    intro e h
    unfold toTerms at h
    unfold toTermsAll
    cases hl : toTerms sh l with
    | error e' =>
      rw [hl] at h
      simp only [Except.error.injEq] at h; subst h
      obtain ⟨es, hes, hm⟩ := ihl _ hl
      rw [hes]
      cases toTermsAll r with
      | ok _ => exact ⟨es, rfl, hm⟩
      | error es' => exact ⟨es ++ es', rfl, List.mem_append_left _ hm⟩
    | ok a =>
      rw [hl] at h
      cases hr : toTerms sh r with
      | error e' =>
        rw [hr] at h
        simp only [Except.error.injEq] at h; subst h
        obtain ⟨es, hes, hm⟩ := ihr _ hr
        rw [hes]
        cases toTermsAll l with
        | ok _ => exact ⟨es, rfl, hm⟩
        | error es' => exact ⟨es' ++ es, rfl, List.mem_append_right _ hm⟩
      | ok b =>
        rw [hr] at h
        simp only at h
        -- the same subtrees succeed under the identity order, with the same sets up to order
        have rl := toTerms_rel hsh isShuffle_id l
        have rr := toTerms_rel hsh isShuffle_id r
        rcases rl with ⟨_, _, x, _⟩ | ⟨a₁, a₂, x, y, va⟩
        · rw [hl] at x; cases x
        rcases rr with ⟨_, _, x', _⟩ | ⟨b₁, b₂, x', y', vb⟩
        · rw [hr] at x'; cases x'
        rw [hl] at x; rw [hr] at x'
        cases x; cases x'
        rw [(toTermsAll_ok l a₂).mpr y, (toTermsAll_ok r b₂).mpr y']
        exact applyBin_error_mem hsh va vb h

end FormulaicVerif.Proofs.C16
