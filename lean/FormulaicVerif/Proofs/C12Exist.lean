import FormulaicVerif.Proofs.C12Unique
import Mathlib.LinearAlgebra.FiniteDimensional.Basic
import Mathlib.LinearAlgebra.FiniteDimensional.Defs
import Mathlib.LinearAlgebra.Pi
/-! Helper lemmas for C12 (not obligations): EXISTENCE of the second-derivative map.

* `cyc_exists`, `tri_exists`: the (periodic / natural) tridiagonal system has a solution for every
  right-hand side — the system matrix is an injective endomorphism of a finite-dimensional space
  (`cyc_homogeneous_zero` / `tri_homogeneous_zero`), hence surjective;
* `cyc_tri_contract`, `nat_tri_contract`: the converses of `cyc_contract_tri` / `nat_contract_tri`
  (tridiagonal equations for every column ⟹ the exact contract `residualF = 0`);
* `cc_F_exists`, `cr_F_exists`: for strictly increasing knots a matrix of the right shape
  satisfying the contract exists. -/

namespace FormulaicVerif.Proofs.C12
open FormulaicVerif.Model.CubicSpline FormulaicVerif.Model.BSpline FormulaicVerif.Spec.CubicSpline

/-- extend a vector on `Fin k` by zero -/
def ext0 {k : ℕ} (u : Fin k → ℚ) (j : ℕ) : ℚ := if hj : j < k then u ⟨j, hj⟩ else 0

theorem ext0_add {k : ℕ} (u v : Fin k → ℚ) (j : ℕ) : ext0 (u + v) j = ext0 u j + ext0 v j := by
  unfold ext0; split <;> simp
theorem ext0_smul {k : ℕ} (a : ℚ) (u : Fin k → ℚ) (j : ℕ) : ext0 (a • u) j = a * ext0 u j := by
  unfold ext0; split <;> simp

/-- the periodic tridiagonal system has a solution for every right-hand side (injective
endomorphism of a finite-dimensional space) -/
theorem cyc_exists (k : ℕ) (h : ℕ → ℚ) (hpos : ∀ i, i < k → 0 < h i) (b : ℕ → ℚ) :
    ∃ m : ℕ → ℚ, ∀ r, r < k →
      h (cpred k r) / 6 * m (cpred k r) + (h (cpred k r) + h r) / 3 * m r + h r / 6 * m (csucc k r) = b r := by
  let T : (Fin k → ℚ) →ₗ[ℚ] (Fin k → ℚ) :=
    { toFun := fun u r => h (cpred k r) / 6 * ext0 u (cpred k r) + (h (cpred k r) + h r) / 3 * ext0 u r
        + h r / 6 * ext0 u (csucc k r)
      map_add' := by
        intro u v; funext r
        simp only [ext0_add, Pi.add_apply]; ring
      map_smul' := by
        intro a u; funext r
        simp only [ext0_smul, Pi.smul_apply, smul_eq_mul, RingHom.id_apply]; ring }
  have hinj : Function.Injective T := by
    rw [← LinearMap.ker_eq_bot, LinearMap.ker_eq_bot']
    intro u hu
    have hz := cyc_homogeneous_zero k h (ext0 u) hpos (by
      intro r hr
      have := congrFun hu ⟨r, hr⟩
      exact this)
    funext r
    have := hz r r.2
    unfold ext0 at this
    rw [dif_pos r.2] at this
    exact this
  obtain ⟨u, hu⟩ := (LinearMap.injective_iff_surjective.1 hinj) (fun r => b r)
  refine ⟨ext0 u, ?_⟩
  intro r hr
  exact congrFun hu ⟨r, hr⟩

/-- extend a vector of interior unknowns `u_1 … u_k` by `u_0 = u_{k+1} = … = 0` -/
def ext1 {k : ℕ} (u : Fin k → ℚ) (j : ℕ) : ℚ :=
  if hj : 1 ≤ j ∧ j ≤ k then u ⟨j - 1, by omega⟩ else 0

theorem ext1_add {k : ℕ} (u v : Fin k → ℚ) (j : ℕ) : ext1 (u + v) j = ext1 u j + ext1 v j := by
  unfold ext1; split <;> simp
theorem ext1_smul {k : ℕ} (a : ℚ) (u : Fin k → ℚ) (j : ℕ) : ext1 (a • u) j = a * ext1 u j := by
  unfold ext1; split <;> simp

/-- the natural tridiagonal system (zero end values) has a solution for every right-hand side -/
theorem tri_exists (n : ℕ) (h : ℕ → ℚ) (hpos : ∀ i, i + 1 < n → 0 < h i) (b : ℕ → ℚ) :
    ∃ m : ℕ → ℚ, m 0 = 0 ∧ m (n - 1) = 0 ∧ ∀ i, i + 2 < n →
      h i / 6 * m i + (h i + h (i + 1)) / 3 * m (i + 1) + h (i + 1) / 6 * m (i + 2) = b i := by
  by_cases hn : n < 3
  · exact ⟨fun _ => 0, rfl, rfl, fun i hi => by omega⟩
  obtain ⟨k, rfl⟩ : ∃ k, n = k + 2 := ⟨n - 2, by omega⟩
  let T : (Fin k → ℚ) →ₗ[ℚ] (Fin k → ℚ) :=
    { toFun := fun u i => h i / 6 * ext1 u i + (h i + h (i + 1)) / 3 * ext1 u (i + 1)
        + h (i + 1) / 6 * ext1 u (i + 2)
      map_add' := by
        intro u v; funext r
        simp only [ext1_add, Pi.add_apply]; ring
      map_smul' := by
        intro a u; funext r
        simp only [ext1_smul, Pi.smul_apply, smul_eq_mul, RingHom.id_apply]; ring }
  have e0 : ∀ u : Fin k → ℚ, ext1 u 0 = 0 := by intro u; unfold ext1; rw [dif_neg (by omega)]
  have e1 : ∀ u : Fin k → ℚ, ext1 u (k + 1) = 0 := by intro u; unfold ext1; rw [dif_neg (by omega)]
  have hinj : Function.Injective T := by
    rw [← LinearMap.ker_eq_bot, LinearMap.ker_eq_bot']
    intro u hu
    have hz := tri_homogeneous_zero (k + 2) h (ext1 u) hpos (e0 u) (by simpa using e1 u) (by
      intro i hi
      have := congrFun hu ⟨i, by omega⟩
      exact this)
    funext r
    have := hz (r + 1) (by omega)
    unfold ext1 at this
    rw [dif_pos (by omega)] at this
    simpa using this
  obtain ⟨u, hu⟩ := (LinearMap.injective_iff_surjective.1 hinj) (fun r => b r)
  refine ⟨ext1 u, e0 u, by simpa using e1 u, ?_⟩
  intro i hi
  exact congrFun hu ⟨i, by omega⟩

/-- a matrix from its entries -/
def matOfFn (r c : ℕ) (f : ℕ → ℕ → ℚ) : List (List Rat) :=
  (List.range r).map (fun i => (List.range c).map (fun j => f i j))

theorem matOfFn_length (r c : ℕ) (f : ℕ → ℕ → ℚ) : (matOfFn r c f).length = r := by simp [matOfFn]

theorem matOfFn_row_length (r c : ℕ) (f : ℕ → ℕ → ℚ) : ∀ row ∈ matOfFn r c f, row.length = c := by
  intro row hr
  simp only [matOfFn, List.mem_map] at hr
  obtain ⟨i, _, rfl⟩ := hr
  simp

theorem Ffn_matOfFn (r c : ℕ) (f : ℕ → ℕ → ℚ) (i j : ℕ) (hi : i < r) (hj : j < c) :
    Ffn (matOfFn r c f) i j = f i j := by
  unfold Ffn matOfFn
  simp [List.getD_eq_getElem?_getD, hi, hj]

theorem allZero_of_Ffn (M : List (List Rat))
    (h : ∀ i c, i < M.length → c < (M.getD i []).length → Ffn M i c = 0) : AllZero M := by
  intro r hr v hv
  obtain ⟨i, hi, rfl⟩ := List.getElem_of_mem hr
  obtain ⟨c, hc, rfl⟩ := List.getElem_of_mem hv
  have e : M.getD i [] = M[i] := by simp [List.getD_eq_getElem?_getD, hi]
  have := h i c hi (by rw [e]; exact hc)
  unfold Ffn at this
  rw [e] at this
  simpa [List.getD_eq_getElem?_getD, hc] using this

theorem matSub_length_le (A M : List (List Rat)) : (matSub A M).length ≤ M.length := by
  simp [matSub]

theorem matSub_row_length_le (A M : List (List Rat)) (i : ℕ) :
    ((matSub A M).getD i []).length ≤ (M.getD i []).length := by
  unfold matSub
  by_cases hi : i < (List.zipWith (fun a b => List.zipWith (· - ·) a b) A M).length
  · have h1 : i < A.length := by simp at hi; omega
    have h2 : i < M.length := by simp at hi; omega
    simp [List.getD_eq_getElem?_getD, h1, h2]
  · rw [List.getD_eq_getElem?_getD, List.getElem?_eq_none (by omega)]
    simp

/-- **converse of `cyc_contract_tri`**: the periodic tridiagonal equations for every column give
the contract `cycB·F = cycD` exactly -/
theorem cyc_tri_contract (knots : List Rat) (F : List (List Rat)) (_hn : 2 ≤ knots.length)
    (hF : F.length = knots.length - 1) (hFr : ∀ r ∈ F, r.length = knots.length - 1)
    (ht : ∀ r c, r < knots.length - 1 → c < knots.length - 1 →
      TriEq (hsp knots (cpred (knots.length - 1) r)) (hsp knots r)
        (delta (cpred (knots.length - 1) r) c) (delta r c) (delta (csucc (knots.length - 1) r) c)
        (Ffn F (cpred (knots.length - 1) r) c) (Ffn F r c) (Ffn F (csucc (knots.length - 1) r) c)) :
    AllZero (residualF knots true F) := by
  unfold residualF
  simp only [if_true]
  set h := spacings knots with hh
  have hl : h.length = knots.length - 1 := spacings_length knots
  have hFr' : ∀ q ∈ F, q.length = h.length := fun q hq => by rw [hl]; exact hFr q hq
  apply allZero_of_Ffn
  intro r c hr0 hc0
  have hDlen : (cycD h).length = h.length := by simp [cycD, rotateRight_one_length]
  have hr' : r < h.length := by
    have := matSub_length_le (matMul h.length (cycB h) F) (cycD h); omega
  have hrow := cycD_row h r hr'
  have hc' : c < h.length := by
    have := matSub_row_length_le (matMul h.length (cycB h) F) (cycD h) r
    rw [List.getD_eq_getElem?_getD (l := cycD h), hrow] at this
    simp only [Option.getD_some, List.length_map, List.length_range] at this
    omega
  have hp := cpred_lt h.length r hr'
  have hs := csucc_lt h.length r hr'
  let coef : ℕ → ℚ := fun k =>
    (if k = r then (h[cpred h.length r] + h[r]) / 3 else 0)
      + (if k = cpred h.length r then h[cpred h.length r] / 6 else 0)
      + (if k = csucc h.length r then h[r] / 6 else 0)
  have hA : (matMul h.length (cycB h) F)[r]?
      = some (vecMat h.length ((List.range h.length).map coef) F) := by
    simp [matMul, List.getElem?_map, cycB_row h r hr', coef]
  rw [matSub_Ffn _ _ r c _ _ hA hrow
    (by rw [vecMat_length _ _ _ hFr']; omega) (by simp; omega)]
  rw [vecMat_fn h.length h.length _ _ c (by omega) hFr' (by omega)]
  rw [cyc_sum h.length r _ _ _ _ _ (fun k => Ffn F k c) hr' hp hs]
  have e1 : h[r] = hsp knots r := spacings_getElem knots r (by have := spacings_length knots; omega)
  have e2 : h[cpred h.length r] = hsp knots (cpred h.length r) :=
    spacings_getElem knots _ (by have := spacings_length knots; omega)
  have hD : ((List.range h.length).map (fun c =>
      (if c = r then -(1 / h[cpred h.length r]) - 1 / h[r] else 0)
        + (if c = cpred h.length r then 1 / h[cpred h.length r] else 0)
        + (if c = csucc h.length r then 1 / h[r] else 0))).getD c 0
      = (delta (csucc h.length r) c - delta r c) / hsp knots r
          - (delta r c - delta (cpred h.length r) c) / hsp knots (cpred h.length r) := by
    simp only [List.getD_eq_getElem?_getD, List.getElem?_map, List.getElem?_range hc', Option.map_some,
      Option.getD_some, e1, e2, delta]
    split_ifs <;> first | (exfalso; omega) | ring
  rw [hD, e1, e2]
  have := ht r c (by omega) (by omega)
  rw [← hl] at this
  unfold TriEq at this
  linear_combination this

theorem AllZero.append {A B : List (List Rat)} (ha : AllZero A) (hb : AllZero B) : AllZero (A ++ B) := by
  intro r hr
  rcases List.mem_append.1 hr with h | h
  · exact ha r h
  · exact hb r h

/-- a row of `F` all of whose entries vanish, as a one-row matrix -/
theorem allZero_single_row (F : List (List Rat)) (n i : ℕ) (hFr : ∀ r ∈ F, r.length = n)
    (hz : ∀ c, c < n → Ffn F i c = 0) (M : List (List Rat)) (hM : ∀ r ∈ M, r = F.getD i []) (hi : i < F.length) :
    AllZero M := by
  intro r hr v hv
  rw [hM r hr] at hv
  obtain ⟨c, hc, rfl⟩ := List.getElem_of_mem hv
  have e : F.getD i [] = F[i] := by simp [List.getD_eq_getElem?_getD, hi]
  have hlen : (F.getD i []).length = n := by rw [e]; exact hFr _ (List.getElem_mem hi)
  have := hz c (by omega)
  unfold Ffn at this
  rw [List.getD_eq_getElem?_getD (l := F.getD i []), List.getElem?_eq_getElem hc] at this
  simpa using this

/-- **converse of `nat_contract_tri`**: zero first and last row and the tridiagonal equations for
every column give the contract of `_get_natural_f` exactly -/
theorem nat_tri_contract (knots : List Rat) (F : List (List Rat)) (hn : 2 ≤ knots.length)
    (hF : F.length = knots.length) (hFr : ∀ r ∈ F, r.length = knots.length)
    (h0 : ∀ c, Ffn F 0 c = 0) (hlast : ∀ c, Ffn F (knots.length - 1) c = 0)
    (ht : ∀ i c, i + 2 < knots.length → c < knots.length →
      TriEq (hsp knots i) (hsp knots (i + 1)) (delta i c) (delta (i + 1) c) (delta (i + 2) c)
        (Ffn F i c) (Ffn F (i + 1) c) (Ffn F (i + 2) c)) :
    AllZero (residualF knots false F) := by
  unfold residualF
  simp only [Bool.false_eq_true, if_false]
  refine AllZero.append (AllZero.append ?_ ?_) ?_
  · -- the interior equations
    set h := spacings knots with hh
    have hl : h.length = knots.length - 1 := spacings_length knots
    have hFm : ∀ r ∈ (F.drop 1).dropLast, r.length = knots.length := fun r hr =>
      hFr r (List.mem_of_mem_drop (List.mem_of_mem_dropLast hr))
    apply allZero_of_Ffn
    intro i c hi0 hc0
    have hi1 : i + 1 < h.length := by
      have := matSub_length_le (matMul knots.length (natB h) ((F.drop 1).dropLast)) (natD h)
      rw [natD_length] at this
      omega
    have hrow := natD_row h i hi1
    have hc : c < knots.length := by
      have := matSub_row_length_le (matMul knots.length (natB h) ((F.drop 1).dropLast)) (natD h) i
      rw [List.getD_eq_getElem?_getD (l := natD h), hrow] at this
      simp only [Option.getD_some, List.length_map, List.length_range] at this
      omega
    have hi : i + 2 < knots.length := by omega
    let coef : ℕ → ℚ := fun k =>
      if k = i then (h[i] + h[i + 1]) / 3 else if k = i + 1 then h[i + 1] / 6
      else if k + 1 = i then h[i] / 6 else 0
    have hA : (matMul knots.length (natB h) ((F.drop 1).dropLast))[i]?
        = some (vecMat knots.length ((List.range (h.length - 1)).map coef) ((F.drop 1).dropLast)) := by
      simp [matMul, List.getElem?_map, natB_row h i hi1, coef]
    rw [matSub_Ffn _ _ i c _ _ hA hrow
      (by rw [vecMat_length _ _ _ hFm]; exact hc) (by simp; omega)]
    rw [vecMat_fn knots.length (h.length - 1) _ _ c hc hFm (by simp [hF]; omega)]
    have hsum : ∑ k ∈ Finset.range (h.length - 1), coef k * Ffn ((F.drop 1).dropLast) k c
        = ∑ k ∈ Finset.range (h.length - 1), coef k * Ffn F (k + 1) c :=
      Finset.sum_congr rfl (fun k hk => by
        rw [Ffn_dropLast_drop F k c (by rw [Finset.mem_range] at hk; omega)])
    rw [hsum, tri_sum (h.length - 1) i _ _ _ (fun k => Ffn F (k + 1) c) (by omega)]
    have g1 : (if i + 1 < h.length - 1 then h[i + 1] / 6 * Ffn F (i + 1 + 1) c else 0)
        = h[i + 1] / 6 * Ffn F (i + 2) c := by
      split
      · rfl
      · have : i + 2 = knots.length - 1 := by omega
        rw [this, hlast c]; ring
    have g2 : (if 0 < i then h[i] / 6 * Ffn F (i - 1 + 1) c else 0) = h[i] / 6 * Ffn F i c := by
      split
      · rw [show i - 1 + 1 = i by omega]
      · have : i = 0 := by omega
        subst this
        rw [h0 c]; ring
    rw [g1, g2]
    have e1 : h[i] = hsp knots i := spacings_getElem knots i (by have := spacings_length knots; omega)
    have e2 : h[i + 1] = hsp knots (i + 1) := spacings_getElem knots (i + 1) hi1
    have hD : ((List.range (h.length + 1)).map (fun c =>
        if c = i then 1 / h[i] else if c = i + 2 then 1 / h[i + 1]
        else if c = i + 1 then -(1 / h[i]) - 1 / h[i + 1] else 0)).getD c 0
        = (delta (i + 2) c - delta (i + 1) c) / hsp knots (i + 1) - (delta (i + 1) c - delta i c) / hsp knots i := by
      have hc' : c < h.length + 1 := by omega
      simp only [List.getD_eq_getElem?_getD, List.getElem?_map, List.getElem?_range hc', Option.map_some,
        Option.getD_some, e1, e2, delta]
      split_ifs <;> first | (exfalso; omega) | ring
    rw [hD, e1, e2]
    have := ht i c hi hc
    unfold TriEq at this
    linear_combination this
  · -- first row
    apply allZero_single_row F knots.length 0 hFr (fun c _ => h0 c) _ _ (by omega)
    intro r hr
    have : F.take 1 = [F.getD 0 []] := by
      cases F with
      | nil => simp at hF; omega
      | cons a t => simp
    rw [this] at hr
    simpa using hr
  · -- last row
    apply allZero_single_row F knots.length (knots.length - 1) hFr (fun c _ => hlast c) _ _ (by omega)
    intro r hr
    have : F.drop (F.length - 1) = [F.getD (knots.length - 1) []] := by
      rw [hF]
      have hlt : knots.length - 1 < F.length := by omega
      rw [List.drop_eq_getElem_cons hlt]
      have : F.drop (knots.length - 1 + 1) = [] := by
        apply List.drop_eq_nil_of_le; omega
      rw [this]
      simp [List.getD_eq_getElem?_getD, hlt]
    rw [this] at hr
    simpa using hr

/-- for strictly increasing knots the periodic second-derivative map exists -/
theorem cc_F_exists (knots : List Rat) (hs : knots.Pairwise (· < ·)) (hn : 2 ≤ knots.length) :
    ∃ F : List (List Rat), F.length = knots.length - 1 ∧ (∀ r ∈ F, r.length = knots.length - 1) ∧
      AllZero (residualF knots true F) := by
  set k := knots.length - 1 with hk
  have hpos : ∀ i, i < k → 0 < hsp knots i := fun i hi => hsp_pos knots hs i (by omega)
  choose m hm using fun c : ℕ => cyc_exists k (hsp knots) hpos
    (fun r => (delta (csucc k r) c - delta r c) / hsp knots r
      - (delta r c - delta (cpred k r) c) / hsp knots (cpred k r))
  refine ⟨matOfFn k k (fun i c => m c i), matOfFn_length _ _ _, matOfFn_row_length _ _ _, ?_⟩
  apply cyc_tri_contract knots _ hn (matOfFn_length _ _ _) (matOfFn_row_length _ _ _)
  intro r c hr hc
  rw [Ffn_matOfFn _ _ _ _ _ (cpred_lt k r hr) hc, Ffn_matOfFn _ _ _ _ _ hr hc,
    Ffn_matOfFn _ _ _ _ _ (csucc_lt k r hr) hc]
  unfold TriEq
  exact hm c r hr

/-- for strictly increasing knots the natural second-derivative map exists -/
theorem cr_F_exists (knots : List Rat) (hs : knots.Pairwise (· < ·)) (hn : 2 ≤ knots.length) :
    ∃ F : List (List Rat), F.length = knots.length ∧ (∀ r ∈ F, r.length = knots.length) ∧
      AllZero (residualF knots false F) := by
  have hpos : ∀ i, i + 1 < knots.length → 0 < hsp knots i := fun i hi => hsp_pos knots hs i hi
  choose m hm0 hm1 hm using fun c : ℕ => tri_exists knots.length (hsp knots) hpos
    (fun i => (delta (i + 2) c - delta (i + 1) c) / hsp knots (i + 1)
      - (delta (i + 1) c - delta i c) / hsp knots i)
  have hent : ∀ i c, i < knots.length → c < knots.length →
      Ffn (matOfFn knots.length knots.length (fun i c => m c i)) i c = m c i :=
    fun i c hi hc => Ffn_matOfFn _ _ _ _ _ hi hc
  have hout : ∀ i c, knots.length ≤ c →
      Ffn (matOfFn knots.length knots.length (fun i c => m c i)) i c = 0 := by
    intro i c hc
    unfold Ffn
    by_cases hi : i < knots.length
    · simp [matOfFn, List.getD_eq_getElem?_getD, hi, Nat.not_lt.2 hc]
    · simp [matOfFn, List.getD_eq_getElem?_getD, hi]
  refine ⟨matOfFn _ _ (fun i c => m c i), matOfFn_length _ _ _, matOfFn_row_length _ _ _, ?_⟩
  apply nat_tri_contract knots _ hn (matOfFn_length _ _ _) (matOfFn_row_length _ _ _)
  · intro c
    by_cases hc : c < knots.length
    · rw [hent 0 c (by omega) hc]; exact hm0 c
    · exact hout 0 c (by omega)
  · intro c
    by_cases hc : c < knots.length
    · rw [hent _ c (by omega) hc]; exact hm1 c
    · exact hout _ c (by omega)
  · intro i c hi hc
    rw [hent i c (by omega) hc, hent (i + 1) c (by omega) hc, hent (i + 2) c hi hc]
    unfold TriEq
    exact hm c i hi

end FormulaicVerif.Proofs.C12
