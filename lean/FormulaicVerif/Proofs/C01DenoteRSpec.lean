import FormulaicVerif.Proofs.C01EvalD
/-! # C01 — parse = denotation for formulas with sign runs, zeros and `.` (token level)

`parse_eq_denoteR`: for every formula of the grammar of `Proofs/C01GrammarR.lean` that the feature flags
allow, `parseToks` on its written tokens is its documented denotation (`Spec/WilkinsonDenoteR.lean`), `.`
denoting the available variables that the left-hand side does not use (`dotOf`).

`denoteFormulaR_norm`: without `.`, that denotation is the denotation of the normal form (runs collapsed by
parity, `± 0` read as `∓ 1`) in the grammar without runs and zeros. -/
namespace FormulaicVerif.Proofs.C01DenoteRSpec
open FormulaicVerif FormulaicVerif.Model FormulaicVerif.Proofs.C01Grammar FormulaicVerif.Proofs.C01GrammarR
open FormulaicVerif.Proofs.C01Runs FormulaicVerif.Proofs.C01DenoteR FormulaicVerif.Proofs.C01Denote
open FormulaicVerif.Proofs.C01ShuntDot FormulaicVerif.Proofs.C01EvalD FormulaicVerif.Proofs.C01Intercept
open FormulaicVerif.Proofs.C14 (evalAst_node evalArgs_cons)
open FormulaicVerif.Proofs.C01TopLevel FormulaicVerif.Proofs.ShuntC
open FormulaicVerif.Spec.Wilkinson (documentedTable)
open FormulaicVerif.Spec.Denote FormulaicVerif.Spec.DenoteR

/-! ### the variables of the left-hand side -/

theorem lhsVariables_append (env : PyEnv) (a b : List Tok) :
    lhsVariables env (a ++ b) = lhsVariables env a ++ lhsVariables env b := by
  simp [lhsVariables]

theorem lhsVariables_replaceZero (env : PyEnv) : ∀ ts : List Tok,
    lhsVariables env (replaceZero ts) = lhsVariables env ts
  | [] => rfl
  | t :: ts => by
    by_cases hz : IsZero t
    · rw [replaceZero_cons_zero t ts hz]
      have ih := lhsVariables_replaceZero env ts
      simp only [lhsVariables, List.flatMap_cons] at ih ⊢
      rw [ih, hz.1]
      rfl
    · rw [replaceZero_cons_other t ts hz]
      have ih := lhsVariables_replaceZero env ts
      simp only [lhsVariables, List.flatMap_cons] at ih ⊢
      rw [ih]

/-- the left-hand-side variables the parser hands to `.` are those of the written left-hand side -/
theorem usedLhs_R (add : Bool) (env : PyEnv) (f : FormulaR) :
    lhsVariables env (interceptTokens add f.toks).2 = lhsVars env f := by
  rw [lhsToks_R]
  cases f with
  | one p tail => rfl
  | tilde p tail => rfl
  | two l ltail p tail =>
    simp only [lhsVars]
    rw [lhsVariables_append, ← replaceZero_parts, lhsVariables_replaceZero]
    show _ ++ [] = _
    rw [List.append_nil]

/-! ### sides -/

theorem rho_partsAst : ∀ (us : List Ast) (t : Ast), rho (partsAst t us) = partsAst (rho t) (us.map rho)
  | [], t => rfl
  | u :: us, t => by
    simp only [partsAst, List.map_cons, rho_node2, rho_partsAst us u]

theorem rho_partsTree (g : SumR → Sum) (gp : Sum) (tail : List SumR) :
    rho (partsTree gp (tail.map g)) = partsAst (rho (strip gp.toE)) (tail.map (fun q => rho (strip (g q).toE))) := by
  rw [partsTree_eq, rho_partsAst]
  simp only [List.map_map]
  rfl

/-- a chain of parts, each of which evaluates to its term set, evaluates to the side's denotation -/
theorem evalD_side (ctx : DotCtx) (T : SumR → Ast) (D : SumR → Except ParseErr (List Term))
    (h : ∀ q, evalAst ctx (T q) = (D q).map Val.set) : ∀ (tail : List SumR) (p : SumR),
    evalAst ctx (partsAst (T p) (tail.map T)) = denSideR D p tail
  | [], p => by
    simp only [List.map_nil, partsAst, h, denSideR, denPartsR]
    cases D p <;> rfl
  | q :: qs, p => by
    have ih := evalD_side ctx T D h qs q
    simp only [List.map_cons, partsAst, evalAst_node, evalArgs_cons, h, ih, denSideR, denPartsR]
    cases D p with
    | error e => rfl
    | ok x =>
      simp only [Except.map]
      cases D q with
      | error e => rfl
      | ok y =>
        simp only
        cases denPartsR D qs with
        | error e => rfl
        | ok ys =>
          simp only [evalArgs_nil, show bar.structural = true from rfl, if_true]
          show Except.ok (partExpansion (.set x) (partsVal y ys)) = _
          rw [partExpansion_set]

theorem denSideR_shape (den : SumR → Except ParseErr (List Term)) (p : SumR) (tail : List SumR) (v : Val)
    (hd : denSideR den p tail = .ok v) : ∃ x xs, v = partsVal x xs := by
  simp only [denSideR] at hd
  cases h1 : den p with
  | error e => rw [h1] at hd; cases hd
  | ok x =>
    rw [h1] at hd
    cases h2 : denPartsR den tail with
    | error e => rw [h2] at hd; cases hd
    | ok xs => rw [h2] at hd; exact ⟨x, xs, by injection hd with hd; exact hd.symm⟩

/-! ### the theorem -/

theorem enabled_iff (cfg : ParseCfg) (f : FormulaR) : f.norm.Enabled cfg ↔ FormulaR.Enabled cfg f := by
  cases f <;> simp [FormulaR.norm, Formula.Enabled, FormulaR.Enabled]

theorem parseToks_R (cfg : ParseCfg) (env : PyEnv) (f : FormulaR) (a : Ast)
    (ht : tokensToAst cfg.table (f.norm.rewritten cfg.includeIntercept) = .ok (some a)) :
    parseToks cfg env f.toks = wrapCheck (evalAst (DotCtx.mk env.available (lhsVars env f)) (rho a)) := by
  simp only [parseToks, tokensToAst_R, ht, rhoRes, usedLhs_R]

theorem dot_applies (env : PyEnv) (f : FormulaR) :
    applyPlain dotSpec (DotCtx.mk env.available (lhsVars env f)) [] = dotOf env f := rfl

/-- **parse = denotation, with runs of signs, literal zeros and `.`** (token level): for every formula of the
grammar that the feature flags allow, the parser maps the formula's written token sequence to the documented
denotation, `.` denoting the available variables that the left-hand side does not use -/
theorem parse_eq_denoteR (cfg : ParseCfg) (env : PyEnv) (f : FormulaR) (hen : FormulaR.Enabled cfg f) :
    parseToks cfg env f.toks = denoteFormulaR cfg (dotOf env f) f := by
  have hen' := (enabled_iff cfg f).2 hen
  have hdv := dot_applies env f
  generalize hctx : DotCtx.mk env.available (lhsVars env f) = ctx at hdv
  generalize dotOf env f = dv at hdv
  have hR := fun q => evalD_part ctx dv hdv cfg.includeIntercept q
  have hL := fun q => evalD_sum ctx dv hdv q
  cases f with
  | one p tail =>
    have hparse := multipart_parses_doc cfg.twosided cfg.multipart cfg.multistage
      (wo cfg.includeIntercept p.norm) ((tail.map SumR.norm).map (wo cfg.includeIntercept)) (map_eq_nil_or _ _ _ hen')
    rw [← table_doc] at hparse
    rw [parseToks_R cfg env (.one p tail) _ hparse, hctx, List.map_map,
      rho_partsTree]
    simp only [Function.comp_apply]
    rw [evalD_side ctx _ _ hR, wrapCheck_root _ (fun v hv => denSideR_shape _ _ _ v hv)]
    rfl
  | tilde p tail =>
    have hparse := onesided_tilde_parses_doc cfg.twosided cfg.multipart cfg.multistage
      (wo cfg.includeIntercept p.norm) ((tail.map SumR.norm).map (wo cfg.includeIntercept)) (map_eq_nil_or _ _ _ hen')
    rw [← table_doc] at hparse
    rw [parseToks_R cfg env (.tilde p tail) _ hparse, hctx, List.map_map, rho_node1, rho_partsTree]
    simp only [Function.comp_apply]
    have heval : evalAst ctx (.node tildeP [partsAst (rho (strip (wo cfg.includeIntercept p.norm).toE))
          (tail.map (fun q => rho (strip (wo cfg.includeIntercept q.norm).toE)))])
        = denSideR (denRhsR dv cfg.includeIntercept) p tail := by
      rw [evalAst_node, evalArgs_cons, evalD_side ctx _ _ hR, evalArgs_nil]
      cases denSideR (denRhsR dv cfg.includeIntercept) p tail <;> rfl
    rw [heval, wrapCheck_root _ (fun v hv => denSideR_shape _ _ _ v hv)]
    rfl
  | two l ltail p tail =>
    obtain ⟨htwo, hmp⟩ := hen'
    have hmp' : (ltail.map SumR.norm = [] ∧ (tail.map SumR.norm).map (wo cfg.includeIntercept) = []) ∨ cfg.multipart = true := by
      rcases hmp with ⟨h1, h2⟩ | h
      · exact Or.inl ⟨h1, by rw [h2]; rfl⟩
      · exact Or.inr h
    have hparse := twosided_parses_doc cfg.multipart cfg.multistage l.norm (ltail.map SumR.norm)
      (wo cfg.includeIntercept p.norm) ((tail.map SumR.norm).map (wo cfg.includeIntercept)) hmp'
    have htab : cfg.table = documentedTable true cfg.multipart cfg.multistage := by rw [table_doc, htwo]
    rw [← htab] at hparse
    rw [parseToks_R cfg env (.two l ltail p tail) _ hparse, hctx, List.map_map, rho_node2, rho_partsTree, rho_partsTree]
    simp only [Function.comp_apply]
    have heval : evalAst ctx (.node tilde [
          partsAst (rho (strip l.norm.toE)) (ltail.map (fun q => rho (strip q.norm.toE))),
          partsAst (rho (strip (wo cfg.includeIntercept p.norm).toE))
            (tail.map (fun q => rho (strip (wo cfg.includeIntercept q.norm).toE)))])
        = (match denSideR (denSumR dv) l ltail with
           | .error e => .error e
           | .ok vl => match denSideR (denRhsR dv cfg.includeIntercept) p tail with
             | .error e => .error e
             | .ok vr => .ok (.struct [("lhs", vl), ("rhs", vr)])) := by
      rw [evalAst_node, evalArgs_cons, evalD_side ctx _ _ hL, evalArgs_cons, evalD_side ctx _ _ hR, evalArgs_nil]
      cases denSideR (denSumR dv) l ltail with
      | error e => rfl
      | ok vl =>
        cases denSideR (denRhsR dv cfg.includeIntercept) p tail with
        | error e => rfl
        | ok vr =>
          show Except.ok (mkStruct [("lhs", vl), ("rhs", vr)] none) = _
          rw [mkStruct_lhs_rhs]
    rw [heval]
    simp only [denoteFormulaR, denStructR]
    cases denSideR (denSumR dv) l ltail with
    | error e => rfl
    | ok vl =>
      cases denSideR (denRhsR dv cfg.includeIntercept) p tail with
      | error e => rfl
      | ok vr => simp only [wrapCheck, Except.map, wrapRoot]

/-! ### without `.`: the denotation is the denotation of the normal form -/

section Norm
variable (dv : Except ParseErr (List Term))

mutual
theorem denAtomR_norm : ∀ x : AtomR, x.NoDot → denAtomR dv x = denAtom x.norm
  | .tok t h, _ => rfl
  | .paren s, h => by simp only [denAtomR, AtomR.norm, denAtom]; exact denSumR_norm s (by simpa only [AtomR.NoDot] using h)
  | .dot, h => by simp only [AtomR.NoDot] at h
theorem denPowR_norm : ∀ x : PowR, x.NoDot → denPowR dv x = denPow x.norm
  | .atom a, h => by simp only [denPowR, PowR.norm, denPow]; exact denAtomR_norm a (by simpa only [PowR.NoDot] using h)
  | .pow op a p, h => by
    simp only [PowR.NoDot] at h
    simp only [denPowR, PowR.norm, denPow, denAtomR_norm a h.1, denPowR_norm p h.2]
    cases denAtom a.norm with
    | error e => rfl
    | ok x => cases denPow p.norm <;> rfl
theorem denInterR_norm : ∀ x : InterR, x.NoDot → denInterR dv x = denInter x.norm
  | .pow p, h => by simp only [denInterR, InterR.norm, denInter]; exact denPowR_norm p (by simpa only [InterR.NoDot] using h)
  | .inter i p, h => by
    simp only [InterR.NoDot] at h
    simp only [denInterR, InterR.norm, denInter, denInterR_norm i h.1, denPowR_norm p h.2]
    cases denInter i.norm with
    | error e => rfl
    | ok x => cases denPow p.norm <;> rfl
theorem denProdR_norm : ∀ x : ProdR, x.NoDot → denProdR dv x = denProd x.norm
  | .inter i, h => by simp only [denProdR, ProdR.norm, denProd]; exact denInterR_norm i (by simpa only [ProdR.NoDot] using h)
  | .mul op p i, h => by
    simp only [ProdR.NoDot] at h
    simp only [denProdR, ProdR.norm, denProd, denProdR_norm p h.1, denInterR_norm i h.2]
    cases denProd p.norm with
    | error e => rfl
    | ok x => cases denInter i.norm <;> rfl
theorem denSumR_norm : ∀ x : SumR, x.NoDot → denSumR dv x = denSum x.norm
  | .first none p, h => by
    simp only [denSumR, SumR.norm, denSum]; exact denProdR_norm p (by simpa only [SumR.NoDot] using h)
  | .first (some r) p, h => by
    simp only [SumR.NoDot] at h
    simp only [denSumR, SumR.norm, denProdR_norm p h]
    cases runOp r.cs <;> simp only [denSum, unary] <;> cases denProd p.norm <;> rfl
  | .firstZero sg, _ => by
    simp only [denSumR, SumR.norm, runOp_sign_minus]
    cases flip (signOf sg) <;> rfl
  | .add r s p, h => by
    simp only [SumR.NoDot] at h
    simp only [denSumR, SumR.norm, denSum, denSumR_norm s h.1, denProdR_norm p h.2]
    cases denSum s.norm with
    | error e => rfl
    | ok x => cases denProd p.norm <;> rfl
  | .addZero r s, h => by
    simp only [SumR.NoDot] at h
    simp only [denSumR, SumR.norm, denSum, denSumR_norm s h, runOp_run_minus, denProd_one]
    cases denSum s.norm <;> rfl
end

theorem foldSumR_norm (start : List Term) : ∀ x : SumR, x.NoDot → foldSumR dv start x = foldSum start x.norm
  | .first none p, h => by
    simp only [SumR.NoDot] at h
    simp only [foldSumR, SumR.norm, foldSum, denProdR_norm dv p h, signOf]
    cases denProd p.norm <;> rfl
  | .first (some r) p, h => by
    simp only [SumR.NoDot] at h
    simp only [foldSumR, SumR.norm, foldSum, denProdR_norm dv p h, signOf]
  | .firstZero sg, _ => by
    simp only [foldSumR, SumR.norm, foldSum, runOp_sign_minus, denProd_one]
    rfl
  | .add r s p, h => by
    simp only [SumR.NoDot] at h
    simp only [foldSumR, SumR.norm, foldSum, foldSumR_norm start s h.1, denProdR_norm dv p h.2]
    cases foldSum start s.norm with
    | error e => rfl
    | ok x => cases denProd p.norm <;> rfl
  | .addZero r s, h => by
    simp only [SumR.NoDot] at h
    simp only [foldSumR, SumR.norm, foldSum, foldSumR_norm start s h, runOp_run_minus, denProd_one]
    cases foldSum start s.norm <;> rfl

theorem denRhsR_norm (add : Bool) (s : SumR) (h : s.NoDot) : denRhsR dv add s = denRhs add s.norm := by
  cases add
  · exact denSumR_norm dv s h
  · exact foldSumR_norm dv _ s h

theorem denPartsR_norm (d : SumR → Except ParseErr (List Term)) (d' : Sum → Except ParseErr (List Term))
    (h : ∀ q : SumR, q.NoDot → d q = d' q.norm) : ∀ tail : List SumR, (∀ q ∈ tail, q.NoDot) →
      denPartsR d tail = denParts d' (tail.map SumR.norm)
  | [], _ => rfl
  | q :: qs, hn => by
    simp only [denPartsR, List.map_cons, denParts, h q (hn q (List.mem_cons_self ..)),
      denPartsR_norm d d' h qs (fun x hx => hn x (List.mem_cons_of_mem _ hx))]
    cases d' q.norm with
    | error e => rfl
    | ok x => cases denParts d' (qs.map SumR.norm) <;> rfl

theorem denSideR_norm (d : SumR → Except ParseErr (List Term)) (d' : Sum → Except ParseErr (List Term))
    (h : ∀ q : SumR, q.NoDot → d q = d' q.norm) (p : SumR) (tail : List SumR) (hn : p.NoDot ∧ ∀ q ∈ tail, q.NoDot) :
    denSideR d p tail = denSide d' p.norm (tail.map SumR.norm) := by
  simp only [denSideR, denSide, h p hn.1, denPartsR_norm d d' h tail hn.2]
  cases d' p.norm with
  | error e => rfl
  | ok x => cases denParts d' (tail.map SumR.norm) <;> rfl

/-- the denotation of a formula with sign runs and zeros and no `.` is the denotation of its normal form (and does
not depend on what `.` would denote) -/
theorem denoteFormulaR_norm (cfg : ParseCfg) (f : FormulaR) (hn : f.NoDot) :
    denoteFormulaR cfg dv f = denoteFormula cfg f.norm := by
  unfold denoteFormulaR denoteFormula
  congr 1
  cases f with
  | one p tail =>
    simp only [denStructR, FormulaR.norm, denStruct, denSideR_norm _ _ (denRhsR_norm dv cfg.includeIntercept) p tail hn]
  | tilde p tail =>
    simp only [denStructR, FormulaR.norm, denStruct, denSideR_norm _ _ (denRhsR_norm dv cfg.includeIntercept) p tail hn]
  | two l ltail p tail =>
    simp only [denStructR, FormulaR.norm, denStruct, denSideR_norm _ _ (denRhsR_norm dv cfg.includeIntercept) p tail hn.2,
      denSideR_norm _ _ (denSumR_norm dv) l ltail hn.1]
    cases denSide denSum l.norm (ltail.map SumR.norm) with
    | error e => rfl
    | ok vl => cases denSide (denRhs cfg.includeIntercept) p.norm (tail.map SumR.norm) <;> rfl

end Norm

end FormulaicVerif.Proofs.C01DenoteRSpec
