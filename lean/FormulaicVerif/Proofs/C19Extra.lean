import FormulaicVerif.Proofs.C19Merge
/-! Helper lemmas for C19, part 8: `_update`, results of `_merge`, fuel. Not obligations. -/
namespace FormulaicVerif.Proofs.C19
open FormulaicVerif.Model.St FormulaicVerif.Spec.Containers

variable {α β γ δ : Type}

theorem addKey_nodup (ks : List String) (k : String) (h : ks.Nodup) : (addKey ks k).Nodup := by
  unfold addKey
  by_cases hk : ks.contains k = true
  · simp only [hk, if_true]; exact h
  · have hk' : ks.contains k = false := by simpa using hk
    simp only [hk', Bool.false_eq_true, if_false]
    rw [List.nodup_append]
    refine ⟨h, by simp, ?_⟩
    intro a ha b hb
    simp only [List.mem_singleton] at hb
    subst hb
    intro e; subst e
    simp [ha] at hk'

theorem mem_keys_dictUpdate (d u : List (String × γ)) (k : String) :
    k ∈ (dictUpdate d u).map (·.1) ↔ k ∈ d.map (·.1) ∨ k ∈ u.map (·.1) := by
  rw [keys_dictUpdate, foldl_addKey]
  simp only [List.mem_append, List.mem_filter, mem_firstOcc]
  constructor
  · rintro (h | ⟨h, _⟩)
    · exact Or.inl h
    · exact Or.inr h
  · rintro (h | h)
    · exact Or.inl h
    · by_cases hd : k ∈ d.map (·.1)
      · exact Or.inl hd
      · exact Or.inr ⟨h, by simpa using hd⟩

theorem any_badKey_dictUpdate (d u : List (String × γ)) :
    (dictUpdate d u).any (fun kv => badKey kv.1) = (d ++ u).any (fun kv => badKey kv.1) := by
  have key : ∀ (l : List (String × γ)), l.any (fun kv => badKey kv.1) = true ↔
      ∃ k ∈ l.map (·.1), badKey k = true := by
    intro l
    simp only [List.any_eq_true, List.mem_map]
    constructor
    · rintro ⟨kv, hkv, hb⟩; exact ⟨kv.1, ⟨kv, hkv, rfl⟩, hb⟩
    · rintro ⟨k, ⟨kv, hkv, rfl⟩, hb⟩; exact ⟨kv, hkv, hb⟩
  rw [Bool.eq_iff_iff, key, key]
  simp only [List.map_append, List.mem_append]
  constructor
  · rintro ⟨k, hk, hb⟩; exact ⟨k, (mem_keys_dictUpdate d u k).1 hk, hb⟩
  · rintro ⟨k, hk, hb⟩; exact ⟨k, (mem_keys_dictUpdate d u k).2 hk, hb⟩

theorem mapM_error_except {ε σ υ : Type} (f : σ → Except ε υ) (xs : List σ) (e : ε)
    (h : xs.mapM f = .error e) : ∃ x ∈ xs, f x = .error e := by
  induction xs with
  | nil => simp [List.mapM_nil, pure, Except.pure] at h
  | cons x r ih =>
    simp only [List.mapM_cons] at h
    cases hx : f x with
    | error e' =>
      rw [hx] at h
      simp only [bind, Except.bind, Except.error.injEq] at h
      exact ⟨x, by simp, by rw [hx, h]⟩
    | ok m =>
      rw [hx] at h
      cases hr : r.mapM f with
      | error e' =>
        rw [hr] at h
        simp only [bind, Except.bind, Except.error.injEq] at h
        obtain ⟨y, hy, hfy⟩ := ih (by rw [hr, h])
        exact ⟨y, by simp [hy], hfy⟩
      | ok r' =>
        rw [hr] at h
        simp [bind, Except.bind, pure, Except.pure] at h

theorem mapM_lookup_except {ε υ : Type} (f : String → Except ε υ) (xs : List String)
    (r : List (String × υ)) (hn : xs.Nodup)
    (h : xs.mapM (fun k => (f k).map (fun m => (k, m))) = .ok r) :
    ∀ k ∈ xs, ∃ m, f k = .ok m ∧ r.lookup k = some m := by
  induction xs generalizing r with
  | nil => simp
  | cons x t ih =>
    rw [List.nodup_cons] at hn
    simp only [List.mapM_cons] at h
    cases hx : f x with
    | error e => rw [hx] at h; simp [Except.map, bind, Except.bind] at h
    | ok m =>
      cases ht : t.mapM (fun k => (f k).map (fun m => (k, m))) with
      | error e => rw [hx, ht] at h; simp [Except.map, bind, Except.bind] at h
      | ok r' =>
        rw [hx, ht] at h
        simp [Except.map, bind, Except.bind, pure, Except.pure] at h
        subst h
        intro k hk
        rcases List.mem_cons.1 hk with hk | hk
        · subst hk; exact ⟨m, hx, by simp [List.lookup]⟩
        · obtain ⟨m', hm', hl⟩ := ih r' hn.2 ht k hk
          have hne : k ≠ x := fun e => hn.1 (e ▸ hk)
          have hb : (k == x) = false := by simpa using hne
          exact ⟨m', hm', by simp [List.lookup, hb, hl]⟩

theorem ctor_ne_outOfFuel (kvs : Items α) : ctor kvs ≠ .error .outOfFuel := by
  unfold ctor; split <;> simp

theorem merge_no_outOfFuel (merger : List α → Except Err α) (hm : ∀ xs, merger xs ≠ .error .outOfFuel) :
    ∀ (n : Nat) (ctx : List String) (objs : List (Val α)), heightT objs < n →
      merge merger n ctx objs ≠ .error .outOfFuel := by
  intro n
  induction n with
  | zero => intro ctx objs h; omega
  | succ n ih =>
    intro ctx objs hn
    by_cases h1 : objs = []
    · subst h1; simp [merge]
    by_cases hnt : objs.any Val.isTup = true
    · rw [merge]
      by_cases hall : objs.all Val.isTup = true
      · simp only [hnt, hall]
        cases objs with
        | nil => exact absurd rfl h1
        | cons o r =>
          simp only [List.isEmpty_cons, Bool.false_eq_true, if_false, Bool.not_true, Bool.and_false,
            if_true]
          split
          · exact ctor_ne_outOfFuel _
          · simp
      · have hall' : objs.all Val.isTup = false := by simpa using hall
        cases objs with
        | nil => exact absurd rfl h1
        | cons o r => simp [hnt, hall']
    by_cases hsome : objs.any Val.isNode = true
    · have hnt' : objs.any Val.isTup = false := by simpa using hnt
      rw [merge_succ_group merger n ctx objs h1 hnt' hsome]
      intro hc
      cases hmm : (group objs).mapM (fun kvs =>
          (mergeEntry merger n ctx kvs.1 kvs.2).map (fun m => (kvs.1, m))) with
      | error e =>
        rw [hmm] at hc
        simp only [bind, Except.bind, Except.error.injEq] at hc
        subst hc
        obtain ⟨kvs, hk, hf⟩ := mapM_error_except _ _ _ hmm
        obtain ⟨k, vs⟩ := kvs
        have hlt := group_height objs hnt' hsome k vs hk
        simp only [mergeEntry] at hf
        split at hf
        · simp [Except.map] at hf
        · cases hr : merge merger n (ctx ++ [k]) vs with
          | ok v => rw [hr] at hf; simp [Except.map] at hf
          | error e =>
            rw [hr] at hf
            simp only [Except.map, Except.error.injEq] at hf
            subst hf
            exact ih (ctx ++ [k]) vs (by omega) hr
      | ok r =>
        rw [hmm] at hc
        exact ctor_ne_outOfFuel r hc
    · rw [merge]
      have hall : objs.all (fun o => !o.isNode) = true := by
        rw [List.all_eq_true]
        intro o ho
        have : objs.any Val.isNode = false := by simpa using hsome
        rw [List.any_eq_false] at this
        simpa using this o ho
      have hnt' : objs.any Val.isTup = false := by simpa using hnt
      have hall2 : objs.all Val.isTup = false := by
        cases objs with
        | nil => exact absurd rfl h1
        | cons o r =>
          simp only [List.any_cons, Bool.or_eq_false_iff] at hnt'
          simp [hnt'.1]
      cases objs with
      | nil => exact absurd rfl h1
      | cons o r =>
        simp only [List.isEmpty_cons, hnt', hall2, hall, Bool.false_eq_true, if_false, Bool.false_and,
          if_true]
        cases hmr : merger ((o :: r).flatMap leafOf) with
        | ok a => simp [Except.map]
        | error e =>
          simp only [Except.map]
          intro hc
          simp only [Except.error.injEq] at hc
          subst hc
          exact hm _ hmr

end FormulaicVerif.Proofs.C19
