import FormulaicVerif.Proofs.C03
import FormulaicVerif.Proofs.TensorRank
import Mathlib.Data.Finset.Sort
import Mathlib.Algebra.Field.Rat
/-! Bridge between the model's scoped terms (lists of `(expr, reduced)` over strings, components as
sorted string tuples) and the abstract scoped terms over `Fin n` of `Proofs/TensorRank.lean`. -/
namespace FormulaicVerif.Proofs.C03Bridge
open FormulaicVerif.Model FormulaicVerif.Spec FormulaicVerif.Proofs.C03 FormulaicVerif.Proofs.Sort
  FormulaicVerif.Proofs.TensorRank

variable {n : ℕ} (expr : Fin n → String)

/-- the coding flags of a model scoped term along the axes of a design -/
def codeOf (st : ST) : Code n :=
  fun i => (st.factors.find? (fun sf => sf.expr == expr i)).map (·.reduced)

/-- the canonical (sorted) name of a set of axes -/
noncomputable def canon (S : Finset (Fin n)) : List String := sortStrings (S.toList.map expr)

theorem find_of_mem {l : List SF} (hnd : (l.map (·.expr)).Nodup) {sf : SF} (hsf : sf ∈ l) :
    l.find? (fun g => g.expr == sf.expr) = some sf := by
  induction l with
  | nil => simp at hsf
  | cons g r ih =>
    simp only [List.map_cons, List.nodup_cons] at hnd
    simp only [List.mem_cons] at hsf
    rcases hsf with rfl | hsf
    · simp
    · have : g.expr ≠ sf.expr := fun e => hnd.1 (e ▸ List.mem_map_of_mem hsf)
      have hb : (g.expr == sf.expr) = false := by simpa using this
      rw [List.find?_cons, hb]
      exact ih hnd.2 hsf

theorem codeOf_eq_some {st : ST} (hnd : ExprNodup st) {sf : SF} (hsf : sf ∈ st.factors) {i : Fin n}
    (hi : expr i = sf.expr) : codeOf expr st i = some sf.reduced := by
  unfold codeOf
  rw [hi, find_of_mem hnd hsf]; rfl

theorem codeOf_ne_none {st : ST} {i : Fin n} (h : codeOf expr st i ≠ none) :
    ∃ sf ∈ st.factors, sf.expr = expr i := by
  unfold codeOf at h
  cases hf : st.factors.find? (fun sf => sf.expr == expr i) with
  | none => simp [hf] at h
  | some sf =>
    have h1 := List.find?_some hf
    exact ⟨sf, List.mem_of_find?_eq_some hf, by simpa using h1⟩

variable (c : Cache)

/-- mandatory in the abstract sense = not optional in the model's sense -/
theorem isMand_iff {st : ST} (hnd : ExprNodup st) {sf : SF} (hsf : sf ∈ st.factors) {i : Fin n}
    (hi : expr i = sf.expr) :
    isMand (fun i => spansOf c (expr i)) (codeOf expr st) i ↔ optionalSF (spansOf c) sf = false := by
  unfold isMand optionalSF
  rw [codeOf_eq_some expr hnd hsf hi]
  show _ ∨ (_ ∧ spansOf c (expr i) = false) ↔ _
  rw [hi]
  cases sf.reduced <;> cases spansOf c sf.expr <;> simp

/-- the structural components of a model scoped term, read as sets of axes, are the components of
its abstract counterpart -/
theorem mem_compsF_iff (hinj : Function.Injective expr) {st : ST} (hnd : ExprNodup st)
    (hcov : ∀ sf ∈ st.factors, ∃ i, expr i = sf.expr) (S : Finset (Fin n)) :
    S ∈ compsF (fun i => spansOf c (expr i)) (codeOf expr st) ↔ canon expr S ∈ comps (spansOf c) st := by
  constructor
  · intro hS
    -- the component as a sub-list of the term's factors
    let p : SF → Bool := fun sf => decide (∃ i ∈ S, expr i = sf.expr)
    have hp : ∀ f ∈ st.factors, optionalSF (spansOf c) f = false → p f = true := by
      intro f hf ho
      obtain ⟨i, hi⟩ := hcov f hf
      have := (hS i).2 ((isMand_iff expr c hnd hf hi).mpr ho)
      simp only [p, decide_eq_true_eq]
      exact ⟨i, this, hi⟩
    have hmem := filter_mem_rawComps (spansOf c) st.factors p hp
    unfold comps
    refine List.mem_map.mpr ⟨_, hmem, ?_⟩
    unfold canon
    rw [sortStrings_eq_iff_perm]
    have hn1 : ((st.factors.filter p).map (·.expr)).Nodup := ((List.filter_sublist).map _).nodup hnd
    have hn2 : (S.toList.map expr).Nodup := (S.nodup_toList).map hinj
    rw [List.perm_ext_iff_of_nodup hn1 hn2]
    intro e
    simp only [List.mem_map, List.mem_filter, Finset.mem_toList, p, decide_eq_true_eq]
    constructor
    · rintro ⟨sf, ⟨_, i, hiS, hi⟩, rfl⟩; exact ⟨i, hiS, hi⟩
    · rintro ⟨i, hiS, rfl⟩
      obtain ⟨sf, hsf, hsfe⟩ := codeOf_ne_none expr ((hS i).1 hiS)
      exact ⟨sf, ⟨hsf, i, hiS, hsfe.symm⟩, hsfe⟩
  · intro hc
    unfold comps at hc
    obtain ⟨cl, hcl, hsort⟩ := List.mem_map.mp hc
    unfold canon at hsort
    have hperm : cl.Perm (S.toList.map expr) := sortStrings_eq_iff_perm.mp hsort
    obtain ⟨hsub, hmand⟩ := rawComps_spec (spansOf c) st.factors hcl
    intro i
    constructor
    · intro hiS
      have : expr i ∈ cl := hperm.mem_iff.mpr (List.mem_map.mpr ⟨i, Finset.mem_toList.mpr hiS, rfl⟩)
      obtain ⟨sf, hsf, hsfe⟩ := List.mem_map.mp (hsub.subset this)
      rw [codeOf_eq_some expr hnd hsf hsfe.symm]
      simp
    · intro hm
      have hne : codeOf expr st i ≠ none := by
        rcases hm with h | ⟨h, _⟩ <;> simp [h]
      obtain ⟨sf, hsf, hsfe⟩ := codeOf_ne_none expr hne
      have ho := (isMand_iff expr c hnd hsf hsfe.symm).mp hm
      have : sf.expr ∈ S.toList.map expr := hperm.mem_iff.mp (hmand sf hsf ho)
      obtain ⟨j, hj, hje⟩ := List.mem_map.mp this
      have : j = i := hinj (hje.trans hsfe)
      subst this
      exact Finset.mem_toList.mp hj


section final
variable {K : Type} [Field K] {L JR JF : Fin n → Type}
  (R : (i : Fin n) → JR i → (L i → K)) (F : (i : Fin n) → JF i → (L i → K))

/-- the columns of a list of model scoped terms on the fully crossed design: for every term and
every choice of one encoded column per factor of the term, the row-wise product of the chosen columns -/
def structureColumns (E : List ST) :
    (Σ a : Fin E.length, ((i : Fin n) → (blk R F i (codeOf expr E[a] i)).J)) → (((i : Fin n) → L i) → K) :=
  fun x => stFamily R F (codeOf expr E[x.1]) x.2

theorem exists_fin_iff {α} (E : List α) (P : α → Prop) : (∃ a : Fin E.length, P E[a]) ↔ ∃ x ∈ E, P x := by
  constructor
  · rintro ⟨a, h⟩; exact ⟨E[a], List.getElem_mem _, h⟩
  · rintro ⟨x, hx, h⟩
    obtain ⟨i, hi, rfl⟩ := List.getElem_of_mem hx
    exact ⟨⟨i, hi⟩, h⟩

/-- from the combinatorial facts about two lists of model scoped terms to linear algebra on the
fully crossed design -/
theorem model_structure_full_rank_same_span (hinj : Function.Injective expr)
    (hyp : Hyp R F (fun i => spansOf c (expr i))) (E EF : List ST)
    (hndE : ∀ st ∈ E, ExprNodup st) (hndEF : ∀ st ∈ EF, ExprNodup st)
    (hcovE : ∀ st ∈ E, ∀ sf ∈ st.factors, ∃ i, expr i = sf.expr)
    (hcovEF : ∀ st ∈ EF, ∀ sf ∈ st.factors, ∃ i, expr i = sf.expr)
    (hfr : (compsAll (spansOf c) E).Nodup)
    (hspan : (compsAll (spansOf c) E).Perm (compsAll (spansOf c) EF).eraseDups) :
    LinearIndependent K (structureColumns expr R F E) ∧
    Submodule.span K (Set.range (structureColumns expr R F E)) =
      Submodule.span K (Set.range (structureColumns expr R F EF)) := by
  have hmemE : ∀ (S : Finset (Fin n)),
      (∃ a : Fin E.length, S ∈ compsF (fun i => spansOf c (expr i)) (codeOf expr E[a])) ↔
        canon expr S ∈ compsAll (spansOf c) E := by
    intro S
    rw [mem_compsAll, exists_fin_iff E (fun st => S ∈ compsF (fun i => spansOf c (expr i)) (codeOf expr st))]
    constructor
    · rintro ⟨st, hst, h⟩; exact ⟨st, hst, (mem_compsF_iff expr c hinj (hndE st hst) (hcovE st hst) S).mp h⟩
    · rintro ⟨st, hst, h⟩; exact ⟨st, hst, (mem_compsF_iff expr c hinj (hndE st hst) (hcovE st hst) S).mpr h⟩
  have hmemEF : ∀ (S : Finset (Fin n)),
      (∃ a : Fin EF.length, S ∈ compsF (fun i => spansOf c (expr i)) (codeOf expr EF[a])) ↔
        canon expr S ∈ compsAll (spansOf c) EF := by
    intro S
    rw [mem_compsAll, exists_fin_iff EF (fun st => S ∈ compsF (fun i => spansOf c (expr i)) (codeOf expr st))]
    constructor
    · rintro ⟨st, hst, h⟩; exact ⟨st, hst, (mem_compsF_iff expr c hinj (hndEF st hst) (hcovEF st hst) S).mp h⟩
    · rintro ⟨st, hst, h⟩; exact ⟨st, hst, (mem_compsF_iff expr c hinj (hndEF st hst) (hcovEF st hst) S).mpr h⟩
  apply reduced_structure_full_rank_same_span R F (fun i => spansOf c (expr i)) hyp
    (fun a : Fin E.length => codeOf expr E[a]) (fun b : Fin EF.length => codeOf expr EF[b])
  · intro a b hab
    rw [Set.disjoint_left]
    intro S hSa hSb
    have h1 := (mem_compsF_iff expr c hinj (hndE _ (List.getElem_mem _)) (hcovE _ (List.getElem_mem _)) S).mp hSa
    have h2 := (mem_compsF_iff expr c hinj (hndE _ (List.getElem_mem _)) (hcovE _ (List.getElem_mem _)) S).mp hSb
    exact disjoint_of_nodup_flatMap (comps (spansOf c)) E hfr a b hab _ h1 h2
  · ext S
    simp only [Set.mem_iUnion]
    rw [hmemE, hmemEF, hspan.mem_iff, List.mem_eraseDups]

end final


/-! ### helpers for the non-vacuity examples of `Props/C03.lean` -/

theorem ok_of_toOption {ε α} {e : Except ε α} {x : α} (h : e.toOption = some x) : e = .ok x := by
  cases e with
  | error _ => simp [Except.toOption] at h
  | ok y => simp [Except.toOption] at h; rw [h]

/-- a two-axis design named `A`, `B` -/
def dExpr : Fin 2 → String := fun i => if i = 0 then "A" else "B"
/-- treatment coding of a two-level factor: the indicator of the non-reference level -/
def dR : (i : Fin 2) → Unit → (Fin 2 → ℚ) := fun _ _ l => if l = 1 then 1 else 0
/-- full coding: one indicator per level -/
def dF : (i : Fin 2) → Fin 2 → (Fin 2 → ℚ) := fun _ l => Pi.single l 1

/-- two-level treatment-coded factors satisfy the per-factor hypothesis -/
theorem hyp_treatment2 (spans : Fin 2 → Bool) (hsp : ∀ i, spans i = true) : Hyp dR dF spans := by
  have hR : ∀ i, LinearIndependent ℚ (aug (dR i)) := by
    intro i
    rw [Fintype.linearIndependent_iff]
    intro g hg o
    have h0 := congrFun hg 0
    have h1 := congrFun hg 1
    simp [Fintype.sum_option, aug, dR] at h0 h1
    cases o with
    | none => exact h0
    | some u => cases u; simpa [h0] using h1
  refine ⟨hR, ?_, ?_, ?_⟩
  · intro i
    have := (Pi.basisFun ℚ (Fin 2)).linearIndependent
    have e : (⇑(Pi.basisFun ℚ (Fin 2)) : Fin 2 → (Fin 2 → ℚ)) = dF i := by
      funext l; simp [dF, Pi.basisFun_apply]
    rw [e] at this; exact this
  · intro i _
    have h1 : Submodule.span ℚ (Set.range (dF i)) = ⊤ := span_indicators
    rw [h1, span_aug_eq_top (dR i) (hR i) (by simp)]
  · intro i hi
    rw [hsp i] at hi
    exact absurd hi (by simp)

end FormulaicVerif.Proofs.C03Bridge
