import FormulaicVerif.Proofs.C19Dict
/-! Helper lemmas for C19, part 7: the contexts `_map` hands out address the leaves. Not obligations. -/
namespace FormulaicVerif.Proofs.C19
open FormulaicVerif.Model.St FormulaicVerif.Spec.Containers

variable {α β γ δ : Type}

theorem lookup_of_mem_nodup (d : List (String × γ)) (k : String) (v : γ) (h : (k, v) ∈ d)
    (hn : (d.map (·.1)).Nodup) : d.lookup k = some v := by
  induction d with
  | nil => simp at h
  | cons e r ih =>
    obtain ⟨k0, v0⟩ := e
    simp only [List.map_cons, List.nodup_cons] at hn
    rcases List.mem_cons.1 h with h1 | h2
    · cases h1; simp [List.lookup]
    · have hk : k ≠ k0 := by
        intro e; subst e
        exact hn.1 (List.mem_map.2 ⟨(k, v), h2, rfl⟩)
      have hb : (k == k0) = false := by simpa using hk
      simp [List.lookup, hb, ih h2 hn.2]

mutual
theorem flattenP_paths : ∀ (v : Val α) (ctx : Path) (a : α) (p : Path), WF v → (a, p) ∈ flattenP ctx v →
    ∃ q, p = ctx ++ q ∧ lookupPath q v = .ok (.leaf a)
  | .leaf b, ctx, a, p, _, h => by
    simp only [flattenP, List.mem_singleton, Prod.mk.injEq] at h
    exact ⟨[], by simp [h.2], by simp [lookupPath, h.1]⟩
  | .tup vs, ctx, a, p, hw, h => by
    simp only [flattenP] at h
    obtain ⟨j, q, v, hp, hv, hl⟩ := flattenPT_paths vs ctx 0 a p (by simpa [WF] using hw) h
    refine ⟨.idx j :: q, by simpa using hp, ?_⟩
    simp [lookupPath, hv, hl]
  | .node kvs, ctx, a, p, hw, h => by
    simp only [flattenP] at h
    simp only [WF] at hw
    obtain ⟨k, v, q, hm, hp, hl⟩ := flattenPI_paths kvs ctx a p hw.2 h
    refine ⟨.key k :: q, hp, ?_⟩
    simp [lookupPath, lookup_of_mem_nodup kvs k v hm hw.1, hl]
theorem flattenPT_paths : ∀ (vs : List (Val α)) (ctx : Path) (i : Nat) (a : α) (p : Path), WFT vs →
    (a, p) ∈ flattenPT ctx i vs →
    ∃ j q v, p = ctx ++ .idx (i + j) :: q ∧ vs[j]? = some v ∧ lookupPath q v = .ok (.leaf a)
  | [], ctx, i, a, p, _, h => by simp [flattenPT] at h
  | v :: vs, ctx, i, a, p, hw, h => by
    simp only [flattenPT, List.mem_append] at h
    simp only [WFT] at hw
    rcases h with h | h
    · obtain ⟨q, hp, hl⟩ := flattenP_paths v _ a p hw.1 h
      exact ⟨0, q, v, by simpa using hp, by simp, hl⟩
    · obtain ⟨j, q, v', hp, hv, hl⟩ := flattenPT_paths vs ctx (i + 1) a p hw.2 h
      refine ⟨j + 1, q, v', ?_, by simpa using hv, hl⟩
      rw [hp]; congr 3; omega
theorem flattenPI_paths : ∀ (kvs : Items α) (ctx : Path) (a : α) (p : Path), WFI kvs →
    (a, p) ∈ flattenPI ctx kvs →
    ∃ k v q, (k, v) ∈ kvs ∧ p = ctx ++ .key k :: q ∧ lookupPath q v = .ok (.leaf a)
  | [], ctx, a, p, _, h => by simp [flattenPI] at h
  | (k, v) :: r, ctx, a, p, hw, h => by
    simp only [flattenPI, List.mem_append] at h
    simp only [WFI] at hw
    rcases h with h | h
    · obtain ⟨q, hp, hl⟩ := flattenP_paths v _ a p hw.1 h
      exact ⟨k, v, q, by simp, by simpa using hp, hl⟩
    · obtain ⟨k', v', q, hm, hp, hl⟩ := flattenPI_paths r ctx a p hw.2 h
      exact ⟨k', v', q, by simp [hm], hp, hl⟩
end

end FormulaicVerif.Proofs.C19
