import FormulaicVerif.Proofs.C07Hist
/-! Helper lemmas for `Props.C07.hist_part_eq_standalone` (not obligations): under `EncDet` the lazily filled
encoder caches hold, for every key, THE encoded object of that factor under the call's drop list — whoever asked
first, with whatever encoder state — so a part built alone obtains the encodings it obtained in the joint call. -/
namespace FormulaicVerif.Proofs.C07HistEq
open FormulaicVerif.Model FormulaicVerif.Model.Parts FormulaicVerif.Model.PartsHist FormulaicVerif.Model.St
open FormulaicVerif.Spec.Containers FormulaicVerif.Proofs.C19 FormulaicVerif.Proofs.C07 FormulaicVerif.Proofs.C07Hist
open FormulaicVerif.Proofs.C02 FormulaicVerif.Proofs.Scoped

variable {ν τ σ : Type}

/-! ### dictionaries -/

theorem mem_of_lookup {κ γ} [BEq κ] [LawfulBEq κ] {k : κ} {v : γ} : ∀ {d : List (κ × γ)}, d.lookup k = some v → (k, v) ∈ d
  | [], h => by simp at h
  | (a, b) :: r, h => by
    simp only [List.lookup] at h
    split at h
    · rename_i hk
      have hka : k = a := by simpa using hk
      simp only [Option.some.injEq] at h
      subst h; subst hka; simp
    · exact List.mem_cons_of_mem _ (mem_of_lookup h)

theorem lookup_none_iff {κ γ} [BEq κ] [LawfulBEq κ] {k : κ} : ∀ {d : List (κ × γ)}, d.lookup k = none ↔ k ∉ d.map (·.1)
  | [] => by simp
  | (a, b) :: r => by
    simp only [List.lookup, List.map_cons, List.mem_cons, not_or]
    by_cases hk : k = a
    · subst hk; simp
    · have hb : (k == a) = false := by simpa using hk
      simp only [hb, lookup_none_iff (d := r), hk, not_false_eq_true, true_and]

theorem lookup_of_mem_nodup' {κ γ} [BEq κ] [LawfulBEq κ] : ∀ {d : List (κ × γ)} {k : κ} {v : γ},
    (d.map (·.1)).Nodup → (k, v) ∈ d → d.lookup k = some v
  | [], _, _, _, h => by simp at h
  | (a, b) :: r, k, v, hnd, h => by
    simp only [List.map_cons, List.nodup_cons] at hnd
    simp only [List.mem_cons, Prod.mk.injEq] at h
    rcases h with ⟨rfl, rfl⟩ | h
    · simp [List.lookup]
    · have hne : k ≠ a := by
        intro hc; apply hnd.1; rw [← hc]; exact List.mem_map.mpr ⟨(k, v), h, rfl⟩
      have hb : (k == a) = false := by simpa using hne
      simp only [List.lookup, hb]
      exact lookup_of_mem_nodup' hnd.2 h

/-! ### what the factor cache of a part answers -/

theorem metaCache_get_none (W : HWorld ν τ σ) : ∀ (memo : List (String × Evald ν)) (e : String),
    memo.lookup e = none → (metaCache W memo).get e = .error .keyError
  | [], e, _ => rfl
  | (k, v) :: r, e, h => by
    simp only [List.lookup] at h
    split at h
    · simp at h
    · rename_i hk
      have hne : ¬ (e = k) := by simpa using hk
      have hb : (k == e) = false := by simpa using fun hc : k = e => hne hc.symm
      have ih := metaCache_get_none W r e h
      simp only [metaCache, Cache.get, List.map_cons, List.find?_cons, hb] at ih ⊢
      exact ih

theorem metaCache_get_some (W : HWorld ν τ σ) : ∀ (memo : List (String × Evald ν)) (e : String) (v : Evald ν),
    memo.lookup e = some v →
    (metaCache W memo).get e = .ok ⟨e, (W.fmeta e v.values).present, (W.fmeta e v.values).kind,
      (W.fmeta e v.values).spans, blankEnc, blankEnc⟩
  | [], e, v, h => by simp at h
  | (k, v0) :: r, e, v, h => by
    simp only [List.lookup] at h
    split at h
    · rename_i hk
      have hek : e = k := by simpa using hk
      simp only [Option.some.injEq] at h
      subst h; subst hek
      simp [metaCache, Cache.get]
    · rename_i hk
      have hne : ¬ (e = k) := by simpa using hk
      have hb : (k == e) = false := by simpa using fun hc : k = e => hne hc.symm
      have ih := metaCache_get_some W r e v h
      simp only [metaCache, Cache.get, List.map_cons, List.find?_cons, hb] at ih ⊢
      exact ih

theorem partCache_get (c : Cache) (got : List (SF × Encoded)) (e : String) :
    (partCache c got).get e = (c.get e).map (fillEnc got) :=
  get_map (fillEnc_metaPres got) c e

/-- two memo tables that agree at `e` and two request logs that agree at both ranks of `e` give part caches
that agree at `e` -/
theorem partCache_get_congr (W : HWorld ν τ σ) {memo memo' : List (String × Evald ν)} {got got' : List (SF × Encoded)}
    {e : String} (hm : memo.lookup e = memo'.lookup e)
    (hf : got.lookup ⟨e, false⟩ = got'.lookup ⟨e, false⟩) (ht : got.lookup ⟨e, true⟩ = got'.lookup ⟨e, true⟩) :
    (partCache (metaCache W memo) got).get e = (partCache (metaCache W memo') got').get e := by
  rw [partCache_get, partCache_get]
  cases h : memo.lookup e with
  | none =>
    rw [metaCache_get_none W memo e h, metaCache_get_none W memo' e (by rw [← hm]; exact h)]
    rfl
  | some v =>
    rw [metaCache_get_some W memo e v h, metaCache_get_some W memo' e v (by rw [← hm]; exact h)]
    simp only [Except.map, fillEnc, hf, ht]

theorem metaCache_get_congr (W : HWorld ν τ σ) {memo memo' : List (String × Evald ν)} {e : String}
    (hm : memo.lookup e = memo'.lookup e) : (metaCache W memo).get e = (metaCache W memo').get e := by
  cases h : memo.lookup e with
  | none => rw [metaCache_get_none W memo e h, metaCache_get_none W memo' e (by rw [← hm]; exact h)]
  | some v => rw [metaCache_get_some W memo e v h, metaCache_get_some W memo' e v (by rw [← hm]; exact h)]

/-! ### soundness of the lazily filled caches under `EncDet` -/

/-- every cache entry holds THE encoded object of its factor under the drop list (for its rank; for both ranks
when the entry serves both) -/
def CacheSound (W : HWorld ν τ σ) (drop : List Nat) (memo : List (String × Evald ν)) (c : EncCaches σ) : Prop :=
  ∀ key x, (key, x) ∈ c.encoded → ∃ v, memo.lookup key.1 = some v ∧
    ∀ r, (key.2 = some r ∨ key.2 = none) → ∀ p, encObj (W.encode key.1 v.values drop r p) = .ok x

/-- every answer a part received is THE encoded object of the factor for the rank it asked for -/
def GotSound (W : HWorld ν τ σ) (drop : List Nat) (memo : List (String × Evald ν)) (got : List (SF × Encoded)) : Prop :=
  ∀ sf x, (sf, x) ∈ got → ∃ v, memo.lookup sf.expr = some v ∧ ∀ p, encObj (W.encode sf.expr v.values drop sf.reduced p) = .ok x

theorem cacheSound_empty (W : HWorld ν τ σ) (drop : List Nat) (memo : List (String × Evald ν)) :
    CacheSound W drop memo EncCaches.empty := by
  intro key x h; simp [EncCaches.empty] at h

theorem encObj_ok {r : Except String (Encoded × σ)} {x : Encoded} {st : σ} (h : r = .ok (x, st)) : encObj r = .ok x := by
  rw [h]; rfl

theorem ok_of_encObj {r : Except String (Encoded × σ)} {x : Encoded} (h : encObj r = .ok x) : ∃ st, r = .ok (x, st) := by
  cases r with
  | error c => simp [encObj] at h
  | ok xs =>
    obtain ⟨x', st⟩ := xs
    simp only [encObj, Except.ok.injEq] at h
    subst h; exact ⟨st, rfl⟩

theorem encodeStep_sound {W : HWorld ν τ σ} (hdet : EncDet W) {drop : List Nat} {memo : List (String × Evald ν)}
    {a a' : EncAcc σ} {sf : SF} (hc : CacheSound W drop memo a.caches) (hg : GotSound W drop memo a.got)
    (h : encodeStep W drop memo a sf = .ok a') :
    CacheSound W drop memo a'.caches ∧ GotSound W drop memo a'.got ∧ ∃ x, a'.got = a.got ++ [(sf, x)] := by
  unfold encodeStep at h
  cases hm : memo.lookup sf.expr with
  | none => simp [hm] at h
  | some v =>
    simp only [hm] at h
    cases hl : cacheLookup a.caches sf.expr sf.reduced with
    | some x =>
      simp only [hl, Except.ok.injEq] at h
      subst h
      refine ⟨hc, ?_, x, rfl⟩
      -- a hit: the entry is sound for the rank asked for
      have hx : ∃ v', memo.lookup sf.expr = some v' ∧ ∀ p, encObj (W.encode sf.expr v'.values drop sf.reduced p) = .ok x := by
        unfold cacheLookup at hl
        cases h1 : a.caches.encoded.lookup (sf.expr, none) with
        | some y =>
          rw [h1] at hl
          simp only [Option.some.injEq] at hl
          subst hl
          obtain ⟨v', hv', hs⟩ := hc _ _ (mem_of_lookup h1)
          exact ⟨v', hv', fun p => hs sf.reduced (.inr rfl) p⟩
        | none =>
          rw [h1] at hl
          obtain ⟨v', hv', hs⟩ := hc _ _ (mem_of_lookup hl)
          exact ⟨v', hv', fun p => hs sf.reduced (.inl rfl) p⟩
      intro sf' x' hmem
      simp only [List.mem_append, List.mem_singleton, Prod.mk.injEq] at hmem
      rcases hmem with hmem | ⟨rfl, rfl⟩
      · exact hg sf' x' hmem
      · exact hx
    | none =>
      simp only [hl] at h
      cases he : W.encode sf.expr v.values drop sf.reduced
          (((encAfterSetdefault a.caches a.enc sf.expr).lookup sf.expr).map (·.state)) with
      | error cls => simp [he] at h
      | ok xs =>
        obtain ⟨x, st'⟩ := xs
        simp only [he, Except.ok.injEq] at h
        subst h
        have hobj := encObj_ok he
        refine ⟨?_, ?_, x, rfl⟩
        · intro key y hmem
          simp only [List.mem_append, List.mem_singleton, Prod.mk.injEq] at hmem
          rcases hmem with hmem | ⟨hkey, rfl⟩
          · exact hc key y hmem
          · by_cases hs : (W.fmeta sf.expr v.values).shareRanks = true
            · simp only [hs, if_true] at hkey
              subst hkey
              refine ⟨v, hm, fun r _ p => ?_⟩
              rw [hdet sf.expr v.values drop r sf.reduced p _ (.inr hs)]; exact hobj
            · simp only [hs, Bool.false_eq_true, if_false] at hkey
              subst hkey
              refine ⟨v, hm, fun r hr p => ?_⟩
              rcases hr with hr | hr
              · simp only [Option.some.injEq] at hr
                subst hr
                rw [hdet sf.expr v.values drop sf.reduced sf.reduced p _ (.inl rfl)]; exact hobj
              · simp at hr
        · intro sf' x' hmem
          simp only [List.mem_append, List.mem_singleton, Prod.mk.injEq] at hmem
          rcases hmem with hmem | ⟨rfl, rfl⟩
          · exact hg sf' x' hmem
          · refine ⟨v, hm, fun p => ?_⟩
            rw [hdet sf'.expr v.values drop sf'.reduced sf'.reduced p _ (.inl rfl)]; exact hobj

theorem encodeLoop_sound {W : HWorld ν τ σ} (hdet : EncDet W) {drop : List Nat} {memo : List (String × Evald ν)} :
    ∀ (trace : List SF) {a a' : EncAcc σ}, CacheSound W drop memo a.caches → GotSound W drop memo a.got →
    foldE (encodeStep W drop memo) a trace = .ok a' →
    CacheSound W drop memo a'.caches ∧ GotSound W drop memo a'.got ∧ a'.got.map (·.1) = a.got.map (·.1) ++ trace
  | [], a, a', hc, hg, h => by
    simp only [foldE, Except.ok.injEq] at h
    subst h; exact ⟨hc, hg, by simp⟩
  | sf :: r, a, a', hc, hg, h => by
    simp only [foldE] at h
    cases hs : encodeStep W drop memo a sf with
    | error e => simp [hs] at h
    | ok a1 =>
      simp only [hs] at h
      obtain ⟨c1, g1, x, hx⟩ := encodeStep_sound hdet hc hg hs
      obtain ⟨c2, g2, k2⟩ := encodeLoop_sound hdet r c1 g1 h
      refine ⟨c2, g2, ?_⟩
      rw [k2, hx]; simp


/-! ### the same part built alone: the encoder loop succeeds and answers the same -/

/-- when a sound log of the joint call has an answer for every request of the trace, the loop over the trace
succeeds from ANY caches over a memo table that agrees on the requested factors -/
theorem encodeLoop_ok {W : HWorld ν τ σ} {drop : List Nat} {memo memo' : List (String × Evald ν)}
    {gotJ : List (SF × Encoded)} (hgJ : GotSound W drop memo gotJ) :
    ∀ (trace : List SF) (a : EncAcc σ), (∀ sf ∈ trace, sf ∈ gotJ.map (·.1)) →
      (∀ sf ∈ trace, memo'.lookup sf.expr = memo.lookup sf.expr) →
      ∃ a', foldE (encodeStep W drop memo') a trace = .ok a'
  | [], a, _, _ => ⟨a, rfl⟩
  | sf :: r, a, hin, hm => by
    obtain ⟨kv, hkv, hk⟩ := List.mem_map.mp (hin sf (by simp))
    obtain ⟨v, hv, hs⟩ := hgJ kv.1 kv.2 hkv
    rw [hk] at hv hs
    have hstep : ∃ a1, encodeStep W drop memo' a sf = .ok a1 := by
      unfold encodeStep
      rw [hm sf (by simp), hv]
      simp only
      cases hl : cacheLookup a.caches sf.expr sf.reduced with
      | some x => exact ⟨_, rfl⟩
      | none =>
        simp only
        obtain ⟨st, hst⟩ := ok_of_encObj (hs (((encAfterSetdefault a.caches a.enc sf.expr).lookup sf.expr).map (·.state)))
        rw [hst]
        exact ⟨_, rfl⟩
    obtain ⟨a1, h1⟩ := hstep
    obtain ⟨a', h'⟩ := encodeLoop_ok hgJ r a1 (fun x hx => hin x (by simp [hx])) (fun x hx => hm x (by simp [hx]))
    exact ⟨a', by simp only [foldE, h1]; exact h'⟩

/-- two sound logs answer a request alike -/
theorem got_lookup_congr {W : HWorld ν τ σ} {drop : List Nat} {memo memo' : List (String × Evald ν)}
    {got got' : List (SF × Encoded)} (hg : GotSound W drop memo got) (hg' : GotSound W drop memo' got')
    (sf : SF) (hm : memo'.lookup sf.expr = memo.lookup sf.expr)
    (hk : sf ∈ got.map (·.1) ↔ sf ∈ got'.map (·.1)) : got.lookup sf = got'.lookup sf := by
  cases h : got.lookup sf with
  | none =>
    have : sf ∉ got'.map (·.1) := fun hc => (lookup_none_iff.mp h) (hk.mpr hc)
    rw [lookup_none_iff.mpr this]
  | some x =>
    have hin : sf ∈ got'.map (·.1) := hk.mp (mem_keys_of_lookup h)
    cases h' : got'.lookup sf with
    | none => exact absurd hin (lookup_none_iff.mp h')
    | some x' =>
      obtain ⟨v, hv, hs⟩ := hg sf x (mem_of_lookup h)
      obtain ⟨v', hv', hs'⟩ := hg' sf x' (mem_of_lookup h')
      rw [hm, hv] at hv'
      simp only [Option.some.injEq] at hv'
      subst hv'
      have := (hs none).symm.trans (hs' none)
      simp only [Except.ok.injEq] at this
      rw [this]

/-- the scoped terms of a part only mention factors of the part's own terms -/
theorem scopedTermsOf_exprs {o : Opts} {c : Cache} {spec : Spec τ} {scp : List (MTerm × List ST)}
    (h : scopedTermsOf o c spec = .ok scp)
    (hstruct : ∀ str, spec.struct = some str → ∀ s ∈ str, ∀ st ∈ s.sts, ∀ sf ∈ st.factors, sf.expr ∈ exprsOf spec.terms) :
    ∀ sf ∈ encodeTrace scp, sf.expr ∈ exprsOf spec.terms := by
  unfold scopedTermsOf at h
  intro sf hsf
  simp only [encodeTrace, List.mem_flatMap] at hsf
  obtain ⟨pr, hpr, st, hst, hsf⟩ := hsf
  cases hs : spec.struct with
  | some str =>
    simp only [hs] at h
    cases hc : clusterTerms c o.cluster spec.terms with
    | error x => simp [hc] at h
    | ok ts =>
      simp only [hc, Except.ok.injEq] at h
      subst h
      obtain ⟨s, hs1, rfl⟩ := List.mem_map.mp hpr
      exact hstruct str hs s hs1 st hst sf hsf
  | none =>
    simp only [hs] at h
    cases hc : clusterTerms c o.cluster spec.terms with
    | error x => simp [hc] at h
    | ok ts =>
      simp only [hc] at h
      cases hg : getScopedTerms c o.efr [] ts with
      | error e => simp [hg] at h
      | ok r =>
        simp only [hg, Except.ok.injEq] at h
        subst h
        obtain ⟨h1, h2⟩ := getScopedTerms_exprs hg pr hpr
        exact List.mem_flatten.mpr ⟨pr.1, clusterTerms_mem hc h1, h2 st hst sf hsf⟩

theorem scopedTermsOf_congr {c1 c2 : Cache} (o : Opts) (spec : Spec τ)
    (h : ∀ e ∈ exprsOf spec.terms, c1.get e = c2.get e) : scopedTermsOf o c1 spec = scopedTermsOf o c2 spec := by
  have h' : ∀ t ∈ spec.terms, ∀ e ∈ t, c1.get e = c2.get e :=
    fun t ht e he => h e (List.mem_flatten.mpr ⟨t, ht, he⟩)
  unfold scopedTermsOf
  rw [clusterTerms_congr o.cluster h']
  cases hs : spec.struct with
  | some str => rfl
  | none =>
    simp only
    cases hc : clusterTerms c2 o.cluster spec.terms with
    | error x => rfl
    | ok ts =>
      simp only
      rw [getScopedTerms_congr o.efr [] (fun t ht => h' t (clusterTerms_mem hc ht))]

/-- ONE part built again — other caches, another memo table that agrees on the part's factors, the same drop
list — is the same matrix with the same recorded structure -/
theorem buildPartH_again {W : HWorld ν τ σ} (hdet : EncDet W) {mc : MatClass} {memo memo' : List (String × Evald ν)}
    {drop : List Nat} {pooled pooled' : TState τ} {c c1 c' : EncCaches σ} {x : HSpec τ σ} {p : PartH τ σ}
    (hb : buildPartH W mc memo drop pooled c x = .ok (p, c1))
    (hc : CacheSound W drop memo c) (hc' : CacheSound W drop memo' c')
    (hm : ∀ e ∈ exprsOf x.core.terms, memo'.lookup e = memo.lookup e)
    (hstruct : ∀ str, x.core.struct = some str → ∀ s ∈ str, ∀ st ∈ s.sts, ∀ sf ∈ st.factors, sf.expr ∈ exprsOf x.core.terms) :
    ∃ p' c2, buildPartH W mc memo' drop pooled' c' x = .ok (p', c2) ∧ p'.matrix = p.matrix ∧
      p'.spec.core.struct = p.spec.core.struct ∧ p'.spec.core.terms = p.spec.core.terms ∧
      CacheSound W drop memo c1 ∧ CacheSound W drop memo' c2 := by
  obtain ⟨scp, a, q, hscp, hfold, hq, hp, hc1⟩ := buildPartH_spec hb
  obtain ⟨cs, gs, gk⟩ := encodeLoop_sound hdet (encodeTrace scp) hc (fun _ _ h => by simp at h) hfold
  simp only [List.map_nil, List.nil_append] at gk
  -- the scoped terms, hence the requests, are the same
  have hget0 : ∀ e ∈ exprsOf x.core.terms, (metaCache W memo').get e = (metaCache W memo).get e :=
    fun e he => metaCache_get_congr W (hm e he)
  have hscp' : scopedTermsOf (optsOfLeaf mc x) (metaCache W memo') x.core = .ok scp := by
    rw [scopedTermsOf_congr _ _ hget0]; exact hscp
  have htr := scopedTermsOf_exprs hscp hstruct
  -- the encoder loop succeeds again
  obtain ⟨a', hfold'⟩ := encodeLoop_ok (memo' := memo') gs (encodeTrace scp) ⟨c', x.enc, []⟩
    (fun sf hsf => by rw [gk]; exact hsf) (fun sf hsf => hm sf.expr (htr sf hsf))
  obtain ⟨cs', gs', gk'⟩ := encodeLoop_sound hdet (encodeTrace scp) hc' (fun _ _ h => by simp at h) hfold'
  simp only [List.map_nil, List.nil_append] at gk'
  -- and answers the same, so the part caches agree on the part's factors
  have hgot : ∀ e ∈ exprsOf x.core.terms, ∀ r, a.got.lookup ⟨e, r⟩ = a'.got.lookup ⟨e, r⟩ :=
    fun e he r => got_lookup_congr gs gs' ⟨e, r⟩ (hm e he) (by rw [gk, gk'])
  have hpc : ∀ e ∈ exprsOf x.core.terms,
      (partCache (metaCache W memo) a.got).get e = (partCache (metaCache W memo') a'.got).get e :=
    fun e he => partCache_get_congr W (hm e he).symm (hgot e he false) (hgot e he true)
  obtain ⟨q', hq', e1, e2, e3, _⟩ := buildPart_congr (optsOfLeaf mc x) W.nrows drop pooled pooled' x.core hpc
    (fun str hs s hs1 st hst sf hsf => hpc _ (hstruct str hs s hs1 st hst sf hsf)) hq
  refine ⟨⟨q'.matrix, { x with core := q'.spec, enc := a'.enc }⟩, a'.caches, ?_, ?_, ?_, ?_, ?_, cs'⟩
  · simp only [buildPartH, hscp', hfold', hq']
  · rw [hp]; exact e1
  · rw [hp]; exact e2
  · rw [hp]; exact e3
  · rw [hc1]; exact cs

/-- the caches stay sound along a whole call -/
theorem buildLeaves_sound {W : HWorld ν τ σ} (hdet : EncDet W) {mc : MatClass} {memo : List (String × Evald ν)}
    {drop : List Nat} {pooled : TState τ} : ∀ {L : List (HSpec τ σ)} {c c' : EncCaches σ} {ps : List (PartH τ σ)},
    CacheSound W drop memo c → buildLeaves W mc memo drop pooled c L = .ok (ps, c') →
    List.Forall₂ (fun h p => ∃ c1 c2, CacheSound W drop memo c1 ∧ buildPartH W mc memo drop pooled c1 h = .ok (p, c2)) L ps
  | [], c, c', ps, _, h => by
    simp only [buildLeaves, Except.ok.injEq, Prod.mk.injEq] at h
    rw [← h.1]; exact .nil
  | x :: L, c, c', ps, hc, h => by
    simp only [buildLeaves] at h
    cases hb : buildPartH W mc memo drop pooled c x with
    | error e => simp [hb] at h
    | ok pc =>
      obtain ⟨p, c1⟩ := pc
      simp only [hb] at h
      cases hr : buildLeaves W mc memo drop pooled c1 L with
      | error e => simp [hr] at h
      | ok r =>
        obtain ⟨ps', c2⟩ := r
        simp only [hr, Except.ok.injEq, Prod.mk.injEq] at h
        rw [← h.1]
        obtain ⟨scp, a, q, _, hfold, _, _, hc1⟩ := buildPartH_spec hb
        obtain ⟨cs, _, _⟩ := encodeLoop_sound hdet (encodeTrace scp) hc (fun _ _ h => by simp at h) hfold
        exact .cons ⟨c, c1, hc, hb⟩ (buildLeaves_sound hdet (by rw [hc1]; exact cs) hr)


/-! ### the evaluation phase of the part built alone -/

theorem alone_eval {W : HWorld ν τ σ} {penc' : EncDict σ} {st0' : TState τ} {memo : List (String × Evald ν)}
    {D dropSet : List Nat} (hD : D = sortSet dropSet) (hnd : (memo.map (·.1)).Nodup)
    (hnulls : ∀ e v, (e, v) ∈ memo → ∀ i ∈ v.nulls, i ∈ dropSet) (E : List String)
    (hev : ∀ e ∈ E, ∃ v w, (e, v) ∈ memo ∧ evalG W penc' e st0' = .ok (v, w)) (perm' : List String) (t0 : TState τ) :
    ∃ s', evalAllH W st0' penc' ⟨[], D, t0⟩ (iterOrder (dedup E) perm') = .ok s' ∧ sortSet s'.drop = D ∧
      ∀ e ∈ E, s'.memo.lookup e = memo.lookup e := by
  have hok : ∀ e ∈ iterOrder (dedup E) perm', ∃ r, (guardWorld W penc').eval e st0' = .ok r := by
    intro e he
    obtain ⟨v, w, _, hw⟩ := hev e (mem_dedup.mp (mem_iterOrder.mp he))
    exact ⟨_, hw⟩
  obtain ⟨s', hs'⟩ := evalAll_ok (guardWorld W penc') st0' _ ⟨[], D, t0⟩ hok
  obtain ⟨nd', hm', hd'⟩ := evalAll_empty hs'
  simp only [mem_iterOrder, mem_dedup] at hm'
  have hagree : ∀ e v, (e, v) ∈ s'.memo ↔ (e ∈ E ∧ (e, v) ∈ memo) := by
    intro e v
    rw [hm']
    constructor
    · rintro ⟨he, w, hw⟩
      obtain ⟨v0, w0, hmem, hw0⟩ := hev e he
      have hw' : evalG W penc' e st0' = .ok (v, w) := hw
      rw [hw'] at hw0
      simp only [Except.ok.injEq, Prod.mk.injEq] at hw0
      exact ⟨he, by rw [hw0.1]; exact hmem⟩
    · rintro ⟨he, hmem⟩
      obtain ⟨v0, w0, hmem0, hw0⟩ := hev e he
      have := memo_fun hnd hmem hmem0
      exact ⟨he, w0, by rw [this]; exact hw0⟩
  have hDs : D.Pairwise (· < ·) := by rw [hD]; exact sortSet_sorted _
  refine ⟨s', by rw [evalAllH_eq]; exact hs', ?_, ?_⟩
  · apply sortSet_eq_of_sorted hDs
    intro i
    rw [hd']
    constructor
    · rintro (h | ⟨e, v, hmem, hi⟩)
      · exact h
      · rw [hD, mem_sortSet]
        exact hnulls e v ((hagree e v).mp hmem).2 i hi
    · exact fun h => .inl h
  · intro e he
    obtain ⟨v, w, hmem, _⟩ := hev e he
    rw [lookup_of_mem_nodup' hnd hmem, lookup_of_mem_nodup' nd' ((hagree e v).mpr ⟨he, hmem⟩)]

/-- the pooled quantities only look at the formula terms, the transform state and the encoder state of the specs -/
theorem pooled_congr {L₁ L₂ : List (HSpec τ σ)} (h : List.Forall₂ (fun a b => b.core = a.core ∧ b.enc = a.enc) L₁ L₂) :
    pooledStateL L₂ = pooledStateL L₁ ∧ pooledEncL L₂ = pooledEncL L₁ ∧ pooledFactorsL L₂ = pooledFactorsL L₁ := by
  have hc : L₂.map (·.core) = L₁.map (·.core) := by
    induction h with
    | nil => rfl
    | cons hab _ ih => simp [hab.1, ih]
  have he : L₂.map (·.enc) = L₁.map (·.enc) := by
    clear hc
    induction h with
    | nil => rfl
    | cons hab _ ih => simp [hab.2, ih]
  have e1 : ∀ L : List (HSpec τ σ), pooledStateL L = (L.map (·.core)).foldl (fun acc c => St.dictUpdate acc c.state) [] := by
    intro L; simp [pooledStateL, List.foldl_map]
  have e2 : ∀ L : List (HSpec τ σ), pooledEncL L = (L.map (·.enc)).foldl (fun acc c => St.dictUpdate acc c) [] := by
    intro L; simp [pooledEncL, List.foldl_map]
  have e3 : ∀ L : List (HSpec τ σ), pooledFactorsL L = dedup ((L.map (·.core)).flatMap (fun c => exprsOf c.terms)) := by
    intro L; simp [pooledFactorsL, List.flatMap_map]
  exact ⟨by rw [e1, e1, hc], by rw [e2, e2, he], by rw [e3, e3, hc]⟩

theorem mem_pooledFactorsL {L : List (HSpec τ σ)} {e : String} :
    e ∈ pooledFactorsL L ↔ ∃ x ∈ L, e ∈ exprsOf x.core.terms := by
  simp [pooledFactorsL, mem_dedup, List.mem_flatMap]


/-! ### the theorem for one leaf -/

theorem single_flatten (x : HSpec τ σ) : flatten (norm (Val.node [("root", Val.leaf x)])) = [x] := by
  simp [norm, normI, rootLast, isRootKey, flatten, flattenI]

theorem rebuild_single (x : HSpec τ σ) (p : PartH τ σ) :
    rebuild (norm (Val.node [("root", Val.leaf x)])) [p] = .ok (Val.node [("root", Val.leaf p)]) := by
  simp [norm, normI, rootLast, isRootKey, rebuild, refill, refillI]

/-- a part of a joint call, built again ALONE (a new materializer object, the joint drop list supplied) -/
theorem standalone_of_joint {W : HWorld ν τ σ} (hdet : EncDet W) {mc : MatClass} {params : Params} {ov : Overrides}
    {x x' : HSpec τ σ} (hx' : prepareLeaf mc params (applyOv ov x) = .ok x')
    {memo : List (String × Evald ν)} {D dropSet : List Nat} {stJ : TState τ} {c1 c2 : EncCaches σ} {p : PartH τ σ}
    (hD : D = sortSet dropSet) (hnd : (memo.map (·.1)).Nodup)
    (hnulls : ∀ e v, (e, v) ∈ memo → ∀ i ∈ v.nulls, i ∈ dropSet)
    (hc1 : CacheSound W D memo c1) (hb : buildPartH W mc memo D stJ c1 x' = .ok (p, c2))
    (hev : ∀ e ∈ exprsOf x.core.terms, ∃ v w, (e, v) ∈ memo ∧ evalG W (pooledEncL [x]) e (pooledStateL [x]) = .ok (v, w))
    (hstruct : ∀ str, x.core.struct = some str → ∀ s ∈ str, ∀ st ∈ s.sts, ∀ sf ∈ st.factors, sf.expr ∈ exprsOf x.core.terms)
    (perm' : List String) :
    ∃ j', materializeH W mc params (.node [("root", .leaf x)]) ov perm' D = .ok j' ∧ j'.drop = D ∧
      ∃ p', flatten j'.parts = [p'] ∧ p'.matrix = p.matrix ∧ p'.spec.core.struct = p.spec.core.struct ∧
        p'.spec.core.terms = p.spec.core.terms := by
  obtain ⟨_, _, hcore, henc, _⟩ := prepareLeaf_spec hx'
  have hcore' : x'.core = x.core := by rw [hcore]; rfl
  have henc' : x'.enc = x.enc := by rw [henc]; rfl
  obtain ⟨hps, hpe, hpf⟩ := pooled_congr (L₁ := [x]) (L₂ := [x']) (.cons ⟨hcore', henc'⟩ .nil)
  have hE : pooledFactorsL [x'] = dedup (exprsOf x.core.terms) := by
    rw [hpf]; simp [pooledFactorsL]
  obtain ⟨s', hs', hdrop, hlook⟩ := alone_eval (penc' := pooledEncL [x']) (st0' := pooledStateL [x']) hD hnd hnulls
    (exprsOf x.core.terms) (by rw [hps, hpe]; exact hev) perm' (pooledStateL [x'])
  obtain ⟨p', c3, hb', e1, e2, e3, _, _⟩ := buildPartH_again hdet (memo' := s'.memo) (pooled' := s'.state) (c' := EncCaches.empty)
    hb hc1 (cacheSound_empty W D s'.memo) (by rw [hcore']; exact hlook) (by rw [hcore']; exact hstruct)
  refine ⟨⟨.node [("root", .leaf p')], D, s'.drop, s'.state, s'.memo⟩, ?_, rfl, p', by simp [flatten, flattenI], e1, e2, e3⟩
  have hcons : consistent [x'] = true := by simp [consistent, dedupD]
  simp only [materializeH, MatObj.call, core, single_flatten, mapL, hx', hcons, Bool.not_true, Bool.false_eq_true, if_false,
    MatObj.empty, hE, hs', hdrop, buildLeaves, hb', rebuild_single]

end FormulaicVerif.Proofs.C07HistEq
