import FormulaicVerif.Model.StructuredOps
import FormulaicVerif.Proofs.C19Extra
import FormulaicVerif.Spec.ContainerOps
/-! Helper lemmas for C19, part 7: the container protocol of `Structured` (`Model/StructuredOps.lean`).
Not obligations. -/
namespace FormulaicVerif.Proofs.C19
open FormulaicVerif.Model FormulaicVerif.Model.St FormulaicVerif.Model.StOps FormulaicVerif.Spec.Containers
open FormulaicVerif.Spec.ContainerOps

variable {α : Type}

/-! ### `__getitem__` -/

theorem rootOnly_lookup (kvs : Items α) (h : rootOnly kvs = true) :
    ∃ k r rest, kvs = (k, r) :: rest ∧ kvs.lookup "root" = some r := by
  cases kvs with
  | nil => simp [rootOnly] at h
  | cons kv rest =>
    obtain ⟨k, r⟩ := kv
    refine ⟨k, r, rest, rfl, ?_⟩
    simp only [rootOnly, List.isEmpty_cons, Bool.not_false, Bool.true_and, List.all_cons,
      Bool.and_eq_true] at h
    have hk : k = "root" := by simpa [isRootKey] using h.1
    subst hk
    simp [List.lookup]

theorem getItem_node (item : α → Key → Except StOps.Err (Val α)) (kvs : Items α) (key : Key) :
    getItem item (.node kvs) key =
      if rootOnly kvs then
        match kvs.lookup "root" with
        | some r => getItem item r key
        | none => plainGet kvs key
      else plainGet kvs key := by
  cases kvs with
  | nil => simp [getItem, rootOnly]
  | cons kv rest =>
    obtain ⟨k, r⟩ := kv
    rw [getItem]
    by_cases h : rootOnly ((k, r) :: rest) = true
    · obtain ⟨k', r', rest', he, hl⟩ := rootOnly_lookup _ h
      simp only [List.cons.injEq, Prod.mk.injEq] at he
      obtain ⟨⟨rfl, rfl⟩, rfl⟩ := he
      simp only [h, if_true, hl]
    · simp only [h, Bool.false_eq_true, if_false]

/-! ### paths -/

theorem setAt_node : ∀ (p : List Key) (last : Key) (kvs : Items α) (v s' : Val α),
    setAt p last (.node kvs) v = .ok s' → ∃ kvs', s' = .node kvs'
  | [], last, kvs, v, s', h => by
    simp only [setAt] at h
    cases hs : setKey kvs last v with
    | ok r => rw [hs] at h; simp [Except.map] at h; exact ⟨r, h.symm⟩
    | error e => rw [hs] at h; simp [Except.map] at h
  | .str k :: p, last, kvs, v, s', h => by
    simp only [setAt] at h
    cases hl : kvs.lookup k with
    | none => simp [hl] at h
    | some c =>
      simp only [hl] at h
      cases hs : setAt p last c v with
      | ok c' => rw [hs] at h; simp [Except.map] at h; exact ⟨_, h.symm⟩
      | error e => rw [hs] at h; simp [Except.map] at h
  | .int i :: p, last, kvs, v, s', h => by simp [setAt] at h
  | .none :: p, last, kvs, v, s', h => by simp [setAt] at h

theorem lookupPath_append : ∀ (p q : List Key) (s : Val α),
    lookupPathK (p ++ q) s = (lookupPathK p s) >>= (lookupPathK q)
  | [], q, s => by simp [lookupPathK, bind, Except.bind]
  | .str k :: p, q, .node kvs => by
    simp only [List.cons_append, lookupPathK]
    cases kvs.lookup k with
    | none => rfl
    | some c => exact lookupPath_append p q c
  | .int i :: p, q, .tup vs => by
    simp only [List.cons_append, lookupPathK]
    cases pyIdx i vs.length with
    | none => rfl
    | some n =>
      simp only []
      cases vs[n]? with
      | none => rfl
      | some c => exact lookupPath_append p q c
  | .str k :: p, q, .tup vs => by simp [lookupPathK, bind, Except.bind]
  | .str k :: p, q, .leaf a => by simp [lookupPathK, bind, Except.bind]
  | .int i :: p, q, .node kvs => by simp [lookupPathK, bind, Except.bind]
  | .int i :: p, q, .leaf a => by simp [lookupPathK, bind, Except.bind]
  | .none :: p, q, s => by cases s <;> simp [lookupPathK, bind, Except.bind]

/-- reading back what a path assignment wrote (and anything below it) -/
theorem setAt_lookup_same : ∀ (p : List Key) (k : String) (s v s' : Val α) (q : List Key),
    setAt p (.str k) s v = .ok s' → lookupPathK (p ++ .str k :: q) s' = lookupPathK q v
  | [], k, .node kvs, v, s', q, h => by
    simp only [setAt, setKey] at h
    split at h
    · simp [Except.map] at h
    · split at h
      · simp [Except.map] at h
      · simp only [Except.map, Except.ok.injEq] at h
        subst h
        simp [lookupPathK, lookup_dictSet]
  | [], k, .tup vs, v, s', q, h => by simp [setAt] at h
  | [], k, .leaf a, v, s', q, h => by simp [setAt] at h
  | .str k0 :: p, k, .node kvs, v, s', q, h => by
    simp only [setAt] at h
    cases hl : kvs.lookup k0 with
    | none => simp [hl] at h
    | some c =>
      simp only [hl] at h
      cases hs : setAt p (.str k) c v with
      | error e => rw [hs] at h; simp [Except.map] at h
      | ok c' =>
        rw [hs] at h
        simp only [Except.map, Except.ok.injEq] at h
        subst h
        simp only [List.cons_append, lookupPathK, lookup_dictSet, beq_self_eq_true, if_true]
        exact setAt_lookup_same p k c v c' q hs
  | .int i :: p, k, .tup vs, v, s', q, h => by
    simp only [setAt] at h
    cases hi : pyIdx i vs.length with
    | none => simp [hi] at h
    | some n =>
      simp only [hi] at h
      cases hv : vs[n]? with
      | none => simp [hv] at h
      | some c =>
        simp only [hv] at h
        cases hs : setAt p (.str k) c v with
        | error e => rw [hs] at h; simp [Except.map] at h
        | ok c' =>
          rw [hs] at h
          simp only [Except.map, Except.ok.injEq] at h
          subst h
          have hn : n < vs.length := by
            rcases List.getElem?_eq_some_iff.1 hv with ⟨hlt, _⟩; exact hlt
          simp only [List.cons_append, lookupPathK, List.length_set, hi]
          rw [List.getElem?_set_self hn]
          exact setAt_lookup_same p k c v c' q hs
  | .str k0 :: p, k, .tup vs, v, s', q, h => by simp [setAt] at h
  | .str k0 :: p, k, .leaf a, v, s', q, h => by simp [setAt] at h
  | .int i :: p, k, .node kvs, v, s', q, h => by simp [setAt] at h
  | .int i :: p, k, .leaf a, v, s', q, h => by simp [setAt] at h
  | .none :: p, k, s, v, s', q, h => by cases s <;> simp [setAt] at h

theorem pyIdx_lt {i : Int} {n m : Nat} (h : pyIdx i n = some m) : m < n := by
  unfold pyIdx at h
  split at h
  · split at h
    · simp only [Option.some.injEq] at h; omega
    · simp at h
  · split at h
    · simp only [Option.some.injEq] at h; omega
    · simp at h

theorem pyIdx_apart {i j : Int} {n a b : Nat} (hi : pyIdx i n = some a) (hj : pyIdx j n = some b)
    (h : ((0 ≤ i ∧ 0 ≤ j) ∨ (i < 0 ∧ j < 0)) ∧ i ≠ j) : a ≠ b := by
  unfold pyIdx at hi hj
  rcases h with ⟨h | h, hne⟩
  · have h1 : 0 ≤ i := h.1
    have h2 : 0 ≤ j := h.2
    simp only [h1, h2, if_true] at hi hj
    split at hi <;> split at hj <;> simp only [Option.some.injEq, reduceCtorEq] at hi hj
    omega
  · have h1 : ¬ 0 ≤ i := by omega
    have h2 : ¬ 0 ≤ j := by omega
    simp only [h1, h2, if_false] at hi hj
    split at hi <;> split at hj <;> simp only [Option.some.injEq, reduceCtorEq] at hi hj
    omega

/-- the first step of a lookup in the object a path assignment returns, for a step that is apart
from the first step of the assignment, is the same step in the old object -/
theorem setAt_first_other (p : List Key) (last : Key) (s v s' : Val α) (a b : Key) (rest q2 : List Key)
    (h : setAt p last s v = .ok s') (hp : p ++ [last] = a :: rest) (hab : Apart a b) :
    lookupPathK (b :: q2) s' = lookupPathK (b :: q2) s := by
  cases p with
  | nil =>
    simp only [List.nil_append, List.cons.injEq] at hp
    obtain ⟨rfl, -⟩ := hp
    cases s with
    | leaf x => simp [setAt] at h
    | tup vs => simp [setAt] at h
    | node kvs =>
      simp only [setAt, setKey] at h
      cases last with
      | none => simp [Except.map] at h
      | int i => simp [Except.map] at h
      | str k =>
        simp only [] at h
        split at h
        · simp [Except.map] at h
        · split at h
          · simp [Except.map] at h
          · simp only [Except.map, Except.ok.injEq] at h
            subst h
            cases b with
            | none => simp [lookupPathK]
            | int j => simp [lookupPathK]
            | str k' =>
              have hne : (k' == k) = false := by
                have : k ≠ k' := hab
                simpa using (Ne.symm this)
              simp [lookupPathK, lookup_dictSet, hne]
  | cons x p1 =>
    simp only [List.cons_append, List.cons.injEq] at hp
    obtain ⟨rfl, -⟩ := hp
    cases x with
    | none => cases s <;> simp [setAt] at h
    | str k0 =>
      cases s with
      | leaf y => simp [setAt] at h
      | tup vs => simp [setAt] at h
      | node kvs =>
        simp only [setAt] at h
        cases hl : kvs.lookup k0 with
        | none => simp [hl] at h
        | some c =>
          simp only [hl] at h
          cases hs : setAt p1 last c v with
          | error e => rw [hs] at h; simp [Except.map] at h
          | ok c' =>
            rw [hs] at h
            simp only [Except.map, Except.ok.injEq] at h
            subst h
            cases b with
            | none => simp [lookupPathK]
            | int j => simp [lookupPathK]
            | str k' =>
              have hne : (k' == k0) = false := by
                have : k0 ≠ k' := hab
                simpa using (Ne.symm this)
              simp [lookupPathK, lookup_dictSet, hne]
    | int i =>
      cases s with
      | leaf y => simp [setAt] at h
      | node kvs => simp [setAt] at h
      | tup vs =>
        simp only [setAt] at h
        cases hi : pyIdx i vs.length with
        | none => simp [hi] at h
        | some n =>
          simp only [hi] at h
          cases hv : vs[n]? with
          | none => simp [hv] at h
          | some c =>
            simp only [hv] at h
            cases hs : setAt p1 last c v with
            | error e => rw [hs] at h; simp [Except.map] at h
            | ok c' =>
              rw [hs] at h
              simp only [Except.map, Except.ok.injEq] at h
              subst h
              cases b with
              | none => simp [lookupPathK]
              | str k' => simp [lookupPathK]
              | int j =>
                simp only [lookupPathK, List.length_set]
                cases hj : pyIdx j vs.length with
                | none => rfl
                | some m =>
                  have hnm : n ≠ m := pyIdx_apart hi hj hab
                  simp only []
                  rw [List.getElem?_set_ne hnm]

/-- one common step: both objects are entered the same way and the assignment continues below -/
theorem setAt_lookup_other : ∀ (c p : List Key) (last : Key) (s v s' : Val α) (a b : Key)
    (rest q2 : List Key), setAt p last s v = .ok s' → p ++ [last] = c ++ a :: rest → Apart a b →
    lookupPathK (c ++ b :: q2) s' = lookupPathK (c ++ b :: q2) s
  | [], p, last, s, v, s', a, b, rest, q2, h, hp, hab => by
    simpa using setAt_first_other p last s v s' a b rest q2 h (by simpa using hp) hab
  | x :: c, [], last, s, v, s', a, b, rest, q2, h, hp, hab => by
    simp only [List.nil_append, List.cons_append, List.cons.injEq] at hp
    have := hp.2
    simp at this
  | x :: c, y :: p1, last, s, v, s', a, b, rest, q2, h, hp, hab => by
    simp only [List.cons_append, List.cons.injEq] at hp
    obtain ⟨rfl, hp⟩ := hp
    cases y with
    | none => cases s <;> simp [setAt] at h
    | str k0 =>
      cases s with
      | leaf y => simp [setAt] at h
      | tup vs => simp [setAt] at h
      | node kvs =>
        simp only [setAt] at h
        cases hl : kvs.lookup k0 with
        | none => simp [hl] at h
        | some ch =>
          simp only [hl] at h
          cases hs : setAt p1 last ch v with
          | error e => rw [hs] at h; simp [Except.map] at h
          | ok ch' =>
            rw [hs] at h
            simp only [Except.map, Except.ok.injEq] at h
            subst h
            simp only [List.cons_append, lookupPathK, lookup_dictSet, beq_self_eq_true, if_true, hl]
            exact setAt_lookup_other c p1 last ch v ch' a b rest q2 hs hp hab
    | int i =>
      cases s with
      | leaf y => simp [setAt] at h
      | node kvs => simp [setAt] at h
      | tup vs =>
        simp only [setAt] at h
        cases hi : pyIdx i vs.length with
        | none => simp [hi] at h
        | some n =>
          simp only [hi] at h
          cases hv : vs[n]? with
          | none => simp [hv] at h
          | some ch =>
            simp only [hv] at h
            cases hs : setAt p1 last ch v with
            | error e => rw [hs] at h; simp [Except.map] at h
            | ok ch' =>
              rw [hs] at h
              simp only [Except.map, Except.ok.injEq] at h
              subst h
              have hn : n < vs.length := pyIdx_lt hi
              simp only [List.cons_append, lookupPathK, List.length_set, hi, hv]
              rw [List.getElem?_set_self hn]
              exact setAt_lookup_other c p1 last ch v ch' a b rest q2 hs hp hab

/-- when a path assignment succeeds -/
theorem setAt_ok_iff : ∀ (p : List Key) (last : Key) (s v : Val α),
    (∃ s', setAt p last s v = .ok s') ↔
      ∃ kvs k, lookupPathK p s = .ok (.node kvs) ∧ last = .str k ∧ isIdent k = true ∧ badKey k = false
  | [], last, s, v => by
    cases s with
    | leaf a => simp [setAt, lookupPathK]
    | tup vs => simp [setAt, lookupPathK]
    | node kvs =>
      cases last with
      | none => simp [setAt, setKey, Except.map, lookupPathK]
      | int i => simp [setAt, setKey, Except.map, lookupPathK]
      | str k =>
        simp only [setAt, setKey, lookupPathK, Except.ok.injEq, Val.node.injEq, Key.str.injEq,
          exists_and_left, exists_eq_left']
        cases isIdent k <;> cases badKey k <;> simp [Except.map]
  | .str k0 :: p, last, .node kvs, v => by
    simp only [setAt, lookupPathK]
    cases hl : kvs.lookup k0 with
    | none => simp
    | some c =>
      simp only []
      rw [← setAt_ok_iff p last c v]
      constructor
      · rintro ⟨s', h⟩
        cases hs : setAt p last c v with
        | error e => rw [hs] at h; simp [Except.map] at h
        | ok c' => exact ⟨c', rfl⟩
      · rintro ⟨c', h⟩
        exact ⟨_, by rw [h]; rfl⟩
  | .int i :: p, last, .tup vs, v => by
    simp only [setAt, lookupPathK]
    cases hi : pyIdx i vs.length with
    | none => simp
    | some n =>
      simp only []
      cases hv : vs[n]? with
      | none => simp
      | some c =>
        simp only []
        rw [← setAt_ok_iff p last c v]
        constructor
        · rintro ⟨s', h⟩
          cases hs : setAt p last c v with
          | error e => rw [hs] at h; simp [Except.map] at h
          | ok c' => exact ⟨c', rfl⟩
        · rintro ⟨c', h⟩
          exact ⟨_, by rw [h]; rfl⟩
  | .str k0 :: p, last, .tup vs, v => by simp [setAt, lookupPathK]
  | .str k0 :: p, last, .leaf a, v => by simp [setAt, lookupPathK]
  | .int i :: p, last, .node kvs, v => by simp [setAt, lookupPathK]
  | .int i :: p, last, .leaf a, v => by simp [setAt, lookupPathK]
  | .none :: p, last, s, v => by cases s <;> simp [setAt, lookupPathK]

/-- a path assignment whose prefix cannot be walked raises what the walk raises -/
theorem setAt_lookup_error : ∀ (p : List Key) (last : Key) (s v : Val α) (e : StOps.Err),
    lookupPathK p s = .error e → setAt p last s v = .error e
  | [], last, s, v, e, h => by simp [lookupPathK] at h
  | .str k0 :: p, last, .node kvs, v, e, h => by
    simp only [lookupPathK] at h
    simp only [setAt]
    cases hl : kvs.lookup k0 with
    | none => simpa [hl] using h
    | some c =>
      simp only [hl] at h ⊢
      rw [setAt_lookup_error p last c v e h]; rfl
  | .int i :: p, last, .tup vs, v, e, h => by
    simp only [lookupPathK] at h
    simp only [setAt]
    cases hi : pyIdx i vs.length with
    | none => simpa [hi] using h
    | some n =>
      simp only [hi] at h ⊢
      cases hv : vs[n]? with
      | none => simpa [hv] using h
      | some c =>
        simp only [hv] at h ⊢
        rw [setAt_lookup_error p last c v e h]; rfl
  | .str k0 :: p, last, .tup vs, v, e, h => by simpa [setAt, lookupPathK] using h
  | .str k0 :: p, last, .leaf a, v, e, h => by simpa [setAt, lookupPathK] using h
  | .int i :: p, last, .node kvs, v, e, h => by simpa [setAt, lookupPathK] using h
  | .int i :: p, last, .leaf a, v, e, h => by simpa [setAt, lookupPathK] using h
  | .none :: p, last, s, v, e, h => by cases s <;> simpa [setAt, lookupPathK] using h

theorem setAny_path (kvs : Items α) (p : List Key) (last : Key) (v : Val α) :
    setAny kvs (.path (p ++ [last])) v =
      match setAt p last (.node kvs) v with
      | .ok (.node kvs') => .ok kvs'
      | .ok _ => .error .keyError
      | .error e => .error e := by
  cases h : p ++ [last] with
  | nil => simp at h
  | cons k r =>
    simp only [setAny]
    have h1 : (k :: r).dropLast = p := by rw [← h]; simp
    have h2 : (k :: r).getLast (List.cons_ne_nil k r) = last := by
      simp only [← h]; simp
    rw [h1, h2]
    cases setAt p last (.node kvs) v with
    | error e => rfl
    | ok s => cases s <;> rfl

/-- a successful path assignment on a `Structured`, in terms of `setAt` -/
theorem setAny_path_ok (kvs kvs' : Items α) (p : List Key) (last : Key) (v : Val α) :
    setAny kvs (.path (p ++ [last])) v = .ok kvs' ↔ setAt p last (.node kvs) v = .ok (.node kvs') := by
  rw [setAny_path]
  cases h : setAt p last (.node kvs) v with
  | error e => simp
  | ok s =>
    obtain ⟨r, rfl⟩ := setAt_node p last kvs v s h
    simp

end FormulaicVerif.Proofs.C19
