import FormulaicVerif.Proofs.C16Accept
import FormulaicVerif.Model.ConstraintForms
import Mathlib.Tactic.Ring
/-! Helper lemmas for C16, part 9: the specification forms and the constructor (not obligations). -/
namespace FormulaicVerif.Proofs.C16Forms
open FormulaicVerif.Model.Constraints FormulaicVerif.Model.ConstraintForms FormulaicVerif.Spec.Affine
open FormulaicVerif.Proofs.C16

/-- a row of numbers as an array-like -/
def rowArr (r : List Rat) : Arr := .seq (r.map .num)
/-- a table of numbers as an array-like (a sequence of rows) -/
def ratMatrix (M : List (List Rat)) : Arr := .seq (M.map rowArr)
def numCells (r : List Rat) : List Cell := r.map .num

/-! ### `numpy.array` on rows and tables of numbers -/

theorem leavesL_nums (r : List Rat) : leavesL (r.map Arr.num) = numCells r := by
  induction r with
  | nil => simp [leavesL, numCells]
  | cons q r ih => simp [leavesL, Arr.leaves, ih, numCells]

theorem leaves_rowArr (r : List Rat) : (rowArr r).leaves = numCells r := by
  simp [rowArr, Arr.leaves, leavesL_nums]

theorem sameShape_nums (r : List Rat) : sameShape [] (r.map Arr.num) = .ok () := by
  induction r with
  | nil => simp [sameShape]
  | cons q r ih => simp [sameShape, Arr.shape, ih]

theorem shape_rowArr (r : List Rat) : (rowArr r).shape = .ok [r.length] := by
  cases r with
  | nil => simp [rowArr, Arr.shape]
  | cons q r => simp [rowArr, Arr.shape, sameShape_nums]

theorem sameShape_rows_ok (n : Nat) (M : List (List Rat)) (h : ∀ r ∈ M, r.length = n) :
    sameShape [n] (M.map rowArr) = .ok () := by
  induction M with
  | nil => simp [sameShape]
  | cons r M ih =>
    have hr := h r (by simp)
    simp only [List.map_cons, sameShape, shape_rowArr, hr, if_true]
    exact ih (fun r' hr' => h r' (by simp [hr']))

theorem sameShape_rows_inv (n : Nat) (M : List (List Rat)) (u : Unit) (h : sameShape [n] (M.map rowArr) = .ok u) :
    ∀ r ∈ M, r.length = n := by
  induction M with
  | nil => intro r hr; cases hr
  | cons r M ih =>
    simp only [List.map_cons, sameShape, shape_rowArr] at h
    by_cases hr : r.length = n
    · simp only [hr, if_true] at h
      intro r' hr'
      rcases List.mem_cons.mp hr' with rfl | hm
      · exact hr
      · exact ih h r' hm
    · simp [hr] at h

/-- the shape of a non-empty table: defined exactly when all rows have one length -/
theorem shape_ratMatrix (r : List Rat) (M : List (List Rat)) (s : List Nat) :
    (ratMatrix (r :: M)).shape = .ok s ↔ s = [M.length + 1, r.length] ∧ ∀ r' ∈ M, r'.length = r.length := by
  simp only [ratMatrix, List.map_cons, Arr.shape, shape_rowArr]
  cases hs : sameShape [r.length] (M.map rowArr) with
  | error e =>
    simp only [reduceCtorEq, false_iff, not_and]
    intro _ hall
    rw [sameShape_rows_ok _ _ hall] at hs; cases hs
  | ok u =>
    simp only [Except.ok.injEq, List.length_map]
    constructor
    · intro h; exact ⟨h.symm, sameShape_rows_inv _ _ u hs⟩
    · intro h; exact h.1.symm

theorem shape_ratMatrix_error (r : List Rat) (M : List (List Rat)) (e : FErr) (h : (ratMatrix (r :: M)).shape = .error e) :
    e = .inhomogeneous := by
  simp only [ratMatrix, List.map_cons, Arr.shape, shape_rowArr] at h
  have : ∀ (M : List (List Rat)) (n : Nat) (e : FErr), sameShape [n] (M.map rowArr) = .error e → e = .inhomogeneous := by
    intro M
    induction M with
    | nil => intro n e h; simp [sameShape] at h
    | cons r M ih =>
      intro n e h
      simp only [List.map_cons, sameShape, shape_rowArr] at h
      by_cases hr : r.length = n
      · simp only [hr, if_true] at h; exact ih n e h
      · simp only [List.cons.injEq, hr, and_true, if_false, Except.error.injEq] at h; exact h.symm
  cases hs : sameShape [r.length] (M.map rowArr) with
  | error e' => rw [hs] at h; simp only [Except.error.injEq] at h; subst h; exact this _ _ _ hs
  | ok u => rw [hs] at h; cases h

theorem children_ratMatrix (M : List (List Rat)) : (ratMatrix M).children.map Arr.leaves = M.map numCells := by
  simp only [ratMatrix, Arr.children, List.map_map]
  apply List.map_congr_left
  intro r _
  exact leaves_rowArr r

/-! ### the constructor on what the compiler hands it -/

/-- the instance built from a compiled `(A, b)` over the columns `ns` -/
def compiledLC (A : List (List Rat)) (b : List Rat) (ns : List String) : LC :=
  { matrix := A.map numCells, ncols := ns.length, values := numCells b,
    names := finalNames ns A.length }

theorem defaultNames_zero : defaultNames 0 = [] := rfl

theorem initND_compiled (A : List (List Rat)) (b : List Rat) (ns : List String) (h : b.length = A.length) :
    initND (matrixND A ns.length) (vectorND b) (some ns) = .ok (compiledLC A b ns) := by
  have hm : (matrixND A ns.length).tree.children.map Arr.leaves = A.map numCells := children_ratMatrix A
  have hv : (vectorND b).tree.leaves = numCells b := leaves_rowArr b
  cases ns with
  | nil =>
    simp only [initND, rowIfFlat, matrixND, vectorND, broadcastValues, resolveNames, List.length_nil, defaultNames_zero,
      validate, h, ne_eq, not_true_eq_false, if_false, compiledLC]
    rw [← hm, ← hv]; rfl
  | cons n ns =>
    simp only [initND, rowIfFlat, matrixND, vectorND, broadcastValues, resolveNames, validate, h, ne_eq, not_true_eq_false,
      if_false, compiledLC]
    rw [← hm, ← hv]; rfl

theorem fromSpec_lengths {sh : Shuffle} (hsh : IsShuffle sh) (names parse) (spec : Spec) {A b}
    (h : fromSpec sh names parse spec = .ok (A, b)) : b.length = A.length := by
  obtain ⟨cs, _, hr⟩ := fromSpec_sound hsh names parse spec h
  rw [hr.lengths.1, hr.lengths.2]

/-- the formula forms: compile, then wrap (the constructor cannot fail on a compiled result) -/
theorem formula_eq {sh : Shuffle} (hsh : IsShuffle sh) (parse) (ns : List String) (spec : Spec) :
    formula sh parse (some ns) spec = match fromSpec sh ns parse spec with
      | .error e => .error (.compile e)
      | .ok (A, b) => .ok (compiledLC A b ns) := by
  unfold formula
  cases h : fromSpec sh ns parse spec with
  | error e => simp only [h]
  | ok r =>
    obtain ⟨A, b⟩ := r
    simp only [h]
    exact initND_compiled A b ns (fromSpec_lengths hsh ns parse spec h)

/-- the three formula forms as Python objects -/
def encode : Spec → PyVal
  | .str s => .str s
  | .list ss => .list (ss.map .text)
  | .dict items => .dict items

theorem allText_texts (ss : List String) : allText (ss.map Arr.text) = some ss := by
  induction ss with
  | nil => rfl
  | cons s ss ih => simp [allText, ih]

theorem fromSpecAny_encode (sh : Shuffle) (parse) (names : Option (List String)) (spec : Spec) :
    fromSpecAny sh parse names (encode spec) = formula sh parse names spec := by
  cases spec with
  | str s => rfl
  | dict items => rfl
  | list ss => simp only [encode, fromSpecAny, allText_texts]

/-! ### the constructor on a table -/

/-- `variable_names or [x0 … x(n-1)]` -/
def resolved (names : Option (List String)) (n : Nat) : List String :=
  match names with
  | some (x :: xs) => x :: xs
  | _ => defaultNames n

theorem resolveNames_2d (names : Option (List String)) (k n : Nat) (rest : List Nat) :
    resolveNames names (k :: n :: rest) = .ok (resolved names n) := by
  cases names with
  | none => rfl
  | some ns => cases ns <;> rfl

theorem length_defaultNames (n : Nat) : (defaultNames n).length = n := by simp [defaultNames]

/-- the constructor on a 2-D matrix and 1-D values: two validations are left -/
theorem initND_2d (mt vt : Arr) (k n k' : Nat) (names : Option (List String)) :
    initND ⟨[k, n], mt⟩ ⟨[k'], vt⟩ names =
      if k' ≠ k then .error .rowsMismatch
      else if (resolved names n).length ≠ n then .error .namesMismatch
      else .ok { matrix := mt.children.map Arr.leaves, ncols := n, values := vt.leaves,
                 names := finalNames (resolved names n) k } := by
  simp only [initND, rowIfFlat, broadcastValues, resolveNames_2d, validate]

theorem leavesL_replicate (k : Nat) (q : Rat) : leavesL (List.replicate k (Arr.num q)) = List.replicate k (Cell.num q) := by
  induction k with
  | zero => rfl
  | succ k ih => simp [List.replicate_succ, leavesL, Arr.leaves, ih]

/-- the constructor on a 2-D matrix and a scalar number: the value is repeated for every row -/
theorem initND_2d_scalar (mt : Arr) (k n : Nat) (q : Rat) (names : Option (List String)) :
    initND ⟨[k, n], mt⟩ ⟨[], .num q⟩ names =
      if (resolved names n).length ≠ n then .error .namesMismatch
      else .ok { matrix := mt.children.map Arr.leaves, ncols := n, values := List.replicate k (.num q),
                 names := finalNames (resolved names n) k } := by
  simp only [initND, rowIfFlat, broadcastValues, Arr.leaves, resolveNames_2d, validate, ne_eq,
    not_true_eq_false, if_false, leavesL_replicate]

/-- **(matrix, values)**: accepted exactly when the table is rectangular, there is one value per row and
the names (if any are given) are one per column; the instance holds the table and the values as given -/
theorem initLC_pair (r : List Rat) (M : List (List Rat)) (v : List Rat) (names : Option (List String)) (lc : LC) :
    initLC (ratMatrix (r :: M)) (rowArr v) names = .ok lc ↔
      (∀ r' ∈ M, r'.length = r.length) ∧ v.length = M.length + 1 ∧ (resolved names r.length).length = r.length ∧
      lc = { matrix := (r :: M).map numCells, ncols := r.length, values := numCells v,
             names := finalNames (resolved names r.length) (M.length + 1) } := by
  unfold initLC npArray
  cases hs : (ratMatrix (r :: M)).shape with
  | error e =>
    simp only [reduceCtorEq, false_iff, not_and]
    intro hall
    rw [((shape_ratMatrix r M _).mpr ⟨rfl, hall⟩)] at hs; cases hs
  | ok s =>
    obtain ⟨rfl, hall⟩ := (shape_ratMatrix r M s).mp hs
    simp only [shape_rowArr, initND_2d, children_ratMatrix, leaves_rowArr]
    by_cases h1 : v.length = M.length + 1
    · by_cases h2 : (resolved names r.length).length = r.length
      · simp only [h1, h2, ne_eq, not_true_eq_false, if_false, Except.ok.injEq]
        constructor
        · intro h; exact ⟨hall, trivial, trivial, h.symm⟩
        · intro h; exact h.2.2.2.symm
      · simp [h1, h2]
    · simp [h1]

/-- **(matrix, scalar)** and the bare matrix (scalar 0): one value per row, all equal -/
theorem initLC_scalar (r : List Rat) (M : List (List Rat)) (q : Rat) (names : Option (List String)) (lc : LC) :
    initLC (ratMatrix (r :: M)) (.num q) names = .ok lc ↔
      (∀ r' ∈ M, r'.length = r.length) ∧ (resolved names r.length).length = r.length ∧
      lc = { matrix := (r :: M).map numCells, ncols := r.length, values := List.replicate (M.length + 1) (.num q),
             names := finalNames (resolved names r.length) (M.length + 1) } := by
  unfold initLC npArray
  cases hs : (ratMatrix (r :: M)).shape with
  | error e =>
    simp only [reduceCtorEq, false_iff, not_and]
    intro hall
    rw [((shape_ratMatrix r M _).mpr ⟨rfl, hall⟩)] at hs; cases hs
  | ok s =>
    obtain ⟨rfl, hall⟩ := (shape_ratMatrix r M s).mp hs
    simp only [Arr.shape, initND_2d_scalar, children_ratMatrix]
    by_cases h2 : (resolved names r.length).length = r.length
    · simp only [h2, ne_eq, not_true_eq_false, if_false, Except.ok.injEq]
      constructor
      · intro h; exact ⟨hall, trivial, h.symm⟩
      · intro h; exact h.2.2.symm
    · simp [h2]

/-- a flat row is a one-row table -/
theorem initLC_flat_row (r : List Rat) (v : Arr) (names : Option (List String)) :
    initLC (rowArr r) v names = initLC (ratMatrix [r]) v names := by
  unfold initLC npArray
  have h1 : (ratMatrix [r]).shape = .ok [1, r.length] := (shape_ratMatrix r [] _).mpr ⟨rfl, by simp⟩
  rw [shape_rowArr, h1]
  cases hv : v.shape with
  | error e => rfl
  | ok s => simp only [initND, rowIfFlat, ratMatrix, List.map_cons, List.map_nil]

/-! ### shapes and contents of arbitrary nests -/

theorem sameShape_mem (s : List Nat) : ∀ (ys : List Arr) (u : Unit), sameShape s ys = .ok u → ∀ y ∈ ys, y.shape = .ok s := by
  intro ys
  induction ys with
  | nil => intro u _ y hy; cases hy
  | cons y ys ih =>
    intro u h y' hy'
    simp only [sameShape] at h
    cases hy : y.shape with
    | error e => rw [hy] at h; cases h
    | ok t =>
      rw [hy] at h
      simp only at h
      by_cases ht : t = s
      · subst ht
        simp only [if_true] at h
        rcases List.mem_cons.mp hy' with rfl | hm
        · exact hy
        · exact ih u h y' hm
      · simp [ht] at h

theorem shape_seq_cons (x : Arr) (xs : List Arr) (s : List Nat) (h : (Arr.seq (x :: xs)).shape = .ok s) :
    ∃ sx, s = (xs.length + 1) :: sx ∧ ∀ c ∈ x :: xs, c.shape = .ok sx := by
  simp only [Arr.shape] at h
  cases hx : x.shape with
  | error e => rw [hx] at h; cases h
  | ok sx =>
    rw [hx] at h
    simp only at h
    cases hs : sameShape sx xs with
    | error e => rw [hs] at h; cases h
    | ok u =>
      rw [hs] at h
      simp only [Except.ok.injEq] at h
      refine ⟨sx, h.symm, ?_⟩
      intro c hc
      rcases List.mem_cons.mp hc with rfl | hm
      · exact hx
      · exact sameShape_mem sx xs u hs c hm

mutual
theorem leaves_length : ∀ (a : Arr) (s : List Nat), a.shape = .ok s → a.leaves.length = s.prod
  | .num _, s, h => by simp only [Arr.shape, Except.ok.injEq] at h; subst h; simp [Arr.leaves]
  | .text _, s, h => by simp only [Arr.shape, Except.ok.injEq] at h; subst h; simp [Arr.leaves]
  | .seq [], s, h => by simp only [Arr.shape, Except.ok.injEq] at h; subst h; simp [Arr.leaves, leavesL]
  | .seq (x :: xs), s, h => by
    obtain ⟨sx, rfl, hall⟩ := shape_seq_cons x xs s h
    simp only [Arr.leaves, List.prod_cons]
    rw [leavesL_length (x :: xs) sx hall]
    simp
theorem leavesL_length : ∀ (xs : List Arr) (s : List Nat), (∀ x ∈ xs, x.shape = .ok s) → (leavesL xs).length = xs.length * s.prod
  | [], _, _ => by simp [leavesL]
  | x :: xs, s, h => by
    simp only [leavesL, List.length_append, List.length_cons]
    rw [leaves_length x s (h x (by simp)), leavesL_length xs s (fun y hy => h y (by simp [hy]))]
    ring
end

/-- a `LinearConstraints` instance hangs together: one value per row, every row as wide as `ncols`, one name per
column — except that with NO column the constructor stores `x0 … x(rows-1)` (code as it is) -/
def WellShaped (lc : LC) : Prop :=
  lc.values.length = lc.matrix.length ∧ (∀ r ∈ lc.matrix, r.length = lc.ncols) ∧
    (lc.names.length = lc.ncols ∨ (lc.ncols = 0 ∧ lc.names = defaultNames lc.matrix.length))

theorem shape_children (a : Arr) (k : Nat) (s : List Nat) (h : a.shape = .ok (k :: s)) :
    a.children.length = k ∧ ∀ c ∈ a.children, c.shape = .ok s := by
  cases a with
  | num q => simp [Arr.shape] at h
  | text t => simp [Arr.shape] at h
  | seq xs =>
    cases xs with
    | nil =>
      simp only [Arr.shape, Except.ok.injEq, List.cons.injEq] at h
      simp [Arr.children, h.1.symm]
    | cons x xs =>
      obtain ⟨sx, hs, hall⟩ := shape_seq_cons x xs _ h
      simp only [List.cons.injEq] at hs
      obtain ⟨rfl, rfl⟩ := hs
      exact ⟨by simp [Arr.children], hall⟩

theorem finalNames_shape (ns : List String) (n k : Nat) (h : ns.length = n) :
    (finalNames ns k).length = n ∨ (n = 0 ∧ finalNames ns k = defaultNames k) := by
  cases ns with
  | nil => right; exact ⟨h.symm, rfl⟩
  | cons x xs => left; exact h

theorem validate_wellShaped (m v : ND) (hm : m.tree.shape = .ok m.shape) (hv : v.tree.shape = .ok v.shape)
    (names : List String) (lc : LC) (h : validate m v names = .ok lc) : WellShaped lc := by
  unfold validate at h
  split at h
  · rename_i k n hmk
    split at h
    · rename_i k' hvk
      by_cases h1 : k' = k
      · by_cases h2 : names.length = n
        · simp only [h1, h2, ne_eq, not_true_eq_false, if_false, Except.ok.injEq] at h
          subst h
          rw [hmk] at hm
          rw [hvk] at hv
          obtain ⟨hc, hcs⟩ := shape_children _ _ _ hm
          refine ⟨?_, ?_, ?_⟩
          · simp only [List.length_map, hc, leaves_length _ _ hv]; simp [h1]
          · intro r hr
            obtain ⟨c, hcm, rfl⟩ := List.mem_map.mp hr
            rw [leaves_length c _ (hcs c hcm)]; simp
          · simp only [List.length_map, hc]
            exact finalNames_shape names n k h2
        · simp [h1, h2] at h
      · simp [h1] at h
    · cases h
  · cases h

theorem rowIfFlat_coherent (m : ND) (hm : m.tree.shape = .ok m.shape) : (rowIfFlat m).tree.shape = .ok (rowIfFlat m).shape := by
  unfold rowIfFlat
  split
  · rename_i n hn
    simp only [Arr.shape, hm, hn, sameShape, List.length_nil, Nat.zero_add]
  · exact hm

theorem sameShape_replicate (k : Nat) (q : Rat) : sameShape [] (List.replicate k (Arr.num q)) = .ok () := by
  induction k with
  | zero => rfl
  | succ k ih => simp [List.replicate_succ, sameShape, Arr.shape, ih]

theorem broadcast_coherent (m v v' : ND) (hv : v.tree.shape = .ok v.shape) (h : broadcastValues m v = .ok v') :
    v'.tree.shape = .ok v'.shape := by
  unfold broadcastValues at h
  split at h
  · split at h
    · cases h
    · rename_i k _ _
      split at h
      · simp only [Except.ok.injEq] at h; subst h
        cases k with
        | zero => rfl
        | succ k => simp [List.replicate_succ, Arr.shape, sameShape_replicate]
      · cases h
  · simp only [Except.ok.injEq] at h; subst h; exact hv

/-- whatever array-likes and names it is given, an instance the constructor returns is well shaped -/
theorem initLC_wellShaped (m v : Arr) (names : Option (List String)) (lc : LC) (h : initLC m v names = .ok lc) :
    WellShaped lc := by
  unfold initLC npArray at h
  cases hm : m.shape with
  | error e => rw [hm] at h; cases h
  | ok ms =>
    rw [hm] at h
    cases hv : v.shape with
    | error e => rw [hv] at h; cases h
    | ok vs =>
      rw [hv] at h
      simp only [initND] at h
      cases hb : broadcastValues (rowIfFlat ⟨ms, m⟩) ⟨vs, v⟩ with
      | error e => rw [hb] at h; cases h
      | ok v' =>
        rw [hb] at h
        simp only at h
        cases hr : resolveNames names (rowIfFlat ⟨ms, m⟩).shape with
        | error e => rw [hr] at h; cases h
        | ok ns =>
          rw [hr] at h
          exact validate_wellShaped _ _ (rowIfFlat_coherent ⟨ms, m⟩ hm) (broadcast_coherent _ ⟨vs, v⟩ v' hv hb) ns lc h

theorem compiledLC_wellShaped {sh : Shuffle} (hsh : IsShuffle sh) (ns : List String) (parse) (spec : Spec) {A b}
    (h : fromSpec sh ns parse spec = .ok (A, b)) : WellShaped (compiledLC A b ns) := by
  obtain ⟨cs, _, hr⟩ := fromSpec_sound hsh ns parse spec h
  refine ⟨by simp [compiledLC, numCells, hr.lengths.1, hr.lengths.2], ?_, ?_⟩
  · intro r hrm
    simp only [compiledLC, List.mem_map] at hrm
    obtain ⟨a, ha, rfl⟩ := hrm
    obtain ⟨i, hi, rfl⟩ := List.mem_iff_getElem.mp ha
    have := (hr.get i hi (by rw [hr.lengths.2, ← hr.lengths.1]; exact hi) (by rw [← hr.lengths.1]; exact hi)).1
    simp [numCells, compiledLC, this]
  · simp only [compiledLC, List.length_map]
    exact finalNames_shape ns ns.length A.length rfl

end FormulaicVerif.Proofs.C16Forms
