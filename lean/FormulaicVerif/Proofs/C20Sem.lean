import FormulaicVerif.Proofs.C20
import FormulaicVerif.Spec.DerivativeSem
import Mathlib.Algebra.Ring.Basic
import Mathlib.Tactic.Ring
/-! Helper lemmas for C20, part 3: values of terms in a commutative ring, exact finite differences,
commutation of partial derivatives for any number of variables. Not obligations. -/
namespace FormulaicVerif.Proofs.C20
open FormulaicVerif.Model FormulaicVerif.Spec

section semantics
variable {R : Type} [CommRing R]

theorem evalProd_shift_absent (env : String → R) (v : String) (h : R) (fs : List Factor)
    (hv : v ∉ fs.map (·.expr)) : evalProd (shift env v h) fs = evalProd env fs := by
  induction fs with
  | nil => rfl
  | cons f r ih =>
    simp only [List.map_cons, List.mem_cons, not_or] at hv
    simp only [evalProd, ih hv.2, shift]
    have : f.expr ≠ v := fun e => hv.1 e.symm
    simp [this]

theorem fd_single (env : String → R) (v : String) (h : R) (fs : List Factor) (hwf : Term.WF fs) :
    evalProd (shift env v h) fs - evalProd env fs = h * evalD env (dFactors fs v) := by
  induction fs with
  | nil => simp [evalProd, dFactors, evalD]
  | cons f r ih =>
    have hn : (f.expr :: r.map (·.expr)).Nodup := by simpa [Term.WF] using hwf
    rw [List.nodup_cons] at hn
    have ihr := ih (by simpa [Term.WF] using hn.2)
    by_cases hf : f.expr = v
    · have habs : v ∉ r.map (·.expr) := hf ▸ hn.1
      have hfil : r.filter (fun g => !(g.expr == v)) = r := by
        rw [List.filter_eq_self]
        intro g hg
        have : g.expr ≠ v := fun e => habs (e ▸ List.mem_map_of_mem hg)
        simp [this]
      simp only [evalProd, evalProd_shift_absent env v h r habs, dFactors, List.any_cons, hf,
        beq_self_eq_true, Bool.true_or, if_true, List.filter_cons, Bool.not_true, evalD, hfil]
      simp only [shift, if_true]
      simp
      ring
    · have hsh : shift env v h f.expr = env f.expr := by simp [shift, hf]
      simp only [evalProd, hsh]
      have hb : (f.expr == v) = false := by simpa using hf
      by_cases ha : r.any (fun g => g.expr == v) = true
      · simp only [dFactors, ha, if_true, evalD] at ihr
        simp only [dFactors, List.any_cons, hb, Bool.false_or, ha, if_true, List.filter_cons,
          Bool.not_false, evalD, evalProd]
        have : env f.expr * evalProd (shift env v h) r - env f.expr * evalProd env r
            = env f.expr * (evalProd (shift env v h) r - evalProd env r) := by ring
        rw [this, ihr]; ring
      · simp only [dFactors, ha, evalD] at ihr
        simp only [dFactors, List.any_cons, hb, Bool.false_or, ha, evalD]
        have : env f.expr * evalProd (shift env v h) r - env f.expr * evalProd env r
            = env f.expr * (evalProd (shift env v h) r - evalProd env r) := by ring
        rw [this, ihr]; simp

/-- the finite difference of an already differentiated term -/
theorem fd_single_opt (env : String → R) (v : String) (h : R) (d : Option (List Factor))
    (hwf : ∀ fs, d = some fs → Term.WF fs) :
    evalD (shift env v h) d - evalD env d = h * evalD env (dOpt d v) := by
  cases d with
  | none => simp [evalD, dOpt]
  | some fs => exact fd_single env v h fs (hwf fs rfl)

end semantics

/-! ### commutation -/

theorem dFactors_comm (fs : List Factor) (u v : String) :
    dOpt (dFactors fs u) v = dOpt (dFactors fs v) u := by
  simp only [dOpt, dFactors]
  by_cases hu : fs.any (fun f => f.expr == u) = true <;>
  by_cases hv : fs.any (fun f => f.expr == v) = true
  · simp only [hu, hv, if_true]
    have e1 : (fs.filter (fun f => !(f.expr == u))).any (fun f => f.expr == v)
        = (fs.filter (fun f => !(f.expr == v))).any (fun f => f.expr == u) := by
      by_cases huv : u = v
      · subst huv; rfl
      · have l : (fs.filter (fun f => !(f.expr == u))).any (fun f => f.expr == v) = true := by
          rw [List.any_eq_true] at hv ⊢
          obtain ⟨x, hx, hxv⟩ := hv
          refine ⟨x, List.mem_filter.mpr ⟨hx, ?_⟩, hxv⟩
          have : x.expr = v := by simpa using hxv
          simp [this, Ne.symm huv]
        have r : (fs.filter (fun f => !(f.expr == v))).any (fun f => f.expr == u) = true := by
          rw [List.any_eq_true] at hu ⊢
          obtain ⟨x, hx, hxu⟩ := hu
          refine ⟨x, List.mem_filter.mpr ⟨hx, ?_⟩, hxu⟩
          have : x.expr = u := by simpa using hxu
          simp [this, huv]
        rw [l, r]
    rw [e1]
    split
    · congr 1
      rw [List.filter_filter, List.filter_filter]
      exact List.filter_congr (fun x _ => Bool.and_comm _ _)
    · rfl
  · have : (fs.filter (fun f => !(f.expr == u))).any (fun f => f.expr == v) = false := by
      rw [Bool.eq_false_iff]; intro hc
      rw [List.any_eq_true] at hc
      obtain ⟨x, hx, hxv⟩ := hc
      exact hv (List.any_eq_true.mpr ⟨x, (List.mem_filter.mp hx).1, hxv⟩)
    simp [hu, hv, this]
  · have : (fs.filter (fun f => !(f.expr == v))).any (fun f => f.expr == u) = false := by
      rw [Bool.eq_false_iff]; intro hc
      rw [List.any_eq_true] at hc
      obtain ⟨x, hx, hxu⟩ := hc
      exact hu (List.any_eq_true.mpr ⟨x, (List.mem_filter.mp hx).1, hxu⟩)
    simp [hu, hv, this]
  · simp [hu, hv]

theorem dOpt_comm (d : Option (List Factor)) (u v : String) : dOpt (dOpt d u) v = dOpt (dOpt d v) u := by
  cases d with
  | none => rfl
  | some fs => exact dFactors_comm fs u v

theorem dMany_none (vs : List String) : dMany none vs = none := by cases vs <;> rfl

theorem dMany_cons (d : Option (List Factor)) (v : String) (vs : List String) :
    dMany d (v :: vs) = dMany (dOpt d v) vs := by
  cases d with
  | none => simp [dMany, dOpt, dMany_none]
  | some fs => rfl

theorem dMany_nil (d : Option (List Factor)) : dMany d [] = d := by cases d <;> rfl

/-- one more variable at the END is one more variable at the FRONT -/
theorem dMany_snoc (d : Option (List Factor)) (v : String) (vs : List String) :
    dOpt (dMany d vs) v = dMany (dOpt d v) vs := by
  induction vs generalizing d with
  | nil => simp [dMany_nil]
  | cons u r ih => rw [dMany_cons, dMany_cons, ih, dOpt_comm]

theorem dOpt_wf (d : Option (List Factor)) (v : String) (h : ∀ fs, d = some fs → Term.WF fs) :
    ∀ fs, dOpt d v = some fs → Term.WF fs := by
  intro fs hfs
  cases d with
  | none => simp [dOpt] at hfs
  | some g =>
    simp only [dOpt, dFactors] at hfs
    split at hfs
    · simp only [Option.some.injEq] at hfs
      subst hfs
      exact wf_filter g _ (h g rfl)
    · cases hfs

theorem dMany_wf (vs : List String) (d : Option (List Factor)) (h : ∀ fs, d = some fs → Term.WF fs) :
    ∀ fs, dMany d vs = some fs → Term.WF fs := by
  induction vs generalizing d with
  | nil => simpa [dMany_nil] using h
  | cons v r ih => rw [dMany_cons]; exact ih _ (dOpt_wf d v h)

/-- the order of the variables does not matter -/
theorem dMany_perm {vs ws : List String} (p : vs.Perm ws) (d : Option (List Factor)) :
    dMany d vs = dMany d ws := by
  induction p generalizing d with
  | nil => rfl
  | cons x _ ih => rw [dMany_cons, dMany_cons, ih]
  | swap x y l => rw [dMany_cons, dMany_cons, dMany_cons, dMany_cons, dOpt_comm]
  | trans _ _ ih1 ih2 => rw [ih1, ih2]

section fd
variable {R : Type} [CommRing R]

/-- the iterated exact finite difference of a product of distinct factors is the product of the
steps times the value of the iterated derivative -/
theorem fdMany_eq (fs : List Factor) (hwf : Term.WF fs) (vhs : List (String × R)) (env : String → R) :
    fdMany fs env vhs = (vhs.map (·.2)).prod * evalD env (dMany (some fs) (vhs.map (·.1))) := by
  induction vhs generalizing env with
  | nil => simp [fdMany, dMany, evalD]
  | cons vh rest ih =>
    obtain ⟨v, h⟩ := vh
    simp only [fdMany, ih, List.map_cons, List.prod_cons]
    have hw := dMany_wf (rest.map (·.1)) (some fs) (by intro g hg; cases hg; exact hwf)
    have key := fd_single_opt env v h (dMany (some fs) (rest.map (·.1))) hw
    rw [dMany_snoc] at key
    rw [dMany_cons]
    have : (rest.map (·.2)).prod * evalD (shift env v h) (dMany (some fs) (rest.map (·.1)))
        - (rest.map (·.2)).prod * evalD env (dMany (some fs) (rest.map (·.1)))
        = (rest.map (·.2)).prod * (evalD (shift env v h) (dMany (some fs) (rest.map (·.1)))
            - evalD env (dMany (some fs) (rest.map (·.1)))) := by ring
    rw [this, key]; ring

end fd

end FormulaicVerif.Proofs.C20
