import FormulaicVerif.Proofs.C04Poly
import FormulaicVerif.Proofs.C04Cat
namespace FormulaicVerif.Proofs.C04
open FormulaicVerif.Model FormulaicVerif.Model.Replay FormulaicVerif.Spec.Replay

/-! ## dictionaries -/
section dict
variable {κ σ : Type} [DecidableEq κ]

theorem getKey_setKey_same (m : List (κ × σ)) (k : κ) (s : σ) : getKey (setKey m k s) k = some s := by
  induction m with
  | nil => simp [setKey, getKey]
  | cons a r ih =>
    obtain ⟨k', s'⟩ := a
    simp only [setKey]
    by_cases h : k' = k
    · simp [h, getKey]
    · simp [h, getKey, ih]

theorem getKey_setKey_ne (m : List (κ × σ)) (k k' : κ) (s : σ) (h : k' ≠ k) :
    getKey (setKey m k s) k' = getKey m k' := by
  induction m with
  | nil => simp [setKey, getKey, Ne.symm h]
  | cons a r ih =>
    obtain ⟨k2, s2⟩ := a
    simp only [setKey]
    by_cases h2 : k2 = k
    · subst h2
      simp [getKey, Ne.symm h]
    · simp only [h2, if_false, getKey, ih]

theorem setKey_of_getKey (m : List (κ × σ)) (k : κ) (s : σ) (h : getKey m k = some s) : setKey m k s = m := by
  induction m with
  | nil => simp [getKey] at h
  | cons a r ih =>
    obtain ⟨k', s'⟩ := a
    simp only [getKey] at h
    simp only [setKey]
    by_cases hk : k' = k
    · simp only [hk, if_true, Option.some.injEq] at h
      simp [hk, h]
    · simp only [hk, if_false] at h
      simp [hk, ih h]

theorem extends_refl (m : List (κ × σ)) : Extends m m := fun _ _ h => h

theorem extends_trans {a b c : List (κ × σ)} (h1 : Extends a b) (h2 : Extends b c) : Extends a c :=
  fun k v h => h2 k v (h1 k v h)

theorem extends_setKey (m : List (κ × σ)) (k : κ) (s : σ) (h : getKey m k = none) : Extends m (setKey m k s) := by
  intro k' v hv
  by_cases hk : k' = k
  · subst hk; rw [h] at hv; cases hv
  · rw [getKey_setKey_ne m k k' s hk]; exact hv

end dict

/-! ## transposition and row selection -/

theorem heads_iff {α : Type} (rows : List (List α)) (c : List α) (rest : List (List α)) :
    heads rows = some (c, rest) ↔ rows = List.zipWith (· :: ·) c rest ∧ c.length = rest.length := by
  induction rows generalizing c rest with
  | nil =>
    constructor
    · intro h; cases h; exact ⟨rfl, rfl⟩
    · rintro ⟨h1, h2⟩
      cases c with
      | nil => cases rest with
        | nil => rfl
        | cons a t => cases h2
      | cons v c => cases rest with
        | nil => cases h2
        | cons a t => cases h1
  | cons r rows ih =>
    constructor
    · intro h
      simp only [heads] at h
      cases r with
      | nil => simp at h
      | cons v t =>
        cases hh : heads rows with
        | none => simp [hh] at h
        | some p =>
          obtain ⟨c', rest'⟩ := p
          simp only [hh, Option.some.injEq, Prod.mk.injEq] at h
          obtain ⟨rfl, rfl⟩ := h
          obtain ⟨h1, h2⟩ := (ih c' rest').1 hh
          exact ⟨by simp [← h1], by simp [h2]⟩
    · rintro ⟨h1, h2⟩
      cases c with
      | nil => cases rest <;> simp at h1
      | cons v c => cases rest with
        | nil => simp at h2
        | cons t rest =>
          simp only [List.zipWith_cons_cons, List.cons.injEq] at h1
          obtain ⟨rfl, h1⟩ := h1
          simp only [heads, (ih c rest).2 ⟨h1, by simpa using h2⟩]

theorem heads_select {α : Type} {rows : List (List α)} {c : List α} {rest : List (List α)}
    (h : heads rows = some (c, rest)) (is : List Nat) :
    heads (select is rows) = some (select is c, select is rest) := by
  obtain ⟨h1, h2⟩ := (heads_iff _ _ _).1 h
  rw [heads_iff]
  exact ⟨by rw [h1, select_zipWith _ _ _ _ h2], length_select_congr is c rest h2⟩

theorem columnsOf_select {α : Type} (n : Nat) {rows : List (List α)} {cs : List (List α)}
    (h : columnsOf n rows = .ok cs) (is : List Nat) :
    columnsOf n (select is rows) = .ok (cs.map (select is)) := by
  induction n generalizing rows cs with
  | zero => simp only [columnsOf, Except.ok.injEq] at h ⊢; subst h; rfl
  | succ n ih =>
    simp only [columnsOf] at h ⊢
    cases hh : heads rows with
    | none => simp [hh] at h
    | some p =>
      obtain ⟨c, rest⟩ := p
      simp only [hh] at h
      cases hr : columnsOf n rest with
      | error e => simp [hr] at h
      | ok cs' =>
        simp only [hr, Except.ok.injEq] at h
        subst h
        simp only [heads_select hh is, ih hr, List.map_cons]

theorem columnsOf_length {α : Type} (n : Nat) {rows : List (List α)} {cs : List (List α)}
    (h : columnsOf n rows = .ok cs) : cs.length = n ∧ ∀ c ∈ cs, c.length = rows.length := by
  induction n generalizing rows cs with
  | zero => simp only [columnsOf, Except.ok.injEq] at h; subst h; simp
  | succ n ih =>
    simp only [columnsOf] at h
    cases hh : heads rows with
    | none => simp [hh] at h
    | some p =>
      obtain ⟨c, rest⟩ := p
      simp only [hh] at h
      cases hr : columnsOf n rest with
      | error e => simp [hr] at h
      | ok cs' =>
        simp only [hr, Except.ok.injEq] at h
        subst h
        obtain ⟨h1, h2⟩ := (heads_iff _ _ _).1 hh
        obtain ⟨i1, i2⟩ := ih hr
        have hl : rows.length = c.length := by rw [h1]; simp [h2]
        refine ⟨by simp [i1], ?_⟩
        intro x hx
        rcases List.mem_cons.1 hx with rfl | hx
        · exact hl.symm
        · rw [i2 x hx, hl, h2]

theorem keyedCols_select {keys : List Field} {rows : List (List Rat)} {kc : List (Field × List Rat)}
    (h : keyedCols keys rows = .ok kc) (is : List Nat) :
    keyedCols keys (select is rows) = .ok (selCols is kc) := by
  simp only [keyedCols] at h ⊢
  cases hc : columnsOf keys.length rows with
  | error e => simp [hc] at h
  | ok cs =>
    simp only [hc, Except.ok.injEq] at h
    subst h
    simp only [columnsOf_select _ hc is, selCols, List.zip_map_right]
    rfl

theorem keyedCols_length {keys : List Field} {rows : List (List Rat)} {kc : List (Field × List Rat)}
    (h : keyedCols keys rows = .ok kc) : ∀ p ∈ kc, p.2.length = rows.length := by
  simp only [keyedCols] at h
  cases hc : columnsOf keys.length rows with
  | error e => simp [hc] at h
  | ok cs =>
    simp only [hc, Except.ok.injEq] at h
    subst h
    intro p hp
    exact (columnsOf_length _ hc).2 _ (List.of_mem_zip hp).2

/-! ## one stateful call -/
/-- the call protocol on a recorded complete state, for any lawful transform -/
theorem call_some {α β σ ε : Type} {t : T α β σ ε} {Good : σ → Prop} (L : Lawful t Good) (st : σ)
    (hg : Good st) (xs : List α) (out : List β) (st' : σ) (h : t.call (some st) xs = .ok (out, st')) :
    st' = st ∧ out.length = xs.length ∧ ∀ is, t.call (some st) (select is xs) = .ok (select is out, st) := by
  have h' : t.run st xs = .ok (out, st') := h
  obtain ⟨ho, hs⟩ := L.rowwise st xs out st' hg h'
  exact ⟨hs, by rw [ho]; simp, fun is => run_select L st hg xs out st' h' is⟩

theorem call_none {α β σ ε : Type} {t : T α β σ ε} {Good : σ → Prop} (L : Lawful t Good)
    (xs : List α) (out : List β) (st : σ) (h : t.call none xs = .ok (out, st)) :
    Good st ∧ t.call (some st) xs = .ok (out, st) := by
  simp only [T.call] at h
  cases hf : t.fit xs with
  | error e => simp [hf] at h
  | ok p =>
    obtain ⟨s, o⟩ := p
    simp only [hf, Except.ok.injEq, Prod.mk.injEq] at h
    obtain ⟨rfl, rfl⟩ := h
    exact ⟨L.fit_good xs s o hf, L.after_fit xs s o hf⟩

/-- a replay of a stateful call on a vector: state unchanged, one output entry per row, commutes
with row selection -/
theorem trCall_replay (tr : Tr) (p : Params) (st : TState) (hc : Complete p tr st) (xs : List Rat)
    (v : Value) (st' : TState) (h : tr.call p (some st) xs = .ok (v, st')) :
    st' = st ∧ v.Len xs.length ∧ ∀ is, tr.call p (some st) (select is xs) = .ok (v.select is, st) := by
  cases tr with
  | scale ca sa dd =>
    cases st with
    | scale s =>
      simp only [Tr.call] at h ⊢
      cases hr : (scaleT p.sqrt ca sa dd).call (some s) xs with
      | error e => simp [hr] at h
      | ok r =>
        obtain ⟨out, s'⟩ := r
        simp only [hr, Except.ok.injEq, Prod.mk.injEq] at h
        obtain ⟨rfl, rfl⟩ := h
        obtain ⟨h1, h2, h3⟩ := call_some (scale_lawful p.sqrt ca sa dd) s hc xs out s' hr
        subst h1
        exact ⟨rfl, h2, fun is => by simp only [h3 is, Value.select]⟩
    | poly _ => exact absurd hc (by simp [Complete])
    | bs _ => exact absurd hc (by simp [Complete])
    | cs _ => exact absurd hc (by simp [Complete])
  | poly d raw =>
    cases st with
    | poly s =>
      simp only [Tr.call] at h ⊢
      cases hr : (polyT p.sqrt d raw).call (some s) xs with
      | error e => simp [hr] at h
      | ok r =>
        obtain ⟨rows, s'⟩ := r
        simp only [hr] at h
        split at h
        · cases h
        · rename_i kc hk
          simp only [Except.ok.injEq, Prod.mk.injEq] at h
          obtain ⟨rfl, rfl⟩ := h
          obtain ⟨h1, h2, h3⟩ := call_some (poly_lawful p.sqrt d raw) s hc xs rows s' hr
          subst h1
          refine ⟨rfl, ?_, fun is => ?_⟩
          · intro q hq; rw [keyedCols_length hk q hq, h2]
          · simp only [h3 is, keyedCols_select hk is, Value.select]
    | scale _ => exact absurd hc (by simp [Complete])
    | bs _ => exact absurd hc (by simp [Complete])
    | cs _ => exact absurd hc (by simp [Complete])
  | bs a =>
    cases st with
    | bs s =>
      simp only [Tr.call] at h ⊢
      cases hr : (bsT a p.quant).call (some s) xs with
      | error e => simp [hr] at h
      | ok r =>
        obtain ⟨rows, s'⟩ := r
        simp only [hr] at h
        obtain ⟨h1, h2, h3⟩ := call_some (bs_lawful a p.quant) s trivial xs rows s' hr
        subst h1
        split at h
        · cases h
        · rename_i kc hk
          simp only [Except.ok.injEq, Prod.mk.injEq] at h
          obtain ⟨rfl, rfl⟩ := h
          refine ⟨rfl, ?_, fun is => ?_⟩
          · intro q hq; rw [keyedCols_length hk q hq, h2]
          · simp only [h3 is, keyedCols_select hk is, Value.select]
    | scale _ => exact absurd hc (by simp [Complete])
    | poly _ => exact absurd hc (by simp [Complete])
    | cs _ => exact absurd hc (by simp [Complete])
  | cs a =>
    cases st with
    | cs s =>
      simp only [Tr.call] at h ⊢
      cases hr : (csT a p.quant p.getF p.getQ2).call (some s) xs with
      | error e => simp [hr] at h
      | ok r =>
        obtain ⟨rows, s'⟩ := r
        simp only [hr] at h
        obtain ⟨h1, h2, h3⟩ := call_some (cs_lawful a p.quant p.getF p.getQ2) s trivial xs rows s' hr
        subst h1
        split at h
        · cases h
        · rename_i kc hk
          simp only [Except.ok.injEq, Prod.mk.injEq] at h
          obtain ⟨rfl, rfl⟩ := h
          refine ⟨rfl, ?_, fun is => ?_⟩
          · intro q hq; rw [keyedCols_length hk q hq, h2]
          · simp only [h3 is, keyedCols_select hk is, Value.select]
    | scale _ => exact absurd hc (by simp [Complete])
    | poly _ => exact absurd hc (by simp [Complete])
    | bs _ => exact absurd hc (by simp [Complete])

/-- a fitting stateful call records a complete state, and replaying that state on the same vector
gives the same value -/
theorem trCall_fit (tr : Tr) (p : Params) (xs : List Rat) (v : Value) (st : TState)
    (h : tr.call p none xs = .ok (v, st)) :
    Complete p tr st ∧ tr.call p (some st) xs = .ok (v, st) := by
  cases tr with
  | scale ca sa dd =>
    simp only [Tr.call] at h ⊢
    cases hr : (scaleT p.sqrt ca sa dd).call none xs with
    | error e => simp [hr] at h
    | ok r =>
      obtain ⟨out, s⟩ := r
      simp only [hr, Except.ok.injEq, Prod.mk.injEq] at h
      obtain ⟨rfl, rfl⟩ := h
      obtain ⟨h1, h2⟩ := call_none (scale_lawful p.sqrt ca sa dd) xs out s hr
      exact ⟨h1, by simp only [h2]⟩
  | poly d raw =>
    simp only [Tr.call] at h ⊢
    cases hr : (polyT p.sqrt d raw).call none xs with
    | error e => simp [hr] at h
    | ok r =>
      obtain ⟨rows, s⟩ := r
      simp only [hr] at h
      split at h
      · cases h
      · rename_i kc hk
        simp only [Except.ok.injEq, Prod.mk.injEq] at h
        obtain ⟨rfl, rfl⟩ := h
        obtain ⟨h1, h2⟩ := call_none (poly_lawful p.sqrt d raw) xs rows s hr
        exact ⟨h1, by simp only [h2, hk]⟩
  | bs a =>
    simp only [Tr.call] at h ⊢
    cases hr : (bsT a p.quant).call none xs with
    | error e => simp [hr] at h
    | ok r =>
      obtain ⟨rows, s⟩ := r
      simp only [hr] at h
      split at h
      · cases h
      · rename_i kc hk
        simp only [Except.ok.injEq, Prod.mk.injEq] at h
        obtain ⟨rfl, rfl⟩ := h
        obtain ⟨_, h2⟩ := call_none (bs_lawful a p.quant) xs rows s hr
        exact ⟨trivial, by simp only [h2, hk]⟩
  | cs a =>
    simp only [Tr.call] at h ⊢
    cases hr : (csT a p.quant p.getF p.getQ2).call none xs with
    | error e => simp [hr] at h
    | ok r =>
      obtain ⟨rows, s⟩ := r
      simp only [hr] at h
      split at h
      · cases h
      · rename_i kc hk
        simp only [Except.ok.injEq, Prod.mk.injEq] at h
        obtain ⟨rfl, rfl⟩ := h
        obtain ⟨_, h2⟩ := call_none (cs_lawful a p.quant p.getF p.getQ2) xs rows s hr
        exact ⟨trivial, by simp only [h2, hk]⟩

/-! ## expressions -/
theorem numColumn_select {f : Frame} {v : String} {c : List Rat} (h : f.numColumn v = .ok c) (is : List Nat) :
    (f.select is).numColumn v = .ok (select is c) ∧ c.length = f.rows.length := by
  simp only [Frame.numColumn, Frame.select] at h ⊢
  split at h
  · rename_i hc
    simp only [hc, if_true]
    exact ⟨mapE_select h is, mapE_length h⟩
  · cases h

theorem labColumn_select {f : Frame} {v : String} {c : List (Option Contrasts.Label)}
    (h : f.labColumn v = .ok c) (is : List Nat) :
    (f.select is).labColumn v = .ok (select is c) ∧ c.length = f.rows.length := by
  simp only [Frame.labColumn, Frame.select] at h ⊢
  split at h
  · rename_i hc
    simp only [hc, if_true]
    exact ⟨mapE_select h is, mapE_length h⟩
  · cases h

/-- **Replay of an expression.**  When every call node finds a complete recorded state, evaluating
the expression leaves the state dictionary unchanged, yields one entry per row, and commutes with
row selection. -/
theorem eval_replay (env : Env) (f : Frame) (e : Expr) (ts : TStates) (hr : ExprReady env ts e)
    (v : Value) (ts' : TStates) (h : evalExpr env f e ts = .ok (v, ts')) :
    ts' = ts ∧ v.Len f.rows.length ∧
      ∀ is, evalExpr env (f.select is) e ts = .ok (v.select is, ts) := by
  induction e generalizing v ts' with
  | col c =>
    simp only [evalExpr] at h ⊢
    cases hc : f.numColumn c with
    | error x => simp [hc] at h
    | ok col =>
      simp only [hc, Except.ok.injEq, Prod.mk.injEq] at h
      obtain ⟨rfl, rfl⟩ := h
      refine ⟨rfl, (numColumn_select hc []).2, fun is => ?_⟩
      simp only [(numColumn_select hc is).1, Value.select]
  | binc op a c ih =>
    simp only [evalExpr] at h ⊢
    cases ha : evalExpr env f a ts with
    | error x => simp [ha] at h
    | ok r =>
      obtain ⟨va, ts1⟩ := r
      obtain ⟨h1, h2, h3⟩ := ih hr va ts1 ha
      subst h1
      cases va with
      | vec x =>
        simp only [ha, Except.ok.injEq, Prod.mk.injEq] at h
        obtain ⟨rfl, rfl⟩ := h
        refine ⟨rfl, by simpa [Value.Len] using h2, fun is => ?_⟩
        simp only [h3 is, Value.select, select_map]
      | cols d m cs => simp [ha] at h
  | bin op a b iha ihb =>
    simp only [evalExpr] at h ⊢
    obtain ⟨hra, hrb⟩ := hr
    cases ha : evalExpr env f a ts with
    | error x => simp [ha] at h
    | ok r =>
      obtain ⟨va, ts1⟩ := r
      obtain ⟨h1, h2, h3⟩ := iha hra va ts1 ha
      subst h1
      simp only [ha] at h
      cases hb : evalExpr env f b ts1 with
      | error x => simp [hb] at h
      | ok r2 =>
        obtain ⟨vb, ts2⟩ := r2
        obtain ⟨g1, g2, g3⟩ := ihb hrb vb ts2 hb
        subst g1
        simp only [hb] at h
        cases va with
        | vec x =>
          cases vb with
          | vec y =>
            simp only [Except.ok.injEq, Prod.mk.injEq] at h
            obtain ⟨rfl, rfl⟩ := h
            have hx : x.length = f.rows.length := h2
            have hy : y.length = f.rows.length := g2
            refine ⟨rfl, by simp [Value.Len, hx, hy], fun is => ?_⟩
            simp only [h3 is, g3 is, Value.select, select_zipWith _ _ _ _ (hx.trans hy.symm)]
          | cols d m cs => simp at h
        | cols d m cs => simp at h
  | elem fn a ih =>
    simp only [evalExpr] at h ⊢
    cases ha : evalExpr env f a ts with
    | error x => simp [ha] at h
    | ok r =>
      obtain ⟨va, ts1⟩ := r
      obtain ⟨h1, h2, h3⟩ := ih hr va ts1 ha
      subst h1
      cases va with
      | vec x =>
        simp only [ha] at h
        split at h
        · cases h
        · rename_i y hy
          simp only [Except.ok.injEq, Prod.mk.injEq] at h
          obtain ⟨rfl, rfl⟩ := h
          have hx : x.length = f.rows.length := h2
          refine ⟨rfl, by simp [Value.Len, mapE_length hy, hx], fun is => ?_⟩
          simp only [h3 is, Value.select, mapE_select hy is]
      | cols d m cs => simp [ha] at h
  | call text a ih =>
    simp only [evalExpr] at h ⊢
    obtain ⟨hra, tr, p, st, hcall, hget, hcomp⟩ := hr
    cases ha : evalExpr env f a ts with
    | error x => simp [ha] at h
    | ok r =>
      obtain ⟨va, ts1⟩ := r
      obtain ⟨h1, h2, h3⟩ := ih hra va ts1 ha
      subst h1
      simp only [ha, hcall, hget] at h
      cases va with
      | cols d m cs => simp [wrapper, liftT] at h
      | vec x =>
        simp only [wrapper] at h
        cases hw : tr.call p (some st) x with
        | error x => simp [hw, liftT] at h
        | ok r2 =>
          obtain ⟨v2, st2⟩ := r2
          simp only [hw, liftT, Except.ok.injEq, Prod.mk.injEq] at h
          obtain ⟨rfl, rfl⟩ := h
          obtain ⟨k1, k2, k3⟩ := trCall_replay tr p st hcomp x v2 st2 hw
          subst k1
          have hx : x.length = f.rows.length := h2
          refine ⟨setKey_of_getKey _ _ _ hget, by rw [← hx]; exact k2, fun is => ?_⟩
          simp only [h3 is, hcall, hget, Value.select, wrapper, k3 is, liftT,
            setKey_of_getKey _ _ _ hget]

theorem exprReady_mono (env : Env) {ts ts' : TStates} (hx : Extends ts ts') (e : Expr)
    (h : ExprReady env ts e) : ExprReady env ts' e := by
  induction e with
  | col c => trivial
  | binc op a c ih => exact ih h
  | bin op a b iha ihb => exact ⟨iha h.1, ihb h.2⟩
  | elem fn a ih => exact ih h
  | call text a ih =>
    obtain ⟨ha, tr, p, st, h1, h2, h3⟩ := h
    exact ⟨ih ha, tr, p, st, h1, hx _ _ h2, h3⟩

/-- **Fit then replay of an expression.**  Starting from any dictionary of complete states (in
particular the empty one), an evaluation only adds complete states, leaves every call node ready,
and re-evaluating under ANY extension of the resulting dictionary gives the same value and leaves
that dictionary unchanged. -/
theorem eval_stable (env : Env) (f : Frame) (e : Expr) (ts : TStates) (hsc : StatesComplete env ts)
    (v : Value) (ts1 : TStates) (h : evalExpr env f e ts = .ok (v, ts1)) :
    StatesComplete env ts1 ∧ Extends ts ts1 ∧ ExprReady env ts1 e ∧
      ∀ tsX, Extends ts1 tsX → evalExpr env f e tsX = .ok (v, tsX) := by
  induction e generalizing v ts ts1 with
  | col c =>
    simp only [evalExpr] at h
    cases hc : f.numColumn c with
    | error x => simp [hc] at h
    | ok col =>
      simp only [hc, Except.ok.injEq, Prod.mk.injEq] at h
      obtain ⟨rfl, rfl⟩ := h
      exact ⟨hsc, extends_refl _, trivial, fun tsX _ => by simp only [evalExpr, hc]⟩
  | binc op a c ih =>
    simp only [evalExpr] at h
    cases ha : evalExpr env f a ts with
    | error x => simp [ha] at h
    | ok r =>
      obtain ⟨va, tsa⟩ := r
      obtain ⟨h1, h2, h3, h4⟩ := ih ts hsc va tsa ha
      cases va with
      | vec x =>
        simp only [ha, Except.ok.injEq, Prod.mk.injEq] at h
        obtain ⟨rfl, rfl⟩ := h
        exact ⟨h1, h2, h3, fun tsX hx => by simp only [evalExpr, h4 tsX hx]⟩
      | cols d m cs => simp [ha] at h
  | bin op a b iha ihb =>
    simp only [evalExpr] at h
    cases ha : evalExpr env f a ts with
    | error x => simp [ha] at h
    | ok r =>
      obtain ⟨va, tsa⟩ := r
      obtain ⟨h1, h2, h3, h4⟩ := iha ts hsc va tsa ha
      simp only [ha] at h
      cases hb : evalExpr env f b tsa with
      | error x => simp [hb] at h
      | ok r2 =>
        obtain ⟨vb, tsb⟩ := r2
        obtain ⟨g1, g2, g3, g4⟩ := ihb tsa h1 vb tsb hb
        simp only [hb] at h
        cases va with
        | vec x =>
          cases vb with
          | vec y =>
            simp only [Except.ok.injEq, Prod.mk.injEq] at h
            obtain ⟨rfl, rfl⟩ := h
            refine ⟨g1, extends_trans h2 g2, ⟨exprReady_mono env g2 a h3, g3⟩, fun tsX hx => ?_⟩
            simp only [evalExpr, h4 tsX (extends_trans g2 hx), g4 tsX hx]
          | cols d m cs => simp at h
        | cols d m cs => simp at h
  | elem fn a ih =>
    simp only [evalExpr] at h
    cases ha : evalExpr env f a ts with
    | error x => simp [ha] at h
    | ok r =>
      obtain ⟨va, tsa⟩ := r
      obtain ⟨h1, h2, h3, h4⟩ := ih ts hsc va tsa ha
      cases va with
      | vec x =>
        simp only [ha] at h
        split at h
        · cases h
        · rename_i y hy
          simp only [Except.ok.injEq, Prod.mk.injEq] at h
          obtain ⟨rfl, rfl⟩ := h
          exact ⟨h1, h2, h3, fun tsX hx => by simp only [evalExpr, h4 tsX hx, hy]⟩
      | cols d m cs => simp [ha] at h
  | call text a ih =>
    simp only [evalExpr] at h
    cases ha : evalExpr env f a ts with
    | error x => simp [ha] at h
    | ok r =>
      obtain ⟨va, tsa⟩ := r
      obtain ⟨h1, h2, h3, h4⟩ := ih ts hsc va tsa ha
      simp only [ha] at h
      cases hcall : env.call (stateKey env.norm text) with
      | none => simp [hcall] at h
      | some trp =>
        obtain ⟨tr, p⟩ := trp
        simp only [hcall] at h
        cases va with
        | cols d m cs => simp [wrapper, liftT] at h
        | vec x =>
          simp only [wrapper] at h
          cases hget : getKey tsa (stateKey env.norm text) with
          | none =>
            simp only [hget] at h
            cases hw : tr.call p none x with
            | error x => simp [hw, liftT] at h
            | ok r2 =>
              obtain ⟨v2, st⟩ := r2
              simp only [hw, liftT, Except.ok.injEq, Prod.mk.injEq] at h
              obtain ⟨rfl, rfl⟩ := h
              obtain ⟨k1, k2⟩ := trCall_fit tr p x v2 st hw
              have hext := extends_setKey tsa (stateKey env.norm text) st hget
              refine ⟨?_, extends_trans h2 hext, ⟨exprReady_mono env hext a h3, tr, p, st, hcall,
                getKey_setKey_same _ _ _, k1⟩, fun tsX hx => ?_⟩
              · intro k tr' p' st' hc' hg'
                by_cases hk : k = stateKey env.norm text
                · subst hk
                  rw [getKey_setKey_same] at hg'
                  rw [hcall] at hc'
                  cases hc'; cases hg'
                  exact k1
                · rw [getKey_setKey_ne _ _ _ _ hk] at hg'
                  exact h1 k tr' p' st' hc' hg'
              · have hgx : getKey tsX (stateKey env.norm text) = some st := hx _ _ (getKey_setKey_same _ _ _)
                simp only [evalExpr, h4 tsX (extends_trans hext hx), hcall, hgx, wrapper, k2, liftT,
                  setKey_of_getKey _ _ _ hgx]
          | some st0 =>
            simp only [hget] at h
            have hc0 := h1 _ tr p st0 hcall hget
            cases hw : tr.call p (some st0) x with
            | error x => simp [hw, liftT] at h
            | ok r2 =>
              obtain ⟨v2, st⟩ := r2
              simp only [hw, liftT, Except.ok.injEq, Prod.mk.injEq] at h
              obtain ⟨rfl, rfl⟩ := h
              obtain ⟨k1, _, _⟩ := trCall_replay tr p st0 hc0 x v2 st hw
              subst k1
              rw [setKey_of_getKey _ _ _ hget]
              refine ⟨h1, h2, ⟨h3, tr, p, st, hcall, hget, hc0⟩, fun tsX hx => ?_⟩
              have hgx : getKey tsX (stateKey env.norm text) = some st := hx _ _ hget
              simp only [evalExpr, h4 tsX hx, hcall, hgx, wrapper, hw, liftT, setKey_of_getKey _ _ _ hgx]

end FormulaicVerif.Proofs.C04
