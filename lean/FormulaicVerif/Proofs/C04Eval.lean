import FormulaicVerif.Proofs.C04Dict
namespace FormulaicVerif.Proofs.C04
open FormulaicVerif.Model FormulaicVerif.Model.Replay FormulaicVerif.Spec.Replay

/-! ## transposition and row selection -/

theorem heads_iff {α : Type} (rows : List (List α)) (c : List α) (rest : List (List α)) :
    heads rows = some (c, rest) ↔ rows = List.zipWith (· :: ·) c rest ∧ c.length = rest.length := by
  induction rows generalizing c rest with
  | nil =>
    constructor
    · intro h; cases h; exact ⟨rfl, rfl⟩
    · rintro ⟨h1, h2⟩
      cases c with
      | nil => cases rest with
        | nil => rfl
        | cons a t => cases h2
      | cons v c => cases rest with
        | nil => cases h2
        | cons a t => cases h1
  | cons r rows ih =>
    constructor
    · intro h
      simp only [heads] at h
      cases r with
      | nil => simp at h
      | cons v t =>
        cases hh : heads rows with
        | none => simp [hh] at h
        | some p =>
          obtain ⟨c', rest'⟩ := p
          simp only [hh, Option.some.injEq, Prod.mk.injEq] at h
          obtain ⟨rfl, rfl⟩ := h
          obtain ⟨h1, h2⟩ := (ih c' rest').1 hh
          exact ⟨by simp [← h1], by simp [h2]⟩
    · rintro ⟨h1, h2⟩
      cases c with
      | nil => cases rest <;> simp at h1
      | cons v c => cases rest with
        | nil => simp at h2
        | cons t rest =>
          simp only [List.zipWith_cons_cons, List.cons.injEq] at h1
          obtain ⟨rfl, h1⟩ := h1
          simp only [heads, (ih c rest).2 ⟨h1, by simpa using h2⟩]

theorem heads_select {α : Type} {rows : List (List α)} {c : List α} {rest : List (List α)}
    (h : heads rows = some (c, rest)) (is : List Nat) :
    heads (select is rows) = some (select is c, select is rest) := by
  obtain ⟨h1, h2⟩ := (heads_iff _ _ _).1 h
  rw [heads_iff]
  exact ⟨by rw [h1, select_zipWith _ _ _ _ h2], length_select_congr is c rest h2⟩

theorem columnsOf_select {α : Type} (n : Nat) {rows : List (List α)} {cs : List (List α)}
    (h : columnsOf n rows = .ok cs) (is : List Nat) :
    columnsOf n (select is rows) = .ok (cs.map (select is)) := by
  induction n generalizing rows cs with
  | zero => simp only [columnsOf, Except.ok.injEq] at h ⊢; subst h; rfl
  | succ n ih =>
    simp only [columnsOf] at h ⊢
    cases hh : heads rows with
    | none => simp [hh] at h
    | some p =>
      obtain ⟨c, rest⟩ := p
      simp only [hh] at h
      cases hr : columnsOf n rest with
      | error e => simp [hr] at h
      | ok cs' =>
        simp only [hr, Except.ok.injEq] at h
        subst h
        simp only [heads_select hh is, ih hr, List.map_cons]

theorem columnsOf_length {α : Type} (n : Nat) {rows : List (List α)} {cs : List (List α)}
    (h : columnsOf n rows = .ok cs) : cs.length = n ∧ ∀ c ∈ cs, c.length = rows.length := by
  induction n generalizing rows cs with
  | zero => simp only [columnsOf, Except.ok.injEq] at h; subst h; simp
  | succ n ih =>
    simp only [columnsOf] at h
    cases hh : heads rows with
    | none => simp [hh] at h
    | some p =>
      obtain ⟨c, rest⟩ := p
      simp only [hh] at h
      cases hr : columnsOf n rest with
      | error e => simp [hr] at h
      | ok cs' =>
        simp only [hr, Except.ok.injEq] at h
        subst h
        obtain ⟨h1, h2⟩ := (heads_iff _ _ _).1 hh
        obtain ⟨i1, i2⟩ := ih hr
        have hl : rows.length = c.length := by rw [h1]; simp [h2]
        refine ⟨by simp [i1], ?_⟩
        intro x hx
        rcases List.mem_cons.1 hx with rfl | hx
        · exact hl.symm
        · rw [i2 x hx, hl, h2]

theorem keyedCols_select {keys : List Field} {rows : List (List Rat)} {kc : List (Field × List Rat)}
    (h : keyedCols keys rows = .ok kc) (is : List Nat) :
    keyedCols keys (select is rows) = .ok (selCols is kc) := by
  simp only [keyedCols] at h ⊢
  cases hc : columnsOf keys.length rows with
  | error e => simp [hc] at h
  | ok cs =>
    simp only [hc, Except.ok.injEq] at h
    subst h
    simp only [columnsOf_select _ hc is, selCols, List.zip_map_right]
    rfl

theorem keyedCols_length {keys : List Field} {rows : List (List Rat)} {kc : List (Field × List Rat)}
    (h : keyedCols keys rows = .ok kc) : ∀ p ∈ kc, p.2.length = rows.length := by
  simp only [keyedCols] at h
  cases hc : columnsOf keys.length rows with
  | error e => simp [hc] at h
  | ok cs =>
    simp only [hc, Except.ok.injEq] at h
    subst h
    intro p hp
    exact (columnsOf_length _ hc).2 _ (List.of_mem_zip hp).2


theorem keyedCols_keys {keys : List Field} {rows : List (List Rat)} {kc : List (Field × List Rat)}
    (h : keyedCols keys rows = .ok kc) : kc.map (·.1) = keys := by
  simp only [keyedCols] at h
  cases hc : columnsOf keys.length rows with
  | error e => simp [hc] at h
  | ok cs =>
    simp only [hc, Except.ok.injEq] at h
    subst h
    rw [List.map_fst_zip]
    rw [(columnsOf_length _ hc).1]

theorem keyedCols_count {keys : List Field} {rows : List (List Rat)} {kc : List (Field × List Rat)}
    (h : keyedCols keys rows = .ok kc) : kc.length = keys.length := by
  rw [← keyedCols_keys h, List.length_map]

/-! ## extension of recorded states -/

theorem stExt_refl (a : TState) : StExt a a := .inl rfl

theorem stExt_trans {a b c : TState} (h1 : StExt a b) (h2 : StExt b c) : StExt a c := by
  rcases h1 with rfl | ⟨m, m', rfl, rfl, e1⟩
  · exact h2
  · rcases h2 with rfl | ⟨n, n', hn, rfl, e2⟩
    · exact .inr ⟨m, m', rfl, rfl, e1⟩
    · cases hn
      exact .inr ⟨m, n', rfl, rfl, extends_trans e1 e2⟩

/-- only a nested per-key state can be extended -/
theorem stExt_base {a b : TState} (h : StExt a b) (ha : ∀ m, a ≠ .keyed m) : b = a := by
  rcases h with rfl | ⟨m, _, rfl, _, _⟩
  · rfl
  · exact absurd rfl (ha m)

theorem texends_refl (ts : TStates) : TExtends ts ts := fun _ v h => ⟨v, h, stExt_refl v⟩

theorem texends_trans {a b c : TStates} (h1 : TExtends a b) (h2 : TExtends b c) : TExtends a c := by
  intro k v hv
  obtain ⟨v', hv', e1⟩ := h1 k v hv
  obtain ⟨v'', hv'', e2⟩ := h2 k v' hv'
  exact ⟨v'', hv'', stExt_trans e1 e2⟩

theorem texends_setKey (ts : TStates) (k : String) (st : TState)
    (h : ∀ st0, getKey ts k = some st0 → StExt st0 st) : TExtends ts (setKey ts k st) := by
  intro k' v hv
  by_cases hk : k' = k
  · subst hk
    exact ⟨st, getKey_setKey_same _ _ _, h v hv⟩
  · exact ⟨v, by rw [getKey_setKey_ne ts k k' st hk]; exact hv, stExt_refl v⟩

theorem complete_not_keyed {p : Params} {tr : Tr} {st : TState} (h : Complete p tr st) :
    ∀ m, st ≠ .keyed m := by
  intro m hm
  subst hm
  cases tr <;> simp [Complete] at h

/-! ## one stateful call -/
/-- a replay of a stateful call on a vector: state unchanged, one output entry per row, commutes
with row selection; the shape of the result is the one the recorded state determines -/
theorem trCall_replay (tr : Tr) (p : Params) (st : TState) (hc : Complete p tr st) (xs : List Rat)
    (v : Value) (st' : TState) (h : tr.call p (some st) xs = .ok (v, st')) :
    st' = st ∧ v.Len xs.length ∧ (∀ is, tr.call p (some st) (select is xs) = .ok (v.select is, st)) ∧
      resultShape tr p st (some .vec) = some v.shape := by
  cases tr with
  | scale ca sa dd =>
    cases st with
    | scale s =>
      simp only [Tr.call] at h ⊢
      cases hr : (scaleT p.sqrt ca sa dd).call (some s) xs with
      | error e => simp [hr] at h
      | ok r =>
        obtain ⟨out, s'⟩ := r
        simp only [hr, Except.ok.injEq, Prod.mk.injEq] at h
        obtain ⟨rfl, rfl⟩ := h
        obtain ⟨h1, h2, h3⟩ := call_some (scale_lawful p.sqrt ca sa dd) s hc xs out s' hr
        subst h1
        exact ⟨rfl, h2, fun is => by simp only [h3 is, Value.select], rfl⟩
    | poly _ => exact absurd hc (by simp [Complete])
    | bs _ => exact absurd hc (by simp [Complete])
    | cs _ => exact absurd hc (by simp [Complete])
    | keyed _ => exact absurd hc (by simp [Complete])
    | arr _ => exact absurd hc (by simp [Complete])
  | poly d raw =>
    cases st with
    | poly s =>
      simp only [Tr.call] at h ⊢
      cases hr : (polyT p.sqrt d raw).call (some s) xs with
      | error e => simp [hr] at h
      | ok r =>
        obtain ⟨rows, s'⟩ := r
        simp only [hr] at h
        split at h
        · cases h
        · rename_i kc hk
          simp only [Except.ok.injEq, Prod.mk.injEq] at h
          obtain ⟨rfl, rfl⟩ := h
          obtain ⟨h1, h2, h3⟩ := call_some (poly_lawful p.sqrt d raw) s hc xs rows s' hr
          subst h1
          refine ⟨rfl, ?_, fun is => ?_, ?_⟩
          · intro q hq; rw [keyedCols_length hk q hq, h2]
          · simp only [h3 is, keyedCols_select hk is, Value.select]
          · simp only [resultShape, Value.shape, keyedCols_count hk, polyKeys, List.length_map,
              List.length_range]
    | scale _ => exact absurd hc (by simp [Complete])
    | bs _ => exact absurd hc (by simp [Complete])
    | cs _ => exact absurd hc (by simp [Complete])
    | keyed _ => exact absurd hc (by simp [Complete])
    | arr _ => exact absurd hc (by simp [Complete])
  | bs a =>
    cases st with
    | bs s =>
      simp only [Tr.call] at h ⊢
      cases hr : (bsT a p.quant).call (some s) xs with
      | error e => simp [hr] at h
      | ok r =>
        obtain ⟨rows, s'⟩ := r
        simp only [hr] at h
        obtain ⟨h1, h2, h3⟩ := call_some (bs_lawful a p.quant) s trivial xs rows s' hr
        subst h1
        split at h
        · cases h
        · rename_i kc hk
          simp only [Except.ok.injEq, Prod.mk.injEq] at h
          obtain ⟨rfl, rfl⟩ := h
          refine ⟨rfl, ?_, fun is => ?_, ?_⟩
          · intro q hq; rw [keyedCols_length hk q hq, h2]
          · simp only [h3 is, keyedCols_select hk is, Value.select]
          · simp only [resultShape, Value.shape, keyedCols_keys hk]
    | scale _ => exact absurd hc (by simp [Complete])
    | poly _ => exact absurd hc (by simp [Complete])
    | cs _ => exact absurd hc (by simp [Complete])
    | keyed _ => exact absurd hc (by simp [Complete])
    | arr _ => exact absurd hc (by simp [Complete])
  | cs a =>
    cases st with
    | cs s =>
      simp only [Tr.call] at h ⊢
      cases hr : (csT a p.quant p.getF p.getQ2).call (some s) xs with
      | error e => simp [hr] at h
      | ok r =>
        obtain ⟨rows, s'⟩ := r
        simp only [hr] at h
        obtain ⟨h1, h2, h3⟩ := call_some (cs_lawful a p.quant p.getF p.getQ2) s trivial xs rows s' hr
        subst h1
        split at h
        · cases h
        · rename_i kc hk
          simp only [Except.ok.injEq, Prod.mk.injEq] at h
          obtain ⟨rfl, rfl⟩ := h
          refine ⟨rfl, ?_, fun is => ?_, ?_⟩
          · intro q hq; rw [keyedCols_length hk q hq, h2]
          · simp only [h3 is, keyedCols_select hk is, Value.select]
          · simp only [resultShape, Value.shape, keyedCols_keys hk]
    | scale _ => exact absurd hc (by simp [Complete])
    | poly _ => exact absurd hc (by simp [Complete])
    | bs _ => exact absurd hc (by simp [Complete])
    | keyed _ => exact absurd hc (by simp [Complete])
    | arr _ => exact absurd hc (by simp [Complete])

/-- a fitting stateful call records a complete state, and replaying that state on the same vector
gives the same value -/
theorem trCall_fit (tr : Tr) (p : Params) (xs : List Rat) (v : Value) (st : TState)
    (h : tr.call p none xs = .ok (v, st)) :
    Complete p tr st ∧ tr.call p (some st) xs = .ok (v, st) := by
  cases tr with
  | scale ca sa dd =>
    simp only [Tr.call] at h ⊢
    cases hr : (scaleT p.sqrt ca sa dd).call none xs with
    | error e => simp [hr] at h
    | ok r =>
      obtain ⟨out, s⟩ := r
      simp only [hr, Except.ok.injEq, Prod.mk.injEq] at h
      obtain ⟨rfl, rfl⟩ := h
      obtain ⟨h1, h2⟩ := call_none (scale_lawful p.sqrt ca sa dd) xs out s hr
      exact ⟨h1, by simp only [h2]⟩
  | poly d raw =>
    simp only [Tr.call] at h ⊢
    cases hr : (polyT p.sqrt d raw).call none xs with
    | error e => simp [hr] at h
    | ok r =>
      obtain ⟨rows, s⟩ := r
      simp only [hr] at h
      split at h
      · cases h
      · rename_i kc hk
        simp only [Except.ok.injEq, Prod.mk.injEq] at h
        obtain ⟨rfl, rfl⟩ := h
        obtain ⟨h1, h2⟩ := call_none (poly_lawful p.sqrt d raw) xs rows s hr
        exact ⟨h1, by simp only [h2, hk]⟩
  | bs a =>
    simp only [Tr.call] at h ⊢
    cases hr : (bsT a p.quant).call none xs with
    | error e => simp [hr] at h
    | ok r =>
      obtain ⟨rows, s⟩ := r
      simp only [hr] at h
      split at h
      · cases h
      · rename_i kc hk
        simp only [Except.ok.injEq, Prod.mk.injEq] at h
        obtain ⟨rfl, rfl⟩ := h
        obtain ⟨_, h2⟩ := call_none (bs_lawful a p.quant) xs rows s hr
        exact ⟨trivial, by simp only [h2, hk]⟩
  | cs a =>
    simp only [Tr.call] at h ⊢
    cases hr : (csT a p.quant p.getF p.getQ2).call none xs with
    | error e => simp [hr] at h
    | ok r =>
      obtain ⟨rows, s⟩ := r
      simp only [hr] at h
      split at h
      · cases h
      · rename_i kc hk
        simp only [Except.ok.injEq, Prod.mk.injEq] at h
        obtain ⟨rfl, rfl⟩ := h
        obtain ⟨_, h2⟩ := call_none (cs_lawful a p.quant p.getF p.getQ2) xs rows s hr
        exact ⟨trivial, by simp only [h2, hk]⟩


/-- a nested state handed to a transform that receives a vector makes the call fail -/
theorem trCall_nested_error (tr : Tr) (p : Params) (st : TState) (hn : NestedComplete tr st) (xs : List Rat) :
    ∃ e, tr.call p (some st) xs = .error e := by
  cases tr with
  | scale ca sa dd =>
    cases st with
    | keyed m => exact ⟨_, rfl⟩
    | arr ss => exact ⟨_, rfl⟩
    | scale _ => simp [NestedComplete] at hn
    | poly _ => simp [NestedComplete] at hn
    | bs _ => simp [NestedComplete] at hn
    | cs _ => simp [NestedComplete] at hn
  | poly d raw => simp [NestedComplete] at hn
  | bs a => simp [NestedComplete] at hn
  | cs a => simp [NestedComplete] at hn

/-! ## the decorator's wrapper on any value -/

theorem select_shape (is : List Nat) (v : Value) : (v.select is).shape = v.shape := by
  cases v with
  | vec x => rfl
  | cols d m cs =>
    cases d
    · simp [Value.select, Value.shape, selCols]
    · simp [Value.select, Value.shape, selCols, List.map_map, Function.comp_def]

theorem readyFor_mono {p : Params} {tr : Tr} {st st' : TState} {sh : Shape} (h : ReadyFor p tr st sh)
    (hx : StExt st st') : ReadyFor p tr st' sh := by
  rcases hx with rfl | ⟨m, m', rfl, rfl, he⟩
  · exact h
  · cases sh with
    | vec => exact absurd rfl (complete_not_keyed (show Complete p tr (.keyed m) from h) m)
    | dict ks =>
      cases tr with
      | scale ca sa dd =>
        intro k hk hh
        obtain ⟨s, hs, hg⟩ := h k hk hh
        exact ⟨s, he _ _ hs, hg⟩
      | poly d raw => exact h
      | bs a => exact h
      | cs a => exact h
    | arr w =>
      cases tr <;> exact h

/-- **Replay of the wrapper.**  With the recorded state ready for the shape of the argument, the
wrapper leaves the state unchanged, keeps one entry per row in every column, commutes with row
selection, and returns a value of the shape the recorded state determines. -/
theorem wrapper_replay (tr : Tr) (p : Params) (st : TState) (v : Value) (hr : ReadyFor p tr st v.shape)
    (v2 : Value) (st' : TState) (h : wrapper tr p (some st) v = .ok (v2, st')) (n : Nat) (hl : v.Len n) :
    st' = st ∧ v2.Len n ∧ (∀ is, wrapper tr p (some st) (v.select is) = .ok (v2.select is, st)) ∧
      resultShape tr p st (some v.shape) = some v2.shape := by
  cases v with
  | vec xs =>
    have hl' : xs.length = n := hl
    subst hl'
    exact trCall_replay tr p st hr xs v2 st' h
  | cols d md cs =>
    cases d with
    | true =>
      cases tr with
      | scale ca sa dd =>
        cases st with
        | keyed m =>
          simp only [wrapper, keyedOf] at h ⊢
          have hp : ∀ q ∈ cs, Field.hidden q.1 = false → ∃ s, getKey m q.1 = some s ∧ ScaleComplete s :=
            fun q hq hh => hr q.1 (List.mem_map_of_mem hq) hh
          cases hcd : (scaleT p.sqrt ca sa dd).callDict Field.hidden m cs with
          | error e => simp [hcd] at h
          | ok r =>
            obtain ⟨res, m1⟩ := r
            simp only [hcd, Except.ok.injEq, Prod.mk.injEq] at h
            obtain ⟨rfl, rfl⟩ := h
            obtain ⟨i1, i2⟩ := callDict_replay (scale_lawful p.sqrt ca sa dd) Field.hidden cs m hp res m1 hcd
            subst i1
            refine ⟨rfl, ?_, fun is => ?_, ?_⟩
            · exact callDict_len (scale_lawful p.sqrt ca sa dd) Field.hidden cs m1
                (fun q hq hh s hs => by
                  obtain ⟨s', hs', hg⟩ := hp q hq hh
                  rw [hs] at hs'; cases hs'; exact hg) res m1 hcd n hl
            · simp only [Value.select, selCols, wrapper, i2 is]
            · simp only [resultShape, Value.shape, callDict_keys Field.hidden cs m1 res m1 hcd]
        | scale _ => exact absurd hr (by simp [ReadyFor, Value.shape])
        | poly _ => exact absurd hr (by simp [ReadyFor, Value.shape])
        | bs _ => exact absurd hr (by simp [ReadyFor, Value.shape])
        | cs _ => exact absurd hr (by simp [ReadyFor, Value.shape])
        | arr _ => exact absurd hr (by simp [ReadyFor, Value.shape])
      | poly d raw => simp [wrapper] at h
      | bs a => simp [wrapper] at h
      | cs a => simp [wrapper] at h
    | false =>
      cases tr with
      | scale ca sa dd =>
        cases st with
        | arr ss =>
          simp only [wrapper, arrOf] at h ⊢
          obtain ⟨hw, hg⟩ : ss.length = cs.length ∧ ∀ s ∈ ss, ScaleComplete s := hr
          cases hcc : callCols (scaleT p.sqrt ca sa dd) (some ss) (cs.map (·.2)) with
          | error e => simp [hcc] at h
          | ok r =>
            obtain ⟨outs, ss1⟩ := r
            simp only [hcc, Except.ok.injEq, Prod.mk.injEq] at h
            obtain ⟨rfl, rfl⟩ := h
            obtain ⟨i1, i2, i3, i4, i5⟩ := callCols_replay (scale_lawful p.sqrt ca sa dd) _ outs ss ss1 hg hcc
            subst i1
            refine ⟨rfl, ?_, fun is => ?_, ?_⟩
            · intro q hq
              have hq2 : q.2 ∈ outs := by
                have := List.mem_map_of_mem (f := (·.2)) hq
                rwa [positional_snd] at this
              exact i4 n (fun c hc => by
                obtain ⟨q', hq', rfl⟩ := List.mem_map.1 hc
                exact hl q' hq') q.2 hq2
            · have hm : (selCols is cs).map (·.2) = (cs.map (·.2)).map (select is) := by
                simp [selCols, List.map_map, Function.comp_def]
              simp only [Value.select, wrapper, hm, i5 is, positional_select]
            · simp only [resultShape, Value.shape, positional_length, i3, List.length_map]
        | scale _ => exact absurd hr (by simp [ReadyFor, Value.shape])
        | poly _ => exact absurd hr (by simp [ReadyFor, Value.shape])
        | bs _ => exact absurd hr (by simp [ReadyFor, Value.shape])
        | cs _ => exact absurd hr (by simp [ReadyFor, Value.shape])
        | keyed _ => exact absurd hr (by simp [ReadyFor, Value.shape])
      | poly d raw => simp [wrapper] at h
      | bs a => simp [wrapper] at h
      | cs a => simp [wrapper] at h

/-- **Fit (or refit) of the wrapper, then replay.**  Called without state, or with a state in which
nothing is half-fitted, the wrapper leaves such a state, which extends the one it found, is ready for
the shape of the argument, and gives the same value again — also after it has been extended. -/
theorem wrapper_stable (tr : Tr) (p : Params) (o : Option TState) (v : Value)
    (ho : ∀ st0, o = some st0 → CompleteAny p tr st0) (v2 : Value) (st : TState)
    (h : wrapper tr p o v = .ok (v2, st)) :
    CompleteAny p tr st ∧ (∀ st0, o = some st0 → StExt st0 st) ∧ ReadyFor p tr st v.shape ∧
      ∀ st', StExt st st' → wrapper tr p (some st') v = .ok (v2, st') := by
  cases v with
  | vec xs =>
    simp only [wrapper] at h ⊢
    cases o with
    | none =>
      obtain ⟨k1, k2⟩ := trCall_fit tr p xs v2 st h
      refine ⟨.inl k1, (fun _ h0 => by cases h0), k1, fun st' hx => ?_⟩
      rw [stExt_base hx (complete_not_keyed k1)]
      exact k2
    | some st0 =>
      rcases ho st0 rfl with hc | hn
      · obtain ⟨k1, _, _, _⟩ := trCall_replay tr p st0 hc xs v2 st h
        subst k1
        refine ⟨.inl hc, (fun s h0 => by cases h0; exact stExt_refl _), hc, fun st' hx => ?_⟩
        rw [stExt_base hx (complete_not_keyed hc)]
        exact h
      · obtain ⟨e, he⟩ := trCall_nested_error tr p st0 hn xs
        rw [he] at h
        cases h
  | cols d md cs =>
    cases d with
    | true =>
      cases tr with
      | scale ca sa dd =>
        simp only [wrapper] at h
        -- the nested dictionary the loop starts from, and the goodness of what it holds
        cases hm0 : keyedOf o with
        | error e => simp [hm0] at h
        | ok m0 =>
        simp only [hm0] at h
        have hg0 : ∀ k s, getKey m0 k = some s → ScaleComplete s := by
          cases o with
          | none =>
            simp only [keyedOf, Except.ok.injEq] at hm0
            subst hm0
            intro k s hk; simp [getKey] at hk
          | some st0 =>
            cases st0 with
            | keyed m =>
              simp only [keyedOf, Except.ok.injEq] at hm0
              subst hm0
              rcases ho _ rfl with hc | hn
              · simp [Complete] at hc
              · exact hn
            | scale _ => simp [keyedOf] at hm0
            | poly _ => simp [keyedOf] at hm0
            | bs _ => simp [keyedOf] at hm0
            | cs _ => simp [keyedOf] at hm0
            | arr _ => simp [keyedOf] at hm0
        have ho0 : ∀ st0, o = some st0 → st0 = .keyed m0 := by
          intro st0 h0
          subst h0
          cases st0 with
          | keyed m => simp only [keyedOf, Except.ok.injEq] at hm0; rw [hm0]
          | scale _ => simp [keyedOf] at hm0
          | poly _ => simp [keyedOf] at hm0
          | bs _ => simp [keyedOf] at hm0
          | cs _ => simp [keyedOf] at hm0
          | arr _ => simp [keyedOf] at hm0
        cases hcd : (scaleT p.sqrt ca sa dd).callDict Field.hidden m0 cs with
        | error e => simp [hcd] at h
        | ok r =>
          obtain ⟨res, m1⟩ := r
          simp only [hcd, Except.ok.injEq, Prod.mk.injEq] at h
          obtain ⟨rfl, rfl⟩ := h
          obtain ⟨i1, i2, i3, i4⟩ := callDict_stable (scale_lawful p.sqrt ca sa dd) Field.hidden cs m0 hg0 res m1 hcd
          refine ⟨.inr i1, fun st0 h0 => ?_, ?_, fun st' hx => ?_⟩
          · rw [ho0 st0 h0]
            exact .inr ⟨m0, m1, rfl, rfl, i2⟩
          · intro k hk hh
            obtain ⟨q, hq, rfl⟩ := List.mem_map.1 hk
            obtain ⟨s, hs⟩ := i3 q hq hh
            exact ⟨s, hs, i1 _ _ hs⟩
          · rcases hx with rfl | ⟨m, mX, hm, rfl, he⟩
            · simp only [wrapper, keyedOf, i4 m1 (extends_refl _)]
            · cases hm
              simp only [wrapper, keyedOf, i4 mX he]
      | poly d raw => simp [wrapper] at h
      | bs a => simp [wrapper] at h
      | cs a => simp [wrapper] at h
    | false =>
      cases tr with
      | scale ca sa dd =>
        simp only [wrapper] at h
        cases o with
        | none =>
          simp only [arrOf] at h
          cases hcc : callCols (scaleT p.sqrt ca sa dd) none (cs.map (·.2)) with
          | error e => simp [hcc] at h
          | ok r =>
            obtain ⟨outs, ss⟩ := r
            simp only [hcc, Except.ok.injEq, Prod.mk.injEq] at h
            obtain ⟨rfl, rfl⟩ := h
            obtain ⟨i1, i2, i3⟩ := callCols_fit (scale_lawful p.sqrt ca sa dd) _ outs ss hcc
            refine ⟨.inr i1, (fun _ h0 => by cases h0), ⟨by simpa using i2, i1⟩, fun st' hx => ?_⟩
            rw [stExt_base hx (fun m hm => by cases hm)]
            simp only [wrapper, arrOf, i3]
        | some st0 =>
          cases st0 with
          | arr ss0 =>
            simp only [arrOf] at h
            have hg0 : ∀ s ∈ ss0, ScaleComplete s := by
              rcases ho _ rfl with hc | hn
              · simp [Complete] at hc
              · exact hn
            cases hcc : callCols (scaleT p.sqrt ca sa dd) (some ss0) (cs.map (·.2)) with
            | error e => simp [hcc] at h
            | ok r =>
              obtain ⟨outs, ss⟩ := r
              simp only [hcc, Except.ok.injEq, Prod.mk.injEq] at h
              obtain ⟨rfl, rfl⟩ := h
              obtain ⟨i1, i2, _, _, _⟩ := callCols_replay (scale_lawful p.sqrt ca sa dd) _ outs ss0 ss hg0 hcc
              subst i1
              refine ⟨.inr hg0, (fun s h0 => by cases h0; exact stExt_refl _), ⟨by simpa using i2, hg0⟩,
                fun st' hx => ?_⟩
              rw [stExt_base hx (fun m hm => by cases hm)]
              simp only [wrapper, arrOf, hcc]
          | scale _ => simp [arrOf] at h
          | poly _ => simp [arrOf] at h
          | bs _ => simp [arrOf] at h
          | cs _ => simp [arrOf] at h
          | keyed _ => simp [arrOf] at h
      | poly d raw => simp [wrapper] at h
      | bs a => simp [wrapper] at h
      | cs a => simp [wrapper] at h

/-! ## expressions -/
theorem numColumn_select {f : Frame} {v : String} {c : List Rat} (h : f.numColumn v = .ok c) (is : List Nat) :
    (f.select is).numColumn v = .ok (select is c) ∧ c.length = f.rows.length := by
  simp only [Frame.numColumn, Frame.select] at h ⊢
  split at h
  · rename_i hc
    simp only [hc, if_true]
    exact ⟨mapE_select h is, mapE_length h⟩
  · cases h

theorem labColumn_select {f : Frame} {v : String} {c : List (Option Contrasts.Label)}
    (h : f.labColumn v = .ok c) (is : List Nat) :
    (f.select is).labColumn v = .ok (select is c) ∧ c.length = f.rows.length := by
  simp only [Frame.labColumn, Frame.select] at h ⊢
  split at h
  · rename_i hc
    simp only [hc, if_true]
    exact ⟨mapE_select h is, mapE_length h⟩
  · cases h

/-- **Replay of an expression.**  When every call node finds a recorded state that is ready for the
shape of its argument, evaluating the expression leaves the state dictionary unchanged, yields one
entry per row, commutes with row selection, and gives a value of the shape the recorded states
determine. -/
theorem eval_replay (env : Env) (f : Frame) (e : Expr) (ts : TStates) (hr : ExprReady env ts e)
    (v : Value) (ts' : TStates) (h : evalExpr env f e ts = .ok (v, ts')) :
    ts' = ts ∧ v.Len f.rows.length ∧
      (∀ is, evalExpr env (f.select is) e ts = .ok (v.select is, ts)) ∧
      shapeOf env ts e = some v.shape := by
  induction e generalizing v ts' with
  | col c =>
    simp only [evalExpr] at h ⊢
    cases hc : f.numColumn c with
    | error x => simp [hc] at h
    | ok col =>
      simp only [hc, Except.ok.injEq, Prod.mk.injEq] at h
      obtain ⟨rfl, rfl⟩ := h
      refine ⟨rfl, (numColumn_select hc []).2, fun is => ?_, rfl⟩
      simp only [(numColumn_select hc is).1, Value.select]
  | binc op a c ih =>
    simp only [evalExpr] at h ⊢
    cases ha : evalExpr env f a ts with
    | error x => simp [ha] at h
    | ok r =>
      obtain ⟨va, ts1⟩ := r
      obtain ⟨h1, h2, h3, _⟩ := ih hr va ts1 ha
      subst h1
      cases va with
      | vec x =>
        simp only [ha, Except.ok.injEq, Prod.mk.injEq] at h
        obtain ⟨rfl, rfl⟩ := h
        refine ⟨rfl, by simpa [Value.Len] using h2, fun is => ?_, rfl⟩
        simp only [h3 is, Value.select, select_map]
      | cols d m cs => simp [ha] at h
  | bin op a b iha ihb =>
    simp only [evalExpr] at h ⊢
    obtain ⟨hra, hrb⟩ := hr
    cases ha : evalExpr env f a ts with
    | error x => simp [ha] at h
    | ok r =>
      obtain ⟨va, ts1⟩ := r
      obtain ⟨h1, h2, h3, _⟩ := iha hra va ts1 ha
      subst h1
      simp only [ha] at h
      cases hb : evalExpr env f b ts1 with
      | error x => simp [hb] at h
      | ok r2 =>
        obtain ⟨vb, ts2⟩ := r2
        obtain ⟨g1, g2, g3, _⟩ := ihb hrb vb ts2 hb
        subst g1
        simp only [hb] at h
        cases va with
        | vec x =>
          cases vb with
          | vec y =>
            simp only [Except.ok.injEq, Prod.mk.injEq] at h
            obtain ⟨rfl, rfl⟩ := h
            have hx : x.length = f.rows.length := h2
            have hy : y.length = f.rows.length := g2
            refine ⟨rfl, by simp [Value.Len, hx, hy], fun is => ?_, rfl⟩
            simp only [h3 is, g3 is, Value.select, select_zipWith _ _ _ _ (hx.trans hy.symm)]
          | cols d m cs => simp at h
        | cols d m cs => simp at h
  | elem fn a ih =>
    simp only [evalExpr] at h ⊢
    cases ha : evalExpr env f a ts with
    | error x => simp [ha] at h
    | ok r =>
      obtain ⟨va, ts1⟩ := r
      obtain ⟨h1, h2, h3, _⟩ := ih hr va ts1 ha
      subst h1
      cases va with
      | vec x =>
        simp only [ha] at h
        split at h
        · cases h
        · rename_i y hy
          simp only [Except.ok.injEq, Prod.mk.injEq] at h
          obtain ⟨rfl, rfl⟩ := h
          have hx : x.length = f.rows.length := h2
          refine ⟨rfl, by simp [Value.Len, mapE_length hy, hx], fun is => ?_, rfl⟩
          simp only [h3 is, Value.select, mapE_select hy is]
      | cols d m cs => simp [ha] at h
  | call text a ih =>
    simp only [evalExpr] at h ⊢
    obtain ⟨hra, tr, p, st, sh, hcall, hget, hsh, hready⟩ := hr
    cases ha : evalExpr env f a ts with
    | error x => simp [ha] at h
    | ok r =>
      obtain ⟨va, ts1⟩ := r
      obtain ⟨h1, h2, h3, h4⟩ := ih hra va ts1 ha
      subst h1
      rw [hsh] at h4
      cases h4
      simp only [ha, hcall, hget] at h
      cases hw : wrapper tr p (some st) va with
      | error x => simp [hw, liftT] at h
      | ok r2 =>
        obtain ⟨v2, st2⟩ := r2
        simp only [hw, liftT, Except.ok.injEq, Prod.mk.injEq] at h
        obtain ⟨rfl, rfl⟩ := h
        obtain ⟨k1, k2, k3, k4⟩ := wrapper_replay tr p st va hready v2 st2 hw f.rows.length h2
        subst k1
        refine ⟨setKey_of_getKey _ _ _ hget, k2, fun is => ?_, ?_⟩
        · simp only [h3 is, hcall, hget, k3 is, liftT, setKey_of_getKey _ _ _ hget]
        · simp only [shapeOf, hcall, hget, hsh, k4]

/-- the shape the recorded states determine does not change when the dictionary is extended -/
theorem shapeOf_mono (env : Env) {ts ts' : TStates} (hx : TExtends ts ts') (e : Expr)
    (h : ExprReady env ts e) : shapeOf env ts' e = shapeOf env ts e := by
  induction e with
  | col c => rfl
  | binc op a c ih => rfl
  | bin op a b iha ihb => rfl
  | elem fn a ih => rfl
  | call text a ih =>
    obtain ⟨ha, tr, p, st, sh, h1, h2, h3, h4⟩ := h
    obtain ⟨st', h2', he⟩ := hx _ _ h2
    simp only [shapeOf, h1, h2, h2', ih ha]
    rcases he with rfl | ⟨m, m', rfl, rfl, _⟩
    · rfl
    · cases tr <;> rfl

theorem exprReady_mono (env : Env) {ts ts' : TStates} (hx : TExtends ts ts') (e : Expr)
    (h : ExprReady env ts e) : ExprReady env ts' e := by
  induction e with
  | col c => trivial
  | binc op a c ih => exact ih h
  | bin op a b iha ihb => exact ⟨iha h.1, ihb h.2⟩
  | elem fn a ih => exact ih h
  | call text a ih =>
    obtain ⟨ha, tr, p, st, sh, h1, h2, h3, h4⟩ := h
    obtain ⟨st', h2', he⟩ := hx _ _ h2
    exact ⟨ih ha, tr, p, st', sh, h1, h2', by rw [shapeOf_mono env hx a ha]; exact h3,
      readyFor_mono h4 he⟩

/-- **Fit then replay of an expression.**  Starting from any dictionary in which nothing is
half-fitted (in particular the empty one), an evaluation only adds such states (or keys of a nested
state), leaves every call node ready, and re-evaluating under ANY extension of the resulting
dictionary gives the same value and leaves that dictionary unchanged. -/
theorem eval_stable (env : Env) (f : Frame) (e : Expr) (ts : TStates) (hsc : StatesComplete env ts)
    (v : Value) (ts1 : TStates) (h : evalExpr env f e ts = .ok (v, ts1)) :
    StatesComplete env ts1 ∧ TExtends ts ts1 ∧ ExprReady env ts1 e ∧
      ∀ tsX, TExtends ts1 tsX → evalExpr env f e tsX = .ok (v, tsX) := by
  induction e generalizing v ts ts1 with
  | col c =>
    simp only [evalExpr] at h
    cases hc : f.numColumn c with
    | error x => simp [hc] at h
    | ok col =>
      simp only [hc, Except.ok.injEq, Prod.mk.injEq] at h
      obtain ⟨rfl, rfl⟩ := h
      exact ⟨hsc, texends_refl _, trivial, fun tsX _ => by simp only [evalExpr, hc]⟩
  | binc op a c ih =>
    simp only [evalExpr] at h
    cases ha : evalExpr env f a ts with
    | error x => simp [ha] at h
    | ok r =>
      obtain ⟨va, tsa⟩ := r
      obtain ⟨h1, h2, h3, h4⟩ := ih ts hsc va tsa ha
      cases va with
      | vec x =>
        simp only [ha, Except.ok.injEq, Prod.mk.injEq] at h
        obtain ⟨rfl, rfl⟩ := h
        exact ⟨h1, h2, h3, fun tsX hx => by simp only [evalExpr, h4 tsX hx]⟩
      | cols d m cs => simp [ha] at h
  | bin op a b iha ihb =>
    simp only [evalExpr] at h
    cases ha : evalExpr env f a ts with
    | error x => simp [ha] at h
    | ok r =>
      obtain ⟨va, tsa⟩ := r
      obtain ⟨h1, h2, h3, h4⟩ := iha ts hsc va tsa ha
      simp only [ha] at h
      cases hb : evalExpr env f b tsa with
      | error x => simp [hb] at h
      | ok r2 =>
        obtain ⟨vb, tsb⟩ := r2
        obtain ⟨g1, g2, g3, g4⟩ := ihb tsa h1 vb tsb hb
        simp only [hb] at h
        cases va with
        | vec x =>
          cases vb with
          | vec y =>
            simp only [Except.ok.injEq, Prod.mk.injEq] at h
            obtain ⟨rfl, rfl⟩ := h
            refine ⟨g1, texends_trans h2 g2, ⟨exprReady_mono env g2 a h3, g3⟩, fun tsX hx => ?_⟩
            simp only [evalExpr, h4 tsX (texends_trans g2 hx), g4 tsX hx]
          | cols d m cs => simp at h
        | cols d m cs => simp at h
  | elem fn a ih =>
    simp only [evalExpr] at h
    cases ha : evalExpr env f a ts with
    | error x => simp [ha] at h
    | ok r =>
      obtain ⟨va, tsa⟩ := r
      obtain ⟨h1, h2, h3, h4⟩ := ih ts hsc va tsa ha
      cases va with
      | vec x =>
        simp only [ha] at h
        split at h
        · cases h
        · rename_i y hy
          simp only [Except.ok.injEq, Prod.mk.injEq] at h
          obtain ⟨rfl, rfl⟩ := h
          exact ⟨h1, h2, h3, fun tsX hx => by simp only [evalExpr, h4 tsX hx, hy]⟩
      | cols d m cs => simp [ha] at h
  | call text a ih =>
    simp only [evalExpr] at h
    cases ha : evalExpr env f a ts with
    | error x => simp [ha] at h
    | ok r =>
      obtain ⟨va, tsa⟩ := r
      obtain ⟨h1, h2, h3, h4⟩ := ih ts hsc va tsa ha
      simp only [ha] at h
      cases hcall : env.call (stateKey env.norm text) with
      | none => simp [hcall] at h
      | some trp =>
        obtain ⟨tr, p⟩ := trp
        simp only [hcall] at h
        cases hw : wrapper tr p (getKey tsa (stateKey env.norm text)) va with
        | error x => simp [hw, liftT] at h
        | ok r2 =>
          obtain ⟨v2, st⟩ := r2
          simp only [hw, liftT, Except.ok.injEq, Prod.mk.injEq] at h
          obtain ⟨rfl, rfl⟩ := h
          obtain ⟨k1, k2, k3, k4⟩ := wrapper_stable tr p _ va
            (fun st0 h0 => h1 _ tr p st0 hcall h0) v2 st hw
          have hext : TExtends tsa (setKey tsa (stateKey env.norm text) st) := texends_setKey _ _ _ k2
          have hra : ExprReady env (setKey tsa (stateKey env.norm text) st) a := exprReady_mono env hext a h3
          have hsh : shapeOf env (setKey tsa (stateKey env.norm text) st) a = some va.shape :=
            (eval_replay env f a _ hra va _ (h4 _ hext)).2.2.2
          refine ⟨?_, texends_trans h2 hext, ⟨hra, tr, p, st, va.shape, hcall, getKey_setKey_same _ _ _, hsh, k3⟩,
            fun tsX hx => ?_⟩
          · intro k tr' p' st' hc' hg'
            by_cases hk : k = stateKey env.norm text
            · subst hk
              rw [getKey_setKey_same] at hg'
              rw [hcall] at hc'
              cases hc'; cases hg'
              exact k1
            · rw [getKey_setKey_ne _ _ _ _ hk] at hg'
              exact h1 k tr' p' st' hc' hg'
          · obtain ⟨st', hgx, hsx⟩ := hx _ _ (getKey_setKey_same _ _ _)
            simp only [evalExpr, h4 tsX (texends_trans hext hx), hcall, hgx, k4 st' hsx, liftT,
              setKey_of_getKey _ _ _ hgx]

end FormulaicVerif.Proofs.C04
