import FormulaicVerif.Model.EvalOrder
import FormulaicVerif.Proofs.C14Multistage
/-! C14: which of several failing nodes raises first does not matter — every minimal failing node's error is the parsing error or the known NotImplementedError. -/
namespace FormulaicVerif.Proofs.C14Order
open FormulaicVerif FormulaicVerif.Model FormulaicVerif.Model.EvalOrder
open FormulaicVerif.Proofs.C14 (evalAst_node evalArgs_cons)
open FormulaicVerif.Proofs.C14General (evalArgs_nil)
open FormulaicVerif.Proofs.C14Multistage

mutual
/-- no minimal failing node: the tree evaluates -/
theorem minimalErrors_nil (dot : DotCtx) : ∀ (a : Ast), minimalErrors dot a = [] → ∃ v, evalAst dot a = .ok v
  | .leaf t, _ => ⟨.set [termOfTok t], by simp [evalAst]⟩
  | .node o args, h => by
    rw [minimalErrors] at h
    split at h
    · split at h
      · cases h
      · rename_i v hv; exact ⟨v, hv⟩
    · cases h
theorem argErrors_nil (dot : DotCtx) : ∀ (args : List Ast), argErrors dot args = [] → ∀ a ∈ args, ∃ v, evalAst dot a = .ok v
  | [], _, a, ha => by cases ha
  | x :: xs, h, a, ha => by
    rw [argErrors] at h
    have h1 : minimalErrors dot x = [] := (List.append_eq_nil_iff.mp h).1
    have h2 : argErrors dot xs = [] := (List.append_eq_nil_iff.mp h).2
    rcases List.mem_cons.mp ha with rfl | ha
    · exact minimalErrors_nil dot _ h1
    · exact argErrors_nil dot xs h2 a ha
end

mutual
/-- the error of the depth-first evaluation is the error of a minimal failing node -/
theorem evalAst_error_mem (dot : DotCtx) : ∀ (a : Ast) (e : ParseErr), evalAst dot a = .error e → e ∈ minimalErrors dot a
  | .leaf t, e, h => by simp [evalAst] at h
  | .node o args, e, h => by
    rw [minimalErrors]
    cases hae : argErrors dot args with
    | nil =>
      simp only
      rw [h]
      simp
    | cons x xs =>
      simp only
      rw [← hae]
      rw [evalAst_node] at h
      cases hv : evalAst.evalArgs dot args with
      | error e' =>
        rw [hv] at h
        injection h with h; subst h
        obtain ⟨b, hb, he⟩ := evalArgs_error dot args _ hv
        exact argErrors_mem dot args b hb _ (evalAst_error_mem dot b _ he)
      | ok vs =>
        -- all arguments evaluate, so none has a minimal failing node: contradiction with `hae`
        exfalso
        have : argErrors dot args = [] := argErrors_ok dot args vs hv
        rw [this] at hae; cases hae
theorem argErrors_mem (dot : DotCtx) : ∀ (args : List Ast) (b : Ast), b ∈ args → ∀ e, e ∈ minimalErrors dot b → e ∈ argErrors dot args
  | [], b, hb, _, _ => by cases hb
  | x :: xs, b, hb, e, he => by
    rw [argErrors]
    rcases List.mem_cons.mp hb with rfl | hb
    · exact List.mem_append_left _ he
    · exact List.mem_append_right _ (argErrors_mem dot xs b hb e he)
theorem argErrors_ok (dot : DotCtx) : ∀ (args : List Ast) (vs : List Val), evalAst.evalArgs dot args = .ok vs → argErrors dot args = []
  | [], _, _ => by rw [argErrors]
  | x :: xs, vs, h => by
    rw [evalArgs_cons] at h
    cases hx : evalAst dot x with
    | error e => rw [hx] at h; cases h
    | ok v =>
      rw [hx] at h
      cases hs : evalAst.evalArgs dot xs with
      | error e => rw [hs] at h; cases h
      | ok ws =>
        rw [argErrors, argErrors_ok dot xs ws hs, List.append_nil]
        exact minimalErrors_ok dot x v hx
theorem minimalErrors_ok (dot : DotCtx) : ∀ (a : Ast) (v : Val), evalAst dot a = .ok v → minimalErrors dot a = []
  | .leaf t, _, _ => by rw [minimalErrors]
  | .node o args, v, h => by
    rw [minimalErrors]
    have hargs : argErrors dot args = [] := by
      rw [evalAst_node] at h
      cases hv : evalAst.evalArgs dot args with
      | error e => rw [hv] at h; cases h
      | ok vs => exact argErrors_ok dot args vs hv
    rw [hargs]
    simp only
    rw [h]
end

/-- the model's own answer is one of the possible ones -/
theorem parseTerms_error_possible (cfg : ParseCfg) (env : PyEnv) (cs : List CharInfo) (e : ParseErr)
    (h : parseTerms cfg env cs = .error e) : e ∈ possibleErrors cfg env cs := by
  unfold possibleErrors
  have h0 := h
  unfold parseTerms at h
  cases hg : getTokens cfg env cs with
  | error e' => rw [hg] at h; injection h with h; subst h; simp
  | ok p =>
    obtain ⟨ts, lhs⟩ := p
    rw [hg] at h
    simp only at h ⊢
    cases ht : tokensToAst cfg.table ts with
    | error e' => rw [ht] at h; injection h with h; subst h; simp
    | ok oa =>
      rw [ht] at h
      cases oa with
      | none => cases h
      | some a =>
        simp only at h ⊢
        cases he : evalAst { available := env.available, usedLhs := lhsVariables env lhs } a with
        | error e' =>
          rw [he] at h
          injection h with h; subst h
          have hm := evalAst_error_mem _ a _ he
          cases hme : minimalErrors { available := env.available, usedLhs := lhsVariables env lhs } a with
          | nil => rw [hme] at hm; cases hm
          | cons x xs => simp only; rw [← hme]; exact hm
        | ok v =>
          rw [minimalErrors_ok _ a v he]
          simp only
          rw [h0]
          simp

def QErr (e : ParseErr) : Prop := ∀ k, e = .internal k → k = "NotImplementedError"

theorem argErrors_all (dot : DotCtx) : ∀ (args : List Ast), (∀ a ∈ args, ∀ e ∈ minimalErrors dot a, QErr e) →
    ∀ e ∈ argErrors dot args, QErr e := by
  intro args
  induction args with
  | nil => intro _ e he; rw [argErrors] at he; cases he
  | cons x xs ih =>
    intro h e he
    rw [argErrors] at he
    rcases List.mem_append.mp he with he | he
    · exact h x (by simp) e he
    · exact ih (fun a ha => h a (List.mem_cons_of_mem _ ha)) e he

theorem node_errors (dot : DotCtx) (o : OpSpec) (args : List Ast)
    (hown : ∀ e, evalAst dot (.node o args) = .error e → QErr e)
    (hargs : ∀ a ∈ args, ∀ e ∈ minimalErrors dot a, QErr e) :
    ∀ e ∈ minimalErrors dot (.node o args), QErr e := by
  intro e he
  rw [minimalErrors] at he
  cases hae : argErrors dot args with
  | nil =>
    rw [hae] at he
    simp only at he
    cases hev : evalAst dot (.node o args) with
    | error e' =>
      rw [hev] at he
      simp only [List.mem_singleton] at he
      subst he
      exact hown _ hev
    | ok v => rw [hev] at he; cases he
  | cons x xs =>
    rw [hae] at he
    simp only at he
    rw [← hae] at he
    exact argErrors_all dot args hargs e he

theorem mt_errors (dot : DotCtx) (a : Ast) (h : MT a) : ∀ e ∈ minimalErrors dot a, QErr e := by
  induction h with
  | leaf t => intro e he; rw [minimalErrors] at he; cases he
  | node o args hk hlen hargs ih =>
    apply node_errors dot o args _ ih
    intro e he k hk'
    subst hk'
    exact (shapeM_internal dot _ (ShapeM.inner (MT.node o args hk hlen hargs)) k he).1

theorem shapeM_errors (dot : DotCtx) (a : Ast) (h : ShapeM a) : ∀ e ∈ minimalErrors dot a, QErr e := by
  induction h with
  | inner hm => exact mt_errors dot _ hm
  | struct o args ho hlen hargs ih =>
    apply node_errors dot o args _ ih
    intro e he k hk'
    subst hk'
    exact (shapeM_internal dot _ (ShapeM.struct o args ho hlen hargs) k he).1

/-- whichever minimal failing node the implementation's evaluation order reaches first: an internal
exception among the possible errors is the `NotImplementedError` of C14-F1 -/
theorem possibleErrors_internal (cfg : ParseCfg) (env : PyEnv)
    (hnorm : ∀ t x, env.norm t = .error x → x = .syntaxError) (cs : List CharInfo) :
    ∀ e ∈ possibleErrors cfg env cs, ∀ k, e = .internal k → k = "NotImplementedError" := by
  intro e he k hk
  subst hk
  unfold possibleErrors at he
  cases hg : getTokens cfg env cs with
  | error e' =>
    rw [hg] at he
    simp only [List.mem_singleton] at he
    subst he
    rcases Proofs.C14.pySyntax_only_from_fragment cfg env cs _ hnorm hg with ⟨w, hw⟩ | ⟨hw, _⟩ <;> cases hw
  | ok p =>
    obtain ⟨ts, lhs⟩ := p
    rw [hg] at he
    simp only at he
    cases ht : tokensToAst cfg.table ts with
    | error e' =>
      rw [ht] at he
      simp only [List.mem_singleton] at he
      subst he
      obtain ⟨w, hw⟩ := Proofs.C14.shunt_errors_are_syntax _ _ _ ht
      cases hw
    | ok oa =>
      rw [ht] at he
      cases oa with
      | none => cases he
      | some a =>
        simp only at he
        have hshape : ShapeM a := live_shapeM cfg.twosided cfg.multipart cfg.multistage ts a ht
        cases hme : minimalErrors { available := env.available, usedLhs := lhsVariables env lhs } a with
        | nil =>
          rw [hme] at he
          simp only at he
          cases hp : parseTerms cfg env cs with
          | error e' =>
            rw [hp] at he
            simp only [List.mem_singleton] at he
            subst he
            exact (parseTerms_internal cfg env hnorm cs k hp).1
          | ok v => rw [hp] at he; cases he
        | cons x xs =>
          rw [hme] at he
          simp only at he
          rw [← hme] at he
          exact shapeM_errors _ a hshape _ he k rfl

end FormulaicVerif.Proofs.C14Order
