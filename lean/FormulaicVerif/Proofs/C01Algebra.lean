import FormulaicVerif.Model.Eval
import FormulaicVerif.Proofs.ListSort
/-! # C01 — algebraic laws of the term algebra (ordered term sets)

`oset` is first-occurrence de-duplication by term identity (`Term.key`: the sorted factor
expressions). This file proves, for ALL operands and with ORDER (the results are equal as lists):
`+` is idempotent and associative, with the empty set as unit; `-` is the filter "identity not in the
right operand"; `:` distributes over `+` from the left; `S ** (n+1) = (S ** n) : S` for every `n`.

Everything rests on four facts about `dedupAux key seen xs` (skip what is in `seen`, emit and remember
the rest): it depends on `seen` only as a set (`dedupAux_congr`), it splits over `++`
(`dedupAux_append`), de-duplicating twice is de-duplicating once against both `seen` sets
(`dedupAux_dedupAux`), and de-duplicating the input of a key-respecting `flatMap` first changes nothing
after the output is de-duplicated (`dedup_flatMap_dedup`). -/
namespace FormulaicVerif.Proofs.C01Algebra
open FormulaicVerif FormulaicVerif.Model

section Generic
variable {α β κ κ' : Type} [BEq κ] [LawfulBEq κ] [BEq κ'] [LawfulBEq κ']

/-- the two `seen` lists have the same elements -/
def SameMem (s s' : List κ) : Prop := ∀ x, x ∈ s ↔ x ∈ s'

omit [BEq κ] [LawfulBEq κ] in
theorem sameMem_cons {s s' : List κ} (h : SameMem s s') (a : κ) : SameMem (a :: s) (a :: s') := by
  intro x; simp [h x]

theorem contains_congr {s s' : List κ} (h : SameMem s s') (x : κ) : s.contains x = s'.contains x := by
  cases h1 : s.contains x <;> cases h2 : s'.contains x <;> try rfl
  · have := (h x).2 (List.contains_iff_mem.1 h2)
    rw [List.contains_iff_mem.2 this] at h1; cases h1
  · have := (h x).1 (List.contains_iff_mem.1 h1)
    rw [List.contains_iff_mem.2 this] at h2; cases h2

theorem dedupAux_cons_seen (k : α → κ) (x : α) (xs : List α) (s : List κ) (h : k x ∈ s) :
    dedupAux k s (x :: xs) = dedupAux k s xs := by
  simp only [dedupAux, List.contains_iff_mem.2 h, if_true]

theorem dedupAux_cons_new (k : α → κ) (x : α) (xs : List α) (s : List κ) (h : k x ∉ s) :
    dedupAux k s (x :: xs) = x :: dedupAux k (k x :: s) xs := by
  have : s.contains (k x) = false := by
    cases hc : s.contains (k x)
    · rfl
    · exact absurd (List.contains_iff_mem.1 hc) h
  simp only [dedupAux, this, Bool.false_eq_true, if_false]

theorem dedupAux_congr (k : α → κ) : ∀ (xs : List α) (s s' : List κ), SameMem s s' →
    dedupAux k s xs = dedupAux k s' xs
  | [], _, _, _ => rfl
  | x :: xs, s, s', h => by
    by_cases hx : k x ∈ s
    · rw [dedupAux_cons_seen k x xs s hx, dedupAux_cons_seen k x xs s' ((h _).1 hx)]
      exact dedupAux_congr k xs s s' h
    · rw [dedupAux_cons_new k x xs s hx, dedupAux_cons_new k x xs s' (fun h' => hx ((h _).2 h'))]
      rw [dedupAux_congr k xs _ _ (sameMem_cons h (k x))]

theorem dedupAux_append (k : α → κ) : ∀ (xs ys : List α) (s : List κ),
    dedupAux k s (xs ++ ys) = dedupAux k s xs ++ dedupAux k (xs.map k ++ s) ys
  | [], _, _ => rfl
  | x :: xs, ys, s => by
    rw [List.cons_append, List.map_cons]
    by_cases hx : k x ∈ s
    · rw [dedupAux_cons_seen k x _ s hx, dedupAux_cons_seen k x _ s hx, dedupAux_append k xs ys s]
      congr 1
      apply dedupAux_congr
      intro y
      simp only [List.cons_append, List.mem_cons, List.mem_append]
      constructor
      · intro h; exact Or.inr h
      · rintro (rfl | h)
        · exact Or.inr hx
        · exact h
    · rw [dedupAux_cons_new k x _ s hx, dedupAux_cons_new k x _ s hx, dedupAux_append k xs ys (k x :: s),
        List.cons_append]
      congr 2
      apply dedupAux_congr
      intro y
      simp only [List.cons_append, List.mem_cons, List.mem_append]
      constructor
      · rintro (h | rfl | h)
        · exact Or.inr (Or.inl h)
        · exact Or.inl rfl
        · exact Or.inr (Or.inr h)
      · rintro (rfl | h | h)
        · exact Or.inr (Or.inl rfl)
        · exact Or.inl h
        · exact Or.inr (Or.inr h)

theorem dedupAux_dedupAux (k : α → κ) : ∀ (xs : List α) (s s' : List κ),
    dedupAux k s (dedupAux k s' xs) = dedupAux k (s ++ s') xs
  | [], _, _ => rfl
  | x :: xs, s, s' => by
    by_cases hx' : k x ∈ s'
    · rw [dedupAux_cons_seen k x xs s' hx', dedupAux_cons_seen k x xs (s ++ s') (by simp [hx'])]
      exact dedupAux_dedupAux k xs s s'
    · rw [dedupAux_cons_new k x xs s' hx']
      by_cases hx : k x ∈ s
      · rw [dedupAux_cons_seen k x _ s hx, dedupAux_cons_seen k x xs (s ++ s') (by simp [hx]),
          dedupAux_dedupAux k xs s (k x :: s')]
        apply dedupAux_congr
        intro y
        simp only [List.mem_append, List.mem_cons]
        constructor
        · rintro (h | rfl | h)
          · exact Or.inl h
          · exact Or.inl hx
          · exact Or.inr h
        · rintro (h | h)
          · exact Or.inl h
          · exact Or.inr (Or.inr h)
      · rw [dedupAux_cons_new k x _ s hx, dedupAux_cons_new k x xs (s ++ s') (by simp [hx, hx']),
          dedupAux_dedupAux k xs (k x :: s) (k x :: s')]
        congr 1
        apply dedupAux_congr
        intro y
        simp only [List.cons_append, List.mem_append, List.mem_cons]
        constructor
        · rintro (rfl | h | rfl | h)
          · exact Or.inl rfl
          · exact Or.inr (Or.inl h)
          · exact Or.inl rfl
          · exact Or.inr (Or.inr h)
        · rintro (rfl | h | h)
          · exact Or.inl rfl
          · exact Or.inr (Or.inl h)
          · exact Or.inr (Or.inr (Or.inr h))

/-- the keys emitted by `dedupAux` together with `seen` are, as a set, all keys together with `seen` -/
theorem keys_dedupAux (k : α → κ) : ∀ (xs : List α) (s : List κ),
    SameMem ((dedupAux k s xs).map k ++ s) (xs.map k ++ s)
  | [], _ => fun _ => Iff.rfl
  | x :: xs, s => by
    intro y
    by_cases hx : k x ∈ s
    · rw [dedupAux_cons_seen k x xs s hx, keys_dedupAux k xs s y]
      simp only [List.map_cons, List.cons_append, List.mem_cons, List.mem_append]
      constructor
      · intro h; exact Or.inr h
      · rintro (rfl | h)
        · exact Or.inr hx
        · exact h
    · rw [dedupAux_cons_new k x xs s hx]
      have := keys_dedupAux k xs (k x :: s) y
      simp only [List.map_cons, List.cons_append, List.mem_cons, List.mem_append] at this ⊢
      constructor
      · rintro (rfl | h | h)
        · exact Or.inl rfl
        · rcases this.1 (Or.inl h) with h | rfl | h
          · exact Or.inr (Or.inl h)
          · exact Or.inl rfl
          · exact Or.inr (Or.inr h)
        · exact Or.inr (Or.inr h)
      · rintro (rfl | h | h)
        · exact Or.inl rfl
        · rcases this.2 (Or.inl h) with h | rfl | h
          · exact Or.inr (Or.inl h)
          · exact Or.inl rfl
          · exact Or.inr (Or.inr h)
        · exact Or.inr (Or.inr h)

theorem dedupAux_nil_of_seen (k : α → κ) : ∀ (xs : List α) (s : List κ),
    (∀ x ∈ xs, k x ∈ s) → dedupAux k s xs = []
  | [], _, _ => rfl
  | x :: xs, s, h => by
    rw [dedupAux_cons_seen k x xs s (h x (by simp))]
    exact dedupAux_nil_of_seen k xs s (fun y hy => h y (by simp [hy]))

/-- **de-duplicating the input of a `flatMap` first changes nothing** once the output is
de-duplicated, provided equal input keys give equal output keys: the dropped inputs would only have
contributed keys that are already there -/
theorem dedup_flatMap_dedup (k : α → κ) (k' : β → κ') (f : α → List β)
    (hf : ∀ x x', k x = k x' → (f x).map k' = (f x').map k') :
    ∀ (l : List α) (s : List κ') (t : List κ),
      (∀ y ∈ l, k y ∈ t → ∀ z ∈ f y, k' z ∈ s) →
      dedupAux k' s ((dedupAux k t l).flatMap f) = dedupAux k' s (l.flatMap f)
  | [], _, _, _ => rfl
  | x :: r, s, t, inv => by
    rw [List.flatMap_cons]
    by_cases hx : k x ∈ t
    · rw [dedupAux_cons_seen k x r t hx, dedupAux_append k' (f x) (r.flatMap f) s,
        dedupAux_nil_of_seen k' (f x) s (inv x (by simp) hx), List.nil_append,
        dedup_flatMap_dedup k k' f hf r s t (fun y hy => inv y (by simp [hy]))]
      apply dedupAux_congr
      intro y
      simp only [List.mem_append, List.mem_map]
      constructor
      · intro h; exact Or.inr h
      · rintro (⟨z, hz, rfl⟩ | h)
        · exact inv x (by simp) hx z hz
        · exact h
    · rw [dedupAux_cons_new k x r t hx, List.flatMap_cons, dedupAux_append k' (f x) _ s,
        dedupAux_append k' (f x) (r.flatMap f) s]
      congr 1
      apply dedup_flatMap_dedup k k' f hf r
      intro y hy hty z hz
      simp only [List.mem_append, List.mem_map]
      rcases List.mem_cons.1 hty with hk | hty
      · have hm := hf y x hk
        have : k' z ∈ (f x).map k' := by rw [← hm]; exact List.mem_map_of_mem hz
        obtain ⟨w, hw, hwz⟩ := List.mem_map.1 this
        exact Or.inl ⟨w, hw, hwz⟩
      · exact Or.inr (inv y (by simp [hy]) hty z hz)

end Generic

section MoreGeneric
variable {α κ : Type} [BEq κ] [LawfulBEq κ]

theorem map_dedupAux (k : α → κ) : ∀ (xs : List α) (s : List κ),
    (dedupAux k s xs).map k = dedupAux id s (xs.map k)
  | [], _ => rfl
  | x :: xs, s => by
    by_cases hx : k x ∈ s
    · rw [dedupAux_cons_seen k x xs s hx, List.map_cons, dedupAux_cons_seen id (k x) _ s hx]
      exact map_dedupAux k xs s
    · rw [dedupAux_cons_new k x xs s hx, List.map_cons, List.map_cons, dedupAux_cons_new id (k x) _ s hx]
      rw [map_dedupAux k xs (k x :: s)]
      rfl

theorem mem_dedupAux_id : ∀ (xs s : List κ) (y : κ), y ∈ dedupAux id s xs ↔ y ∈ xs ∧ y ∉ s
  | [], _, _ => by simp [dedupAux]
  | x :: xs, s, y => by
    by_cases hx : x ∈ s
    · rw [dedupAux_cons_seen id x xs s hx, mem_dedupAux_id xs s y]
      constructor
      · rintro ⟨h1, h2⟩; exact ⟨List.mem_cons_of_mem _ h1, h2⟩
      · rintro ⟨h1, h2⟩
        rcases List.mem_cons.1 h1 with rfl | h1
        · exact absurd hx h2
        · exact ⟨h1, h2⟩
    · rw [dedupAux_cons_new id x xs s hx, List.mem_cons, mem_dedupAux_id xs (id x :: s) y]
      simp only [id, List.mem_cons, not_or]
      constructor
      · rintro (rfl | ⟨h1, h2, h3⟩)
        · exact ⟨Or.inl rfl, hx⟩
        · exact ⟨Or.inr h1, h3⟩
      · rintro ⟨h1 | h1, h2⟩
        · exact Or.inl h1
        · by_cases hyx : y = x
          · exact Or.inl hyx
          · exact Or.inr ⟨h1, hyx, h2⟩

theorem nodup_dedupAux_id : ∀ (xs s : List κ), (dedupAux id s xs).Nodup
  | [], _ => List.nodup_nil
  | x :: xs, s => by
    by_cases hx : x ∈ s
    · rw [dedupAux_cons_seen id x xs s hx]; exact nodup_dedupAux_id xs s
    · rw [dedupAux_cons_new id x xs s hx, List.nodup_cons]
      refine ⟨?_, nodup_dedupAux_id xs _⟩
      rw [mem_dedupAux_id]
      simp

/-- de-duplication of two lists with the same elements gives permutations of each other -/
theorem dedup_perm_of_sameMem (xs ys : List κ) (h : ∀ y, y ∈ xs ↔ y ∈ ys) :
    (dedupAux id [] xs).Perm (dedupAux id [] ys) := by
  rw [List.perm_ext_iff_of_nodup (nodup_dedupAux_id xs []) (nodup_dedupAux_id ys [])]
  intro a
  simp [mem_dedupAux_id, h a]

end MoreGeneric

/-! ### the term algebra -/

section Terms
open FormulaicVerif.Proofs.Sort (sortStrings_eq_iff_perm)

theorem oset_eq (ts : List Term) : oset ts = dedupAux Term.key [] ts := rfl

/-- products respect term identity: if `x` and `x'` are the same term (as sets of factors), so are
`x * y` and `x' * y` -/
theorem key_mul_congr (x x' y : Term) (h : Term.key x = Term.key x') :
    Term.key (Term.mul x y) = Term.key (Term.mul x' y) := by
  unfold Term.key at h ⊢
  have hp : (x.map (·.expr)).Perm (x'.map (·.expr)) := sortStrings_eq_iff_perm.1 h
  rw [sortStrings_eq_iff_perm]
  unfold Term.mul Term.ofFactors dedupBy
  rw [map_dedupAux, map_dedupAux, List.map_append, List.map_append]
  apply dedup_perm_of_sameMem
  intro e
  simp only [List.mem_append, hp.mem_iff]

theorem mulRow_congr (c : List Term) (x x' : Term) (h : Term.key x = Term.key x') :
    (c.map (fun y => Term.mul x y)).map Term.key = (c.map (fun y => Term.mul x' y)).map Term.key := by
  simp only [List.map_map]
  apply List.map_congr_left
  intro y _
  exact key_mul_congr x x' y h

/-- C01.10a  `a + a = a` (as an ordered set) -/
theorem union_idem (a : List Term) : osetUnion a a = oset a := by
  unfold osetUnion
  have h : dedupAux Term.key (a.map Term.key ++ []) a = [] :=
    dedupAux_nil_of_seen Term.key a _ (fun x hx => by
      simp only [List.append_nil]
      exact List.mem_map_of_mem hx)
  rw [oset_eq, oset_eq, dedupAux_append, h, List.append_nil]

/-- `oset` is idempotent -/
theorem oset_idem (a : List Term) : oset (oset a) = oset a := by
  rw [oset_eq, oset_eq, dedupAux_dedupAux]
  rfl

/-- the union of two ordered sets is the ordered set of the concatenation -/
theorem union_oset (x y : List Term) : osetUnion (oset x) (oset y) = oset (x ++ y) := by
  unfold osetUnion
  rw [oset_eq, oset_eq, oset_eq, oset_eq, dedupAux_append, dedupAux_dedupAux, dedupAux_dedupAux,
    dedupAux_append]
  congr 1
  apply dedupAux_congr
  have := keys_dedupAux Term.key x []
  simp only [List.append_nil] at this ⊢
  exact this

theorem union_oset_left (x y : List Term) : osetUnion (oset x) y = oset (x ++ y) := by
  unfold osetUnion
  rw [oset_eq, oset_eq, oset_eq, dedupAux_append, dedupAux_dedupAux, dedupAux_append]
  congr 1
  apply dedupAux_congr
  have := keys_dedupAux Term.key x []
  simp only [List.append_nil] at this ⊢
  exact this

theorem union_oset_right (x y : List Term) : osetUnion x (oset y) = oset (x ++ y) := by
  unfold osetUnion
  rw [oset_eq, oset_eq, oset_eq, dedupAux_append, dedupAux_dedupAux, dedupAux_append]
  simp

/-- C01.10b  `(a + b) + c = a + (b + c)`, both the ordered set of `a ++ b ++ c` -/
theorem union_assoc (a b c : List Term) :
    osetUnion (osetUnion a b) c = osetUnion a (osetUnion b c) ∧ osetUnion (osetUnion a b) c = oset (a ++ b ++ c) := by
  have h1 : osetUnion (osetUnion a b) c = oset (a ++ b ++ c) := union_oset_left (a ++ b) c
  have h2 : osetUnion a (osetUnion b c) = oset (a ++ b ++ c) := by
    have := union_oset_right a (b ++ c)
    simpa [osetUnion, List.append_assoc] using this
  exact ⟨h1.trans h2.symm, h1⟩

/-- C01.10c  the empty set is the unit of `+` (up to making the other operand an ordered set) -/
theorem union_nil (a : List Term) : osetUnion [] a = oset a ∧ osetUnion a [] = oset a := by
  constructor
  · rfl
  · simp [osetUnion]

/-- C01.10d  `a - b` keeps, in order, exactly the terms of `a` whose identity is not that of a term of `b` -/
theorem diff_spec (a b : List Term) :
    osetDiff a b = a.filter (fun t => !(b.map Term.key).contains t.key) := by
  unfold osetDiff
  apply List.filter_congr
  intro t _
  congr 1
  induction b with
  | nil => rfl
  | cons u us ih =>
    rw [List.any_cons, List.map_cons, List.contains_cons, ih]
    rfl

/-- C01.10e  **`:` distributes over `+` from the left**, with order: `(a + b) : c = a:c + b:c` -/
theorem prod_distrib_left (a b c : List Term) :
    osetProd (osetUnion a b) c = osetUnion (osetProd a c) (osetProd b c) := by
  have hflat : osetProd (osetUnion a b) c = oset ((a ++ b).flatMap (fun x => c.map (fun y => Term.mul x y))) := by
    unfold osetProd osetUnion
    rw [oset_eq, oset_eq, oset_eq]
    exact dedup_flatMap_dedup Term.key Term.key _ (mulRow_congr c) (a ++ b) [] [] (fun _ _ h => by cases h)
  rw [hflat, List.flatMap_append]
  unfold osetProd
  rw [union_oset]

/-- products with an ordered set of the left operand: de-duplicating first changes nothing -/
theorem prod_oset_left (a c : List Term) : osetProd (oset a) c = osetProd a c := by
  unfold osetProd
  rw [oset_eq, oset_eq, oset_eq]
  exact dedup_flatMap_dedup Term.key Term.key _ (mulRow_congr c) a [] [] (fun _ _ h => by cases h)

theorem powTerms_eq_raw (s : List Term) : ∀ n, powTerms s (n + 1) = oset (powTerms.powTermsRaw s (n + 1))
  | 0 => rfl
  | n + 1 => rfl

/-- C01.10f  **`S ** (n+1) = (S ** n) : S` for every `n ≥ 1`** — the power is the iterated
interaction `S : S : … : S`; `S ** 1 = S` as an ordered set -/
theorem pow_succ (s : List Term) (n : Nat) : powTerms s (n + 2) = osetProd (powTerms s (n + 1)) s := by
  rw [powTerms_eq_raw s (n + 1), powTerms_eq_raw s n, prod_oset_left]
  rfl

theorem pow_one (s : List Term) : powTerms s 1 = oset s := rfl

end Terms

end FormulaicVerif.Proofs.C01Algebra
