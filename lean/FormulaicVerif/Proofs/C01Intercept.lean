import FormulaicVerif.Proofs.C01
/-! C01: token-level intercept insertion for formulas WITH `~` and `|` separators, and the zero rule.

A formula's token list is described as segments glued by separator tokens:
`p₀ ++ [s₁] ++ p₁ ++ … ++ [sₙ] ++ pₙ = p₀ ++ plainGlue [(s₁,p₁),…,(sₙ,pₙ)]` (every separator
token may be a different token: tokens carry source positions). -/
namespace FormulaicVerif.Proofs.C01Intercept
open FormulaicVerif FormulaicVerif.Model FormulaicVerif.Proofs.C01

/-! ### vocabulary -/

/-- the literal value token `0` -/
def IsZero (t : Tok) : Prop := t.kind = some .value ∧ t.text = ['0']

instance (t : Tok) : Decidable (IsZero t) := by unfold IsZero; infer_instance

/-- an operator token whose text is exactly the one character `c` -/
def IsSep (c : Char) (t : Tok) : Prop := t.kind = some .operator ∧ t.text = [c]

/-- a token that is neither a separator-carrying operator nor the literal `0` -/
def PlainTok (t : Tok) : Prop := NoSep '~' t ∧ NoSep '|' t ∧ ¬ IsZero t

/-- a "plain" segment: no operator token containing `~` or `|`, no literal `0` -/
def Plain (p : List Tok) : Prop := ∀ t ∈ p, PlainTok t

/-- the separators are exact `c` operator tokens and the segments are plain -/
def PlainTail (c : Char) (tail : List (Tok × List Tok)) : Prop :=
  ∀ sp ∈ tail, IsSep c sp.1 ∧ Plain sp.2

/-- `[s₁] ++ p₁ ++ … ++ [sₙ] ++ pₙ` -/
def plainGlue : List (Tok × List Tok) → List Tok
  | [] => []
  | (s, p) :: r => s :: (p ++ plainGlue r)

/-- what `insert_tokens_after` puts behind a separator: `1`, and a joining `+` unless the following
token is a bare `+`/`-` operator token or there is no following token -/
def sepIns (add : Bool) (next : Option Tok) : List Tok :=
  if add then tokOne :: (if needsJoin next then [tokPlus] else []) else []

/-- `[s₁] ++ ins₁ ++ p₁ ++ … ++ [sₙ] ++ insₙ ++ pₙ` where `insᵢ = sepIns add (token after sᵢ)` -/
def insGlue (add : Bool) : List (Tok × List Tok) → List Tok
  | [] => []
  | (s, p) :: r => s :: (sepIns add (p ++ plainGlue r).head? ++ (p ++ insGlue add r))

/-- `[s₁, 1, +] ++ p₁ ++ … ++ [sₙ, 1, +] ++ pₙ` -/
def oneGlue : List (Tok × List Tok) → List Tok
  | [] => []
  | (s, p) :: r => s :: tokOne :: tokPlus :: (p ++ oneGlue r)

/-- the segment is not empty and does not start with a bare `+` / `-` operator token -/
def StartsOk (p : List Tok) : Prop := needsJoin p.head? = true

instance (p : List Tok) : Decidable (StartsOk p) := by unfold StartsOk; infer_instance

/-- the bracket stack `find_rhs_index` has after reading `l` (`none`: it gave up, returning -1) -/
def ctxAfter : List Tok → List Char → Option (List Char)
  | [], ctx => some ctx
  | t :: ts, ctx =>
    if t.kind == some .context then
      if t.text == ['('] || t.text == ['['] then ctxAfter ts ((if t.text == ['('] then '(' else '[') :: ctx)
      else
        let opener : Char := if t.text == [')'] then '(' else '['
        match ctx with
        | top :: rest => if top != opener then none else ctxAfter ts rest
        | [] => none
    else ctxAfter ts ctx

/-- the brackets of `l` are balanced, so that a `~` following `l` is at the top level -/
def TopLevel (l : List Tok) : Prop := ctxAfter l [] = some []

instance (l : List Tok) : Decidable (TopLevel l) := by unfold TopLevel; infer_instance

/-- left-hand side tokens: no `~` operator, no literal `0`, every operator token containing `|` is
exactly `|` (so the lhs may itself consist of several `|` parts) -/
def LhsOk (l : List Tok) : Prop :=
  ∀ t ∈ l, NoSep '~' t ∧ ¬ IsZero t ∧ (t.kind = some .operator → t.text.contains '|' = true → t.text = ['|'])

instance (c : Char) (t : Tok) : Decidable (NoSep c t) := by unfold NoSep; infer_instance
instance (c : Char) (t : Tok) : Decidable (IsSep c t) := by unfold IsSep; infer_instance
instance (t : Tok) : Decidable (PlainTok t) := by unfold PlainTok; infer_instance
instance (p : List Tok) : Decidable (Plain p) := by unfold Plain; infer_instance
instance (c : Char) (tail : List (Tok × List Tok)) : Decidable (PlainTail c tail) := by
  unfold PlainTail; infer_instance
instance (l : List Tok) : Decidable (LhsOk l) := by unfold LhsOk; infer_instance

/-! ### small facts -/

theorem one_plain : PlainTok tokOne := by
  refine ⟨?_, ?_, ?_⟩ <;> simp [NoSep, IsZero, tokOne, Tok.synth]

theorem plus_plain : PlainTok tokPlus := by
  refine ⟨?_, ?_, ?_⟩ <;> simp [NoSep, IsZero, tokPlus, Tok.synth] <;> decide

theorem minus_plain : PlainTok tokMinus := by
  refine ⟨?_, ?_, ?_⟩ <;> simp [NoSep, IsZero, tokMinus, Tok.synth] <;> decide

theorem sepIns_plain (add : Bool) (next : Option Tok) : Plain (sepIns add next) := by
  intro t ht
  unfold sepIns at ht
  cases add
  · simp at ht
  · by_cases hj : needsJoin next = true
    · simp [hj] at ht
      rcases ht with rfl | rfl
      · exact one_plain
      · exact plus_plain
    · simp [hj] at ht
      subst ht; exact one_plain

theorem sep_noSep {c d : Char} (hcd : c ≠ d) {t : Tok} (h : IsSep c t) : NoSep d t := by
  intro _
  rw [h.2]
  simp [hcd.symm]

theorem sep_not_zero {c : Char} {t : Tok} (h : IsSep c t) : ¬ IsZero t := by
  intro hz
  have := h.1
  rw [hz.1] at this
  cases this

theorem mem_plainGlue {tail : List (Tok × List Tok)} {t : Tok} (h : t ∈ plainGlue tail) :
    ∃ sp ∈ tail, t = sp.1 ∨ t ∈ sp.2 := by
  induction tail with
  | nil => simp [plainGlue] at h
  | cons sp r ih =>
    obtain ⟨s, p⟩ := sp
    simp only [plainGlue, List.mem_cons, List.mem_append] at h
    rcases h with rfl | h | h
    · exact ⟨(t, p), by simp, Or.inl rfl⟩
    · exact ⟨(s, p), by simp, Or.inr h⟩
    · obtain ⟨sp, hsp, hh⟩ := ih h
      exact ⟨sp, by simp [hsp], hh⟩

/-- in a `|`-glued list of plain segments no token carries a `~`, and none is the literal `0` -/
theorem glue_noTilde {tail : List (Tok × List Tok)} (h : PlainTail '|' tail) :
    ∀ t ∈ plainGlue tail, NoSep '~' t ∧ ¬ IsZero t := by
  intro t ht
  obtain ⟨sp, hsp, hh⟩ := mem_plainGlue ht
  obtain ⟨h1, h2⟩ := h sp hsp
  rcases hh with rfl | hh
  · exact ⟨sep_noSep (by decide) h1, sep_not_zero h1⟩
  · exact ⟨(h2 t hh).1, (h2 t hh).2.2⟩

theorem insGlue_false (tail : List (Tok × List Tok)) : insGlue false tail = plainGlue tail := by
  induction tail with
  | nil => rfl
  | cons sp r ih => obtain ⟨s, p⟩ := sp; simp [insGlue, plainGlue, sepIns, ih]

theorem insGlue_true_startsOk (tail : List (Tok × List Tok)) (h : ∀ sp ∈ tail, StartsOk sp.2) :
    insGlue true tail = oneGlue tail := by
  induction tail with
  | nil => rfl
  | cons sp r ih =>
    obtain ⟨s, p⟩ := sp
    have hp : StartsOk p := h (s, p) (by simp)
    have hh : needsJoin (p ++ plainGlue r).head? = true := by
      cases p with
      | nil => simp [StartsOk, needsJoin] at hp
      | cons a p => simpa [StartsOk] using hp
    simp only [insGlue, oneGlue, sepIns, if_true, hh, ih (fun sp hsp => h sp (by simp [hsp]))]
    rfl

/-! ### `replace_tokens` (the zero rule) -/

theorem replaceZero_cons_zero (t : Tok) (ts : List Tok) (h : IsZero t) :
    replaceZero (t :: ts) = tokMinus :: tokOne :: replaceZero ts := by
  simp [replaceZero, h.1, h.2]

theorem replaceZero_cons_other (t : Tok) (ts : List Tok) (h : ¬ IsZero t) :
    replaceZero (t :: ts) = t :: replaceZero ts := by
  have : (t.kind == some .value && t.text == ['0']) = false := by
    cases hk : (t.kind == some TKind.value) <;> cases hx : (t.text == ['0']) <;> simp_all [IsZero]
  simp only [replaceZero, this, Bool.false_eq_true, if_false]

/-- exactly: every literal `0` value token becomes the two tokens `-` `1`; every other token, and
the order, is kept -/
theorem replaceZero_eq_flatMap (ts : List Tok) :
    replaceZero ts = ts.flatMap (fun t => if IsZero t then [tokMinus, tokOne] else [t]) := by
  induction ts with
  | nil => rfl
  | cons t r ih =>
    by_cases h : IsZero t
    · rw [replaceZero_cons_zero t r h, ih]; simp [h]
    · rw [replaceZero_cons_other t r h, ih]; simp [h]

theorem replaceZero_append (a b : List Tok) : replaceZero (a ++ b) = replaceZero a ++ replaceZero b := by
  simp [replaceZero_eq_flatMap]

theorem replaceZero_noZero (ts : List Tok) : ∀ t ∈ replaceZero ts, ¬ IsZero t := by
  induction ts with
  | nil => intro t ht; simp [replaceZero] at ht
  | cons a r ih =>
    intro t ht
    by_cases h : IsZero a
    · rw [replaceZero_cons_zero a r h] at ht
      simp only [List.mem_cons] at ht
      rcases ht with rfl | rfl | ht
      · exact minus_plain.2.2
      · exact one_plain.2.2
      · exact ih t ht
    · rw [replaceZero_cons_other a r h] at ht
      simp only [List.mem_cons] at ht
      rcases ht with rfl | ht
      · exact h
      · exact ih t ht

theorem replaceZero_idem (ts : List Tok) : replaceZero (replaceZero ts) = replaceZero ts :=
  replaceZero_id _ (replaceZero_noZero ts)

/-- the whole rewriting sees a formula only through `replaceZero`: writing `0` and writing `- 1`
(two tokens) give the same result -/
theorem interceptTokens_replaceZero (add : Bool) (ts : List Tok) :
    interceptTokens add (replaceZero ts) = interceptTokens add ts := by
  unfold interceptTokens
  rw [replaceZero_idem]

/-! ### `insert_tokens_after` -/

theorem insertOneAfter_cons_noSep (add : Bool) (c : Char) (t : Tok) (r : List Tok) (ht : NoSep c t) :
    insertOneAfter add c (t :: r) = t :: insertOneAfter add c r := by
  have : (t.kind != some .operator || !t.text.contains c) = true := by
    by_cases hk : t.kind = some .operator
    · have hh := ht hk
      simp only [hk, bne_self_eq_false, hh, Bool.not_false, Bool.or_true]
    · simp [hk]
  simp only [insertOneAfter, this, if_true]

theorem insertOneAfter_append (add : Bool) (c : Char) (a b : List Tok) (h : ∀ t ∈ a, NoSep c t) :
    insertOneAfter add c (a ++ b) = a ++ insertOneAfter add c b := by
  induction a with
  | nil => rfl
  | cons t r ih =>
    rw [List.cons_append, insertOneAfter_cons_noSep add c t _ (h t (by simp)),
      ih (fun u hu => h u (by simp [hu])), List.cons_append]

theorem splitAfter_single (c : Char) : splitAfter c [c] = [[c]] := by
  simp [splitAfter, splitAfterAux]

/-- at an exact separator token: the token is kept, followed by `1` (and `+`) when adding -/
theorem insertOneAfter_sep (add : Bool) (c : Char) (s : Tok) (r : List Tok) (hs : IsSep c s) :
    insertOneAfter add c (s :: r) = s :: (sepIns add r.head? ++ insertOneAfter add c r) := by
  obtain ⟨hk, hx⟩ := hs
  have hcond : (s.kind != some .operator || !s.text.contains c) = false := by
    simp [hk, hx, List.contains, List.elem]
  have hpiece : ({ s with text := [c] } : Tok) = s := by
    cases s; simp_all
  rw [insertOneAfter, if_neg (by rw [hcond]; decide), hx, splitAfter_single]
  simp only [emitPieces, hpiece]
  cases add <;> simp [sepIns]

theorem insertOneAfter_glue (add : Bool) (c : Char) (tail : List (Tok × List Tok))
    (hs : ∀ sp ∈ tail, IsSep c sp.1) (hp : ∀ sp ∈ tail, ∀ t ∈ sp.2, NoSep c t) :
    insertOneAfter add c (plainGlue tail) = insGlue add tail := by
  induction tail with
  | nil => rfl
  | cons sp r ih =>
    obtain ⟨s, p⟩ := sp
    simp only [plainGlue, insGlue]
    rw [insertOneAfter_sep add c s _ (hs (s, p) (by simp)),
      insertOneAfter_append add c p _ (hp (s, p) (by simp)),
      ih (fun sp hsp => hs sp (by simp [hsp])) (fun sp hsp => hp sp (by simp [hsp]))]

/-- with nothing to add, exact separator tokens are left as they are -/
theorem insertOneAfter_false_exact (c : Char) (ts : List Tok)
    (h : ∀ t ∈ ts, t.kind = some .operator → t.text.contains c = true → t.text = [c]) :
    insertOneAfter false c ts = ts := by
  induction ts with
  | nil => rfl
  | cons t r ih =>
    have ihr := ih (fun u hu => h u (by simp [hu]))
    by_cases hk : t.kind = some .operator ∧ t.text.contains c = true
    · have hs : IsSep c t := ⟨hk.1, h t (by simp) hk.1 hk.2⟩
      rw [insertOneAfter_sep false c t r hs, ihr]; simp [sepIns]
    · have hn : NoSep c t := by
        intro hko
        cases hcc : t.text.contains c
        · rfl
        · exact absurd ⟨hko, hcc⟩ hk
      rw [insertOneAfter_cons_noSep false c t r hn, ihr]

/-! ### `find_rhs_index` -/

theorem findRhsAux_prefix (l r : List Tok) (h : ∀ t ∈ l, NoSep '~' t) :
    ∀ (i : Nat) (ctx : List Char), findRhsAux (l ++ r) i ctx =
      match ctxAfter l ctx with
      | none => none
      | some c => findRhsAux r (i + l.length) c := by
  induction l with
  | nil => intro i ctx; simp [ctxAfter]
  | cons t l ih =>
    intro i ctx
    have ihr := ih (fun u hu => h u (by simp [hu]))
    have ht := h t (by simp)
    have hlen : ∀ j : Nat, j + 1 + l.length = j + (t :: l).length := by intro j; simp; omega
    rw [List.cons_append, findRhsAux, ctxAfter]
    by_cases hc : (t.kind == some .context) = true
    · simp only [hc, if_true]
      by_cases ho : (t.text == ['('] || t.text == ['[']) = true
      · simp only [ho, if_true]; rw [ihr, hlen]
      · simp only [ho, Bool.false_eq_true, if_false]
        cases ctx with
        | nil => rfl
        | cons top rest =>
          simp only
          by_cases htop : (top != if (t.text == [')']) = true then '(' else '[') = true
          · simp only [htop, if_true]
          · simp only [htop, Bool.false_eq_true, if_false]; rw [ihr, hlen]
    · simp only [hc, Bool.false_eq_true, if_false]
      by_cases he : (!ctx.isEmpty) = true
      · simp only [he, if_true]; rw [ihr, hlen]
      · simp only [he, Bool.false_eq_true, if_false]
        by_cases hop : (t.kind == some .operator && t.text == ['~']) = true
        · exfalso
          simp only [Bool.and_eq_true, beq_iff_eq] at hop
          have := ht hop.1
          simp [hop.2] at this
        · simp only [hop, Bool.false_eq_true, if_false]; rw [ihr, hlen]

theorem findRhsAux_tilde (s : Tok) (r : List Tok) (i : Nat) (hs : IsSep '~' s) :
    findRhsAux (s :: r) i [] = some i := by
  unfold findRhsAux
  simp [hs.1, hs.2]

theorem ctxAfter_noContext (l : List Tok) (h : ∀ t ∈ l, t.kind ≠ some .context) :
    ∀ ctx, ctxAfter l ctx = some ctx := by
  induction l with
  | nil => intro ctx; rfl
  | cons t l ih =>
    intro ctx
    have : (t.kind == some .context) = false := by simpa using h t (by simp)
    unfold ctxAfter
    simp only [this, Bool.false_eq_true, if_false]
    exact ih (fun u hu => h u (by simp [hu])) ctx

/-- a left-hand side without brackets is trivially balanced -/
theorem topLevel_of_noContext (l : List Tok) (h : ∀ t ∈ l, t.kind ≠ some .context) : TopLevel l :=
  ctxAfter_noContext l h []

/-- `|`-glued plain segments form an admissible left-hand side -/
theorem lhsOk_glue (l₀ : List Tok) (ltail : List (Tok × List Tok)) (h0 : Plain l₀)
    (ht : PlainTail '|' ltail) : LhsOk (l₀ ++ plainGlue ltail) := by
  intro t hmem
  rcases List.mem_append.mp hmem with hm | hm
  · obtain ⟨a, b, c⟩ := h0 t hm
    exact ⟨a, c, fun hk hc => by rw [b hk] at hc; cases hc⟩
  · obtain ⟨sp, hsp, hh⟩ := mem_plainGlue hm
    obtain ⟨h1, h2⟩ := ht sp hsp
    rcases hh with rfl | hh
    · exact ⟨sep_noSep (by decide) h1, sep_not_zero h1, fun _ _ => h1.2⟩
    · obtain ⟨a, b, c⟩ := h2 t hh
      exact ⟨a, c, fun hk hc => by rw [b hk] at hc; cases hc⟩

/-! ### the rewriting on separator-structured formulas -/

/-- **One-sided multipart formula** `p₀ | p₁ | … | pₙ` (plain segments, possibly empty; `n ≥ 0`):
with the implicit intercept, `1 +` is put in front and `1` (plus a joining `+`, see `sepIns`) after
every `|`; without it nothing is inserted. No left-hand side tokens. -/
theorem intercept_onesided (add : Bool) (p₀ : List Tok) (tail : List (Tok × List Tok))
    (hne : p₀ ++ plainGlue tail ≠ []) (h0 : Plain p₀) (ht : PlainTail '|' tail) :
    interceptTokens add (p₀ ++ plainGlue tail) =
      (mergeSigns ((if add then [tokOne, tokPlus] else []) ++ (p₀ ++ insGlue add tail)), []) := by
  have hg := glue_noTilde ht
  have hnt : ∀ t ∈ p₀ ++ plainGlue tail, NoSep '~' t := by
    intro t hm
    rcases List.mem_append.mp hm with hm | hm
    · exact (h0 t hm).1
    · exact (hg t hm).1
  have hnz : ∀ t ∈ p₀ ++ plainGlue tail, ¬ (t.kind = some .value ∧ t.text = ['0']) := by
    intro t hm
    rcases List.mem_append.mp hm with hm | hm
    · exact (h0 t hm).2.2
    · exact (hg t hm).2
  have hno : ∀ t ∈ p₀ ++ plainGlue tail, ¬ (t.kind = some .operator ∧ t.text = ['~']) := by
    intro t hm ⟨hk, hx⟩
    have := hnt t hm hk
    simp [hx] at this
  have hbar : insertOneAfter add '|' (p₀ ++ plainGlue tail) = p₀ ++ insGlue add tail := by
    rw [insertOneAfter_append add '|' p₀ _ (fun t hm => (h0 t hm).2.1),
      insertOneAfter_glue add '|' tail (fun sp hsp => (ht sp hsp).1)
        (fun sp hsp t hm => ((ht sp hsp).2 t hm).2.1)]
  have he : (p₀ ++ plainGlue tail).isEmpty = false := by
    cases hh : p₀ ++ plainGlue tail with
    | nil => exact absurd hh hne
    | cons _ _ => rfl
  unfold interceptTokens
  simp only [replaceZero_id _ hnz, insertOneAfter_id add '~' _ hnt, findRhsIndex, findRhsAux_none _ hno,
    List.take_zero, List.drop_zero, hbar, he]
  cases add <;> simp [insertOneAfter]

/-- **Two-sided formula** `lhs ~ p₀ | p₁ | … | pₙ`: the `~` token `s` at the top level of a balanced
lhs, plain rhs segments (possibly empty). With the implicit intercept `1` (and the joining `+`) is
put after the `~` and after every `|` of the right-hand side and NOWHERE in the lhs — even if the
lhs consists of several `|` parts; without it nothing is inserted. The lhs tokens returned are
`lhs ++ [~]`. -/
theorem intercept_twosided (add : Bool) (lhs : List Tok) (s : Tok) (p₀ : List Tok)
    (tail : List (Tok × List Tok))
    (hl : LhsOk lhs) (hb : TopLevel lhs) (hs : IsSep '~' s) (h0 : Plain p₀) (ht : PlainTail '|' tail) :
    interceptTokens add (lhs ++ s :: (p₀ ++ plainGlue tail)) =
      (mergeSigns (lhs ++ s :: (sepIns add (p₀ ++ plainGlue tail).head? ++ (p₀ ++ insGlue add tail))),
       lhs ++ [s]) := by
  have hg := glue_noTilde ht
  have hRt : ∀ t ∈ p₀ ++ plainGlue tail, NoSep '~' t := by
    intro t hm
    rcases List.mem_append.mp hm with hm | hm
    · exact (h0 t hm).1
    · exact (hg t hm).1
  have hnz : ∀ t ∈ lhs ++ s :: (p₀ ++ plainGlue tail), ¬ (t.kind = some .value ∧ t.text = ['0']) := by
    intro t hm
    rcases List.mem_append.mp hm with hm | hm
    · exact (hl t hm).2.1
    · rcases List.mem_cons.mp hm with rfl | hm
      · exact sep_not_zero hs
      · rcases List.mem_append.mp hm with hm | hm
        · exact (h0 t hm).2.2
        · exact (hg t hm).2
  have hbar : insertOneAfter add '|' (p₀ ++ plainGlue tail) = p₀ ++ insGlue add tail := by
    rw [insertOneAfter_append add '|' p₀ _ (fun t hm => (h0 t hm).2.1),
      insertOneAfter_glue add '|' tail (fun sp hsp => (ht sp hsp).1)
        (fun sp hsp t hm => ((ht sp hsp).2 t hm).2.1)]
  -- the `~` pass
  have htil : insertOneAfter add '~' (lhs ++ s :: (p₀ ++ plainGlue tail)) =
      lhs ++ s :: (sepIns add (p₀ ++ plainGlue tail).head? ++ (p₀ ++ plainGlue tail)) := by
    rw [insertOneAfter_append add '~' lhs _ (fun t hm => (hl t hm).1),
      insertOneAfter_sep add '~' s _ hs, insertOneAfter_id add '~' _ hRt]
  -- the position of the top-level `~`
  have hfind : findRhsIndex (lhs ++ s :: (sepIns add (p₀ ++ plainGlue tail).head? ++ (p₀ ++ plainGlue tail)))
      = some lhs.length := by
    unfold findRhsIndex
    rw [findRhsAux_prefix lhs _ (fun t hm => (hl t hm).1) 0 [], hb]
    simp only [Nat.zero_add]
    exact findRhsAux_tilde s _ _ hs
  have hlhs : insertOneAfter false '|' (lhs ++ [s]) = lhs ++ [s] := by
    apply insertOneAfter_false_exact
    intro t hm hk hc
    rcases List.mem_append.mp hm with hm | hm
    · exact (hl t hm).2.2 hk hc
    · simp only [List.mem_singleton] at hm
      subst hm
      rw [hs.2] at hc
      exact absurd hc (by decide)
  have htake : (lhs ++ s :: (sepIns add (p₀ ++ plainGlue tail).head? ++ (p₀ ++ plainGlue tail))).take (lhs.length + 1)
      = lhs ++ [s] := by
    have : lhs ++ s :: (sepIns add (p₀ ++ plainGlue tail).head? ++ (p₀ ++ plainGlue tail))
        = (lhs ++ [s]) ++ (sepIns add (p₀ ++ plainGlue tail).head? ++ (p₀ ++ plainGlue tail)) := by simp
    rw [this]
    exact List.take_left' (by simp)
  have hdrop : (lhs ++ s :: (sepIns add (p₀ ++ plainGlue tail).head? ++ (p₀ ++ plainGlue tail))).drop (lhs.length + 1)
      = sepIns add (p₀ ++ plainGlue tail).head? ++ (p₀ ++ plainGlue tail) := by
    have : lhs ++ s :: (sepIns add (p₀ ++ plainGlue tail).head? ++ (p₀ ++ plainGlue tail))
        = (lhs ++ [s]) ++ (sepIns add (p₀ ++ plainGlue tail).head? ++ (p₀ ++ plainGlue tail)) := by simp
    rw [this]
    exact List.drop_left' (by simp)
  unfold interceptTokens
  simp only [replaceZero_id _ hnz, htil, hfind, htake, hdrop]
  rw [insertOneAfter_append add '|' (sepIns add _) _ (fun t hm => (sepIns_plain add _ t hm).2.1), hbar]
  simp [hlhs]

/-! ### the intended shapes: non-empty segments that do not start with a bare sign -/

/-- one-sided, `1 +` in EVERY part -/
theorem intercept_every_part (p₀ : List Tok) (tail : List (Tok × List Tok))
    (hne : p₀ ≠ []) (h0 : Plain p₀) (ht : PlainTail '|' tail) (hst : ∀ sp ∈ tail, StartsOk sp.2) :
    interceptTokens true (p₀ ++ plainGlue tail) =
      (mergeSigns (tokOne :: tokPlus :: (p₀ ++ oneGlue tail)), []) := by
  rw [intercept_onesided true p₀ tail (by cases p₀ <;> simp_all) h0 ht, insGlue_true_startsOk tail hst]
  rfl

/-- two-sided, `1 +` in every right-hand part, none in the lhs -/
theorem intercept_every_rhs_part (lhs : List Tok) (s : Tok) (p₀ : List Tok) (tail : List (Tok × List Tok))
    (hl : LhsOk lhs) (hb : TopLevel lhs) (hs : IsSep '~' s) (h0 : Plain p₀) (ht : PlainTail '|' tail)
    (hs0 : StartsOk p₀) (hst : ∀ sp ∈ tail, StartsOk sp.2) :
    interceptTokens true (lhs ++ s :: (p₀ ++ plainGlue tail)) =
      (mergeSigns (lhs ++ s :: tokOne :: tokPlus :: (p₀ ++ oneGlue tail)), lhs ++ [s]) := by
  rw [intercept_twosided true lhs s p₀ tail hl hb hs h0 ht, insGlue_true_startsOk tail hst]
  have hh : needsJoin (p₀ ++ plainGlue tail).head? = true := by
    cases p₀ with
    | nil => simp [StartsOk, needsJoin] at hs0
    | cons a p => simpa [StartsOk] using hs0
  simp only [sepIns, if_true, hh]
  rfl

/-- configured without the implicit intercept: for EVERY token list whose `~`/`|`-carrying operator
tokens are exactly `~` / `|` (any number of them, anywhere, brackets balanced or not), the rewriting
is the zero rule followed by the merging of adjacent signs — nothing else is inserted or removed -/
theorem no_intercept_configured (ts : List Tok)
    (h : ∀ t ∈ ts, t.kind = some .operator →
      (t.text.contains '~' = true → t.text = ['~']) ∧ (t.text.contains '|' = true → t.text = ['|'])) :
    (interceptTokens false ts).1 = mergeSigns (replaceZero ts) := by
  have h' : ∀ t ∈ replaceZero ts, t.kind = some .operator →
      (t.text.contains '~' = true → t.text = ['~']) ∧ (t.text.contains '|' = true → t.text = ['|']) := by
    intro t ht
    rw [replaceZero_eq_flatMap] at ht
    simp only [List.mem_flatMap] at ht
    obtain ⟨a, ha, hta⟩ := ht
    by_cases hz : IsZero a
    · simp [hz] at hta
      rcases hta with rfl | rfl
      · intro _; constructor <;> intro hc <;> exact absurd hc (by decide)
      · intro hk; simp [tokOne, Tok.synth] at hk
    · simp [hz] at hta
      exact hta ▸ h a ha
  unfold interceptTokens
  generalize replaceZero ts = us at h'
  have h1 : insertOneAfter false '~' us = us :=
    insertOneAfter_false_exact '~' us (fun t hm hk hc => (h' t hm hk).1 hc)
  simp only [h1, Bool.not_false, Bool.or_true, if_true]
  have h2 : ∀ n, insertOneAfter false '|' (us.take n) = us.take n := fun n =>
    insertOneAfter_false_exact '|' _ (fun t hm hk hc => (h' t (List.mem_of_mem_take hm) hk).2 hc)
  have h3 : ∀ n, insertOneAfter false '|' (us.drop n) = us.drop n := fun n =>
    insertOneAfter_false_exact '|' _ (fun t hm hk hc => (h' t (List.mem_of_mem_drop hm) hk).2 hc)
  rw [h2, h3, List.take_append_drop]

/-- segments may contain literal `0`s: the rewriting of `p₀ | … ` is that of the segments with each
`0` replaced by `-` `1` (which are plain) -/
theorem replaceZero_glue (tail : List (Tok × List Tok)) (hs : ∀ sp ∈ tail, ¬ IsZero sp.1) :
    replaceZero (plainGlue tail) = plainGlue (tail.map (fun sp => (sp.1, replaceZero sp.2))) := by
  induction tail with
  | nil => rfl
  | cons sp r ih =>
    obtain ⟨s, p⟩ := sp
    simp only [plainGlue, List.map_cons]
    rw [replaceZero_cons_other s _ (hs (s, p) (by simp)), replaceZero_append,
      ih (fun sp hsp => hs sp (by simp [hsp]))]

/-- a segment without separator-carrying operators becomes plain once its zeros are rewritten -/
theorem plain_replaceZero (p : List Tok) (h : ∀ t ∈ p, NoSep '~' t ∧ NoSep '|' t) :
    Plain (replaceZero p) := by
  induction p with
  | nil => intro t ht; simp [replaceZero] at ht
  | cons a r ih =>
    have ihr := ih (fun u hu => h u (by simp [hu]))
    intro t ht
    by_cases hz : IsZero a
    · rw [replaceZero_cons_zero a r hz] at ht
      simp only [List.mem_cons] at ht
      rcases ht with rfl | rfl | ht
      · exact minus_plain
      · exact one_plain
      · exact ihr t ht
    · rw [replaceZero_cons_other a r hz] at ht
      simp only [List.mem_cons] at ht
      rcases ht with rfl | ht
      · exact ⟨(h t (by simp)).1, (h t (by simp)).2, hz⟩
      · exact ihr t ht

/-- zeros inside the segments of `lhs ~ p₀ | p₁ | …`: the formula is rewritten as the one in which
every segment has its `0`s replaced by `-` `1` (to which `intercept_twosided` applies) -/
theorem interceptTokens_zero_twosided (add : Bool) (lhs : List Tok) (s : Tok) (p₀ : List Tok)
    (tail : List (Tok × List Tok)) (hs : ¬ IsZero s) (hsep : ∀ sp ∈ tail, ¬ IsZero sp.1) :
    interceptTokens add (lhs ++ s :: (p₀ ++ plainGlue tail)) =
      interceptTokens add (replaceZero lhs ++ s :: (replaceZero p₀ ++
        plainGlue (tail.map (fun sp => (sp.1, replaceZero sp.2))))) := by
  rw [← interceptTokens_replaceZero add (lhs ++ s :: (p₀ ++ plainGlue tail)), replaceZero_append,
    replaceZero_cons_other s _ hs, replaceZero_append, replaceZero_glue tail hsep]

/-- the same for a one-sided formula `p₀ | p₁ | …` -/
theorem interceptTokens_zero_onesided (add : Bool) (p₀ : List Tok)
    (tail : List (Tok × List Tok)) (hsep : ∀ sp ∈ tail, ¬ IsZero sp.1) :
    interceptTokens add (p₀ ++ plainGlue tail) =
      interceptTokens add (replaceZero p₀ ++
        plainGlue (tail.map (fun sp => (sp.1, replaceZero sp.2)))) := by
  rw [← interceptTokens_replaceZero add (p₀ ++ plainGlue tail), replaceZero_append,
    replaceZero_glue tail hsep]

end FormulaicVerif.Proofs.C01Intercept
