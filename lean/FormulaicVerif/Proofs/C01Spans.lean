import FormulaicVerif.Proofs.C15Ws
import FormulaicVerif.Proofs.C14
import FormulaicVerif.Model.Parser
/-! # C01 — source spans are irrelevant to parsing

Tokens carry the span of the source they came from (`Tok.start`, `Tok.stop`); synthetic tokens carry
none. Nothing after the tokenizer looks at a span: token rewriting, shunting-yard and evaluation
commute with forgetting spans (`C15Ws.erase`). Hence a theorem about span-free token sequences (the
token sequences of the documented grammar, `Proofs/C01Grammar.lean`) applies to the tokens of a real
string, whatever their spans. -/
namespace FormulaicVerif.Proofs.C01Spans
open FormulaicVerif FormulaicVerif.Model
open FormulaicVerif.Proofs.C15Ws (erase)

abbrev erL (ts : List Tok) : List Tok := ts.map erase

theorem erase_with_text (t : Tok) (p : List Char) : erase { t with text := p } = { erase t with text := p } := rfl
theorem erase_synth (s : String) (k : TKind) : erase (Tok.synth s k) = Tok.synth s k := rfl

theorem replaceZero_erase : ∀ ts : List Tok, replaceZero (erL ts) = erL (replaceZero ts)
  | [] => rfl
  | t :: ts => by
    have ih := replaceZero_erase ts
    show (if (t.kind == some .value && t.text == ['0']) = true then tokMinus :: tokOne :: replaceZero (erL ts)
          else erase t :: replaceZero (erL ts))
       = erL (if (t.kind == some .value && t.text == ['0']) = true then tokMinus :: tokOne :: replaceZero ts
          else t :: replaceZero ts)
    rw [ih]
    by_cases h : (t.kind == some .value && t.text == ['0']) = true
    · rw [if_pos h, if_pos h]; rfl
    · rw [if_neg h, if_neg h]; rfl

theorem needsJoin_erase (n : Option Tok) : needsJoin (n.map erase) = needsJoin n := by
  cases n <;> rfl

theorem emitPieces_erase (add : Bool) (c : Char) (t : Tok) : ∀ (ps : List (List Char)) (after : Option Tok),
    emitPieces add c (erase t) ps (after.map erase) = erL (emitPieces add c t ps after)
  | [], _ => rfl
  | [p], after => by
    show (if (add && p.getLast? == some c) = true then
            ({ erase t with text := p } : Tok) :: tokOne ::
              ((if needsJoin (after.map erase) = true then [tokPlus] else []) ++ [])
          else ({ erase t with text := p } : Tok) :: [])
      = erL (if (add && p.getLast? == some c) = true then
            ({ t with text := p } : Tok) :: tokOne ::
              ((if needsJoin after = true then [tokPlus] else []) ++ [])
          else ({ t with text := p } : Tok) :: [])
    rw [needsJoin_erase]
    by_cases h : (add && p.getLast? == some c) = true
    · rw [if_pos h, if_pos h]
      by_cases h2 : needsJoin after = true
      · rw [if_pos h2]; rfl
      · rw [if_neg h2]; rfl
    · rw [if_neg h, if_neg h]; rfl
  | p :: q :: ps, after => by
    have ih := emitPieces_erase add c t (q :: ps) after
    show (if (add && p.getLast? == some c) = true then
            ({ erase t with text := p } : Tok) :: tokOne ::
              ((if needsJoin (some ({ erase t with text := q } : Tok)) = true
                then [tokPlus] else []) ++ emitPieces add c (erase t) (q :: ps) (after.map erase))
          else ({ erase t with text := p } : Tok) :: emitPieces add c (erase t) (q :: ps) (after.map erase))
      = erL (if (add && p.getLast? == some c) = true then
            ({ t with text := p } : Tok) :: tokOne ::
              ((if needsJoin (some ({ t with text := q } : Tok)) = true
                then [tokPlus] else []) ++ emitPieces add c t (q :: ps) after)
          else ({ t with text := p } : Tok) :: emitPieces add c t (q :: ps) after)
    rw [ih]
    have hn : needsJoin (some ({ erase t with text := q } : Tok)) = needsJoin (some ({ t with text := q } : Tok)) := rfl
    rw [hn]
    by_cases h : (add && p.getLast? == some c) = true
    · rw [if_pos h, if_pos h]
      by_cases h2 : needsJoin (some ({ t with text := q } : Tok)) = true
      · rw [if_pos h2]; simp only [erL, List.map_cons, List.map_append, List.cons_append, List.nil_append]; rfl
      · rw [if_neg h2]; simp only [erL, List.map_cons, List.map_append, List.cons_append, List.nil_append]; rfl
    · rw [if_neg h, if_neg h]; rfl

theorem head_erase (ts : List Tok) : (erL ts).head? = ts.head?.map erase := by cases ts <;> rfl

theorem insertOneAfter_erase (add : Bool) (c : Char) : ∀ ts : List Tok,
    insertOneAfter add c (erL ts) = erL (insertOneAfter add c ts)
  | [] => rfl
  | t :: ts => by
    have ih := insertOneAfter_erase add c ts
    show (if (t.kind != some .operator || !t.text.contains c) = true then erase t :: insertOneAfter add c (erL ts)
          else emitPieces add c (erase t) (splitAfter c t.text) (erL ts).head? ++ insertOneAfter add c (erL ts))
      = erL (if (t.kind != some .operator || !t.text.contains c) = true then t :: insertOneAfter add c ts
          else emitPieces add c t (splitAfter c t.text) ts.head? ++ insertOneAfter add c ts)
    rw [ih, head_erase, emitPieces_erase]
    by_cases h : (t.kind != some .operator || !t.text.contains c) = true
    · rw [if_pos h, if_pos h]; rfl
    · rw [if_neg h, if_neg h]; simp [erL]

theorem findRhsAux_erase : ∀ (ts : List Tok) (i : Nat) (ctx : List Char),
    findRhsAux (erL ts) i ctx = findRhsAux ts i ctx
  | [], _, _ => rfl
  | t :: ts, i, ctx => by
    have ih := fun j c => findRhsAux_erase ts j c
    show (if (t.kind == some .context) = true then
            if (t.text == ['('] || t.text == ['[']) = true then
              findRhsAux (erL ts) (i + 1) ((if (t.text == ['(']) = true then '(' else '[') :: ctx)
            else
              match ctx with
              | top :: rest => if (top != (if (t.text == [')']) = true then '(' else '[')) = true then none
                  else findRhsAux (erL ts) (i + 1) rest
              | [] => none
          else if (!ctx.isEmpty) = true then findRhsAux (erL ts) (i + 1) ctx
          else if (t.kind == some .operator && t.text == ['~']) = true then some i
          else findRhsAux (erL ts) (i + 1) ctx)
       = findRhsAux (t :: ts) i ctx
    simp only [ih]
    rfl

theorem mergeSignsAux_erase : ∀ (ts : List Tok) (pooled : Option Tok),
    mergeSignsAux (erL ts) (pooled.map erase) = erL (mergeSignsAux ts pooled)
  | [], none => rfl
  | [], some p => rfl
  | t :: ts, none => by
    have ih1 := mergeSignsAux_erase ts none
    have ih2 := mergeSignsAux_erase ts (some t)
    show (if (t.kind != some .operator || !(match t.text.head? with | some c => isSign c | none => false)) = true then
            erase t :: mergeSignsAux (erL ts) none
          else mergeSignsAux (erL ts) (some (erase t)))
      = erL (if (t.kind != some .operator || !(match t.text.head? with | some c => isSign c | none => false)) = true then
            t :: mergeSignsAux ts none
          else mergeSignsAux ts (some t))
    by_cases h : (t.kind != some .operator || !(match t.text.head? with | some c => isSign c | none => false)) = true
    · rw [if_pos h, if_pos h]
      have := ih1
      simp only [Option.map_none] at this
      rw [this]; rfl
    · rw [if_neg h, if_neg h]
      exact ih2
  | t :: ts, some p => by
    have ih1 := mergeSignsAux_erase ts none
    have ih2 := mergeSignsAux_erase ts (some { t with text := p.text ++ t.text })
    show (if (t.kind != some .operator || !(match t.text.head? with | some c => isSign c | none => false)) = true then
            erase p :: erase t :: mergeSignsAux (erL ts) none
          else
            if (!(match (p.text ++ t.text).getLast? with | some c => isSign c | none => false)) = true then
              ({ erase t with text := p.text ++ t.text } : Tok) :: mergeSignsAux (erL ts) none
            else mergeSignsAux (erL ts) (some ({ erase t with text := p.text ++ t.text } : Tok)))
      = erL (if (t.kind != some .operator || !(match t.text.head? with | some c => isSign c | none => false)) = true then
            p :: t :: mergeSignsAux ts none
          else
            if (!(match (p.text ++ t.text).getLast? with | some c => isSign c | none => false)) = true then
              ({ t with text := p.text ++ t.text } : Tok) :: mergeSignsAux ts none
            else mergeSignsAux ts (some ({ t with text := p.text ++ t.text } : Tok)))
    simp only [Option.map_none] at ih1
    by_cases h : (t.kind != some .operator || !(match t.text.head? with | some c => isSign c | none => false)) = true
    · rw [if_pos h, if_pos h, ih1]; rfl
    · rw [if_neg h, if_neg h]
      by_cases h2 : (!(match (p.text ++ t.text).getLast? with | some c => isSign c | none => false)) = true
      · rw [if_pos h2, if_pos h2, ih1]; rfl
      · rw [if_neg h2, if_neg h2]
        exact ih2

theorem isEmpty_erase (l : List Tok) : (erL l).isEmpty = l.isEmpty := by cases l <;> rfl

theorem interceptTokens_erase (add : Bool) (ts : List Tok) :
    interceptTokens add (erL ts) = (erL (interceptTokens add ts).1, erL (interceptTokens add ts).2) := by
  have hf : ∀ l : List Tok, findRhsIndex (erL l) = findRhsIndex l := fun l => findRhsAux_erase l 0 []
  have hm : ∀ l : List Tok, mergeSigns (erL l) = erL (mergeSigns l) := fun l => mergeSignsAux_erase l none
  have htake : ∀ (l : List Tok) n, (erL l).take n = erL (l.take n) := fun l n => by simp [erL, List.map_take]
  have hdrop : ∀ (l : List Tok) n, (erL l).drop n = erL (l.drop n) := fun l n => by simp [erL, List.map_drop]
  have happ : ∀ a b : List Tok, erL a ++ erL b = erL (a ++ b) := fun a b => by simp [erL]
  unfold interceptTokens
  simp only [replaceZero_erase, insertOneAfter_erase, hf, htake, hdrop, isEmpty_erase]
  refine Prod.ext ?_ rfl
  simp only
  rw [← hm]
  congr 1
  rw [← happ]
  congr 1
  have hlit : ∀ b : Bool, (if b = true then [tokOne] else [tokOne, tokPlus]) = erL (if b = true then [tokOne] else [tokOne, tokPlus]) := by
    intro b; cases b <;> rfl
  split
  · split
    · rfl
    · exact hlit _
  · split
    · rfl
    · exact hlit _
def eraseAst : Ast → Ast
  | .leaf t => .leaf (erase t)
  | .node o args => .node o (eraseList args)
where
  eraseList : List Ast → List Ast
    | [] => []
    | a :: as => eraseAst a :: eraseList as

theorem eraseList_eq : ∀ l : List Ast, eraseAst.eraseList l = l.map eraseAst
  | [] => rfl
  | a :: as => by simp [eraseAst.eraseList, eraseList_eq as]

theorem eraseAst_node (o : OpSpec) (args : List Ast) : eraseAst (.node o args) = .node o (args.map eraseAst) := by
  rw [eraseAst, eraseList_eq]

abbrev erA (l : List Ast) : List Ast := l.map eraseAst

def erS (s : ShState) : ShState := ⟨erA s.out, s.stack⟩

def mapS (r : Except ParseErr ShState) : Except ParseErr ShState :=
  match r with | .ok s => .ok (erS s) | .error e => .error e

def mapO (r : Except ParseErr (List Ast)) : Except ParseErr (List Ast) :=
  match r with | .ok s => .ok (erA s) | .error e => .error e

theorem operate_erase (o : OpSpec) (idx : Nat) (out : List Ast) :
    operate o idx (erA out) = mapO (operate o idx out) := by
  unfold operate
  cases o.fixity <;> simp only [erA, List.length_map] <;>
  · split
    · rfl
    · simp only [mapO, List.map_append, List.map_take, List.map_drop, List.map_cons, List.map_nil, eraseAst_node]

theorem popWhile_erase (c : OpSpec) : ∀ (stk : List SEntry) (out : List Ast),
    popWhile c (erA out) stk = mapS (popWhile c out stk)
  | [], out => rfl
  | .ctx ch i :: stk, out => rfl
  | .op o i :: stk, out => by
    simp only [popWhile]
    split
    · rw [operate_erase]
      cases h : operate o i out with
      | error e => rfl
      | ok out' => simp only [mapO]; exact popWhile_erase c stk out'
    · rfl

theorem tryCands_erase : ∀ (cs : List OpSpec) (s : ShState), tryCands cs (erS s) = mapS (tryCands cs s)
  | [], _ => rfl
  | c :: cs, s => by
    simp only [tryCands]
    show (if (!acceptsContext c s.stack) = true then tryCands cs (erS s)
          else if c.disabled = true then tryCands cs (erS s)
          else match popWhile c (erA s.out) s.stack with
            | .error e => .error e
            | .ok s' =>
              if validHere c (match s'.stack with | e :: _ => s'.out.length - e.idx | [] => s'.out.length) = true
              then .ok { s' with stack := .op c s'.out.length :: s'.stack }
              else tryCands cs s') = _
    rw [popWhile_erase, tryCands_erase cs s]
    split
    · rfl
    · split
      · rfl
      · cases h : popWhile c s.out s.stack with
        | error e => rfl
        | ok s' =>
          have ih := tryCands_erase cs s'
          obtain ⟨out', stk'⟩ := s'
          simp only [mapS, erS, erA, List.length_map] at ih ⊢
          cases stk' with
          | nil =>
            simp only
            by_cases hv : validHere c out'.length = true
            · rw [if_pos hv, if_pos hv]
            · rw [if_neg hv, if_neg hv]; exact ih
          | cons e tl =>
            simp only
            by_cases hv : validHere c (out'.length - e.idx) = true
            · rw [if_pos hv, if_pos hv]
            · rw [if_neg hv, if_neg hv]; exact ih

theorem closeCtx_erase (op : Char) : ∀ (stk : List SEntry) (out : List Ast),
    closeCtx op (erA out) stk = mapS (closeCtx op out stk)
  | [], _ => rfl
  | .ctx c i :: stk, out => by
    simp only [closeCtx]
    split <;> rfl
  | .op o i :: stk, out => by
    simp only [closeCtx]
    rw [operate_erase]
    cases h : operate o i out with
    | error e => rfl
    | ok out' => simp only [mapO]; exact closeCtx_erase op stk out'

theorem runCands_erase : ∀ (gs : List (List OpSpec)) (s : ShState), runCands gs (erS s) = mapS (runCands gs s)
  | [], _ => rfl
  | cs :: rest, s => by
    simp only [runCands]
    rw [tryCands_erase]
    cases h : tryCands cs s with
    | error e => rfl
    | ok s' => simp only [mapS]; exact runCands_erase rest s'

theorem shuntStep_erase (tab : OpTable) (s : ShState) (t : Tok) :
    shuntStep tab (erS s) (erase t) = mapS (shuntStep tab s t) := by
  show (match t.kind with
    | some .context =>
      if t.text == ['('] then .ok { erS s with stack := .ctx '(' (erS s).out.length :: (erS s).stack }
      else if t.text == ['['] then .ok { erS s with stack := .ctx '[' (erS s).out.length :: (erS s).stack }
      else if t.text == [')'] then closeCtx '(' (erS s).out (erS s).stack
      else if t.text == [']'] then closeCtx '[' (erS s).out (erS s).stack
      else .error (.syntax "unrecognised context token")
    | some .operator =>
      match resolveToken tab t.text with
      | .error e => .error e
      | .ok groups => runCands groups (erS s)
    | _ => .ok { erS s with out := (erS s).out ++ [Ast.leaf (erase t)] }) = mapS (shuntStep tab s t)
  unfold shuntStep
  cases hk : t.kind with
  | none => simp [mapS, erS, erA, eraseAst]
  | some k =>
    cases k with
    | context =>
      simp only [erS, erA, List.length_map]
      have h1 := closeCtx_erase '(' s.stack s.out
      have h2 := closeCtx_erase '[' s.stack s.out
      simp only [erA] at h1 h2
      rw [h1, h2]
      split
      · rfl
      · split
        · rfl
        · split
          · rfl
          · split <;> rfl
    | operator =>
      simp only
      cases resolveToken tab t.text with
      | error e => rfl
      | ok groups => exact runCands_erase groups s
    | value => simp [mapS, erS, erA, eraseAst]
    | name => simp [mapS, erS, erA, eraseAst]
    | python => simp [mapS, erS, erA, eraseAst]

theorem shuntRun_erase (tab : OpTable) : ∀ (ts : List Tok) (s : ShState),
    shuntRun tab (erL ts) (erS s) = mapS (shuntRun tab ts s)
  | [], _ => rfl
  | t :: ts, s => by
    simp only [erL, List.map_cons, shuntRun]
    rw [shuntStep_erase]
    cases h : shuntStep tab s t with
    | error e => rfl
    | ok s' => simp only [mapS]; exact shuntRun_erase tab ts s'

theorem finish_erase : ∀ (stk : List SEntry) (out : List Ast), finish (erA out) stk = mapO (finish out stk)
  | [], _ => rfl
  | .ctx _ _ :: _, _ => rfl
  | .op o i :: stk, out => by
    simp only [finish]
    rw [operate_erase]
    cases h : operate o i out with
    | error e => rfl
    | ok out' => simp only [mapO]; exact finish_erase stk out'

/-- **the shunting-yard does not look at spans**: the tree of the span-free tokens is the span-free tree -/
theorem tokensToAst_erase (tab : OpTable) (ts : List Tok) :
    tokensToAst tab (erL ts) = (match tokensToAst tab ts with
      | .error e => .error e
      | .ok none => .ok none
      | .ok (some a) => .ok (some (eraseAst a))) := by
  unfold tokensToAst
  have h := shuntRun_erase tab ts {}
  have h0 : erS {} = ({} : ShState) := rfl
  rw [h0] at h
  rw [h]
  cases shuntRun tab ts {} with
  | error e => rfl
  | ok s =>
    simp only [mapS, erS]
    rw [finish_erase]
    cases finish s.out s.stack with
    | error e => rfl
    | ok l =>
      cases l with
      | nil => rfl
      | cons a l => cases l <;> rfl

/-! ### evaluation -/

open FormulaicVerif.Proofs.C14 (evalAst_node evalArgs_cons)

mutual
theorem evalAst_erase (dot : DotCtx) : ∀ a : Ast, evalAst dot (eraseAst a) = evalAst dot a
  | .leaf t => by simp [eraseAst, evalAst]; rfl
  | .node o args => by rw [eraseAst_node, evalAst_node, evalAst_node, evalArgs_erase dot args]
theorem evalArgs_erase (dot : DotCtx) : ∀ l : List Ast, evalAst.evalArgs dot (l.map eraseAst) = evalAst.evalArgs dot l
  | [] => rfl
  | a :: as => by
    rw [List.map_cons, evalArgs_cons, evalArgs_cons, evalAst_erase dot a, evalArgs_erase dot as]
end

theorem lhsVariables_erase (env : PyEnv) : ∀ ts : List Tok, lhsVariables env (erL ts) = lhsVariables env ts
  | [] => rfl
  | t :: ts => by
    have ih := lhsVariables_erase env ts
    simp only [lhsVariables, erL, List.map_cons, List.flatMap_cons] at ih ⊢
    rw [ih]
    rfl

end FormulaicVerif.Proofs.C01Spans
