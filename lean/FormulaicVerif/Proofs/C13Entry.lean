import FormulaicVerif.Model.ScaleEntry
import FormulaicVerif.Model.PolyEntry
import FormulaicVerif.Proofs.C13Scale
/-! Helper lemmas for the entry points `scale` / `center` / `standardize` (`Model/ScaleEntry.lean`):
the live signatures as the binder sees them, "a successful call through any entry point is a
successful `Scale.run` on the vector that was passed", and what every entry point does once all
three statistics are recorded. -/
namespace FormulaicVerif.Proofs.C13
open FormulaicVerif FormulaicVerif.Model FormulaicVerif.Model.ScaleEntry

/-! ### the live signatures (`Gen.transformParams`) -/

theorem sig_scale : PyCall.signature "scale" =
    .ok [("center", .bool true), ("scale", .bool true), ("ddof", .int 1)] := by decide
theorem sig_center : PyCall.signature "center" = .ok [] := by decide
theorem sig_standardize : PyCall.signature "standardize" =
    .ok [("center", .bool true), ("rescale", .bool true), ("ddof", .int 0)] := by decide
theorem sig_poly : PyCall.signature "poly" = .ok [("degree", .int 1), ("raw", .bool false)] := by decide

variable {α : Type} [Field α] [DecidableEq α]

/-- the vector a container holds, when it holds one -/
def vecOf : Data α → Option (List α)
  | .dense xs => some xs
  | .sparse [c] => some c
  | .sparse _ => none

omit [Field α] [DecidableEq α] in
theorem liftNum_ok {γ : Type} (x : Except Scale.NumErr γ) (r : γ) : liftNum x = .ok r ↔ x = .ok r := by
  cases x <;> simp [liftNum]

/-- an error that is a raised Python exception (`ValueError`, `TypeError`), not numpy's `nan`/`inf` -/
def Raised : Err → Prop
  | .valueError => True
  | .bind _ => True
  | .num _ => False

theorem scaleDense_ok (sqrt : α → α) (xs : List α) (pos : List (Scale.Arg α)) (kw : List (String × Scale.Arg α))
    (st : Scale.State α) (r : List α × Scale.State α) (h : scaleDense sqrt xs pos kw st = .ok r) :
    ∃ ca sa dd, Scale.run sqrt xs ca sa dd st = .ok r := by
  unfold scaleDense at h
  split at h
  · cases h
  · exact ⟨_, _, _, (liftNum_ok _ _).mp h⟩

theorem scaleCall_ok (sqrt : α → α) (data : Data α) (pos : List (Scale.Arg α)) (kw : List (String × Scale.Arg α))
    (st : Scale.State α) (r : List α × Scale.State α) (h : scaleCall sqrt data pos kw st = .ok r) :
    ∃ xs ca sa dd, vecOf data = some xs ∧ Scale.run sqrt xs ca sa dd st = .ok r := by
  unfold scaleCall at h
  split at h
  · obtain ⟨ca, sa, dd, h'⟩ := scaleDense_ok sqrt _ pos kw st r h
    exact ⟨_, ca, sa, dd, rfl, h'⟩
  · obtain ⟨ca, sa, dd, h'⟩ := scaleDense_ok sqrt _ pos kw st r h
    exact ⟨_, ca, sa, dd, rfl, h'⟩
  · cases h

/-- a successful call through any of the three entry points, on any container, is a successful
`Scale.run` (with the bound arguments) on the vector the container holds -/
theorem call_ok (sqrt : α → α) (fn : Fn) (data : Data α) (pos : List (Scale.Arg α))
    (kw : List (String × Scale.Arg α)) (st : Scale.State α) (r : List α × Scale.State α)
    (h : call sqrt fn data pos kw st = .ok r) :
    ∃ xs ca sa dd, vecOf data = some xs ∧ Scale.run sqrt xs ca sa dd st = .ok r := by
  cases fn with
  | scale => exact scaleCall_ok sqrt data pos kw st r h
  | center =>
    simp only [call, centerCall] at h
    split at h
    · cases h
    · split at h
      · cases h
      · exact scaleCall_ok sqrt data _ _ st r h
  | standardize =>
    simp only [call, standardizeCall] at h
    split at h
    · cases h
    · exact scaleCall_ok sqrt data _ _ st r h

/-! ### with all three statistics recorded -/

theorem scaleDense_recorded (sqrt : α → α) (ys : List α) (pos : List (Scale.Arg α))
    (kw : List (String × Scale.Arg α)) (d : α) (c s : Option α) (hs : s ≠ some 0) :
    (∃ e, scaleDense sqrt ys pos kw ⟨some d, some c, some s⟩ = .error e ∧ Raised e) ∨
      scaleDense sqrt ys pos kw ⟨some d, some c, some s⟩ =
        .ok (ys.map (applyStats c s), ⟨some d, some c, some s⟩) := by
  unfold scaleDense
  split
  · exact Or.inl ⟨_, rfl, trivial⟩
  · right
    rw [run_recorded sqrt ys _ _ _ d c s hs]; rfl

theorem scaleCall_recorded (sqrt : α → α) (data : Data α) (pos : List (Scale.Arg α))
    (kw : List (String × Scale.Arg α)) (d : α) (c s : Option α) (hs : s ≠ some 0) :
    (∃ e, scaleCall sqrt data pos kw ⟨some d, some c, some s⟩ = .error e ∧ Raised e) ∨
      ∃ ys, vecOf data = some ys ∧ scaleCall sqrt data pos kw ⟨some d, some c, some s⟩ =
        .ok (ys.map (applyStats c s), ⟨some d, some c, some s⟩) := by
  unfold scaleCall
  split
  · rcases scaleDense_recorded sqrt _ pos kw d c s hs with h | h
    · exact Or.inl h
    · exact Or.inr ⟨_, rfl, h⟩
  · rcases scaleDense_recorded sqrt _ pos kw d c s hs with h | h
    · exact Or.inl h
    · exact Or.inr ⟨_, rfl, h⟩
  · exact Or.inl ⟨_, rfl, trivial⟩

/-- with every statistic recorded, each entry point either raises (ill-formed arguments, not a
vector) or applies the recorded affine map and returns the state as it was -/
theorem call_recorded (sqrt : α → α) (fn : Fn) (data : Data α) (pos : List (Scale.Arg α))
    (kw : List (String × Scale.Arg α)) (d : α) (c s : Option α) (hs : s ≠ some 0) :
    (∃ e, call sqrt fn data pos kw ⟨some d, some c, some s⟩ = .error e ∧ Raised e) ∨
      ∃ ys, vecOf data = some ys ∧ call sqrt fn data pos kw ⟨some d, some c, some s⟩ =
        .ok (ys.map (applyStats c s), ⟨some d, some c, some s⟩) := by
  cases fn with
  | scale => exact scaleCall_recorded sqrt data pos kw d c s hs
  | center =>
    simp only [call, centerCall]
    split
    · exact Or.inl ⟨_, rfl, trivial⟩
    · split
      · exact Or.inl ⟨_, rfl, trivial⟩
      · exact scaleCall_recorded sqrt data _ _ d c s hs
  | standardize =>
    simp only [call, standardizeCall]
    split
    · exact Or.inl ⟨_, rfl, trivial⟩
    · exact scaleCall_recorded sqrt data _ _ d c s hs

/-! ### `poly` through its entry point -/

open FormulaicVerif.Model.PolyEntry in
theorem body_ok (sqrt : α → α) (xs : List (Option α)) (d r : PArg) (st : Poly.State α)
    (res : Result α) (st' : Poly.State α) :
    body sqrt xs d r st = .ok (res, st') ↔
      (¬ intOf d < 0 ∧ ¬ (!truthy r && isFlag d) = true ∧
        Poly.run sqrt xs (intOf d).toNat (truthy r) st = .ok (res.cols, st') ∧
        res.names = if truthy r then none else some (columnNames (intOf d).toNat)) := by
  unfold body
  by_cases h1 : intOf d < 0
  · simp [h1]
  · by_cases h2 : (!truthy r && isFlag d) = true
    · simp [h1, h2]
    · simp only [h1, h2, if_false, not_false_eq_true, true_and]
      obtain ⟨cols, names⟩ := res
      cases hrun : Poly.run sqrt xs (intOf d).toNat (truthy r) st with
      | error e => simp
      | ok p =>
        obtain ⟨c', s'⟩ := p
        simp only [Bool.false_eq_true, if_false, not_false_eq_true, true_and, Except.ok.injEq, Prod.mk.injEq,
          Result.mk.injEq]
        constructor
        · rintro ⟨⟨rfl, rfl⟩, rfl⟩; exact ⟨⟨rfl, rfl⟩, rfl⟩
        · rintro ⟨⟨rfl, rfl⟩, rfl⟩; exact ⟨⟨rfl, rfl⟩, rfl⟩

end FormulaicVerif.Proofs.C13
