import FormulaicVerif.Model.Dot
import FormulaicVerif.Spec.Variables
import FormulaicVerif.Proofs.C19LM
/-! Helper lemmas for C17: the wildcard expansion. Not obligations. -/
namespace FormulaicVerif.Proofs.C17
open FormulaicVerif.Model FormulaicVerif.Spec.Containers FormulaicVerif.Proofs.C19
open FormulaicVerif.Model.Variables FormulaicVerif.Model.LMap FormulaicVerif.Spec.Variables

theorem dedupAux_id_of_nodup {α : Type} (key : α → List String) :
    ∀ (xs : List α) (seen : List (List String)), (xs.map key).Nodup → (∀ x ∈ xs, key x ∉ seen) →
      dedupAux key seen xs = xs
  | [], _, _, _ => rfl
  | x :: xs, seen, hnd, hs => by
    have hx : seen.contains (key x) = false := by
      have := hs x (by simp)
      simpa using this
    simp only [dedupAux, hx, Bool.false_eq_true, if_false]
    congr 1
    simp only [List.map_cons, List.nodup_cons] at hnd
    apply dedupAux_id_of_nodup key xs _ hnd.2
    intro y hy hmem
    rcases List.mem_cons.1 hmem with h1 | h2
    · exact hnd.1 (by rw [← h1]; exact List.mem_map_of_mem hy)
    · exact hs y (by simp [hy]) h2

theorem single_key (c : String) : Term.key [Factor.mk c .lookup] = [c] := by
  simp [Term.key, sortStrings, insertSorted]

theorem firstOcc_sublist : ∀ (xs : List String), (firstOcc xs).Sublist xs
  | [] => by simp [firstOcc]
  | x :: xs => by
    simp only [firstOcc]
    exact List.Sublist.cons_cons _ ((List.filter_sublist).trans (firstOcc_sublist xs))

theorem nodup_map_single : ∀ (xs : List String), xs.Nodup → (xs.map (fun c => [c])).Nodup
  | [], _ => by simp
  | x :: xs, h => by
    simp only [List.nodup_cons] at h
    simp only [List.map_cons, List.nodup_cons, List.mem_map, not_exists, not_and]
    refine ⟨?_, nodup_map_single xs h.2⟩
    intro y hy heq
    have : y = x := by simpa using heq
    subst this; exact h.1 hy

/-- the `.` operator: first occurrences of the available columns that are not among the
left-hand-side variables, one lookup term each -/
theorem expand_eq (cols used : List String) :
    Dot.expand cols used =
      .ok (((firstOcc cols).filter (fun c => !used.contains c)).map (fun c => [Factor.mk c .lookup])) := by
  have hd : dedupBy id cols = firstOcc cols := dedup_eq cols
  simp only [Dot.expand, applyPlain, Dot.dotOp, hd]
  congr 1
  have hnd : ((firstOcc cols).filter (fun c => !used.contains c)).Nodup :=
    (firstOcc_nodup cols).sublist List.filter_sublist
  apply dedupAux_id_of_nodup
  · rw [List.map_map]
    have : (Term.key ∘ fun c => [Factor.mk c .lookup]) = fun c : String => [c] := by
      funext c; exact single_key c
    rw [this]
    exact nodup_map_single _ hnd
  · intro x _ h; cases h

/-! ### every occurrence of `.` reads the same evaluation context -/

/-- an operator reads the evaluation context only when it is the `.` operator -/
theorem applyPlain_dot_congr (dot dot' : DotCtx)
    (h : applyPlain Dot.dotOp dot [] = applyPlain Dot.dotOp dot' []) (o : OpSpec) (args : List (List Term)) :
    applyPlain o dot args = applyPlain o dot' args := by
  simp only [applyPlain, Dot.dotOp] at h
  unfold applyPlain
  split <;> first | rfl | exact h

theorem applyPlain_fun_congr (dot dot' : DotCtx)
    (h : applyPlain Dot.dotOp dot [] = applyPlain Dot.dotOp dot' []) (o : OpSpec) :
    applyPlain o dot = applyPlain o dot' := funext (applyPlain_dot_congr dot dot' h o)

mutual
theorem evalAst_dot_congr (dot dot' : DotCtx)
    (h : applyPlain Dot.dotOp dot [] = applyPlain Dot.dotOp dot' []) :
    ∀ (a : Ast), evalAst dot a = evalAst dot' a
  | .leaf t => by simp only [evalAst]
  | .node o args => by
    simp only [evalAst, evalArgs_dot_congr dot dot' h args, applyPlain_fun_congr dot dot' h o]
theorem evalArgs_dot_congr (dot dot' : DotCtx)
    (h : applyPlain Dot.dotOp dot [] = applyPlain Dot.dotOp dot' []) :
    ∀ (as : List Ast), evalAst.evalArgs dot as = evalAst.evalArgs dot' as
  | [] => by simp only [evalAst.evalArgs]
  | a :: as => by
    simp only [evalAst.evalArgs, evalAst_dot_congr dot dot' h a, evalArgs_dot_congr dot dot' h as]
end

/-- `Token.required_variables` over the left-hand-side tokens, computed by `Model.Variables` -/
theorem lhsVariables_pyEnv (norm : List Char → Except PyErr (List Char))
    (codes : List (String × Option PyCode)) (av : Option (List String)) (ts : List Tok) :
    lhsVariables (Dot.pyEnv norm codes av) ts = lhsUsed (ts.map (Dot.ptokOf codes)) := by
  simp only [lhsVariables, lhsUsed, List.flatMap_map]
  congr 1
  funext t
  simp only [Dot.pyEnv, Dot.ptokOf, tokenRequired]
  cases t.kind with
  | none => rfl
  | some k => cases k <;> rfl

/-! ### named layers of the materializer's context -/
variable {ν : Type}

theorem directNamed_single (c : Layer ν) (n : String) :
    (directNamed [c] ++ namedLayers c).lookup n = (namedLayers c).lookup n := by
  cases c with
  | dict d => simp [directNamed]
  | lm name muts layers =>
    simp only [directNamed, namedLayers]
    cases named name with
    | none => simp
    | some m =>
      simp only [List.append_nil, List.cons_append, List.nil_append, List.lookup_cons]
      cases n == m <;> simp

theorem namedLayers_lm (L : Layers ν) (n : String) :
    (namedLayers L.lm.toLayer).lookup n =
      if n = "data" then some (.lm (some "data") [] [.dict L.data])
      else if n = "context" then some (.lm (some "context") [] [L.context])
      else if n = "transforms" then some (.lm (some "transforms") [] [.dict L.transforms])
      else (namedLayers L.context).lookup n := by
  have hd : named (some "data") = some "data" := by decide
  have hc : named (some "context") = some "context" := by decide
  have ht : named (some "transforms") = some "transforms" := by decide
  have hn : named (none : Option String) = none := rfl
  simp only [Layers.lm, LM.toLayer, namedLayers, namedLayersL, directNamed, hd, hc, ht, hn,
    List.nil_append, List.append_nil, List.cons_append, List.lookup_cons]
  by_cases h1 : n = "data"
  · subst h1; simp
  · by_cases h2 : n = "context"
    · subst h2; simp
    · by_cases h3 : n = "transforms"
      · subst h3; simp
      · have e1 : (n == "data") = false := by simpa using h1
        have e2 : (n == "context") = false := by simpa using h2
        have e3 : (n == "transforms") = false := by simpa using h3
        simp only [h1, h2, h3, if_false, e1, e2, e3]
        rw [List.lookup_append, directNamed_single]
        simp [List.lookup, e3]

/-- the variables available to `.`: the keys of the data layer, first occurrences, in data order -/
theorem available_eq (L : Layers ν) : L.available = some (firstOcc (dataKeys L)) := by
  simp only [Layers.available, namedLayers_lm, if_true, Option.map_some, Layer.keys, keysL,
    List.map_nil, List.nil_append, List.append_nil, dataKeys]
  congr 1
  exact dedup_eq _

end FormulaicVerif.Proofs.C17
