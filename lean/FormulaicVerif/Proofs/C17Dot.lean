import FormulaicVerif.Model.Dot
import FormulaicVerif.Proofs.C19LM
/-! Helper lemmas for C17: the wildcard expansion. Not obligations. -/
namespace FormulaicVerif.Proofs.C17
open FormulaicVerif.Model FormulaicVerif.Spec.Containers FormulaicVerif.Proofs.C19

theorem dedupAux_id_of_nodup {α : Type} (key : α → List String) :
    ∀ (xs : List α) (seen : List (List String)), (xs.map key).Nodup → (∀ x ∈ xs, key x ∉ seen) →
      dedupAux key seen xs = xs
  | [], _, _, _ => rfl
  | x :: xs, seen, hnd, hs => by
    have hx : seen.contains (key x) = false := by
      have := hs x (by simp)
      simpa using this
    simp only [dedupAux, hx, Bool.false_eq_true, if_false]
    congr 1
    simp only [List.map_cons, List.nodup_cons] at hnd
    apply dedupAux_id_of_nodup key xs _ hnd.2
    intro y hy hmem
    rcases List.mem_cons.1 hmem with h1 | h2
    · exact hnd.1 (by rw [← h1]; exact List.mem_map_of_mem hy)
    · exact hs y (by simp [hy]) h2

theorem single_key (c : String) : Term.key [Factor.mk c .lookup] = [c] := by
  simp [Term.key, sortStrings, insertSorted]

theorem firstOcc_sublist : ∀ (xs : List String), (firstOcc xs).Sublist xs
  | [] => by simp [firstOcc]
  | x :: xs => by
    simp only [firstOcc]
    exact List.Sublist.cons_cons _ ((List.filter_sublist).trans (firstOcc_sublist xs))

theorem nodup_map_single : ∀ (xs : List String), xs.Nodup → (xs.map (fun c => [c])).Nodup
  | [], _ => by simp
  | x :: xs, h => by
    simp only [List.nodup_cons] at h
    simp only [List.map_cons, List.nodup_cons, List.mem_map, not_exists, not_and]
    refine ⟨?_, nodup_map_single xs h.2⟩
    intro y hy heq
    have : y = x := by simpa using heq
    subst this; exact h.1 hy

/-- the `.` operator: first occurrences of the available columns that are not among the
left-hand-side variables, one lookup term each -/
theorem expand_eq (cols used : List String) :
    Dot.expand cols used =
      .ok (((firstOcc cols).filter (fun c => !used.contains c)).map (fun c => [Factor.mk c .lookup])) := by
  have hd : dedupBy id cols = firstOcc cols := dedup_eq cols
  simp only [Dot.expand, applyPlain, Dot.dotOp, hd]
  congr 1
  have hnd : ((firstOcc cols).filter (fun c => !used.contains c)).Nodup :=
    (firstOcc_nodup cols).sublist List.filter_sublist
  apply dedupAux_id_of_nodup
  · rw [List.map_map]
    have : (Term.key ∘ fun c => [Factor.mk c .lookup]) = fun c : String => [c] := by
      funext c; exact single_key c
    rw [this]
    exact nodup_map_single _ hnd
  · intro x _ h; cases h

end FormulaicVerif.Proofs.C17
