import FormulaicVerif.Proofs.C01Grammar
import FormulaicVerif.Proofs.C14
import FormulaicVerif.Model.Eval
/-! # C01 — the documented TOP level of the formula grammar: `~` and `|`

`Proofs/C01Grammar.lean` covers the arithmetic levels `Sum/Prod/Inter/Pow/Atom`. This file adds the
two structural operators of the documented table (`Spec.Wilkinson.documentedTable`):

    Formula := Parts | Parts ~ Parts | ~ Parts     -- `~`: precedence -100, context rule "nothing of
                                                   --  precedence ≤ -100 is pending"; infix needs TWOSIDED
    Parts   := Sum | Sum '|' Parts                 -- `|`: precedence -50, context rule "only `~`/`|` of
                                                   --  precedence ≤ -50 are pending"; needs MULTIPART

and proves (`multipart_parses`, `twosided_multipart_parses`, `twosided_parses`, `onesided_tilde_parses`)
that the shunting-yard returns the documented tree for EVERY formula of this grammar — arbitrary
`Sum`s, any number of parts on either side — and (`eval_parts`, `eval_toplevel`) that such a tree
evaluates to the documented structure `{lhs: …, rhs: …}` whose sides are a term set (one part) or the
tuple of the parts' term sets.

CORNER (found while proving). `|` has associativity `None` in the table, and the shunting-yard pops
an operator of EQUAL precedence only for a LEFT-associative incoming operator. Hence a chain of parts
is nested to the RIGHT: `a | b | c` is `|(a, |(b, c))`, not `|(|(a, b), c)` (`bar_chain_right_nested`).
The evaluation (`partExpansion`, tuple concatenation) is associative, so the denoted tuple is the same.

How the proof goes. `ShuntC.run_lin` is the "run over a prefix" form of the completeness theorem:
consuming `lin e` in operand position leads from `s` to `after e s` (`e`'s tree is not yet collapsed:
its right spine is pending on the stack). `ShuntC.collapse` collapses that spine under any
continuation that pops. Here: (1) the pending spine of a `Sum` has precedences ≥ 100, so it neither
enters the context of `~`/`|` (`accepts_tilde`, `accepts_bar` via `AllOps`) nor survives their
`popWhile`; (2) a pending `|` or `~` is never popped by `|` (`popCond … = false`: equal precedence,
not left-associative) and a `Sum` in operand position above it is guarded (`Sum.guard_low`);
(3) `run_parts`/`collapse_parts` lift `run_lin`/`collapse` from one `Sum` to a chain of parts. -/
namespace FormulaicVerif.Proofs.C01TopLevel
open FormulaicVerif FormulaicVerif.Model FormulaicVerif.Proofs.ShuntC FormulaicVerif.Proofs.C01Grammar
open FormulaicVerif.Spec.Wilkinson (documentedTable)

/-! ### the structural operators of the documented table -/

def tildeSym : List Char := ['~']
def barSym : List Char := ['|']

/-- the two-sided `~` (enabled) -/
def tilde : OpSpec :=
  { symbol := "~", arity := 2, prec := -100, assoc := .none, fixity := .infix, structural := true,
    disabled := false, ctx := .emptyCtx }
/-- the one-sided (prefix) `~` -/
def tildeP : OpSpec :=
  { symbol := "~", arity := 1, prec := -100, assoc := .none, fixity := .prefix, structural := true,
    disabled := false, ctx := .emptyCtx }
/-- the part separator `|` (enabled) -/
def bar : OpSpec :=
  { symbol := "|", arity := 2, prec := -50, assoc := .none, fixity := .infix, structural := true,
    disabled := false, ctx := .allTildeBar }

/-- the two-sided `~` candidate for a given TWOSIDED flag -/
def tildeTwo (twosided : Bool) : OpSpec :=
  { symbol := "~", arity := 2, prec := -100, assoc := .none, fixity := .infix, structural := true,
    disabled := !twosided, ctx := .emptyCtx }
/-- the multistage `~` candidate (only accepted directly inside `[`…`]`) for a given MULTISTAGE flag -/
def tildeStage (multistage : Bool) : OpSpec :=
  { symbol := "~", arity := 2, prec := -100, assoc := .none, fixity := .infix, structural := true,
    disabled := !multistage, ctx := .lastIsSquare }
/-- the candidate list of the token `~` for given TWOSIDED / MULTISTAGE flags -/
def tildeCands (twosided multistage : Bool) : List OpSpec :=
  [tildeTwo twosided, tildeStage multistage, tildeP]
/-- the candidate list of the token `|` for a given MULTIPART flag -/
def barCands (multipart : Bool) : List OpSpec :=
  [ { symbol := "|", arity := 2, prec := -50, assoc := .none, fixity := .infix, structural := true,
      disabled := !multipart, ctx := .allTildeBar } ]

theorem tildeCands_true (c : Bool) : tildeCands true c = [tilde, tildeStage c, tildeP] := rfl
theorem barCands_true : barCands true = [bar] := rfl

theorem resolve_tilde (a b c : Bool) :
    resolveToken (documentedTable a b c) tildeSym = .ok [tildeCands a c] := by
  cases a <;> cases b <;> cases c <;> rfl

theorem resolve_bar (a b c : Bool) :
    resolveToken (documentedTable a b c) barSym = .ok [barCands b] := by
  cases a <;> cases b <;> cases c <;> rfl

/-! ### the grammar: chains of parts; their tokens and documented trees -/

/-- tokens of `p | q₀ | q₁ | …` -/
def partsToks (p : Sum) : List Sum → List Tok
  | [] => lin p.toE
  | q :: qs => lin p.toE ++ opTok barSym :: partsToks q qs

/-- `a | (b | (c | …))` on trees -/
def partsAst (t : Ast) : List Ast → Ast
  | [] => t
  | u :: us => .node bar [t, partsAst u us]

/-- the documented tree of a chain of parts -/
def partsTree (p : Sum) : List Sum → Ast
  | [] => strip p.toE
  | q :: qs => .node bar [strip p.toE, partsTree q qs]

theorem partsToks_eq (p : Sum) (tail : List Sum) :
    partsToks p tail = lin p.toE ++ tail.flatMap (fun q => opTok barSym :: lin q.toE) := by
  induction tail generalizing p with
  | nil => simp [partsToks]
  | cons q qs ih => simp [partsToks, ih q]

theorem partsTree_eq (p : Sum) (tail : List Sum) :
    partsTree p tail = partsAst (strip p.toE) (tail.map (fun q => strip q.toE)) := by
  induction tail generalizing p with
  | nil => rfl
  | cons q qs ih => simp [partsTree, partsAst, ih q]

/-- the state after the tokens of a chain of parts in operand position: every `|` and the right
spine of the last part are still pending -/
def afterParts (p : Sum) : List Sum → ShState → ShState
  | [], s => after p.toE s
  | q :: qs, s => afterParts q qs ⟨s.out ++ [strip p.toE], .op bar (s.out.length + 1) :: s.stack⟩

/-! ### stacks of operators -/

/-- every stack entry is an operator satisfying `P` (no open bracket) -/
def AllOps (P : OpSpec → Prop) (stk : List SEntry) : Prop := ∀ x ∈ stk, ∃ o i, x = .op o i ∧ P o

theorem allOps_nil (P : OpSpec → Prop) : AllOps P [] := fun _ h => by cases h

theorem allOps_cons {P : OpSpec → Prop} {o : OpSpec} {i : Nat} {stk : List SEntry} (ho : P o)
    (h : AllOps P stk) : AllOps P (.op o i :: stk) := by
  intro x hx
  rcases List.mem_cons.1 hx with hx | hx
  · exact ⟨o, i, hx, ho⟩
  · exact h x hx

theorem allOps_mono {P Q : OpSpec → Prop} (hpq : ∀ o, P o → Q o) {stk : List SEntry}
    (h : AllOps P stk) : AllOps Q stk := by
  intro x hx
  obtain ⟨o, i, he, hp⟩ := h x hx
  exact ⟨o, i, he, hpq o hp⟩

theorem after_allOps {P : OpSpec → Prop} (e : E) : ∀ s : ShState, AllOps P s.stack → rspineAll P e →
    AllOps P (after e s).stack := by
  induction e with
  | atom t => intro s h _; exact h
  | paren e _ => intro s h _; exact h
  | bin o sym cs l r _ ihr => intro s h hs; exact ihr _ (allOps_cons hs.1 h) hs.2
  | pre o sym cs x ihx => intro s h hs; exact ihx _ (allOps_cons hs.1 h) hs.2

theorem afterParts_allOps {P : OpSpec → Prop} (hbar : P bar) (hP : ∀ o : OpSpec, 100 ≤ o.prec → P o)
    (p : Sum) (tail : List Sum) : ∀ s : ShState, AllOps P s.stack → AllOps P (afterParts p tail s).stack := by
  induction tail generalizing p with
  | nil => intro s h; exact after_allOps _ s h (rspineAll_mono hP _ (Sum.rspine p))
  | cons q qs ih => intro s h; exact ih q _ (allOps_cons hbar h)

/-- pending `~`/`|` operators: what may be below a chain of parts -/
def Low (o : OpSpec) : Prop := o.prec ≤ -50 ∧ (o.symbol = "~" ∨ o.symbol = "|")

/-- what may be pending when `|` arrives: operators that bind tighter, `~`s and `|`s -/
def BarCtx (o : OpSpec) : Prop := -50 < o.prec ∨ o.symbol = "~" ∨ o.symbol = "|"

/-- context rule of `~`: accepted when nothing of precedence ≤ -100 is pending -/
theorem accepts_tilde (c : OpSpec) (hp : c.prec = -100) (hc : c.ctx = .emptyCtx) (stk : List SEntry)
    (h : AllOps (fun o => -100 < o.prec) stk) : acceptsContext c stk = true := by
  unfold acceptsContext
  rw [hc]
  simp only [List.isEmpty_iff, List.filter_eq_nil_iff, List.mem_reverse]
  intro x hx
  obtain ⟨o, i, he, ho⟩ := h x hx
  subst he
  simp only [decide_eq_true_eq]
  omega

/-- context rule of `|`: accepted when everything pending with precedence ≤ -50 is a `~` or a `|` -/
theorem accepts_bar (c : OpSpec) (hp : c.prec = -50) (hc : c.ctx = .allTildeBar) (stk : List SEntry)
    (h : AllOps BarCtx stk) : acceptsContext c stk = true := by
  unfold acceptsContext
  rw [hc]
  simp only [List.all_eq_true, List.mem_filter, List.mem_reverse]
  intro x ⟨hx, hf⟩
  obtain ⟨o, i, he, ho⟩ := h x hx
  subst he
  simp only [decide_eq_true_eq] at hf
  rcases ho with ho | ho | ho
  · omega
  · simp [ho]
  · simp [ho]

/-! ### guards: a `Sum` in operand position above a pending `~` / `|` -/

theorem Sum.guard_low (t : Option OpSpec) (ht : ∀ o, t = some o → o.prec < 100) : ∀ s : Sum, Guard t s.toE
  | .first none p =>
    guard_of_lspineBin _ _ (lspineBin_mono
      (fun c hc o ho => popCond_of_lt (by have := ht o ho; omega)) _ (Prod.lspine p))
  | .first (some sg) _ => ⟨[sg.spec], [], rfl,
      fun c hc => by
        rw [List.mem_singleton] at hc; subst hc
        exact ⟨sg.spec_fixity, sg.spec_arity, sg.spec_plain⟩,
      fun c hc o ho => by
        rw [List.mem_singleton] at hc; subst hc
        exact popCond_of_lt (by have := ht o ho; rw [sg.spec_prec]; exact this),
      fun o ho => popCond_of_lt (by have := ht o ho; rw [sg.unary_prec]; exact this)⟩
  | .add op s _ => ⟨Sum.guard_low t ht s,
      fun o ho => popCond_of_lt (by have := ht o ho; rw [op.spec_prec]; exact this)⟩

theorem topOp_low {stk : List SEntry} (h : AllOps Low stk) : ∀ o, topOp stk = some o → Low o := by
  intro o ho
  cases stk with
  | nil => cases ho
  | cons e r =>
    obtain ⟨o', i, he, hl⟩ := h e (by simp)
    subst he
    simp only [topOp, Option.some.injEq] at ho
    subst ho
    exact hl

/-- a pending `~` or `|` is not popped by an incoming `|`: not tighter, and `|` is not left-associative -/
theorem noPop_bar {stk : List SEntry} (h : AllOps Low stk) (c : OpSpec) (hp : c.prec = -50)
    (ha : c.assoc = .none) : NoPop (topOp stk) c := by
  intro o ho
  have hl := (topOp_low h o ho).1
  have h1 : ¬ o.prec > c.prec := by omega
  simp [popCond, h1, ha]

/-! ### running over a chain of parts -/

theorem collapse_parts {α} (tab : OpTable) (k : List Ast → List SEntry → Except ParseErr α)
    (Q : OpSpec → Prop)
    (hk : ∀ o i out stk, Q o → k out (.op o i :: stk) =
        (match operate o i out with | .ok out' => k out' stk | .error e => .error e))
    (hbar : Q bar) (hQ : ∀ o : OpSpec, 100 ≤ o.prec → Q o) (hwf : ∀ s : Sum, WF tab s.toE)
    (p : Sum) (tail : List Sum) : ∀ s : ShState,
      k (afterParts p tail s).out (afterParts p tail s).stack = k (s.out ++ [partsTree p tail]) s.stack := by
  induction tail generalizing p with
  | nil =>
    intro s
    exact collapse tab k Q hk p.toE (hwf p) s (rspineAll_mono hQ _ (Sum.rspine p))
  | cons q qs ih =>
    intro s
    simp only [afterParts, partsTree]
    rw [ih q, hk _ _ _ _ hbar]
    have := operate_infix bar rfl s.out (strip p.toE) (partsTree q qs)
    simp only [List.append_assoc, List.cons_append, List.nil_append] at this ⊢
    rw [this]

/-- consuming the tokens of a chain of parts in operand position above pending `~`/`|` operators;
MULTIPART is needed as soon as there is a second part -/
theorem run_parts (a b c : Bool) (p : Sum) (tail : List Sum) (hb : tail = [] ∨ b = true) :
    ∀ (rest : List Tok) (s : ShState), AllOps Low s.stack → s.out.length = baseIdx s.stack →
    shuntRun (documentedTable a b c) (partsToks p tail ++ rest) s
      = shuntRun (documentedTable a b c) rest (afterParts p tail s) := by
  induction tail generalizing p with
  | nil =>
    intro rest s hlow hlen
    exact run_lin _ p.toE rest s (Sum.wf a b c p)
      (Sum.guard_low _ (fun o ho => by have := (topOp_low hlow o ho).1; omega) p) hlen
  | cons q qs ih =>
    intro rest s hlow hlen
    have hbt : b = true := by
      rcases hb with hb | hb
      · cases hb
      · exact hb
    subst hbt
    simp only [partsToks, List.append_assoc, List.cons_append]
    rw [run_lin _ p.toE _ s (Sum.wf a true c p)
      (Sum.guard_low _ (fun o ho => by have := (topOp_low hlow o ho).1; omega) p) hlen]
    have hacc : acceptsContext bar (after p.toE s).stack = true :=
      accepts_bar bar rfl rfl _ (after_allOps _ s
        (allOps_mono (fun o ho => Or.inr ho.2) hlow)
        (rspineAll_mono (fun o (ho : 100 ≤ o.prec) => Or.inl (by omega)) _ (Sum.rspine p)))
    have hc : popWhile bar (after p.toE s).out (after p.toE s).stack
        = popWhile bar (s.out ++ [strip p.toE]) s.stack :=
      collapse _ (fun ou st => popWhile bar ou st) (fun x => popCond x bar = true)
        (by intro o' i out stk h; exact popWhile_step bar o' i out stk h) p.toE (Sum.wf a true c p) s
        (rspineAll_mono (fun o (ho : 100 ≤ o.prec) => by
          have : o.prec > bar.prec := by show o.prec > -50; omega
          simp [popCond, this]) _ (Sum.rspine p))
    simp only [shuntRun, step_op _ _ barSym _ (resolve_bar a true c), barCands_true, tryCands, hacc,
      show bar.disabled = false from rfl, Bool.not_true, Bool.false_eq_true, if_false]
    rw [hc, popWhile_stop bar _ s.stack (noPop_bar hlow bar rfl rfl)]
    have hval : validHere bar 1 = true := by decide
    obtain ⟨out, stk⟩ := s
    simp only at hlen hlow ⊢
    have hm := maxPost_eq out stk hlen 1
    have hl2 : (out ++ [strip p.toE]).length
        = baseIdx (SEntry.op bar (out ++ [strip p.toE]).length :: stk) := by
      simp [baseIdx, SEntry.idx]
    have := ih q (Or.inr rfl) rest ⟨out ++ [strip p.toE], .op bar (out ++ [strip p.toE]).length :: stk⟩
      (allOps_cons ⟨by decide, Or.inr rfl⟩ hlow) hl2
    cases stk with
    | nil =>
      simp only [List.length_append, List.length_cons, List.length_nil, Nat.zero_add] at hm this ⊢
      have hv : validHere bar (out.length + 1) = true := by rw [hm]; exact hval
      simp only [hv, if_true]
      rw [this]
      simp [afterParts]
    | cons e r' =>
      simp only [List.length_append, List.length_cons, List.length_nil, Nat.zero_add] at hm this ⊢
      have hv : validHere bar (out.length + 1 - e.idx) = true := by rw [hm]; exact hval
      simp only [hv, if_true]
      rw [this]
      simp [afterParts]

/-! ### the parse theorems (documented table) -/

theorem finish_parts (a b c : Bool) (p : Sum) (tail : List Sum) (s : ShState) :
    finish (afterParts p tail s).out (afterParts p tail s).stack
      = finish (s.out ++ [partsTree p tail]) s.stack :=
  collapse_parts (documentedTable a b c) (fun o st => finish o st) (fun _ => True)
    (by intro o i out stk _; exact finish_step o i out stk) trivial (fun _ _ => trivial)
    (Sum.wf a b c) p tail s

/-- `p₀ | p₁ | … | pₙ` (one-sided; MULTIPART needed as soon as `n ≥ 1`) -/
theorem multipart_parses_doc (a b c : Bool) (p : Sum) (tail : List Sum) (hb : tail = [] ∨ b = true) :
    tokensToAst (documentedTable a b c) (partsToks p tail) = .ok (some (partsTree p tail)) := by
  unfold tokensToAst
  have := run_parts a b c p tail hb [] {} (allOps_nil _) rfl
  simp only [List.append_nil] at this
  rw [this]
  simp only [shuntRun]
  rw [finish_parts a b c]
  simp [finish]

/-- the `~` token after a complete left-hand side: the whole left-hand side is collapsed to its
tree and the two-sided `~` is pushed -/
theorem step_tilde (b c : Bool) (l : Sum) (ltail : List Sum) :
    shuntStep (documentedTable true b c) (afterParts l ltail {}) (opTok tildeSym)
      = .ok ⟨[partsTree l ltail], [.op tilde 1]⟩ := by
  have hacc : acceptsContext tilde (afterParts l ltail {}).stack = true :=
    accepts_tilde tilde rfl rfl _
      (afterParts_allOps (P := fun o => -100 < o.prec) (by decide) (fun o ho => by omega) l ltail {}
        (allOps_nil _))
  have hc : popWhile tilde (afterParts l ltail {}).out (afterParts l ltail {}).stack
      = popWhile tilde (([] : List Ast) ++ [partsTree l ltail]) [] :=
    collapse_parts _ (fun ou st => popWhile tilde ou st) (fun x => popCond x tilde = true)
      (by intro o' i out stk h; exact popWhile_step tilde o' i out stk h) (by decide)
      (fun o ho => by
        have : o.prec > tilde.prec := by show o.prec > -100; omega
        simp [popCond, this])
      (Sum.wf true b c) l ltail {}
  rw [step_op _ _ tildeSym _ (resolve_tilde true b c), tildeCands_true]
  simp only [tryCands, hacc, show tilde.disabled = false from rfl, Bool.not_true, Bool.false_eq_true,
    if_false]
  rw [hc]
  rfl

/-- `l₀ | … | lₘ ~ p₀ | … | pₙ` (TWOSIDED; MULTIPART needed as soon as `m ≥ 1` or `n ≥ 1`) -/
theorem twosided_parses_doc (b c : Bool) (l : Sum) (ltail : List Sum) (p : Sum) (tail : List Sum)
    (hb : (ltail = [] ∧ tail = []) ∨ b = true) :
    tokensToAst (documentedTable true b c) (partsToks l ltail ++ opTok tildeSym :: partsToks p tail)
      = .ok (some (.node tilde [partsTree l ltail, partsTree p tail])) := by
  have hb1 : ltail = [] ∨ b = true := hb.elim (fun h => Or.inl h.1) Or.inr
  have hb2 : tail = [] ∨ b = true := hb.elim (fun h => Or.inl h.2) Or.inr
  unfold tokensToAst
  rw [run_parts true b c l ltail hb1 _ {} (allOps_nil _) rfl]
  simp only [shuntRun, step_tilde]
  have := run_parts true b c p tail hb2 [] ⟨[partsTree l ltail], [.op tilde 1]⟩
    (allOps_cons ⟨by decide, Or.inl rfl⟩ (allOps_nil _)) rfl
  simp only [List.append_nil] at this
  rw [this]
  simp only [shuntRun]
  rw [finish_parts true b c]
  rfl

/-- the `~` token at the very beginning: the two infix candidates are not valid in operand position
(or disabled), the one-sided prefix `~` is pushed — under every flag subset -/
theorem step_tildeP (a b c : Bool) :
    shuntStep (documentedTable a b c) {} (opTok tildeSym) = .ok ⟨[], [.op tildeP 0]⟩ := by
  rw [step_op _ _ tildeSym _ (resolve_tilde a b c)]
  cases a <;> cases c <;> rfl

/-- `~ p₀ | … | pₙ` (all flag subsets; MULTIPART needed as soon as `n ≥ 1`) -/
theorem onesided_tilde_parses_doc (a b c : Bool) (p : Sum) (tail : List Sum) (hb : tail = [] ∨ b = true) :
    tokensToAst (documentedTable a b c) (opTok tildeSym :: partsToks p tail)
      = .ok (some (.node tildeP [partsTree p tail])) := by
  unfold tokensToAst
  simp only [shuntRun, step_tildeP]
  have := run_parts a b c p tail hb [] ⟨[], [.op tildeP 0]⟩
    (allOps_cons ⟨by decide, Or.inl rfl⟩ (allOps_nil _)) rfl
  simp only [List.append_nil] at this
  rw [this]
  simp only [shuntRun]
  rw [finish_parts a b c]
  rfl

/-! ### what the top level rejects (documented table): feature flags, a second `~` -/

theorem shuntRun_step_error (tab : OpTable) (t : Tok) (ts : List Tok) (s : ShState) (e : ParseErr)
    (h : shuntStep tab s t = .error e) : shuntRun tab (t :: ts) s = .error e := by
  simp only [shuntRun, h]

/-- the multistage `~` is never accepted when no bracket is open -/
theorem rejects_square (c : OpSpec) (hc : c.ctx = .lastIsSquare) (stk : List SEntry)
    (h : AllOps (fun _ => True) stk) : acceptsContext c stk = false := by
  unfold acceptsContext
  rw [hc]
  simp only
  split
  · next ch i heq =>
    have hm := List.mem_of_getLast? heq
    rw [List.mem_filter, List.mem_reverse] at hm
    obtain ⟨o, j, he, _⟩ := h _ hm.1
    cases he
  · rfl

/-- a `~` is not accepted while another `~` is pending -/
theorem rejects_empty (c : OpSpec) (hp : c.prec = -100) (hc : c.ctx = .emptyCtx) (stk : List SEntry)
    (o : OpSpec) (i : Nat) (hm : SEntry.op o i ∈ stk) (ho : o.prec ≤ -100) :
    acceptsContext c stk = false := by
  unfold acceptsContext
  rw [hc]
  simp only
  rw [Bool.eq_false_iff]
  intro h
  rw [List.isEmpty_iff, List.filter_eq_nil_iff] at h
  have := h (.op o i) (List.mem_reverse.2 hm)
  simp only [decide_eq_true_eq] at this
  omega

theorem after_mem (x : SEntry) (e : E) : ∀ s : ShState, x ∈ s.stack → x ∈ (after e s).stack := by
  induction e with
  | atom t => intro s h; exact h
  | paren e _ => intro s h; exact h
  | bin o sym cs l r _ ihr => intro s h; exact ihr _ (List.mem_cons_of_mem _ h)
  | pre o sym cs x ihx => intro s h; exact ihx _ (List.mem_cons_of_mem _ h)

theorem afterParts_mem (x : SEntry) (p : Sum) (tail : List Sum) :
    ∀ s : ShState, x ∈ s.stack → x ∈ (afterParts p tail s).stack := by
  induction tail generalizing p with
  | nil => intro s h; exact after_mem x _ s h
  | cons q qs ih => intro s h; exact ih q _ (List.mem_cons_of_mem _ h)

/-- MULTIPART off: a `|` after a part is rejected, whatever follows -/
theorem run_bar_off (a c : Bool) (p : Sum) (rest : List Tok) (s : ShState) (hlow : AllOps Low s.stack)
    (hlen : s.out.length = baseIdx s.stack) :
    shuntRun (documentedTable a false c) (lin p.toE ++ opTok barSym :: rest) s
      = .error (.syntax "operator incorrectly used or disabled") := by
  rw [run_lin _ p.toE _ s (Sum.wf a false c p)
    (Sum.guard_low _ (fun o ho => by have := (topOp_low hlow o ho).1; omega) p) hlen]
  apply shuntRun_step_error
  rw [step_op _ _ barSym _ (resolve_bar a false c)]
  simp [tryCands, barCands]

theorem multipart_off_rejected_doc (a c : Bool) (p : Sum) (rest : List Tok) :
    tokensToAst (documentedTable a false c) (lin p.toE ++ opTok barSym :: rest)
      = .error (.syntax "operator incorrectly used or disabled") := by
  unfold tokensToAst
  rw [run_bar_off a c p rest {} (allOps_nil _) rfl]

theorem multipart_off_rhs_rejected_doc (c : Bool) (l p : Sum) (rest : List Tok) :
    tokensToAst (documentedTable true false c)
        (lin l.toE ++ opTok tildeSym :: (lin p.toE ++ opTok barSym :: rest))
      = .error (.syntax "operator incorrectly used or disabled") := by
  unfold tokensToAst
  have h := run_parts true false c l [] (Or.inl rfl) (opTok tildeSym :: (lin p.toE ++ opTok barSym :: rest)) {}
    (allOps_nil _) rfl
  simp only [partsToks] at h
  rw [h]
  simp only [shuntRun, step_tilde]
  rw [run_bar_off true c p rest ⟨_, _⟩ (allOps_cons ⟨by decide, Or.inl rfl⟩ (allOps_nil _)) rfl]

/-- TWOSIDED off: after a complete left-hand side the `~` token falls through to the one-sided
prefix `~` (the two-sided candidate is disabled, the multistage one needs an open `[`) … -/
theorem step_tilde_off (b c : Bool) (l : Sum) (ltail : List Sum) :
    shuntStep (documentedTable false b c) (afterParts l ltail {}) (opTok tildeSym)
      = .ok ⟨[partsTree l ltail], [.op tildeP 1]⟩ := by
  have hall : AllOps (fun o => -100 < o.prec) (afterParts l ltail {}).stack :=
    afterParts_allOps (P := fun o => -100 < o.prec) (by decide) (fun o ho => by omega) l ltail {}
      (allOps_nil _)
  have hacc : acceptsContext tildeP (afterParts l ltail {}).stack = true := accepts_tilde tildeP rfl rfl _ hall
  have hsq : acceptsContext (tildeStage c) (afterParts l ltail {}).stack = false :=
    rejects_square _ rfl _ (allOps_mono (fun _ _ => trivial) hall)
  have hc : popWhile tildeP (afterParts l ltail {}).out (afterParts l ltail {}).stack
      = popWhile tildeP (([] : List Ast) ++ [partsTree l ltail]) [] :=
    collapse_parts _ (fun ou st => popWhile tildeP ou st) (fun x => popCond x tildeP = true)
      (by intro o' i out stk h; exact popWhile_step tildeP o' i out stk h) (by decide)
      (fun o ho => by
        have : o.prec > tildeP.prec := by show o.prec > -100; omega
        simp [popCond, this])
      (Sum.wf false b c) l ltail {}
  rw [step_op _ _ tildeSym _ (resolve_tilde false b c)]
  simp only [tildeCands, tryCands, hacc, hsq, show (tildeTwo false).disabled = true from rfl,
    show tildeP.disabled = false from rfl, Bool.not_true, Bool.not_false,
    Bool.false_eq_true, if_false, if_true, ite_self]
  rw [hc]
  rfl

/-- … so `lhs ~ rhs` leaves TWO trees on the output queue, `lhs` and `~rhs`: "missing operator" -/
theorem twosided_off_rejected_doc (b c : Bool) (l : Sum) (ltail : List Sum) (p : Sum) (tail : List Sum)
    (hb : (ltail = [] ∧ tail = []) ∨ b = true) :
    tokensToAst (documentedTable false b c) (partsToks l ltail ++ opTok tildeSym :: partsToks p tail)
      = .error (.syntax "missing operator") := by
  have hb1 : ltail = [] ∨ b = true := hb.elim (fun h => Or.inl h.1) Or.inr
  have hb2 : tail = [] ∨ b = true := hb.elim (fun h => Or.inl h.2) Or.inr
  unfold tokensToAst
  rw [run_parts false b c l ltail hb1 _ {} (allOps_nil _) rfl]
  simp only [shuntRun, step_tilde_off]
  have := run_parts false b c p tail hb2 [] ⟨[partsTree l ltail], [.op tildeP 1]⟩
    (allOps_cons ⟨by decide, Or.inl rfl⟩ (allOps_nil _)) rfl
  simp only [List.append_nil] at this
  rw [this]
  simp only [shuntRun]
  rw [finish_parts false b c]
  rfl

/-- a `~` token arriving while a `~` (two-sided or one-sided) is pending is rejected: all three
candidates fail their context rule -/
theorem run_second_tilde (a b c : Bool) (p : Sum) (tail : List Sum) (hb : tail = [] ∨ b = true)
    (rest : List Tok) (s : ShState) (hlow : AllOps Low s.stack) (hlen : s.out.length = baseIdx s.stack)
    (o : OpSpec) (i : Nat) (hm : SEntry.op o i ∈ s.stack) (ho : o.prec ≤ -100) :
    shuntRun (documentedTable a b c) (partsToks p tail ++ opTok tildeSym :: rest) s
      = .error (.syntax "operator incorrectly used or disabled") := by
  rw [run_parts a b c p tail hb _ s hlow hlen]
  apply shuntRun_step_error
  rw [step_op _ _ tildeSym _ (resolve_tilde a b c)]
  have hm' := afterParts_mem _ p tail s hm
  have hall : AllOps (fun _ => True) (afterParts p tail s).stack :=
    afterParts_allOps (P := fun _ => True) trivial (fun _ _ => trivial) p tail s
      (allOps_mono (fun _ _ => trivial) hlow)
  have h1 := rejects_empty (tildeTwo a) rfl rfl _ o i hm' ho
  have h2 := rejects_square (tildeStage c) rfl _ hall
  have h3 := rejects_empty tildeP rfl rfl _ o i hm' ho
  simp [tildeCands, tryCands, h1, h2, h3]

/-- at most one `~`: `lhs ~ rhs ~ …` is rejected under every flag subset (whatever follows) -/
theorem second_tilde_rejected_doc (a b c : Bool) (l : Sum) (ltail : List Sum) (p : Sum) (tail : List Sum)
    (hb : (ltail = [] ∧ tail = []) ∨ b = true) (rest : List Tok) :
    tokensToAst (documentedTable a b c)
        (partsToks l ltail ++ opTok tildeSym :: (partsToks p tail ++ opTok tildeSym :: rest))
      = .error (.syntax "operator incorrectly used or disabled") := by
  have hb1 : ltail = [] ∨ b = true := hb.elim (fun h => Or.inl h.1) Or.inr
  have hb2 : tail = [] ∨ b = true := hb.elim (fun h => Or.inl h.2) Or.inr
  unfold tokensToAst
  rw [run_parts a b c l ltail hb1 _ {} (allOps_nil _) rfl]
  cases a with
  | true =>
    simp only [shuntRun, step_tilde]
    rw [run_second_tilde true b c p tail hb2 rest ⟨_, _⟩
      (allOps_cons ⟨by decide, Or.inl rfl⟩ (allOps_nil _)) rfl tilde 1 (by simp) (by decide)]
  | false =>
    simp only [shuntRun, step_tilde_off]
    rw [run_second_tilde false b c p tail hb2 rest ⟨_, _⟩
      (allOps_cons ⟨by decide, Or.inl rfl⟩ (allOps_nil _)) rfl tildeP 1 (by simp) (by decide)]

/-! ### evaluation of top-level trees -/

open FormulaicVerif.Proofs.C14 (evalAst_node evalArgs_cons)

/-- the documented value of a side of a formula: the term set of a single part, or the tuple of the
parts' term sets -/
def partsVal (s : List Term) : List (List Term) → Val
  | [] => .set s
  | t :: ts => .tuple ((s :: t :: ts).map Val.set)

theorem evalArgs_nil (dot : DotCtx) : evalAst.evalArgs dot [] = .ok [] := by rw [evalAst.evalArgs]

theorem evalArgs_two (dot : DotCtx) (a b : Ast) (va vb : Val) (ha : evalAst dot a = .ok va)
    (hb : evalAst dot b = .ok vb) : evalAst.evalArgs dot [a, b] = .ok [va, vb] := by
  simp only [evalArgs_cons, ha, hb, evalArgs_nil]

theorem evalArgs_one (dot : DotCtx) (a : Ast) (va : Val) (ha : evalAst dot a = .ok va) :
    evalAst.evalArgs dot [a] = .ok [va] := by
  simp only [evalArgs_cons, ha, evalArgs_nil]

/-- `Structured(lhs=…, rhs=…)`: exactly the two keys, in this order -/
theorem mkStruct_lhs_rhs (l r : Val) :
    mkStruct [("lhs", l), ("rhs", r)] none = .struct [("lhs", l), ("rhs", r)] := by
  simp [mkStruct]

theorem partExpansion_set (s x : List Term) (ss : List (List Term)) :
    partExpansion (.set s) (partsVal x ss) = partsVal s (x :: ss) := by
  cases ss <;> rfl

/-- a right-nested chain of `|` over trees that evaluate to term sets (`us.map (evalAst dot)` is
`ss.map (ok ∘ set)`: the `i`-th tree evaluates to the `i`-th term set) evaluates to the term set
itself (one part) or to the flat tuple of the term sets, in order (≥ 2 parts) -/
theorem eval_partsAst (dot : DotCtx) : ∀ (us : List Ast) (ss : List (List Term)) (t : Ast) (s : List Term),
    evalAst dot t = .ok (.set s) →
    us.map (evalAst dot) = ss.map (fun x => Except.ok (Val.set x)) →
    evalAst dot (partsAst t us) = .ok (partsVal s ss)
  | [], [], t, s, h, _ => h
  | [], _ :: _, _, _, _, hs => by cases hs
  | _ :: _, [], _, _, _, hs => by cases hs
  | u :: us, x :: ss, t, s, h, hs => by
    simp only [List.map_cons, List.cons.injEq] at hs
    have ih := eval_partsAst dot us ss u x hs.1 hs.2
    simp only [partsAst]
    rw [evalAst_node, evalArgs_two dot _ _ _ _ h ih]
    simp only [show bar.structural = true from rfl, if_true]
    show Except.ok (partExpansion (.set s) (partsVal x ss)) = _
    rw [partExpansion_set]

/-- the same for the documented tree of a chain of `Sum`s -/
theorem eval_partsTree (dot : DotCtx) (p : Sum) (tail : List Sum) (s : List Term) (ss : List (List Term))
    (h : evalAst dot (strip p.toE) = .ok (.set s))
    (hs : tail.map (fun q => evalAst dot (strip q.toE)) = ss.map (fun x => Except.ok (Val.set x))) :
    evalAst dot (partsTree p tail) = .ok (partsVal s ss) := by
  rw [partsTree_eq]
  refine eval_partsAst dot _ ss _ s h ?_
  rw [List.map_map]
  exact hs

/-- `~(L, R)` evaluates to the structure with exactly the keys `lhs`, `rhs` (in this order) -/
theorem eval_tilde (dot : DotCtx) (L R : Ast) (vl vr : Val) (hl : evalAst dot L = .ok vl)
    (hr : evalAst dot R = .ok vr) :
    evalAst dot (.node tilde [L, R]) = .ok (mkStruct [("lhs", vl), ("rhs", vr)] none) := by
  rw [evalAst_node, evalArgs_two dot _ _ _ _ hl hr]
  rfl

/-- the one-sided `~ R` evaluates to what `R` evaluates to -/
theorem eval_tildeP (dot : DotCtx) (R : Ast) (vr : Val) (hr : evalAst dot R = .ok vr) :
    evalAst dot (.node tildeP [R]) = .ok vr := by
  rw [evalAst_node, evalArgs_one dot _ _ hr]
  rfl

/-- two-sided formula over trees: `{lhs: side, rhs: side}` where a side is the term set of its
single part or the tuple of its parts' term sets -/
theorem eval_toplevel_ast (dot : DotCtx) (l : Ast) (ls : List Ast) (p : Ast) (ps : List Ast)
    (sl : List Term) (sls : List (List Term)) (s : List Term) (ss : List (List Term))
    (hl : evalAst dot l = .ok (.set sl))
    (hls : ls.map (evalAst dot) = sls.map (fun x => Except.ok (Val.set x)))
    (hp : evalAst dot p = .ok (.set s))
    (hps : ps.map (evalAst dot) = ss.map (fun x => Except.ok (Val.set x))) :
    evalAst dot (.node tilde [partsAst l ls, partsAst p ps])
      = .ok (mkStruct [("lhs", partsVal sl sls), ("rhs", partsVal s ss)] none) :=
  eval_tilde dot _ _ _ _ (eval_partsAst dot ls sls l sl hl hls) (eval_partsAst dot ps ss p s hp hps)

/-- **the documented structure of a formula**, on the documented trees of `Sum`s: if every part
evaluates to a term set, then `l₀ | … | lₘ ~ p₀ | … | pₙ` evaluates to
`{lhs: side(l), rhs: side(p)}`, a side being the term set of its single part or the tuple of its
parts' term sets, in order -/
theorem eval_toplevel_doc (dot : DotCtx) (l : Sum) (ltail : List Sum) (p : Sum) (tail : List Sum)
    (sl : List Term) (sls : List (List Term)) (s : List Term) (ss : List (List Term))
    (hl : evalAst dot (strip l.toE) = .ok (.set sl))
    (hls : ltail.map (fun q => evalAst dot (strip q.toE)) = sls.map (fun x => Except.ok (Val.set x)))
    (hp : evalAst dot (strip p.toE) = .ok (.set s))
    (hps : tail.map (fun q => evalAst dot (strip q.toE)) = ss.map (fun x => Except.ok (Val.set x))) :
    evalAst dot (.node tilde [partsTree l ltail, partsTree p tail])
      = .ok (mkStruct [("lhs", partsVal sl sls), ("rhs", partsVal s ss)] none) :=
  eval_tilde dot _ _ _ _ (eval_partsTree dot l ltail sl sls hl hls) (eval_partsTree dot p tail s ss hp hps)

/-! ### the parts of a formula evaluate to term sets (or fail with the parsing error) -/

open FormulaicVerif.Proofs.C14 (Good KnownOp PlainE eval_plain_good)

theorem addOp_known (op : AddOp) : KnownOp op.spec 2 := by cases op <;> exact ⟨rfl, Or.inl ⟨rfl, rfl, by decide⟩⟩
theorem addOp_known_unary (op : AddOp) : KnownOp op.unary 1 := by
  cases op <;> exact ⟨rfl, Or.inr ⟨rfl, rfl, by decide⟩⟩
theorem mulOp_known (op : MulOp) : KnownOp op.spec 2 := by cases op <;> exact ⟨rfl, Or.inl ⟨rfl, rfl, by decide⟩⟩
theorem powOp_known (op : PowOp) : KnownOp op.spec 2 := by cases op <;> exact ⟨rfl, Or.inl ⟨rfl, rfl, by decide⟩⟩
theorem colon_known : KnownOp colonSpec 2 := ⟨rfl, Or.inl ⟨rfl, rfl, by decide⟩⟩

mutual
theorem Atom.plainE : ∀ x : Atom, PlainE x.toE
  | .tok _ _ => trivial
  | .paren s => Sum.plainE s
theorem Pow.plainE : ∀ x : Pow, PlainE x.toE
  | .atom x => Atom.plainE x
  | .pow op x p => ⟨powOp_known op, Atom.plainE x, Pow.plainE p⟩
theorem Inter.plainE : ∀ x : Inter, PlainE x.toE
  | .pow p => Pow.plainE p
  | .inter i p => ⟨colon_known, Inter.plainE i, Pow.plainE p⟩
theorem Prod.plainE : ∀ x : Prod, PlainE x.toE
  | .inter i => Inter.plainE i
  | .mul op p i => ⟨mulOp_known op, Prod.plainE p, Inter.plainE i⟩
theorem Sum.plainE : ∀ x : Sum, PlainE x.toE
  | .first none p => Prod.plainE p
  | .first (some sg) p => ⟨addOp_known_unary sg, Prod.plainE p⟩
  | .add op s p => ⟨addOp_known op, Sum.plainE s, Prod.plainE p⟩
end

/-- every `Sum` of the documented grammar evaluates to a plain term set, or fails with the parsing
error (never a tuple, a structure or an internal exception): the hypothesis "evaluates to a term
set" of `eval_toplevel` is the only way a part can succeed -/
theorem sum_eval_good (dot : DotCtx) (s : Sum) : Good (evalAst dot (strip s.toE)) :=
  eval_plain_good dot s.toE (Sum.plainE s)

theorem evalArgs_err_first (dot : DotCtx) (a : Ast) (as : List Ast) (e : ParseErr)
    (h : evalAst dot a = .error e) : evalAst.evalArgs dot (a :: as) = .error e := by
  simp only [evalArgs_cons, h]

theorem evalArgs_err_second (dot : DotCtx) (a b : Ast) (as : List Ast) (v : Val) (e : ParseErr)
    (ha : evalAst dot a = .ok v) (h : evalAst dot b = .error e) :
    evalAst.evalArgs dot (a :: b :: as) = .error e := by
  simp only [evalArgs_cons, ha, h]

theorem evalAst_args_err (dot : DotCtx) (o : OpSpec) (args : List Ast) (e : ParseErr)
    (h : evalAst.evalArgs dot args = .error e) : evalAst dot (.node o args) = .error e := by
  rw [evalAst_node, h]

/-- a side of a formula, without hypotheses: either every part evaluates to a term set and the side
evaluates to `partsVal` of them, or the side fails with the parsing error -/
theorem eval_parts_total (dot : DotCtx) : ∀ (tail : List Sum) (p : Sum),
    (∃ s ss, evalAst dot (strip p.toE) = .ok (.set s) ∧
        tail.map (fun q => evalAst dot (strip q.toE)) = ss.map (fun x => Except.ok (Val.set x)) ∧
        evalAst dot (partsTree p tail) = .ok (partsVal s ss)) ∨
    (∃ w, evalAst dot (partsTree p tail) = .error (.syntax w))
  | [], p => by
    rcases sum_eval_good dot p with ⟨s, h⟩ | ⟨w, h⟩
    · exact Or.inl ⟨s, [], h, rfl, h⟩
    · exact Or.inr ⟨w, h⟩
  | q :: qs, p => by
    rcases sum_eval_good dot p with ⟨s, h⟩ | ⟨w, h⟩
    · rcases eval_parts_total dot qs q with ⟨x, ss, hq, hqs, hv⟩ | ⟨w, hw⟩
      · have hs : (q :: qs).map (fun q => evalAst dot (strip q.toE))
            = (x :: ss).map (fun x => Except.ok (Val.set x)) := by
          simp only [List.map_cons, hq, hqs]
        exact Or.inl ⟨s, x :: ss, h, hs, eval_partsTree dot p (q :: qs) s (x :: ss) h hs⟩
      · exact Or.inr ⟨w, evalAst_args_err dot _ _ _ (evalArgs_err_second dot _ _ _ _ _ h hw)⟩
    · exact Or.inr ⟨w, evalAst_args_err dot _ _ _ (evalArgs_err_first dot _ _ _ h)⟩

/-- a whole two-sided formula, without hypotheses: the documented structure, or the parsing error -/
theorem eval_toplevel_total (dot : DotCtx) (l : Sum) (ltail : List Sum) (p : Sum) (tail : List Sum) :
    (∃ sl sls s ss, evalAst dot (strip l.toE) = .ok (.set sl) ∧
        ltail.map (fun q => evalAst dot (strip q.toE)) = sls.map (fun x => Except.ok (Val.set x)) ∧
        evalAst dot (strip p.toE) = .ok (.set s) ∧
        tail.map (fun q => evalAst dot (strip q.toE)) = ss.map (fun x => Except.ok (Val.set x)) ∧
        evalAst dot (.node tilde [partsTree l ltail, partsTree p tail])
          = .ok (.struct [("lhs", partsVal sl sls), ("rhs", partsVal s ss)])) ∨
    (∃ w, evalAst dot (.node tilde [partsTree l ltail, partsTree p tail]) = .error (.syntax w)) := by
  rcases eval_parts_total dot ltail l with ⟨sl, sls, hl, hls, hL⟩ | ⟨w, hw⟩
  · rcases eval_parts_total dot tail p with ⟨s, ss, hp, hps, hR⟩ | ⟨w, hw⟩
    · refine Or.inl ⟨sl, sls, s, ss, hl, hls, hp, hps, ?_⟩
      rw [eval_tilde dot _ _ _ _ hL hR, mkStruct_lhs_rhs]
    · exact Or.inr ⟨w, evalAst_args_err dot _ _ _ (evalArgs_err_second dot _ _ _ _ _ hL hw)⟩
  · exact Or.inr ⟨w, evalAst_args_err dot _ _ _ (evalArgs_err_first dot _ _ _ hw)⟩

/-! ### examples and corners -/

section Examples

private def nm (s : String) : Tok := { text := s.toList, kind := some .name }
private def v (s : String) : Sum := .first none (.inter (.pow (.atom (.tok (nm s) ⟨by simp [nm], by simp [nm]⟩))))
private def op (s : String) : Tok := opTok s.toList
private def plus : OpSpec := Spec.Wilkinson.bin "+" 100 .left

/-- `y ~ a + b | c` is `~(y, |(a + b, c))`, by the theorem … -/
example (ms : Bool) :
    tokensToAst (documentedTable true true ms) [nm "y", op "~", nm "a", op "+", nm "b", op "|", nm "c"]
      = .ok (some (.node tilde [.leaf (nm "y"),
          .node bar [.node plus [.leaf (nm "a"), .leaf (nm "b")], .leaf (nm "c")]])) :=
  twosided_parses_doc true ms (v "y") [] (.add .plus (v "a") (.inter (.pow (.atom (.tok (nm "b") ⟨by simp [nm], by simp [nm]⟩))))) [v "c"]
    (Or.inr rfl)

/-- … and by running the model -/
example :
    tokensToAst (documentedTable true true false) [nm "y", op "~", nm "a", op "+", nm "b", op "|", nm "c"]
      = .ok (some (.node tilde [.leaf (nm "y"),
          .node bar [.node plus [.leaf (nm "a"), .leaf (nm "b")], .leaf (nm "c")]])) := by rfl

/-- CORNER: a chain of parts nests to the RIGHT — `a | b | c` is `|(a, |(b, c))`: `|` has
associativity `None`, and an operator of equal precedence is only popped by a LEFT-associative one -/
theorem bar_chain_right_nested (ts ms : Bool) :
    tokensToAst (documentedTable ts true ms) [nm "a", op "|", nm "b", op "|", nm "c"]
      = .ok (some (.node bar [.leaf (nm "a"), .node bar [.leaf (nm "b"), .leaf (nm "c")]])) :=
  multipart_parses_doc ts true ms (v "a") [v "b", v "c"] (Or.inr rfl)

/-- … in particular NOT the left-nested tree -/
example : tokensToAst (documentedTable true true false) [nm "a", op "|", nm "b", op "|", nm "c"]
      ≠ .ok (some (.node bar [.node bar [.leaf (nm "a"), .leaf (nm "b")], .leaf (nm "c")])) := by
  rw [bar_chain_right_nested true false]
  intro h
  simp at h

/-- a multi-part LEFT-hand side is accepted: `y | z ~ a | b` is `~(|(y, z), |(a, b))` (the context of
`~` only contains pending operators of precedence ≤ -100, the pending `|` has -50) -/
example (ms : Bool) :
    tokensToAst (documentedTable true true ms) [nm "y", op "|", nm "z", op "~", nm "a", op "|", nm "b"]
      = .ok (some (.node tilde [.node bar [.leaf (nm "y"), .leaf (nm "z")],
          .node bar [.leaf (nm "a"), .leaf (nm "b")]])) :=
  twosided_parses_doc true ms (v "y") [v "z"] (v "a") [v "b"] (Or.inr rfl)

end Examples

end FormulaicVerif.Proofs.C01TopLevel
