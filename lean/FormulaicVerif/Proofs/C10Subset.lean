import FormulaicVerif.Proofs.C10Vars
/-! Helper lemmas for C10: `subset` and `get_term_indices`. -/
namespace FormulaicVerif.Proofs.C10
open FormulaicVerif.Model.SpecMeta

/-- `Pointwise R xs ys`: the lists have equal length and `R` relates them position by position -/
inductive Pointwise {α β} (R : α → β → Prop) : List α → List β → Prop
  | nil : Pointwise R [] []
  | cons {a b as bs} : R a b → Pointwise R as bs → Pointwise R (a :: as) (b :: bs)

theorem Pointwise.imp {α β} {R S : α → β → Prop} (hRS : ∀ a b, R a b → S a b) {xs : List α} {ys : List β}
    (h : Pointwise R xs ys) : Pointwise S xs ys := by
  induction h with
  | nil => exact .nil
  | cons hx _ ih => exact .cons (hRS _ _ hx) ih

theorem Pointwise.exists_left {α β} {R : α → β → Prop} {xs : List α} {ys : List β}
    (h : Pointwise R xs ys) {x : α} (hx : x ∈ xs) : ∃ y ∈ ys, R x y := by
  induction h with
  | nil => cases hx
  | cons hab _ ih =>
    rcases List.mem_cons.mp hx with rfl | hx
    · exact ⟨_, by simp, hab⟩
    · obtain ⟨y, hy, hr⟩ := ih hx
      exact ⟨y, List.mem_cons_of_mem _ hy, hr⟩

theorem Pointwise.exists_right {α β} {R : α → β → Prop} {xs : List α} {ys : List β}
    (h : Pointwise R xs ys) {y : β} (hy : y ∈ ys) : ∃ x ∈ xs, R x y := by
  induction h with
  | nil => cases hy
  | cons hab _ ih =>
    rcases List.mem_cons.mp hy with rfl | hy
    · exact ⟨_, by simp, hab⟩
    · obtain ⟨x, hx, hr⟩ := ih hy
      exact ⟨x, List.mem_cons_of_mem _ hx, hr⟩

theorem Pointwise.length_eq {α β} {R : α → β → Prop} {xs : List α} {ys : List β}
    (h : Pointwise R xs ys) : xs.length = ys.length := by
  induction h with
  | nil => rfl
  | cons _ _ ih => simp [ih]

theorem mapM_ok_inv {α β ε} (f : α → Except ε β) (l : List α) (out : List β)
    (h : l.mapM f = .ok out) : Pointwise (fun x y => f x = .ok y) l out := by
  induction l generalizing out with
  | nil =>
    simp only [List.mapM_nil, pure, Except.pure, Except.ok.injEq] at h
    subst h; exact .nil
  | cons a l ih =>
    rw [List.mapM_cons] at h
    cases ha : f a with
    | error e => rw [ha] at h; cases h
    | ok y =>
      rw [ha] at h
      cases hl : l.mapM f with
      | error e => rw [hl] at h; cases h
      | ok ys =>
        rw [hl] at h
        simp only [bind, Except.bind, pure, Except.pure, Except.ok.injEq] at h
        subst h
        exact .cons ha (ih ys hl)

/-! ### set of the requested terms -/

def sameTerm (x : Term) (u : Term) : Bool := keyMatches u (.term x)

theorem addTerm_any (s : List Term) (t x : Term) :
    (addTerm s t).any (sameTerm x) = (s.any (sameTerm x) || (sortStrs t == sortStrs x)) := by
  unfold addTerm
  by_cases h : s.any (fun u => keyMatches u (.term t)) = true
  · simp only [h, if_true]
    by_cases hx : sortStrs t = sortStrs x
    · obtain ⟨u, hu, hm⟩ := List.any_eq_true.mp h
      have : s.any (sameTerm x) = true := by
        rw [List.any_eq_true]
        refine ⟨u, hu, ?_⟩
        simp only [sameTerm, keyMatches_term, beq_iff_eq] at hm ⊢
        exact hm.trans hx
      simp [this]
    · simp [hx]
  · simp only [h, Bool.false_eq_true, if_false, List.any_append, List.any_cons, List.any_nil, Bool.or_false]
    simp [sameTerm, keyMatches_term]

theorem foldl_addTerm_any (terms acc : List Term) (x : Term) :
    (terms.foldl addTerm acc).any (sameTerm x) =
      (acc.any (sameTerm x) || terms.any (fun t => sortStrs t == sortStrs x)) := by
  induction terms generalizing acc with
  | nil => simp
  | cons t ts ih => simp [List.foldl_cons, ih, addTerm_any, Bool.or_assoc]

/-! ### the dict `term_structure` of `subset` -/

theorem subsetDict_foldl (p : Row → Bool) (rs : Structure) (d : TDict Row)
    (hd : ∀ e ∈ d, ∀ r ∈ rs, sortStrs e.1 ≠ sortStrs r.term) (h : DistinctTerms rs) :
    rs.foldl (fun d s => if p s then d.insert s.term s else d) d
      = d ++ (rs.filter p).map (fun s => (s.term, s)) := by
  induction rs generalizing d with
  | nil => simp
  | cons r rs ih =>
    have hp := List.pairwise_cons.mp h
    simp only [List.foldl_cons, List.filter_cons]
    by_cases hpr : p r = true
    · simp only [hpr, if_true]
      rw [TDict.insert_fresh d r.term _ (fun e he => hd e he r (by simp)), ih]
      · simp
      · intro e he s hs
        rcases List.mem_append.mp he with he | he
        · exact hd e he s (List.mem_cons_of_mem _ hs)
        · simp only [List.mem_singleton] at he
          subst he
          exact hp.1 s hs
      · exact hp.2
    · simp only [hpr, Bool.false_eq_true, if_false]
      exact ih d (fun e he s hs => hd e he s (List.mem_cons_of_mem _ hs)) hp.2

theorem restricted_ok {F spec : List Term} {terms : List Term} (h : restricted F spec = .ok terms) :
    terms = spec := by
  unfold restricted at h
  split at h
  · cases h; rfl
  · cases h

/-- `subset` returns, for every requested term in order, the parent's row of that term -/
theorem subset_rows (F : List Term) (st : Structure) (spec : List Term) (sub : Structure)
    (h : DistinctTerms st) (hs : subset F st spec = .ok sub) :
    restricted F spec = .ok spec ∧
    Pointwise (fun t r => r ∈ st ∧ sortStrs r.term = sortStrs t) spec sub := by
  unfold subset at hs
  cases hr : restricted F spec with
  | error e => rw [hr] at hs; cases hs
  | ok terms =>
    have := restricted_ok hr
    subst this
    refine ⟨rfl, ?_⟩
    rw [hr] at hs
    simp only [bind, Except.bind] at hs
    have hf := mapM_ok_inv _ _ _ hs
    refine hf.imp ?_
    intro t r hget
    unfold TDict.getPlain at hget
    cases hl : TDict.lookup
        (st.foldl (fun d s => if (terms.foldl addTerm []).any (fun u => keyMatches u (.term s.term)) = true
          then d.insert s.term s else d) []) (.term t) with
    | none => rw [hl] at hget; cases hget
    | some v =>
      rw [hl] at hget
      cases hget
      rw [subsetDict_foldl _ st [] (by simp) h] at hl
      unfold TDict.lookup at hl
      obtain ⟨e, he, rfl⟩ := Option.map_eq_some_iff.mp hl
      have hmem := List.mem_of_find?_eq_some he
      have hpe := List.find?_some he
      simp only [List.nil_append, List.mem_map] at hmem
      obtain ⟨s, hs', rfl⟩ := hmem
      simp only [keyMatches_term, beq_iff_eq] at hpe
      exact ⟨(List.mem_filter.mp hs').1, hpe⟩

/-! ### names at a block -/

theorem map_getElem?_range' {α} (l : List α) (k n : Nat) (h : k + n ≤ l.length) :
    (List.range' k n).map (fun i => l[i]?) = ((l.drop k).take n).map some := by
  induction n generalizing k with
  | zero => simp
  | succ n ih =>
    have hk : k < l.length := by omega
    rw [List.range'_succ, List.map_cons, ih (k + 1) (by omega), List.drop_eq_getElem_cons hk]
    rw [List.take_succ_cons, List.map_cons, List.getElem?_eq_getElem hk]

theorem block_names (pre : List Str) (k : Nat) (st : Structure) (hk : pre.length = k)
    {b : Row × Nat} (hb : b ∈ blocks k st) :
    (List.range' b.2 b.1.columns.length).map (fun i => (pre ++ columnNames st)[i]?)
      = b.1.columns.map some := by
  induction st generalizing k pre with
  | nil => cases hb
  | cons r rs ih =>
    simp only [blocks, List.mem_cons] at hb
    rcases hb with rfl | hb
    · rw [map_getElem?_range' _ _ _ (by simp [columnNames_cons, hk])]
      rw [columnNames_cons, ← hk, List.drop_left, List.take_left]
    · have := ih (pre ++ r.columns) (k + r.columns.length) (by simp [hk]) hb
      rw [columnNames_cons, ← List.append_assoc]
      exact this

theorem get_term_eq (st : Structure) (h : DistinctTerms st) {b : Row × Nat} (hb : b ∈ blocks 0 st)
    (u : Term) (hu : sortStrs u = sortStrs b.1.term) :
    (termIndices st).get (.term u) = .ok (List.range' b.2 b.1.columns.length) ∧
    rngD st u = List.range' b.2 b.1.columns.length := by
  have hi : termIndices st = rowDict (fun b => List.range' b.2 b.1.columns.length) 0 st :=
    termIndices_eq st h
  have hl := rowDict_lookup_term (fun b => List.range' b.2 b.1.columns.length) h hb u hu
  constructor
  · rw [hi]; unfold TDict.get; rw [hl]
  · unfold rngD; rw [hi, hl]; rfl

theorem subset_names (F : List Term) (st : Structure) (spec : List Term) (sub : Structure)
    (h : DistinctTerms st) (hs : subset F st spec = .ok sub) :
    ∃ idx, getTermIndices F st spec = .ok idx ∧
      idx.map (fun i => (columnNames st)[i]?) = (columnNames sub).map some := by
  obtain ⟨hr, hf⟩ := subset_rows F st spec sub h hs
  refine ⟨(spec.map (rngD st)).flatten, ?_, ?_⟩
  · unfold getTermIndices
    rw [hr]
    simp only [bind, Except.bind]
    rw [mapM_ok_of_forall _ (rngD st)]
    · rfl
    · intro t ht
      obtain ⟨r, _, hr', hsr⟩ := hf.exists_left ht
      obtain ⟨b, hb, rfl⟩ := mem_blocks_of_row 0 hr'
      obtain ⟨g1, g2⟩ := get_term_eq st h hb t hsr.symm
      rw [g1, g2]
  · clear hs hr
    induction hf with
    | nil => simp [columnNames]
    | @cons t r ts rs hx _ ih =>
      obtain ⟨hr', hsr⟩ := hx
      obtain ⟨b, hb, rfl⟩ := mem_blocks_of_row 0 hr'
      obtain ⟨_, g2⟩ := get_term_eq st h hb t hsr.symm
      simp only [List.map_cons, List.flatten_cons, List.map_append, columnNames_cons, ih, g2]
      congr 1
      have := block_names [] 0 st rfl hb
      simpa using this

end FormulaicVerif.Proofs.C10
