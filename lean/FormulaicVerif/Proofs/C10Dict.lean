import FormulaicVerif.Model.SpecMeta
/-! Helper lemmas for C10: Python-dict models (`TDict`, `SDict`), term blocks, lookups. -/
namespace FormulaicVerif.Proofs.C10
open FormulaicVerif.Model.SpecMeta

/-! ### keys -/

theorem keyMatches_term (k t : Term) : keyMatches k (.term t) = (sortStrs k == sortStrs t) := by
  unfold keyMatches termEq Key.hash termHash
  by_cases h : sortStrs k = sortStrs t
  · simp [h]
  · simp [h]

theorem find?_unique {α} (p : α → Bool) (l : List α) (x : α) (hx : x ∈ l) (px : p x = true)
    (uniq : ∀ y ∈ l, p y = true → y = x) : l.find? p = some x := by
  induction l with
  | nil => cases hx
  | cons a l ih =>
    by_cases pa : p a = true
    · have : a = x := uniq a (by simp) pa
      subst this
      simp [List.find?, pa]
    · have hne : a ≠ x := fun e => pa (e ▸ px)
      have hx' : x ∈ l := by
        rcases List.mem_cons.mp hx with e | h
        · exact absurd e.symm hne
        · exact h
      simp only [List.find?, Bool.not_eq_true] at pa ⊢
      rw [pa]
      exact ih hx' (fun y hy => uniq y (List.mem_cons_of_mem _ hy))

/-! ### `TDict.insert` on a dict that does not hold the term -/

theorem TDict.insert_fresh {α} (d : TDict α) (t : Term) (v : α)
    (h : ∀ e ∈ d, sortStrs e.1 ≠ sortStrs t) : d.insert t v = d ++ [(t, v)] := by
  induction d with
  | nil => rfl
  | cons e d ih =>
    obtain ⟨k, w⟩ := e
    have hk : sortStrs k ≠ sortStrs t := h (k, w) (by simp)
    simp only [TDict.insert, keyMatches_term, beq_iff_eq, hk, if_false, List.cons_append]
    rw [ih (fun e he => h e (List.mem_cons_of_mem _ he))]

/-! ### blocks -/

/-- the rows with the offset of their first column -/
def blocks : Nat → Structure → List (Row × Nat)
  | _, [] => []
  | k, r :: rs => (r, k) :: blocks (k + r.columns.length) rs

/-- no two rows hold equal terms -/
def DistinctTerms (st : Structure) : Prop :=
  st.Pairwise (fun r s => sortStrs r.term ≠ sortStrs s.term)

instance (st : Structure) : Decidable (DistinctTerms st) := by unfold DistinctTerms; infer_instance

theorem blocks_map_fst (k : Nat) (st : Structure) : (blocks k st).map (·.1) = st := by
  induction st generalizing k with
  | nil => rfl
  | cons r rs ih => simp [blocks, ih]

theorem mem_blocks_row {k : Nat} {st : Structure} {b : Row × Nat} (h : b ∈ blocks k st) : b.1 ∈ st := by
  have := List.mem_map_of_mem (f := (·.1)) h
  rwa [blocks_map_fst] at this

theorem columnNames_cons (r : Row) (rs : Structure) :
    columnNames (r :: rs) = r.columns ++ columnNames rs := by simp [columnNames]

theorem blocks_ranges (k : Nat) (st : Structure) :
    (blocks k st).flatMap (fun b => List.range' b.2 b.1.columns.length)
      = List.range' k (columnNames st).length := by
  induction st generalizing k with
  | nil => simp [blocks, columnNames]
  | cons r rs ih =>
    simp only [blocks, List.flatMap_cons, ih, columnNames_cons, List.length_append]
    have := @List.range'_append k r.columns.length (columnNames rs).length 1
    simp

/-- the dict entries that `term_indices` holds when the terms are distinct -/
def entries (k : Nat) (st : Structure) : TDict (List Nat) :=
  (blocks k st).map (fun b => (b.1.term, List.range' b.2 b.1.columns.length))

theorem termIndicesAux_eq (k : Nat) (st : Structure) (d : TDict (List Nat))
    (hd : ∀ e ∈ d, ∀ r ∈ st, sortStrs e.1 ≠ sortStrs r.term) (h : DistinctTerms st) :
    termIndicesAux k st d = d ++ entries k st := by
  induction st generalizing k d with
  | nil => simp [termIndicesAux, entries, blocks]
  | cons r rs ih =>
    have hp := List.pairwise_cons.mp h
    simp only [termIndicesAux]
    rw [TDict.insert_fresh d r.term _ (fun e he => hd e he r (by simp))]
    rw [ih]
    · simp [entries, blocks]
    · intro e he s hs
      rcases List.mem_append.mp he with he | he
      · exact hd e he s (List.mem_cons_of_mem _ hs)
      · simp only [List.mem_singleton] at he
        subst he
        exact hp.1 s hs
    · exact hp.2

theorem termIndices_eq (st : Structure) (h : DistinctTerms st) : termIndices st = entries 0 st := by
  unfold termIndices
  rw [termIndicesAux_eq 0 st [] (by simp) h]
  simp

theorem sliceOf_range' (s n : Nat) : sliceOf (List.range' s n) = if n = 0 then (0, 0) else (s, s + n) := by
  cases n with
  | zero => rfl
  | succ n =>
    have hne : List.range' s (n + 1) ≠ [] := by simp
    have hl : (List.range' s (n + 1)).getLast hne = s + n := by
      simp [List.getLast_range']
    simp only [List.range'_succ] at hne hl ⊢
    simp only [sliceOf, hl]
    simp
    omega

theorem blocks_unique {k : Nat} {st : Structure} (h : DistinctTerms st) {b b' : Row × Nat}
    (hb : b ∈ blocks k st) (hb' : b' ∈ blocks k st)
    (e : sortStrs b.1.term = sortStrs b'.1.term) : b = b' := by
  induction st generalizing k with
  | nil => cases hb
  | cons r rs ih =>
    have hp := List.pairwise_cons.mp h
    simp only [blocks, List.mem_cons] at hb hb'
    rcases hb with rfl | hb <;> rcases hb' with rfl | hb'
    · rfl
    · exact absurd e (hp.1 _ (mem_blocks_row hb'))
    · exact absurd e.symm (hp.1 _ (mem_blocks_row hb))
    · exact ih hp.2 hb hb'

/-- printed forms of the rows' terms are pairwise different -/
def DistinctPrinted (st : Structure) : Prop := (st.map (fun r => termRepr r.term)).Nodup

theorem blocks_unique_repr {k : Nat} {st : Structure} (h : DistinctPrinted st) {b b' : Row × Nat}
    (hb : b ∈ blocks k st) (hb' : b' ∈ blocks k st)
    (e : termRepr b.1.term = termRepr b'.1.term) : b = b' := by
  induction st generalizing k with
  | nil => cases hb
  | cons r rs ih =>
    unfold DistinctPrinted at h
    simp only [List.map_cons, List.nodup_cons, List.mem_map, not_exists, not_and] at h
    simp only [blocks, List.mem_cons] at hb hb'
    rcases hb with rfl | hb <;> rcases hb' with rfl | hb'
    · rfl
    · exact absurd e.symm (h.1 _ (mem_blocks_row hb'))
    · exact absurd e (h.1 _ (mem_blocks_row hb))
    · exact ih h.2 hb hb'

instance (st : Structure) : Decidable (DistinctPrinted st) := by unfold DistinctPrinted; infer_instance

instance {ε α} [DecidableEq ε] [DecidableEq α] : DecidableEq (Except ε α) := fun a b =>
  match a, b with
  | .ok x, .ok y => if h : x = y then isTrue (by rw [h]) else isFalse (fun e => h (by cases e; rfl))
  | .error x, .error y => if h : x = y then isTrue (by rw [h]) else isFalse (fun e => h (by cases e; rfl))
  | .ok _, .error _ => isFalse (fun e => by cases e)
  | .error _, .ok _ => isFalse (fun e => by cases e)

/-- a dict holding one entry per row, keyed by the row's term, in row order -/
def rowDict {α} (f : Row × Nat → α) (k : Nat) (st : Structure) : TDict α :=
  (blocks k st).map (fun b => (b.1.term, f b))

theorem rowDict_lookup_term {α} (f : Row × Nat → α) {k : Nat} {st : Structure} (h : DistinctTerms st)
    {b : Row × Nat} (hb : b ∈ blocks k st) (u : Term) (hu : sortStrs u = sortStrs b.1.term) :
    (rowDict f k st).lookup (.term u) = some (f b) := by
  unfold TDict.lookup
  rw [find?_unique _ _ (b.1.term, f b)]
  · rfl
  · exact List.mem_map_of_mem (f := fun b => (b.1.term, f b)) hb
  · simp [keyMatches_term, hu]
  · intro y hy py
    obtain ⟨b', hb', rfl⟩ := List.mem_map.mp hy
    simp only [keyMatches_term, beq_iff_eq] at py
    have : b' = b := blocks_unique h hb' hb (py.trans hu)
    rw [this]

theorem rowDict_lookup_term_none {α} (f : Row × Nat → α) {k : Nat} {st : Structure} (u : Term)
    (hu : ∀ r ∈ st, sortStrs r.term ≠ sortStrs u) :
    (rowDict f k st).lookup (.term u) = none := by
  unfold TDict.lookup
  rw [Option.map_eq_none_iff, List.find?_eq_none]
  intro y hy
  obtain ⟨b', hb', rfl⟩ := List.mem_map.mp hy
  simp only [keyMatches_term, beq_iff_eq]
  exact hu _ (mem_blocks_row hb')

theorem rowDict_get_str {α} (f : Row × Nat → α) {k : Nat} {st : Structure} (h : DistinctTerms st)
    (hp : DistinctPrinted st) {b : Row × Nat} (hb : b ∈ blocks k st)
    (hsplit : matchFactors (termRepr b.1.term) = b.1.term) :
    (rowDict f k st).get (.str (termRepr b.1.term)) = .ok (f b) := by
  unfold TDict.get
  cases hl : (rowDict f k st).lookup (.str (termRepr b.1.term)) with
  | some v =>
    simp only
    unfold TDict.lookup at hl
    obtain ⟨e, he, rfl⟩ := Option.map_eq_some_iff.mp hl
    have hmem := List.mem_of_find?_eq_some he
    have hpe := List.find?_some he
    obtain ⟨b', hb', rfl⟩ := List.mem_map.mp hmem
    simp only [keyMatches, termEq, hsplit, Bool.and_eq_true, beq_iff_eq] at hpe
    have : b' = b := blocks_unique h hb' hb hpe.2
    rw [this]
  | none =>
    simp only [TDict.byRepr]
    rw [find?_unique _ _ (b.1.term, f b)]
    · rfl
    · exact List.mem_map_of_mem (f := fun b => (b.1.term, f b)) hb
    · simp
    · intro y hy py
      obtain ⟨b', hb', rfl⟩ := List.mem_map.mp hy
      simp only [beq_iff_eq] at py
      have : b' = b := blocks_unique_repr hp hb' hb py
      rw [this]


end FormulaicVerif.Proofs.C10
