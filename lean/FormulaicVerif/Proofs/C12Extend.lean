import FormulaicVerif.Proofs.C12Contract
/-! Helper lemmas for C12 (not obligations): outside the knot range the natural design-matrix row
is the tangent line of the boundary piece (linear extrapolation, `extrapolation="extend"`). -/

namespace FormulaicVerif.Proofs.C12
open FormulaicVerif.Model.CubicSpline FormulaicVerif.Model.BSpline FormulaicVerif.Spec.CubicSpline

theorem foldl_min_mem (l : List Rat) : ∀ a, l.foldl min a = a ∨ l.foldl min a ∈ l := by
  induction l with
  | nil => intro a; simp
  | cons c t ih =>
    intro a
    rcases ih (min a c) with h | h
    · rcases min_choice a c with h' | h'
      · left; simp only [List.foldl_cons]; rw [h, h']
      · right; simp only [List.foldl_cons]; rw [h, h']; simp
    · right; simp only [List.foldl_cons]; exact List.mem_cons_of_mem _ h

theorem foldl_max_mem (l : List Rat) : ∀ a, l.foldl max a = a ∨ l.foldl max a ∈ l := by
  induction l with
  | nil => intro a; simp
  | cons c t ih =>
    intro a
    rcases ih (max a c) with h | h
    · rcases max_choice a c with h' | h'
      · left; simp only [List.foldl_cons]; rw [h, h']
      · right; simp only [List.foldl_cons]; rw [h, h']; simp
    · right; simp only [List.foldl_cons]; exact List.mem_cons_of_mem _ h

theorem minOf_sorted (l : List Rat) (hs : l.Pairwise (· < ·)) (h0 : 0 < l.length) :
    minOf l = some l[0] := by
  cases l with
  | nil => simp at h0
  | cons a t =>
    simp only [minOf, List.getElem_cons_zero, Option.some.injEq]
    rw [List.pairwise_cons] at hs
    rcases foldl_min_mem t a with h | h
    · exact h
    · exact absurd (foldl_min_le t a).1 (not_le.2 (hs.1 _ h))

theorem maxOf_sorted (l : List Rat) (hs : l.Pairwise (· < ·)) (h0 : 0 < l.length) :
    maxOf l = some (l[l.length - 1]'(by omega)) := by
  obtain ⟨mx, hmx⟩ := maxOf_isSome (l := l) (by intro h; simp [h] at h0)
  rw [hmx]
  congr 1
  have hmem : mx ∈ l := by
    cases l with
    | nil => simp at h0
    | cons a t =>
      simp only [maxOf, Option.some.injEq] at hmx
      subst hmx
      rcases foldl_max_mem t a with h | h
      · rw [h]; simp
      · exact List.mem_cons_of_mem _ h
  obtain ⟨i, hi, rfl⟩ := List.getElem_of_mem hmem
  have hle := le_maxOf hmx _ (List.getElem_mem (by omega : l.length - 1 < l.length))
  by_contra hne
  have : i < l.length - 1 := by
    rcases Nat.lt_or_ge i (l.length - 1) with h | h
    · exact h
    · exact absurd (by congr 1; omega) hne
  exact absurd hle (not_le.2 (List.pairwise_iff_getElem.1 hs i (l.length - 1) hi (by omega) this))

theorem searchsorted_below (l : List Rat) (x : ℚ) (h : ∀ b ∈ l, x ≤ b) : searchsorted l x = 0 := by
  unfold searchsorted
  rw [List.length_eq_zero_iff, List.filter_eq_nil_iff]
  intro b hb
  simp [not_lt.2 (h b hb)]

theorem searchsorted_above (l : List Rat) (x : ℚ) (h : ∀ b ∈ l, b < x) : searchsorted l x = l.length := by
  unfold searchsorted
  rw [List.filter_eq_self.2]
  intro b hb
  simp [h b hb]


/-- tangent line of a piece at its left / right end -/
def tangentL (p : Piece ℚ) (x : ℚ) : ℚ := p.val p.kl + p.d1 p.kl * (x - p.kl)
def tangentR (p : Piece ℚ) (x : ℚ) : ℚ := p.val p.kr + p.d1 p.kr * (x - p.kr)

/-- below the first knot the natural design-matrix row is the tangent line of the first piece
(given the natural end condition `F[0] = 0`) -/
theorem freeRow_nat_below (l : List Rat) (hs : l.Pairwise (· < ·)) (hn : 2 ≤ l.length)
    (F : List (List Rat)) (hF : F.length = l.length) (hFr : ∀ r ∈ F, r.length = l.length)
    (h0 : ∀ c, Ffn F 0 c = 0) (x : ℚ) (hx : x < l[0]) :
    freeRow l false F x = .ok ((List.range l.length).map (fun c => tangentL (crPiece l F 0 c) x)) := by
  have hs' := List.pairwise_iff_getElem.1 hs
  have hall : ∀ b ∈ l, x ≤ b := by
    intro b hb
    obtain ⟨i, hi, rfl⟩ := List.getElem_of_mem hb
    rcases Nat.eq_zero_or_pos i with rfl | hpos
    · exact le_of_lt hx
    · exact le_of_lt (lt_trans hx (hs' 0 i (by omega) hi hpos))
  have hlb : lowerBound l x = 0 := by
    unfold lowerBound; simp [searchsorted_below l x hall]
  have hmn := minOf_sorted l hs (by omega)
  have hmx := maxOf_sorted l hs (by omega)
  have hxm : ¬ (x > l[l.length - 1]) := not_lt.2 (hall _ (List.getElem_mem _))
  unfold freeRow
  simp only [Bool.false_eq_true, if_false]
  unfold freeRowCore baseFunctions
  simp only [hlb, List.getElem?_eq_getElem (by omega : 0 < l.length),
    List.getElem?_eq_getElem (by omega : 0 + 1 < l.length), hmn, hmx, hxm, hx, if_true, if_false,
    Bool.false_and]
  obtain ⟨F0, hF0⟩ : ∃ r, F[0]? = some r := ⟨F[0], List.getElem?_eq_getElem (by omega)⟩
  obtain ⟨F1, hF1⟩ : ∃ r, F[0 + 1]? = some r := ⟨F[0 + 1], List.getElem?_eq_getElem (by omega)⟩
  have l0 : F0.length = l.length := hFr _ (List.mem_of_getElem? hF0)
  have l1 : F1.length = l.length := hFr _ (List.mem_of_getElem? hF1)
  simp only [Bool.false_eq_true, if_false, hF0, hF1, l0, l1, and_self, if_true]
  rw [combine_eq_map _ _ _ _ _ _ l0 l1]
  congr 1
  apply List.map_congr_left
  intro c _
  have hh : l[0 + 1] - l[0] ≠ 0 := sub_ne_zero.2 (ne_of_gt (hs' 0 1 (by omega) (by omega) (by omega)))
  have z : F0.getD c 0 = 0 := by rw [← Ffn_eq F 0 c F0 hF0]; exact h0 c
  rw [z, ← Ffn_eq F (0 + 1) c F1 hF1]
  simp only [tangentL, crPiece, Piece.val, Piece.d1, Piece.h, knotFn_eq l 0 (by omega),
    knotFn_eq l (0 + 1) (by omega), h0 c]
  field_simp
  ring

/-- above the last knot the natural design-matrix row is the tangent line of the last piece
(given the natural end condition `F[n-1] = 0`) -/
theorem freeRow_nat_above (l : List Rat) (hs : l.Pairwise (· < ·)) (hn : 2 ≤ l.length)
    (F : List (List Rat)) (hF : F.length = l.length) (hFr : ∀ r ∈ F, r.length = l.length)
    (hlast : ∀ c, Ffn F (l.length - 1) c = 0) (x : ℚ) (hx : l[l.length - 1] < x) :
    freeRow l false F x
      = .ok ((List.range l.length).map (fun c => tangentR (crPiece l F (l.length - 2) c) x)) := by
  have hs' := List.pairwise_iff_getElem.1 hs
  have hall : ∀ b ∈ l, b < x := by
    intro b hb
    obtain ⟨i, hi, rfl⟩ := List.getElem_of_mem hb
    rcases Nat.lt_or_ge i (l.length - 1) with h | h
    · exact lt_trans (hs' i (l.length - 1) hi (by omega) h) hx
    · have : i = l.length - 1 := by omega
      subst this; exact hx
  have hlb : lowerBound l x = l.length - 2 := by
    unfold lowerBound
    have : l.length ≠ 0 := by omega
    simp [searchsorted_above l x hall, this]
  have hmn := minOf_sorted l hs (by omega)
  have hmx := maxOf_sorted l hs (by omega)
  have hxm : ¬ (x < l[0]) := not_lt.2 (le_of_lt (hall _ (List.getElem_mem _)))
  have e1 : l.length - 2 + 1 = l.length - 1 := by omega
  unfold freeRow
  simp only [Bool.false_eq_true, if_false]
  unfold freeRowCore baseFunctions
  simp only [hlb, List.getElem?_eq_getElem (by omega : l.length - 2 < l.length),
    List.getElem?_eq_getElem (by omega : l.length - 2 + 1 < l.length), hmn, hmx, hxm,
    show x > l[l.length - 1] from hx, if_true, if_false, Bool.false_and]
  obtain ⟨F0, hF0⟩ : ∃ r, F[l.length - 2]? = some r := ⟨F[l.length - 2], List.getElem?_eq_getElem (by omega)⟩
  obtain ⟨F1, hF1⟩ : ∃ r, F[l.length - 2 + 1]? = some r :=
    ⟨F[l.length - 2 + 1], List.getElem?_eq_getElem (by omega)⟩
  have l0 : F0.length = l.length := hFr _ (List.mem_of_getElem? hF0)
  have l1 : F1.length = l.length := hFr _ (List.mem_of_getElem? hF1)
  simp only [Bool.false_eq_true, if_false, hF0, hF1, l0, l1, and_self, if_true]
  rw [combine_eq_map _ _ _ _ _ _ l0 l1]
  congr 1
  apply List.map_congr_left
  intro c _
  have hh : l[l.length - 2 + 1] - l[l.length - 2] ≠ 0 :=
    sub_ne_zero.2 (ne_of_gt (hs' (l.length - 2) (l.length - 2 + 1) (by omega) (by omega) (by omega)))
  have hz : Ffn F (l.length - 2 + 1) c = 0 := by rw [e1]; exact hlast c
  have z : F1.getD c 0 = 0 := by rw [← Ffn_eq F (l.length - 2 + 1) c F1 hF1]; exact hz
  rw [z, ← Ffn_eq F (l.length - 2) c F0 hF0]
  simp only [tangentR, crPiece, Piece.val, Piece.d1, Piece.h, knotFn_eq l (l.length - 2) (by omega),
    knotFn_eq l (l.length - 2 + 1) (by omega), hz]
  field_simp
  ring


end FormulaicVerif.Proofs.C12
