import FormulaicVerif.Proofs.C19St
/-! Helper lemmas for C19, part 2: `_simplify`. Not obligations. -/
namespace FormulaicVerif.Proofs.C19
open FormulaicVerif.Model.St FormulaicVerif.Spec.Containers

variable {α β γ δ : Type}

/-! ### `_simplify` -/
theorem collapse_nil (s : Items α) : collapse ([] : Items α) s = .node s := by simp [collapse]
theorem collapse_cons2 (a b : String × Val α) (c s : Items α) : collapse (a :: b :: c) s = .node s := by
  simp [collapse]
theorem collapse_single (k k' : String) (r r' : Val α) :
    collapse [(k, r)] [(k', r')] = if isRootKey k && !r.isTup then r' else .node [(k', r')] := by
  simp [collapse]

theorem simpObj_node_single (k : String) (r : Val α) :
    simpObj (.node [(k, r)]) = if isRootKey k && !r.isTup then simpObj r else .node [(k, simpObj r)] := by
  simp [simpObj, simpI, collapse_single]

theorem simpObj_node_nil : simpObj (.node ([] : Items α)) = .node [] := by
  simp [simpObj, simpI, collapse_nil]

theorem simpObj_node_cons2 (a b : String × Val α) (c : Items α) :
    simpObj (.node (a :: b :: c)) = .node (simpI (a :: b :: c)) := by
  obtain ⟨ka, va⟩ := a; obtain ⟨kb, vb⟩ := b
  simp [simpObj, simpI, collapse_cons2]


mutual
theorem isTup_simpObj : ∀ (v : Val α), (simpObj v).isTup = v.isTup
  | .leaf a => by simp [simpObj]
  | .tup vs => by simp [simpObj]
  | .node [] => by simp [simpObj_node_nil]
  | .node [(k, r)] => by
    rw [simpObj_node_single]
    cases hc : (isRootKey k && !r.isTup)
    · simp
    · have hr : r.isTup = false := by
        have := (Bool.and_eq_true _ _ ▸ hc).2
        simpa using this
      simp [isTup_simpObj r, hr]
  | .node (a :: b :: c) => by simp [simpObj_node_cons2]
end

mutual
theorem simpObj_idem : ∀ (v : Val α), simpObj (simpObj v) = simpObj v
  | .leaf a => by simp [simpObj]
  | .tup vs => by simp [simpObj, simpT_idem vs]
  | .node [] => by simp [simpObj_node_nil]
  | .node [(k, r)] => by
    rw [simpObj_node_single]
    cases hc : (isRootKey k && !r.isTup)
    · simp only [Bool.false_eq_true, if_false]
      rw [simpObj_node_single, isTup_simpObj r, hc]
      simp [simpObj_idem r]
    · simp only [if_true]; exact simpObj_idem r
  | .node (a :: b :: c) => by
    obtain ⟨ka, va⟩ := a; obtain ⟨kb, vb⟩ := b
    rw [simpObj_node_cons2]
    simp only [simpI]
    rw [simpObj_node_cons2]
    simp [simpI, simpObj_idem va, simpObj_idem vb, simpI_idem c]
theorem simpT_idem : ∀ (vs : List (Val α)), simpT (simpT vs) = simpT vs
  | [] => by simp [simpT]
  | v :: vs => by simp [simpT, simpObj_idem v, simpT_idem vs]
theorem simpI_idem : ∀ (kvs : Items α), simpI (simpI kvs) = simpI kvs
  | [] => by simp [simpI]
  | (k, v) :: r => by simp [simpI, simpObj_idem v, simpI_idem r]
end

mutual
theorem flatten_simpObj : ∀ (v : Val α), flatten (simpObj v) = flatten v
  | .leaf a => by simp [simpObj]
  | .tup vs => by simp [simpObj, flatten, flattenT_simpT vs]
  | .node [] => by simp [simpObj_node_nil]
  | .node [(k, r)] => by
    rw [simpObj_node_single]
    cases hc : (isRootKey k && !r.isTup) <;> simp [flatten, flattenI, flatten_simpObj r]
  | .node (a :: b :: c) => by
    obtain ⟨ka, va⟩ := a; obtain ⟨kb, vb⟩ := b
    rw [simpObj_node_cons2]
    simp [simpI, flatten, flattenI, flatten_simpObj va, flatten_simpObj vb, flattenI_simpI c]
theorem flattenT_simpT : ∀ (vs : List (Val α)), flattenT (simpT vs) = flattenT vs
  | [] => by simp [simpT]
  | v :: vs => by simp [simpT, flattenT, flatten_simpObj v, flattenT_simpT vs]
theorem flattenI_simpI : ∀ (kvs : Items α), flattenI (simpI kvs) = flattenI kvs
  | [] => by simp [simpI]
  | (k, v) :: r => by simp [simpI, flattenI, flatten_simpObj v, flattenI_simpI r]
end

end FormulaicVerif.Proofs.C19

namespace FormulaicVerif.Proofs.C19
open FormulaicVerif.Model.St FormulaicVerif.Spec.Containers
variable {α β γ δ : Type}

theorem unwrapLoop_leaf (u : Bool) (a : α) : unwrapLoop u (.leaf a) = .leaf a := by simp [unwrapLoop]
theorem unwrapLoop_tup (u : Bool) (vs : List (Val α)) : unwrapLoop u (.tup vs) = .tup vs := by simp [unwrapLoop]
theorem unwrapLoop_nil (u : Bool) : unwrapLoop u (.node ([] : Items α)) = .node [] := by simp [unwrapLoop]
theorem unwrapLoop_cons2 (u : Bool) (a b : String × Val α) (c : Items α) :
    unwrapLoop u (.node (a :: b :: c)) = .node (a :: b :: c) := by simp [unwrapLoop]
theorem unwrapLoop_single_leaf (u : Bool) (k : String) (a : α) :
    unwrapLoop u (.node [(k, .leaf a)]) = if isRootKey k && u then .leaf a else .node [(k, .leaf a)] := by
  cases hk : isRootKey k <;> cases u <;> simp [unwrapLoop, hk]
theorem unwrapLoop_single_tup (u : Bool) (k : String) (ws : List (Val α)) :
    unwrapLoop u (.node [(k, .tup ws)]) = .node [(k, .tup ws)] := by
  cases hk : isRootKey k <;> simp [unwrapLoop, hk]
theorem unwrapLoop_single_node (u : Bool) (k : String) (kvs : Items α) :
    unwrapLoop u (.node [(k, .node kvs)]) =
      if isRootKey k then unwrapLoop u (.node kvs) else .node [(k, .node kvs)] := by
  cases hk : isRootKey k <;> simp [unwrapLoop, hk]

/-- the value part of `simplify` -/
def simpVal (recurse unwrap : Bool) (v : Val α) : Val α :=
  match unwrapLoop unwrap v with
  | .node s => .node (if recurse then simpI s else s)
  | w => w

theorem simplify_eq (r u i : Bool) (kvs : Items α) :
    simplify r u i kvs = if i && u then .error .runtimeError else .ok (simpVal r u (.node kvs)) := by
  unfold simplify simpVal
  cases hc : (i && u) <;> simp
  all_goals (cases unwrapLoop u (.node kvs) <;> rfl)

theorem simpVal_default : ∀ (v : Val α), v.isNode = true → simpVal true true v = simpObj v
  | .leaf a, h => by simp at h
  | .tup vs, h => by simp at h
  | .node [], _ => by simp [simpVal, unwrapLoop_nil, simpObj_node_nil, simpI]
  | .node [(k, .leaf a)], _ => by
    rw [simpObj_node_single]
    cases hk : isRootKey k <;> simp [simpVal, unwrapLoop_single_leaf, hk, simpI, simpObj]
  | .node [(k, .tup ws)], _ => by
    rw [simpObj_node_single]
    simp [simpVal, unwrapLoop_single_tup, simpI]
  | .node [(k, .node kvs)], _ => by
    rw [simpObj_node_single]
    have ih := simpVal_default (.node kvs) rfl
    cases hk : isRootKey k
    · simp [simpVal, unwrapLoop_single_node, hk, simpI]
    · simp only [simpVal, unwrapLoop_single_node, hk, if_true] at ih ⊢
      simpa using ih
  | .node (a :: b :: c), _ => by
    rw [simpObj_node_cons2]
    simp [simpVal, unwrapLoop_cons2]

theorem flatten_unwrapLoop (u : Bool) : ∀ (v : Val α), flatten (unwrapLoop u v) = flatten v
  | .leaf a => by simp [unwrapLoop_leaf]
  | .tup vs => by simp [unwrapLoop_tup]
  | .node [] => by simp [unwrapLoop_nil]
  | .node [(k, .leaf a)] => by
    rw [unwrapLoop_single_leaf]; cases (isRootKey k && u) <;> simp [flatten, flattenI]
  | .node [(k, .tup ws)] => by rw [unwrapLoop_single_tup]
  | .node [(k, .node kvs)] => by
    rw [unwrapLoop_single_node]
    cases isRootKey k
    · simp
    · simp [flatten_unwrapLoop u (.node kvs), flatten, flattenI]
  | .node (a :: b :: c) => by rw [unwrapLoop_cons2]

theorem flatten_simpVal (r u : Bool) (v : Val α) : flatten (simpVal r u v) = flatten v := by
  have h := flatten_unwrapLoop u v
  unfold simpVal
  cases hw : unwrapLoop u v with
  | leaf a => simpa [hw] using h
  | tup vs => simpa [hw] using h
  | node s =>
    rw [hw] at h
    cases r <;> simp [flatten, flattenI_simpI] at h ⊢ <;> exact h

end FormulaicVerif.Proofs.C19

namespace FormulaicVerif.Proofs.C19
open FormulaicVerif.Model.St FormulaicVerif.Spec.Containers
variable {α β γ δ : Type}

/-- where the `while` loop of `_simplify` stops -/
def stopped (u : Bool) : Val α → Bool
  | .node [(k, r)] => !isRootKey k || r.isTup || (!r.isNode && !u)
  | _ => true

theorem stopped_unwrapLoop (u : Bool) : ∀ (v : Val α), stopped u (unwrapLoop u v) = true
  | .leaf a => by simp [unwrapLoop_leaf, stopped]
  | .tup vs => by simp [unwrapLoop_tup, stopped]
  | .node [] => by simp [unwrapLoop_nil, stopped]
  | .node [(k, .leaf a)] => by
    rw [unwrapLoop_single_leaf]
    cases hk : isRootKey k <;> cases u <;> simp [stopped, hk]
  | .node [(k, .tup ws)] => by rw [unwrapLoop_single_tup]; simp [stopped]
  | .node [(k, .node kvs)] => by
    rw [unwrapLoop_single_node]
    cases hk : isRootKey k
    · simp [stopped, hk]
    · simpa using stopped_unwrapLoop u (.node kvs)
  | .node (a :: b :: c) => by rw [unwrapLoop_cons2]; simp [stopped]

theorem unwrapLoop_of_stopped (u : Bool) : ∀ (v : Val α), stopped u v = true → unwrapLoop u v = v
  | .leaf a, _ => unwrapLoop_leaf u a
  | .tup vs, _ => unwrapLoop_tup u vs
  | .node [], _ => unwrapLoop_nil u
  | .node [(k, .leaf a)], h => by
    rw [unwrapLoop_single_leaf]
    cases hk : isRootKey k <;> cases u <;> simp [stopped, hk] at h ⊢
  | .node [(k, .tup ws)], _ => unwrapLoop_single_tup u k ws
  | .node [(k, .node kvs)], h => by
    rw [unwrapLoop_single_node]
    cases hk : isRootKey k <;> simp [stopped, hk] at h ⊢
  | .node (a :: b :: c), _ => unwrapLoop_cons2 u a b c

theorem stopped_simpI (u : Bool) : ∀ (s : Items α), stopped u (.node s) = true →
    stopped u (.node (simpI s)) = true
  | [], _ => by simp [simpI, stopped]
  | [(k, .leaf a)], h => by simpa [simpI, simpObj] using h
  | [(k, .tup ws)], _ => by simp [simpI, simpObj, stopped]
  | [(k, .node kvs)], h => by
    cases hk : isRootKey k <;> simp [stopped, hk] at h
    simp [simpI, stopped, hk]
  | a :: b :: c, _ => by
    obtain ⟨ka, va⟩ := a; obtain ⟨kb, vb⟩ := b
    simp [simpI, stopped]

theorem simpVal_idem (r u : Bool) (v : Val α) (s : Items α) (h : simpVal r u v = .node s) :
    simpVal r u (.node s) = .node s := by
  unfold simpVal at h
  have hst := stopped_unwrapLoop u v
  cases hw : unwrapLoop u v with
  | leaf a => rw [hw] at h; cases h
  | tup vs => rw [hw] at h; cases h
  | node t =>
    rw [hw] at h hst
    simp only [Val.node.injEq] at h
    cases r
    · simp only [Bool.false_eq_true, if_false] at h
      subst h
      simp [simpVal, unwrapLoop_of_stopped u _ hst]
    · simp only [if_true] at h
      subst h
      simp [simpVal, unwrapLoop_of_stopped u _ (stopped_simpI u t hst), simpI_idem]

end FormulaicVerif.Proofs.C19
