import FormulaicVerif.Model.Constraints
import Mathlib.Tactic.Ring
import Mathlib.Tactic.Linarith
import Mathlib.Tactic.FieldSimp
import Mathlib.Algebra.Field.Rat
import Mathlib.Data.List.Perm.Basic
import Mathlib.Data.List.Nodup
/-! Helper lemmas for C16, part 1: sets of scaled factors (not obligations). -/
namespace FormulaicVerif.Proofs.C16
open FormulaicVerif.Model.Constraints

/-- a re-ordering: what iterating over a Python set may do -/
def IsShuffle (sh : Shuffle) : Prop := ∀ s, (sh s).Perm s

theorem isShuffle_id : IsShuffle id := fun _ => List.Perm.refl _

/-- value of a factor: the constant `1`, or the column -/
def val (env : String → Rat) : Option String → Rat
  | none => 1
  | some e => env e

/-- value of a set of scaled factors: Σ scale · factor -/
def evalT (env : String → Rat) : TermSet → Rat
  | [] => 0
  | t :: r => t.scale * val env t.factor + evalT env r

def keys (s : TermSet) : List (Option String) := s.map (·.factor)

/-- a Python set of `ScaledFactor`s: no two elements with the same factor -/
def WF (s : TermSet) : Prop := (keys s).Nodup

/-- invariant of every set `to_terms` produces: well formed and non-empty -/
def Good (s : TermSet) : Prop := WF s ∧ s ≠ []

theorem evalT_append (env) (a b : TermSet) : evalT env (a ++ b) = evalT env a + evalT env b := by
  induction a with
  | nil => simp [evalT]
  | cons t r ih => simp only [List.cons_append, evalT, ih]; ring

theorem evalT_perm (env) {a b : TermSet} (h : a.Perm b) : evalT env a = evalT env b := by
  induction h with
  | nil => rfl
  | cons x _ ih => simp only [evalT, ih]
  | swap x y l => simp only [evalT]; ring
  | trans _ _ ih1 ih2 => exact ih1.trans ih2

theorem keys_perm {a b : TermSet} (h : a.Perm b) : (keys a).Perm (keys b) := h.map _

theorem WF_perm {a b : TermSet} (h : a.Perm b) : WF a ↔ WF b := (keys_perm h).nodup_iff

theorem Good_perm {a b : TermSet} (h : a.Perm b) : Good a ↔ Good b := by
  unfold Good
  rw [WF_perm h]
  constructor
  · rintro ⟨w, n⟩; exact ⟨w, fun e => n (by subst e; exact h.eq_nil)⟩
  · rintro ⟨w, n⟩; exact ⟨w, fun e => n (by subst e; exact h.symm.eq_nil)⟩

theorem hasKey_iff (s : TermSet) (k) : hasKey s k = true ↔ k ∈ keys s := by
  simp only [hasKey, keys, List.any_eq_true, beq_iff_eq, List.mem_map]

theorem hasKey_perm {a b : TermSet} (h : a.Perm b) (k) : hasKey a k = hasKey b k := by
  rw [Bool.eq_iff_iff, hasKey_iff, hasKey_iff]; exact (keys_perm h).mem_iff

theorem lookup_some {s : TermSet} {k u} (h : lookup s k = some u) : u ∈ s ∧ u.factor = k := by
  unfold lookup at h
  exact ⟨List.mem_of_find?_eq_some h, by simpa using List.find?_some h⟩

theorem lookup_none {s : TermSet} {k} : lookup s k = none ↔ k ∉ keys s := by
  simp only [lookup, List.find?_eq_none, beq_iff_eq, keys, List.mem_map, not_exists, not_and]

theorem lookup_eq_some_iff {s : TermSet} (w : WF s) {k u} : lookup s k = some u ↔ u ∈ s ∧ u.factor = k := by
  constructor
  · exact lookup_some
  · rintro ⟨hm, hk⟩
    induction s with
    | nil => cases hm
    | cons t r ih =>
      have wn : t.factor ∉ keys r ∧ WF r := by simpa [WF, keys] using w
      simp only [lookup, List.find?_cons]
      by_cases htk : t.factor = k
      · simp only [htk, beq_self_eq_true]
        rcases List.mem_cons.mp hm with e | e
        · rw [e]
        · exfalso; apply wn.1; rw [htk, ← hk]; exact List.mem_map_of_mem e
      · have : (t.factor == k) = false := by simpa using htk
        simp only [this]
        rcases List.mem_cons.mp hm with e | e
        · exact absurd (e ▸ hk) htk
        · exact ih wn.2 e

theorem lookup_perm {a b : TermSet} (w : WF a) (h : a.Perm b) (k) : lookup a k = lookup b k := by
  have wb := (WF_perm h).mp w
  cases ha : lookup a k with
  | none =>
    symm; rw [lookup_none] at ha ⊢; exact fun m => ha ((keys_perm h).mem_iff.mpr m)
  | some u =>
    symm
    rw [lookup_eq_some_iff w] at ha
    rw [lookup_eq_some_iff wb]
    exact ⟨h.mem_iff.mp ha.1, ha.2⟩

/-- optional coefficient of a factor in a set -/
def coefOpt (s : TermSet) (k : Option String) : Option Rat := (lookup s k).map (·.scale)

theorem coefOpt_perm {a b : TermSet} (w : WF a) (h : a.Perm b) (k) : coefOpt a k = coefOpt b k := by
  unfold coefOpt; rw [lookup_perm w h]

theorem nodup_of_WF {s : TermSet} (w : WF s) : s.Nodup := List.Nodup.of_map _ w

theorem mem_iff_coefOpt {s : TermSet} (w : WF s) (t : SF) : t ∈ s ↔ coefOpt s t.factor = some t.scale := by
  unfold coefOpt
  constructor
  · intro h
    rw [(lookup_eq_some_iff w).mpr ⟨h, rfl⟩]; rfl
  · intro h
    cases hl : lookup s t.factor with
    | none => rw [hl] at h; cases h
    | some u =>
      rw [hl] at h
      have := lookup_some hl
      have hs : u.scale = t.scale := by simpa using h
      have : u = t := by
        cases u; cases t; simp_all
      exact this ▸ (lookup_some hl).1

/-- two well-formed sets with the same coefficients are the same set (up to order) -/
theorem perm_of_coefOpt {a b : TermSet} (wa : WF a) (wb : WF b) (h : ∀ k, coefOpt a k = coefOpt b k) : a.Perm b := by
  rw [List.perm_ext_iff_of_nodup (nodup_of_WF wa) (nodup_of_WF wb)]
  intro t
  rw [mem_iff_coefOpt wa, mem_iff_coefOpt wb, h]

/-- the per-element update of `add_terms` / `sub_terms` -/
def upd (g : Rat → Rat → Rat) (r : TermSet) (t : SF) : SF :=
  match lookup r t.factor with
  | some u => ⟨t.factor, g t.scale u.scale⟩
  | none => t

theorem upd_factor (g r t) : (upd g r t).factor = t.factor := by
  unfold upd; split <;> rfl

theorem keys_map_upd (g r) (l : TermSet) : keys (l.map (upd g r)) = keys l := by
  simp [keys, List.map_map, Function.comp_def, upd_factor]

theorem hasKey_map_upd (g r) (l : TermSet) (k) : hasKey (l.map (upd g r)) k = hasKey l k := by
  rw [Bool.eq_iff_iff, hasKey_iff, hasKey_iff, keys_map_upd]

theorem addTerms_eq (sh : Shuffle) (l r : TermSet) :
    addTerms sh l r = (sh l).map (upd (· + ·) (sh r)) ++ (sh r).filter (fun u => !hasKey (sh l) u.factor) := by
  unfold addTerms
  simp only
  congr 1
  apply List.filter_congr
  intro u _
  exact congrArg (!·) (hasKey_map_upd (· + ·) (sh r) (sh l) u.factor)

theorem subTerms_eq (sh : Shuffle) (l r : TermSet) :
    subTerms sh l r = (sh l).map (upd (· - ·) (sh r))
      ++ negateTerms sh ((sh r).filter (fun u => !hasKey (sh l) u.factor)) := by
  unfold subTerms
  simp only
  congr 2
  apply List.filter_congr
  intro u _
  exact congrArg (!·) (hasKey_map_upd (· - ·) (sh r) (sh l) u.factor)

theorem WF_cons {t : SF} {s : TermSet} : WF (t :: s) ↔ t.factor ∉ keys s ∧ WF s := by
  simp [WF, keys]

theorem WF_filter {s : TermSet} (w : WF s) (p) : WF (s.filter p) := by
  unfold WF keys at *
  exact (List.Sublist.map _ List.filter_sublist).nodup w

theorem WF_append {a b : TermSet} (wa : WF a) (wb : WF b) (d : ∀ k ∈ keys b, k ∉ keys a) : WF (a ++ b) := by
  unfold WF keys at *
  rw [List.map_append, List.nodup_append]
  exact ⟨wa, wb, fun x hx y hy e => d y hy (e ▸ hx)⟩

theorem evalT_filter_ne {env} {s : TermSet} (w : WF s) (k) :
    evalT env (s.filter (fun u => !(k == u.factor)))
      = evalT env s - (match lookup s k with | some u => u.scale * val env k | none => 0) := by
  induction s with
  | nil => simp [evalT, lookup]
  | cons t r ih =>
    have ⟨hn, wr⟩ := WF_cons.mp w
    by_cases htk : k = t.factor
    · subst htk
      have hl : lookup r t.factor = none := lookup_none.mpr hn
      have : r.filter (fun u => !(t.factor == u.factor)) = r := by
        rw [List.filter_eq_self]; intro u hu
        have : t.factor ≠ u.factor := fun e => hn (e ▸ List.mem_map_of_mem hu)
        simpa using this
      simp only [List.filter_cons, beq_self_eq_true, Bool.not_true, Bool.false_eq_true, if_false, this,
        lookup, List.find?_cons, evalT]
      ring
    · have hb : (k == t.factor) = false := by simpa using htk
      have hb' : (t.factor == k) = false := by simpa using Ne.symm htk
      simp only [List.filter_cons, hb, Bool.not_false, if_true, evalT, ih wr, lookup, List.find?_cons, hb']
      ring

theorem lookup_filter_notin (ls r : TermSet) (k) :
    lookup (r.filter (fun u => !hasKey ls u.factor)) k = if hasKey ls k then none else lookup r k := by
  induction r with
  | nil => simp [lookup]
  | cons u r ih =>
    unfold lookup at ih ⊢
    by_cases e : u.factor = k
    · subst e
      by_cases h : hasKey ls u.factor = true
      · simp only [List.filter_cons, h, Bool.not_true, Bool.false_eq_true, if_false, if_true] at ih ⊢
        exact ih
      · have h' : hasKey ls u.factor = false := by simpa using h
        simp [h']
    · have eb : (u.factor == k) = false := by simpa using e
      by_cases h : hasKey ls u.factor = true
      · simp only [List.filter_cons, h, Bool.not_true, Bool.false_eq_true, if_false, List.find?_cons, eb]
        exact ih
      · have h' : hasKey ls u.factor = false := by simpa using h
        simp only [List.filter_cons, h', Bool.not_false, if_true, List.find?_cons, eb]
        exact ih

theorem evalT_merge {env} (c : Rat) (g : Rat → Rat → Rat) (hg : ∀ a b, g a b = a + c * b)
    {l r : TermSet} (wl : WF l) (wr : WF r) :
    evalT env (l.map (upd g r)) + c * evalT env (r.filter (fun u => !hasKey l u.factor))
      = evalT env l + c * evalT env r := by
  induction l with
  | nil =>
    have : r.filter (fun u => !hasKey [] u.factor) = r := by
      rw [List.filter_eq_self]; intro u _; simp [hasKey]
    simp [this, evalT]
  | cons t ls ih =>
    have ⟨hn, wls⟩ := WF_cons.mp wl
    have hf : r.filter (fun u => !hasKey (t :: ls) u.factor)
        = (r.filter (fun u => !hasKey ls u.factor)).filter (fun u => !(t.factor == u.factor)) := by
      rw [List.filter_filter]
      apply List.filter_congr; intro u _
      simp [hasKey]
    have hk : hasKey ls t.factor = false := by
      rw [Bool.eq_false_iff, Ne, hasKey_iff]; exact hn
    rw [hf, evalT_filter_ne (WF_filter wr _), lookup_filter_notin, hk]
    simp only [Bool.false_eq_true, if_false, List.map_cons, evalT, upd_factor]
    have ih' := ih wls
    cases hl : lookup r t.factor with
    | none =>
      have hu : upd g r t = t := by unfold upd; rw [hl]
      rw [hu]; simp only; linarith
    | some u =>
      have hu : upd g r t = ⟨t.factor, g t.scale u.scale⟩ := by unfold upd; rw [hl]
      rw [hu]; simp only [hg]; linarith

theorem evalT_negate {env} {sh : Shuffle} (hsh : IsShuffle sh) (s : TermSet) :
    evalT env (negateTerms sh s) = - evalT env s := by
  unfold negateTerms
  rw [← evalT_perm env (hsh s)]
  induction sh s with
  | nil => simp [evalT]
  | cons t r ih => simp only [List.map_cons, evalT, ih]; ring

theorem keys_negate (sh : Shuffle) (s : TermSet) : keys (negateTerms sh s) = keys (sh s) := by
  simp [negateTerms, keys, List.map_map, Function.comp_def]

theorem WF_negate {sh : Shuffle} (hsh : IsShuffle sh) {s : TermSet} (w : WF s) : WF (negateTerms sh s) := by
  unfold WF; rw [keys_negate]; exact (WF_perm (hsh s)).mpr w

theorem evalT_addTerms {env} {sh : Shuffle} (hsh : IsShuffle sh) {l r : TermSet} (wl : WF l) (wr : WF r) :
    evalT env (addTerms sh l r) = evalT env l + evalT env r := by
  rw [addTerms_eq, evalT_append]
  have := evalT_merge (env := env) 1 (· + ·) (by intros; ring) ((WF_perm (hsh l)).mpr wl) ((WF_perm (hsh r)).mpr wr)
  rw [evalT_perm env (hsh l), evalT_perm env (hsh r)] at this
  linarith

theorem evalT_subTerms {env} {sh : Shuffle} (hsh : IsShuffle sh) {l r : TermSet} (wl : WF l) (wr : WF r) :
    evalT env (subTerms sh l r) = evalT env l - evalT env r := by
  rw [subTerms_eq, evalT_append, evalT_negate hsh]
  have := evalT_merge (env := env) (-1) (· - ·) (by intros; ring) ((WF_perm (hsh l)).mpr wl) ((WF_perm (hsh r)).mpr wr)
  rw [evalT_perm env (hsh l), evalT_perm env (hsh r)] at this
  linarith

theorem WF_merge {g} {l r X : TermSet} (wl : WF l) (wX : WF X)
    (hX : ∀ k ∈ keys X, k ∉ keys l) : WF (l.map (upd g r) ++ X) := by
  apply WF_append _ wX
  · rw [keys_map_upd]; exact hX
  · unfold WF; rw [keys_map_upd]; exact wl

theorem keys_filter_notin {l r : TermSet} : ∀ k ∈ keys (r.filter (fun u => !hasKey l u.factor)), k ∉ keys l := by
  intro k hk
  simp only [keys, List.mem_map, List.mem_filter] at hk
  obtain ⟨u, ⟨_, hu⟩, rfl⟩ := hk
  rw [← hasKey_iff]; simpa using hu

theorem WF_addTerms {sh : Shuffle} (hsh : IsShuffle sh) {l r : TermSet} (wl : WF l) (wr : WF r) :
    WF (addTerms sh l r) := by
  rw [addTerms_eq]
  exact WF_merge ((WF_perm (hsh l)).mpr wl) (WF_filter ((WF_perm (hsh r)).mpr wr) _) keys_filter_notin

theorem WF_subTerms {sh : Shuffle} (hsh : IsShuffle sh) {l r : TermSet} (wl : WF l) (wr : WF r) :
    WF (subTerms sh l r) := by
  rw [subTerms_eq]
  apply WF_merge ((WF_perm (hsh l)).mpr wl) (WF_negate hsh (WF_filter ((WF_perm (hsh r)).mpr wr) _))
  intro k hk
  rw [keys_negate, (keys_perm (hsh _)).mem_iff] at hk
  exact keys_filter_notin k hk

theorem ne_nil_of_perm {a b : TermSet} (h : a.Perm b) (n : b ≠ []) : a ≠ [] :=
  fun e => n (by subst e; exact h.symm.eq_nil)

theorem addTerms_ne_nil {sh : Shuffle} (hsh : IsShuffle sh) {l r : TermSet} (n : l ≠ []) : addTerms sh l r ≠ [] := by
  rw [addTerms_eq]
  have := ne_nil_of_perm (hsh l) n
  cases h : sh l with
  | nil => exact absurd h this
  | cons _ _ => simp

theorem subTerms_ne_nil {sh : Shuffle} (hsh : IsShuffle sh) {l r : TermSet} (n : l ≠ []) : subTerms sh l r ≠ [] := by
  rw [subTerms_eq]
  have := ne_nil_of_perm (hsh l) n
  cases h : sh l with
  | nil => exact absurd h this
  | cons _ _ => simp

theorem negate_ne_nil {sh : Shuffle} (hsh : IsShuffle sh) {s : TermSet} (n : s ≠ []) : negateTerms sh s ≠ [] := by
  unfold negateTerms
  have := ne_nil_of_perm (hsh s) n
  cases h : sh s with
  | nil => exact absurd h this
  | cons _ _ => simp

/-! ### coefficients of the results -/

def optMerge (g : Rat → Rat → Rat) (h : Rat → Rat) : Option Rat → Option Rat → Option Rat
  | some a, some b => some (g a b)
  | some a, none => some a
  | none, some b => some (h b)
  | none, none => none

theorem lookup_append (a b : TermSet) (k) : lookup (a ++ b) k = (lookup a k).or (lookup b k) := by
  unfold lookup; exact List.find?_append

theorem lookup_map (f : SF → SF) (hf : ∀ t, (f t).factor = t.factor) (l : TermSet) (k) :
    lookup (l.map f) k = (lookup l k).map f := by
  induction l with
  | nil => rfl
  | cons t r ih =>
    unfold lookup at ih ⊢
    simp only [List.map_cons, List.find?_cons, hf]
    split
    · rfl
    · exact ih

theorem coefOpt_none_iff (s : TermSet) (k) : coefOpt s k = none ↔ k ∉ keys s := by
  unfold coefOpt; rw [Option.map_eq_none_iff, lookup_none]

theorem coefOpt_isSome_iff (s : TermSet) (k) : (coefOpt s k).isSome = true ↔ k ∈ keys s := by
  rw [← not_iff_not, ← coefOpt_none_iff]; simp

theorem coefOpt_merge (g : Rat → Rat → Rat) (h : Rat → Rat) (l r X : TermSet)
    (hX : ∀ k, coefOpt X k = if hasKey l k then none else (coefOpt r k).map h) (k) :
    coefOpt (l.map (upd g r) ++ X) k = optMerge g h (coefOpt l k) (coefOpt r k) := by
  unfold coefOpt at *
  rw [lookup_append, lookup_map _ (upd_factor g r)]
  cases hl : lookup l k with
  | none =>
    have : hasKey l k = false := by
      rw [Bool.eq_false_iff, Ne, hasKey_iff]; exact lookup_none.mp hl
    have hx := hX k
    rw [this] at hx
    simp only [Option.map_none, Option.none_or, hx, Bool.false_eq_true, if_false]
    cases lookup r k <;> rfl
  | some t =>
    have ht := (lookup_some hl).2
    simp only [Option.map_some, Option.some_or]
    unfold upd
    rw [ht]
    cases lookup r k <;> simp [optMerge]

theorem coefOpt_filter_notin (l r : TermSet) (k) :
    coefOpt (r.filter (fun u => !hasKey l u.factor)) k = if hasKey l k then none else coefOpt r k := by
  unfold coefOpt; rw [lookup_filter_notin]; split <;> rfl

theorem coefOpt_negate {sh : Shuffle} (hsh : IsShuffle sh) {s : TermSet} (w : WF s) (k) :
    coefOpt (negateTerms sh s) k = (coefOpt s k).map (fun a => -a) := by
  unfold negateTerms
  rw [← coefOpt_perm ((WF_perm (hsh s)).mpr w) (hsh s)]
  unfold coefOpt
  rw [lookup_map (fun t => ⟨t.factor, -t.scale⟩) (fun _ => rfl)]
  cases lookup (sh s) k <;> rfl

theorem coefOpt_addTerms {sh : Shuffle} (hsh : IsShuffle sh) {l r : TermSet} (wl : WF l) (wr : WF r) (k) :
    coefOpt (addTerms sh l r) k = optMerge (· + ·) id (coefOpt l k) (coefOpt r k) := by
  rw [addTerms_eq, coefOpt_merge (· + ·) id _ _ _ (fun k => by rw [coefOpt_filter_notin]; simp),
    coefOpt_perm ((WF_perm (hsh l)).mpr wl) (hsh l), coefOpt_perm ((WF_perm (hsh r)).mpr wr) (hsh r)]

theorem coefOpt_subTerms {sh : Shuffle} (hsh : IsShuffle sh) {l r : TermSet} (wl : WF l) (wr : WF r) (k) :
    coefOpt (subTerms sh l r) k = optMerge (· - ·) (fun a => -a) (coefOpt l k) (coefOpt r k) := by
  have wr' := (WF_perm (hsh r)).mpr wr
  rw [subTerms_eq, coefOpt_merge (· - ·) (fun a => -a) _ _ _ (fun k => by
      rw [coefOpt_negate hsh (WF_filter wr' _), coefOpt_filter_notin]; split <;> rfl),
    coefOpt_perm ((WF_perm (hsh l)).mpr wl) (hsh l), coefOpt_perm wr' (hsh r)]

/-! ### the accumulation loop of `mul_terms` / `div_terms` -/

def single (t : SF) (k : Option String) : Option Rat := if t.factor = k then some t.scale else none

def optAdd : Option Rat → Option Rat → Option Rat := optMerge (· + ·) id

theorem coefOpt_singleton (t : SF) (k) : coefOpt [t] k = single t k := by
  unfold coefOpt lookup single
  by_cases h : t.factor = k <;> simp [h]

theorem WF_singleton (t : SF) : WF [t] := by simp [WF, keys]

/-- the value `f` returns on a pair (junk on failure) -/
def getOk (f : SF → SF → Except Err SF) (p : SF × SF) : SF :=
  match f p.1 p.2 with
  | .ok t => t
  | .error _ => ⟨none, 0⟩

def AllOk (f : SF → SF → Except Err SF) (ps : List (SF × SF)) : Prop := ∀ p ∈ ps, ∃ t, f p.1 p.2 = .ok t

def foldCoef (k : Option String) (ts : List SF) (o : Option Rat) : Option Rat :=
  ts.foldl (fun o t => optAdd o (single t k)) o

theorem accumulate_ok {sh : Shuffle} (hsh : IsShuffle sh) (f) :
    ∀ (ps : List (SF × SF)) (acc : TermSet), WF acc → AllOk f ps →
      ∃ res, accumulate sh f ps acc = .ok res ∧ WF res ∧
        (∀ env, evalT env res = evalT env acc + evalT env (ps.map (getOk f))) ∧
        (∀ k, coefOpt res k = foldCoef k (ps.map (getOk f)) (coefOpt acc k)) ∧
        (acc ≠ [] ∨ ps ≠ [] → res ≠ []) := by
  intro ps
  induction ps with
  | nil =>
    intro acc w _
    exact ⟨acc, rfl, w, fun env => by simp [evalT], fun k => rfl, fun h => h.elim id (fun h => absurd rfl h)⟩
  | cons p ps ih =>
    intro acc w hall
    obtain ⟨a, b⟩ := p
    obtain ⟨t, ht⟩ := hall (a, b) (by simp)
    have ht' : f a b = .ok t := ht
    have hg : getOk f (a, b) = t := by unfold getOk; simp only [ht']
    have w1 : WF (addTerms sh acc [t]) := WF_addTerms hsh w (WF_singleton t)
    obtain ⟨res, hres, wres, hev, hco, hne⟩ := ih (addTerms sh acc [t]) w1 (fun q hq => hall q (by simp [hq]))
    refine ⟨res, ?_, wres, ?_, ?_, ?_⟩
    · simp only [accumulate, ht', hres]
    · intro env
      rw [hev env, evalT_addTerms hsh w (WF_singleton t), List.map_cons, hg]
      simp only [evalT]; ring
    · intro k
      rw [hco k, coefOpt_addTerms hsh w (WF_singleton t), coefOpt_singleton, List.map_cons, hg]
      rfl
    · intro _
      apply hne
      left
      rw [addTerms_eq]
      intro e
      have e1 := List.append_eq_nil_iff.mp e
      have hacc : sh acc = [] := by simpa using e1.1
      have hs1 : (sh [t]).Perm [t] := hsh [t]
      have hmem : t ∈ sh [t] := hs1.mem_iff.mpr (by simp)
      have := e1.2
      rw [hacc, List.filter_eq_nil_iff] at this
      exact this t hmem (by simp [hasKey])

theorem accumulate_error {sh : Shuffle} (f) :
    ∀ (ps : List (SF × SF)) (acc : TermSet) (e : Err), accumulate sh f ps acc = .error e →
      ∃ p ∈ ps, f p.1 p.2 = .error e := by
  intro ps
  induction ps with
  | nil => intro acc e h; cases h
  | cons p ps ih =>
    intro acc e h
    obtain ⟨a, b⟩ := p
    unfold accumulate at h
    cases hf : f a b with
    | error e' =>
      rw [hf] at h
      simp only [Except.error.injEq] at h
      exact ⟨(a, b), by simp, by simpa [h] using hf⟩
    | ok t =>
      rw [hf] at h
      obtain ⟨q, hq, hqe⟩ := ih _ e h
      exact ⟨q, by simp [hq], hqe⟩

theorem accumulate_allOk {sh : Shuffle} (f) :
    ∀ (ps : List (SF × SF)) (acc res : TermSet), accumulate sh f ps acc = .ok res → AllOk f ps := by
  intro ps
  induction ps with
  | nil => intro _ _ _ p hp; cases hp
  | cons p ps ih =>
    intro acc res h
    obtain ⟨a, b⟩ := p
    unfold accumulate at h
    cases hf : f a b with
    | error e' => rw [hf] at h; cases h
    | ok t =>
      rw [hf] at h
      intro q hq
      rcases List.mem_cons.mp hq with e | e
      · subst e; exact ⟨t, hf⟩
      · exact ih _ _ h q e

/-! ### products -/

def ev (env : String → Rat) (t : SF) : Rat := t.scale * val env t.factor

theorem mulTerm_ev {env} {a b t : SF} (h : mulTerm a b = .ok t) : ev env t = ev env a * ev env b := by
  unfold mulTerm at h
  unfold ev
  cases ha : a.factor with
  | none =>
    rw [ha] at h; simp only [Except.ok.injEq] at h; subst h; simp only [val]; ring
  | some x =>
    cases hb : b.factor with
    | none => rw [ha, hb] at h; simp only [Except.ok.injEq] at h; subst h; simp only [val]; ring
    | some y => rw [ha, hb] at h; cases h

theorem divTerm_ok {a b t : SF} (h : divTerm a b = .ok t) :
    b.factor = none ∧ b.scale ≠ 0 ∧ t = ⟨a.factor, a.scale / b.scale⟩ := by
  unfold divTerm at h
  cases hb : b.factor with
  | some y => rw [hb] at h; cases h
  | none =>
    rw [hb] at h
    by_cases hz : b.scale = 0
    · simp [hz] at h
    · simp only [hz, if_false, Except.ok.injEq] at h
      exact ⟨rfl, hz, h.symm⟩

theorem evalT_eq_sum_ev (env) (s : TermSet) : evalT env s = (s.map (ev env)).sum := by
  induction s with
  | nil => rfl
  | cons t r ih => simp [evalT, ev, ih]

theorem pairs_cons (a : SF) (l r : TermSet) : pairs (a :: l) r = r.map (fun b => (a, b)) ++ pairs l r := by
  simp [pairs]

theorem mem_pairs {l r : TermSet} {p : SF × SF} : p ∈ pairs l r ↔ p.1 ∈ l ∧ p.2 ∈ r := by
  obtain ⟨a, b⟩ := p
  simp only [pairs, List.mem_flatMap, List.mem_map, Prod.mk.injEq]
  constructor
  · rintro ⟨a', ha', b', hb', rfl, rfl⟩; exact ⟨ha', hb'⟩
  · rintro ⟨ha, hb⟩; exact ⟨a, ha, b, hb, rfl, rfl⟩

theorem evalT_pairs_mul {env} (l r : TermSet) (h : AllOk mulTerm (pairs l r)) :
    evalT env ((pairs l r).map (getOk mulTerm)) = evalT env l * evalT env r := by
  induction l with
  | nil => simp [pairs, evalT]
  | cons a l ih =>
    rw [pairs_cons, List.map_append, evalT_append,
      ih (fun p hp => h p (by rw [pairs_cons]; exact List.mem_append_right _ hp))]
    have inner : ∀ r' : TermSet, (∀ b ∈ r', ∃ t, mulTerm a b = .ok t) →
        evalT env ((r'.map (fun b => (a, b))).map (getOk mulTerm)) = ev env a * evalT env r' := by
      intro r'
      induction r' with
      | nil => intro _; simp [evalT]
      | cons b r' ih' =>
        intro hb
        obtain ⟨t, ht⟩ := hb b (by simp)
        have hg : getOk mulTerm (a, b) = t := by unfold getOk; simp only [ht]
        simp only [List.map_cons, evalT, hg]
        rw [ih' (fun b' hb' => hb b' (by simp [hb']))]
        have := mulTerm_ev (env := env) ht
        unfold ev at this ⊢
        rw [this]; ring
    rw [inner r (fun b hb => h (a, b) (mem_pairs.mpr ⟨by simp, hb⟩))]
    simp only [evalT, ev]; ring

theorem evalT_pairs_div {env} (l : TermSet) (b : SF) (h : AllOk divTerm (pairs l [b])) :
    evalT env ((pairs l [b]).map (getOk divTerm)) = evalT env l / b.scale := by
  induction l with
  | nil => simp [pairs, evalT]
  | cons a l ih =>
    rw [pairs_cons, List.map_append, evalT_append,
      ih (fun p hp => h p (by rw [pairs_cons]; exact List.mem_append_right _ hp))]
    obtain ⟨t, ht⟩ := h (a, b) (mem_pairs.mpr ⟨by simp, by simp⟩)
    have hg : getOk divTerm (a, b) = t := by unfold getOk; simp only [ht]
    obtain ⟨_, hz, rfl⟩ := divTerm_ok ht
    simp only [List.map_cons, List.map_nil, evalT, hg]
    field_simp
    ring

theorem pairs_ne_nil {l r : TermSet} (hl : l ≠ []) (hr : r ≠ []) : pairs l r ≠ [] := by
  cases l with
  | nil => exact absurd rfl hl
  | cons a l =>
    cases r with
    | nil => exact absurd rfl hr
    | cons b r => simp [pairs]

theorem mulTerms_sound {sh : Shuffle} (hsh : IsShuffle sh) {l r res : TermSet} (gl : Good l) (gr : Good r)
    (h : mulTerms sh l r = .ok res) :
    Good res ∧ ∀ env, evalT env res = evalT env l * evalT env r := by
  unfold mulTerms at h
  have hall := accumulate_allOk _ _ _ _ h
  obtain ⟨res', hres, wres, hev, _, hne⟩ := accumulate_ok hsh mulTerm _ [] (by simp [WF, keys]) hall
  rw [h] at hres
  cases hres
  refine ⟨⟨wres, hne (Or.inr (pairs_ne_nil (ne_nil_of_perm (hsh l) gl.2) (ne_nil_of_perm (hsh r) gr.2)))⟩, ?_⟩
  intro env
  rw [hev env, evalT_pairs_mul _ _ hall, evalT_perm env (hsh l), evalT_perm env (hsh r)]
  simp [evalT]

theorem all_const_singleton {r : TermSet} (w : WF r) (n : r ≠ []) (h : ∀ b ∈ r, b.factor = none) :
    ∃ b, r = [b] := by
  cases r with
  | nil => exact absurd rfl n
  | cons b r =>
    cases r with
    | nil => exact ⟨b, rfl⟩
    | cons c r =>
      exfalso
      have := (WF_cons.mp w).1
      apply this
      rw [h b (by simp), ← h c (by simp)]
      simp [keys]

theorem divTerms_sound {sh : Shuffle} (hsh : IsShuffle sh) {l r res : TermSet} (gl : Good l) (gr : Good r)
    (h : divTerms sh l r = .ok res) :
    Good res ∧ ∀ env, evalT env r ≠ 0 ∧ evalT env res = evalT env l / evalT env r := by
  unfold divTerms at h
  have hall := accumulate_allOk _ _ _ _ h
  have nl := ne_nil_of_perm (hsh l) gl.2
  have nr := ne_nil_of_perm (hsh r) gr.2
  have wr := (WF_perm (hsh r)).mpr gr.1
  obtain ⟨a, ha⟩ := List.exists_mem_of_ne_nil _ nl
  have hconst : ∀ b ∈ sh r, b.factor = none ∧ b.scale ≠ 0 := by
    intro b hb
    obtain ⟨t, ht⟩ := hall (a, b) (mem_pairs.mpr ⟨ha, hb⟩)
    exact ⟨(divTerm_ok ht).1, (divTerm_ok ht).2.1⟩
  obtain ⟨b, hb⟩ := all_const_singleton wr nr (fun b hb => (hconst b hb).1)
  have ⟨hbf, hbz⟩ := hconst b (by rw [hb]; simp)
  obtain ⟨res', hres, wres, hev, _, hne⟩ := accumulate_ok hsh divTerm _ [] (by simp [WF, keys]) hall
  rw [h] at hres
  cases hres
  refine ⟨⟨wres, hne (Or.inr (pairs_ne_nil nl nr))⟩, ?_⟩
  intro env
  have er : evalT env r = b.scale := by
    rw [← evalT_perm env (hsh r), hb]; simp [evalT, hbf, val]
  rw [er]
  refine ⟨hbz, ?_⟩
  rw [hev env]
  rw [hb] at hall ⊢
  rw [evalT_pairs_div _ b hall, evalT_perm env (hsh l)]
  simp [evalT]

/-! ### independence of the iteration order -/

theorem addTerms_congr {sh₁ sh₂ : Shuffle} (h₁ : IsShuffle sh₁) (h₂ : IsShuffle sh₂) {l₁ l₂ r₁ r₂ : TermSet}
    (wl : WF l₁) (wr : WF r₁) (pl : l₁.Perm l₂) (pr : r₁.Perm r₂) :
    (addTerms sh₁ l₁ r₁).Perm (addTerms sh₂ l₂ r₂) := by
  have wl2 := (WF_perm pl).mp wl
  have wr2 := (WF_perm pr).mp wr
  apply perm_of_coefOpt (WF_addTerms h₁ wl wr) (WF_addTerms h₂ wl2 wr2)
  intro k
  rw [coefOpt_addTerms h₁ wl wr, coefOpt_addTerms h₂ wl2 wr2, coefOpt_perm wl pl, coefOpt_perm wr pr]

theorem subTerms_congr {sh₁ sh₂ : Shuffle} (h₁ : IsShuffle sh₁) (h₂ : IsShuffle sh₂) {l₁ l₂ r₁ r₂ : TermSet}
    (wl : WF l₁) (wr : WF r₁) (pl : l₁.Perm l₂) (pr : r₁.Perm r₂) :
    (subTerms sh₁ l₁ r₁).Perm (subTerms sh₂ l₂ r₂) := by
  have wl2 := (WF_perm pl).mp wl
  have wr2 := (WF_perm pr).mp wr
  apply perm_of_coefOpt (WF_subTerms h₁ wl wr) (WF_subTerms h₂ wl2 wr2)
  intro k
  rw [coefOpt_subTerms h₁ wl wr, coefOpt_subTerms h₂ wl2 wr2, coefOpt_perm wl pl, coefOpt_perm wr pr]

theorem negateTerms_congr {sh₁ sh₂ : Shuffle} (h₁ : IsShuffle sh₁) (h₂ : IsShuffle sh₂) {s₁ s₂ : TermSet}
    (p : s₁.Perm s₂) : (negateTerms sh₁ s₁).Perm (negateTerms sh₂ s₂) := by
  unfold negateTerms
  exact (((h₁ s₁).trans p).trans (h₂ s₂).symm).map _

/-- two runs are related: both fail, or both succeed with the same set -/
def ERel (x y : Except Err TermSet) : Prop :=
  (∃ e₁ e₂, x = .error e₁ ∧ y = .error e₂) ∨ (∃ a b, x = .ok a ∧ y = .ok b ∧ a.Perm b)

theorem optAdd_right_comm (o a b : Option Rat) : optAdd (optAdd o a) b = optAdd (optAdd o b) a := by
  cases o <;> cases a <;> cases b <;> simp only [optAdd, optMerge, id, Option.some.injEq] <;> ring

theorem foldCoef_perm (k) {ts₁ ts₂ : List SF} (p : ts₁.Perm ts₂) (o) : foldCoef k ts₁ o = foldCoef k ts₂ o := by
  unfold foldCoef
  induction p generalizing o with
  | nil => rfl
  | cons x _ ih => simp only [List.foldl_cons]; exact ih _
  | swap x y l => simp only [List.foldl_cons]; rw [optAdd_right_comm]
  | trans _ _ ih1 ih2 => exact (ih1 o).trans (ih2 o)

theorem allOk_perm {f} {ps₁ ps₂ : List (SF × SF)} (p : ps₁.Perm ps₂) : AllOk f ps₁ ↔ AllOk f ps₂ := by
  unfold AllOk
  constructor
  · intro h q hq; exact h q (p.mem_iff.mpr hq)
  · intro h q hq; exact h q (p.mem_iff.mp hq)

theorem accumulate_congr {sh₁ sh₂ : Shuffle} (h₁ : IsShuffle sh₁) (h₂ : IsShuffle sh₂) (f)
    {ps₁ ps₂ : List (SF × SF)} (p : ps₁.Perm ps₂) :
    ERel (accumulate sh₁ f ps₁ []) (accumulate sh₂ f ps₂ []) := by
  have wnil : WF [] := by simp [WF, keys]
  by_cases hall : AllOk f ps₁
  · right
    obtain ⟨a, ha, wa, _, ca, _⟩ := accumulate_ok h₁ f ps₁ [] wnil hall
    obtain ⟨b, hb, wb, _, cb, _⟩ := accumulate_ok h₂ f ps₂ [] wnil ((allOk_perm p).mp hall)
    refine ⟨a, b, ha, hb, perm_of_coefOpt wa wb ?_⟩
    intro k
    rw [ca k, cb k]
    exact foldCoef_perm k (p.map _) _
  · left
    cases e1 : accumulate sh₁ f ps₁ [] with
    | ok a => exact absurd (accumulate_allOk _ _ _ _ e1) hall
    | error e =>
      cases e2 : accumulate sh₂ f ps₂ [] with
      | ok b => exact absurd ((allOk_perm p).mpr (accumulate_allOk _ _ _ _ e2)) hall
      | error e' => exact ⟨e, e', rfl, rfl⟩

theorem pairs_perm {l₁ l₂ r₁ r₂ : TermSet} (pl : l₁.Perm l₂) (pr : r₁.Perm r₂) :
    (pairs l₁ r₁).Perm (pairs l₂ r₂) := List.Perm.product pl pr

theorem mulTerms_congr {sh₁ sh₂ : Shuffle} (h₁ : IsShuffle sh₁) (h₂ : IsShuffle sh₂) {l₁ l₂ r₁ r₂ : TermSet}
    (pl : l₁.Perm l₂) (pr : r₁.Perm r₂) : ERel (mulTerms sh₁ l₁ r₁) (mulTerms sh₂ l₂ r₂) :=
  accumulate_congr h₁ h₂ mulTerm
    (pairs_perm (((h₁ l₁).trans pl).trans (h₂ l₂).symm) (((h₁ r₁).trans pr).trans (h₂ r₂).symm))

theorem divTerms_congr {sh₁ sh₂ : Shuffle} (h₁ : IsShuffle sh₁) (h₂ : IsShuffle sh₂) {l₁ l₂ r₁ r₂ : TermSet}
    (pl : l₁.Perm l₂) (pr : r₁.Perm r₂) : ERel (divTerms sh₁ l₁ r₁) (divTerms sh₂ l₂ r₂) :=
  accumulate_congr h₁ h₂ divTerm
    (pairs_perm (((h₁ l₁).trans pl).trans (h₂ l₂).symm) (((h₁ r₁).trans pr).trans (h₂ r₂).symm))

/-! ### which factors occur (zero-scaled terms are kept: this is why `(a-a)*b` is rejected) -/

def HasVar (s : TermSet) : Prop := ∃ t ∈ s, t.factor ≠ none

theorem hasVar_iff_keys (s : TermSet) : HasVar s ↔ ∃ x, some x ∈ keys s := by
  unfold HasVar keys
  constructor
  · rintro ⟨t, ht, hn⟩
    cases hf : t.factor with
    | none => exact absurd hf hn
    | some x => exact ⟨x, hf ▸ List.mem_map_of_mem ht⟩
  · rintro ⟨x, hx⟩
    obtain ⟨t, ht, hf⟩ := List.mem_map.mp hx
    exact ⟨t, ht, by rw [hf]; simp⟩

theorem hasVar_perm {a b : TermSet} (p : a.Perm b) : HasVar a ↔ HasVar b := by
  unfold HasVar
  constructor
  · rintro ⟨t, ht, h⟩; exact ⟨t, p.mem_iff.mp ht, h⟩
  · rintro ⟨t, ht, h⟩; exact ⟨t, p.mem_iff.mpr ht, h⟩

theorem optMerge_isSome (g h) (a b : Option Rat) : (optMerge g h a b).isSome = (a.isSome || b.isSome) := by
  cases a <;> cases b <;> rfl

theorem keys_addTerms {sh : Shuffle} (hsh : IsShuffle sh) {l r : TermSet} (wl : WF l) (wr : WF r) (k) :
    k ∈ keys (addTerms sh l r) ↔ k ∈ keys l ∨ k ∈ keys r := by
  rw [← coefOpt_isSome_iff, ← coefOpt_isSome_iff, ← coefOpt_isSome_iff, coefOpt_addTerms hsh wl wr,
    optMerge_isSome, Bool.or_eq_true]

theorem keys_subTerms {sh : Shuffle} (hsh : IsShuffle sh) {l r : TermSet} (wl : WF l) (wr : WF r) (k) :
    k ∈ keys (subTerms sh l r) ↔ k ∈ keys l ∨ k ∈ keys r := by
  rw [← coefOpt_isSome_iff, ← coefOpt_isSome_iff, ← coefOpt_isSome_iff, coefOpt_subTerms hsh wl wr,
    optMerge_isSome, Bool.or_eq_true]

theorem hasVar_addTerms {sh : Shuffle} (hsh : IsShuffle sh) {l r : TermSet} (wl : WF l) (wr : WF r)
    (h : HasVar l ∨ HasVar r) : HasVar (addTerms sh l r) := by
  rw [hasVar_iff_keys] at *
  rw [hasVar_iff_keys] at h
  rcases h with ⟨x, hx⟩ | ⟨x, hx⟩
  · exact ⟨x, (keys_addTerms hsh wl wr _).mpr (Or.inl hx)⟩
  · exact ⟨x, (keys_addTerms hsh wl wr _).mpr (Or.inr hx)⟩

theorem hasVar_subTerms {sh : Shuffle} (hsh : IsShuffle sh) {l r : TermSet} (wl : WF l) (wr : WF r)
    (h : HasVar l ∨ HasVar r) : HasVar (subTerms sh l r) := by
  rw [hasVar_iff_keys] at *
  rw [hasVar_iff_keys] at h
  rcases h with ⟨x, hx⟩ | ⟨x, hx⟩
  · exact ⟨x, (keys_subTerms hsh wl wr _).mpr (Or.inl hx)⟩
  · exact ⟨x, (keys_subTerms hsh wl wr _).mpr (Or.inr hx)⟩

theorem hasVar_negate {sh : Shuffle} (hsh : IsShuffle sh) {s : TermSet} : HasVar (negateTerms sh s) ↔ HasVar s := by
  rw [hasVar_iff_keys, hasVar_iff_keys, keys_negate]
  constructor
  · rintro ⟨x, hx⟩; exact ⟨x, (keys_perm (hsh s)).mem_iff.mp hx⟩
  · rintro ⟨x, hx⟩; exact ⟨x, (keys_perm (hsh s)).mem_iff.mpr hx⟩

theorem foldCoef_isSome (k) (ts : List SF) (o : Option Rat) :
    (foldCoef k ts o).isSome = true ↔ o.isSome = true ∨ ∃ t ∈ ts, t.factor = k := by
  unfold foldCoef
  induction ts generalizing o with
  | nil => simp
  | cons t ts ih =>
    have : (single t k).isSome = true ↔ t.factor = k := by
      unfold single; by_cases h : t.factor = k <;> simp [h]
    rw [List.foldl_cons, ih]
    simp only [optAdd, optMerge_isSome, Bool.or_eq_true, List.mem_cons, exists_eq_or_imp, this]
    tauto

/-- the keys of an accumulated product -/
theorem accumulate_keys {sh : Shuffle} (hsh : IsShuffle sh) (f) {ps : List (SF × SF)} {res : TermSet}
    (h : accumulate sh f ps [] = .ok res) (k) : k ∈ keys res ↔ ∃ p ∈ ps, (getOk f p).factor = k := by
  have hall := accumulate_allOk _ _ _ _ h
  obtain ⟨res', hres, _, _, hco, _⟩ := accumulate_ok hsh f ps [] (by simp [WF, keys]) hall
  rw [h] at hres; cases hres
  rw [← coefOpt_isSome_iff, hco k, foldCoef_isSome]
  simp [coefOpt, lookup]

theorem mulTerms_vars {sh : Shuffle} (hsh : IsShuffle sh) {l r res : TermSet} (gl : Good l) (gr : Good r)
    (h : mulTerms sh l r = .ok res) : ¬ (HasVar l ∧ HasVar r) ∧ (HasVar l ∨ HasVar r → HasVar res) := by
  unfold mulTerms at h
  have hall := accumulate_allOk _ _ _ _ h
  have hk := accumulate_keys hsh mulTerm h
  have key : ∀ a ∈ sh l, ∀ b ∈ sh r, a.factor = none ∨ b.factor = none := by
    intro a ha b hb
    obtain ⟨t, ht⟩ := hall (a, b) (mem_pairs.mpr ⟨ha, hb⟩)
    unfold mulTerm at ht
    cases hfa : a.factor with
    | none => exact Or.inl rfl
    | some x =>
      cases hfb : b.factor with
      | none => exact Or.inr rfl
      | some y => simp only [hfa, hfb] at ht; cases ht
  constructor
  · rintro ⟨hl, hr⟩
    obtain ⟨a, ha, hna⟩ := (hasVar_perm (hsh l)).mpr hl
    obtain ⟨b, hb, hnb⟩ := (hasVar_perm (hsh r)).mpr hr
    rcases key a ha b hb with e | e
    · exact hna e
    · exact hnb e
  · intro hv
    rw [hasVar_iff_keys]
    rcases hv with hl | hr
    · obtain ⟨a, ha, hna⟩ := (hasVar_perm (hsh l)).mpr hl
      obtain ⟨b, hb⟩ := List.exists_mem_of_ne_nil _ (ne_nil_of_perm (hsh r) gr.2)
      have hbn : b.factor = none := (key a ha b hb).resolve_left hna
      cases hfa : a.factor with
      | none => exact absurd hfa hna
      | some x =>
        refine ⟨x, (hk _).mpr ⟨(a, b), mem_pairs.mpr ⟨ha, hb⟩, ?_⟩⟩
        simp [getOk, mulTerm, hfa, hbn]
    · obtain ⟨b, hb, hnb⟩ := (hasVar_perm (hsh r)).mpr hr
      obtain ⟨a, ha⟩ := List.exists_mem_of_ne_nil _ (ne_nil_of_perm (hsh l) gl.2)
      have han : a.factor = none := (key a ha b hb).resolve_right hnb
      cases hfb : b.factor with
      | none => exact absurd hfb hnb
      | some y =>
        refine ⟨y, (hk _).mpr ⟨(a, b), mem_pairs.mpr ⟨ha, hb⟩, ?_⟩⟩
        simp [getOk, mulTerm, han, hfb]

theorem divTerms_vars {sh : Shuffle} (hsh : IsShuffle sh) {l r res : TermSet} (gl : Good l) (gr : Good r)
    (h : divTerms sh l r = .ok res) : ¬ HasVar r ∧ (HasVar l → HasVar res) := by
  unfold divTerms at h
  have hall := accumulate_allOk _ _ _ _ h
  have hk := accumulate_keys hsh divTerm h
  obtain ⟨a0, ha0⟩ := List.exists_mem_of_ne_nil _ (ne_nil_of_perm (hsh l) gl.2)
  obtain ⟨b0, hb0⟩ := List.exists_mem_of_ne_nil _ (ne_nil_of_perm (hsh r) gr.2)
  constructor
  · intro hr
    obtain ⟨b, hb, hnb⟩ := (hasVar_perm (hsh r)).mpr hr
    obtain ⟨t, ht⟩ := hall (a0, b) (mem_pairs.mpr ⟨ha0, hb⟩)
    exact hnb (divTerm_ok ht).1
  · intro hl
    rw [hasVar_iff_keys]
    obtain ⟨a, ha, hna⟩ := (hasVar_perm (hsh l)).mpr hl
    obtain ⟨t, ht⟩ := hall (a, b0) (mem_pairs.mpr ⟨ha, hb0⟩)
    cases hfa : a.factor with
    | none => exact absurd hfa hna
    | some x =>
      refine ⟨x, (hk _).mpr ⟨(a, b0), mem_pairs.mpr ⟨ha, hb0⟩, ?_⟩⟩
      have := (divTerm_ok ht).2.2
      have ht' : divTerm a b0 = .ok t := ht
      simp only [getOk, ht']
      rw [this]; exact hfa

end FormulaicVerif.Proofs.C16
