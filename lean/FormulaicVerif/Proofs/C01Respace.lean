import FormulaicVerif.Proofs.C15Formula
import FormulaicVerif.Proofs.C01Lex
/-! # C01 — more re-spacing: the space after a finished word is optional before an operator, `)` or the end

`Props/C15.lean` C15.1d (`Respaced`) inserts and removes whitespace where the pending token is empty or an
operator. Here: the whitespace between a pending name / number / Python token and a following operator
character, a closing parenthesis, the `%` of `%in%`, or the end of the string (`a +b`, `(a )`, `a%in% b`,
`a + b ` ↔ `a + b`).
Together (`Respaced2`) they reach every spacing of a formula except a space between a name and an opening
bracket (which decides between a name and a call) and spaces inside quotes. -/
namespace FormulaicVerif.Proofs.C01Respace
open FormulaicVerif FormulaicVerif.Model FormulaicVerif.Proofs.C01Lex FormulaicVerif.Proofs.C15Ws
open FormulaicVerif.Proofs.C15Formula

/-- a pending name / number / Python token, no quote open -/
def WordPending (s : LexState) : Prop :=
  s.qc = [] ∧ s.take = 0 ∧ s.tok.nonempty = true ∧
    (s.tok.kind = some .name ∨ s.tok.kind = some .value ∨ s.tok.kind = some .python)

/-- an operator character after a pending word: the word is emitted, an operator token begun -/
theorem step_op_flush (s : LexState) (i : Nat) (ci : CharInfo) (hs : WordPending s) (hc : OpChar ci) :
    lexStep s i ci = .ok { s with out := s.tok :: s.out, tok := Tok.fresh.update ci.c i (some .operator) } := by
  obtain ⟨hq, ht, hn, hk⟩ := hs
  obtain ⟨hw, hsp, hx⟩ := hc
  obtain ⟨f1, f2, f3, f4, f5, f6, f7, f8, f9⟩ := facts_of hx
  unfold lexStep lexTop lexPlain
  simp only [ht, Nat.lt_irrefl, if_false, hq, f1, f2, f3, f4, f5, f6, f7, f8, f9, Bool.false_eq_true,
    Bool.or_self, hsp, hw]
  rcases hk with hk | hk | hk <;> simp [hn, hk, hq, ht, LexState.flush, Tok.fresh]

/-- a closing parenthesis after a pending word: the word is emitted, then the bracket token -/
theorem step_close_flush (s : LexState) (i : Nat) (ci : CharInfo) (hs : WordPending s) (hc : ci.c = ')') :
    lexStep s i ci = .ok { s with out := Tok.fresh.update ci.c i (some .context) :: s.tok :: s.out,
                                  tok := Tok.fresh } := by
  obtain ⟨hq, ht, hn, hk⟩ := hs
  unfold lexStep lexTop
  simp only [ht, Nat.lt_irrefl, if_false, hq, hc]
  rcases hk with hk | hk | hk <;> simp [hn, hk, LexState.flush, hq, ht]

/-- what may follow the optional space -/
def After (v : List CharInfo) : Prop := v = [] ∨ ∃ n v', v = n :: v' ∧ (OpChar n ∨ n.c = ')' ∨ n.c = '%')

/-- `%` (the opening of `%in%`) after a pending token or after none: the pending token is emitted, an operator
token opened -/
theorem step_pct (s : LexState) (i : Nat) (ci : CharInfo) (hq : s.qc = []) (ht : s.take = 0) (hc : ci.c = '%') :
    lexStep s i ci = .ok { s with out := (if s.tok.nonempty then s.tok :: s.out else s.out),
                                  tok := Tok.opened .operator i, qc := ['%'] } := by
  unfold lexStep lexTop
  by_cases hn : s.tok.nonempty = true <;> simp [ht, hq, hc, hn]

theorem stream_ws_word (u v : List CharInfo) (w : CharInfo) (s : LexState)
    (hu : lexLoop u 0 {} = (s, none)) (hs : WordPending s) (hw : SpaceChar w) (hv : After v) :
    er (tokenizeStream (u ++ w :: v)).1 = er (tokenizeStream (u ++ v)).1 ∧
      (tokenizeStream (u ++ w :: v)).2.isSome = (tokenizeStream (u ++ v)).2.isSome := by
  rw [tokenizeStream_eq, tokenizeStream_eq, lexLoop_append u (w :: v) 0 {} s hu, lexLoop_append u v 0 {} s hu]
  obtain ⟨hq, ht, hn, hk⟩ := hs
  have hstep : lexStep s (0 + u.length) w = .ok { s with out := s.tok :: s.out, tok := Tok.fresh } :=
    step_space_flush s _ w hq ht hn hk hw
  have hl : lexLoop (w :: v) (0 + u.length) s
      = lexLoop v (0 + u.length + 1) { s with out := s.tok :: s.out, tok := Tok.fresh } := by
    simp only [lexLoop, hstep]
  rw [hl]
  have hready : Ready { s with out := s.tok :: s.out, tok := Tok.fresh } := ⟨hq, ht, Or.inl rfl⟩
  rcases hv with rfl | ⟨n, v', rfl, hn' | hn' | hn'⟩
  · simp only [lexLoop, streamOf, hq, List.isEmpty_nil, Bool.not_true, Bool.false_eq_true, if_false, hn, if_true]
    simp [Tok.fresh, Tok.nonempty]
  · have h1 := step_op _ (0 + u.length + 1) n hready hn'
    have h2 := step_op_flush s (0 + u.length) n ⟨hq, ht, hn, hk⟩ hn'
    simp only [lexLoop, h1, h2]
    have hE : E ({ s with out := s.tok :: s.out, tok := Tok.fresh.update n.c (0 + u.length + 1) (some .operator) } : LexState)
        ({ s with out := s.tok :: s.out, tok := Tok.fresh.update n.c (0 + u.length) (some .operator) } : LexState) :=
      ⟨rfl, rfl, rfl, rfl, rfl⟩
    obtain ⟨r1, r2⟩ := lexLoop_R v' (0 + u.length + 1 + 1) (0 + u.length + 1) _ _ hE
    exact streamOf_congr r1 r2
  · have h1 := step_paren _ (0 + u.length + 1) n hready (Or.inr hn')
    have h2 := step_close_flush s (0 + u.length) n ⟨hq, ht, hn, hk⟩ hn'
    simp only [lexLoop, h1, h2]
    have hE : E ({ s with out := Tok.fresh.update n.c (0 + u.length + 1) (some .context) :: s.tok :: s.out, tok := Tok.fresh } : LexState)
        ({ s with out := Tok.fresh.update n.c (0 + u.length) (some .context) :: s.tok :: s.out, tok := Tok.fresh } : LexState) :=
      ⟨rfl, rfl, rfl, rfl, rfl⟩
    have hE' : E ({ s with out := Tok.fresh.update n.c (0 + u.length + 1) (some .context) ::
          (if (Tok.fresh).nonempty then Tok.fresh :: s.tok :: s.out else s.tok :: s.out), tok := Tok.fresh } : LexState)
        ({ s with out := Tok.fresh.update n.c (0 + u.length) (some .context) :: s.tok :: s.out, tok := Tok.fresh } : LexState) := hE
    obtain ⟨r1, r2⟩ := lexLoop_R v' (0 + u.length + 1 + 1) (0 + u.length + 1) _ _ hE'
    exact streamOf_congr r1 r2

  · have h1 := step_pct { s with out := s.tok :: s.out, tok := Tok.fresh } (0 + u.length + 1) n hq ht hn'
    have h2 := step_pct s (0 + u.length) n hq ht hn'
    simp only [lexLoop, h1, h2]
    simp only [hn, if_true]
    have key : ∀ (S1 S2 : LexState), E S1 S2 →
        (er (streamOf (lexLoop v' (0 + u.length + 1 + 1) S1)).1 = er (streamOf (lexLoop v' (0 + u.length + 1) S2)).1 ∧
          (streamOf (lexLoop v' (0 + u.length + 1 + 1) S1)).2.isSome = (streamOf (lexLoop v' (0 + u.length + 1) S2)).2.isSome) :=
      fun S1 S2 hE => by
        obtain ⟨r1, r2⟩ := lexLoop_R v' (0 + u.length + 1 + 1) (0 + u.length + 1) S1 S2 hE
        exact streamOf_congr r1 r2
    exact key _ _ ⟨rfl, rfl, rfl, rfl, rfl⟩

/-- a gap after a finished word, in front of an operator character, `)`, `%` or the end -/
def WordGap (u v : List CharInfo) : Prop := (∃ s, lexLoop u 0 {} = (s, none) ∧ WordPending s) ∧ After v

/-- re-spacing at the safe gaps of C15.1d and at the word gaps -/
inductive Respaced2 : List CharInfo → List CharInfo → Prop
  | base {a b : List CharInfo} : Respaced a b → Respaced2 a b
  | word (u v : List CharInfo) (w : CharInfo) : WordGap u v → SpaceChar w → Respaced2 (u ++ v) (u ++ w :: v)
  | symm {a b : List CharInfo} : Respaced2 a b → Respaced2 b a
  | trans {a b c : List CharInfo} : Respaced2 a b → Respaced2 b c → Respaced2 a c

theorem respaced2_formula (cfg : ParseCfg) (env : PyEnv) {a b : List CharInfo} (h : Respaced2 a b) :
    normE (formulaOfString cfg env a) = normE (formulaOfString cfg env b) ∧
    normE (parseTerms cfg env a) = normE (parseTerms cfg env b) := by
  induction h with
  | base h => exact respaced_formula cfg env h
  | word u v w hg hw =>
    obtain ⟨⟨s, hu, hs⟩, hv⟩ := hg
    obtain ⟨h1, h2⟩ := stream_ws_word u v w s hu hs hw hv
    exact ⟨(formulaOfString_congr cfg env _ _ h1 h2).symm, (parseTerms_congr cfg env _ _ h1 h2).symm⟩
  | symm _ ih => exact ⟨ih.1.symm, ih.2.symm⟩
  | trans _ _ ih1 ih2 => exact ⟨ih1.1.trans ih2.1, ih1.2.trans ih2.2⟩

end FormulaicVerif.Proofs.C01Respace
