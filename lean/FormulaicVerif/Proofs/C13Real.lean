import FormulaicVerif.Proofs.C13Aux
import FormulaicVerif.Proofs.C13Scale
import Mathlib.Algebra.Polynomial.Roots
import Mathlib.Analysis.SpecialFunctions.Sqrt
/-! Over `ℝ` the hypothesis "`norms2[k] ≠ 0`" of the `poly` theorems is a property of the DATA: it holds
as soon as the sample has more than `k` distinct values (a monic polynomial of degree `k` has at most
`k` roots, and a sum of squares vanishes only if every term does). -/
namespace FormulaicVerif.Proofs.C13
open FormulaicVerif FormulaicVerif.Model Polynomial

theorem ip_self_nonneg (x : List ℝ) (f : ℝ → ℝ) : 0 ≤ ip x f f := by
  unfold ip
  induction x with
  | nil => simp
  | cons t r ih => simp only [List.map_cons, List.sum_cons]; exact add_nonneg (mul_self_nonneg _) ih

theorem ip_self_eq_zero (x : List ℝ) (f : ℝ → ℝ) (h : ip x f f = 0) : ∀ t ∈ x, f t = 0 := by
  induction x with
  | nil => intro t ht; cases ht
  | cons a r ih =>
    have hr := ip_self_nonneg r f
    have ha := mul_self_nonneg (f a)
    have hsum : f a * f a + ip r f f = 0 := by simpa [ip] using h
    have h1 : f a * f a = 0 := by linarith
    have h2 : ip r f f = 0 := by linarith
    intro t ht
    rcases List.mem_cons.mp ht with rfl | ht
    · exact mul_self_eq_zero.mp h1
    · exact ih h2 t ht

/-- more than `k` distinct sample values: the k-th squared norm is positive -/
theorem nT_pos_of_distinct (x : List ℝ) (k : ℕ) (h : k < x.toFinset.card) : 0 < nT x k := by
  have hnn := ip_self_nonneg x (pf x k)
  rcases hnn.lt_or_eq with hpos | h0
  · exact hpos
  · exfalso
    have hz := ip_self_eq_zero x (pf x k) h0.symm
    obtain ⟨hm, hd⟩ := recPolyP_monic_degree (aT x) (nT x) k
    have he : ∀ t, pf x k t = (recPolyP (aT x) (nT x) k).eval t := by
      intro t; rw [pf_eq_recPoly, recPoly_eq_eval]
    set q := recPolyP (aT x) (nT x) k with hq
    have hsub : x.toFinset ⊆ q.roots.toFinset := by
      intro t ht
      rw [Multiset.mem_toFinset, mem_roots hm.ne_zero, IsRoot, ← he]
      exact hz t (List.mem_toFinset.mp ht)
    have := Finset.card_le_card hsub
    have h2 := Multiset.toFinset_card_le q.roots
    have h3 := card_roots' q
    omega

end FormulaicVerif.Proofs.C13
