import FormulaicVerif.Proofs.C01ShuntDot
/-! # C01 — the documented grammar WITH runs of signs and the literal `0`

The grammar of `Proofs/C01Grammar.lean` extended by what the documentation also allows in a sum:

    SumR  := [signs] Summand | SumR signs Summand         signs   := a non-empty run of `+` / `-`
    Summand := ProdR | 0                                   AtomR   := token | ( SumR )

(`ProdR`, `InterR`, `PowR` as before, over `AtomR`; runs and `0` may occur inside parentheses at any
depth). Four token lists are attached to an expression: `raw` (as written: the literal `0` is a value
token), `pre` (after `replace_tokens`: `0` ↦ `-` `1`), `mrg` (after `merge_operator_tokens`: adjacent sign
tokens are one token) and the tokens of `norm` — the expression of the OLD grammar in which every run is
replaced by the sign of its parity and `± 0` by `∓ 1`. The point: `mrg` and the tokens of `norm` cannot be
told apart by the shunting-yard (`PW`), so every parse / evaluation theorem about the old grammar
applies. -/
namespace FormulaicVerif.Proofs.C01GrammarR
open FormulaicVerif FormulaicVerif.Model FormulaicVerif.Proofs.ShuntC FormulaicVerif.Proofs.C01Grammar
open FormulaicVerif.Proofs.C01Intercept FormulaicVerif.Proofs.C01Tokens FormulaicVerif.Proofs.C01Denote
open FormulaicVerif.Proofs.C01Runs FormulaicVerif.Proofs.C01ShuntDot
open FormulaicVerif.Spec.Wilkinson (documentedTable)

/-- a run of signs -/
structure Run where
  cs : List Char
  ok : IsRun cs

/-- the literal `0` as the tokenizer produces it (up to its span) -/
def zeroTok : Tok := { text := ['0'], kind := some .value }

mutual
inductive AtomR
  | tok (t : Tok) (h : t.kind ≠ some .context ∧ t.kind ≠ some .operator ∧ ¬ IsZero t ∧ t ≠ x0)
  | paren (s : SumR)
  | dot                                          -- the wildcard `.`
inductive PowR
  | atom (a : AtomR)
  | pow (op : PowOp) (a : AtomR) (p : PowR)
inductive InterR
  | pow (p : PowR)
  | inter (i : InterR) (p : PowR)
inductive ProdR
  | inter (i : InterR)
  | mul (op : MulOp) (p : ProdR) (i : InterR)
inductive SumR
  | first (sign : Option Run) (p : ProdR)       -- `[signs] prod`
  | firstZero (sign : Option Run)               -- `[signs] 0`
  | add (r : Run) (s : SumR) (p : ProdR)        -- `sum signs prod`
  | addZero (r : Run) (s : SumR)                -- `sum signs 0`
end

def signToks : Option Run → List Tok
  | none => []
  | some r => [opTok r.cs]

def signCs : Option Run → List Char
  | none => []
  | some r => r.cs

/-! ### the tokens as written (`raw`) and after `replace_tokens` (`pre`) -/

mutual
def AtomR.raw : AtomR → List Tok
  | .tok t _ => [t]
  | .paren s => lparTok :: (s.raw ++ [rparTok])
  | .dot => [dotTok]
def PowR.raw : PowR → List Tok
  | .atom a => a.raw
  | .pow op a p => a.raw ++ opTok op.sym :: p.raw
def InterR.raw : InterR → List Tok
  | .pow p => p.raw
  | .inter i p => i.raw ++ opTok colonSym :: p.raw
def ProdR.raw : ProdR → List Tok
  | .inter i => i.raw
  | .mul op p i => p.raw ++ opTok op.sym :: i.raw
def SumR.raw : SumR → List Tok
  | .first sg p => signToks sg ++ p.raw
  | .firstZero sg => signToks sg ++ [zeroTok]
  | .add r s p => s.raw ++ opTok r.cs :: p.raw
  | .addZero r s => s.raw ++ [opTok r.cs, zeroTok]
end

mutual
def AtomR.pre : AtomR → List Tok
  | .tok t _ => [t]
  | .paren s => lparTok :: (s.pre ++ [rparTok])
  | .dot => [dotTok]
def PowR.pre : PowR → List Tok
  | .atom a => a.pre
  | .pow op a p => a.pre ++ opTok op.sym :: p.pre
def InterR.pre : InterR → List Tok
  | .pow p => p.pre
  | .inter i p => i.pre ++ opTok colonSym :: p.pre
def ProdR.pre : ProdR → List Tok
  | .inter i => i.pre
  | .mul op p i => p.pre ++ opTok op.sym :: i.pre
def SumR.pre : SumR → List Tok
  | .first sg p => signToks sg ++ p.pre
  | .firstZero sg => signToks sg ++ [tokMinus, tokOne]
  | .add r s p => s.pre ++ opTok r.cs :: p.pre
  | .addZero r s => s.pre ++ [opTok r.cs, tokMinus, tokOne]
end

theorem zeroTok_isZero : IsZero zeroTok := ⟨rfl, rfl⟩
theorem opTok_not_zero (s : List Char) : ¬ IsZero (opTok s) := by intro h; cases h.1
theorem lpar_not_zero : ¬ IsZero lparTok := by intro h; cases h.1
theorem rpar_not_zero : ¬ IsZero rparTok := by intro h; cases h.1

theorem replaceZero_single (t : Tok) (h : ¬ IsZero t) : replaceZero [t] = [t] := by
  rw [replaceZero_cons_other t [] h]; rfl

theorem replaceZero_signToks (sg : Option Run) : replaceZero (signToks sg) = signToks sg := by
  cases sg with
  | none => rfl
  | some r => exact replaceZero_single _ (opTok_not_zero _)

mutual
theorem AtomR.replaceZero_raw : ∀ x : AtomR, replaceZero x.raw = x.pre
  | .tok t h => replaceZero_single t h.2.2.1
  | .paren s => by
    simp only [AtomR.raw, AtomR.pre]
    rw [replaceZero_cons_other _ _ lpar_not_zero, replaceZero_append, SumR.replaceZero_raw s,
      replaceZero_single _ rpar_not_zero]
  | .dot => replaceZero_single _ (opTok_not_zero _)
theorem PowR.replaceZero_raw : ∀ x : PowR, replaceZero x.raw = x.pre
  | .atom a => AtomR.replaceZero_raw a
  | .pow op a p => by
    simp only [PowR.raw, PowR.pre]
    rw [replaceZero_append, AtomR.replaceZero_raw a, replaceZero_cons_other _ _ (opTok_not_zero _),
      PowR.replaceZero_raw p]
theorem InterR.replaceZero_raw : ∀ x : InterR, replaceZero x.raw = x.pre
  | .pow p => PowR.replaceZero_raw p
  | .inter i p => by
    simp only [InterR.raw, InterR.pre]
    rw [replaceZero_append, InterR.replaceZero_raw i, replaceZero_cons_other _ _ (opTok_not_zero _),
      PowR.replaceZero_raw p]
theorem ProdR.replaceZero_raw : ∀ x : ProdR, replaceZero x.raw = x.pre
  | .inter i => InterR.replaceZero_raw i
  | .mul op p i => by
    simp only [ProdR.raw, ProdR.pre]
    rw [replaceZero_append, ProdR.replaceZero_raw p, replaceZero_cons_other _ _ (opTok_not_zero _),
      InterR.replaceZero_raw i]
theorem SumR.replaceZero_raw : ∀ x : SumR, replaceZero x.raw = x.pre
  | .first sg p => by
    simp only [SumR.raw, SumR.pre]
    rw [replaceZero_append, replaceZero_signToks, ProdR.replaceZero_raw p]
  | .firstZero sg => by
    simp only [SumR.raw, SumR.pre]
    rw [replaceZero_append, replaceZero_signToks, replaceZero_cons_zero _ _ zeroTok_isZero]
    rfl
  | .add r s p => by
    simp only [SumR.raw, SumR.pre]
    rw [replaceZero_append, SumR.replaceZero_raw s, replaceZero_cons_other _ _ (opTok_not_zero _),
      ProdR.replaceZero_raw p]
  | .addZero r s => by
    simp only [SumR.raw, SumR.pre]
    rw [replaceZero_append, SumR.replaceZero_raw s, replaceZero_cons_other _ _ (opTok_not_zero _),
      replaceZero_cons_zero _ _ zeroTok_isZero]
    rfl
end

/-! ### the tokens after `merge_operator_tokens` (`mrg`) -/

mutual
def AtomR.mrg : AtomR → List Tok
  | .tok t _ => [t]
  | .paren s => lparTok :: (s.mrg [] ++ [rparTok])
  | .dot => [dotTok]
def PowR.mrg : PowR → List Tok
  | .atom a => a.mrg
  | .pow op a p => a.mrg ++ opTok op.sym :: p.mrg
def InterR.mrg : InterR → List Tok
  | .pow p => p.mrg
  | .inter i p => i.mrg ++ opTok colonSym :: p.mrg
def ProdR.mrg : ProdR → List Tok
  | .inter i => i.mrg
  | .mul op p i => p.mrg ++ opTok op.sym :: i.mrg
/-- `pfx`: the text of a pending sign token in front (the inserted `+` of the intercept), or `[]` -/
def SumR.mrg (pfx : List Char) : SumR → List Tok
  | .first none p => emit pfx ++ p.mrg
  | .first (some r) p => opTok (pfx ++ r.cs) :: p.mrg
  | .firstZero sg => [opTok (pfx ++ signCs sg ++ ['-']), tokOne]
  | .add r s p => s.mrg pfx ++ opTok r.cs :: p.mrg
  | .addZero r s => s.mrg pfx ++ [opTok (r.cs ++ ['-']), tokOne]
end

/-- the list starts with a token that is not pooled by `merge_operator_tokens` and in front of which
`insert_tokens_after` puts the joining `+`: an atom, an opening bracket, or the `.` token -/
def HeadNonop (A : List Tok) : Prop := ∃ u A', A = u :: A' ∧ NonPool u ∧ needsJoin (some u) = true

theorem headNonop_append {A : List Tok} (h : HeadNonop A) (B : List Tok) : HeadNonop (A ++ B) := by
  obtain ⟨u, A', rfl, hu⟩ := h
  exact ⟨u, A' ++ B, rfl, hu⟩

theorem headNonop_of_nonop (u : Tok) (A : List Tok) (hu : ¬ IsOp u) : HeadNonop (u :: A) :=
  ⟨u, A, rfl, nonPool_of_nonop u hu, needsJoin_nonop u hu⟩

/-- a token that is not pooled flushes the pending token and is emitted -/
theorem mergeAux_nonpool_pend (t : Tok) (ts : List Tok) (ht : NonPool t) (p : Option Tok) :
    mergeSignsAux (t :: ts) p = (match p with | some q => q :: t :: mergeSignsAux ts none | none => t :: mergeSignsAux ts none) := by
  unfold NonPool at ht
  cases p with
  | none => simp only [mergeSignsAux]; exact if_pos ht
  | some q => simp only [mergeSignsAux]; exact if_pos ht

/-- a piece that starts with such a token: the pending token is emitted in front of it -/
theorem mergesTo_pend {A B : List Tok} (pfx : List Char) (hh : HeadNonop A) (h : MergesTo [] A B) :
    MergesTo pfx A (emit pfx ++ B) := by
  obtain ⟨u, A', rfl, hu, _⟩ := hh
  intro Y
  have h0 := h Y
  have e : pend [] = none := rfl
  rw [e, List.cons_append, mergeAux_nonpool_pend u _ hu none] at h0
  rw [List.cons_append, mergeAux_nonpool_pend u _ hu]
  unfold pend emit
  by_cases hp : pfx = []
  · simp only [hp, if_true, List.nil_append]
    exact h0
  · simp only [hp, if_false, List.cons_append, List.nil_append]
    rw [← h0]

theorem tokOne_nonop : ¬ IsOp tokOne := by decide
theorem tokMinus_eq : tokMinus = opTok ['-'] := rfl
theorem tokPlus_eq : tokPlus = opTok ['+'] := rfl

theorem nonPool_opTok (s : List Char) (h : ∀ c, s.head? = some c → isSign c = false) : NonPool (opTok s) := by
  unfold NonPool
  cases hs : s.head? with
  | none => simp [opTok, hs]
  | some c => simp [opTok, hs, h c hs]

theorem nonPool_pow (op : PowOp) : NonPool (opTok op.sym) := by cases op <;> decide
theorem nonPool_mul (op : MulOp) : NonPool (opTok op.sym) := by cases op <;> decide
theorem nonPool_colon : NonPool (opTok colonSym) := by decide

theorem isRun_signCs_minus (pfx : List Char) (sg : Option Run) (hp : pfx = [] ∨ IsRun pfx) :
    IsRun (pfx ++ signCs sg ++ ['-']) := by
  have h1 : IsRun (signCs sg ++ ['-']) := by
    cases sg with
    | none => exact isRun_minus
    | some r => exact isRun_append r.ok isRun_minus
  rcases hp with rfl | hp
  · simpa using h1
  · rw [List.append_assoc]; exact isRun_append hp h1

/-- `[signs] 0` after a pending token: ONE operator token, then `1` -/
theorem mergesTo_zero (pfx : List Char) (sg : Option Run) :
    MergesTo pfx (signToks sg ++ [tokMinus, tokOne]) [opTok (pfx ++ signCs sg ++ ['-']), tokOne] := by
  cases sg with
  | none =>
    simp only [signToks, signCs, List.nil_append, List.append_nil]
    rw [tokMinus_eq]
    refine mergesTo_run_cons isRun_minus ?_
    have := mergesTo_nonop (pfx ++ ['-']) tokOne tokOne_nonop
    have he : emit (pfx ++ ['-']) = [opTok (pfx ++ ['-'])] := by unfold emit; simp
    rw [he] at this
    exact this
  | some r =>
    simp only [signToks, signCs, List.singleton_append]
    refine mergesTo_run_cons r.ok ?_
    rw [tokMinus_eq]
    refine mergesTo_run_cons isRun_minus ?_
    have := mergesTo_nonop (pfx ++ r.cs ++ ['-']) tokOne tokOne_nonop
    have he : emit (pfx ++ r.cs ++ ['-']) = [opTok (pfx ++ r.cs ++ ['-'])] := by unfold emit; simp
    rw [he] at this
    exact this

mutual
theorem AtomR.merges : ∀ x : AtomR, MergesTo [] x.pre x.mrg ∧ HeadNonop x.pre
  | .tok t h => by
    refine ⟨?_, headNonop_of_nonop t [] h.2.1⟩
    have := mergesTo_nonop [] t h.2.1
    simp only [emit, if_true, List.nil_append] at this
    simpa [AtomR.pre, AtomR.mrg] using this
  | .dot => ⟨mergesTo_nonpool _ (by decide), dotTok, [], rfl, by decide, by decide⟩
  | .paren s => by
    refine ⟨?_, headNonop_of_nonop lparTok _ lparTok_nonop⟩
    have h1 : MergesTo [] [lparTok] [lparTok] := by simpa [emit] using mergesTo_nonop [] lparTok lparTok_nonop
    have h2 := SumR.merges s [] (Or.inl rfl)
    have h3 : MergesTo [] [rparTok] [rparTok] := by simpa [emit] using mergesTo_nonop [] rparTok rparTok_nonop
    exact mergesTo_append h1 (mergesTo_append h2 h3)
theorem PowR.merges : ∀ x : PowR, MergesTo [] x.pre x.mrg ∧ HeadNonop x.pre
  | .atom a => AtomR.merges a
  | .pow op a p => by
    obtain ⟨h1, hh⟩ := AtomR.merges a
    refine ⟨?_, headNonop_append hh _⟩
    exact mergesTo_append h1 (mergesTo_append (mergesTo_nonpool _ (nonPool_pow op)) (PowR.merges p).1)
theorem InterR.merges : ∀ x : InterR, MergesTo [] x.pre x.mrg ∧ HeadNonop x.pre
  | .pow p => PowR.merges p
  | .inter i p => by
    obtain ⟨h1, hh⟩ := InterR.merges i
    refine ⟨?_, headNonop_append hh _⟩
    exact mergesTo_append h1 (mergesTo_append (mergesTo_nonpool _ nonPool_colon) (PowR.merges p).1)
theorem ProdR.merges : ∀ x : ProdR, MergesTo [] x.pre x.mrg ∧ HeadNonop x.pre
  | .inter i => InterR.merges i
  | .mul op p i => by
    obtain ⟨h1, hh⟩ := ProdR.merges p
    refine ⟨?_, headNonop_append hh _⟩
    exact mergesTo_append h1 (mergesTo_append (mergesTo_nonpool _ (nonPool_mul op)) (InterR.merges i).1)
/-- `merge_operator_tokens` on the tokens of a sum, with a pending sign token `pfx` in front -/
theorem SumR.merges : ∀ (x : SumR) (pfx : List Char), pfx = [] ∨ IsRun pfx → MergesTo pfx x.pre (x.mrg pfx)
  | .first none p, pfx, _ => by
    obtain ⟨h1, hh⟩ := ProdR.merges p
    simpa [SumR.pre, SumR.mrg, signToks] using mergesTo_pend pfx hh h1
  | .first (some r) p, pfx, hp => by
    obtain ⟨h1, hh⟩ := ProdR.merges p
    simp only [SumR.pre, SumR.mrg, signToks, List.singleton_append]
    refine mergesTo_run_cons r.ok ?_
    have := mergesTo_pend (pfx ++ r.cs) hh h1
    have he : emit (pfx ++ r.cs) = [opTok (pfx ++ r.cs)] := by
      unfold emit; simp [r.ok.1]
    rw [he] at this
    exact this
  | .firstZero sg, pfx, _ => mergesTo_zero pfx sg
  | .add r s p, pfx, hp => by
    obtain ⟨h1, hh⟩ := ProdR.merges p
    simp only [SumR.pre, SumR.mrg]
    refine mergesTo_append (SumR.merges s pfx hp) ?_
    refine mergesTo_run_cons r.ok ?_
    have := mergesTo_pend ([] ++ r.cs) hh h1
    have he : emit ([] ++ r.cs) = [opTok r.cs] := by unfold emit; simp [r.ok.1]
    rw [he] at this
    exact this
  | .addZero r s, pfx, hp => by
    simp only [SumR.pre, SumR.mrg]
    refine mergesTo_append (SumR.merges s pfx hp) ?_
    have := mergesTo_zero [] (some r)
    simpa [signToks, signCs] using this
end

/-! ### the expression of the old grammar: runs collapsed by parity, `± 0` read as `∓ 1` -/

mutual
def AtomR.norm : AtomR → Atom
  | .tok t h => .tok t ⟨h.1, h.2.1⟩
  | .paren s => .paren s.norm
  | .dot => .tok x0 ⟨by decide, by decide⟩
def PowR.norm : PowR → Pow
  | .atom a => .atom a.norm
  | .pow op a p => .pow op a.norm p.norm
def InterR.norm : InterR → Inter
  | .pow p => .pow p.norm
  | .inter i p => .inter i.norm p.norm
def ProdR.norm : ProdR → Prod
  | .inter i => .inter i.norm
  | .mul op p i => .mul op p.norm i.norm
def SumR.norm : SumR → Sum
  | .first none p => .first none p.norm
  | .first (some r) p => .first (some (runOp r.cs)) p.norm
  | .firstZero sg => .first (some (runOp (signCs sg ++ ['-']))) oneProd
  | .add r s p => .add (runOp r.cs) s.norm p.norm
  | .addZero r s => .add (runOp (r.cs ++ ['-'])) s.norm oneProd
end

def oneSum : Sum := .first none oneProd

/-- `1 <pfx> s`: the old-grammar sum whose tokens are `1` followed by the merged tokens of `s` with the
pending sign token `pfx` -/
def one1 (pfx : List Char) : SumR → Sum
  | .first sg p => .add (runOp (pfx ++ signCs sg)) oneSum p.norm
  | .firstZero sg => .add (runOp (pfx ++ signCs sg ++ ['-'])) oneSum oneProd
  | .add r s p => .add (runOp r.cs) (one1 pfx s) p.norm
  | .addZero r s => .add (runOp (r.cs ++ ['-'])) (one1 pfx s) oneProd

/-- the sum starts with a sign or with `0` -/
def hasLead : SumR → Prop
  | .first none _ => False
  | .first (some _) _ => True
  | .firstZero _ => True
  | .add _ s _ => hasLead s
  | .addZero _ s => hasLead s

section PWfacts
variable (a b c : Bool)

theorem pw_sign (r : List Char) (hr : IsRun r) : TokEq (documentedTable a b c) (opTok r) (opTok (runOp r).sym) :=
  tokEq_run a b c r _ hr (by cases (runOp r) <;> decide) (runOp_single _).symm

theorem lin_oneProd : lin oneProd.toE = [tokOne] := rfl
theorem lin_oneSum : lin oneSum.toE = [tokOne] := rfl

theorem low_add (op : AddOp) : ∀ o ∈ op.cands, o.prec < 1000 := by cases op <;> decide
theorem low_mul (op : MulOp) : ∀ o ∈ op.cands, o.prec < 1000 := by cases op <;> decide
theorem low_pow (op : PowOp) : ∀ o ∈ op.cands, o.prec < 1000 := by cases op <;> decide

theorem follower_run (r : List Char) (hr : IsRun r) : Follower (documentedTable a b c) (opTok r) :=
  follower_op _ r _ (resolve_run a b c r hr) (low_add _)
theorem follower_pow (op : PowOp) : Follower (documentedTable a b c) (opTok op.sym) :=
  follower_op _ _ _ (resolve_pow a b c op) (low_pow op)
theorem follower_mul (op : MulOp) : Follower (documentedTable a b c) (opTok op.sym) :=
  follower_op _ _ _ (resolve_mul a b c op) (low_mul op)
theorem follower_colon : Follower (documentedTable a b c) (opTok colonSym) :=
  follower_op _ _ _ (resolve_colon a b c) (by decide)

/-- a follower in front -/
theorem fol_cons {tab : OpTable} (u : Tok) (r : List Tok) (h : Follower tab u) :
    (u :: r) = [] ∨ ∃ u' r', u :: r = u' :: r' ∧ Follower tab u' := Or.inr ⟨u, r, rfl, h⟩

mutual
theorem AtomR.pw : ∀ x : AtomR, PD (documentedTable a b c) x.mrg (lin x.norm.toE)
  | .tok t h => PD.same t h.2.2.2 .nil
  | .dot => .dot (Or.inl rfl) .nil
  | .paren s => by
    simp only [AtomR.mrg, AtomR.norm, Atom.toE, lin]
    exact PD.same _ lpar_ne_x0 (PD.append (SumR.pw0 s) (PD.same _ rpar_ne_x0 .nil) (fol_cons _ _ (follower_rpar _)))
theorem PowR.pw : ∀ x : PowR, PD (documentedTable a b c) x.mrg (lin x.norm.toE)
  | .atom x => AtomR.pw x
  | .pow op x p => by
    simp only [PowR.mrg, PowR.norm, Pow.toE, lin]
    exact PD.append (AtomR.pw x) (PD.same _ (opTok_ne_x0 _) (PowR.pw p)) (fol_cons _ _ (follower_pow a b c op))
theorem InterR.pw : ∀ x : InterR, PD (documentedTable a b c) x.mrg (lin x.norm.toE)
  | .pow p => PowR.pw p
  | .inter i p => by
    simp only [InterR.mrg, InterR.norm, Inter.toE, lin]
    exact PD.append (InterR.pw i) (PD.same _ (opTok_ne_x0 _) (PowR.pw p)) (fol_cons _ _ (follower_colon a b c))
theorem ProdR.pw : ∀ x : ProdR, PD (documentedTable a b c) x.mrg (lin x.norm.toE)
  | .inter i => InterR.pw i
  | .mul op p i => by
    simp only [ProdR.mrg, ProdR.norm, Prod.toE, lin]
    exact PD.append (ProdR.pw p) (PD.same _ (opTok_ne_x0 _) (InterR.pw i)) (fol_cons _ _ (follower_mul a b c op))
/-- the merged tokens of a sum against the tokens of its normal form -/
theorem SumR.pw0 : ∀ x : SumR, PD (documentedTable a b c) (x.mrg []) (lin x.norm.toE)
  | .first none p => by
    simp only [SumR.mrg, SumR.norm, Sum.toE, emit, if_true, List.nil_append]
    exact ProdR.pw p
  | .first (some r) p => by
    simp only [SumR.mrg, SumR.norm, Sum.toE, lin, List.nil_append]
    exact .cons (pw_sign a b c r.cs r.ok) (opTok_ne_x0 _) (ProdR.pw p)
  | .firstZero sg => by
    simp only [SumR.mrg, SumR.norm, Sum.toE, lin, List.nil_append, lin_oneProd]
    exact .cons (pw_sign a b c _ (by simpa using isRun_signCs_minus [] sg (Or.inl rfl))) (opTok_ne_x0 _)
      (PD.same _ tokOne_ne_x0 .nil)
  | .add r s p => by
    simp only [SumR.mrg, SumR.norm, Sum.toE, lin]
    exact PD.append (SumR.pw0 s) (.cons (pw_sign a b c r.cs r.ok) (opTok_ne_x0 _) (ProdR.pw p))
      (fol_cons _ _ (follower_run a b c r.cs r.ok))
  | .addZero r s => by
    simp only [SumR.mrg, SumR.norm, Sum.toE, lin, lin_oneProd]
    exact PD.append (SumR.pw0 s) (.cons (pw_sign a b c _ (isRun_append r.ok isRun_minus)) (opTok_ne_x0 _)
      (PD.same _ tokOne_ne_x0 .nil)) (fol_cons _ _ (follower_run a b c _ (isRun_append r.ok isRun_minus)))
end

theorem isRun_pfx_sign (pfx : List Char) (sg : Option Run) (h : IsRun pfx ∨ (pfx = [] ∧ sg ≠ none)) :
    IsRun (pfx ++ signCs sg) := by
  rcases h with h | ⟨rfl, h⟩
  · cases sg with
    | none => simpa [signCs] using h
    | some r => exact isRun_append h r.ok
  · cases sg with
    | none => exact absurd rfl h
    | some r => simpa [signCs] using r.ok

/-- `1` followed by the merged tokens of `s` (pending sign `pfx`) against the tokens of `one1 pfx s` —
provided something follows the `1`: a pending sign, or a leading sign / `0` of `s` -/
theorem pw1 (pfx : List Char) (hp : pfx = [] ∨ IsRun pfx) : ∀ s : SumR, (IsRun pfx ∨ hasLead s) →
    PD (documentedTable a b c) (tokOne :: s.mrg pfx) (lin (one1 pfx s).toE)
  | .first none p, h => by
    have hr : IsRun pfx := h.elim id (fun h => h.elim)
    simp only [SumR.mrg, one1, signCs, List.append_nil, Sum.toE, lin, lin_oneSum, List.singleton_append]
    have he : emit pfx = [opTok pfx] := by unfold emit; simp [hr.1]
    rw [he]
    exact PD.same _ tokOne_ne_x0 (.cons (pw_sign a b c pfx hr) (opTok_ne_x0 _) (ProdR.pw a b c p))
  | .first (some r) p, _ => by
    simp only [SumR.mrg, one1, signCs, Sum.toE, lin, lin_oneSum, List.singleton_append]
    have hr : IsRun (pfx ++ r.cs) := by
      rcases hp with rfl | hp
      · simpa using r.ok
      · exact isRun_append hp r.ok
    exact PD.same _ tokOne_ne_x0 (.cons (pw_sign a b c _ hr) (opTok_ne_x0 _) (ProdR.pw a b c p))
  | .firstZero sg, _ => by
    simp only [SumR.mrg, one1, Sum.toE, lin, lin_oneSum, lin_oneProd, List.singleton_append]
    exact PD.same _ tokOne_ne_x0 (.cons (pw_sign a b c _ (isRun_signCs_minus pfx sg hp)) (opTok_ne_x0 _)
      (PD.same _ tokOne_ne_x0 .nil))
  | .add r s p, h => by
    simp only [SumR.mrg, one1, Sum.toE, lin]
    have ih := pw1 pfx hp s (h.elim Or.inl Or.inr)
    have : tokOne :: (s.mrg pfx ++ opTok r.cs :: p.mrg) = (tokOne :: s.mrg pfx) ++ opTok r.cs :: p.mrg := rfl
    rw [this]
    exact PD.append ih (.cons (pw_sign a b c r.cs r.ok) (opTok_ne_x0 _) (ProdR.pw a b c p))
      (fol_cons _ _ (follower_run a b c r.cs r.ok))
  | .addZero r s, h => by
    simp only [SumR.mrg, one1, Sum.toE, lin, lin_oneProd]
    have ih := pw1 pfx hp s (h.elim Or.inl Or.inr)
    have : tokOne :: (s.mrg pfx ++ [opTok (r.cs ++ ['-']), tokOne])
        = (tokOne :: s.mrg pfx) ++ [opTok (r.cs ++ ['-']), tokOne] := rfl
    rw [this]
    exact PD.append ih (.cons (pw_sign a b c _ (isRun_append r.ok isRun_minus)) (opTok_ne_x0 _)
      (PD.same _ tokOne_ne_x0 .nil)) (fol_cons _ _ (follower_run a b c _ (isRun_append r.ok isRun_minus)))

end PWfacts

/-- `1 + s` (resp. `1 s` when `s` starts with a sign or `0`) in normal form is `withOne` of the normal form -/
theorem one1_eq_withOne (pfx : List Char) (hp : pfx = [] ∨ pfx = ['+']) : ∀ s : SumR, (pfx = ['+'] ∨ hasLead s) →
    one1 pfx s = withOne s.norm
  | .first none p, h => by
    have : pfx = ['+'] := h.elim id (fun h => h.elim)
    subst this
    rfl
  | .first (some r) p, _ => by
    simp only [one1, SumR.norm, withOne, signCs]
    rcases hp with rfl | rfl
    · rfl
    · rw [show ['+'] ++ r.cs = '+' :: r.cs from rfl, runOp_plus_append]; rfl
  | .firstZero sg, _ => by
    simp only [one1, SumR.norm, withOne]
    rcases hp with rfl | rfl
    · rfl
    · rw [show ['+'] ++ signCs sg ++ ['-'] = '+' :: (signCs sg ++ ['-']) from rfl, runOp_plus_append]; rfl
  | .add r s p, h => by
    simp only [one1, SumR.norm, withOne, one1_eq_withOne pfx hp s h]
  | .addZero r s, h => by
    simp only [one1, SumR.norm, withOne, one1_eq_withOne pfx hp s h]

/-! ### the hypotheses of the token-rewriting theorems, for `pre` -/

theorem plain_nil : Plain [] := fun _ h => by cases h
theorem plain_cons {t : Tok} {A : List Tok} (ht : PlainTok t) (hA : Plain A) : Plain (t :: A) := by
  intro u hu
  rcases List.mem_cons.1 hu with rfl | hu
  · exact ht
  · exact hA u hu
theorem plain_append {A B : List Tok} (hA : Plain A) (hB : Plain B) : Plain (A ++ B) := by
  intro u hu
  rcases List.mem_append.1 hu with hu | hu
  · exact hA u hu
  · exact hB u hu

theorem plainTok_nonop (t : Tok) (h : t.kind ≠ some .operator) (hz : ¬ IsZero t) : PlainTok t :=
  ⟨fun hk => absurd hk h, fun hk => absurd hk h, hz⟩

theorem plainTok_op (sym : List Char) (h1 : sym.contains '~' = false) (h2 : sym.contains '|' = false) :
    PlainTok (opTok sym) := ⟨fun _ => h1, fun _ => h2, opTok_not_zero _⟩

theorem run_noSep (r : List Char) (hr : IsRun r) (c : Char) (hc : c ≠ '+' ∧ c ≠ '-') : r.contains c = false := by
  cases h : r.contains c with
  | false => rfl
  | true =>
    have hm : c ∈ r := List.contains_iff_mem.1 h
    rcases hr.2 c hm with rfl | rfl
    · exact absurd rfl hc.1
    · exact absurd rfl hc.2

theorem plainTok_run (r : Run) : PlainTok (opTok r.cs) :=
  plainTok_op _ (run_noSep _ r.ok _ (by decide)) (run_noSep _ r.ok _ (by decide))

theorem plain_signToks (sg : Option Run) : Plain (signToks sg) := by
  cases sg with
  | none => exact plain_nil
  | some r => exact plain_cons (plainTok_run r) plain_nil

theorem lpar_plain : PlainTok lparTok := plainTok_nonop _ (by decide) lpar_not_zero
theorem rpar_plain : PlainTok rparTok := plainTok_nonop _ (by decide) rpar_not_zero

mutual
theorem AtomR.plain : ∀ x : AtomR, Plain x.pre
  | .tok t h => plain_cons (plainTok_nonop t h.2.1 h.2.2.1) plain_nil
  | .dot => plain_cons (plainTok_op _ (by decide) (by decide)) plain_nil
  | .paren s => plain_cons lpar_plain (plain_append (SumR.plain s) (plain_cons rpar_plain plain_nil))
theorem PowR.plain : ∀ x : PowR, Plain x.pre
  | .atom x => AtomR.plain x
  | .pow op x p => plain_append (AtomR.plain x)
      (plain_cons (plainTok_op _ (PowOp.sym_ok op).1 (PowOp.sym_ok op).2) (PowR.plain p))
theorem InterR.plain : ∀ x : InterR, Plain x.pre
  | .pow p => PowR.plain p
  | .inter i p => plain_append (InterR.plain i) (plain_cons (plainTok_op _ (by decide) (by decide)) (PowR.plain p))
theorem ProdR.plain : ∀ x : ProdR, Plain x.pre
  | .inter i => InterR.plain i
  | .mul op p i => plain_append (ProdR.plain p)
      (plain_cons (plainTok_op _ (MulOp.sym_ok op).1 (MulOp.sym_ok op).2) (InterR.plain i))
theorem SumR.plain : ∀ x : SumR, Plain x.pre
  | .first sg p => plain_append (plain_signToks sg) (ProdR.plain p)
  | .firstZero sg => plain_append (plain_signToks sg) (plain_cons minus_plain (plain_cons one_plain plain_nil))
  | .add r s p => plain_append (SumR.plain s) (plain_cons (plainTok_run r) (ProdR.plain p))
  | .addZero r s => plain_append (SumR.plain s)
      (plain_cons (plainTok_run r) (plain_cons minus_plain (plain_cons one_plain plain_nil)))
end

/-- brackets are balanced in `pre` -/
theorem ctx_op (sym : List Char) (A : List Tok) (ctx : List Char) :
    ctxAfter (opTok sym :: A) ctx = ctxAfter A ctx := by simp [ctxAfter, opTok]

theorem ctx_nonctx (t : Tok) (h : t.kind ≠ some .context) (A : List Tok) (ctx : List Char) :
    ctxAfter (t :: A) ctx = ctxAfter A ctx := by
  have : (t.kind == some .context) = false := by simp [h]
  simp [ctxAfter, this]

theorem ctx_signToks (sg : Option Run) (A : List Tok) (ctx : List Char) :
    ctxAfter (signToks sg ++ A) ctx = ctxAfter A ctx := by
  cases sg with
  | none => rfl
  | some r => exact ctx_op _ _ _

mutual
theorem AtomR.ctx : ∀ (x : AtomR) (A : List Tok) (ctx : List Char), ctxAfter (x.pre ++ A) ctx = ctxAfter A ctx
  | .tok t h, A, ctx => ctx_nonctx t h.1 A ctx
  | .dot, A, ctx => ctx_op _ A ctx
  | .paren s, A, ctx => by
    have e : (AtomR.paren s).pre ++ A = lparTok :: (s.pre ++ (rparTok :: A)) := by
      simp [AtomR.pre]
    rw [e]
    have h1 : ctxAfter (lparTok :: (s.pre ++ (rparTok :: A))) ctx = ctxAfter (s.pre ++ (rparTok :: A)) ('(' :: ctx) := by
      simp [ctxAfter, lparTok]
    rw [h1, SumR.ctx s]
    simp [ctxAfter, rparTok]
theorem PowR.ctx : ∀ (x : PowR) (A : List Tok) (ctx : List Char), ctxAfter (x.pre ++ A) ctx = ctxAfter A ctx
  | .atom x, A, ctx => AtomR.ctx x A ctx
  | .pow op x p, A, ctx => by
    simp only [PowR.pre, List.append_assoc, List.cons_append]
    rw [AtomR.ctx x, ctx_op, PowR.ctx p]
theorem InterR.ctx : ∀ (x : InterR) (A : List Tok) (ctx : List Char), ctxAfter (x.pre ++ A) ctx = ctxAfter A ctx
  | .pow p, A, ctx => PowR.ctx p A ctx
  | .inter i p, A, ctx => by
    simp only [InterR.pre, List.append_assoc, List.cons_append]
    rw [InterR.ctx i, ctx_op, PowR.ctx p]
theorem ProdR.ctx : ∀ (x : ProdR) (A : List Tok) (ctx : List Char), ctxAfter (x.pre ++ A) ctx = ctxAfter A ctx
  | .inter i, A, ctx => InterR.ctx i A ctx
  | .mul op p i, A, ctx => by
    simp only [ProdR.pre, List.append_assoc, List.cons_append]
    rw [ProdR.ctx p, ctx_op, InterR.ctx i]
theorem SumR.ctx : ∀ (x : SumR) (A : List Tok) (ctx : List Char), ctxAfter (x.pre ++ A) ctx = ctxAfter A ctx
  | .first sg p, A, ctx => by
    simp only [SumR.pre, List.append_assoc]
    rw [ctx_signToks, ProdR.ctx p]
  | .firstZero sg, A, ctx => by
    simp only [SumR.pre, List.append_assoc]
    rw [ctx_signToks]
    simp [ctxAfter, tokMinus, tokOne, Tok.synth]
  | .add r s p, A, ctx => by
    simp only [SumR.pre, List.append_assoc, List.cons_append]
    rw [SumR.ctx s, ctx_op, ProdR.ctx p]
  | .addZero r s, A, ctx => by
    simp only [SumR.pre, List.append_assoc, List.cons_append, List.nil_append]
    rw [SumR.ctx s, ctx_op]
    simp [ctxAfter, tokMinus, tokOne, Tok.synth]
end

/-- the first token of the (rewritten) sum is a bare `+` / `-` operator token -/
def headBare : SumR → Bool
  | .first none _ => false
  | .first (some r) _ => r.cs == ['+'] || r.cs == ['-']
  | .firstZero none => true
  | .firstZero (some r) => r.cs == ['+'] || r.cs == ['-']
  | .add _ s _ => headBare s
  | .addZero _ s => headBare s

theorem needsJoin_opTok (sym : List Char) : needsJoin (some (opTok sym)) = !(sym == ['+'] || sym == ['-']) := by
  simp [needsJoin, opTok]

/-- whether `insert_tokens_after` puts a joining `+` behind the `1` in front of this part -/
theorem needsJoin_head : ∀ (s : SumR) (A : List Tok), needsJoin (s.pre ++ A).head? = !headBare s
  | .first none p, A => by
    obtain ⟨u, A', hp, _, hu⟩ := (ProdR.merges p).2
    simp only [SumR.pre, signToks, List.nil_append, hp, List.cons_append, List.head?_cons, headBare]
    exact hu
  | .first (some r) p, A => by
    simp only [SumR.pre, signToks, List.singleton_append, List.cons_append, List.head?_cons, headBare]
    exact needsJoin_opTok _
  | .firstZero none, A => rfl
  | .firstZero (some r), A => by
    simp only [SumR.pre, signToks, List.singleton_append, List.cons_append, List.head?_cons, headBare]
    exact needsJoin_opTok _
  | .add r s p, A => by
    simp only [SumR.pre, List.append_assoc, headBare]
    exact needsJoin_head s _
  | .addZero r s, A => by
    simp only [SumR.pre, List.append_assoc, headBare]
    exact needsJoin_head s _

theorem hasLead_of_headBare : ∀ s : SumR, headBare s = true → hasLead s
  | .first none _, h => by simp [headBare] at h
  | .first (some _) _, _ => trivial
  | .firstZero _, _ => trivial
  | .add _ s _, h => hasLead_of_headBare s h
  | .addZero _ s, h => hasLead_of_headBare s h

theorem pre_ne_nil : ∀ s : SumR, s.pre ≠ []
  | .first sg p => by
    obtain ⟨u, A', hp, _⟩ := (ProdR.merges p).2
    simp [SumR.pre, hp]
  | .firstZero sg => by simp [SumR.pre]
  | .add r s p => by simp [SumR.pre]
  | .addZero r s => by simp [SumR.pre]

end FormulaicVerif.Proofs.C01GrammarR
